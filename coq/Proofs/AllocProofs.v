(* C03 (extension): the threaded allocation counters of Model/Alloc.v
   (1) are attached to the model functions (same state),
   (2) dominate the growth of the line table (rows + cells): nothing is allocated uncounted,
   (3) are bounded by the screen measure for every CSI control function (alloc_bound). *)
From Coq Require Import ZArith NArith List Bool Lia.
From IE Require Import Model.TermCore Model.AnsiTok Model.Cost Model.Alloc Proofs.TermProofs Proofs.CostProofs.
Import ListNotations.
Local Open Scope Z_scope.

(* ---- lists ------------------------------------------------------------------------------------------------------------ *)
Lemma zlen_app {A} (a b : list A) : zlen (a ++ b) = zlen a + zlen b.
Proof. unfold zlen. rewrite app_length. lia. Qed.
Lemma zlen_cons {A} (a : A) l : zlen (a :: l) = 1 + zlen l.
Proof. unfold zlen. cbn [length]. lia. Qed.
Lemma zlen_repeat {A} (a : A) n : zlen (repeat a n) = Z.of_nat n.
Proof. unfold zlen. rewrite repeat_length. reflexivity. Qed.
Lemma cells_app a b : cells (a ++ b) = cells a + cells b.
Proof. induction a as [|r a IH]; cbn [cells app]; [lia|]. rewrite IH. lia. Qed.
Lemma cells_repeat r n : cells (repeat r n) = Z.of_nat n * zlen r.
Proof. induction n; cbn [cells repeat]; [lia|]. rewrite IHn. lia. Qed.
Lemma maxrow_app a b : maxrow (a ++ b) = Z.max (maxrow a) (maxrow b).
Proof. induction a as [|r a IH]; cbn [maxrow app]; [pose proof (maxrow_nonneg b); lia|]. rewrite IH. lia. Qed.
Lemma maxrow_repeat r n : maxrow (repeat r n) <= zlen r.
Proof. induction n; cbn [maxrow repeat]; [apply zlen_nonneg|]. lia. Qed.
Lemma cells_nonneg ls : 0 <= cells ls.
Proof. induction ls as [|r ls IH]; cbn [cells]; [lia|]. pose proof (zlen_nonneg r). lia. Qed.
Lemma cells_le ls : cells ls <= zlen ls * maxrow ls.
Proof.
  induction ls as [|r ls IH]; cbn [cells maxrow]; [unfold zlen; cbn; lia|]. rewrite zlen_cons.
  pose proof (zlen_nonneg r). pose proof (zlen_nonneg ls). pose proof (maxrow_nonneg ls). nia.
Qed.
Lemma set_nth_len {A} (l : list A) : forall i a, length (set_nth l i a) = length l.
Proof. induction l as [|h l IH]; intros [|i] a; cbn [set_nth length]; try reflexivity. rewrite IH. reflexivity. Qed.
Lemma zlen_set_nth {A} (l : list A) i a : zlen (set_nth l i a) = zlen l.
Proof. unfold zlen. rewrite set_nth_len. reflexivity. Qed.
Lemma cells_set_nth : forall ls i r r', nth_error ls i = Some r -> cells (set_nth ls i r') = cells ls - zlen r + zlen r'.
Proof.
  induction ls as [|h ls IH]; intros [|i] r r' H; cbn in H; try discriminate.
  - inversion H; subst. cbn [set_nth cells]. lia.
  - cbn [set_nth cells]. rewrite (IH i r r' H). lia.
Qed.
Lemma maxrow_set_nth : forall ls i r', maxrow (set_nth ls i r') <= Z.max (maxrow ls) (zlen r').
Proof.
  induction ls as [|h ls IH]; intros [|i] r'; cbn [set_nth maxrow]; pose proof (zlen_nonneg r'); try lia.
  specialize (IH i r'). lia.
Qed.
Lemma firstn_all2' {A} (l : list A) n : (length l <= n)%nat -> firstn n l = l.
Proof. apply firstn_all2. Qed.
Lemma resize_grow {A} (l : list A) n d : (length l <= n)%nat -> resize l n d = l ++ repeat d (n - length l).
Proof. intro H. unfold resize. rewrite firstn_all2 by exact H. reflexivity. Qed.
Lemma nth_error_app_repeat {A} (l : list A) d k i : (length l <= i)%nat -> (i < length l + k)%nat -> nth_error (l ++ repeat d k) i = Some d.
Proof.
  intros H1 H2. rewrite nth_error_app2 by exact H1.
  assert (H : (i - length l < k)%nat) by lia. revert H. generalize (i - length l)%nat. clear.
  induction k; intros [|j] H; cbn; try lia; [reflexivity|]. apply IHk. lia.
Qed.
Lemma wz_eq w : wz w = Z.max 0 w. Proof. unfold wz. lia. Qed.
Lemma zlen_line_create w : zlen (line_create w) = wz w.
Proof. unfold line_create, wz. apply zlen_repeat. Qed.

(* ---- Line::set_char ----------------------------------------------------------------------------------------------------- *)
Lemma line_set_nn_len l i c : zlen (line_set_nn l i c) = zlen l + line_set_a l i.
Proof.
  unfold line_set_nn, line_set_a. rewrite zlen_set_nth. destruct (Nat.leb (length l) i) eqn:E.
  - apply Nat.leb_le in E. unfold zlen. unfold resize. rewrite app_length, firstn_length, repeat_length. lia.
  - apply Nat.leb_gt in E. unfold zlen. lia.
Qed.
Lemma line_set_a_nonneg l i : 0 <= line_set_a l i. Proof. unfold line_set_a. lia. Qed.
Lemma line_set_a_le l i : zlen l + line_set_a l i <= Z.max (zlen l) (Z.of_nat i + 1).
Proof. unfold line_set_a, zlen. lia. Qed.

(* ---- Layer::set_char: the counter is exactly the growth of rows + cells ----------------------------------------------------- *)
Lemma lsize_nonneg ls : 0 <= lsize ls.
Proof. unfold lsize. pose proof (zlen_nonneg ls). pose proof (cells_nonneg ls). lia. Qed.
Lemma lset_a_nonneg w h ls x y : 0 <= lset_a w h ls x y.
Proof.
  unfold lset_a. destruct (_ || _); [lia|]. cbv zeta.
  assert (0 <= wz w) by (unfold wz; lia).
  destruct (nth_error ls (Z.to_nat y)); [pose proof (line_set_a_nonneg l (Z.to_nat x))|]; nia.
Qed.
Lemma lset_exact w h ls x y c : lsize (lset w h ls x y c) = lsize ls + lset_a w h ls x y.
Proof.
  unfold lset, lset_a. destruct ((x <? 0) || (y <? 0) || (x >=? w) || (y >=? h)) eqn:E; [lia|].
  apply orb_false_iff in E. destruct E as [E Eh]. apply orb_false_iff in E. destruct E as [E Ew]. apply orb_false_iff in E. destruct E as [Ex Ey].
  apply Z.ltb_ge in Ex. apply Z.ltb_ge in Ey. assert (Hw : x < w) by (destruct (Z.geb_spec x w); [discriminate|lia]).
  cbv zeta. set (yn := Z.to_nat y). destruct (Nat.leb (length ls) yn) eqn:EL.
  - apply Nat.leb_le in EL. rewrite (resize_grow ls (S yn) (line_create w)) by lia.
    assert (HN : nth_error (ls ++ repeat (line_create w) (S yn - length ls)) yn = Some (line_create w)) by (apply nth_error_app_repeat; lia).
    rewrite HN. assert (HO : nth_error ls yn = None) by (apply nth_error_None; exact EL). rewrite HO.
    unfold lsize. rewrite zlen_set_nth, (cells_set_nth _ _ _ _ HN), zlen_app, cells_app, zlen_repeat, cells_repeat, line_set_nn_len, zlen_line_create.
    assert (HA : line_set_a (line_create w) (Z.to_nat x) = 0).
    { unfold line_set_a, line_create. rewrite repeat_length. lia. }
    rewrite HA. nia.
  - apply Nat.leb_gt in EL. destruct (nth_error ls yn) as [row|] eqn:EN; [|apply nth_error_None in EN; lia].
    unfold lsize. rewrite zlen_set_nth, (cells_set_nth _ _ _ _ EN), line_set_nn_len.
    replace (S yn - length ls)%nat with 0%nat by lia. lia.
Qed.

(* rows <= R and no row longer than M *)
Definition fits (R M : Z) (ls : list (list cell)) : Prop := zlen ls <= R /\ maxrow ls <= M.
Lemma fits_size R M ls : 0 <= R -> 0 <= M -> fits R M ls -> lsize ls <= R * (1 + M).
Proof.
  intros HR HM [H1 H2]. unfold lsize. pose proof (cells_le ls). pose proof (zlen_nonneg ls). pose proof (maxrow_nonneg ls). nia.
Qed.
Lemma lset_fits R M w h ls x y c : fits R M ls -> w <= M -> (0 <= y < h -> y + 1 <= R) -> fits R M (lset w h ls x y c).
Proof.
  intros [H1 H2] HwM Hy. unfold lset. destruct ((x <? 0) || (y <? 0) || (x >=? w) || (y >=? h)) eqn:E; [split; assumption|].
  apply orb_false_iff in E. destruct E as [E Eh]. apply orb_false_iff in E. destruct E as [E Ew]. apply orb_false_iff in E. destruct E as [Ex Ey].
  apply Z.ltb_ge in Ex. apply Z.ltb_ge in Ey. assert (Hw : x < w) by (destruct (Z.geb_spec x w); [discriminate|lia]).
  assert (Hh : y < h) by (destruct (Z.geb_spec y h); [discriminate|lia]). specialize (Hy (conj Ey Hh)).
  cbv zeta. set (yn := Z.to_nat y).
  assert (HF : fits R M (if Nat.leb (length ls) yn then resize ls (S yn) (line_create w) else ls)).
  { destruct (Nat.leb (length ls) yn) eqn:EL; [|split; assumption]. apply Nat.leb_le in EL. rewrite resize_grow by lia. split.
    - rewrite zlen_app, zlen_repeat. unfold zlen in *. subst yn. lia.
    - rewrite maxrow_app. pose proof (maxrow_repeat (line_create w) (S yn - length ls)). rewrite zlen_line_create, wz_eq in H. lia. }
  set (ls1 := if Nat.leb (length ls) yn then resize ls (S yn) (line_create w) else ls) in *.
  destruct (nth_error ls1 yn) as [row|] eqn:EN; [|exact HF]. destruct HF as [F1 F2]. split; [rewrite zlen_set_nth; exact F1|].
  pose proof (maxrow_set_nth ls1 yn (line_set_nn row (Z.to_nat x) c)). pose proof (nth_error_maxrow _ _ _ EN).
  rewrite line_set_nn_len in H. pose proof (line_set_a_le row (Z.to_nat x)). lia.
Qed.

(* ---- folds whose counter is the exact growth of a size ---------------------------------------------------------------------- *)
Section Exact.
  Context {A B : Type} (sz : A -> Z).
  Definition exact_step (f : A -> B -> A * Z) : Prop := forall a b, snd (f a b) = sz (fst (f a b)) - sz a.
  Lemma fold_sum_exact_gen f : exact_step f -> forall l a k,
    snd (fold_left (fun xk b => (fst (f (fst xk) b), snd xk + snd (f (fst xk) b))) l (a, k))
    = k + sz (fst (fold_left (fun xk b => (fst (f (fst xk) b), snd xk + snd (f (fst xk) b))) l (a, k))) - sz a.
  Proof.
    intro H. induction l as [|b l IH]; intros a k; cbn [fold_left fst snd]; [lia|]. rewrite IH, H. lia.
  Qed.
  Lemma fold_sum_exact f l a : exact_step f -> snd (fold_sum f l a) = sz (fst (fold_sum f l a)) - sz a.
  Proof. intro H. unfold fold_sum. rewrite (fold_sum_exact_gen f H). lia. Qed.
  Lemma fold_sum_inv (P : A -> Prop) (f : A -> B -> A * Z) : (forall a b, P a -> P (fst (f a b))) -> forall l a, P a -> P (fst (fold_sum f l a)).
  Proof.
    intros H l a Pa. rewrite fold_sum_fst. revert a Pa. induction l as [|b l IH]; intros a Pa; cbn [fold_left]; [exact Pa|]. apply IH. apply H. exact Pa.
  Qed.
End Exact.
(* an invariant that needs to know which element of the list is being processed *)
Lemma fold_sum_inv_in {A B} (P : A -> Prop) (f : A -> B -> A * Z) : forall l a,
  (forall a b, In b l -> P a -> P (fst (f a b))) -> P a -> P (fst (fold_sum f l a)).
Proof.
  intros l a H Pa. rewrite fold_sum_fst. revert a Pa H. induction l as [|b l IH]; intros a Pa H; cbn [fold_left]; [exact Pa|].
  apply IH; [apply H; [left; reflexivity|exact Pa]|]. intros a' b' Hin. apply H. right. exact Hin.
Qed.

Lemma lset_c_exact w h x (fy : Z -> Z) (fc : list (list cell) -> Z -> cell) :
  exact_step lsize (fun l y => lset_c w h l x (fy y) (fc l y)).
Proof. intros l y. unfold lset_c. cbn [fst snd]. rewrite lset_exact. lia. Qed.

(* ---- zrange membership ---------------------------------------------------------------------------------------------------------- *)
Lemma in_zrange_n : forall n lo y, In y (zrange_n lo n) -> lo <= y < lo + Z.of_nat n.
Proof.
  induction n; intros lo y H; cbn [zrange_n] in H; [destruct H|]. destruct H as [H|H]; [lia|]. specialize (IHn _ _ H). lia.
Qed.
Lemma in_zrange lo hi y : In y (zrange lo hi) -> lo <= y < hi.
Proof. intro H. apply in_zrange_n in H. lia. Qed.
Lemma in_zrange_incl lo hi y : In y (zrange_incl lo hi) -> lo <= y <= hi.
Proof. intro H. apply in_zrange_n in H. lia. Qed.

(* ---- scroll_up / scroll_down / fill: same state, exact counter, rows and row lengths stay inside (R, M) ------------------------------ *)
Definition ycap (h R y : Z) : Prop := 0 <= y < h -> y + 1 <= R.

Lemma scroll_up_col_a_fst w h sl el ls x : fst (scroll_up_col_a w h sl el ls x) = scroll_up_col w h sl el ls x.
Proof. unfold scroll_up_col_a, scroll_up_col. cbn [fst]. rewrite fold_sum_fst. reflexivity. Qed.
Lemma scroll_up_col_a_exact w h sl el : exact_step lsize (scroll_up_col_a w h sl el).
Proof.
  intros ls x. unfold scroll_up_col_a. cbn [fst snd].
  rewrite (fold_sum_exact lsize _ _ _ (lset_c_exact w h x (fun y => y) (fun l y => lget w h l x (y + 1)))), lset_exact. lia.
Qed.
Lemma scroll_up_col_a_fits R M w h sl el ls x : fits R M ls -> w <= M -> (forall y, y <= Z.max sl el -> ycap h R y) ->
  fits R M (fst (scroll_up_col_a w h sl el ls x)).
Proof.
  intros HF HM HY. unfold scroll_up_col_a. cbn [fst]. apply lset_fits; auto; [|apply HY; lia].
  apply fold_sum_inv_in; [|exact HF]. intros a y Hin Ha. unfold lset_c. cbn [fst]. apply lset_fits; auto. apply HY. apply in_zrange in Hin. lia.
Qed.

Lemma scroll_down_col_a_fst w h sl el ls x : fst (scroll_down_col_a w h sl el ls x) = scroll_down_col w h sl el ls x.
Proof. unfold scroll_down_col_a, scroll_down_col. cbn [fst]. rewrite fold_sum_fst. reflexivity. Qed.
Lemma scroll_down_col_a_exact w h sl el : exact_step lsize (scroll_down_col_a w h sl el).
Proof.
  intros ls x. unfold scroll_down_col_a. cbn [fst snd].
  rewrite (fold_sum_exact lsize _ _ _ (lset_c_exact w h x (fun y => y) (fun l y => lget w h l x (y - 1)))), lset_exact. lia.
Qed.
Lemma scroll_down_col_a_fits R M w h sl el ls x : fits R M ls -> w <= M -> (forall y, y <= Z.max sl el -> ycap h R y) ->
  fits R M (fst (scroll_down_col_a w h sl el ls x)).
Proof.
  intros HF HM HY. unfold scroll_down_col_a. cbn [fst]. apply lset_fits; auto; [|apply HY; lia].
  apply fold_sum_inv_in; [|exact HF]. intros a y Hin Ha. unfold lset_c. cbn [fst]. apply lset_fits; auto. apply HY.
  apply in_rev in Hin. apply in_zrange_incl in Hin. lia.
Qed.

Lemma scroll_up_a_fst t : fst (scroll_up_a t) = scroll_up t.
Proof.
  unfold scroll_up_a, scroll_up. cbn [fst]. rewrite fold_sum_fst. f_equal. apply fold_left_ext. intros ls x. apply scroll_up_col_a_fst.
Qed.
Lemma scroll_down_a_fst t : fst (scroll_down_a t) = scroll_down t.
Proof.
  unfold scroll_down_a, scroll_down. cbn [fst]. rewrite fold_sum_fst. f_equal. apply fold_left_ext. intros ls x. apply scroll_down_col_a_fst.
Qed.
Lemma scroll_up_a_exact t : snd (scroll_up_a t) = lsize (lines (scroll_up t)) - lsize (lines t).
Proof.
  rewrite <- scroll_up_a_fst. unfold scroll_up_a. cbn [fst snd]. change (lines (set_lines t ?l)) with l.
  apply (fold_sum_exact lsize). apply scroll_up_col_a_exact.
Qed.
Lemma scroll_down_a_exact t : snd (scroll_down_a t) = lsize (lines (scroll_down t)) - lsize (lines t).
Proof.
  rewrite <- scroll_down_a_fst. unfold scroll_down_a. cbn [fst snd]. change (lines (set_lines t ?l)) with l.
  apply (fold_sum_exact lsize). apply scroll_down_col_a_exact.
Qed.
Lemma scroll_up_fits R M t : fits R M (lines t) -> lw t <= M -> (forall y, y <= Z.max (first_edit t) (last_edit t) -> ycap (lh t) R y) ->
  fits R M (lines (scroll_up t)).
Proof.
  intros HF HM HY. rewrite <- scroll_up_a_fst. unfold scroll_up_a. cbn [fst]. change (lines (set_lines t ?l)) with l.
  apply fold_sum_inv; [|exact HF]. intros a x Ha. apply scroll_up_col_a_fits; auto.
Qed.
Lemma scroll_down_fits R M t : fits R M (lines t) -> lw t <= M -> (forall y, y <= Z.max (first_edit t) (last_edit t) -> ycap (lh t) R y) ->
  fits R M (lines (scroll_down t)).
Proof.
  intros HF HM HY. rewrite <- scroll_down_a_fst. unfold scroll_down_a. cbn [fst]. change (lines (set_lines t ?l)) with l.
  apply fold_sum_inv; [|exact HF]. intros a x Ha. apply scroll_down_col_a_fits; auto.
Qed.

Lemma fill_cells_a_fst t ys xs c : fst (fill_cells_a t ys xs c) = fill_cells t ys xs c.
Proof.
  unfold fill_cells_a, fill_cells. cbn [fst]. rewrite fold_sum_fst. f_equal. apply fold_left_ext. intros ls y. rewrite fold_sum_fst. reflexivity.
Qed.
Lemma fill_cells_a_exact t ys xs c : snd (fill_cells_a t ys xs c) = lsize (lines (fill_cells t ys xs c)) - lsize (lines t).
Proof.
  rewrite <- fill_cells_a_fst. unfold fill_cells_a. cbn [fst snd]. change (lines (set_lines t ?l)) with l.
  apply (fold_sum_exact lsize). intros ls y. apply (fold_sum_exact lsize). intros l x. unfold lset_c. cbn [fst snd]. rewrite lset_exact. lia.
Qed.
Lemma fill_cells_fits R M t ys xs c : fits R M (lines t) -> lw t <= M -> (forall y, In y ys -> ycap (lh t) R y) ->
  fits R M (lines (fill_cells t ys xs c)).
Proof.
  intros HF HM HY. rewrite <- fill_cells_a_fst. unfold fill_cells_a. cbn [fst]. change (lines (set_lines t ?l)) with l.
  apply fold_sum_inv_in; [|exact HF]. intros a y Hin Ha. apply fold_sum_inv; [|exact Ha]. intros l x Hl. unfold lset_c. cbn [fst]. apply lset_fits; auto. apply HY. exact Hin.
Qed.
Lemma sel_erase_a_exact t ys xs : snd (sel_erase_a t ys xs) = lsize (lines (fst (sel_erase_a t ys xs))) - lsize (lines t).
Proof.
  unfold sel_erase_a. cbn [fst snd]. change (lines (set_lines t ?l)) with l.
  apply (fold_sum_exact lsize). intros ls y. apply (fold_sum_exact lsize). intros l x. unfold lset_c. cbn [fst snd]. rewrite lset_exact. lia.
Qed.
Lemma sel_erase_fits R M t ys xs : fits R M (lines t) -> lw t <= M -> (forall y, In y ys -> ycap (lh t) R y) ->
  fits R M (lines (fst (sel_erase_a t ys xs))).
Proof.
  intros HF HM HY. unfold sel_erase_a. cbn [fst]. change (lines (set_lines t ?l)) with l.
  apply fold_sum_inv_in; [|exact HF]. intros a y Hin Ha. apply fold_sum_inv; [|exact Ha]. intros l x Hl. unfold lset_c. cbn [fst]. apply lset_fits; auto. apply HY. exact Hin.
Qed.

(* ---- iterated primitives: a weight summed over the iterations, bounded through a potential ------------------------------------------------------ *)
Definition cstep (f : term -> term) (w : term -> Z) (xc : term * cost) : term * cost :=
  (f (fst xc), mkCost (iters (snd xc) + 1) (ticks (snd xc) + w (fst xc)) (alloc (snd xc) + grow (fst xc) (f (fst xc)))).
Lemma iter_cost_nat' n f w t : iter_cost n f w t = Nat.iter (N.to_nat (Z.to_N n)) (cstep f w) (t, cost0).
Proof. apply iter_cost_nat. Qed.
Lemma to_nat_max n : Z.of_nat (N.to_nat (Z.to_N n)) = Z.max 0 n. Proof. lia. Qed.

Lemma iter_ticks_pot (I : term -> Prop) (Phi : term -> Z) g n f w t :
  (forall x, I x -> I (f x) /\ w x + Phi (f x) <= g + Phi x) -> (forall x, I x -> 0 <= Phi x) -> I t -> 0 <= g ->
  ticks (snd (iter_cost n f w t)) <= Z.max 0 n * g + Phi t.
Proof.
  intros Hs Hp Ht Hg. rewrite iter_cost_nat', <- to_nat_max.
  assert (H : forall k, let r := Nat.iter k (cstep f w) (t, cost0) in I (fst r) /\ ticks (snd r) + Phi (fst r) <= Z.of_nat k * g + Phi t).
  { induction k as [|k IH]; [cbn; split; [exact Ht|lia]|]. cbn zeta in *. rewrite iter_S. destruct IH as [IH1 IH2].
    set (r := Nat.iter k (cstep f w) (t, cost0)) in *. unfold cstep at 1 2 3. cbn [fst snd ticks].
    destruct (Hs _ IH1) as [S1 S2]. split; [exact S1|]. nia. }
  destruct (H (N.to_nat (Z.to_N n))) as [H1 H2]. specialize (Hp _ H1). lia.
Qed.
Lemma iter_ticks_nonneg n f w t : (forall x, 0 <= w x) -> 0 <= ticks (snd (iter_cost n f w t)).
Proof.
  intro Hw. rewrite iter_cost_nat'. induction (N.to_nat (Z.to_N n)) as [|k IH]; [cbn; lia|]. rewrite iter_S. unfold cstep at 1. cbn [snd ticks].
  specialize (Hw (fst (Nat.iter k (cstep f w) (t, cost0)))). lia.
Qed.
(* the state-difference counter of Model/Cost.v is dominated by a threaded counter that dominates the growth of each call *)
Lemma iter_alloc_dom n f w a t : (forall x, grow x (f x) <= a x) -> alloc (snd (iter_cost n f w t)) <= ticks (snd (iter_cost n f a t)).
Proof.
  intro Hd. rewrite !iter_cost_nat'.
  assert (H : forall k, fst (Nat.iter k (cstep f w) (t, cost0)) = fst (Nat.iter k (cstep f a) (t, cost0)) /\
                        alloc (snd (Nat.iter k (cstep f w) (t, cost0))) <= ticks (snd (Nat.iter k (cstep f a) (t, cost0)))).
  { induction k as [|k IH]; [cbn; split; [reflexivity|lia]|]. rewrite !iter_S. destruct IH as [IH1 IH2].
    set (rw := Nat.iter k (cstep f w) (t, cost0)) in *. set (ra := Nat.iter k (cstep f a) (t, cost0)) in *.
    unfold cstep. cbn [fst snd ticks alloc]. rewrite <- IH1. split; [reflexivity|].
    specialize (Hd (fst rw)). lia. }
  apply H.
Qed.

Lemma iter_res_ticks_pot (I : term -> Prop) (Phi : term -> Z) g n f w t :
  (forall x x', I x -> f x = ROk x' -> I x' /\ w x + Phi x' <= g + Phi x) -> (forall x s, I x -> f x = RPanic s -> w x <= g + Phi x) ->
  (forall x, I x -> 0 <= Phi x) -> I t -> 0 <= g ->
  ticks (snd (iter_cost_res n f w t)) <= Z.max 0 n * g + Phi t.
Proof.
  intros Hs Hpn Hp Ht Hg. rewrite iter_cost_res_nat, <- to_nat_max.
  assert (H : forall k, let r := Nat.iter k (res_step f w) (ROk t, cost0) in
                        match fst r with ROk x => I x /\ ticks (snd r) + Phi x <= Z.of_nat k * g + Phi t | RPanic _ => ticks (snd r) <= Z.of_nat k * g + Phi t end).
  { induction k as [|k IH]; [cbn; split; [exact Ht|lia]|]. cbn zeta in *. rewrite iter_S.
    set (r := Nat.iter k (res_step f w) (ROk t, cost0)) in *. unfold res_step. destruct (fst r) as [x|s] eqn:E.
    - destruct IH as [IH1 IH2]. cbn [fst snd ticks]. destruct (f x) as [x'|s'] eqn:Ef.
      + destruct (Hs _ _ IH1 Ef) as [S1 S2]. split; [exact S1|]. nia.
      + specialize (Hpn _ _ IH1 Ef). nia.
    - rewrite E. nia. }
  specialize (H (N.to_nat (Z.to_N n))). cbn zeta in H. destruct (fst (Nat.iter (N.to_nat (Z.to_N n)) (res_step f w) (ROk t, cost0))) as [x|s].
  - destruct H as [H1 H2]. specialize (Hp _ H1). lia.
  - exact H.
Qed.
Lemma iter_res_ticks_nonneg n f w t : (forall x, 0 <= w x) -> 0 <= ticks (snd (iter_cost_res n f w t)).
Proof.
  intro Hw. rewrite iter_cost_res_nat. induction (N.to_nat (Z.to_N n)) as [|k IH]; [cbn; lia|]. rewrite iter_S. unfold res_step at 1.
  destruct (fst (Nat.iter k (res_step f w) (ROk t, cost0))) as [x|s]; [|exact IH]. cbn [snd ticks]. specialize (Hw x). lia.
Qed.
Lemma iter_res_alloc_dom n f w a t : (forall x x', f x = ROk x' -> grow x x' <= a x) -> (forall x, 0 <= a x) ->
  alloc (snd (iter_cost_res n f w t)) <= ticks (snd (iter_cost_res n f a t)).
Proof.
  intros Hd Ha. rewrite !iter_cost_res_nat.
  assert (H : forall k, fst (Nat.iter k (res_step f w) (ROk t, cost0)) = fst (Nat.iter k (res_step f a) (ROk t, cost0)) /\
                        alloc (snd (Nat.iter k (res_step f w) (ROk t, cost0))) <= ticks (snd (Nat.iter k (res_step f a) (ROk t, cost0)))).
  { induction k as [|k IH]; [cbn; split; [reflexivity|lia]|]. rewrite !iter_S. destruct IH as [IH1 IH2].
    set (rw := Nat.iter k (res_step f w) (ROk t, cost0)) in *. set (ra := Nat.iter k (res_step f a) (ROk t, cost0)) in *.
    unfold res_step. rewrite <- IH1. destruct (fst rw) as [x|s] eqn:E.
    - cbn [fst snd ticks alloc]. split; [reflexivity|]. destruct (f x) as [x'|s'] eqn:Ef; [specialize (Hd _ _ Ef)|specialize (Ha x)]; lia.
    - split; [rewrite E, <- IH1; reflexivity|exact IH2]. }
  apply H.
Qed.

(* ---- Vec::insert / Vec::remove ---------------------------------------------------------------------------------------------------------------- *)
Lemma zlen_insert_at {A} (l : list A) i a : zlen (insert_at l i a) = zlen l + 1.
Proof. unfold insert_at, zlen. rewrite app_length. cbn [length]. rewrite firstn_length, skipn_length. lia. Qed.
Lemma zlen_remove_at {A} (l : list A) i : zlen (remove_at l i) = zlen l - (if Nat.ltb i (length l) then 1 else 0).
Proof.
  unfold remove_at, zlen. rewrite app_length, firstn_length, skipn_length. destruct (Nat.ltb i (length l)) eqn:E; [apply Nat.ltb_lt in E|apply Nat.ltb_ge in E]; lia.
Qed.
Lemma cells_firstn_skipn ls n : cells (firstn n ls) + cells (skipn n ls) = cells ls.
Proof. rewrite <- cells_app, firstn_skipn. reflexivity. Qed.
Lemma cells_insert_at ls i r : cells (insert_at ls i r) = cells ls + zlen r.
Proof. unfold insert_at. rewrite cells_app. cbn [cells]. pose proof (cells_firstn_skipn ls i). lia. Qed.
Lemma cells_remove_at ls i : cells (remove_at ls i) <= cells ls.
Proof.
  unfold remove_at. rewrite cells_app. pose proof (cells_firstn_skipn ls i).
  assert (cells (skipn (S i) ls) <= cells (skipn i ls)).
  { clear H. revert i. induction ls as [|r ls IH]; intros [|i]; cbn [skipn cells]; try lia.
    - pose proof (zlen_nonneg r). destruct ls; cbn [skipn cells]; lia.
    - apply IH. }
  lia.
Qed.
Lemma lsize_remove_at ls i : lsize (remove_at ls i) <= lsize ls.
Proof. unfold lsize. rewrite zlen_remove_at. pose proof (cells_remove_at ls i). destruct (Nat.ltb i (length ls)); lia. Qed.
Lemma size_of_lsize t : size_of t = lsize (lines t). Proof. reflexivity. Qed.
Lemma grow_le t t' a : 0 <= a -> lsize (lines t') <= lsize (lines t) + a -> grow t t' <= a.
Proof. intros Ha H. unfold grow. rewrite !size_of_lsize. lia. Qed.

(* ---- Caret::ins / del / erase_charcter ------------------------------------------------------------------------------------------------------------ *)
Lemma caret_ins_a_range t : 0 <= caret_ins_a t <= 1.
Proof. unfold caret_ins_a. destruct (cy t <? 0); [lia|]. destruct (nth_error _ _); [|lia]. destruct (_ && _); lia. Qed.
Lemma caret_ins_dom t : lsize (lines (caret_ins t)) <= lsize (lines t) + caret_ins_a t.
Proof.
  unfold caret_ins, caret_ins_a. destruct (cy t <? 0); [lia|]. destruct (nth_error (lines t) (Z.to_nat (cy t))) as [row|] eqn:E; [|lia].
  destruct ((0 <=? cx t) && (cx t <? zlen row)); [|lia]. change (lines (set_lines t ?l)) with l.
  unfold lsize. rewrite zlen_set_nth, (cells_set_nth _ _ _ _ E), zlen_insert_at. lia.
Qed.
Lemma caret_del_dom t : lsize (lines (caret_del t)) <= lsize (lines t).
Proof.
  unfold caret_del. destruct (cy t <? 0); [lia|]. destruct (nth_error (lines t) (Z.to_nat (cy t))) as [row|] eqn:E; [|lia].
  destruct ((0 <=? cx t) && (cx t <? zlen row)); [|lia]. change (lines (set_lines t ?l)) with l.
  unfold lsize. rewrite zlen_set_nth, (cells_set_nth _ _ _ _ E), zlen_remove_at. destruct (Nat.ltb _ _); lia.
Qed.
Lemma erase_loop_a_spec : forall n row i c, 0 <= i ->
  0 <= erase_loop_a row i c n /\ zlen row + erase_loop_a row i c n <= Z.max (zlen row) (i + Z.of_nat n) /\
  (forall r, erase_loop row i c n = ROk r -> zlen r = zlen row + erase_loop_a row i c n).
Proof.
  induction n as [|k IH]; intros row i c Hi; cbn [erase_loop_a erase_loop].
  - repeat split; try lia. intros r H. inversion H. lia.
  - unfold line_set_char. destruct (i <? 0) eqn:E; [apply Z.ltb_lt in E; lia|]. cbn [bind].
    destruct (IH (line_set_nn row (Z.to_nat i) c) (i + 1) c ltac:(lia)) as (I1 & I2 & I3).
    rewrite line_set_nn_len in I2. pose proof (line_set_a_nonneg row (Z.to_nat i)). pose proof (line_set_a_le row (Z.to_nat i)).
    repeat split; try lia. intros r Hr. rewrite (I3 r Hr), line_set_nn_len. lia.
Qed.
Lemma caret_erase_a_range t n : 0 <= cx t -> 0 <= caret_erase_a t n <= Z.max 0 (tw t).
Proof.
  intro Hx. unfold caret_erase_a. destruct (Z.min (tw t - cx t) n <=? 0) eqn:E; [lia|]. apply Z.leb_gt in E.
  destruct (cy t <? 0); [lia|]. destruct (nth_error _ _) as [row|]; [|lia].
  destruct (erase_loop_a_spec (Z.to_nat (Z.min (tw t - cx t) n)) row (cx t) (32, cbg t) Hx) as (H1 & H2 & _). pose proof (zlen_nonneg row). lia.
Qed.
Lemma caret_erase_dom t n t' : 0 <= cx t -> caret_erase t n = ROk t' -> lsize (lines t') <= lsize (lines t) + caret_erase_a t n.
Proof.
  intros Hx. unfold caret_erase, caret_erase_a. destruct (Z.min (tw t - cx t) n <=? 0); [intro H; inversion H; lia|].
  destruct (cy t <? 0); [intro H; inversion H; lia|]. destruct (nth_error (lines t) (Z.to_nat (cy t))) as [row|] eqn:E; [|intro H; inversion H; lia].
  destruct (erase_loop row (cx t) (32, cbg t) (Z.to_nat (Z.min (tw t - cx t) n))) as [r|s] eqn:EL; cbn [bind]; [|discriminate]. intro H. inversion H as [H0]. clear H H0.
  change (lines (set_lines t ?l)) with l.
  destruct (erase_loop_a_spec (Z.to_nat (Z.min (tw t - cx t) n)) row (cx t) (32, cbg t) Hx) as (_ & _ & H3). specialize (H3 _ EL).
  unfold lsize. rewrite zlen_set_nth, (cells_set_nth _ _ _ _ E). lia.
Qed.

(* ---- Layer::insert_line, Buffer::insert_terminal_line / remove_terminal_line ------------------------------------------------------------------------- *)
Lemma length_resize' {A} (l : list A) n d : length (resize l n d) = n.
Proof. unfold resize. rewrite app_length, firstn_length, repeat_length. lia. Qed.
Lemma wz_nonneg w : 0 <= wz w. Proof. unfold wz. lia. Qed.
Lemma layer_insert_line_a_nonneg t i : 0 <= layer_insert_line_a t i.
Proof. unfold layer_insert_line_a. destruct (i <? 0); [lia|]. pose proof (wz_nonneg (lw t)). nia. Qed.
(* exact: rows + cells after the insertion; the number of rows after it *)
Lemma layer_insert_line_spec t i t' : layer_insert_line t i = ROk t' ->
  lsize (lines t') = lsize (lines t) + layer_insert_line_a t i /\ zlen (lines t') = Z.max (zlen (lines t)) i + 1 /\ t' = set_lines t (lines t').
Proof.
  unfold layer_insert_line, layer_insert_line_a. destruct (i <? 0) eqn:Ei; [discriminate|]. apply Z.ltb_ge in Ei. intro H. inversion H. clear H H1.
  change (lines (set_lines t ?l)) with l. split; [|split; [|reflexivity]].
  - unfold lsize. rewrite zlen_insert_at, cells_insert_at. destruct (Nat.ltb (length (lines t)) (Z.to_nat i)) eqn:E.
    + apply Nat.ltb_lt in E. rewrite resize_grow by lia. rewrite zlen_app, cells_app, zlen_repeat, cells_repeat, zlen_line_create. unfold zlen. cbn [length]. nia.
    + apply Nat.ltb_ge in E. replace (Z.to_nat i - length (lines t))%nat with 0%nat by lia. unfold zlen. cbn [length]. lia.
  - rewrite zlen_insert_at. destruct (Nat.ltb (length (lines t)) (Z.to_nat i)) eqn:E.
    + apply Nat.ltb_lt in E. unfold zlen. rewrite length_resize'. lia.
    + apply Nat.ltb_ge in E. unfold zlen. lia.
Qed.

Lemma itl_unfold t line : insert_terminal_line t line = (do t1 <- itl_pre t; layer_insert_line t1 line).
Proof. reflexivity. Qed.
Lemma itl_pre_spec t t1 : itl_pre t = ROk t1 ->
  t1 = set_lines t (lines t1) /\ lsize (lines t1) <= lsize (lines t) /\ zlen (lines t) - 1 <= zlen (lines t1) <= zlen (lines t).
Proof.
  unfold itl_pre. destruct (mtb t) as [[s e]|]; [|intro H; inversion H; subst; destruct t1; cbn; repeat split; lia].
  destruct (e <? zlen (lines t)); [|intro H; inversion H; subst; destruct t1; cbn; repeat split; lia].
  destruct (e <? 0); [discriminate|]. intro H. inversion H. clear H H1. change (lines (set_lines t ?l)) with l.
  split; [reflexivity|]. split; [apply lsize_remove_at|]. rewrite zlen_remove_at. destruct (Nat.ltb _ _); lia.
Qed.
Definition pot_rows (c : Z) (t : term) : Z := Z.max 0 (c - zlen (lines t) + 1) * (1 + wz (lw t)).
Lemma pot_rows_nonneg c t : 0 <= pot_rows c t.
Proof. unfold pot_rows. pose proof (wz_nonneg (lw t)). nia. Qed.
Lemma insert_terminal_line_a_nonneg t c : 0 <= insert_terminal_line_a t c.
Proof. unfold insert_terminal_line_a. destruct (itl_pre t); [apply layer_insert_line_a_nonneg|lia]. Qed.
Lemma insert_terminal_line_spec t c t' : insert_terminal_line t c = ROk t' ->
  t' = set_lines t (lines t') /\ lsize (lines t') <= lsize (lines t) + insert_terminal_line_a t c /\
  insert_terminal_line_a t c + pot_rows c t' <= 1 + pot_rows c t.
Proof.
  rewrite itl_unfold. unfold insert_terminal_line_a. destruct (itl_pre t) as [t1|s] eqn:E1; cbn [bind]; [|discriminate]. intro H.
  destruct (itl_pre_spec _ _ E1) as (P1 & P2 & P3). destruct (layer_insert_line_spec _ _ _ H) as (Q1 & Q2 & Q3).
  split; [rewrite Q3, P1; reflexivity|]. split; [lia|].
  assert (Hc : 0 <= c) by (unfold layer_insert_line in H; destruct (c <? 0) eqn:Ec; [discriminate|apply Z.ltb_ge in Ec; exact Ec]).
  unfold pot_rows. replace (lw t') with (lw t) by (rewrite Q3, P1; reflexivity). rewrite Q2.
  unfold layer_insert_line_a. destruct (c <? 0) eqn:Ec; [apply Z.ltb_lt in Ec; lia|]. replace (lw t1) with (lw t) by (rewrite P1; reflexivity).
  pose proof (wz_nonneg (lw t)). pose proof (zlen_nonneg (lines t1)).
  replace (Z.of_nat (Z.to_nat c - length (lines t1))) with (Z.max 0 (c - zlen (lines t1))) by (unfold zlen; lia).
  replace (Z.max 0 (c - (Z.max (zlen (lines t1)) c + 1) + 1)) with 0 by lia. nia.
Qed.
Lemma insert_terminal_line_panic t c s : insert_terminal_line t c = RPanic s -> insert_terminal_line_a t c = 0.
Proof.
  rewrite itl_unfold. unfold insert_terminal_line_a. destruct (itl_pre t) as [t1|s1]; cbn [bind]; [|reflexivity].
  unfold layer_insert_line, layer_insert_line_a. destruct (c <? 0); [reflexivity|discriminate].
Qed.

Definition pot_rows_m (t : term) : Z := match mtb t with Some (_, e) => pot_rows e t | None => 0 end.
Lemma pot_rows_m_nonneg t : 0 <= pot_rows_m t.
Proof. unfold pot_rows_m. destruct (mtb t) as [[s e]|]; [apply pot_rows_nonneg|lia]. Qed.
Lemma remove_terminal_line_a_nonneg t c : 0 <= remove_terminal_line_a t c.
Proof.
  unfold remove_terminal_line_a. destruct (c >=? _); [lia|]. destruct (c <? 0); [lia|]. cbv zeta. destruct (mtb _) as [[s e]|]; [apply layer_insert_line_a_nonneg|lia].
Qed.
Lemma remove_terminal_line_spec t c t' : remove_terminal_line t c = ROk t' ->
  t' = set_lines t (lines t') /\ lsize (lines t') <= lsize (lines t) + remove_terminal_line_a t c /\
  remove_terminal_line_a t c + pot_rows_m t' <= 1 + pot_rows_m t.
Proof.
  unfold remove_terminal_line, remove_terminal_line_a. destruct (c >=? zlen (lines t)) eqn:E1.
  { intro H. inversion H. subst. split; [destruct t'; reflexivity|]. split; lia. }
  destruct (c <? 0) eqn:E2; [discriminate|]. cbv zeta. change (mtb (set_lines t ?l)) with (mtb t).
  assert (Hlt : (Z.to_nat c < length (lines t))%nat).
  { apply Z.ltb_ge in E2. destruct (Z.geb_spec c (zlen (lines t))); [discriminate|]. unfold zlen in *. lia. }
  pose proof (lsize_remove_at (lines t) (Z.to_nat c)) as HR. pose proof (zlen_remove_at (lines t) (Z.to_nat c)) as HZ.
  destruct (Nat.ltb_spec (Z.to_nat c) (length (lines t))) as [_|]; [|lia].
  unfold pot_rows_m. destruct (mtb t) as [[s e]|] eqn:EM.
  - intro H. destruct (layer_insert_line_spec _ _ _ H) as (Q1 & Q2 & Q3). change (lines (set_lines t ?l)) with l in *.
    split; [rewrite Q3; reflexivity|]. split; [lia|].
    replace (mtb t') with (Some (s, e)) by (rewrite Q3; cbn; auto).
    assert (He : 0 <= e) by (unfold layer_insert_line in H; destruct (e <? 0) eqn:Ee; [discriminate|apply Z.ltb_ge in Ee; exact Ee]).
    unfold pot_rows. replace (lw t') with (lw t) by (rewrite Q3; reflexivity). rewrite Q2.
    unfold layer_insert_line_a. destruct (e <? 0) eqn:Ee; [apply Z.ltb_lt in Ee; lia|]. change (lw (set_lines t ?l)) with (lw t). change (lines (set_lines t ?l)) with l.
    pose proof (wz_nonneg (lw t)). set (l1 := remove_at (lines t) (Z.to_nat c)) in *.
    replace (Z.of_nat (Z.to_nat e - length l1)) with (Z.max 0 (e - zlen l1)) by (unfold zlen; lia).
    replace (Z.max 0 (e - (Z.max (zlen l1) e + 1) + 1)) with 0 by lia. rewrite HZ. nia.
  - intro H. inversion H. change (lines (set_lines t ?l)) with l. split; [reflexivity|]. split; [lia|]. cbn. rewrite EM. lia.
Qed.
Lemma remove_terminal_line_panic t c s : remove_terminal_line t c = RPanic s -> remove_terminal_line_a t c = 0.
Proof.
  unfold remove_terminal_line, remove_terminal_line_a. destruct (c >=? _); [discriminate|]. destruct (c <? 0); [reflexivity|]. cbv zeta.
  destruct (mtb _) as [[s0 e]|]; [|discriminate]. unfold layer_insert_line, layer_insert_line_a. destruct (e <? 0); [reflexivity|discriminate].
Qed.

(* ---- scroll_left / scroll_right: at most one cell per row of the region ------------------------------------------------------------------------------------- *)
Section Dom.
  Context {A B : Type} (sz : A -> Z).
  Lemma fold_sum_dom (f : A -> B -> A * Z) d : (forall a b, sz (fst (f a b)) <= sz a + snd (f a b) /\ 0 <= snd (f a b) <= d) -> forall l a,
    sz (fst (fold_sum f l a)) <= sz a + snd (fold_sum f l a) /\ 0 <= snd (fold_sum f l a) <= d * zlen l.
  Proof.
    intros H l a. unfold fold_sum.
    assert (G : forall l a k, let r := fold_left (fun xk b => (fst (f (fst xk) b), snd xk + snd (f (fst xk) b))) l (a, k) in
                sz (fst r) - sz a <= snd r - k /\ 0 <= snd r - k <= d * zlen l).
    { clear l a. induction l as [|b l IH]; intros a k; cbn [fold_left fst snd]; cbn zeta; [unfold zlen; cbn; lia|].
      specialize (IH (fst (f a b)) (k + snd (f a b))). cbn zeta in IH. destruct (H a b) as (H1 & H2 & H3). rewrite zlen_cons. nia. }
    specialize (G l a 0). cbn zeta in G. lia.
  Qed.
End Dom.
Lemma sl_row_dom sc ec row : zlen (sl_row sc ec row) <= zlen row + sl_row_a sc ec row /\ 0 <= sl_row_a sc ec row <= 1.
Proof.
  unfold sl_row, sl_row_a. destruct ((0 <=? sc) && (sc <? zlen row)); [|lia].
  destruct ((0 <=? ec) && (ec <=? zlen row)); rewrite zlen_remove_at; [rewrite zlen_insert_at|]; destruct (Nat.ltb _ _); lia.
Qed.
Lemma scroll_left_a_fst t : fst (scroll_left_a t) = scroll_left t.
Proof.
  unfold scroll_left_a, scroll_left. cbn [fst]. rewrite fold_sum_fst. f_equal. apply fold_left_ext. intros ls i.
  destruct (i <? 0); [reflexivity|]. destruct (nth_error ls (Z.to_nat i)); reflexivity.
Qed.
Lemma scroll_left_a_spec t : lsize (lines (scroll_left t)) <= lsize (lines t) + snd (scroll_left_a t) /\
  0 <= snd (scroll_left_a t) <= zlen (zrange_incl (first_edit t) (last_edit t)).
Proof.
  rewrite <- scroll_left_a_fst. unfold scroll_left_a. cbn [fst snd]. change (lines (set_lines t ?l)) with l.
  match goal with |- context [fold_sum ?f ?l ?a] => pose proof (fold_sum_dom lsize f 1) as H; specialize (fun X => H X l a) end.
  cbv beta in H. rewrite Z.mul_1_l in H. apply H. clear H. intros ls i.
  destruct (i <? 0); [cbn [fst snd]; lia|]. destruct (nth_error ls (Z.to_nat i)) as [row|] eqn:E; [|cbn [fst snd]; lia]. cbn [fst snd].
  destruct (sl_row_dom (first_col t) (last_col t + 1) row). unfold lsize. rewrite zlen_set_nth, (cells_set_nth _ _ _ _ E). lia.
Qed.
Lemma sr_row_dom sc ec row r : sr_row sc ec row = ROk r -> zlen r <= zlen row + sr_row_a sc ec row.
Proof.
  unfold sr_row, sr_row_a. destruct ((0 <=? sc) && (sc <? zlen row)); [|intro H; inversion H; lia].
  destruct (ec =? -1); [discriminate|]. intro H. inversion H. destruct (_ && _); [rewrite zlen_remove_at|]; rewrite zlen_insert_at; [destruct (Nat.ltb _ _)|]; lia.
Qed.
Lemma sr_row_a_range sc ec row : 0 <= sr_row_a sc ec row <= 1.
Proof. unfold sr_row_a. destruct (_ && _); [|lia]. destruct (ec =? -1); lia. Qed.
Lemma scroll_right_a_fst t : fst (scroll_right_a t) = scroll_right t.
Proof.
  unfold scroll_right_a, scroll_right. cbn [fst]. rewrite fold_sum_fst. f_equal. apply fold_left_ext. intros acc i.
  destruct acc as [ls|s]; cbn [bind]; [|reflexivity]. destruct (i <? 0); [reflexivity|]. destruct (nth_error ls (Z.to_nat i)); reflexivity.
Qed.
Definition rsize (r : res (list (list cell))) : Z := match r with ROk ls => lsize ls | RPanic _ => 0 end.
Lemma scroll_right_a_spec t : (forall t', scroll_right t = ROk t' -> t' = set_lines t (lines t') /\ lsize (lines t') <= lsize (lines t) + snd (scroll_right_a t)) /\
  0 <= snd (scroll_right_a t) <= zlen (zrange_incl (first_edit t) (last_edit t)).
Proof.
  rewrite <- scroll_right_a_fst. unfold scroll_right_a. cbn [fst snd].
  match goal with |- context [fold_sum ?f ?l ?a] => pose proof (fold_sum_dom rsize f 1) as H; specialize (fun X => H X l a) end.
  cbv beta in H. rewrite Z.mul_1_l in H.
  match type of H with ?P -> _ => assert (HP : P) end.
  { intros acc i. destruct acc as [ls|s]; [|cbn; lia]. destruct (i <? 0); [cbn [fst snd]; lia|].
    destruct (nth_error ls (Z.to_nat i)) as [row|] eqn:E; [|cbn [fst snd]; lia]. cbn [fst snd]. pose proof (sr_row_a_range (first_col t) (last_col t) row).
    destruct (sr_row (first_col t) (last_col t) row) as [r|s] eqn:ER; cbn [bind rsize]; [|pose proof (lsize_nonneg ls); lia].
    pose proof (sr_row_dom _ _ _ _ ER). unfold lsize. rewrite zlen_set_nth, (cells_set_nth _ _ _ _ E). lia. }
  specialize (H HP). clear HP. destruct H as [H1 H2]. split; [|exact H2].
  intros t' Ht'. match type of Ht' with (do ls <- ?r; _) = _ => destruct r as [ls|s] end; cbn [bind] in Ht'; [|discriminate].
  inversion Ht'. change (lines (set_lines t ?l)) with l. split; [reflexivity|]. cbn [rsize] in H1. exact H1.
Qed.

(* ---- Caret::lf, Buffer::print_char ------------------------------------------------------------------------------------------------------------------------- *)
Lemma fold_sum_nonneg {A B} (f : A -> B -> A * Z) : (forall a b, 0 <= snd (f a b)) -> forall l a, 0 <= snd (fold_sum f l a).
Proof.
  intros H l a. unfold fold_sum. assert (G : forall l a k, 0 <= k -> 0 <= snd (fold_left (fun xk b => (fst (f (fst xk) b), snd xk + snd (f (fst xk) b))) l (a, k))).
  { clear l a. induction l as [|b l IH]; intros a k Hk; cbn [fold_left fst snd]; [exact Hk|]. apply IH. specialize (H a b). lia. }
  apply G. lia.
Qed.
Lemma scroll_up_col_a_nonneg w h sl el ls x : 0 <= snd (scroll_up_col_a w h sl el ls x).
Proof.
  unfold scroll_up_col_a. cbn [snd].
  pose proof (fold_sum_nonneg (fun l y => lset_c w h l x y (lget w h l x (y + 1))) (fun a b => lset_a_nonneg w h a x b) (zrange sl el) ls).
  pose proof (lset_a_nonneg w h (fst (fold_sum (fun l y => lset_c w h l x y (lget w h l x (y + 1))) (zrange sl el) ls)) x el). lia.
Qed.
Lemma scroll_down_col_a_nonneg w h sl el ls x : 0 <= snd (scroll_down_col_a w h sl el ls x).
Proof.
  unfold scroll_down_col_a. cbn [snd].
  pose proof (fold_sum_nonneg (fun l y => lset_c w h l x y (lget w h l x (y - 1))) (fun a b => lset_a_nonneg w h a x b) (rev (zrange_incl (sl + 1) el)) ls).
  pose proof (lset_a_nonneg w h (fst (fold_sum (fun l y => lset_c w h l x y (lget w h l x (y - 1))) (rev (zrange_incl (sl + 1) el)) ls)) x sl). lia.
Qed.
Lemma scroll_up_a_nonneg t : 0 <= snd (scroll_up_a t).
Proof. unfold scroll_up_a. cbn [snd]. apply fold_sum_nonneg. intros a b. apply scroll_up_col_a_nonneg. Qed.
Lemma scroll_down_a_nonneg t : 0 <= snd (scroll_down_a t).
Proof. unfold scroll_down_a. cbn [snd]. apply fold_sum_nonneg. intros a b. apply scroll_down_col_a_nonneg. Qed.
Lemma fill_cells_a_nonneg t ys xs c : 0 <= snd (fill_cells_a t ys xs c).
Proof. unfold fill_cells_a. cbn [snd]. apply fold_sum_nonneg. intros a b. apply fold_sum_nonneg. intros a' b'. apply lset_a_nonneg. Qed.
Lemma sel_erase_a_nonneg t ys xs : 0 <= snd (sel_erase_a t ys xs).
Proof. unfold sel_erase_a. cbn [snd]. apply fold_sum_nonneg. intros a b. apply fold_sum_nonneg. intros a' b'. apply lset_a_nonneg. Qed.

Lemma limit_lines t t' : limit_caret_pos t = ROk t' -> lines t' = lines t.
Proof.
  unfold limit_caret_pos. destruct (origin_m t); [intro H; inversion H; reflexivity|].
  destruct (_ <? _); [discriminate|]. intro H; inversion H; reflexivity.
Qed.
Lemma check_scrolling_down_a_nonneg t f : 0 <= check_scrolling_down_a t f.
Proof. unfold check_scrolling_down_a. destruct (_ && _); [apply scroll_up_a_nonneg|lia]. Qed.
Lemma check_scrolling_down_dom t f : lsize (lines (check_scrolling_down t f)) = lsize (lines t) + check_scrolling_down_a t f.
Proof.
  unfold check_scrolling_down, check_scrolling_down_a. destruct (_ && _); [|lia]. cbv zeta. change (lines (set_cy ?x _)) with (lines x).
  rewrite scroll_up_a_exact. lia.
Qed.
Lemma lsize_app_empty ls k : lsize (ls ++ repeat [] k) = lsize ls + Z.of_nat k.
Proof. unfold lsize. rewrite zlen_app, cells_app, zlen_repeat, cells_repeat. change (zlen (@nil cell)) with 0. lia. Qed.
Lemma caret_lf_a_nonneg t : 0 <= caret_lf_a t.
Proof.
  unfold caret_lf_a. cbv zeta. match goal with |- 0 <= ?a + ?b => assert (0 <= a) by (destruct (_ >=? _); lia); assert (0 <= b) end; [|lia].
  destruct (cy t >? last_edit t); [lia|apply check_scrolling_down_a_nonneg].
Qed.
Lemma caret_lf_dom t t' : caret_lf t = ROk t' -> lsize (lines t') <= lsize (lines t) + caret_lf_a t.
Proof.
  unfold caret_lf, caret_lf_a. cbv zeta. change (lines (set_pos t 0 (cy t + 1))) with (lines t).
  set (n := length (lines t)). set (y := cy t + 1).
  set (t2 := if y >=? Z.of_nat n then set_lines (set_pos t 0 y) (lines t ++ repeat [] (Z.to_nat (y + 1) - n)) else set_pos t 0 y).
  set (t3 := if y + 1 >? bh t2 then set_bh t2 (y + 1) else t2).
  assert (H3 : lsize (lines t3) = lsize (lines t) + (if y >=? Z.of_nat n then Z.of_nat (Z.to_nat (y + 1) - n) else 0)).
  { assert (H2 : lines t3 = lines t2) by (subst t3; destruct (_ >? _); reflexivity). rewrite H2. subst t2.
    destruct (y >=? Z.of_nat n); [|cbn; lia]. change (lines (set_lines ?x ?l)) with l. apply lsize_app_empty. }
  destruct (cy t >? last_edit t).
  - intro H. rewrite (limit_lines _ _ H). lia.
  - intro H. inversion H. rewrite check_scrolling_down_dom. lia.
Qed.
Lemma line_insert_char_len row i c r : line_insert_char row i c = ROk r -> zlen r = zlen row + line_insert_a row i.
Proof.
  unfold line_insert_char, line_insert_a. destruct (i <? 0); [discriminate|]. intro H. inversion H. rewrite zlen_insert_at.
  destruct (Nat.ltb (length row) (Z.to_nat i)) eqn:E; [apply Nat.ltb_lt in E|apply Nat.ltb_ge in E]; unfold zlen; [rewrite length_resize'|]; lia.
Qed.
Lemma line_insert_a_nonneg row i : 0 <= line_insert_a row i.
Proof. unfold line_insert_a. destruct (i <? 0); lia. Qed.
Lemma print_char_unfold t c : print_char t c =
  (do t1 <- print_ins t;
   let t2 := if cy t1 + 1 >? lh t1 then set_lh t1 (cy t1 + 1) else t1 in
   let t3 := if cy t2 + 1 >? bh t2 then set_bh t2 (cy t2 + 1) else t2 in
   let t4 := layer_set t3 (cx t3) (cy t3) c in
   let t5 := set_cx t4 (cx t4 + 1) in
   if cx t5 >=? tw t5 then (if awrap t5 then caret_lf t5 else ROk (set_cx t5 (cx t5 - 1))) else ROk t5).
Proof. reflexivity. Qed.
Lemma print_ins_a_nonneg t : 0 <= print_ins_a t.
Proof.
  unfold print_ins_a. destruct (ins t); [|lia]. destruct (cy t <? 0); [lia|]. cbv zeta.
  destruct (nth_error _ _) as [row|]; [pose proof (line_insert_a_nonneg row (cx t))|]; lia.
Qed.
Lemma print_ins_spec t t1 : print_ins t = ROk t1 -> lsize (lines t1) = lsize (lines t) + print_ins_a t.
Proof.
  unfold print_ins, print_ins_a. destruct (ins t); [|intro H; inversion H; lia]. destruct (cy t <? 0); [discriminate|]. cbv zeta.
  set (yn := Z.to_nat (cy t)). set (ls1 := if Nat.ltb (length (lines t)) (S yn) then resize (lines t) (S yn) [] else lines t).
  assert (HL : lsize ls1 = lsize (lines t) + Z.of_nat (S yn - length (lines t))).
  { subst ls1. destruct (Nat.ltb (length (lines t)) (S yn)) eqn:E; [apply Nat.ltb_lt in E|apply Nat.ltb_ge in E].
    - rewrite resize_grow by lia. apply lsize_app_empty.
    - replace (S yn - length (lines t))%nat with 0%nat by lia. lia. }
  destruct (nth_error ls1 yn) as [row|] eqn:EN.
  - destruct (line_insert_char row (cx t) blank) as [r|s] eqn:EI; cbn [bind]; [|discriminate]. intro H. inversion H. change (lines (set_lines t ?l)) with l.
    pose proof (line_insert_char_len _ _ _ _ EI). unfold lsize in *. rewrite zlen_set_nth, (cells_set_nth _ _ _ _ EN). lia.
  - intro H. inversion H. subst. exfalso. apply nth_error_None in EN. subst ls1. destruct (Nat.ltb (length (lines t1)) (S yn)) eqn:E; [rewrite length_resize' in EN; lia|apply Nat.ltb_ge in E; lia].
Qed.
Lemma print_char_a_nonneg t c : 0 <= print_char_a t c.
Proof.
  unfold print_char_a. pose proof (print_ins_a_nonneg t) as HA. destruct (print_ins t) as [t1|s]; [|exact HA]. cbv zeta.
  match goal with |- 0 <= _ + ?a2 + ?a3 => assert (0 <= a2) by apply lset_a_nonneg; assert (0 <= a3) end; [|lia].
  destruct (_ >=? _); [|lia]. destruct (awrap _); [apply caret_lf_a_nonneg|lia].
Qed.
Lemma print_char_dom t c t' : print_char t c = ROk t' -> lsize (lines t') <= lsize (lines t) + print_char_a t c.
Proof.
  rewrite print_char_unfold. unfold print_char_a. pose proof (print_ins_a_nonneg t) as HA.
  destruct (print_ins t) as [t1|s] eqn:E1; cbn [bind]; [|discriminate]. pose proof (print_ins_spec _ _ E1) as H1a. cbv zeta.
  set (t2 := if cy t1 + 1 >? lh t1 then set_lh t1 (cy t1 + 1) else t1).
  set (t3 := if cy t2 + 1 >? bh t2 then set_bh t2 (cy t2 + 1) else t2).
  assert (L3 : lines t3 = lines t1) by (subst t3 t2; destruct (cy t1 + 1 >? lh t1); cbn; destruct (_ >? _); reflexivity).
  set (t4 := layer_set t3 (cx t3) (cy t3) c).
  assert (L4 : lsize (lines t4) = lsize (lines t1) + lset_a (lw t3) (lh t3) (lines t3) (cx t3) (cy t3)).
  { subst t4. unfold layer_set. change (lines (set_lines t3 ?l)) with l. rewrite lset_exact, L3. reflexivity. }
  pose proof (lset_a_nonneg (lw t3) (lh t3) (lines t3) (cx t3) (cy t3)).
  set (t5 := set_cx t4 (cx t4 + 1)). change (lines t5) with (lines t4) in *.
  destruct (cx t5 >=? tw t5).
  - destruct (awrap t5).
    + intro H5. pose proof (caret_lf_dom _ _ H5). change (lines t5) with (lines t4) in *. lia.
    + intro H5. inversion H5. change (lines (set_cx t5 _)) with (lines t4). lia.
  - intro H5. inversion H5. change (lines t5) with (lines t4). lia.
Qed.

(* ---- the arms of AnsiTok.csi_final that do not touch the line table --------------------------------------------------------------------------------------- *)
Definition keeps (t : term) (o : outcome) : Prop := match o with OOk m | OErr m | ODeep m => lines (tm m) = lines t | OPanic _ => True end.
Lemma keeps_grow t o : keeps t o -> out_grow t o = 0.
Proof. destruct o as [m|m| |]; cbn [keeps out_grow]; try reflexivity; intro H; unfold grow, size_of; rewrite H; lia. Qed.
Lemma keeps_ok t t' p : lines t' = lines t -> keeps t (ok t' p). Proof. intro H. exact H. Qed.
Lemma keeps_err t t' p : lines t' = lines t -> keeps t (err t' p). Proof. intro H. exact H. Qed.
Lemma keeps_lift t r p : (forall t', r = ROk t' -> lines t' = lines t) -> keeps t (lift r p).
Proof. intro H. destruct r as [t'|s]; cbn; [apply H; reflexivity|exact I]. Qed.
Lemma keeps_limit t t1 p : lines t1 = lines t -> keeps t (lift (limit_caret_pos t1) p).
Proof. intro H. apply keeps_lift. intros t' H'. rewrite (limit_lines _ _ H'). exact H. Qed.
Lemma sgr_loop_lines : forall fuel t l, lines (fst (sgr_loop fuel t l)) = lines t.
Proof.
  induction fuel as [|k IH]; intros t l; cbn [sgr_loop]; [reflexivity|].
  destruct l as [|n r]; [reflexivity|].
  repeat match goal with
         | |- lines (fst (if ?c then _ else _)) = _ => destruct c
         | |- lines (fst (match ext_color ?l with _ => _ end)) = _ => destruct (ext_color l) as [[? ?]|]
         end; try reflexivity; rewrite IH; reflexivity.
Qed.
Lemma keeps_sgr t p : keeps t (cmd_sgr t p).
Proof.
  unfold cmd_sgr. set (t1 := match nums p with [] => caret_reset_color t | _ => t end).
  assert (P1 : lines t1 = lines t) by (subst t1; destruct (nums p); reflexivity).
  pose proof (sgr_loop_lines (S (length (nums p))) t1 (nums p)) as P2.
  destruct (sgr_loop (S (length (nums p))) t1 (nums p)) as [t2 e]. cbn [fst] in P2. destruct e; cbn; congruence.
Qed.
Lemma keeps_decslrm t p : keeps t (cmd_decslrm t p).
Proof. unfold cmd_decslrm. destruct (margins_args p (th t)) as [[a b]|]; reflexivity. Qed.
Lemma keeps_decstbm t p : keeps t (cmd_decstbm t p).
Proof. unfold cmd_decstbm. destruct (margins_args p (th t)) as [[a b]|]; reflexivity. Qed.
Lemma keeps_csr t p : keeps t (cmd_csr t p).
Proof. unfold cmd_csr. destruct (nums p) as [|a [|b [|c [|d [|e r]]]]]; reflexivity. Qed.
Lemma keeps_window t p : keeps t (cmd_window t p).
Proof.
  unfold cmd_window. destruct (nums p) as [|k [|h [|w [|b [|e r]]]]]; try reflexivity.
  - destruct (k =? 8); reflexivity.
  - destruct (k =? 0); [reflexivity|]. destruct (k =? 1); reflexivity.
Qed.

Ltac kp :=
  first [ apply keeps_sgr | apply keeps_decslrm | apply keeps_decstbm | apply keeps_csr | apply keeps_window
        | apply keeps_limit; reflexivity
        | apply keeps_ok; reflexivity | apply keeps_err; reflexivity ].

Lemma keeps_match4 t z A B : keeps t A -> keeps t B -> keeps t (match z with 4 => A | _ => B end).
Proof. intros HA HB. destruct z as [|q|q]; auto. destruct q as [q|q|]; auto. destruct q as [q|q|]; auto. destruct q; auto. Qed.
Lemma keeps_cup t ns p : keeps t (lift (limit_caret_pos (match ns with
              | [] => set_pos t 0 (upper_left_y t)
              | a :: r =>
                let t2 := if a >=? 0 then set_cy t (sat_add (first t) (Z.max 0 (a - 1))) else t in
                match r with
                | b :: _ => if b >=? 0 then set_cx t2 (Z.max 0 (b - 1)) else t2
                | [] => set_cx t2 0
                end
              end)) p).
Proof.
  apply keeps_limit. destruct ns as [|a r]; [reflexivity|]. cbv zeta. destruct r as [|b r]; [destruct (a >=? 0); reflexivity|].
  destruct (b >=? 0); destruct (a >=? 0); reflexivity.
Qed.

(* every final byte outside the arms that carry a counter in csi_final_a leaves the line table as it is *)
Lemma csi_final_keeps t p s ch : existsb (Z.eqb ch) [83; 84; 64; 80; 76; 77; 89; 90; 107; 65; 98; 66; 74; 75; 88; 126] = false -> keeps t (csi_final t p s ch).
Proof.
  intro H. cbn [existsb] in H. repeat (apply orb_false_iff in H; destruct H as [? H]). clear H.
  unfold csi_final.
  repeat match goal with
         | E : (ch =? ?k) = false |- context [ch =? ?k] => rewrite E
         end.
  cbn [orb].
  destruct (ch =? 109); [kp|]. destruct ((ch =? 72) || (ch =? 102)); [apply keeps_cup|].
  repeat match goal with
         | |- keeps _ (if ?c then _ else _) => destruct c
         | |- keeps _ (match hpos_line t with _ => _ end) => destruct (hpos_line t)
         | |- keeps _ (match nums p with _ => _ end) => destruct (nums p) as [|? [|? ?]]
         | |- keeps _ _ => kp
         end.
  all: try (unfold caret_right, caret_left; kp).
  all: try (apply keeps_match4; kp).
  all: try (match goal with |- keeps _ (match ?z with _ => _ end) => destruct z; kp end).
Qed.

(* ---- (2) the threaded counter dominates the state-difference counter of Model/Cost.v, for every final byte -------------------------------------------------- *)
Lemma out_grow_ok_le t t' p a : lsize (lines t') <= lsize (lines t) + a -> 0 <= a -> out_grow t (ok t' p) <= a.
Proof. intros H Ha. cbn [ok out_grow tm]. apply grow_le; assumption. Qed.
Lemma out_grow_err_le t t' p a : lsize (lines t') <= lsize (lines t) + a -> 0 <= a -> out_grow t (err t' p) <= a.
Proof. intros H Ha. cbn [err out_grow tm]. apply grow_le; assumption. Qed.
Lemma out_grow_lift_le t r p a : (forall t', r = ROk t' -> lsize (lines t') <= lsize (lines t) + a) -> 0 <= a -> out_grow t (lift r p) <= a.
Proof. intros H Ha. destruct r as [t'|s]; cbn [lift out_grow tm]; [apply grow_le; auto|exact Ha]. Qed.
Lemma out_grow_same t p : out_grow t (ok t p) = 0 /\ out_grow t (err t p) = 0.
Proof. cbn [ok err out_grow tm]. unfold grow. split; lia. Qed.

Lemma grow_scroll_up x : grow x (scroll_up x) <= snd (scroll_up_a x).
Proof. apply grow_le; [apply scroll_up_a_nonneg|]. rewrite scroll_up_a_exact. lia. Qed.
Lemma grow_scroll_down x : grow x (scroll_down x) <= snd (scroll_down_a x).
Proof. apply grow_le; [apply scroll_down_a_nonneg|]. rewrite scroll_down_a_exact. lia. Qed.
Lemma caret_down_dom t n t' : caret_down t n = ROk t' -> lsize (lines t') <= lsize (lines t) + caret_down_a t n.
Proof.
  unfold caret_down, caret_down_a. intro H. rewrite (limit_lines _ _ H), check_scrolling_down_dom. change (lines (set_cy t ?y)) with (lines t). lia.
Qed.
Lemma check_scrolling_up_c_dom t f : alloc (snd (check_scrolling_up_c t f)) <= check_scrolling_up_a t f.
Proof.
  unfold check_scrolling_up_c, check_scrolling_up_a. destruct (_ || _); [|cbn; lia]. destruct (_ <? _); [|cbn; lia]. cbn [snd].
  apply iter_alloc_dom. apply grow_scroll_down.
Qed.
Lemma check_scrolling_up_a_nonneg t f : 0 <= check_scrolling_up_a t f.
Proof.
  unfold check_scrolling_up_a. destruct (_ || _); [|lia]. destruct (_ <? _); [|lia]. apply iter_ticks_nonneg. intro x. apply scroll_down_a_nonneg.
Qed.
Lemma clear_dom t ys xs c : lsize (lines (fill_cells t ys xs c)) <= lsize (lines t) + snd (fill_cells_a t ys xs c).
Proof. rewrite fill_cells_a_exact. lia. Qed.

Lemma window_a_nonneg w : 0 <= window_a w. Proof. unfold window_a. apply zlen_nonneg. Qed.

Lemma alloc_dom_l t p s ch : 0 <= cx t -> alloc (snd (csi_final_c t p s ch)) <= csi_final_a t p s ch.
Proof.
  intro Hx. unfold csi_final_c, csi_final_a. cbv zeta.
  destruct (ch =? 83) eqn:E83. { cbn [snd]. unfold su_c, su_a, ticks_of. apply iter_alloc_dom. apply grow_scroll_up. }
  destruct (ch =? 84) eqn:E84. { cbn [snd]. unfold sd_c, sd_a, ticks_of. apply iter_alloc_dom. apply grow_scroll_down. }
  destruct (ch =? 64) eqn:E64.
  { destruct (nums p) as [|n r].
    - unfold one. cbn [snd alloc]. apply out_grow_err_le; [apply caret_ins_dom|apply caret_ins_a_range].
    - cbn [snd]. unfold ich_c, ich_a, ticks_of. apply iter_alloc_dom. intro x. apply grow_le; [apply caret_ins_a_range|apply caret_ins_dom]. }
  destruct (ch =? 80) eqn:E80.
  { destruct (nums p) as [|n [|b r]].
    - unfold one. cbn [snd alloc]. apply out_grow_ok_le; [pose proof (caret_del_dom t); lia|lia].
    - cbn [snd]. unfold dch_c. pose proof (iter_cost_alloc (Z.min n (dch_limit t)) caret_del (fun _ => 1) t 0) as H. rewrite Z.mul_0_r in H. apply H; [|lia].
      intro x. apply grow_le; [lia|]. pose proof (caret_del_dom x). lia.
    - unfold one. cbn [snd alloc]. destruct (out_grow_same t (dflt p)) as [_ H]. rewrite H. lia. }
  destruct (ch =? 76) eqn:E76.
  { destruct (nums p) as [|n [|b r]].
    - unfold one. cbn [snd alloc]. apply out_grow_lift_le; [|apply insert_terminal_line_a_nonneg]. intros t' H. apply (insert_terminal_line_spec _ _ _ H).
    - cbn [snd]. unfold il_c, il_a, ticks_of. apply iter_res_alloc_dom; [|intro x; apply insert_terminal_line_a_nonneg].
      intros x x' H. apply grow_le; [apply insert_terminal_line_a_nonneg|]. apply (insert_terminal_line_spec _ _ _ H).
    - unfold one. cbn [snd alloc]. destruct (out_grow_same t (dflt p)) as [_ H]. rewrite H. lia. }
  destruct (ch =? 77) eqn:E77.
  { apply Z.eqb_eq in E77. subst ch. destruct ((music_opt p =? 1) || (music_opt p =? 3)) eqn:EM.
    { unfold one. cbn [snd alloc]. destruct (out_grow_same t (start_music p)) as [H _]. rewrite H. lia. }
    assert (HC : csi_final t p s 77 = match nums p with
         | [] => if cy t <? zlen (lines t) then lift (remove_terminal_line t (cy t)) (dflt p) else ok t (dflt p)
         | [n] => lift (iter_res (Z.min n (zlen (lines t) - cy t)) (fun x => remove_terminal_line x (cy x)) t) (dflt p)
         | _ => err t (dflt p)
         end).
    { unfold csi_final. cbn [Z.eqb Pos.eqb orb]. rewrite EM. reflexivity. }
    destruct (nums p) as [|n [|b r]] eqn:EN.
    - unfold one. cbn [snd alloc]. rewrite HC. destruct (cy t <? zlen (lines t)).
      + apply out_grow_lift_le; [|apply remove_terminal_line_a_nonneg]. intros t' H. apply (remove_terminal_line_spec _ _ _ H).
      + destruct (out_grow_same t (dflt p)) as [H _]. rewrite H. lia.
    - cbn [snd]. unfold dl_c, dl_a, ticks_of. apply iter_res_alloc_dom; [|intro x; apply remove_terminal_line_a_nonneg].
      intros x x' H. apply grow_le; [apply remove_terminal_line_a_nonneg|]. apply (remove_terminal_line_spec _ _ _ H).
    - unfold one. cbn [snd alloc]. rewrite HC. destruct (out_grow_same t (dflt p)) as [_ H]. rewrite H. lia. }
  destruct (ch =? 89) eqn:E89.
  { cbn [orb]. destruct (1 <? nlen (nums p)); [unfold one; cbn [snd alloc]; destruct (out_grow_same t (dflt p)) as [_ H]; rewrite H; lia|].
    cbn [snd]. unfold cvt_c. pose proof (iter_cost_alloc (Z.min (first_or (nums p) 1) (tab_limit t)) (fun x => set_cx x (next_tab_stop x (cx x))) (fun x => snd (next_tab_t x (cx x))) t 0) as H.
    rewrite Z.mul_0_r in H. apply H; [|lia]. intro x. unfold grow, size_of. cbn. lia. }
  destruct (ch =? 90) eqn:E90.
  { cbn [orb]. destruct (1 <? nlen (nums p)); [unfold one; cbn [snd alloc]; destruct (out_grow_same t (dflt p)) as [_ H]; rewrite H; lia|].
    cbn [snd]. unfold cbt_c. pose proof (iter_cost_alloc (Z.min (first_or (nums p) 1) (tab_limit t)) (fun x => set_cx x (prev_tab_stop x (cx x))) (fun x => snd (prev_tab_t x (cx x))) t 0) as H.
    rewrite Z.mul_0_r in H. apply H; [|lia]. intro x. unfold grow, size_of. cbn. lia. }
  cbn [orb]. destruct ((ch =? 107) || (ch =? 65)) eqn:EUP.
  { cbn [snd]. unfold caret_up_c, caret_up_a. cbn [snd cadd alloc]. pose proof (check_scrolling_up_c_dom (set_cy t (sat_sub (cy t) (first_or (nums p) 1))) false). lia. }
  destruct (ch =? 98) eqn:E98.
  { cbn [snd]. unfold rep_c, rep_a, ticks_of. apply iter_res_alloc_dom; [|intro x; apply print_char_a_nonneg].
    intros x x' H. apply grow_le; [apply print_char_a_nonneg|]. apply (print_char_dom _ _ _ H). }
  unfold one. cbn [snd alloc]. apply orb_false_iff in EUP. destruct EUP as [E107 E65].
  destruct (ch =? 66) eqn:E66.
  { apply Z.eqb_eq in E66. subst ch. change (csi_final t p s 66) with (lift (caret_down t (first_or (nums p) 1)) (dflt p)).
    apply out_grow_lift_le; [intros t' H; apply (caret_down_dom _ _ _ H)|apply check_scrolling_down_a_nonneg]. }
  destruct (ch =? 74) eqn:E74.
  { apply Z.eqb_eq in E74. subst ch.
    change (csi_final t p s 74) with (match nums p with
      | [] => ok (clear_buffer_down t) (dflt p)
      | n :: _ => if n =? 0 then ok (clear_buffer_down t) (dflt p) else if n =? 1 then ok (clear_buffer_up t) (dflt p)
                  else if (n =? 2) || (n =? 3) then ok (clear_screen t) (dflt p) else err (clear_buffer_down t) (dflt p) end).
    unfold ed_a, clear_buffer_down, clear_buffer_up. destruct (nums p) as [|n r]; [apply out_grow_ok_le; [apply clear_dom|apply fill_cells_a_nonneg]|].
    destruct (n =? 0) eqn:E0.
    { apply Z.eqb_eq in E0. subst n. cbn [Z.eqb orb]. apply out_grow_ok_le; [apply clear_dom|apply fill_cells_a_nonneg]. }
    destruct (n =? 1); [apply out_grow_ok_le; [apply clear_dom|apply fill_cells_a_nonneg]|].
    destruct ((n =? 2) || (n =? 3)); [|apply out_grow_err_le; [apply clear_dom|apply fill_cells_a_nonneg]].
    apply out_grow_ok_le; [|lia]. pose proof (lsize_nonneg (lines t)). change (lines (clear_screen t)) with (@nil (list cell)). change (lsize []) with 0. lia. }
  destruct (ch =? 75) eqn:E75.
  { apply Z.eqb_eq in E75. subst ch.
    change (csi_final t p s 75) with (match nums p with
      | [] => ok (clear_line_end t) (dflt p)
      | n :: _ => if n =? 0 then ok (clear_line_end t) (dflt p) else if n =? 1 then ok (clear_line_start t) (dflt p)
                  else if n =? 2 then ok (clear_line t) (dflt p) else err t (dflt p) end).
    unfold el_a, clear_line_end, clear_line_start, clear_line. destruct (nums p) as [|n r]; [apply out_grow_ok_le; [apply clear_dom|apply fill_cells_a_nonneg]|].
    destruct (n =? 0); [apply out_grow_ok_le; [apply clear_dom|apply fill_cells_a_nonneg]|].
    destruct (n =? 1); [apply out_grow_ok_le; [apply clear_dom|apply fill_cells_a_nonneg]|].
    destruct (n =? 2); [apply out_grow_ok_le; [apply clear_dom|apply fill_cells_a_nonneg]|].
    destruct (out_grow_same t (dflt p)) as [_ H]. rewrite H. lia. }
  destruct (ch =? 88) eqn:E88.
  { apply Z.eqb_eq in E88. subst ch. change (csi_final t p s 88) with (cmd_ech t p). unfold cmd_ech.
    destruct (nums p) as [|n r]; cbn [first_or].
    - destruct (caret_erase t 1) as [t1|s1] eqn:EE; [|cbn; apply caret_erase_a_range; exact Hx].
      apply out_grow_err_le; [apply (caret_erase_dom _ _ _ Hx EE)|apply caret_erase_a_range; exact Hx].
    - apply out_grow_lift_le; [intros t' H; apply (caret_erase_dom _ _ _ Hx H)|apply caret_erase_a_range; exact Hx]. }
  destruct (ch =? 126) eqn:E126.
  { apply Z.eqb_eq in E126. subst ch.
    change (csi_final t p s 126) with (match nums p with
      | [k] => if k =? 1 then ok (set_cx t 0) (dflt p) else if k =? 2 then ok (caret_ins t) (dflt p) else if k =? 3 then ok (caret_del t) (dflt p)
               else if k =? 4 then ok (caret_eol t) (dflt p) else if (k =? 5) || (k =? 6) then ok t (dflt p) else err t (dflt p)
      | _ => err t (dflt p) end).
    destruct (out_grow_same t (dflt p)) as [HS1 HS2]. pose proof (caret_ins_a_range t) as HR.
    destruct (nums p) as [|k [|b r]]; [rewrite HS2; lia| |rewrite HS2; lia].
    destruct (k =? 1) eqn:E1; [apply Z.eqb_eq in E1; subst k; cbn [Z.eqb Pos.eqb]; apply out_grow_ok_le; [cbn; lia|lia]|].
    destruct (k =? 2); [apply out_grow_ok_le; [apply caret_ins_dom|lia]|].
    destruct (k =? 3); [apply out_grow_ok_le; [pose proof (caret_del_dom t); lia|lia]|].
    destruct (k =? 4); [apply out_grow_ok_le; [cbn; lia|lia]|].
    destruct (_ || _); [rewrite HS1|rewrite HS2]; lia. }
  destruct (ch =? 116) eqn:E116.
  { apply Z.eqb_eq in E116. subst ch. change (csi_final t p s 116) with (cmd_window t p). rewrite (keeps_grow _ _ (keeps_window t p)).
    destruct (nums p) as [|k [|h [|w [|b r]]]]; try lia. destruct (k =? 8); [apply window_a_nonneg|lia]. }
  rewrite keeps_grow; [lia|]. apply csi_final_keeps. cbn [existsb]. rewrite E83, E84, E64, E80, E76, E77, E89, E90, E107, E65, E98, E66, E74, E75, E88, E126. reflexivity.
Qed.

(* ---- (3) bounds ------------------------------------------------------------------------------------------------------------------------------------------------ *)
Lemma set_lines_eta t : t = set_lines t (lines t). Proof. destruct t; reflexivity. Qed.
(* an iterated primitive that only writes cells through Layer::set_char inside R rows x M columns: the counters sum to the final size *)
Lemma iter_lset_bound R M n (f : term -> term) (a : term -> Z) t :
  (forall ls, fits R M ls -> exists ls', f (set_lines t ls) = set_lines t ls' /\ fits R M ls' /\ a (set_lines t ls) = lsize ls' - lsize ls) ->
  fits R M (lines t) -> 0 <= R -> 0 <= M -> ticks (snd (iter_cost n f a t)) <= R * (1 + M).
Proof.
  intros Hs Hf HR HM.
  pose proof (iter_ticks_pot (fun x => exists ls, x = set_lines t ls /\ fits R M ls) (fun x => R * (1 + M) - lsize (lines x)) 0 n f a t) as H.
  rewrite Z.mul_0_r in H. pose proof (lsize_nonneg (lines t)).
  assert (ticks (snd (iter_cost n f a t)) <= 0 + (R * (1 + M) - lsize (lines t))); [|lia]. apply H; [| | |lia].
  - intros x (ls & -> & Hl). destruct (Hs ls Hl) as (ls' & E1 & E2 & E3). rewrite E1, E3. split; [exists ls'; auto|]. change (lines (set_lines t ls')) with ls'. change (lines (set_lines t ls)) with ls. lia.
  - intros x (ls & -> & Hl). change (lines (set_lines t ls)) with ls. pose proof (fits_size R M ls HR HM Hl). lia.
  - exists (lines t). split; [apply set_lines_eta|exact Hf].
Qed.
Lemma scroll_up_iter_bound R M n t : fits R M (lines t) -> lw t <= M -> Z.max (first_edit t) (last_edit t) + 1 <= R -> 0 <= R -> 0 <= M ->
  0 <= ticks (snd (iter_cost n scroll_up (fun x => snd (scroll_up_a x)) t)) <= R * (1 + M).
Proof.
  intros Hf Hw Hy HR HM. split; [apply iter_ticks_nonneg; intro x; apply scroll_up_a_nonneg|]. apply iter_lset_bound; auto.
  intros ls Hl. exists (lines (scroll_up (set_lines t ls))). split; [reflexivity|]. split.
  - apply scroll_up_fits; auto. intros y Hy' _. change (first_edit (set_lines t ls)) with (first_edit t) in Hy'. change (last_edit (set_lines t ls)) with (last_edit t) in Hy'. lia.
  - rewrite scroll_up_a_exact. reflexivity.
Qed.
Lemma scroll_down_iter_bound R M n t : fits R M (lines t) -> lw t <= M -> Z.max (first_edit t) (last_edit t) + 1 <= R -> 0 <= R -> 0 <= M ->
  0 <= ticks (snd (iter_cost n scroll_down (fun x => snd (scroll_down_a x)) t)) <= R * (1 + M).
Proof.
  intros Hf Hw Hy HR HM. split; [apply iter_ticks_nonneg; intro x; apply scroll_down_a_nonneg|]. apply iter_lset_bound; auto.
  intros ls Hl. exists (lines (scroll_down (set_lines t ls))). split; [reflexivity|]. split.
  - apply scroll_down_fits; auto. intros y Hy' _. change (first_edit (set_lines t ls)) with (first_edit t) in Hy'. change (last_edit (set_lines t ls)) with (last_edit t) in Hy'. lia.
  - rewrite scroll_down_a_exact. reflexivity.
Qed.
Lemma scroll_up_once_bound R M t : fits R M (lines t) -> lw t <= M -> Z.max (first_edit t) (last_edit t) + 1 <= R -> 0 <= R -> 0 <= M ->
  0 <= snd (scroll_up_a t) <= R * (1 + M).
Proof.
  intros Hf Hw Hy HR HM. split; [apply scroll_up_a_nonneg|]. rewrite scroll_up_a_exact.
  assert (F : fits R M (lines (scroll_up t))) by (apply scroll_up_fits; auto; intros y Hy' _; lia).
  pose proof (fits_size R M _ HR HM F). pose proof (lsize_nonneg (lines t)). lia.
Qed.
Lemma fill_cells_a_bound R M t ys xs c : fits R M (lines t) -> lw t <= M -> (forall y, In y ys -> y + 1 <= R) -> 0 <= R -> 0 <= M ->
  0 <= snd (fill_cells_a t ys xs c) <= R * (1 + M).
Proof.
  intros Hf Hw Hy HR HM. split; [apply fill_cells_a_nonneg|]. rewrite fill_cells_a_exact.
  assert (F : fits R M (lines (fill_cells t ys xs c))) by (apply fill_cells_fits; auto; intros y Hin _; auto).
  pose proof (fits_size R M _ HR HM F). pose proof (lsize_nonneg (lines t)). lia.
Qed.
Lemma sel_erase_a_bound R M t ys xs : fits R M (lines t) -> lw t <= M -> (forall y, In y ys -> y + 1 <= R) -> 0 <= R -> 0 <= M ->
  0 <= snd (sel_erase_a t ys xs) <= R * (1 + M).
Proof.
  intros Hf Hw Hy HR HM. split; [apply sel_erase_a_nonneg|]. rewrite sel_erase_a_exact.
  assert (F : fits R M (lines (fst (sel_erase_a t ys xs)))) by (apply sel_erase_fits; auto; intros y Hin _; auto).
  pose proof (fits_size R M _ HR HM F). pose proof (lsize_nonneg (lines t)). lia.
Qed.

(* what the C09 invariant gives: the line table fits into 2 scrH rows x scrW columns, and so does everything the control functions address *)
Definition capR (t : term) : Z := 2 * scrH t.
Definition capB (t : term) : Z := capR t * (1 + scrW t).
Lemma cap_facts t : Inv09 t ->
  fits (capR t) (scrW t) (lines t) /\ lw t <= scrW t /\ Z.max (first_edit t) (last_edit t) + 1 <= capR t /\ last_visible t <= capR t /\
  0 <= first t /\ cy t + 1 <= scrH t /\ 0 <= capR t /\ 0 <= scrW t /\ capB t <= 3 * scr t /\ scrH t <= scr t /\ scrW t <= scr t /\ 5 <= scr t /\
  scrW t * scrH t < scr t.
Proof.
  intro H. destruct (inv_facts t H) as (H1 & H2 & H3 & H4 & H5 & H6 & H7 & H8 & H9).
  destruct (scrW_ge t H) as (W1 & W2 & W3 & W4 & W5). destruct (scrH_ge t H) as (G1 & G2 & G3).
  unfold capB, capR, fits, last_visible. repeat split; try lia.
  - unfold first_edit, last_edit. unfold margins_ok in H8. destruct (mtb t) as [[a b]|]; lia.
  - unfold scr. nia.
  - unfold scr. nia.
  - unfold scr. nia.
  - unfold scr. nia.
  - unfold scr. lia.
Qed.

Lemma su_a_bound t n : Inv09 t -> 0 <= su_a t n <= capB t.
Proof. intro H. destruct (cap_facts t H) as (F1 & F2 & F3 & F4 & F5 & F6 & F7 & F8 & _). unfold su_a, ticks_of, capB. apply scroll_up_iter_bound; auto. Qed.
Lemma sd_a_bound t n : Inv09 t -> 0 <= sd_a t n <= capB t.
Proof. intro H. destruct (cap_facts t H) as (F1 & F2 & F3 & F4 & F5 & F6 & F7 & F8 & _). unfold sd_a, ticks_of, capB. apply scroll_down_iter_bound; auto. Qed.
Lemma caret_up_a_bound t n : Inv09 t -> 0 <= caret_up_a t n <= capB t.
Proof.
  intro H. destruct (cap_facts t H) as (F1 & F2 & F3 & F4 & F5 & F6 & F7 & F8 & _). unfold caret_up_a, check_scrolling_up_a.
  assert (0 <= capB t) by (unfold capB; nia).
  destruct (_ || _); [|lia]. destruct (_ <? _); [|lia]. unfold ticks_of, capB. apply scroll_down_iter_bound; auto.
Qed.
Lemma caret_down_a_bound t n : Inv09 t -> 0 <= caret_down_a t n <= capB t.
Proof.
  intro H. destruct (cap_facts t H) as (F1 & F2 & F3 & F4 & F5 & F6 & F7 & F8 & _). unfold caret_down_a, check_scrolling_down_a.
  assert (0 <= capB t) by (unfold capB; nia).
  destruct (_ && _); [|lia]. unfold capB. apply scroll_up_once_bound; auto.
Qed.
Lemma ich_a_bound t n : Inv09 t -> 0 <= ich_a t n <= scrW t.
Proof.
  intro H. pose proof (ich_limit_le t H) as HL. unfold ich_a, ticks_of. split; [apply iter_ticks_nonneg; intro x; apply caret_ins_a_range|].
  pose proof (iter_ticks_pot (fun _ => True) (fun _ => 0) 1 (Z.min n (ich_limit t)) caret_ins caret_ins_a t) as HP.
  assert (ticks (snd (iter_cost (Z.min n (ich_limit t)) caret_ins caret_ins_a t)) <= Z.max 0 (Z.min n (ich_limit t)) * 1 + 0); [|lia].
  apply HP; auto; try lia. intros x _. split; [exact I|]. pose proof (caret_ins_a_range x). lia.
Qed.
Lemma pot_rows_le t c : Inv09 t -> c + 1 <= scrH t -> pot_rows c t <= scrH t * (1 + scrW t).
Proof.
  intros H Hc. destruct (scrW_ge t H) as (_ & W2 & _). unfold pot_rows. rewrite wz_eq. pose proof (zlen_nonneg (lines t)).
  destruct (scrH_ge t H) as (_ & _ & G3). nia.
Qed.
Lemma insert_terminal_line_a_le t c : insert_terminal_line_a t c <= 1 + pot_rows c t.
Proof.
  destruct (insert_terminal_line t c) as [t'|s] eqn:E.
  - destruct (insert_terminal_line_spec _ _ _ E) as (_ & _ & H). pose proof (pot_rows_nonneg c t'). lia.
  - rewrite (insert_terminal_line_panic _ _ _ E). pose proof (pot_rows_nonneg c t). lia.
Qed.
Lemma remove_terminal_line_a_le t c : remove_terminal_line_a t c <= 1 + pot_rows_m t.
Proof.
  destruct (remove_terminal_line t c) as [t'|s] eqn:E.
  - destruct (remove_terminal_line_spec _ _ _ E) as (_ & _ & H). pose proof (pot_rows_m_nonneg t'). lia.
  - rewrite (remove_terminal_line_panic _ _ _ E). pose proof (pot_rows_m_nonneg t). lia.
Qed.
Lemma il_a_bound t n : Inv09 t -> 0 <= il_a t n <= 2 * scrH t + 1 + scrH t * (1 + scrW t).
Proof.
  intro H. pose proof (il_limit_le t H) as HL. destruct (cap_facts t H) as (_ & _ & _ & _ & _ & F6 & _).
  unfold il_a, ticks_of. split; [apply iter_res_ticks_nonneg; intro x; apply insert_terminal_line_a_nonneg|].
  pose proof (iter_res_ticks_pot (fun x => exists ls, x = set_lines t ls) (pot_rows (cy t)) 1 (Z.min n (il_limit t))
               (fun x => insert_terminal_line x (cy x)) (fun x => insert_terminal_line_a x (cy x)) t) as HP.
  pose proof (pot_rows_le t (cy t) H F6).
  assert (ticks (snd (iter_cost_res (Z.min n (il_limit t)) (fun x => insert_terminal_line x (cy x)) (fun x => insert_terminal_line_a x (cy x)) t))
          <= Z.max 0 (Z.min n (il_limit t)) * 1 + pot_rows (cy t) t); [|lia].
  apply HP; try lia.
  - intros x x' (ls & ->) E. change (cy (set_lines t ls)) with (cy t) in *. destruct (insert_terminal_line_spec _ _ _ E) as (S1 & _ & S3).
    split; [exists (lines x'); rewrite S1; reflexivity|exact S3].
  - intros x s (ls & ->) E. change (cy (set_lines t ls)) with (cy t) in *. rewrite (insert_terminal_line_panic _ _ _ E). pose proof (pot_rows_nonneg (cy t) (set_lines t ls)). lia.
  - intros x _. apply pot_rows_nonneg.
  - exists (lines t). apply set_lines_eta.
Qed.
Lemma pot_rows_m_le t : Inv09 t -> pot_rows_m t <= scrH t * (1 + scrW t).
Proof.
  intro H. destruct (inv_facts t H) as (H1 & H2 & H3 & H4 & H5 & H6 & H7 & H8 & H9). destruct (scrH_ge t H) as (G1 & _).
  unfold pot_rows_m. unfold margins_ok in H8. destruct (mtb t) as [[a b]|] eqn:E; [apply pot_rows_le; auto; lia|]. destruct (scrW_ge t H) as (_ & _ & _ & _ & W5). nia.
Qed.
Lemma dl_a_bound t n : Inv09 t -> 0 <= dl_a t n <= scrH t + scrH t * (1 + scrW t).
Proof.
  intro H. pose proof (dl_limit_le t H) as HL. unfold dl_a, ticks_of. split; [apply iter_res_ticks_nonneg; intro x; apply remove_terminal_line_a_nonneg|].
  pose proof (iter_res_ticks_pot (fun x => exists ls, x = set_lines t ls) pot_rows_m 1 (Z.min n (zlen (lines t) - cy t))
               (fun x => remove_terminal_line x (cy x)) (fun x => remove_terminal_line_a x (cy x)) t) as HP.
  pose proof (pot_rows_m_le t H). destruct (scrH_ge t H) as (_ & _ & G3).
  assert (ticks (snd (iter_cost_res (Z.min n (zlen (lines t) - cy t)) (fun x => remove_terminal_line x (cy x)) (fun x => remove_terminal_line_a x (cy x)) t))
          <= Z.max 0 (Z.min n (zlen (lines t) - cy t)) * 1 + pot_rows_m t); [|lia].
  apply HP; try lia.
  - intros x x' (ls & ->) E. destruct (remove_terminal_line_spec _ _ _ E) as (S1 & _ & S3).
    split; [exists (lines x'); rewrite S1; reflexivity|exact S3].
  - intros x s (ls & ->) E. rewrite (remove_terminal_line_panic _ _ _ E). pose proof (pot_rows_m_nonneg (set_lines t ls)). lia.
  - intros x _. apply pot_rows_m_nonneg.
  - exists (lines t). apply set_lines_eta.
Qed.
Lemma sl_a_bound t n : Inv09 t -> 0 <= sl_a t n <= scrW t * scrH t.
Proof.
  intro H. pose proof (eff_cols_le t H) as HC. destruct (region_rows_le t H) as (_ & _ & R3). unfold sl_a, ticks_of.
  split; [apply iter_ticks_nonneg; intro x; apply scroll_left_a_spec|].
  pose proof (iter_ticks_pot (fun x => exists ls, x = set_lines t ls) (fun _ => 0) (scrH t) (Z.min n (eff_cols t)) scroll_left (fun x => snd (scroll_left_a x)) t) as HP.
  destruct (scrH_ge t H) as (_ & _ & G3).
  assert (ticks (snd (iter_cost (Z.min n (eff_cols t)) scroll_left (fun x => snd (scroll_left_a x)) t)) <= Z.max 0 (Z.min n (eff_cols t)) * scrH t + 0); [|nia].
  apply HP; try lia.
  - intros x (ls & ->). split; [eexists; reflexivity|]. destruct (scroll_left_a_spec (set_lines t ls)) as (_ & S2).
    change (first_edit (set_lines t ls)) with (first_edit t) in S2. change (last_edit (set_lines t ls)) with (last_edit t) in S2. lia.
  - exists (lines t). apply set_lines_eta.
Qed.
Lemma sr_a_bound t n : Inv09 t -> 0 <= sr_a t n <= scrW t * scrH t.
Proof.
  intro H. pose proof (eff_cols_le t H) as HC. destruct (region_rows_le t H) as (_ & _ & R3). unfold sr_a, ticks_of.
  split; [apply iter_res_ticks_nonneg; intro x; apply scroll_right_a_spec|].
  pose proof (iter_res_ticks_pot (fun x => exists ls, x = set_lines t ls) (fun _ => 0) (scrH t) (Z.min n (eff_cols t)) scroll_right (fun x => snd (scroll_right_a x)) t) as HP.
  destruct (scrH_ge t H) as (_ & _ & G3).
  assert (ticks (snd (iter_cost_res (Z.min n (eff_cols t)) scroll_right (fun x => snd (scroll_right_a x)) t)) <= Z.max 0 (Z.min n (eff_cols t)) * scrH t + 0); [|nia].
  assert (HW : forall ls, snd (scroll_right_a (set_lines t ls)) <= scrH t).
  { intro ls. destruct (scroll_right_a_spec (set_lines t ls)) as (_ & S2).
    change (first_edit (set_lines t ls)) with (first_edit t) in S2. change (last_edit (set_lines t ls)) with (last_edit t) in S2. lia. }
  apply HP; try lia.
  - intros x x' (ls & ->) E. destruct (scroll_right_a_spec (set_lines t ls)) as (S1 & _). destruct (S1 _ E) as (S1a & _).
    split; [exists (lines x'); rewrite S1a; reflexivity|]. specialize (HW ls). lia.
  - intros x s (ls & ->) _. specialize (HW ls). lia.
  - exists (lines t). apply set_lines_eta.
Qed.
Lemma in_zrange_cap lo hi R y : hi <= R -> In y (zrange lo hi) -> y + 1 <= R.
Proof. intros H Hin. apply in_zrange in Hin. lia. Qed.
Lemma ed_a_bound t ns : Inv09 t -> 0 <= ed_a t ns <= capB t.
Proof.
  intro H. destruct (cap_facts t H) as (F1 & F2 & F3 & F4 & F5 & F6 & F7 & F8 & _). assert (0 <= capB t) by (unfold capB; nia).
  assert (B1 : 0 <= snd (fill_cells_a t (zrange (cy t) (last_visible t)) (zrange 0 (bw t)) (32, cbg t)) <= capB t).
  { unfold capB. apply fill_cells_a_bound; auto. intros y Hin. eapply in_zrange_cap; [|exact Hin]. exact F4. }
  assert (B2 : 0 <= snd (fill_cells_a t (zrange (first t) (cy t)) (zrange 0 (bw t)) (32, cbg t)) <= capB t).
  { unfold capB. apply fill_cells_a_bound; auto. intros y Hin. eapply in_zrange_cap; [|exact Hin]. unfold capR. destruct (scrH_ge t H) as (_ & _ & G3). lia. }
  unfold ed_a. destruct ns as [|n r]; [exact B1|]. destruct (n =? 1); [exact B2|]. destruct (_ || _); [lia|exact B1].
Qed.
Lemma el_a_bound t ns : Inv09 t -> 0 <= el_a t ns <= capB t.
Proof.
  intro H. destruct (cap_facts t H) as (F1 & F2 & F3 & F4 & F5 & F6 & F7 & F8 & _). assert (0 <= capB t) by (unfold capB; nia).
  assert (B : forall xs, 0 <= snd (fill_cells_a t [cy t] xs (32, cbg t)) <= capB t).
  { intro xs. unfold capB. apply fill_cells_a_bound; auto. intros y [<-|[]]. unfold capR. destruct (scrH_ge t H) as (_ & _ & G3). lia. }
  unfold el_a. destruct ns as [|n r]; [apply B|]. destruct (n =? 0); [apply B|]. destruct (n =? 1); [apply B|]. destruct (n =? 2); [apply B|lia].
Qed.
Lemma window_a_le w : window_a w <= 132.
Proof. unfold window_a, reset_tabs, zlen. pose proof (reset_tabs_n_len (Z.to_nat (Z.max (Z.min w 132) 1)) 0 (Z.max (Z.min w 132) 1)). lia. Qed.

Lemma alloc_bound_l t p s ch n : Inv09 t -> 0 <= n -> nlen (nums p) <= n -> ch <> 98 -> 0 <= csi_final_a t p s ch <= 8 * (n + 1) * scr t.
Proof.
  intros H Hn Hl H98. destruct (cap_facts t H) as (F1 & F2 & F3 & F4 & F5 & F6 & F7 & F8 & F9 & F10 & F11 & F12 & F13).
  destruct (inv_facts t H) as (I1 & I2 & I3 & I4 & I5 & _). destruct (scrW_ge t H) as (W1 & _). destruct (scrH_ge t H) as (_ & _ & G3).
  assert (HB : capB t <= 8 * (n + 1) * scr t) by nia.
  assert (HS : 3 * scr t <= 8 * (n + 1) * scr t) by nia.
  assert (HI : 2 * scrH t + 1 + scrH t * (1 + scrW t) <= 3 * scr t) by nia.
  assert (HD : scrH t + scrH t * (1 + scrW t) <= 3 * scr t) by nia.
  pose proof (caret_ins_a_range t) as HCI.
  pose proof (insert_terminal_line_a_nonneg t (cy t)) as HIT0. pose proof (insert_terminal_line_a_le t (cy t)) as HIT1. pose proof (pot_rows_le t (cy t) H F6) as HIT2.
  pose proof (remove_terminal_line_a_nonneg t (cy t)) as HRT0. pose proof (remove_terminal_line_a_le t (cy t)) as HRT1. pose proof (pot_rows_m_le t H) as HRT2.
  unfold csi_final_a. cbv zeta.
  destruct (ch =? 83). { pose proof (su_a_bound t (first_or (nums p) 1) H). lia. }
  destruct (ch =? 84). { pose proof (sd_a_bound t (first_or (nums p) 1) H). lia. }
  destruct (ch =? 64). { destruct (nums p) as [|a r]; [nia|]. pose proof (ich_a_bound t a H). nia. }
  destruct (ch =? 80); [nia|].
  destruct (ch =? 76). { destruct (nums p) as [|a [|b r]]; [nia| |nia]. pose proof (il_a_bound t a H). nia. }
  destruct (ch =? 77).
  { destruct (_ || _); [nia|]. destruct (nums p) as [|a [|b r]]; [destruct (_ <? _); nia| |nia]. pose proof (dl_a_bound t a H). nia. }
  destruct (_ || _); [nia|].
  destruct (_ || _). { pose proof (caret_up_a_bound t (first_or (nums p) 1) H). lia. }
  destruct (ch =? 98) eqn:E98; [apply Z.eqb_eq in E98; contradiction|].
  destruct (ch =? 66). { pose proof (caret_down_a_bound t (first_or (nums p) 1) H). lia. }
  destruct (ch =? 74). { pose proof (ed_a_bound t (nums p) H). lia. }
  destruct (ch =? 75). { pose proof (el_a_bound t (nums p) H). lia. }
  destruct (ch =? 88). { pose proof (caret_erase_a_range t (first_or (nums p) 1) ltac:(lia)). nia. }
  destruct (ch =? 126). { destruct (nums p) as [|k [|b r]]; [nia| |nia]. destruct (k =? 2); nia. }
  destruct (ch =? 116).
  { destruct (nums p) as [|k [|h [|w [|b r]]]]; try nia. destruct (k =? 8); [|nia]. pose proof (window_a_nonneg w). pose proof (window_a_le w).
    unfold nlen in Hl. cbn [length] in Hl. nia. }
  nia.
Qed.

(* ---- CSI .. SP <final> ---------------------------------------------------------------------------------------------------------------------------------------------- *)
Lemma alloc_dom_sp_l t p ch : alloc (snd (csi_sp_c t p ch)) <= csi_sp_a t p ch.
Proof.
  unfold csi_sp_c, csi_sp_a. cbv zeta.
  destruct (ch =? 65).
  { cbn [snd]. unfold sr_c, sr_a, ticks_of. apply iter_res_alloc_dom; [|intro x; apply scroll_right_a_spec].
    intros x x' E. apply grow_le; [apply scroll_right_a_spec|]. destruct (scroll_right_a_spec x) as (S1 & _). apply (S1 _ E). }
  destruct (ch =? 64).
  { cbn [snd]. unfold sl_c, sl_a, ticks_of. apply iter_alloc_dom. intro x. apply grow_le; apply scroll_left_a_spec. }
  destruct (ch =? 68); [cbn; lia|]. destruct (ch =? 100); cbn; lia.
Qed.
Lemma alloc_bound_sp_l t p ch n : Inv09 t -> 0 <= n -> 0 <= csi_sp_a t p ch <= 8 * (n + 1) * scr t.
Proof.
  intros H Hn. destruct (cap_facts t H) as (_ & _ & _ & _ & _ & _ & _ & _ & _ & _ & _ & F12 & F13). unfold csi_sp_a.
  destruct (ch =? 65). { pose proof (sr_a_bound t (first_or (nums p) 1) H). nia. }
  destruct (ch =? 64). { pose proof (sl_a_bound t (first_or (nums p) 1) H). nia. }
  nia.
Qed.

(* ---- CSI .. $ <final>: the rectangle is clipped to max(rows, text height) x text width ---------------------------------------------------------------------------------- *)
Lemma rect_lists_cap t a b c d ys xs : Inv09 t -> rect_lists t a b c d = (ys, xs) -> forall y, In y ys -> y + 1 <= capR t.
Proof.
  intros H E y Hin. unfold rect_lists, rect_area in E. inversion E. subst ys. apply in_zrange_incl in Hin.
  destruct (scrH_ge t H) as (G1 & G2 & G3). destruct (inv_facts t H) as (_ & I2 & I3 & _). unfold capR. pose proof (zlen_nonneg (lines t)). lia.
Qed.
Lemma csi_dollar_a_nonneg t p ch : 0 <= csi_dollar_a t p ch.
Proof.
  unfold csi_dollar_a, rect_lists.
  destruct (ch =? 120). { destruct (nums p) as [|c [|a [|b [|cc [|d [|e r]]]]]]; try lia. destruct (is_scalar c); [|lia]. destruct (rect_area t a b cc d) as [[[tl lc] bl] rc]. apply fill_cells_a_nonneg. }
  destruct (ch =? 122). { destruct (nums p) as [|a [|b [|c [|d [|e r]]]]]; try lia. destruct (rect_area t a b c d) as [[[tl lc] bl] rc]. apply fill_cells_a_nonneg. }
  destruct (ch =? 123). { destruct (nums p) as [|a [|b [|c [|d [|e r]]]]]; try lia. destruct (rect_area t a b c d) as [[[tl lc] bl] rc]. apply sel_erase_a_nonneg. }
  lia.
Qed.
Lemma out_grow_dollar t p ch : out_grow t (dollar_outcome t p ch) <= csi_dollar_a t p ch.
Proof.
  pose proof (csi_dollar_a_nonneg t p ch) as H0. revert H0.
  unfold dollar_outcome, csi_dollar_a. destruct (out_grow_same t (dflt p)) as [S1 S2]. destruct (out_grow_same t p) as [S3 _].
  destruct (ch =? 119); [rewrite S1; auto|]. intros _.
  destruct (ch =? 120).
  { unfold cmd_fill_rect. destruct (nums p) as [|c [|a [|b [|cc [|d [|e r]]]]]]; try (rewrite S2; lia).
    destruct (is_scalar c); [|rewrite S2; lia]. unfold rect_lists. destruct (rect_area t a b cc d) as [[[tl lc] bl] rc].
    apply out_grow_ok_le; [apply clear_dom|apply fill_cells_a_nonneg]. }
  destruct (ch =? 122).
  { unfold cmd_erase_rect. destruct (nums p) as [|a [|b [|c [|d [|e r]]]]]; try (rewrite S2; lia).
    unfold rect_lists. destruct (rect_area t a b c d) as [[[tl lc] bl] rc]. apply out_grow_ok_le; [apply clear_dom|apply fill_cells_a_nonneg]. }
  destruct (ch =? 123).
  { unfold cmd_sel_erase_rect. destruct (nums p) as [|a [|b [|c [|d [|e r]]]]]; try (rewrite S2; lia).
    unfold rect_lists. destruct (rect_area t a b c d) as [[[tl lc] bl] rc]. apply out_grow_ok_le; [|apply sel_erase_a_nonneg].
    rewrite sel_erase_a_exact. unfold sel_erase_a. cbn [fst]. rewrite !fold_sum_fst. change (lines (set_lines t ?l)) with l.
    match goal with |- lsize ?a <= _ + (lsize ?b - _) => assert (E : a = b); [|rewrite E; lia] end.
    apply fold_left_ext. intros ls y. rewrite fold_sum_fst. reflexivity. }
  rewrite S3. lia.
Qed.
Lemma alloc_dom_dollar_l t p ch : alloc (snd (csi_dollar_c t p ch)) <= csi_dollar_a t p ch.
Proof. unfold csi_dollar_c. cbn [snd alloc]. apply out_grow_dollar. Qed.
Lemma alloc_bound_dollar_l t p ch n : Inv09 t -> 0 <= n -> 0 <= csi_dollar_a t p ch <= 8 * (n + 1) * scr t.
Proof.
  intros H Hn. destruct (cap_facts t H) as (F1 & F2 & F3 & F4 & F5 & F6 & F7 & F8 & F9 & _ & _ & F12 & _).
  assert (HB : capB t <= 8 * (n + 1) * scr t) by nia. assert (H0 : 0 <= 8 * (n + 1) * scr t) by nia.
  unfold csi_dollar_a.
  destruct (ch =? 120).
  { destruct (nums p) as [|c [|a [|b [|cc [|d [|e r]]]]]]; try lia. destruct (is_scalar c); [|lia].
    destruct (rect_lists t a b cc d) as [ys xs] eqn:E. pose proof (fill_cells_a_bound (capR t) (scrW t) t ys xs (c, cbg t) F1 F2 (rect_lists_cap _ _ _ _ _ _ _ H E) F7 F8). unfold capB in HB. lia. }
  destruct (ch =? 122).
  { destruct (nums p) as [|a [|b [|c [|d [|e r]]]]]; try lia.
    destruct (rect_lists t a b c d) as [ys xs] eqn:E. pose proof (fill_cells_a_bound (capR t) (scrW t) t ys xs blank F1 F2 (rect_lists_cap _ _ _ _ _ _ _ H E) F7 F8). unfold capB in HB. lia. }
  destruct (ch =? 123).
  { destruct (nums p) as [|a [|b [|c [|d [|e r]]]]]; try lia.
    destruct (rect_lists t a b c d) as [ys xs] eqn:E. pose proof (sel_erase_a_bound (capR t) (scrW t) t ys xs F1 F2 (rect_lists_cap _ _ _ _ _ _ _ H E) F7 F8). unfold capB in HB. lia. }
  lia.
Qed.
(* the state-difference counter of Model/Cost.v (what stage C compares with the measured growth) is therefore bounded as well *)
Lemma alloc_bound_state_l t p s ch n : Inv09 t -> 0 <= n -> nlen (nums p) <= n -> ch <> 98 -> alloc (snd (csi_final_c t p s ch)) <= 8 * (n + 1) * scr t.
Proof.
  intros H Hn Hl H98. destruct (inv_facts t H) as (_ & _ & _ & _ & I5 & _).
  pose proof (alloc_dom_l t p s ch ltac:(lia)). pose proof (alloc_bound_l t p s ch n H Hn Hl H98). lia.
Qed.
Lemma alloc_bound_sp_pair_l t p ch n : Inv09 t -> 0 <= n -> alloc (snd (csi_sp_c t p ch)) <= csi_sp_a t p ch /\ 0 <= csi_sp_a t p ch <= 8 * (n + 1) * scr t.
Proof. intros H Hn. split; [apply alloc_dom_sp_l|apply alloc_bound_sp_l; assumption]. Qed.
Lemma alloc_bound_dollar_pair_l t p ch n : Inv09 t -> 0 <= n -> alloc (snd (csi_dollar_c t p ch)) <= csi_dollar_a t p ch /\ 0 <= csi_dollar_a t p ch <= 8 * (n + 1) * scr t.
Proof. intros H Hn. split; [apply alloc_dom_dollar_l|apply alloc_bound_dollar_l; assumption]. Qed.
