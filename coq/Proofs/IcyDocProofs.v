(* Proofs about Model/IcyDoc.v: a saved document comes back chunk by chunk, under the container and payload-codec hypotheses. *)
From Coq Require Import ZArith NArith List Bool Lia String Ascii Decimal DecimalString DecimalN DecimalPos.
From IE Require Import Lib.Tbl Lib.Bits Gen.IcyGen Model.IcyLayer Model.IcyDoc Proofs.IcyLayerProofs.
Import ListNotations.
Local Open Scope N_scope.

(* ------------------------------------------------------------------ generated mode-byte maps *)
Definition mode_ok (tbl : list N) (from : N -> N) (v : N) : bool := (tget tbl v <? 256) && (from (tget tbl v) =? v).

Lemma mode_bytes_sweep :
  forallb (mode_ok BufferType_to_byte_tbl BufferType_from_byte) (nrange BufferType_count) = true /\
  forallb (mode_ok IceMode_to_byte_tbl IceMode_from_byte) (nrange IceMode_count) = true /\
  forallb (mode_ok PaletteMode_to_byte_tbl PaletteMode_from_byte) (nrange PaletteMode_count) = true /\
  forallb (mode_ok FontMode_to_byte_tbl FontMode_from_byte) (nrange FontMode_count) = true.
Proof. repeat split; vm_compute; reflexivity. Qed.

Lemma mode_ok_spec tbl from n v : forallb (mode_ok tbl from) (nrange n) = true -> v < n ->
  tget tbl v < 256 /\ from (tget tbl v) = v.
Proof.
  intros H Hv. pose proof (nrange_forallb _ _ H v Hv) as S. unfold mode_ok in S.
  apply andb_prop in S as [A B]. split; [now apply N.ltb_lt | now apply N.eqb_eq].
Qed.

(* ------------------------------------------------------------------ keywords *)
Lemma strip_prefix_app p s : strip_prefix p (p ++ s) = Some s.
Proof. induction p as [|a p IH]; cbn; [reflexivity|]. now rewrite Ascii.eqb_refl. Qed.

Lemma to_uint_nonnil k : N.to_uint k <> Nil.
Proof. destruct k; cbn; [discriminate | apply Unsigned.to_uint_nonnil]. Qed.

Lemma parse_dec k : k < 18446744073709551616 -> parse_usize (dec k) = Some k.
Proof.
  intro H. unfold parse_usize, dec. rewrite NilZero.usu by apply to_uint_nonnil.
  rewrite DecimalN.Unsigned.of_to. apply N.ltb_lt in H. now rewrite H.
Qed.

Fixpoint has_tilde (s : string) : bool :=
  match s with EmptyString => false | String a t => Ascii.eqb a "~" || has_tilde t end.

Lemma has_tilde_app s t : has_tilde (s ++ t) = has_tilde s || has_tilde t.
Proof. induction s as [|a s IH]; cbn; [reflexivity|]. now rewrite IH, orb_assoc. Qed.

Lemma has_tilde_digits d : has_tilde (NilEmpty.string_of_uint d) = false.
Proof. induction d; cbn; auto. Qed.

Lemma has_tilde_dec k : has_tilde (dec k) = false.
Proof. unfold dec, NilZero.string_of_uint. destruct (N.to_uint k); try apply has_tilde_digits. reflexivity. Qed.

Lemma strip_prefix_tilde p : forall s r, strip_prefix p s = Some r -> has_tilde s = false -> has_tilde r = false.
Proof.
  induction p as [|a p IH]; intros s r H T; cbn in H.
  - now injection H as <-.
  - destruct s as [|b s]; [discriminate|]. destruct (Ascii.eqb a b); [|discriminate].
    cbn in T. apply orb_false_elim in T as [_ T]. eauto.
Qed.

Lemma skip_digits_tilde s : has_tilde s = false -> has_tilde (snd (skip_digits s)) = false.
Proof.
  induction s as [|a s IH]; intro T; cbn; [reflexivity|].
  destruct (is_digit a).
  - cbn in T. apply orb_false_elim in T as [_ T]. specialize (IH T).
    destruct (skip_digits s) as [n r]. exact IH.
  - exact T.
Qed.

Lemma cont_here_tilde s : has_tilde s = false -> cont_here s = false.
Proof.
  intro T. unfold cont_here. destruct (strip_prefix "LAYER_" s) as [r|] eqn:E; [|reflexivity].
  pose proof (skip_digits_tilde r (strip_prefix_tilde _ _ _ E T)) as T'.
  destruct (skip_digits r) as [n r']. cbn [snd] in T'.
  destruct n; [reflexivity|]. destruct r' as [|a r'']; [reflexivity|].
  cbn in T'. apply orb_false_elim in T' as [-> _]. reflexivity.
Qed.

Lemma is_cont_tilde s : has_tilde s = false -> is_cont s = false.
Proof.
  induction s as [|a s IH]; intro T.
  - reflexivity.
  - cbn [is_cont]. rewrite (cont_here_tilde _ T). cbn in T. apply orb_false_elim in T as [_ T]. now rewrite IH.
Qed.

Lemma is_cont_layer i : is_cont (kw_layer i) = false.
Proof. apply is_cont_tilde. unfold kw_layer. rewrite has_tilde_app, has_tilde_dec. reflexivity. Qed.

(* ------------------------------------------------------------------ the font table (HashMap<usize, BitFont>) *)
Section Fonts.
Variable font_t : Type.
Local Notation lookup := (lookup font_t).
Local Notation set_font := (set_font font_t).

Lemma lookup_filter k k' (l : list (N * font_t)) :
  lookup k (filter (fun p => negb (fst p =? k')) l) = if k' =? k then None else lookup k l.
Proof.
  induction l as [|[a f] l IH]; cbn [filter IcyDoc.lookup fst].
  - now destruct (k' =? k).
  - destruct (N.eqb_spec a k') as [->|Hne]; cbn [negb].
    + rewrite IH. destruct (N.eqb_spec k' k); reflexivity.
    + cbn [IcyDoc.lookup]. rewrite IH. destruct (N.eqb_spec a k) as [->|]; [|reflexivity].
      destruct (N.eqb_spec k' k); [congruence|reflexivity].
Qed.

Lemma lookup_set k k' f l : lookup k (set_font k' f l) = if k' =? k then Some f else lookup k l.
Proof.
  unfold IcyDoc.set_font. cbn [IcyDoc.lookup]. rewrite lookup_filter. destruct (k' =? k); reflexivity.
Qed.

Lemma lookup_fold (g : font_t -> font_t) k : forall (fs : list (N * font_t)) init,
  NoDup (map fst fs) ->
  lookup k (fold_left (fun acc kf => set_font (fst kf) (g (snd kf)) acc) fs init)
  = match lookup k fs with Some f => Some (g f) | None => lookup k init end.
Proof.
  induction fs as [|[a f] fs IH]; intros init ND; cbn [fold_left IcyDoc.lookup fst snd]; [reflexivity|].
  inversion ND as [|? ? Hnin ND']; subst. rewrite IH by exact ND'.
  destruct (N.eqb_spec a k) as [->|Hne].
  - destruct (lookup k fs) as [f'|] eqn:E.
    + exfalso. apply Hnin. clear -E. induction fs as [|[b h] fs IH]; [discriminate|].
      cbn in *. destruct (N.eqb_spec b k); [now left|right; auto].
    + rewrite lookup_set, N.eqb_refl. reflexivity.
  - destruct (lookup k fs); [reflexivity|]. rewrite lookup_set. destruct (N.eqb_spec a k); [congruence|reflexivity].
Qed.
End Fonts.

(* ------------------------------------------------------------------ documents *)
Section DocProofs.
Variables sauce_t palette_t font_t file_t : Type.
Variable pack : list (string * list N) -> file_t.
Variable unpack : file_t -> option (list (string * list N)).
Variable sauce_enc : Z -> Z -> N -> font_t -> sauce_t -> res (list N).
Variable sauce_dec : list N -> res (option sauce_t).
Variable sauce_set_size : sauce_t -> Z -> Z -> sauce_t.
Variable pal_is_default : palette_t -> bool.
Variable pal_enc : palette_t -> list N.
Variable pal_dec : list N -> res palette_t.
Variable dos_default : palette_t.
Variable font_name : font_t -> list N.
Variable font_psf2 : font_t -> res (list N).
Variable font_dec : list N -> list N -> res font_t.
Variable default_font : font_t.
(* what the payload codecs give back (C11: the fields a SAUCE record of type Ansi carries; C16: colours; C17: glyphs) *)
Variable sauce_carried : Z -> Z -> N -> font_t -> sauce_t -> sauce_t.
Variable pal_norm : palette_t -> palette_t.
Variable font_norm : font_t -> font_t.

Hypothesis container : forall cs, unpack (pack cs) = Some cs.
Hypothesis sauce_codec : forall w h ice f0 s b, sauce_enc w h ice f0 s = Ok b -> sauce_dec b = Ok (Some (sauce_carried w h ice f0 s)).
Hypothesis pal_codec : forall p, pal_dec (pal_enc p) = Ok (pal_norm p).
Hypothesis font_codec : forall f b, font_psf2 f = Ok b -> font_dec (font_name f) b = Ok (font_norm f).

Local Notation doc := (doc sauce_t palette_t font_t).
Local Notation mkDoc := (mkDoc sauce_t palette_t font_t).
Local Notation step := (step sauce_t palette_t font_t sauce_dec sauce_set_size pal_dec font_dec).
Local Notation load_chunks := (load_chunks sauce_t palette_t font_t sauce_dec sauce_set_size pal_dec font_dec).
Local Notation load := (load sauce_t palette_t font_t file_t unpack sauce_dec sauce_set_size pal_dec dos_default font_dec default_font).
Local Notation doc_chunks := (doc_chunks sauce_t palette_t font_t sauce_enc pal_is_default pal_enc font_name font_psf2).
Local Notation save := (save sauce_t palette_t font_t file_t pack sauce_enc pal_is_default pal_enc font_name font_psf2).
Local Notation font_chunks := (font_chunks font_t font_name font_psf2).
Local Notation lookup := (lookup font_t).
Local Notation set_font := (set_font font_t).
Local Notation d_w := (d_w sauce_t palette_t font_t).
Local Notation d_h := (d_h sauce_t palette_t font_t).
Local Notation d_btype := (d_btype sauce_t palette_t font_t).
Local Notation d_ice := (d_ice sauce_t palette_t font_t).
Local Notation d_pmode := (d_pmode sauce_t palette_t font_t).
Local Notation d_fmode := (d_fmode sauce_t palette_t font_t).
Local Notation d_sauce := (d_sauce sauce_t palette_t font_t).
Local Notation d_pal := (d_pal sauce_t palette_t font_t).
Local Notation d_fonts := (d_fonts sauce_t palette_t font_t).
Local Notation d_layers := (d_layers sauce_t palette_t font_t).
Local Notation iced_payload := (iced_payload sauce_t palette_t font_t).

Record wf_doc (D : doc) : Prop := {
  wd_size : i32 (d_w D) /\ i32 (d_h D);                                          (* Size is a pair of i32 *)
  wd_modes : d_btype D < BufferType_count /\ d_ice D < IceMode_count /\ d_pmode D < PaletteMode_count /\ d_fmode D < FontMode_count;
  wd_keys : NoDup (map fst (d_fonts D));                                         (* a HashMap has each key once *)
  wd_slots : Forall (fun kf => fst kf < 18446744073709551616 /\ N.of_nat (List.length (font_name (snd kf))) < 4294967296
                              /\ Unicode.utf8_valid (font_name (snd kf)) = true)   (* BitFont::name is a String *)
                    (d_fonts D);
  wd_layers : Forall (fun L => ty_layer L /\ wf_layer L) (d_layers D) }.

(* what a reloaded layer has in common with the saved one *)
Definition layer_rt (L' L : layer) : Prop :=
  layer_equiv L' L /\ props_eq L' L /\ role L' = RNormal /\ preview L' = None /\ (ox L', oy L') = get_offset L.

Lemma skipn_len_app {A} (a r : list A) n : List.length a = n -> skipn n (a ++ r) = r.
Proof. intros <-. rewrite skipn_app, skipn_all, Nat.sub_diag. reflexivity. Qed.

Lemma step_end D b : step D "END" b = Ok (D, true).
Proof. reflexivity. Qed.

Lemma step_iced D : wf_doc D ->
  step (init_state sauce_t palette_t font_t dos_default default_font) "ICED" (iced_payload D)
  = Ok (mkDoc (d_w D) (d_h D) (d_btype D) (d_ice D) (d_pmode D) (d_fmode D) None dos_default [(0, default_font)] [], false).
Proof.
  intros [[Hw Hh] (Hb & Hi & Hp & Hf) _ _ _].
  destruct mode_bytes_sweep as (S1 & S2 & S3 & S4).
  destruct (mode_ok_spec _ _ _ _ S1 Hb) as [B1 B2]. destruct (mode_ok_spec _ _ _ _ S2 Hi) as [I1 I2].
  destruct (mode_ok_spec _ _ _ _ S3 Hp) as [P1 P2]. destruct (mode_ok_spec _ _ _ _ S4 Hf) as [F1 F2].
  unfold IcyDoc.step. replace (("ICED" =? "END")%string) with false by reflexivity.
  replace (("ICED" =? "ICED")%string) with true by reflexivity.
  assert (Len : (N.of_nat (List.length (iced_payload D)) =? ICED_HEADER_SIZE) = true).
  { unfold IcyDoc.iced_payload, i32_bytes. rewrite !app_length, !le_length. reflexivity. }
  rewrite Len. cbn [negb]. unfold IcyDoc.iced_payload.
  rewrite app_assoc, (skipn_len_app (le 2 ICD_VERSION ++ le 4 0)) by reflexivity.
  rewrite <- (app_nil_r (i32_bytes (d_h D))).
  rewrite take2_le. cbn [bind fst snd List.app IcyLayer.byte].
  rewrite !take4_i32. cbn [bind fst snd]. rewrite !take4_i32. cbn [bind fst snd].
  rewrite (unle_le 2) by (change (256 ^ N.of_nat 2) with 65536; lia).
  rewrite N.mod_small by exact B1. rewrite B2, I2, P2, F2, !as_i32_bytes by assumption.
  reflexivity.
Qed.

Lemma step_sauce D b s : sauce_dec b = Ok (Some s) ->
  step D "SAUCE" b = Ok (mkDoc (d_w D) (d_h D) (d_btype D) (d_ice D) (d_pmode D) (d_fmode D) (Some s) (d_pal D) (d_fonts D) (d_layers D), false).
Proof.
  intro H. unfold IcyDoc.step.
  replace (("SAUCE" =? "END")%string) with false by reflexivity.
  replace (("SAUCE" =? "ICED")%string) with false by reflexivity.
  replace (("SAUCE" =? "PALETTE")%string) with false by reflexivity.
  replace (("SAUCE" =? "SAUCE")%string) with true by reflexivity.
  rewrite H. reflexivity.
Qed.

Lemma step_palette D p :
  step D "PALETTE" (pal_enc p) = Ok (mkDoc (d_w D) (d_h D) (d_btype D) (d_ice D) (d_pmode D) (d_fmode D) (d_sauce D) (pal_norm p) (d_fonts D) (d_layers D), false).
Proof.
  unfold IcyDoc.step.
  replace (("PALETTE" =? "END")%string) with false by reflexivity.
  replace (("PALETTE" =? "ICED")%string) with false by reflexivity.
  replace (("PALETTE" =? "PALETTE")%string) with true by reflexivity.
  rewrite pal_codec. reflexivity.
Qed.

Lemma step_font D k f b : k < 18446744073709551616 -> N.of_nat (List.length (font_name f)) < 4294967296 ->
  Unicode.utf8_valid (font_name f) = true -> font_psf2 f = Ok b ->
  step D (kw_font k) (le 4 (N.of_nat (List.length (font_name f))) ++ font_name f ++ b)
  = Ok (mkDoc (d_w D) (d_h D) (d_btype D) (d_ice D) (d_pmode D) (d_fmode D) (d_sauce D) (d_pal D) (set_font k (font_norm f) (d_fonts D)) (d_layers D), false).
Proof.
  intros Hk Hn Hu Hb. unfold IcyDoc.step, kw_font.
  replace (("FONT_" ++ dec k =? "END")%string) with false by reflexivity.
  replace (("FONT_" ++ dec k =? "ICED")%string) with false by reflexivity.
  replace (("FONT_" ++ dec k =? "PALETTE")%string) with false by reflexivity.
  replace (("FONT_" ++ dec k =? "SAUCE")%string) with false by reflexivity.
  rewrite strip_prefix_app, (parse_dec k Hk).
  rewrite take_e4_le. cbn [bind fst snd].
  rewrite unle_le by (change (256 ^ N.of_nat 4) with 4294967296; exact Hn).
  rewrite take_e_app. cbn [bind fst snd]. rewrite (lossy_valid _ Hu), (font_codec _ _ Hb). reflexivity.
Qed.

Lemma step_layer D i bs L' : decode bs = Ok L' ->
  step D (kw_layer i) bs
  = Ok (mkDoc (d_w D) (d_h D) (d_btype D) (d_ice D) (d_pmode D) (d_fmode D) (d_sauce D) (d_pal D) (d_fonts D) (d_layers D ++ [L']), false).
Proof.
  intro H. unfold IcyDoc.step. rewrite (is_cont_layer i). unfold kw_layer.
  replace (("LAYER_" ++ dec i =? "END")%string) with false by reflexivity.
  replace (("LAYER_" ++ dec i =? "ICED")%string) with false by reflexivity.
  replace (("LAYER_" ++ dec i =? "PALETTE")%string) with false by reflexivity.
  replace (("LAYER_" ++ dec i =? "SAUCE")%string) with false by reflexivity.
  replace (strip_prefix "FONT_" ("LAYER_" ++ dec i)) with (@None string) by reflexivity.
  rewrite strip_prefix_app, H. reflexivity.
Qed.

Local Opaque le.

(* the FONT_k chunks, in whatever order font_iter produced them *)
Lemma load_fonts : forall fs cs rest D,
  font_chunks fs = Ok cs ->
  Forall (fun kf => fst kf < 18446744073709551616 /\ N.of_nat (List.length (font_name (snd kf))) < 4294967296
                    /\ Unicode.utf8_valid (font_name (snd kf)) = true) fs ->
  load_chunks (cs ++ rest) D
  = load_chunks rest (mkDoc (d_w D) (d_h D) (d_btype D) (d_ice D) (d_pmode D) (d_fmode D) (d_sauce D) (d_pal D)
                            (fold_left (fun acc kf => set_font (fst kf) (font_norm (snd kf)) acc) fs (d_fonts D)) (d_layers D)).
Proof.
  induction fs as [|[k f] fs IH]; intros cs rest D H HF.
  - cbn in H. injection H as <-. cbn [List.app fold_left]. destruct D; reflexivity.
  - cbn [IcyDoc.font_chunks] in H. unfold font_payload in H.
    destruct (font_psf2 f) as [b| |] eqn:Eb; try discriminate. cbv beta iota delta [bind] in H.
    destruct (font_chunks fs) as [r| |] eqn:Er; try discriminate. cbv beta iota delta [bind] in H. injection H as <-.
    inversion HF as [|? ? (Hk & Hn & Hu) HF']; subst. cbn [fst snd] in Hk, Hn, Hu.
    rewrite <- app_comm_cons. cbn [IcyDoc.load_chunks]. rewrite (step_font D k f b Hk Hn Hu Eb). cbn [bind fst snd].
    rewrite (IH r rest _ eq_refl HF'). reflexivity.
Qed.

(* the LAYER_i chunks *)
Lemma load_layers : forall ls i cs rest D,
  layer_chunks i ls = Ok cs -> Forall (fun L => ty_layer L /\ wf_layer L) ls ->
  exists ls', Forall2 layer_rt ls' ls /\
    load_chunks (cs ++ rest) D
    = load_chunks rest (mkDoc (d_w D) (d_h D) (d_btype D) (d_ice D) (d_pmode D) (d_fmode D) (d_sauce D) (d_pal D) (d_fonts D) (d_layers D ++ ls')).
Proof.
  induction ls as [|L ls IH]; intros i cs rest D H HF.
  - cbn in H. injection H as <-. exists []. split; [constructor|]. cbn [app]. rewrite app_nil_r. destruct D; reflexivity.
  - cbn [layer_chunks] in H. inversion HF as [|? ? [T W] HF']; subst.
    destruct (layer_roundtrip_full L T W) as (bs & L' & E & Dc & Q & P & R & Pv & O).
    rewrite E in H. cbn [bind] in H.
    destruct (layer_chunks (i + 1) ls) as [r| |] eqn:Er; try discriminate. cbn [bind] in H. injection H as <-.
    rewrite <- app_comm_cons. cbn [IcyDoc.load_chunks]. rewrite (step_layer D i bs L' Dc). cbn [bind fst snd].
    destruct (IH (i + 1) r rest (mkDoc (d_w D) (d_h D) (d_btype D) (d_ice D) (d_pmode D) (d_fmode D) (d_sauce D) (d_pal D) (d_fonts D) (d_layers D ++ [L'])) Er HF') as (ls' & F2 & Eq).
    exists (L' :: ls'). split.
    + constructor; [|exact F2]. exact (conj Q (conj P (conj R (conj Pv O)))).
    + rewrite Eq. cbn [IcyDoc.d_layers IcyDoc.d_w IcyDoc.d_h IcyDoc.d_btype IcyDoc.d_ice IcyDoc.d_pmode IcyDoc.d_fmode IcyDoc.d_sauce IcyDoc.d_pal IcyDoc.d_fonts].
      rewrite <- app_assoc. reflexivity.
Qed.

Theorem document_roundtrip_full D cs : wf_doc D -> doc_chunks D = Ok cs ->
  exists D', load (pack cs) = Ok D' /\
    d_w D' = d_w D /\ d_h D' = d_h D /\ d_btype D' = d_btype D /\ d_ice D' = d_ice D /\ d_pmode D' = d_pmode D /\ d_fmode D' = d_fmode D /\
    d_sauce D' = match d_sauce D, lookup 0 (d_fonts D) with
                 | Some s, Some f0 => Some (sauce_carried (d_w D) (d_h D) (d_ice D) f0 s)
                 | _, _ => None
                 end /\
    d_pal D' = (if pal_is_default (d_pal D) then dos_default else pal_norm (d_pal D)) /\
    (forall k, lookup k (d_fonts D') = option_map font_norm (lookup k (d_fonts D))) /\
    Forall2 layer_rt (d_layers D') (d_layers D).
Proof.
  intros W H. pose proof W as [_ _ ND Slots Lays].
  unfold IcyDoc.doc_chunks in H.
  destruct (lookup 0 (d_fonts D)) as [f0|] eqn:F0; [|discriminate].
  (* the pieces of the chunk list *)
  set (sch := match d_sauce D with
              | Some s => do b <- sauce_enc (d_w D) (d_h D) (d_ice D) f0 s; Ok [("SAUCE"%string, b)]
              | None => Ok []
              end) in H.
  destruct sch as [sc| |] eqn:Es; try discriminate. cbn [bind] in H.
  destruct (font_chunks (d_fonts D)) as [fc| |] eqn:Ef; try discriminate. cbn [bind] in H.
  destruct (layer_chunks 0 (d_layers D)) as [lc| |] eqn:El; try discriminate. cbn [bind] in H.
  injection H as <-.
  unfold IcyDoc.load. rewrite container. cbn [List.app IcyDoc.load_chunks].
  rewrite (step_iced D W). cbn [bind fst snd].
  (* SAUCE *)
  set (D1 := mkDoc (d_w D) (d_h D) (d_btype D) (d_ice D) (d_pmode D) (d_fmode D) None dos_default [(0, default_font)] []).
  assert (S : exists so, so = match d_sauce D with Some s => Some (sauce_carried (d_w D) (d_h D) (d_ice D) f0 s) | None => None end /\
              forall rest, load_chunks (sc ++ rest) D1
                           = load_chunks rest (mkDoc (d_w D) (d_h D) (d_btype D) (d_ice D) (d_pmode D) (d_fmode D) so dos_default [(0, default_font)] [])).
  { subst sch. destruct (d_sauce D) as [s|].
    - destruct (sauce_enc (d_w D) (d_h D) (d_ice D) f0 s) as [b| |] eqn:Eb; try discriminate. cbn [bind] in Es. injection Es as <-.
      eexists. split; [reflexivity|]. intro rest. cbn [List.app IcyDoc.load_chunks].
      rewrite (step_sauce D1 b _ (sauce_codec _ _ _ _ _ _ Eb)). reflexivity.
    - injection Es as <-. eexists. split; [reflexivity|]. intro rest. reflexivity. }
  destruct S as (so & Eso & S). rewrite S.
  (* PALETTE *)
  set (D2 := mkDoc (d_w D) (d_h D) (d_btype D) (d_ice D) (d_pmode D) (d_fmode D) so dos_default [(0, default_font)] []).
  assert (P : forall rest, load_chunks ((if pal_is_default (d_pal D) then [] else [("PALETTE"%string, pal_enc (d_pal D))]) ++ rest) D2
                           = load_chunks rest (mkDoc (d_w D) (d_h D) (d_btype D) (d_ice D) (d_pmode D) (d_fmode D) so
                                                     (if pal_is_default (d_pal D) then dos_default else pal_norm (d_pal D)) [(0, default_font)] [])).
  { intro rest. destruct (pal_is_default (d_pal D)); [reflexivity|].
    cbn [List.app IcyDoc.load_chunks]. rewrite step_palette. reflexivity. }
  rewrite P.
  (* FONT_k *)
  rewrite (load_fonts _ _ _ _ Ef Slots).
  cbn [IcyDoc.d_layers IcyDoc.d_w IcyDoc.d_h IcyDoc.d_btype IcyDoc.d_ice IcyDoc.d_pmode IcyDoc.d_fmode IcyDoc.d_sauce IcyDoc.d_pal IcyDoc.d_fonts].
  (* LAYER_i *)
  destruct (load_layers _ _ _ [("END"%string, [])] (mkDoc (d_w D) (d_h D) (d_btype D) (d_ice D) (d_pmode D) (d_fmode D) so
              (if pal_is_default (d_pal D) then dos_default else pal_norm (d_pal D))
              (fold_left (fun acc kf => set_font (fst kf) (font_norm (snd kf)) acc) (d_fonts D) [(0, default_font)]) []) El Lays)
    as (ls' & F2 & Eq).
  rewrite Eq. cbn [IcyDoc.load_chunks]. rewrite step_end. cbn [bind fst snd].
  eexists. split; [reflexivity|].
  cbn [IcyDoc.d_layers IcyDoc.d_w IcyDoc.d_h IcyDoc.d_btype IcyDoc.d_ice IcyDoc.d_pmode IcyDoc.d_fmode IcyDoc.d_sauce IcyDoc.d_pal IcyDoc.d_fonts List.app].
  repeat (split; [reflexivity|]).
  split; [exact Eso|]. split; [reflexivity|]. split; [|exact F2].
  intro k. rewrite (lookup_fold font_t font_norm k (d_fonts D) [(0, default_font)] ND).
  destruct (lookup k (d_fonts D)) as [f|] eqn:Ek; [reflexivity|].
  cbn [IcyDoc.lookup option_map]. destruct (N.eqb_spec 0 k) as [<-|]; [congruence|reflexivity].
Qed.

(* the layers never make the save fail *)
Lemma layer_chunks_total : forall ls i, Forall (fun L => ty_layer L /\ wf_layer L) ls -> exists cs, layer_chunks i ls = Ok cs.
Proof.
  induction ls as [|L ls IH]; intros i HF; [eexists; reflexivity|].
  inversion HF as [|? ? [T W] HF']; subst. cbn [layer_chunks].
  destruct (layer_roundtrip_full L T W) as (bs & _ & E & _). rewrite E. cbn [bind].
  destruct (IH (i + 1) HF') as (r & ->). cbn [bind]. eauto.
Qed.

Lemma font_chunks_total : forall fs, Forall (fun kf => exists b, font_psf2 (snd kf) = Ok b) fs -> exists cs, font_chunks fs = Ok cs.
Proof.
  induction fs as [|[k f] fs IH]; intro HF; [eexists; reflexivity|].
  inversion HF as [|? ? [b Hb] HF']; subst. cbn [snd] in Hb. cbn [IcyDoc.font_chunks]. unfold font_payload. rewrite Hb. cbn [bind].
  destruct (IH HF') as (r & ->). cbn [bind]. eauto.
Qed.

Theorem save_total D : wf_doc D -> lookup 0 (d_fonts D) <> None ->
  (forall s f0, d_sauce D = Some s -> exists b, sauce_enc (d_w D) (d_h D) (d_ice D) f0 s = Ok b) ->
  Forall (fun kf => exists b, font_psf2 (snd kf) = Ok b) (d_fonts D) ->
  exists f, save D = Ok f.
Proof.
  intros W F0 HS HF. unfold IcyDoc.save, IcyDoc.doc_chunks.
  destruct (lookup 0 (d_fonts D)) as [f0|]; [|congruence].
  destruct (font_chunks_total _ HF) as (fc & ->).
  destruct (layer_chunks_total _ 0 (wd_layers D W)) as (lc & ->).
  destruct (d_sauce D) as [s|].
  - destruct (HS s f0 eq_refl) as (b & ->). cbn [bind]. eauto.
  - cbn [bind]. eauto.
Qed.
End DocProofs.
