(* The six round-trip theorems as one statement, boolean deciders for the domain predicates (used by the
   non-vacuity examples and the known-finding witnesses). *)
From Coq Require Import NArith Bool List Arith Lia.
From IE Require Import Lib.Tbl Lib.Bits Gen.Codepage Gen.TextFmt Model.Attr Model.TextBuf Model.TextWriters Model.TextParsers
                       Proofs.TextBufProofs Proofs.TextSync Proofs.TextRoundtrip Proofs.TextFormats Proofs.TextAvatar.
Import ListNotations.
Local Open Scope N_scope.

Definition dom_of (f : format) : cell -> Prop :=
  match f with PCB => pcb_dom | AVT => avt_dom | CTRLA => ctrla_dom | REN => ren_dom | ASC => asc_dom | ATA => ata_dom end.
Definition rel_of (f : format) : cell -> cell -> Prop :=
  match f with ASC => asc_rel | ATA => ata_rel | _ => colour_rel end.

Definition KnownC15_sauce (bytes : list N) : Prop := sauce_gate bytes = true.
Definition KnownC15_bom (f : format) (bytes : list N) : Prop := f <> ATA /\ bom_gate bytes = true.

Definition roundtrip_statement (f : format) (pr : prep) (b : sbuf) : Prop :=
  let w := load_width f in
  exists bytes, write f pr w b = WOk bytes /\
    (~ KnownC15_sauce bytes -> ~ KnownC15_bom f bytes ->
     exists q, load f bytes = Loaded q /\ cells_ok w (rel_of f) b q /\ (length b <= lh q)%nat /\
               (f <> ATA -> length (lines q) = length b /\ lh q = length b)).

Lemma not_true_false b : b <> true -> b = false.
Proof. destruct b; congruence. Qed.

Theorem text_roundtrip_proof : forall f pr b,
  dom_rows (load_width f) (dom_of f) b -> nonempty_last (load_width f) b -> roundtrip_statement f pr b.
Proof.
  intros f pr b Hd Hl. unfold roundtrip_statement. destruct f; cbn [dom_of rel_of] in *.
  - change (load_width PCB) with 80%nat in *.
    destruct (pcb_roundtrip_proof pr b Hd Hl) as (bytes & Hw & H). exists bytes. split; [exact Hw|].
    intros Hs _. destruct (H (not_true_false _ Hs)) as (q & Hq & A & B & C).
    exists q. split; [exact Hq|]. split; [exact C|]. split; [lia|]. intros _. split; assumption.
  - change (load_width AVT) with 80%nat in *.
    destruct (avt_roundtrip_proof pr b Hd Hl) as (bytes & Hw & H). exists bytes. split; [exact Hw|].
    intros Hs _. destruct (H (not_true_false _ Hs)) as (q & Hq & A & B & C).
    exists q. split; [exact Hq|]. split; [exact C|]. split; [lia|]. intros _. split; assumption.
  - change (load_width CTRLA) with 80%nat in *.
    destruct (ctrla_roundtrip_proof pr b Hd Hl) as (bytes & Hw & H). exists bytes. split; [exact Hw|].
    intros Hs Hb. destruct (H (not_true_false _ Hs)) as (q & Hq & A & B & C).
    { apply not_true_false. intro E. apply Hb. split; [discriminate|exact E]. }
    exists q. split; [exact Hq|]. split; [exact C|]. split; [lia|]. intros _. split; assumption.
  - change (load_width REN) with 80%nat in *.
    destruct (ren_roundtrip_proof pr b Hd Hl) as (bytes & Hw & H). exists bytes. split; [exact Hw|].
    intros Hs Hb. destruct (H (not_true_false _ Hs)) as (q & Hq & A & B & C).
    { apply not_true_false. intro E. apply Hb. split; [discriminate|exact E]. }
    exists q. split; [exact Hq|]. split; [exact C|]. split; [lia|]. intros _. split; assumption.
  - change (load_width ASC) with 80%nat in *.
    destruct (asc_roundtrip_proof pr b Hd Hl) as (bytes & Hw & H). exists bytes. split; [exact Hw|].
    intros Hs Hb. destruct (H (not_true_false _ Hs)) as (q & Hq & A & B & C).
    { apply not_true_false. intro E. apply Hb. split; [discriminate|exact E]. }
    exists q. split; [exact Hq|]. split; [exact C|]. split; [lia|]. intros _. split; assumption.
  - change (load_width ATA) with 40%nat in *.
    destruct (ata_roundtrip_proof pr b Hd Hl) as (bytes & Hw & H). exists bytes. split; [exact Hw|].
    intros Hs _. destruct (H (not_true_false _ Hs)) as (q & Hq & A & B).
    exists q. split; [exact Hq|]. split; [exact B|]. split; [exact A|]. intro Z. congruence.
Qed.

(* ---------- boolean deciders ---------- *)
Definition colour_domb (c : cell) : bool :=
  (foreground_color (cat c) <? 16) && (background_color (cat c) <? 8) && (attr (cat c) =? 0).
Definition dom_ofb (f : format) (c : cell) : bool :=
  match f with
  | PCB => pcb_char (cch c) && colour_domb c
  | AVT => avt_char (cch c) && colour_domb c
  | CTRLA => ctrla_char (cch c) && colour_domb c
  | REN => ren_char (cch c) && colour_domb c
  | ASC => asc_char (cch c)
  | ATA => ata_char (cch c)
  end.

Lemma colour_domb_ok c : colour_domb c = true -> colour_dom c.
Proof.
  unfold colour_domb, colour_dom. intro H. apply andb_prop in H as (H & E3). apply andb_prop in H as (E1 & E2).
  apply N.ltb_lt in E1, E2. apply N.eqb_eq in E3. auto.
Qed.

Lemma dom_ofb_ok f c : dom_ofb f c = true -> dom_of f c.
Proof.
  destruct f; cbn [dom_ofb dom_of]; intro H; try exact H;
    apply andb_prop in H as (H1 & H2); (split; [exact H1|apply colour_domb_ok; exact H2]).
Qed.

Lemma dom_rows_b f w b :
  forallb (fun r => forallb (dom_ofb f) (row_cells w r)) b = true -> dom_rows w (dom_of f) b.
Proof.
  intro H. unfold dom_rows. apply Forall_forall. intros r Hr. rewrite forallb_forall in H. specialize (H r Hr).
  apply Forall_forall. intros c Hc. rewrite forallb_forall in H. apply dom_ofb_ok, H, Hc.
Qed.

Lemma nonempty_last_b w b : (match b with [] => false | _ => (0 <? line_length w (last b []))%nat end) = true -> nonempty_last w b.
Proof. destruct b; [discriminate|]. intro H. split; [discriminate|]. apply Nat.ltb_lt. exact H. Qed.
