(* C01 extension: one character of the ANSI parser on the WEAK invariant W (Proofs/WeakInv.v).

   NP o : the outcome o is an action or an error value (among them ODeep, the error of a macro invocation nested deeper
   than MAX_MACRO_NESTING) whose screen state satisfies W; it is never a panic.  Proved for every parser state, for ANY
   macro table, before or after a text-area resize; the macro replay is covered by induction on the nesting budget. *)
From Coq Require Import ZArith NArith List Bool Lia.
From IE Require Import Model.TermCore Model.AnsiTok Proofs.TermProofs Proofs.AnsiProofs Proofs.WeakInv.
From IE Require Lib.C17Lib Model.Font Proofs.FontDcsSafe.
Import ListNotations.
Local Open Scope Z_scope.

Definition NP (o : outcome) : Prop :=
  match o with OOk m | OErr m | ODeep m => W (tm m) | OPanic _ => False end.
Lemma np_ok : forall t p, W t -> NP (ok t p). Proof. intros; assumption. Qed.
Lemma np_err : forall t p, W t -> NP (err t p). Proof. intros; assumption. Qed.
Lemma np_lift : forall r p, okW r -> NP (lift r p).
Proof. intros r p (t' & E & HW). rewrite E. exact HW. Qed.

(* close a goal [W t'] from HW : W t for the usual shapes (selected syntactically) *)
Ltac wkeep HW :=
  lazymatch goal with
  | |- W (caret_cr _) => apply caret_cr_W; exact HW
  | |- W (caret_eol _) => apply caret_eol_W; exact HW
  | |- W (caret_bs _) => apply caret_bs_W; exact HW
  | |- W (clear_screen _) => apply clear_screen_W; apply HW
  | |- W (caret_ff _) => apply caret_ff_W; apply HW
  | |- W (reset_terminal (caret_reset (caret_ff _))) => apply ris_W; apply HW
  | |- W (caret_home _) => apply caret_home_W; apply HW
  | |- W (set_tab_at _ _) => apply set_tab_at_W; exact HW
  | |- W (remove_tab_stop _ _) => apply remove_tab_stop_W; exact HW
  | |- W (set_margins_tb _ _ _) => apply set_margins_tb_W; exact HW
  | |- W (set_margins_lr _ _ _) => apply set_margins_lr_W; exact HW
  | |- W (set_mtb (set_mlr _ None) None) => apply clear_margins_W; exact HW
  | |- W (set_mlr (set_declr _ false) None) => apply declr_off_W; exact HW
  | |- W (set_origin _ false) => apply set_origin_false_W; exact HW
  | |- W (set_tabs _ []) => apply set_tabs_W; [constructor|exact HW]
  | |- W (set_cx _ 0) => apply caret_cr_W; exact HW
  | |- W (caret_del _) => eapply W_pgeo; [apply pgeo_caret_del|exact HW]
  | |- W (caret_ins _) => eapply W_pgeo; [apply pgeo_caret_ins|exact HW]
  | |- W (iter_tot _ caret_del _) => eapply W_pgeo; [apply pgeo_iter; apply pgeo_caret_del|exact HW]
  | |- W (iter_tot _ caret_ins _) => eapply W_pgeo; [apply pgeo_iter; apply pgeo_caret_ins|exact HW]
  | |- W (iter_tot _ scroll_up _) => eapply W_pgeo; [apply pgeo_iter; apply pgeo_scroll_up|exact HW]
  | |- W (iter_tot _ scroll_down _) => eapply W_pgeo; [apply pgeo_iter; apply pgeo_scroll_down|exact HW]
  | |- W (iter_tot _ scroll_left _) => eapply W_pgeo; [apply pgeo_iter; apply pgeo_scroll_left|exact HW]
  | |- W (iter_tot _ _ _) => fail "iter"
  | |- W ?x => first [ exact HW | eapply W_pgeo; [|exact HW]; reflexivity ]
  end.
(* close a goal [okW r] from HW : W t *)
Ltac wlim HW :=
  lazymatch goal with
  | |- okW (limit_caret_pos _) =>
      eapply limit_okW; [apply HW|]; repeat match goal with |- context [match ?x with _ => _ end] => destruct x end; reflexivity
  | |- okW (caret_left _ _) => apply caret_left_okW; apply HW
  | |- okW (caret_right _ _) => apply caret_right_okW; apply HW
  | |- okW (caret_up _ _) => apply caret_up_okW; apply HW
  | |- okW (caret_down _ _) => apply caret_down_okW; apply HW
  | |- okW (caret_index _) => apply caret_index_okW; apply HW
  | |- okW (caret_reverse_index _) => apply caret_reverse_index_okW; apply HW
  | |- okW (caret_next_line _) => apply caret_next_line_okW; apply HW
  | |- okW (caret_lf _) => apply caret_lf_okW; exact HW
  | |- okW (print_char _ _) => apply print_char_okW; exact HW
  | |- okW (caret_erase _ _) => apply caret_erase_okW; exact HW
  | |- okW (remove_terminal_line _ _) => apply remove_terminal_line_okW; exact HW
  | |- okW (insert_terminal_line _ _) => apply insert_terminal_line_okW; exact HW
  | |- okW (scroll_right _) => apply scroll_right_okW; exact HW
  | |- okW (iter_res _ (fun x => remove_terminal_line x (cy x)) _) =>
      unfold iter_res; apply iter_okW; [intros; apply remove_terminal_line_okW; assumption|exact HW]
  | |- okW (iter_res _ (fun x => insert_terminal_line x (cy x)) _) =>
      unfold iter_res; apply iter_okW; [intros; apply insert_terminal_line_okW; assumption|exact HW]
  | |- okW (iter_res _ (fun x => print_char x _) _) =>
      unfold iter_res; apply iter_okW; [intros; apply print_char_okW; assumption|exact HW]
  | |- okW (iter_res _ scroll_right _) =>
      unfold iter_res; apply iter_okW; [intros; apply scroll_right_okW; assumption|exact HW]
  end.
Ltac wok HW := apply np_ok; wkeep HW.
Ltac werr HW := apply np_err; wkeep HW.
Ltac wlift HW := apply np_lift; wlim HW.
Ltac wifs := repeat match goal with
                    | |- NP (if ?c then _ else _) => destruct c
                    | |- NP (match ?l with [] => _ | _ :: _ => _ end) => destruct l
                    | |- NP (match ?o with Some _ => _ | None => _ end) => destruct o
                    | |- NP (let '(_, _) := ?x in _) => destruct x
                    end.

(* ---- the commands of ansi_commands.rs ------------------------------------------------------------------------------------- *)
Lemma cmd_sgr_np : forall t p, W t -> NP (cmd_sgr t p).
Proof.
  intros t p HW. unfold cmd_sgr.
  set (t1 := match nums p with [] => caret_reset_color t | _ => t end).
  assert (P1 : pgeo t1 = pgeo t) by (subst t1; destruct (nums p); reflexivity).
  pose proof (sgr_loop_pgeo (S (length (nums p))) t1 (nums p)) as P2.
  destruct (sgr_loop (S (length (nums p))) t1 (nums p)) as [t2 e]. cbn [fst] in P2.
  assert (P3 : pgeo t2 = pgeo t) by (rewrite P2; exact P1).
  destruct e; [apply np_err|apply np_ok]; (eapply W_pgeo; [exact P3|exact HW]).
Qed.
Lemma cmd_decstbm_np : forall t p, W t -> NP (cmd_decstbm t p).
Proof.
  intros t p HW. unfold cmd_decstbm. destruct (margins_args p (th t)) as [[a b]|]; [|werr HW].
  apply np_ok. apply upper_left_W. apply set_margins_tb_WG. apply HW.
Qed.
Lemma cmd_decslrm_np : forall t p, W t -> NP (cmd_decslrm t p).
Proof. intros t p HW. unfold cmd_decslrm. destruct (margins_args p (th t)) as [[a b]|]; [wok HW|werr HW]. Qed.
Lemma cmd_csr_np : forall t p, W t -> NP (cmd_csr t p).
Proof.
  intros t p HW. unfold cmd_csr.
  destruct (nums p) as [|a [|b [|c [|d [|e r]]]]]; try werr HW;
    (apply np_ok; apply set_margins_lr_W, set_margins_tb_W, upper_left_W; apply HW).
Qed.
Lemma cmd_ssm_np : forall t p, (exists a b, nums p = [a; b]) -> W t -> NP (cmd_ssm t p).
Proof.
  intros t p (a & b & E) HW. unfold cmd_ssm. rewrite E. wifs; first [wok HW|werr HW].
Qed.
Lemma cmd_ech_np : forall t p, W t -> NP (cmd_ech t p).
Proof.
  intros t p HW. unfold cmd_ech. destruct (nums p) as [|n r]; [|wlift HW].
  destruct (caret_erase_okW t 1 HW) as (t1 & E & H1). rewrite E. apply np_err. exact H1.
Qed.
Lemma cmd_fill_rect_np : forall t p, W t -> NP (cmd_fill_rect t p).
Proof.
  intros t p HW. unfold cmd_fill_rect. destruct (nums p) as [|ch [|a [|b [|c [|d [|e r]]]]]]; try werr HW.
  destruct (is_scalar ch); [|werr HW]. destruct (rect_area t a b c d) as [[[tl lc] bl] rc]. wok HW.
Qed.
Lemma cmd_erase_rect_np : forall t p, W t -> NP (cmd_erase_rect t p).
Proof.
  intros t p HW. unfold cmd_erase_rect. destruct (nums p) as [|a [|b [|c [|d [|e r]]]]]; try werr HW.
  all: try (destruct (rect_area t a b c d) as [[[tl lc] bl] rc]; wok HW).
Qed.
Lemma cmd_sel_erase_rect_np : forall t p, W t -> NP (cmd_sel_erase_rect t p).
Proof.
  intros t p HW. unfold cmd_sel_erase_rect. destruct (nums p) as [|a [|b [|c [|d [|e r]]]]]; try werr HW.
  all: try (destruct (rect_area t a b c d) as [[[tl lc] bl] rc]; wok HW).
Qed.
(* CSI 8;h;w t: the text-area resize keeps W (it does not keep Inv09) *)
Lemma cmd_window_np : forall t p, W t -> NP (cmd_window t p).
Proof.
  intros t p HW. unfold cmd_window. destruct (nums p) as [|k [|h [|w [|b [|e r]]]]]; try werr HW.
  - destruct (k =? 8); [|werr HW]. apply np_ok. apply resize_W; [lia|lia|exact HW].
  - wifs; first [wok HW|werr HW].
Qed.
Lemma cmd_font_selection_np : forall t p, W t -> NP (cmd_font_selection t p).
Proof. intros t p HW. unfold cmd_font_selection. destruct (nums p) as [|a [|b [|c r]]]; try werr HW. wifs; [wok HW|werr HW]. Qed.
Lemma cmd_reset_margins_np : forall t p, W t -> NP (cmd_reset_margins t p).
Proof. intros t p HW. unfold cmd_reset_margins. wok HW. Qed.

(* ---- DCS / OSC / music: the screen is not touched --------------------------------------------------------------------------------- *)
Lemma execute_dcs_np : forall t p, W t -> NP (execute_dcs t p).
Proof.
  intros t p HW. unfold execute_dcs. destruct (starts_with _ _).
  { unfold load_custom_font.
    pose proof (FontDcsSafe.font_dcs_total Base64.decode (map Z.to_N (rev (pstr p)))) as T.
    destruct (Font.load_custom_font _ _) as [[slot f]|e|s|]; first [exact HW|contradiction]. }
  destruct (lead_nums _ _) as [ns rest].
  repeat match goal with |- NP (match ?x with _ => _ end) => destruct x end; exact HW.
Qed.
Lemma parse_osc_np : forall t p, W t -> NP (parse_osc t p).
Proof.
  intros t p HW. unfold parse_osc. destruct (lead_nums _ _) as [ns rest].
  repeat match goal with
         | |- NP (match ?x with _ => _ end) => destruct x
         | |- NP (if ?x then _ else _) => destruct x
         end; exact HW.
Qed.
Lemma parse_music_np : forall t p ms ch, W t -> NP (parse_music t p ms ch).
Proof.
  intros t p ms ch HW. unfold parse_music, parse_default_music. destruct ms; wifs; exact HW.
Qed.

(* ---- CSI ------------------------------------------------------------------------------------------------------------------------------ *)
Lemma csi_final_np : forall t p is_start ch, W t -> NP (csi_final t p is_start ch).
Proof.
  intros t p is_start ch HW. unfold csi_final.
  repeat match goal with
         | |- NP (if ?c then _ else _) => destruct c
         | |- NP (match nums p with _ => _ end) => destruct (nums p) as [|n1 [|n2 r]]
         | |- NP (match hpos_line t with _ => _ end) => destruct (hpos_line t)
         | |- NP (match ?l with [] => _ | _ :: _ => _ end) => destruct l
         end;
  first [ apply cmd_sgr_np; exact HW | apply cmd_decslrm_np; exact HW | apply cmd_ech_np; exact HW
        | apply cmd_csr_np; exact HW | apply cmd_decstbm_np; exact HW | apply cmd_window_np; exact HW
        | wok HW | werr HW | wlift HW | idtac ].
  all: try (repeat match goal with |- NP (match ?z with _ => _ end) => destruct z end; first [wok HW|werr HW|wlift HW]).
  (* CVT: limit after an iteration that keeps the geometry; CBT: iteration of a W-preserving step *)
  all: try (apply np_lift; eapply limit_okW; [apply HW|]; apply iter_G; intro; reflexivity).
  all: try (apply np_ok; apply iter_W; [apply cbt_step_W|exact HW]).
Qed.
Lemma csi_cmd_np : forall t p ch, W t -> NP (csi_cmd t p ch).
Proof.
  intros t p ch HW. unfold csi_cmd.
  repeat match goal with
         | |- NP (if ?c then _ else _) => destruct c
         | |- NP (match ?l with [] => _ | _ :: _ => _ end) => destruct l
         end; first [ wok HW | werr HW | idtac ].
  all: repeat match goal with |- NP (match ?z with _ => _ end) => destruct z end; first [wok HW|werr HW].
Qed.
Lemma csi_req_np : forall t p ch, W t -> NP (csi_req t p ch).
Proof.
  intros t p ch HW. unfold csi_req.
  repeat match goal with
         | |- NP (if ?c then _ else _) => destruct c
         | |- NP (match nums p with _ => _ end) => destruct (nums p) as [|n1 [|n2 [|n3 r]]] eqn:?
         | |- NP (match ?l with [] => _ | _ :: _ => _ end) => destruct l
         end; first [ apply cmd_reset_margins_np; exact HW | apply cmd_ssm_np; [eauto|exact HW] | wok HW | werr HW ].
Qed.
Lemma csi_devattr_np : forall t p ch, W t -> NP (csi_devattr t p ch).
Proof. intros t p ch HW. unfold csi_devattr. wifs; first [wok HW|werr HW]. Qed.
Lemma step_default_np : forall t p ch, W t -> NP (step_default t p ch).
Proof. intros t p ch HW. unfold step_default. wifs; first [wok HW|wlift HW]. Qed.

(* ---- one character, given a macro invoker that is itself safe ------------------------------------------------------------------------ *)
Lemma astep_gen_np : forall invoke m,
  forall ch, (forall t0 p0 id, W t0 -> macros p0 = macros (ps m) -> ch = 122 -> NP (invoke t0 p0 id)) ->
  W (tm m) -> NP (astep_gen invoke m ch).
Proof.
  intros invoke [t p] ch Hinv HW. cbn [ps] in Hinv. cbn [tm] in HW. unfold astep_gen. cbn [tm ps].
  destruct (st p) eqn:ST.
  - (* SDefault *) apply step_default_np; exact HW.
  - (* SEsc *)
    wifs; try (first [wok HW | wlift HW | werr HW]).
    all: apply np_lift; eapply limit_okW; [apply HW|apply restore_saved_geo].
  - apply csi_final_np; exact HW.
  - apply csi_cmd_np; exact HW.
  - apply csi_req_np; exact HW.
  - (* SRip *)
    destruct (ch =? 112).
    + apply np_lift. eapply limit_okW; [apply reset_terminal_WG; apply HW|reflexivity].
    + apply step_default_np; exact HW.
  - apply csi_devattr_np; exact HW.
  - (* SEndCsi: the macro invoker is reached only by the character z *)
    destruct (Z.eqb_spec ch 122) as [E122|N122];
    repeat match goal with |- NP (if ?c then _ else _) => destruct c end;
      try (first [ wok HW | werr HW | wlift HW
                 | apply cmd_fill_rect_np; exact HW | apply cmd_erase_rect_np; exact HW
                 | apply cmd_sel_erase_rect_np; exact HW | apply cmd_font_selection_np; exact HW ]).
    all: try (destruct (nums p) as [|id r]; [wok HW|];
              pose proof (Hinv t (dflt p) id HW eq_refl E122) as G; destruct (invoke t (dflt p) id); exact G).
    all: try (repeat match goal with |- NP (match ?l with _ => _ end) => destruct l end; try werr HW; wifs; first [wok HW|werr HW]).
  - (* SDcs *) wifs; wok HW.
  - (* SDcsEsc *) wifs; try wok HW. apply execute_dcs_np; exact HW.
  - (* SDcsMacro *)
    destruct (Z.eqb_spec ch 122) as [E122|N122]; wifs; try wok HW; try werr HW.
    all: try (apply Hinv; [exact HW|reflexivity|exact E122]).
  - (* SMusic *) apply parse_music_np; exact HW.
  - wifs; wok HW.
  - wifs; wok HW.
  - wifs; wok HW.
  - wifs; try wok HW. apply parse_osc_np; exact HW.
Qed.

Lemma feed_macro_np : forall stepf, (forall m c, W (tm m) -> NP (stepf m c)) ->
  forall body t0 p0, W t0 -> NP (feed_macro stepf body t0 p0).
Proof.
  intros stepf Hs body t0 p0 HW. unfold feed_macro.
  assert (G0 : NP (ok t0 p0)) by exact HW.
  generalize dependent (ok t0 p0). induction body as [|c r IH]; intros o Go; cbn; [exact Go|].
  apply IH. destruct o as [m1|m1|s|m1]; try exact Go.
  pose proof (Hs m1 c Go) as G. destruct (stepf m1 c); exact G.
Qed.

(* ANY macro table, ANY nesting budget: never a panic; an invocation beyond the budget is an error value that leaves the
   screen state as it was *)
Lemma astep_np : forall fuel m ch, W (tm m) -> NP (astep fuel m ch).
Proof.
  induction fuel as [|k IH]; intros m ch HW; cbn [astep]; apply astep_gen_np; try exact HW.
  - intros t0 p0 id H0 _ _. destruct (lookup id (macros p0)); exact H0.
  - intros t0 p0 id H0 _ _. destruct (lookup id (macros p0)) as [body|]; [|exact H0]. apply feed_macro_np; [exact IH|exact H0].
Qed.

(* the statement in one piece: an action or an error value on a W state again; never a panic *)
Lemma astep_char_total : forall fuel m ch, W (tm m) ->
  match astep fuel m ch with OOk m' | OErr m' | ODeep m' => W (tm m') | OPanic _ => False end.
Proof. exact astep_np. Qed.
(* print_char as its callers see it (the nesting counter is 0 on entry: the full budget MAX_MACRO_NESTING) *)
Lemma ansi_step_np : forall m ch, W (tm m) -> NP (ansi_step m ch).
Proof. intros m ch HW. apply astep_np. exact HW. Qed.
