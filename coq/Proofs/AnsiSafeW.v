(* C01 extension: one character of the ANSI parser on the WEAK invariant W (Proofs/WeakInv.v).

   NP Q o : the outcome o is an action or an error value whose screen state satisfies W; it is never a panic; it is the
   macro-nesting overflow (ODiverge) only if Q.  Proved for every parser state, for ANY macro table, before or after a
   text-area resize; the macro replay is covered by induction on the nesting bound. *)
From Coq Require Import ZArith NArith List Bool Lia.
From IE Require Import Model.TermCore Model.AnsiTok Proofs.TermProofs Proofs.AnsiProofs Proofs.WeakInv.
From IE Require Lib.C17Lib Model.Font Proofs.FontDcsSafe.
Import ListNotations.
Local Open Scope Z_scope.

Definition NP (Q : Prop) (o : outcome) : Prop :=
  match o with OOk m | OErr m => W (tm m) | OPanic _ => False | ODiverge => Q end.
Lemma np_ok : forall Q t p, W t -> NP Q (ok t p). Proof. intros; assumption. Qed.
Lemma np_err : forall Q t p, W t -> NP Q (err t p). Proof. intros; assumption. Qed.
Lemma np_lift : forall Q r p, okW r -> NP Q (lift r p).
Proof. intros Q r p (t' & E & HW). rewrite E. exact HW. Qed.
Lemma np_weaken : forall (Q Q' : Prop) o, (Q -> Q') -> NP Q o -> NP Q' o.
Proof. intros Q Q' [m|m|s|] H; cbn; auto. Qed.

(* close a goal [W t'] from HW : W t for the usual shapes (selected syntactically) *)
Ltac wkeep HW :=
  lazymatch goal with
  | |- W (caret_cr _) => apply caret_cr_W; exact HW
  | |- W (caret_eol _) => apply caret_eol_W; exact HW
  | |- W (caret_bs _) => apply caret_bs_W; exact HW
  | |- W (clear_screen _) => apply clear_screen_W; apply HW
  | |- W (caret_ff _) => apply caret_ff_W; apply HW
  | |- W (reset_terminal (caret_reset (caret_ff _))) => apply ris_W; apply HW
  | |- W (caret_home _) => apply caret_home_W; apply HW
  | |- W (set_tab_at _ _) => apply set_tab_at_W; exact HW
  | |- W (remove_tab_stop _ _) => apply remove_tab_stop_W; exact HW
  | |- W (set_margins_tb _ _ _) => apply set_margins_tb_W; exact HW
  | |- W (set_margins_lr _ _ _) => apply set_margins_lr_W; exact HW
  | |- W (set_mtb (set_mlr _ None) None) => apply clear_margins_W; exact HW
  | |- W (set_mlr (set_declr _ false) None) => apply declr_off_W; exact HW
  | |- W (set_origin _ false) => apply set_origin_false_W; exact HW
  | |- W (set_tabs _ []) => apply set_tabs_W; [constructor|exact HW]
  | |- W (set_cx _ 0) => apply caret_cr_W; exact HW
  | |- W (caret_del _) => eapply W_pgeo; [apply pgeo_caret_del|exact HW]
  | |- W (caret_ins _) => eapply W_pgeo; [apply pgeo_caret_ins|exact HW]
  | |- W (iter_tot _ caret_del _) => eapply W_pgeo; [apply pgeo_iter; apply pgeo_caret_del|exact HW]
  | |- W (iter_tot _ caret_ins _) => eapply W_pgeo; [apply pgeo_iter; apply pgeo_caret_ins|exact HW]
  | |- W (iter_tot _ scroll_up _) => eapply W_pgeo; [apply pgeo_iter; apply pgeo_scroll_up|exact HW]
  | |- W (iter_tot _ scroll_down _) => eapply W_pgeo; [apply pgeo_iter; apply pgeo_scroll_down|exact HW]
  | |- W (iter_tot _ scroll_left _) => eapply W_pgeo; [apply pgeo_iter; apply pgeo_scroll_left|exact HW]
  | |- W (iter_tot _ _ _) => fail "iter"
  | |- W ?x => first [ exact HW | eapply W_pgeo; [|exact HW]; reflexivity ]
  end.
(* close a goal [okW r] from HW : W t *)
Ltac wlim HW :=
  lazymatch goal with
  | |- okW (limit_caret_pos _) =>
      eapply limit_okW; [apply HW|]; repeat match goal with |- context [match ?x with _ => _ end] => destruct x end; reflexivity
  | |- okW (caret_left _ _) => apply caret_left_okW; apply HW
  | |- okW (caret_right _ _) => apply caret_right_okW; apply HW
  | |- okW (caret_up _ _) => apply caret_up_okW; apply HW
  | |- okW (caret_down _ _) => apply caret_down_okW; apply HW
  | |- okW (caret_index _) => apply caret_index_okW; apply HW
  | |- okW (caret_reverse_index _) => apply caret_reverse_index_okW; apply HW
  | |- okW (caret_next_line _) => apply caret_next_line_okW; apply HW
  | |- okW (caret_lf _) => apply caret_lf_okW; exact HW
  | |- okW (print_char _ _) => apply print_char_okW; exact HW
  | |- okW (caret_erase _ _) => apply caret_erase_okW; exact HW
  | |- okW (remove_terminal_line _ _) => apply remove_terminal_line_okW; exact HW
  | |- okW (insert_terminal_line _ _) => apply insert_terminal_line_okW; exact HW
  | |- okW (scroll_right _) => apply scroll_right_okW; exact HW
  | |- okW (iter_res _ (fun x => remove_terminal_line x (cy x)) _) =>
      unfold iter_res; apply iter_okW; [intros; apply remove_terminal_line_okW; assumption|exact HW]
  | |- okW (iter_res _ (fun x => insert_terminal_line x (cy x)) _) =>
      unfold iter_res; apply iter_okW; [intros; apply insert_terminal_line_okW; assumption|exact HW]
  | |- okW (iter_res _ (fun x => print_char x _) _) =>
      unfold iter_res; apply iter_okW; [intros; apply print_char_okW; assumption|exact HW]
  | |- okW (iter_res _ scroll_right _) =>
      unfold iter_res; apply iter_okW; [intros; apply scroll_right_okW; assumption|exact HW]
  end.
Ltac wok HW := apply np_ok; wkeep HW.
Ltac werr HW := apply np_err; wkeep HW.
Ltac wlift HW := apply np_lift; wlim HW.
Ltac wifs := repeat match goal with
                    | |- NP _ (if ?c then _ else _) => destruct c
                    | |- NP _ (match ?l with [] => _ | _ :: _ => _ end) => destruct l
                    | |- NP _ (match ?o with Some _ => _ | None => _ end) => destruct o
                    | |- NP _ (let '(_, _) := ?x in _) => destruct x
                    end.

(* ---- the commands of ansi_commands.rs ------------------------------------------------------------------------------------- *)
Lemma cmd_sgr_np : forall Q t p, W t -> NP Q (cmd_sgr t p).
Proof.
  intros Q t p HW. unfold cmd_sgr.
  set (t1 := match nums p with [] => caret_reset_color t | _ => t end).
  assert (P1 : pgeo t1 = pgeo t) by (subst t1; destruct (nums p); reflexivity).
  pose proof (sgr_loop_pgeo (S (length (nums p))) t1 (nums p)) as P2.
  destruct (sgr_loop (S (length (nums p))) t1 (nums p)) as [t2 e]. cbn [fst] in P2.
  assert (P3 : pgeo t2 = pgeo t) by (rewrite P2; exact P1).
  destruct e; [apply np_err|apply np_ok]; (eapply W_pgeo; [exact P3|exact HW]).
Qed.
Lemma cmd_decstbm_np : forall Q t p, W t -> NP Q (cmd_decstbm t p).
Proof.
  intros Q t p HW. unfold cmd_decstbm. destruct (margins_args p (th t)) as [[a b]|]; [|werr HW].
  apply np_ok. apply upper_left_W. apply set_margins_tb_WG. apply HW.
Qed.
Lemma cmd_decslrm_np : forall Q t p, W t -> NP Q (cmd_decslrm t p).
Proof. intros Q t p HW. unfold cmd_decslrm. destruct (margins_args p (th t)) as [[a b]|]; [wok HW|werr HW]. Qed.
Lemma cmd_csr_np : forall Q t p, W t -> NP Q (cmd_csr t p).
Proof.
  intros Q t p HW. unfold cmd_csr.
  destruct (nums p) as [|a [|b [|c [|d [|e r]]]]]; try werr HW;
    (apply np_ok; apply set_margins_lr_W, set_margins_tb_W, upper_left_W; apply HW).
Qed.
Lemma cmd_ssm_np : forall Q t p, (exists a b, nums p = [a; b]) -> W t -> NP Q (cmd_ssm t p).
Proof.
  intros Q t p (a & b & E) HW. unfold cmd_ssm. rewrite E. wifs; first [wok HW|werr HW].
Qed.
Lemma cmd_ech_np : forall Q t p, W t -> NP Q (cmd_ech t p).
Proof.
  intros Q t p HW. unfold cmd_ech. destruct (nums p) as [|n r]; [|wlift HW].
  destruct (caret_erase_okW t 1 HW) as (t1 & E & H1). rewrite E. apply np_err. exact H1.
Qed.
Lemma cmd_fill_rect_np : forall Q t p, W t -> NP Q (cmd_fill_rect t p).
Proof.
  intros Q t p HW. unfold cmd_fill_rect. destruct (nums p) as [|ch [|a [|b [|c [|d [|e r]]]]]]; try werr HW.
  destruct (is_scalar ch); [|werr HW]. destruct (rect_area t a b c d) as [[[tl lc] bl] rc]. wok HW.
Qed.
Lemma cmd_erase_rect_np : forall Q t p, W t -> NP Q (cmd_erase_rect t p).
Proof.
  intros Q t p HW. unfold cmd_erase_rect. destruct (nums p) as [|a [|b [|c [|d [|e r]]]]]; try werr HW.
  destruct (rect_area t a b c d) as [[[tl lc] bl] rc]; wok HW.
Qed.
Lemma cmd_sel_erase_rect_np : forall Q t p, W t -> NP Q (cmd_sel_erase_rect t p).
Proof.
  intros Q t p HW. unfold cmd_sel_erase_rect. destruct (nums p) as [|a [|b [|c [|d [|e r]]]]]; try werr HW.
  destruct (rect_area t a b c d) as [[[tl lc] bl] rc]; wok HW.
Qed.
(* CSI 8;h;w t: the text-area resize keeps W (it does not keep Inv09) *)
Lemma cmd_window_np : forall Q t p, W t -> NP Q (cmd_window t p).
Proof.
  intros Q t p HW. unfold cmd_window. destruct (nums p) as [|k [|h [|w [|b [|e r]]]]]; try werr HW.
  - destruct (k =? 8); [|werr HW]. apply np_ok. apply resize_W; [lia|lia|exact HW].
  - wifs; first [wok HW|werr HW].
Qed.
Lemma cmd_font_selection_np : forall Q t p, W t -> NP Q (cmd_font_selection t p).
Proof. intros Q t p HW. unfold cmd_font_selection. destruct (nums p) as [|a [|b [|c r]]]; try werr HW. wifs; [wok HW|werr HW]. Qed.
Lemma cmd_reset_margins_np : forall Q t p, W t -> NP Q (cmd_reset_margins t p).
Proof. intros Q t p HW. unfold cmd_reset_margins. wok HW. Qed.

(* ---- DCS / OSC / music: the screen is not touched --------------------------------------------------------------------------------- *)
Lemma execute_dcs_np : forall Q t p, W t -> NP Q (execute_dcs t p).
Proof.
  intros Q t p HW. unfold execute_dcs. destruct (starts_with _ _).
  { unfold load_custom_font.
    pose proof (FontDcsSafe.font_dcs_total Base64.decode (map Z.to_N (rev (pstr p)))) as T.
    destruct (Font.load_custom_font _ _) as [[slot f]|e|s|]; first [exact HW|contradiction]. }
  destruct (lead_nums _ _) as [ns rest].
  repeat match goal with |- NP _ (match ?x with _ => _ end) => destruct x end; exact HW.
Qed.
Lemma parse_osc_np : forall Q t p, W t -> NP Q (parse_osc t p).
Proof.
  intros Q t p HW. unfold parse_osc. destruct (lead_nums _ _) as [ns rest].
  repeat match goal with
         | |- NP _ (match ?x with _ => _ end) => destruct x
         | |- NP _ (if ?x then _ else _) => destruct x
         end; exact HW.
Qed.
Lemma parse_music_np : forall Q t p ms ch, W t -> NP Q (parse_music t p ms ch).
Proof.
  intros Q t p ms ch HW. unfold parse_music, parse_default_music. destruct ms; wifs; exact HW.
Qed.

(* ---- CSI ------------------------------------------------------------------------------------------------------------------------------ *)
Lemma csi_final_np : forall Q t p is_start ch, W t -> NP Q (csi_final t p is_start ch).
Proof.
  intros Q t p is_start ch HW. unfold csi_final.
  repeat match goal with
         | |- NP _ (if ?c then _ else _) => destruct c
         | |- NP _ (match nums p with _ => _ end) => destruct (nums p) as [|n1 [|n2 r]]
         | |- NP _ (match hpos_line t with _ => _ end) => destruct (hpos_line t)
         | |- NP _ (match ?l with [] => _ | _ :: _ => _ end) => destruct l
         end;
  first [ apply cmd_sgr_np; exact HW | apply cmd_decslrm_np; exact HW | apply cmd_ech_np; exact HW
        | apply cmd_csr_np; exact HW | apply cmd_decstbm_np; exact HW | apply cmd_window_np; exact HW
        | wok HW | werr HW | wlift HW | idtac ].
  all: try (repeat match goal with |- NP _ (match ?z with _ => _ end) => destruct z end; first [wok HW|werr HW|wlift HW]).
  (* CVT: limit after an iteration that keeps the geometry; CBT: iteration of a W-preserving step *)
  all: try (apply np_lift; eapply limit_okW; [apply HW|]; apply iter_G; intro; reflexivity).
  all: try (apply np_ok; apply iter_W; [apply cbt_step_W|exact HW]).
Qed.
Lemma csi_cmd_np : forall Q t p ch, W t -> NP Q (csi_cmd t p ch).
Proof.
  intros Q t p ch HW. unfold csi_cmd.
  repeat match goal with
         | |- NP _ (if ?c then _ else _) => destruct c
         | |- NP _ (match ?l with [] => _ | _ :: _ => _ end) => destruct l
         end; first [ wok HW | werr HW | idtac ].
  all: repeat match goal with |- NP _ (match ?z with _ => _ end) => destruct z end; first [wok HW|werr HW].
Qed.
Lemma csi_req_np : forall Q t p ch, W t -> NP Q (csi_req t p ch).
Proof.
  intros Q t p ch HW. unfold csi_req.
  repeat match goal with
         | |- NP _ (if ?c then _ else _) => destruct c
         | |- NP _ (match nums p with _ => _ end) => destruct (nums p) as [|n1 [|n2 [|n3 r]]] eqn:?
         | |- NP _ (match ?l with [] => _ | _ :: _ => _ end) => destruct l
         end; first [ apply cmd_reset_margins_np; exact HW | apply cmd_ssm_np; [eauto|exact HW] | wok HW | werr HW ].
Qed.
Lemma csi_devattr_np : forall Q t p ch, W t -> NP Q (csi_devattr t p ch).
Proof. intros Q t p ch HW. unfold csi_devattr. wifs; first [wok HW|werr HW]. Qed.
Lemma step_default_np : forall Q t p ch, W t -> NP Q (step_default t p ch).
Proof. intros Q t p ch HW. unfold step_default. wifs; first [wok HW|wlift HW]. Qed.

(* ---- one character, given a macro invoker that is itself safe ------------------------------------------------------------------------ *)
Lemma astep_gen_np : forall Q invoke m,
  forall ch, (forall t0 p0 id, W t0 -> macros p0 = macros (ps m) -> ch = 122 -> NP Q (invoke t0 p0 id)) ->
  W (tm m) -> NP Q (astep_gen invoke m ch).
Proof.
  intros Q invoke [t p] ch Hinv HW. cbn [ps] in Hinv. cbn [tm] in HW. unfold astep_gen. cbn [tm ps].
  destruct (st p) eqn:ST.
  - (* SDefault *) apply step_default_np; exact HW.
  - (* SEsc *)
    wifs; try (first [wok HW | wlift HW | werr HW]).
    all: apply np_lift; eapply limit_okW; [apply HW|apply restore_saved_geo].
  - apply csi_final_np; exact HW.
  - apply csi_cmd_np; exact HW.
  - apply csi_req_np; exact HW.
  - (* SRip *)
    destruct (ch =? 112).
    + apply np_lift. eapply limit_okW; [apply reset_terminal_WG; apply HW|reflexivity].
    + apply step_default_np; exact HW.
  - apply csi_devattr_np; exact HW.
  - (* SEndCsi: the macro invoker is reached only by the character z *)
    destruct (Z.eqb_spec ch 122) as [E122|N122];
    repeat match goal with |- NP _ (if ?c then _ else _) => destruct c end;
      try (first [ wok HW | werr HW | wlift HW
                 | apply cmd_fill_rect_np; exact HW | apply cmd_erase_rect_np; exact HW
                 | apply cmd_sel_erase_rect_np; exact HW | apply cmd_font_selection_np; exact HW ]).
    all: try (destruct (nums p) as [|id r]; [wok HW|];
              pose proof (Hinv t (dflt p) id HW eq_refl E122) as G; destruct (invoke t (dflt p) id); exact G).
    all: try (repeat match goal with |- NP _ (match ?l with _ => _ end) => destruct l end; try werr HW; wifs; first [wok HW|werr HW]).
  - (* SDcs *) wifs; wok HW.
  - (* SDcsEsc *) wifs; try wok HW. apply execute_dcs_np; exact HW.
  - (* SDcsMacro *)
    destruct (Z.eqb_spec ch 122) as [E122|N122]; wifs; try wok HW; try werr HW.
    all: try (apply Hinv; [exact HW|reflexivity|exact E122]).
  - (* SMusic *) apply parse_music_np; exact HW.
  - wifs; wok HW.
  - wifs; wok HW.
  - wifs; wok HW.
  - wifs; try wok HW. apply parse_osc_np; exact HW.
Qed.

Lemma feed_macro_np : forall Q stepf, (forall m c, W (tm m) -> NP Q (stepf m c)) ->
  forall body t0 p0, W t0 -> NP Q (feed_macro stepf body t0 p0).
Proof.
  intros Q stepf Hs body t0 p0 HW. unfold feed_macro.
  assert (G0 : NP Q (ok t0 p0)) by exact HW.
  generalize dependent (ok t0 p0). induction body as [|c r IH]; intros o Go; cbn; [exact Go|].
  apply IH. destruct o as [m1|m1|s|]; try exact Go.
  - pose proof (Hs m1 c Go) as G. destruct (stepf m1 c); exact G.
  - pose proof (Hs m1 c Go) as G. destruct (stepf m1 c); exact G.
Qed.

(* ANY macro table, ANY nesting bound: never a panic; the nesting overflow is the only way not to end in a state *)
Lemma astep_np : forall fuel m ch, W (tm m) -> NP True (astep fuel m ch).
Proof.
  induction fuel as [|k IH]; intros m ch HW; cbn [astep]; apply astep_gen_np; try exact HW.
  - intros t0 p0 id H0 _ _. destruct (lookup id (macros p0)); [exact I|exact H0].
  - intros t0 p0 id H0 _ _. destruct (lookup id (macros p0)) as [body|]; [|exact H0]. apply feed_macro_np; [exact IH|exact H0].
Qed.
(* no macro stored: not even the nesting overflow *)
Lemma astep_np_nomacro : forall fuel m ch, W (tm m) -> macros (ps m) = [] -> NP False (astep fuel m ch).
Proof.
  intros fuel m ch HW HM. destruct fuel; cbn [astep]; apply astep_gen_np; try exact HW;
    intros t0 p0 id H0 E _; rewrite E, HM; exact H0.
Qed.
Lemma astep_np_or : forall (Q : Prop) fuel m ch, W (tm m) -> (Q \/ macros (ps m) = []) -> NP Q (astep fuel m ch).
Proof.
  intros Q fuel m ch HW [HQ|HM].
  - eapply np_weaken; [|apply astep_np; exact HW]. intro; exact HQ.
  - eapply np_weaken; [|apply astep_np_nomacro; assumption]. intros [].
Qed.

(* the macro invoker is reached only by the character z: any other character cannot overflow the nesting, whatever is stored *)
Lemma astep_np_not_z : forall fuel m ch, W (tm m) -> ch <> 122 -> NP False (astep fuel m ch).
Proof.
  intros fuel m ch HW N. destruct fuel; cbn [astep]; apply astep_gen_np; try exact HW; intros t0 p0 id H0 _ E; contradiction.
Qed.

(* ---- the macro table stays empty unless a DCS string is completed (ESC \) --------------------------------------------------------- *)
Definition MP (o : outcome) : Prop := match o with OOk m | OErr m => macros (ps m) = [] | _ => True end.
Ltac mp_leaf HM :=
  cbv [MP ok err lift macros ps dflt mus start_music set_st set_nums set_saved_pos set_saved_cur set_last set_music set_pstr set_mdcs
       set_macros set_hlinks set_bice set_fonts set_resized];
  repeat (match goal with |- context [if ?c then _ else _] => destruct c end);
  first [ exact HM | reflexivity | exact I ].
Ltac mp_split :=
  unfold lift;
  repeat match goal with
         | |- MP (if ?c then _ else _) => destruct c
         | |- MP (match ?x with _ => _ end) => destruct x
         | |- MP (let '(_, _) := ?x in _) => destruct x
         end.
Lemma astep_gen_mp : forall invoke m ch,
  (forall t0 p0 id, macros p0 = [] -> MP (invoke t0 p0 id)) ->
  macros (ps m) = [] -> ch <> 92 -> MP (astep_gen invoke m ch).
Proof.
  intros invoke [t p] ch Hinv HM N. cbn [ps] in HM. unfold astep_gen. cbn [tm ps].
  destruct (Z.eqb_spec ch 92) as [E92|_]; [contradiction|].
  destruct (st p) eqn:ST.
  - unfold step_default. mp_split; mp_leaf HM.
  - mp_split; mp_leaf HM.
  - unfold csi_final, cmd_sgr, cmd_decslrm, cmd_ech, cmd_csr, cmd_decstbm, cmd_window, hpos_line. mp_split; mp_leaf HM.
  - unfold csi_cmd. mp_split; mp_leaf HM.
  - unfold csi_req, cmd_reset_margins, cmd_ssm. mp_split; mp_leaf HM.
  - unfold step_default. mp_split; mp_leaf HM.
  - unfold csi_devattr. mp_split; mp_leaf HM.
  - unfold cmd_fill_rect, cmd_erase_rect, cmd_sel_erase_rect, cmd_font_selection, lift.
    repeat match goal with
           | |- MP (if ?c then _ else _) => destruct c
           | |- MP (match nums p with _ => _ end) => destruct (nums p) as [|n1 [|n2 [|n3 [|n4 [|n5 [|n6 [|n7 r]]]]]]]
           | |- MP (let '(_, _) := ?x in _) => destruct x
           | |- MP (match iter_res ?a ?b ?c with _ => _ end) => destruct (iter_res a b c)
           end; try (mp_leaf HM).
    all: match goal with |- MP (match ?f ?a ?b ?c with _ => _ end) =>
           assert (G : MP (f a b c)) by (apply Hinv; exact HM); destruct (f a b c); exact G end.
  - mp_split; mp_leaf HM.
  - mp_split; mp_leaf HM.
  - repeat match goal with
           | |- MP (if ?c then _ else _) => destruct c
           | |- MP (match nums ?q with _ => _ end) => destruct (nums q) as [|n1 [|n2 r]]
           end; try (mp_leaf HM).
    apply Hinv. exact HM.
  - unfold parse_music, parse_default_music. destruct m; mp_split; mp_leaf HM.
  - mp_split; mp_leaf HM.
  - mp_split; mp_leaf HM.
  - mp_split; mp_leaf HM.
  - mp_split; mp_leaf HM.
Qed.
Lemma astep_keeps_nomacro : forall fuel m ch, macros (ps m) = [] -> ch <> 92 -> MP (astep fuel m ch).
Proof.
  intros fuel m ch HM N. destruct fuel; cbn [astep]; apply astep_gen_mp; auto; intros t0 p0 id E; rewrite E; exact E.
Qed.

(* the statement in one piece: an action or an error value on a W state again; never a panic; the nesting overflow only
   while a macro is stored *)
Lemma astep_char_total : forall fuel m ch, W (tm m) ->
  match astep fuel m ch with OOk m' | OErr m' => W (tm m') | OPanic _ => False | ODiverge => macros (ps m) <> [] end.
Proof.
  intros fuel m ch HW. destruct (macros (ps m)) as [|a l] eqn:E.
  - pose proof (astep_np_nomacro fuel m ch HW E) as G. destruct (astep fuel m ch); try exact G. contradiction.
  - pose proof (astep_np fuel m ch HW) as G. destruct (astep fuel m ch); try exact G. discriminate.
Qed.
