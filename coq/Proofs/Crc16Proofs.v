(* CRC-16/XMODEM: the table implementation equals MSB-first bitwise division. *)
From Coq Require Import NArith Arith List Lia Btauto Bool.
From IE Require Import Lib.Tbl Lib.Bits Gen.Crc Model.Crc.
Import ListNotations.
Local Open Scope N_scope.

Fixpoint bit16n (n : nat) (c : N) : N :=
  match n with O => c | S n' => bit16 (bit16n n' c) end.

Lemma bit16n_iter n c : Nat.iter n bit16 c = bit16n n c.
Proof. induction n as [|n IH]; [reflexivity|]. cbn [bit16n]. rewrite <- IH. reflexivity. Qed.

Lemma mod16_land x : x mod 65536 = N.land x (N.ones 16).
Proof. rewrite N.land_ones. reflexivity. Qed.

Lemma bit16_lin a b : bit16 (N.lxor a b) = N.lxor (bit16 a) (bit16 b).
Proof.
  unfold bit16. rewrite N.shiftl_lxor, !mod16_land, land_lxor_distr_l, N.lxor_spec.
  destruct (N.testbit a 15), (N.testbit b 15); cbn [xorb]; xor_bits.
Qed.

Lemma bit16n_lin n a b : bit16n n (N.lxor a b) = N.lxor (bit16n n a) (bit16n n b).
Proof. induction n as [|n IH]; cbn [bit16n]; [reflexivity|]. rewrite IH, bit16_lin. reflexivity. Qed.

Definition entry16_ok (i : N) : bool :=
  (tget CRC16_CCITT_TABLE i =? bit16n 8 (N.shiftl i 8)) && (tget CRC16_CCITT_TABLE i <? 65536)
  && (bit16n 8 i =? N.shiftl i 8).

Lemma table16_ok_true : forallb entry16_ok (nrange 256) = true.
Proof. vm_compute. reflexivity. Qed.

Lemma table16_spec i : i < 256 ->
  tget CRC16_CCITT_TABLE i = bit16n 8 (N.shiftl i 8) /\ tget CRC16_CCITT_TABLE i < 65536
  /\ bit16n 8 i = N.shiftl i 8.
Proof.
  intro Hi. pose proof (nrange_forallb _ _ table16_ok_true i Hi) as H. unfold entry16_ok in H.
  apply andb_true_iff in H. destruct H as [H Hc]. apply andb_true_iff in H. destruct H as [Ha Hb].
  apply N.eqb_eq in Ha. apply N.ltb_lt in Hb. apply N.eqb_eq in Hc. repeat split; assumption.
Qed.

Lemma shl8_mod16 c : (N.shiftl c 8) mod 65536 = N.shiftl (N.land c 255) 8.
Proof.
  rewrite mod16_land. apply N.bits_inj; intro n. rewrite N.land_spec.
  destruct (N.ltb_spec n 8) as [H8|H8].
  - rewrite !N.shiftl_spec_low by assumption. reflexivity.
  - rewrite !N.shiftl_spec_high' by assumption. rewrite N.land_spec. change 255 with (N.ones 8).
    destruct (N.ltb_spec n 16) as [H16|H16].
    + rewrite N.ones_spec_low by assumption. rewrite N.ones_spec_low by lia. reflexivity.
    + rewrite N.ones_spec_high by assumption. rewrite N.ones_spec_high by lia. btauto.
Qed.

Lemma shiftr8_lt c : c < 65536 -> N.shiftr c 8 < 256.
Proof.
  intro Hc. rewrite N.shiftr_div_pow2. apply N.div_lt_upper_bound; [discriminate|].
  change (2 ^ 8 * 256) with 65536. exact Hc.
Qed.

Lemma update_crc16_spec c b : c < 65536 -> b < 256 -> update_crc16 c b = byte16 c b.
Proof.
  intros Hc Hb. unfold byte16. rewrite bit16n_iter.
  assert (E : N.lxor c (N.shiftl b 8) = N.lxor (N.land c 255) (N.shiftl (N.lxor (N.shiftr c 8) b) 8)).
  { rewrite N.shiftl_lxor. rewrite (split_low8 c) at 1. rewrite N.lxor_assoc. reflexivity. }
  rewrite E, bit16n_lin.
  pose proof (shiftr8_lt c Hc) as Hhi.
  assert (Hidx : N.lxor (N.shiftr c 8) b < 256) by (apply lxor_lt_256; assumption).
  destruct (table16_spec _ Hidx) as (Ht & _ & _).
  assert (Hlow : N.land c 255 < 256) by (rewrite land_255_mod; apply N.mod_lt; discriminate).
  destruct (table16_spec _ Hlow) as (_ & _ & Hl).
  rewrite Hl, <- Ht. unfold update_crc16.
  rewrite shl8_mod16, (N.mod_small (N.shiftr c 8)) by exact Hhi. reflexivity.
Qed.

Lemma update_crc16_lt c b : b < 256 -> update_crc16 c b < 65536.
Proof.
  intro Hb. unfold update_crc16. apply (lxor_lt_pow2 _ _ 16).
  - apply N.mod_lt. discriminate.
  - apply table16_spec. apply lxor_lt_256; [apply N.mod_lt; discriminate|exact Hb].
Qed.

Definition bytes (bs : list N) : Prop := Forall (fun b => b < 256) bs.

Lemma fold_crc16 bs : bytes bs -> forall c, c < 65536 ->
  fold_left update_crc16 bs c = fold_left byte16 bs c.
Proof.
  intro Hbs. induction Hbs as [|b bs Hb Hbs IH]; intros c Hc; cbn [fold_left]; [reflexivity|].
  rewrite <- (update_crc16_spec c b Hc Hb). apply IH. apply update_crc16_lt, Hb.
Qed.

Lemma get_crc16_spec_proof bs : bytes bs -> get_crc16 bs = crc16_spec bs.
Proof. intro Hbs. unfold get_crc16, crc16_spec. apply (fold_crc16 bs Hbs crc16_init). reflexivity. Qed.

Lemma crc16_incremental_proof bs : bytes bs -> crc16_incremental bs = get_crc16 bs.
Proof. intros _. reflexivity. Qed.
