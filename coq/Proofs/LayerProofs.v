(* C08: what the layer primitives of Model/EditModel.v do to the observable content of a layer.
   Observable content = meta L (every field but `lines`) + rawL L (the stored cell at every position, absent = invisible).
   leqv = equality of both; every primitive is a congruence for it. *)
From Coq Require Import List ZArith NArith Bool Arith Lia.
From IE Require Import Lib.C08Lib Gen.UndoGen Model.Undo Model.EditModel.
Import ListNotations.
Local Open Scope Z_scope.

(* ------------------------------------------------------------------ lists *)
Lemma nth_error_repeat {A} (a : A) : forall n i, nth_error (repeat a n) i = if (i <? n)%nat then Some a else None.
Proof.
  induction n as [|n IH]; intro i; [destruct i; reflexivity|].
  destruct i; cbn [repeat nth_error]; [reflexivity|]. rewrite IH.
  change (S i <? S n)%nat with (i <? n)%nat. reflexivity.
Qed.

Lemma upd_nth_length {A} (f : A -> A) : forall l n, length (upd_nth n f l) = length l.
Proof. induction l as [|a l IH]; intro n; [reflexivity|]. destruct n; cbn; [reflexivity|]. f_equal. apply IH. Qed.

Lemma nth_error_upd_nth {A} (f : A -> A) : forall l n i,
  nth_error (upd_nth n f l) i = if (i =? n)%nat then option_map f (nth_error l n) else nth_error l i.
Proof.
  induction l as [|a l IH]; intros n i.
  - cbn. destruct (i =? n)%nat; destruct n, i; reflexivity.
  - destruct n, i; cbn [upd_nth nth_error]; try reflexivity.
    rewrite IH. change (S i =? S n)%nat with (i =? n)%nat. reflexivity.
Qed.

Lemma upd_nth_upd_nth {A} (f g : A -> A) : forall l n, upd_nth n f (upd_nth n g l) = upd_nth n (fun a => f (g a)) l.
Proof. induction l as [|a l IH]; intro n; [reflexivity|]. destruct n; cbn; [reflexivity|]. f_equal. apply IH. Qed.

(* ------------------------------------------------------------------ rows *)
Definition cell_at (row : line) (i : nat) : cell := match nth_error row i with Some v => v | None => invisible end.

Lemma raw_cell_at lines x y : raw lines x y = match nth_error lines y with Some row => cell_at row x | None => invisible end.
Proof. reflexivity. Qed.

Lemma cell_at_repeat n i : cell_at (repeat invisible n) i = invisible.
Proof. unfold cell_at. rewrite nth_error_repeat. destruct (i <? n)%nat; reflexivity. Qed.

Lemma cell_at_app_repeat row n i : cell_at (row ++ repeat invisible n) i = cell_at row i.
Proof.
  unfold cell_at. destruct (lt_dec i (length row)) as [H|H].
  - rewrite nth_error_app1 by exact H. reflexivity.
  - rewrite nth_error_app2 by lia. rewrite nth_error_repeat.
    assert (nth_error row i = None) as -> by (apply nth_error_None; lia).
    destruct (_ <? _)%nat; reflexivity.
Qed.

Lemma cell_at_line_set_char row x c i : 0 <= x ->
  cell_at (line_set_char row x c) i = if (i =? Z.to_nat x)%nat then c else cell_at row i.
Proof.
  intro Hx. unfold line_set_char.
  set (row' := if Z.of_nat (length row) <=? x then row ++ repeat invisible (Z.to_nat x + 1 - length row) else row).
  assert (Hc : forall j, cell_at row' j = cell_at row j).
  { intro j. subst row'. destruct (Z.of_nat (length row) <=? x); [apply cell_at_app_repeat|reflexivity]. }
  assert (Hl : (Z.to_nat x < length row')%nat).
  { subst row'. destruct (Z.of_nat (length row) <=? x) eqn:E.
    - rewrite app_length, repeat_length. apply Z.leb_le in E. lia.
    - apply Z.leb_gt in E. lia. }
  unfold cell_at at 1. rewrite nth_error_upd_nth. destruct (i =? Z.to_nat x)%nat eqn:E.
  - destruct (nth_error row' (Z.to_nat x)) eqn:En; [reflexivity|]. apply nth_error_None in En. lia.
  - apply Hc.
Qed.

(* ------------------------------------------------------------------ raw content of `lines` *)
Lemma raw_app_create lines k w x y : raw (lines ++ repeat (line_create w) k) x y = raw lines x y.
Proof.
  rewrite !raw_cell_at. destruct (lt_dec y (length lines)) as [H|H].
  - rewrite nth_error_app1 by exact H. reflexivity.
  - rewrite nth_error_app2 by lia. rewrite nth_error_repeat.
    assert (nth_error lines y = None) as -> by (apply nth_error_None; lia).
    destruct (_ <? _)%nat; [|reflexivity]. apply cell_at_repeat.
Qed.

Lemma raw_grow_lines lines y w x' y' : raw (grow_lines lines y w) x' y' = raw lines x' y'.
Proof. unfold grow_lines. destruct (_ <=? _); [apply raw_app_create|reflexivity]. Qed.

Lemma grow_lines_length lines y w : 0 <= y -> (Z.to_nat y < length (grow_lines lines y w))%nat.
Proof.
  intro Hy. unfold grow_lines. destruct (Z.of_nat (length lines) <=? y) eqn:E.
  - rewrite app_length, repeat_length. apply Z.leb_le in E. lia.
  - apply Z.leb_gt in E. lia.
Qed.

Lemma raw_write_cell lines x y c x' y' : 0 <= x -> (Z.to_nat y < length lines)%nat ->
  raw (write_cell lines x y c) x' y' = if ((x' =? Z.to_nat x) && (y' =? Z.to_nat y))%nat then c else raw lines x' y'.
Proof.
  intros Hx Hy. unfold write_cell. rewrite !raw_cell_at, nth_error_upd_nth.
  destruct (y' =? Z.to_nat y)%nat eqn:Ey.
  - apply Nat.eqb_eq in Ey. subst y'.
    destruct (nth_error lines (Z.to_nat y)) as [row|] eqn:En; [|apply nth_error_None in En; lia].
    cbn [option_map]. rewrite cell_at_line_set_char by exact Hx. rewrite andb_true_r. reflexivity.
  - rewrite andb_false_r. reflexivity.
Qed.

(* ------------------------------------------------------------------ layers *)
Definition meta (L : layer) :=
  (l_role L, l_visible L, l_locked L, l_pos_locked L, l_alpha_locked L, l_has_alpha L, l_mode L, l_ox L, l_oy L, l_w L, l_h L, l_title L).
Definition rawL (L : layer) (x y : nat) : cell := raw (l_lines L) x y.
Definition leqv (L1 L2 : layer) : Prop := meta L1 = meta L2 /\ forall x y, rawL L1 x y = rawL L2 x y.

Lemma leqv_refl L : leqv L L.
Proof. split; auto. Qed.
Lemma leqv_sym L1 L2 : leqv L1 L2 -> leqv L2 L1.
Proof. intros [H1 H2]. split; auto. Qed.
Lemma leqv_trans L1 L2 L3 : leqv L1 L2 -> leqv L2 L3 -> leqv L1 L3.
Proof. intros [H1 H2] [H3 H4]. split; [congruence|]. intros. rewrite H2. apply H4. Qed.

Lemma meta_fields L1 L2 : meta L1 = meta L2 ->
  l_role L1 = l_role L2 /\ l_visible L1 = l_visible L2 /\ l_locked L1 = l_locked L2 /\ l_pos_locked L1 = l_pos_locked L2 /\
  l_alpha_locked L1 = l_alpha_locked L2 /\ l_has_alpha L1 = l_has_alpha L2 /\ l_mode L1 = l_mode L2 /\
  l_ox L1 = l_ox L2 /\ l_oy L1 = l_oy L2 /\ l_w L1 = l_w L2 /\ l_h L1 = l_h L2 /\ l_title L1 = l_title L2.
Proof. unfold meta. intro H. injection H. intros. repeat split; assumption. Qed.

Lemma meta_with_lines L v : meta (with_lines L v) = meta L.
Proof. reflexivity. Qed.

(* the position of a cell as the guards see it *)
Definition inb (L : layer) (x y : Z) : bool := (0 <=? x) && (0 <=? y) && (x <? l_w L) && (y <? l_h L).

Lemma oob_inb x y w h : ((((x <? 0) || (y <? 0)) || (w <=? x)) || (h <=? y)) = negb ((0 <=? x) && (0 <=? y) && (x <? w) && (y <? h)).
Proof.
  destruct (x <? 0) eqn:E1, (y <? 0) eqn:E2, (w <=? x) eqn:E3, (h <=? y) eqn:E4;
  destruct (0 <=? x) eqn:F1, (0 <=? y) eqn:F2, (x <? w) eqn:F3, (y <? h) eqn:F4; try reflexivity; exfalso;
  repeat match goal with
  | H : (_ <? _) = true |- _ => apply Z.ltb_lt in H
  | H : (_ <? _) = false |- _ => apply Z.ltb_ge in H
  | H : (_ <=? _) = true |- _ => apply Z.leb_le in H
  | H : (_ <=? _) = false |- _ => apply Z.leb_gt in H
  end; lia.
Qed.

Lemma set_char_oob_inb L x y : set_char_oob x y (l_w L) (l_h L) = negb (inb L x y).
Proof. unfold set_char_oob, inb. apply oob_inb. Qed.
Lemma restore_char_oob_inb L x y : restore_char_oob x y (l_w L) (l_h L) = negb (inb L x y).
Proof. unfold restore_char_oob, inb. apply oob_inb. Qed.
Lemma can_set_oob_inb L x y : can_set_oob x y (l_w L) (l_h L) = negb (inb L x y).
Proof. unfold can_set_oob, inb. apply oob_inb. Qed.
Lemma get_char_oob_inb L x y : get_char_oob x y (l_w L) (l_h L) = negb (inb L x y).
Proof. unfold get_char_oob, inb. apply oob_inb. Qed.

Lemma inb_bounds L x y : inb L x y = true -> 0 <= x /\ 0 <= y /\ x < l_w L /\ y < l_h L.
Proof.
  unfold inb. intro H. apply andb_prop in H. destruct H as [H H4]. apply andb_prop in H. destruct H as [H H3].
  apply andb_prop in H. destruct H as [H1 H2].
  apply Z.leb_le in H1. apply Z.leb_le in H2. apply Z.ltb_lt in H3. apply Z.ltb_lt in H4. auto.
Qed.

Lemma inb_meta L1 L2 x y : meta L1 = meta L2 -> inb L1 x y = inb L2 x y.
Proof. intro H. apply meta_fields in H. unfold inb. destruct H as (_&_&_&_&_&_&_&_&_&Hw&Hh&_). rewrite Hw, Hh. reflexivity. Qed.

Lemma get_char_spec L x y : get_char L x y = if inb L x y then rawL L (Z.to_nat x) (Z.to_nat y) else invisible.
Proof. unfold get_char. rewrite get_char_oob_inb. destruct (inb L x y); reflexivity. Qed.

Lemma get_char_leqv L1 L2 x y : leqv L1 L2 -> get_char L1 x y = get_char L2 x y.
Proof. intros [Hm Hr]. rewrite !get_char_spec, (inb_meta _ _ x y Hm), Hr. reflexivity. Qed.

(* can the cell be written by set_char? *)
Definition writable (L : layer) (x y : Z) : bool :=
  inb L x y && negb (set_char_refused (l_locked L) (l_visible L)) &&
  negb (set_char_alpha (l_has_alpha L) (l_alpha_locked L) && negb (cell_visible (get_char L x y))).

Definition at_pos (x' y' : nat) (x y : Z) : bool := ((x' =? Z.to_nat x) && (y' =? Z.to_nat y))%nat.

Lemma set_char_spec L x y c :
  meta (l_set_char L x y c) = meta L /\
  forall x' y', rawL (l_set_char L x y c) x' y' = if writable L x y && at_pos x' y' x y then c else rawL L x' y'.
Proof.
  unfold l_set_char, writable. rewrite set_char_oob_inb.
  destruct (inb L x y) eqn:Hin; cbn [negb andb]; [|split; reflexivity].
  destruct (set_char_refused (l_locked L) (l_visible L)); cbn [negb andb]; [split; reflexivity|].
  set (L1 := with_lines L (grow_lines (l_lines L) y (l_w L))).
  assert (HL1 : leqv L1 L).
  { split; [reflexivity|]. intros. unfold rawL, L1. cbn [l_lines with_lines]. apply raw_grow_lines. }
  rewrite (get_char_leqv _ _ x y HL1).
  destruct (set_char_alpha (l_has_alpha L) (l_alpha_locked L) && negb (cell_visible (get_char L x y))); cbn [negb andb].
  - split; [reflexivity|]. apply HL1.
  - split; [reflexivity|]. intros x' y'. unfold rawL. cbn [l_lines with_lines].
    apply inb_bounds in Hin. destruct Hin as (Hx & Hy & _ & _).
    rewrite raw_write_cell; [|exact Hx|apply grow_lines_length; exact Hy].
    unfold at_pos. destruct (_ && _)%bool; [reflexivity|]. apply raw_grow_lines.
Qed.

Lemma restore_char_spec L x y c :
  meta (l_restore_char L x y c) = meta L /\
  forall x' y', rawL (l_restore_char L x y c) x' y' = if inb L x y && at_pos x' y' x y then c else rawL L x' y'.
Proof.
  unfold l_restore_char. rewrite restore_char_oob_inb.
  destruct (inb L x y) eqn:Hin; cbn [negb andb]; [|split; reflexivity].
  split; [reflexivity|]. intros x' y'. unfold rawL. cbn [l_lines with_lines].
  apply inb_bounds in Hin. destruct Hin as (Hx & Hy & _ & _).
  rewrite raw_write_cell; [|exact Hx|apply grow_lines_length; exact Hy].
  unfold at_pos. destruct (_ && _)%bool; [reflexivity|]. apply raw_grow_lines.
Qed.

Lemma writable_leqv L1 L2 x y : leqv L1 L2 -> writable L1 x y = writable L2 x y.
Proof.
  intro H. unfold writable. rewrite (get_char_leqv _ _ x y H). destruct H as [Hm _].
  rewrite (inb_meta _ _ x y Hm). apply meta_fields in Hm. destruct Hm as (_&Hv&Hl&_&Ha&Hh&_). rewrite Hv, Hl, Ha, Hh. reflexivity.
Qed.

Lemma set_char_leqv L1 L2 x y c : leqv L1 L2 -> leqv (l_set_char L1 x y c) (l_set_char L2 x y c).
Proof.
  intro H. destruct (set_char_spec L1 x y c) as [M1 R1]. destruct (set_char_spec L2 x y c) as [M2 R2].
  split; [rewrite M1, M2; apply H|]. intros x' y'. rewrite R1, R2, (writable_leqv _ _ x y H). destruct H as [_ H]. rewrite H. reflexivity.
Qed.

Lemma restore_char_leqv L1 L2 x y c : leqv L1 L2 -> leqv (l_restore_char L1 x y c) (l_restore_char L2 x y c).
Proof.
  intro H. destruct (restore_char_spec L1 x y c) as [M1 R1]. destruct (restore_char_spec L2 x y c) as [M2 R2].
  split; [rewrite M1, M2; apply H|]. intros x' y'. rewrite R1, R2. destruct H as [Hm H]. rewrite (inb_meta _ _ x y Hm), H. reflexivity.
Qed.

Lemma can_set_char_spec L x y : l_can_set_char L x y = writable L x y.
Proof.
  unfold l_can_set_char, writable. rewrite can_set_oob_inb.
  destruct (inb L x y); cbn [negb andb]; [|reflexivity].
  unfold can_set_refused, set_char_refused, can_set_alpha, set_char_alpha.
  destruct (l_locked L || negb (l_visible L)); cbn [negb andb]; [reflexivity|].
  destruct (l_has_alpha L && l_alpha_locked L); cbn [negb andb orb]; [|reflexivity].
  destruct (cell_visible (get_char L x y)); reflexivity.
Qed.

(* ------------------------------------------------------------------ swap_char (all or nothing) is an involution *)
Lemma at_pos_inj x' y' x1 y1 x2 y2 : 0 <= x1 -> 0 <= y1 -> 0 <= x2 -> 0 <= y2 ->
  at_pos x' y' x1 y1 = true -> at_pos x' y' x2 y2 = true -> x1 = x2 /\ y1 = y2.
Proof.
  unfold at_pos. intros ? ? ? ? H1 H2. apply andb_prop in H1. apply andb_prop in H2.
  destruct H1 as [A1 B1], H2 as [A2 B2]. apply Nat.eqb_eq in A1, B1, A2, B2. lia.
Qed.

Lemma at_pos_self x y : at_pos (Z.to_nat x) (Z.to_nat y) x y = true.
Proof. unfold at_pos. rewrite !Nat.eqb_refl. reflexivity. Qed.

Lemma writable_inb L x y : writable L x y = true -> inb L x y = true.
Proof. unfold writable. intro H. apply andb_prop in H. destruct H as [H _]. apply andb_prop in H. apply H. Qed.

Lemma writable_meta_char L1 L2 x y : meta L1 = meta L2 -> get_char L1 x y = get_char L2 x y -> writable L1 x y = writable L2 x y.
Proof.
  intros Hm Hc. unfold writable. rewrite Hc, (inb_meta _ _ x y Hm). apply meta_fields in Hm.
  destruct Hm as (_&Hv&Hl&_&Ha&Hh&_). rewrite Hv, Hl, Ha, Hh. reflexivity.
Qed.

Lemma swap_char_spec L x1 y1 x2 y2 :
  meta (l_swap_char L x1 y1 x2 y2) = meta L /\
  forall x' y', rawL (l_swap_char L x1 y1 x2 y2) x' y' =
    if writable L x1 y1 && writable L x2 y2
    then (if at_pos x' y' x2 y2 then get_char L x1 y1 else if at_pos x' y' x1 y1 then get_char L x2 y2 else rawL L x' y')
    else rawL L x' y'.
Proof.
  unfold l_swap_char. rewrite !can_set_char_spec.
  destruct (writable L x1 y1) eqn:W1; cbn [negb orb andb]; [|split; reflexivity].
  destruct (writable L x2 y2) eqn:W2; cbn [negb orb andb]; [|split; reflexivity].
  set (L1 := l_set_char L x1 y1 (get_char L x2 y2)).
  destruct (set_char_spec L x1 y1 (get_char L x2 y2)) as [M1 R1]. fold L1 in M1, R1. rewrite W1 in R1. cbn [andb] in R1.
  destruct (set_char_spec L1 x2 y2 (get_char L x1 y1)) as [M2 R2].
  (* the second write is not refused: the cell it targets still reads as it did in L *)
  assert (W2' : writable L1 x2 y2 = true).
  { rewrite <- W2. apply writable_meta_char; [exact M1|].
    pose proof (writable_inb _ _ _ W2) as I2.
    rewrite !get_char_spec, (inb_meta L1 L x2 y2 M1), I2, R1.
    destruct (at_pos (Z.to_nat x2) (Z.to_nat y2) x1 y1); [|reflexivity].
    rewrite get_char_spec, I2. reflexivity. }
  rewrite W2' in R2. cbn [andb] in R2.
  split; [congruence|]. intros x' y'. rewrite R2. destruct (at_pos x' y' x2 y2); [reflexivity|]. apply R1.
Qed.

Lemma swap_char_leqv L1 L2 x1 y1 x2 y2 : leqv L1 L2 -> leqv (l_swap_char L1 x1 y1 x2 y2) (l_swap_char L2 x1 y1 x2 y2).
Proof.
  intro H. destruct (swap_char_spec L1 x1 y1 x2 y2) as [M1 R1]. destruct (swap_char_spec L2 x1 y1 x2 y2) as [M2 R2].
  split; [rewrite M1, M2; apply H|]. intros x' y'.
  rewrite R1, R2, (writable_leqv _ _ x1 y1 H), (writable_leqv _ _ x2 y2 H), (get_char_leqv _ _ x1 y1 H), (get_char_leqv _ _ x2 y2 H).
  destruct H as [_ H]. rewrite H. reflexivity.
Qed.

Lemma swap_char_involutive L x1 y1 x2 y2 : leqv (l_swap_char (l_swap_char L x1 y1 x2 y2) x1 y1 x2 y2) L.
Proof.
  set (S := l_swap_char L x1 y1 x2 y2).
  destruct (swap_char_spec L x1 y1 x2 y2) as [M1 R1]. fold S in M1, R1.
  destruct (swap_char_spec S x1 y1 x2 y2) as [M2 R2].
  split; [congruence|]. intros x' y'. rewrite R2.
  destruct (writable L x1 y1 && writable L x2 y2) eqn:W.
  - (* the swap happened; the swapped layer accepts the same two writes *)
    apply andb_prop in W. destruct W as [W1 W2].
    pose proof (writable_inb _ _ _ W1) as I1. pose proof (writable_inb _ _ _ W2) as I2.
    destruct (inb_bounds _ _ _ I1) as (Hx1 & Hy1 & _ & _). destruct (inb_bounds _ _ _ I2) as (Hx2 & Hy2 & _ & _).
    assert (G1 : get_char S x1 y1 = get_char L x2 y2 \/ (x1 = x2 /\ y1 = y2)).
    { rewrite get_char_spec, (inb_meta S L x1 y1 M1), I1, R1.
      destruct (at_pos (Z.to_nat x1) (Z.to_nat y1) x2 y2) eqn:E.
      - right. eapply at_pos_inj; eauto using at_pos_self.
      - left. rewrite at_pos_self. reflexivity. }
    assert (G2 : get_char S x2 y2 = get_char L x1 y1).
    { rewrite get_char_spec, (inb_meta S L x2 y2 M1), I2, R1, at_pos_self. reflexivity. }
    assert (G1' : get_char S x1 y1 = get_char L x2 y2).
    { destruct G1 as [G1|[-> ->]]; [exact G1|]. exact G2. }
    assert (WS : writable S x1 y1 && writable S x2 y2 = true).
    { unfold writable in *. rewrite (inb_meta S L x1 y1 M1), (inb_meta S L x2 y2 M1), G1', G2.
      pose proof M1 as M. apply meta_fields in M. destruct M as (_&Hv&Hl&_&Ha&Hh&_). rewrite Hv, Hl, Ha, Hh.
      apply andb_prop in W1. destruct W1 as [W1 A1]. apply andb_prop in W1. destruct W1 as [_ F1].
      apply andb_prop in W2. destruct W2 as [W2 A2]. apply andb_prop in W2. destruct W2 as [_ F2].
      rewrite I1, I2, F1, A1, A2. reflexivity. }
    rewrite WS, G1', G2.
    destruct (at_pos x' y' x2 y2) eqn:E2.
    + rewrite get_char_spec, I2. unfold at_pos in E2. apply andb_prop in E2. destruct E2 as [A B].
      apply Nat.eqb_eq in A, B. subst. reflexivity.
    + destruct (at_pos x' y' x1 y1) eqn:E1.
      * rewrite get_char_spec, I1. unfold at_pos in E1. apply andb_prop in E1. destruct E1 as [A B].
        apply Nat.eqb_eq in A, B. subst. reflexivity.
      * rewrite R1, E2, E1. reflexivity.
  - (* nothing happened *)
    assert (HS : leqv S L) by (split; [exact M1|exact R1]).
    rewrite (writable_leqv _ _ x1 y1 HS), (writable_leqv _ _ x2 y2 HS), W. apply R1.
Qed.

(* ------------------------------------------------------------------ restore = writing a snapshot back *)
Definition in_cells (w h : Z) (i j : Z) : bool := (0 <=? i) && (i <? w) && (0 <=? j) && (j <? h).

Lemma in_zrange n k : In k (zrange n) <-> 0 <= k < n.
Proof.
  unfold zrange. rewrite in_map_iff. split.
  - intros (m & <- & H). apply in_seq in H. lia.
  - intro H. exists (Z.to_nat k). split; [lia|]. apply in_seq. lia.
Qed.

Lemma in_cells_iff w h i j : In (i, j) (cells w h) <-> in_cells w h i j = true.
Proof.
  unfold cells, in_cells. rewrite in_flat_map. split.
  - intros (y & Hy & H). apply in_map_iff in H. destruct H as (x & E & Hx). injection E as <- <-.
    apply in_zrange in Hy. apply in_zrange in Hx.
    repeat (apply andb_true_intro; split); try apply Z.leb_le; try apply Z.ltb_lt; lia.
  - intro H. apply andb_prop in H. destruct H as [H H4]. apply andb_prop in H. destruct H as [H H3].
    apply andb_prop in H. destruct H as [H1 H2]. apply Z.leb_le in H1, H3. apply Z.ltb_lt in H2, H4.
    exists j. split; [apply in_zrange; lia|]. apply in_map_iff. exists i. split; [reflexivity|apply in_zrange; lia].
Qed.

(* folding restore_char over any list of source positions *)
Lemma restore_fold_spec (s : snap) tx ty : forall (l : list (Z * Z)) L,
  let L' := fold_left (fun L '(x, y) => l_restore_char L (x + tx) (y + ty) (snap_get s x y)) l L in
  meta L' = meta L /\
  forall x' y', rawL L' x' y' =
    if existsb (fun '(i, j) => inb L (i + tx) (j + ty) && at_pos x' y' (i + tx) (j + ty)) l
    then snap_get s (Z.of_nat x' - tx) (Z.of_nat y' - ty) else rawL L x' y'.
Proof.
  induction l as [|[i j] l IH]; intro L; cbn zeta; [split; reflexivity|].
  cbn [fold_left existsb]. set (L1 := l_restore_char L (i + tx) (j + ty) (snap_get s i j)).
  destruct (restore_char_spec L (i + tx) (j + ty) (snap_get s i j)) as [M1 R1]. fold L1 in M1, R1.
  destruct (IH L1) as [M2 R2]. cbn zeta in M2, R2.
  split; [congruence|]. intros x' y'. rewrite R2.
  assert (Hex : existsb (fun '(i0, j0) => inb L1 (i0 + tx) (j0 + ty) && at_pos x' y' (i0 + tx) (j0 + ty)) l =
                existsb (fun '(i0, j0) => inb L (i0 + tx) (j0 + ty) && at_pos x' y' (i0 + tx) (j0 + ty)) l).
  { clear -M1. induction l as [|[a b] l IHl]; [reflexivity|]. cbn [existsb]. rewrite IHl, (inb_meta L1 L _ _ M1). reflexivity. }
  rewrite Hex. match goal with |- context [existsb ?f l] => destruct (existsb f l) end; [rewrite orb_true_r; reflexivity|]. rewrite orb_false_r. rewrite R1.
  destruct (inb L (i + tx) (j + ty) && at_pos x' y' (i + tx) (j + ty)) eqn:E; [|reflexivity].
  apply andb_prop in E. destruct E as [Hin Hat]. apply inb_bounds in Hin. destruct Hin as (Hx & Hy & _ & _).
  unfold at_pos in Hat. apply andb_prop in Hat. destruct Hat as [A B]. apply Nat.eqb_eq in A, B.
  f_equal; lia.
Qed.

Lemma existsb_cells w h (L : layer) tx ty x' y' :
  existsb (fun '(i, j) => inb L (i + tx) (j + ty) && at_pos x' y' (i + tx) (j + ty)) (cells w h) =
  in_cells w h (Z.of_nat x' - tx) (Z.of_nat y' - ty) && inb L (Z.of_nat x') (Z.of_nat y').
Proof.
  apply eq_true_iff_eq. rewrite existsb_exists. split.
  - intros ([i j] & Hin & H). apply in_cells_iff in Hin. apply andb_prop in H. destruct H as [Hb Hat].
    pose proof (inb_bounds _ _ _ Hb) as (Hx & Hy & _ & _).
    unfold at_pos in Hat. apply andb_prop in Hat. destruct Hat as [A B]. apply Nat.eqb_eq in A, B.
    replace (Z.of_nat x' - tx) with i by lia. replace (Z.of_nat y' - ty) with j by lia.
    replace (Z.of_nat x') with (i + tx) by lia. replace (Z.of_nat y') with (j + ty) by lia.
    rewrite Hin, Hb. reflexivity.
  - intro H. apply andb_prop in H. destruct H as [Hc Hb].
    exists (Z.of_nat x' - tx, Z.of_nat y' - ty). split; [apply in_cells_iff; exact Hc|].
    replace (Z.of_nat x' - tx + tx) with (Z.of_nat x') by lia. replace (Z.of_nat y' - ty + ty) with (Z.of_nat y') by lia.
    rewrite Hb. unfold at_pos. rewrite !Nat2Z.id, !Nat.eqb_refl. reflexivity.
Qed.

Lemma restore_spec L tx ty (s : snap) :
  let '(w, h, _) := s in
  meta (l_restore L tx ty s) = meta L /\
  forall x' y', rawL (l_restore L tx ty s) x' y' =
    if in_cells w h (Z.of_nat x' - tx) (Z.of_nat y' - ty) && inb L (Z.of_nat x') (Z.of_nat y')
    then snap_get s (Z.of_nat x' - tx) (Z.of_nat y' - ty) else rawL L x' y'.
Proof.
  destruct s as [[w h] lines]. unfold l_restore.
  destruct (restore_fold_spec (w, h, lines) tx ty (cells w h) L) as [M R]. cbn zeta in M, R.
  split; [exact M|]. intros x' y'. rewrite R, existsb_cells. reflexivity.
Qed.

Lemma restore_leqv L1 L2 tx ty s : leqv L1 L2 -> leqv (l_restore L1 tx ty s) (l_restore L2 tx ty s).
Proof.
  intro H. pose proof (restore_spec L1 tx ty s) as S1. pose proof (restore_spec L2 tx ty s) as S2.
  destruct s as [[w h] lines]. destruct S1 as [M1 R1], S2 as [M2 R2].
  split; [rewrite M1, M2; apply H|]. intros x' y'. rewrite R1, R2. destruct H as [Hm H].
  rewrite (inb_meta _ _ _ _ Hm), H. reflexivity.
Qed.

(* ------------------------------------------------------------------ the snapshot frame of UndoLayerChange *)
Lemma nth_error_zrange n k : nth_error (zrange n) k = if (k <? Z.to_nat n)%nat then Some (Z.of_nat k) else None.
Proof.
  unfold zrange. rewrite nth_error_map. destruct (k <? Z.to_nat n)%nat eqn:E.
  - apply Nat.ltb_lt in E. rewrite (nth_error_nth' _ 0%nat) by (rewrite seq_length; exact E). rewrite seq_nth by exact E. reflexivity.
  - apply Nat.ltb_ge in E. assert (nth_error (seq 0 (Z.to_nat n)) k = None) as -> by (apply nth_error_None; rewrite seq_length; exact E).
    reflexivity.
Qed.

Lemma from_layer_get L ax ay aw ah s : from_layer L (ax, ay, aw, ah) = Ok s ->
  exists rows, s = (aw, ah, rows) /\ 0 <= aw /\ 0 <= ah /\
    forall i j, in_cells aw ah i j = true -> snap_get s i j = get_char L (ax + i) (ay + j).
Proof.
  unfold from_layer. destruct ((aw <? 0) || (ah <? 0)) eqn:E; [discriminate|]. intro H. injection H as <-.
  apply orb_false_elim in E. destruct E as [E1 E2]. apply Z.ltb_ge in E1, E2.
  eexists. split; [reflexivity|]. split; [exact E1|]. split; [exact E2|]. intros i j Hc.
  unfold snap_get. unfold in_cells in Hc. apply andb_prop in Hc. destruct Hc as [Hc H4]. apply andb_prop in Hc. destruct Hc as [Hc H3].
  apply andb_prop in Hc. destruct Hc as [H1 H2]. apply Z.leb_le in H1, H3. apply Z.ltb_lt in H2, H4.
  assert (Ho : get_char_oob i j aw ah = false).
  { unfold get_char_oob. rewrite oob_inb. apply negb_false_iff.
    repeat (apply andb_true_intro; split); try apply Z.leb_le; try apply Z.ltb_lt; lia. }
  rewrite Ho. unfold raw. rewrite nth_error_map, nth_error_zrange.
  replace (Z.to_nat j <? Z.to_nat ah)%nat with true by (symmetry; apply Nat.ltb_lt; lia). cbn [option_map].
  rewrite nth_error_map, nth_error_zrange.
  replace (Z.to_nat i <? Z.to_nat aw)%nat with true by (symmetry; apply Nat.ltb_lt; lia). cbn [option_map].
  rewrite !Z2Nat.id by lia. reflexivity.
Qed.

(* L' differs from L only in cells that are inside the area (given in layer coordinates) and inside the layer *)
Definition differs (L L' : layer) (a : rect) : Prop :=
  let '(ax, ay, aw, ah) := a in
  meta L' = meta L /\
  forall x y, in_cells aw ah (Z.of_nat x - ax) (Z.of_nat y - ay) && inb L (Z.of_nat x) (Z.of_nat y) = false -> rawL L' x y = rawL L x y.

Lemma differs_refl L a : differs L L a.
Proof. destruct a as [[[ax ay] aw] ah]. split; reflexivity. Qed.

Lemma differs_trans L L1 L2 a : differs L L1 a -> differs L1 L2 a -> differs L L2 a.
Proof.
  destruct a as [[[ax ay] aw] ah]. intros [M1 D1] [M2 D2]. split; [congruence|].
  intros x y H. rewrite D2; [apply D1; exact H|]. rewrite (inb_meta L1 L _ _ M1). exact H.
Qed.

Lemma set_char_differs L x y c ax ay aw ah : in_cells aw ah (x - ax) (y - ay) = true ->
  differs L (l_set_char L x y c) (ax, ay, aw, ah).
Proof.
  intro Hc. destruct (set_char_spec L x y c) as [M R]. split; [exact M|]. intros x' y' H. rewrite R.
  destruct (writable L x y && at_pos x' y' x y) eqn:E; [|reflexivity]. exfalso.
  apply andb_prop in E. destruct E as [W A]. apply writable_inb in W. pose proof (inb_bounds _ _ _ W) as (Hx & Hy & _ & _).
  unfold at_pos in A. apply andb_prop in A. destruct A as [A B]. apply Nat.eqb_eq in A, B.
  replace (Z.of_nat x') with x in H by lia. replace (Z.of_nat y') with y in H by lia. rewrite Hc, W in H. discriminate.
Qed.

Lemma frame_undo L L' ax ay aw ah old : differs L L' (ax, ay, aw, ah) -> from_layer L (ax, ay, aw, ah) = Ok old ->
  leqv (l_restore L' ax ay old) L.
Proof.
  intros [M D] Hf. destruct (from_layer_get _ _ _ _ _ _ Hf) as (rows & -> & Hw & Hh & Hg).
  pose proof (restore_spec L' ax ay (aw, ah, rows)) as [MR RR]. split; [congruence|]. intros x y. rewrite RR.
  rewrite (inb_meta L' L _ _ M).
  destruct (in_cells aw ah (Z.of_nat x - ax) (Z.of_nat y - ay) && inb L (Z.of_nat x) (Z.of_nat y)) eqn:E.
  - apply andb_prop in E. destruct E as [Ec Ei]. rewrite (Hg _ _ Ec), get_char_spec.
    replace (ax + (Z.of_nat x - ax)) with (Z.of_nat x) by lia. replace (ay + (Z.of_nat y - ay)) with (Z.of_nat y) by lia.
    rewrite Ei, !Nat2Z.id. reflexivity.
  - apply D. exact E.
Qed.

Lemma frame_redo L L' ax ay aw ah new : differs L L' (ax, ay, aw, ah) -> from_layer L' (ax, ay, aw, ah) = Ok new ->
  leqv (l_restore L ax ay new) L'.
Proof.
  intros [M D] Hf. destruct (from_layer_get _ _ _ _ _ _ Hf) as (rows & -> & Hw & Hh & Hg).
  pose proof (restore_spec L ax ay (aw, ah, rows)) as [MR RR]. split; [congruence|]. intros x y. rewrite RR.
  destruct (in_cells aw ah (Z.of_nat x - ax) (Z.of_nat y - ay) && inb L (Z.of_nat x) (Z.of_nat y)) eqn:E.
  - apply andb_prop in E. destruct E as [Ec Ei]. rewrite (Hg _ _ Ec), get_char_spec.
    replace (ax + (Z.of_nat x - ax)) with (Z.of_nat x) by lia. replace (ay + (Z.of_nat y - ay)) with (Z.of_nat y) by lia.
    rewrite (inb_meta L' L _ _ M), Ei, !Nat2Z.id. reflexivity.
  - symmetry. apply D. exact E.
Qed.

(* a whole-layer snapshot taken as a clone (erase_selection) *)
Lemma snap_of_layer_get L i j : snap_get (snap_of_layer L) i j = get_char L i j.
Proof. reflexivity. Qed.

Lemma clone_undo L L' : differs L L' (0, 0, l_w L, l_h L) -> leqv (l_restore L' 0 0 (snap_of_layer L)) L.
Proof.
  intros [M D]. pose proof (restore_spec L' 0 0 (snap_of_layer L)) as S. unfold snap_of_layer in S at 1. destruct S as [MR RR].
  split; [congruence|]. intros x y. rewrite RR, (inb_meta L' L _ _ M).
  destruct (in_cells (l_w L) (l_h L) (Z.of_nat x - 0) (Z.of_nat y - 0) && inb L (Z.of_nat x) (Z.of_nat y)) eqn:E.
  - apply andb_prop in E. destruct E as [_ Ei]. rewrite snap_of_layer_get, get_char_spec, !Z.sub_0_r, Ei, !Nat2Z.id. reflexivity.
  - apply D. exact E.
Qed.

Lemma clone_redo L L' : differs L L' (0, 0, l_w L, l_h L) -> leqv (l_restore L 0 0 (snap_of_layer L')) L'.
Proof.
  intros [M D]. pose proof (restore_spec L 0 0 (snap_of_layer L')) as S. unfold snap_of_layer in S at 1. destruct S as [MR RR].
  pose proof M as Mf. apply meta_fields in Mf. destruct Mf as (_&_&_&_&_&_&_&_&_&Hw&Hh&_).
  split; [congruence|]. intros x y. rewrite RR, Hw, Hh.
  destruct (in_cells (l_w L) (l_h L) (Z.of_nat x - 0) (Z.of_nat y - 0) && inb L (Z.of_nat x) (Z.of_nat y)) eqn:E.
  - apply andb_prop in E. destruct E as [_ Ei].
    rewrite snap_of_layer_get, get_char_spec, !Z.sub_0_r, (inb_meta L' L _ _ M), Ei, !Nat2Z.id. reflexivity.
  - symmetry. apply D. exact E.
Qed.

Lemma frame_sound L L' ax ay aw ah old new :
  differs L L' (ax, ay, aw, ah) -> from_layer L (ax, ay, aw, ah) = Ok old -> from_layer L' (ax, ay, aw, ah) = Ok new ->
  leqv (l_restore L' ax ay old) L /\ leqv (l_restore L ax ay new) L'.
Proof. intros. split; [eapply frame_undo|eapply frame_redo]; eauto. Qed.
