(* PETSCII (Model/Petscii.v): the C09 invariant is kept by every character, no character panics; stream theorems. *)
From Coq Require Import ZArith NArith List Bool Lia.
From IE Require Import Model.TermCore Model.AnsiTok Model.Emu Model.Petscii Proofs.TermProofs Proofs.AnsiProofs Proofs.EmuProofs
                       Proofs.WeakInv Proofs.AnsiSafeW Proofs.EmuSafeW.
Import ListNotations.
Local Open Scope Z_scope.

(* handle_reverse_mode: the screen code is at most 0x7F, so `ch + 0x80` never overflows a u8 *)
Lemma pet_tch_range : forall ch tch, pet_tch ch = Some tch -> 0 <= tch <= 127.
Proof.
  intros ch tch. unfold pet_tch.
  repeat match goal with |- (if ?c then _ else _) = _ -> _ => destruct c eqn:? end; intro H; inversion H; subst; lia.
Qed.
Lemma pet_reverse_ok : forall b ch tch, pet_tch ch = Some tch -> exists code, pet_reverse b tch = ROk code.
Proof.
  intros b ch tch H. apply pet_tch_range in H. unfold pet_reverse. destruct b; [|eexists; reflexivity].
  destruct (Z.gtb_spec (tch + 128) 255); [lia|eexists; reflexivity].
Qed.

(* ---- C09: the cursor invariant ------------------------------------------------------------------------------------------------ *)
Definition GoodP (o : mout) : Prop := match o with MOk m | MErr m => Inv09 (mt m) | _ => True end.
Lemma gp_ok : forall t m t', (Inv09 t -> Inv09 t') -> Inv09 t -> GoodP (mok m t').
Proof. intros t m t' H HI. cbn. auto. Qed.
Lemma gp_lift : forall t m r, (forall t', Inv09 t -> r = ROk t' -> Inv09 t') -> Inv09 t -> GoodP (mlift m r).
Proof. intros t m r H HI. unfold mlift. destruct r as [t'|s]; [|exact I]. cbn. eapply H; eauto. Qed.
Ltac pifs := repeat match goal with |- GoodP (if ?c then _ else _) => destruct c end.
Ltac pgok := eapply gp_ok; [|eassumption]; keep.
Ltac pglift := eapply gp_lift; [|eassumption]; lim.

Lemma petscii_step_good : forall m ch, Inv09 (mt m) -> GoodP (petscii_step m ch).
Proof.
  intros m c H. unfold petscii_step. set (ch := c mod 256). clearbody ch. destruct (ea m =? 1).
  - unfold pet_escape. change (mt (with_e m 0 (eb m) (ec m) (ed m))) with (mt m).
    pifs; first [ exact H | pgok | pglift ].
  - unfold pet_plain, pet_shift, set_foreground, print_value.
    pifs; first [ exact H | pgok | pglift | idtac ].
    destruct (pet_tch ch) as [tch|] eqn:E; [|exact H].
    destruct (pet_reverse_ok (eb m =? 1) ch tch E) as [code Ec]. rewrite Ec. pglift.
Qed.
Lemma run_petscii_good : forall cs m m', Inv09 (mt m) -> run_petscii m cs = RunOk m' -> Inv09 (mt m').
Proof.
  unfold run_petscii. induction cs as [|c r IH]; intros m m' H R; cbn in R; [inversion R; subst; exact H|].
  pose proof (petscii_step_good m c H) as G. destruct (petscii_step m c) as [m1|m1|s]; try discriminate; eapply IH; eauto.
Qed.
Lemma c09_petscii_proof : forall music bs w h cs m',
  1 <= w <= 132 -> 1 <= h <= 60 -> run_petscii (init music bs w h) cs = RunOk m' ->
  0 <= cx (mt m') < tw (mt m') /\ first (mt m') <= cy (mt m') < first (mt m') + th (mt m').
Proof.
  intros music bs w h cs m' Hw Hh R.
  pose proof (run_petscii_good cs (init music bs w h) m' (init_09 w h Hw Hh) R) as [_ [HX HY]]. split; [exact HX|exact HY].
Qed.

(* ---- C01: no character panics ------------------------------------------------------------------------------------------------------ *)
Lemma petscii_step_np : forall m ch, W (mt m) -> NPM (petscii_step m ch).
Proof.
  intros m c HW. unfold petscii_step. set (ch := c mod 256). clearbody ch. destruct (ea m =? 1).
  - unfold pet_escape. change (mt (with_e m 0 (eb m) (ec m) (ed m))) with (mt m).
    mwifs; first [ exact HW | mwok HW | mwlift HW ].
  - unfold pet_plain, pet_shift, set_foreground, print_value.
    mwifs; first [ exact HW | mwok HW | mwlift HW | idtac ].
    destruct (pet_tch ch) as [tch|] eqn:E; [|exact HW].
    destruct (pet_reverse_ok (eb m =? 1) ch tch E) as [code Ec]. rewrite Ec. mwlift HW.
Qed.
Lemma run_petscii_np : forall cs m, W (mt m) -> exists m', run_petscii m cs = RunOk m' /\ W (mt m').
Proof.
  unfold run_petscii. induction cs as [|c r IH]; intros m HW; cbn; [exists m; auto|].
  pose proof (petscii_step_np m c HW) as G. destruct (petscii_step m c) as [m1|m1|s]; try contradiction; apply IH; exact G.
Qed.
(* C01 for PETSCII, full strength: every stream of any length on every screen ends in a state *)
Lemma c01_petscii_proof : forall music bs w h cs,
  1 <= w <= 132 -> 1 <= h <= 60 -> exists m', run_petscii (init music bs w h) cs = RunOk m'.
Proof.
  intros music bs w h cs Hw Hh. destruct (run_petscii_np cs _ (init_W music bs w h Hw Hh)) as (m' & E & _). exists m'. exact E.
Qed.
(* the Avatar-free reading of Emu.run: run e = run_with (step e) *)
Lemma run_is_run_with : forall e cs m, run e m cs = run_with (step e) m cs.
Proof. intros e cs. induction cs as [|c r IH]; intro m; cbn; [reflexivity|]. destruct (step e m c); auto. Qed.
