(* Lemmas about Model/Font.v: round trips of the bitmap font encodings and totality of the loaders. *)
From Coq Require Import NArith ZArith List Lia Bool.
From IE Require Import Lib.Tbl Lib.C17Lib Gen.FontConsts Model.Font.
Import ListNotations.
Local Open Scope N_scope.

(* ------------------------------------------------------------------------------------------ specifications *)
(* every glyph has exactly h row bytes *)
Definition rows_ok (h : N) (gl : list (list N)) : Prop := Forall (fun g => lenN g = h) gl.

(* fonts the PSF2 round trip holds for: every glyph size the loaders accept since fix fB (width 1..=MAX_FONT_WIDTH = 8,
   height 1..=MAX_FONT_HEIGHT = 32; before the fix: any width / height below 2^31), up to MAX_GLYPHS (0xD800) glyphs *)
Definition dims_ok (f : font) : Prop :=
  (1 <= f_w f <= Z.of_N MAX_FONT_WIDTH)%Z /\ (1 <= f_h f <= Z.of_N MAX_FONT_HEIGHT)%Z.
Definition wf_psf2_font (f : font) : Prop :=
  (1 <= f_w f <= Z.of_N MAX_FONT_WIDTH)%Z /\ (1 <= f_h f <= Z.of_N MAX_FONT_HEIGHT)%Z /\ (0 <= f_len f <= Z.of_N MAX_GLYPHS)%Z /\
  lenN (f_glyphs f) = Z.to_N (f_len f) /\ rows_ok (Z.to_N (f_h f)) (f_glyphs f).

(* the fonts the property quantifies over: width 8, height 1..=32, 256 or 512 glyphs, arbitrary row bytes *)
Definition wf_font (f : font) : Prop :=
  f_w f = 8%Z /\ (1 <= f_h f <= 32)%Z /\ (f_len f = 256 \/ f_len f = 512)%Z /\
  lenN (f_glyphs f) = Z.to_N (f_len f) /\ rows_ok (Z.to_N (f_h f)) (f_glyphs f).

(* fonts of the raw 8 bit encodings (create_8, from_basic, DCS, XBin/ADF/IDF): 256 glyphs, the height is a u8 *)
Definition wf_raw_font (f : font) : Prop :=
  f_w f = 8%Z /\ (1 <= f_h f <= 255)%Z /\ f_len f = 256%Z /\
  lenN (f_glyphs f) = 256 /\ rows_ok (Z.to_N (f_h f)) (f_glyphs f).

(* from_bytes takes data that starts like this for a PSF1 / PSF2 file *)
Definition sniffs_as_psf (data : list N) : bool :=
  match data with
  | a :: b :: c :: d :: _ => (le16 [a; b] =? PSF1_MAGIC) || (le32 [a; b; c; d] =? PSF2_MAGIC)
  | _ => false
  end.

Lemma wf_font_psf2 f : wf_font f -> wf_psf2_font f.
Proof.
  intros (Hw & Hh & Hl & Hn & Hr). unfold wf_psf2_font, MAX_GLYPHS, MAX_FONT_WIDTH, MAX_FONT_HEIGHT. rewrite Hw.
  repeat split; try lia; try assumption; destruct Hl as [-> | ->]; lia.
Qed.

Lemma wf_font_raw f : wf_font f -> f_len f = 256%Z -> wf_raw_font f.
Proof.
  intros (Hw & Hh & Hl & Hn & Hr) E. unfold wf_raw_font. rewrite E in Hn.
  repeat split; try lia; assumption.
Qed.

(* ------------------------------------------------------------------------------------------ glyph chunking *)
Lemma rows_concat_len h gl : rows_ok h gl -> lenN (concat gl) = h * lenN gl.
Proof.
  induction 1 as [|g t Hg Ht IH]; [cbn; lia|].
  cbn [concat]. rewrite lenN_app, IH, lenN_cons, Hg. lia.
Qed.

Lemma glyph_loop_concat h gl : 0 < h -> rows_ok h gl ->
  forall fuel ch, (length gl <= fuel)%nat -> ch + lenN gl <= MAX_GLYPHS ->
  glyph_loop fuel h (lenN (concat gl)) (concat gl) ch = gl.
Proof.
  intros Hh Hr. induction Hr as [|g t Hg Ht IH]; intros fuel ch Hf Hc.
  - destruct fuel; [reflexivity|]. cbn [glyph_loop concat].
    replace (h =? 0) with false by (symmetry; apply N.eqb_neq; lia).
    replace (lenN (@nil N) <? h) with true by (symmetry; apply N.ltb_lt; cbn; lia).
    reflexivity.
  - destruct fuel as [|k]; [cbn in Hf; lia|].
    cbn [glyph_loop concat]. rewrite lenN_app, Hg. rewrite lenN_cons in Hc.
    replace (h =? 0) with false by (symmetry; apply N.eqb_neq; lia).
    replace (h + lenN (concat t) <? h) with false by (symmetry; apply N.ltb_ge; lia).
    replace (MAX_GLYPHS <=? ch) with false by (symmetry; apply N.leb_gt; lia).
    cbn [orb].
    assert (Hl : length g = N.to_nat h) by (unfold lenN in Hg; lia).
    rewrite <- Hl, firstn_app, Nat.sub_diag, firstn_all, skipn_app, Nat.sub_diag, skipn_all.
    cbn [firstn skipn app]. rewrite app_nil_r.
    replace (h + lenN (concat t) - h) with (lenN (concat t)) by lia.
    rewrite IH; [reflexivity | cbn in Hf; lia | lia].
Qed.

Lemma glyphs_from_concat h gl : 0 < h -> rows_ok h gl -> lenN gl <= MAX_GLYPHS ->
  glyphs_from_u8_data h (concat gl) = gl.
Proof.
  intros Hh Hr Hn. unfold glyphs_from_u8_data. apply glyph_loop_concat; try assumption; try lia.
  pose proof (rows_concat_len h gl Hr) as E. unfold lenN in *. nia.
Qed.

(* ------------------------------------------------------------------------------------------ header fields *)
Lemma u32_at_flat site vals : Forall (fun v => v < 4294967296) vals ->
  forall k body, (k < length vals)%nat ->
  u32_at site (flat_map u32le vals ++ body) (4 * k) = Ok (nth k vals 0).
Proof.
  induction 1 as [|v t Hv Ht IH]; intros k body Hk; [cbn in Hk; lia|].
  destruct k as [|k].
  - unfold u32_at. cbn [Nat.mul Nat.add skipn flat_map]. rewrite <- app_assoc.
    change (take site 4) with (take site (length (u32le v))). rewrite take_app.
    cbn [bind fst nth]. rewrite le32_u32le by assumption. reflexivity.
  - replace (4 * S k)%nat with (4 + 4 * k)%nat by lia.
    unfold u32_at. cbn [flat_map]. rewrite <- app_assoc.
    change (u32le v ++ flat_map u32le t ++ body)
      with (v mod 256 :: (v / 256) mod 256 :: (v / 65536) mod 256 :: (v / 16777216) mod 256 :: flat_map u32le t ++ body).
    cbn [Nat.add skipn nth]. apply IH. cbn in Hk. lia.
Qed.

Lemma flat_u32_len vals : lenN (flat_map u32le vals) = 4 * lenN vals.
Proof. induction vals as [|v t IH]; [reflexivity|]. cbn [flat_map]. rewrite lenN_app, IH, lenN_cons. change (lenN (u32le v)) with 4. lia. Qed.

Lemma as_i32_as_u32 z : (0 <= z < 2147483648)%Z -> as_i32 (as_u32 z) = z.
Proof. intro H. rewrite as_u32_small by lia. rewrite as_i32_small by lia. lia. Qed.

(* ------------------------------------------------------------------------------------------ the glyph loop of the writers *)
(* every code the loaders can produce is a char: the `char::from_u32` check in glyphs_from_u8_data never fails
   under its loop guard, and the writers find every glyph of a font with at most MAX_GLYPHS codes *)
Lemma max_glyphs_are_chars c : c < MAX_GLYPHS -> is_char c = true.
Proof.
  unfold MAX_GLYPHS, is_char. intro H.
  replace (c <? 55296) with true by (symmetry; apply N.ltb_lt; exact H). reflexivity.
Qed.

(* what the writers emit for the codes 0..k: the glyph where there is one, `h` zero rows where it is missing *)
Fixpoint pad_glyphs (gl : list (list N)) (k : nat) (h : Z) : list (list N) :=
  match k with
  | O => []
  | S k' => match gl with g :: _ => g | [] => repeat 0 (Z.to_nat h) end :: pad_glyphs (tl gl) k' h
  end.
Definition pad_font (f : font) : font :=
  mkFont (f_w f) (f_h f) (f_len f) (pad_glyphs (f_glyphs f) (Z.to_nat (f_len f)) (f_h f)).

Lemma pad_glyphs_all gl h : pad_glyphs gl (length gl) h = gl.
Proof. induction gl as [|g t IH]; [reflexivity|]. cbn [length pad_glyphs tl]. rewrite IH. reflexivity. Qed.

Lemma pad_glyphs_length h k : forall gl, length (pad_glyphs gl k h) = k.
Proof. induction k as [|k IH]; intro gl; [reflexivity|]. cbn [pad_glyphs length]. rewrite IH. reflexivity. Qed.

Lemma pad_glyphs_rows h k : (0 <= h)%Z -> forall gl, rows_ok (Z.to_N h) gl -> rows_ok (Z.to_N h) (pad_glyphs gl k h).
Proof.
  intro Hh. induction k as [|k IH]; intros gl Hr; [constructor|].
  cbn [pad_glyphs]. constructor.
  - destruct Hr as [|g t Hg Ht]; [|exact Hg]. unfold lenN. rewrite repeat_length. lia.
  - apply IH. destruct Hr as [|g t Hg Ht]; [constructor | exact Ht].
Qed.

Lemma pad_font_id f : lenN (f_glyphs f) = Z.to_N (f_len f) -> pad_font f = f.
Proof.
  destruct f as [w h len gl]. unfold pad_font. cbn [f_w f_h f_len f_glyphs]. intro Hn.
  replace (Z.to_nat len) with (length gl) by (unfold lenN in Hn; lia).
  rewrite pad_glyphs_all. reflexivity.
Qed.

Lemma glyph_bytes_pad h : (0 <= h)%Z -> forall k gl c, c + N.of_nat k <= MAX_GLYPHS ->
  glyph_bytes gl k c h = Ok (concat (pad_glyphs gl k h)).
Proof.
  intro Hh. induction k as [|k IH]; intros gl c Hc; [reflexivity|].
  cbn [glyph_bytes pad_glyphs concat].
  rewrite max_glyphs_are_chars by lia.
  unfold empty_glyph. replace (h <? 0)%Z with false by (symmetry; apply Z.ltb_ge; exact Hh).
  rewrite IH by lia.
  destruct gl; reflexivity.
Qed.

Lemma all_glyph_bytes_pad f : (0 <= f_h f)%Z -> (f_len f <= Z.of_N MAX_GLYPHS)%Z ->
  all_glyph_bytes f = Ok (concat (pad_glyphs (f_glyphs f) (Z.to_nat (f_len f)) (f_h f))).
Proof.
  intros Hh Hl. unfold all_glyph_bytes. destruct (Z.leb_spec (f_len f) 0) as [H0|H0].
  - replace (Z.to_nat (f_len f)) with O by lia. reflexivity.
  - apply glyph_bytes_pad; [exact Hh | lia].
Qed.

(* the writers return for EVERY glyph table, length and non-negative height (no unwrap, no unchecked char any more) *)
Lemma glyph_bytes_ok h : (0 <= h)%Z -> forall k gl c, exists bs, glyph_bytes gl k c h = Ok bs.
Proof.
  intro Hh. induction k as [|k IH]; intros gl c; [eexists; reflexivity|].
  cbn [glyph_bytes]. destruct (IH (tl gl) (c + 1)) as [r ->].
  unfold empty_glyph. replace (h <? 0)%Z with false by (symmetry; apply Z.ltb_ge; exact Hh).
  destruct gl as [|g t]; [|destruct (is_char c)]; eexists; reflexivity.
Qed.

Lemma all_glyph_bytes_ok f : (0 <= f_h f)%Z -> exists bs, all_glyph_bytes f = Ok bs.
Proof.
  intro Hh. unfold all_glyph_bytes. destruct (f_len f <=? 0)%Z; [eexists; reflexivity|].
  apply glyph_bytes_ok. exact Hh.
Qed.

Lemma to_psf2_bytes_total_proof f : (0 <= f_h f)%Z -> safe (to_psf2_bytes f).
Proof. intro Hh. unfold to_psf2_bytes. destruct (all_glyph_bytes_ok f Hh) as [bs ->]. exact I. Qed.

Lemma convert_total_proof f : (0 <= f_h f)%Z -> safe (convert_to_u8_data f).
Proof. intro Hh. unfold convert_to_u8_data. destruct (all_glyph_bytes_ok f Hh) as [bs ->]. exact I. Qed.

(* the only panic left in the writers: a negative height and a code without glyph *)
Lemma to_psf2_bytes_negative_height_refuted : exists f, to_psf2_bytes f = Panic 6 /\ convert_to_u8_data f = Panic 6.
Proof. exists (mkFont 8 (-1) 1 []). split; reflexivity. Qed.

(* ------------------------------------------------------------------------------------------ PSF2 round trip *)
(* fonts the PSF2 writer/loader pair is defined for, with ANY number of glyphs present: the loader returns the font
   padded with empty glyphs up to `length` (and cut at `length`) *)
Definition wf_psf2_partial (f : font) : Prop :=
  (1 <= f_w f <= Z.of_N MAX_FONT_WIDTH)%Z /\ (1 <= f_h f <= Z.of_N MAX_FONT_HEIGHT)%Z /\ (0 <= f_len f <= Z.of_N MAX_GLYPHS)%Z /\
  rows_ok (Z.to_N (f_h f)) (f_glyphs f).

Lemma from_bytes_psf2_magic rest : from_bytes (u32le PSF2_MAGIC ++ rest) = load_psf2 (u32le PSF2_MAGIC ++ rest).
Proof.
  unfold from_bytes.
  replace (lenN (u32le PSF2_MAGIC ++ rest) <? 4) with false
    by (symmetry; apply N.ltb_ge; rewrite lenN_app; change (lenN (u32le PSF2_MAGIC)) with 4; lia).
  change (u32le PSF2_MAGIC ++ rest) with (114 :: 181 :: 74 :: 134 :: rest).
  change (le16 [114; 181] =? PSF1_MAGIC) with false.
  change (le32 [114; 181; 74; 134] =? PSF2_MAGIC) with true.
  reflexivity.
Qed.

Lemma psf2_padded_proof f : wf_psf2_partial f ->
  exists bs, to_psf2_bytes f = Ok bs /\ from_bytes bs = Ok (pad_font f).
Proof.
  intros (Hw & Hh & Hl & Hr0). unfold MAX_FONT_WIDTH in Hw. unfold MAX_FONT_HEIGHT in Hh.
  destruct f as [w h len gl0]. unfold pad_font. cbn [f_w f_h f_len f_glyphs] in *.
  unfold to_psf2_bytes. rewrite all_glyph_bytes_pad by (cbn [f_h f_len]; lia).
  cbn [f_w f_h f_len f_glyphs bind].
  set (gl := pad_glyphs gl0 (Z.to_nat len) h).
  assert (Hn : lenN gl = Z.to_N len) by (unfold gl, lenN; rewrite pad_glyphs_length; lia).
  assert (Hr : rows_ok (Z.to_N h) gl) by (apply pad_glyphs_rows; [lia | exact Hr0]).
  clearbody gl. clear Hr0 gl0.
  eexists. split; [reflexivity|].
  rewrite from_bytes_psf2_magic.
  set (vals := [PSF2_MAGIC; 0; PSF2_HEADERSIZE; 0; as_u32 len; as_u32 h; as_u32 h; as_u32 w]).
  change (u32le PSF2_MAGIC ++ u32le 0 ++ u32le PSF2_HEADERSIZE ++ u32le 0 ++ u32le (as_u32 len) ++ u32le (as_u32 h)
          ++ u32le (as_u32 h) ++ u32le (as_u32 w) ++ concat gl) with (flat_map u32le vals ++ concat gl).
  assert (Hv : Forall (fun v => v < 4294967296) vals).
  { unfold vals, PSF2_MAGIC, PSF2_HEADERSIZE, MAX_GLYPHS in *. rewrite !as_u32_small by lia.
    repeat constructor; lia. }
  assert (Hlen : lenN (flat_map u32le vals ++ concat gl) = 32 + Z.to_N h * Z.to_N len).
  { rewrite lenN_app, flat_u32_len, (rows_concat_len _ _ Hr), Hn. reflexivity. }
  unfold load_psf2. rewrite Hlen.
  replace (32 + Z.to_N h * Z.to_N len <? 32) with false by (symmetry; apply N.ltb_ge; lia).
  rewrite (u32_at_flat 1 vals Hv 1) by (cbn; lia). cbn [bind nth vals].
  change (PSF2_MAXVERSION <? 0) with false. cbn [negb].
  rewrite (u32_at_flat 1 vals Hv 2) by (cbn; lia). cbn [bind nth vals].
  rewrite (u32_at_flat 1 vals Hv 4) by (cbn; lia). cbn [bind nth vals].
  rewrite (u32_at_flat 1 vals Hv 5) by (cbn; lia). cbn [bind nth vals].
  unfold MAX_GLYPHS in Hl.
  rewrite (as_u32_small len) by lia. rewrite (as_u32_small h) by lia.
  replace (Z.to_N len * Z.to_N h + PSF2_HEADERSIZE =? 32 + Z.to_N h * Z.to_N len) with true
    by (symmetry; apply N.eqb_eq; unfold PSF2_HEADERSIZE; lia).
  replace (MAX_GLYPHS <? Z.to_N len) with false by (symmetry; apply N.ltb_ge; unfold MAX_GLYPHS; lia).
  cbn [negb orb].
  rewrite (u32_at_flat 1 vals Hv 6) by (cbn; lia). cbn [bind nth vals].
  rewrite (u32_at_flat 1 vals Hv 7) by (cbn; lia). cbn [bind nth vals].
  rewrite (as_u32_small h) by lia. rewrite (as_u32_small w) by lia.
  replace (Z.to_N w =? 0) with false by (symmetry; apply N.eqb_neq; lia).
  replace (MAX_FONT_WIDTH <? Z.to_N w) with false by (symmetry; apply N.ltb_ge; unfold MAX_FONT_WIDTH; lia).
  replace (Z.to_N h =? 0) with false by (symmetry; apply N.eqb_neq; lia).
  replace (MAX_FONT_HEIGHT <? Z.to_N h) with false by (symmetry; apply N.ltb_ge; unfold MAX_FONT_HEIGHT; lia).
  cbn [orb]. rewrite N.eqb_refl. cbn [negb].
  change PSF2_HEADERSIZE with (lenN (flat_map u32le vals)). rewrite drop_app. cbn [bind].
  rewrite glyphs_from_concat; [| lia | assumption | unfold MAX_GLYPHS; lia].
  rewrite <- (as_u32_small h) by lia. rewrite <- (as_u32_small len) by lia. rewrite <- (as_u32_small w) by lia.
  rewrite !as_i32_as_u32 by lia. reflexivity.
Qed.

Lemma psf2_roundtrip_proof f : wf_psf2_font f ->
  exists bs, to_psf2_bytes f = Ok bs /\ from_bytes bs = Ok f.
Proof.
  intros (Hw & Hh & Hl & Hn & Hr).
  destruct (psf2_padded_proof f) as (bs & E1 & E2); [repeat split; assumption || lia|].
  exists bs. split; [exact E1|]. rewrite E2, pad_font_id by exact Hn. reflexivity.
Qed.

(* ------------------------------------------------------------------------------------------ raw round trip *)
Lemma convert_raw f : wf_raw_font f -> convert_to_u8_data f = Ok (concat (f_glyphs f)).
Proof.
  intros (Hw & Hh & Hl & Hn & Hr). unfold convert_to_u8_data.
  rewrite all_glyph_bytes_pad by (unfold MAX_GLYPHS; lia).
  rewrite Hl. replace (Z.to_nat 256) with (length (f_glyphs f)) by (unfold lenN in Hn; lia).
  rewrite pad_glyphs_all. reflexivity.
Qed.

Lemma create_8_concat f : wf_raw_font f -> create_8 8 (Z.to_N (f_h f)) (concat (f_glyphs f)) = f.
Proof.
  intros (Hw & Hh & Hl & Hn & Hr). destruct f as [w h len gl]. cbn [f_w f_h f_len f_glyphs] in *.
  unfold create_8. rewrite glyphs_from_concat; [| lia | assumption | rewrite Hn; unfold MAX_GLYPHS; lia].
  subst w len. rewrite Z2N.id by lia. reflexivity.
Qed.

Lemma raw_roundtrip_proof f : wf_raw_font f ->
  exists raw, convert_to_u8_data f = Ok raw /\ create_8 8 (Z.to_N (f_h f)) raw = f /\ from_basic 8 (Z.to_N (f_h f)) raw = f.
Proof.
  intro H. exists (concat (f_glyphs f)). split; [apply convert_raw; assumption|].
  split; [apply create_8_concat; assumption|]. apply (create_8_concat f H).
Qed.

(* a 256 glyph font with glyphs missing: the raw data is padded, the readers return the padded font *)
Definition wf_raw_partial (f : font) : Prop :=
  f_w f = 8%Z /\ (1 <= f_h f <= 255)%Z /\ f_len f = 256%Z /\ rows_ok (Z.to_N (f_h f)) (f_glyphs f).

Lemma pad_font_raw f : wf_raw_partial f -> wf_raw_font (pad_font f).
Proof.
  intros (Hw & Hh & Hl & Hr). unfold wf_raw_font, pad_font. cbn [f_w f_h f_len f_glyphs].
  repeat split; try assumption; try lia.
  - unfold lenN. rewrite pad_glyphs_length, Hl. reflexivity.
  - apply pad_glyphs_rows; [lia | exact Hr].
Qed.

Lemma raw_padded_proof f : wf_raw_partial f ->
  exists raw, convert_to_u8_data f = Ok raw /\ create_8 8 (Z.to_N (f_h f)) raw = pad_font f /\
              from_basic 8 (Z.to_N (f_h f)) raw = pad_font f.
Proof.
  intro H. pose proof (pad_font_raw f H) as Hp. destruct H as (Hw & Hh & Hl & Hr).
  exists (concat (f_glyphs (pad_font f))). split.
  - unfold convert_to_u8_data. apply all_glyph_bytes_pad; unfold MAX_GLYPHS; lia.
  - pose proof (create_8_concat _ Hp) as E. cbn [pad_font f_h] in E. split; exact E.
Qed.

(* loading raw data through from_bytes (the DCS path and the built-in .F08/.F14/.F16 files) *)
Lemma from_bytes_raw f : wf_raw_font f -> (f_h f <= Z.of_N MAX_FONT_HEIGHT)%Z -> sniffs_as_psf (concat (f_glyphs f)) = false ->
  from_bytes (concat (f_glyphs f)) = Ok f.
Proof.
  intros Hwf Hmax Hs. pose proof Hwf as (Hw & Hh & Hl & Hn & Hr). unfold MAX_FONT_HEIGHT in Hmax.
  destruct f as [w h len gl]. cbn [f_w f_h f_len f_glyphs] in *.
  pose proof (rows_concat_len _ _ Hr) as Hc. rewrite Hn in Hc.
  unfold from_bytes.
  replace (lenN (concat gl) <? 4) with false by (symmetry; apply N.ltb_ge; lia).
  remember (concat gl) as raw eqn:Eraw.
  destruct raw as [|a [|b [|c [|d rest]]]]; try (cbn in Hc; lia).
  cbn [sniffs_as_psf] in Hs. apply orb_false_iff in Hs. destruct Hs as [H1 H2]. rewrite H1, H2.
  unfold load_plain_font. rewrite Hc.
  replace ((Z.to_N h * 256) mod 256 =? 0) with true by (symmetry; apply N.eqb_eq; apply N.mod_mul; lia).
  cbn [negb]. rewrite N.div_mul by lia.
  replace (Z.to_N h =? 0) with false by (symmetry; apply N.eqb_neq; lia).
  replace (MAX_FONT_HEIGHT <? Z.to_N h) with false by (symmetry; apply N.ltb_ge; unfold MAX_FONT_HEIGHT; lia).
  cbn [orb].
  rewrite Eraw, glyphs_from_concat; [| lia | assumption | rewrite Hn; unfold MAX_GLYPHS; lia].
  rewrite as_i32_small by lia. rewrite Z2N.id by lia. subst w len. reflexivity.
Qed.

(* ------------------------------------------------------------------------------------------ decimal numbers *)
Definition dstep (a c : N) : N := a * 10 + (c - 48).
Definition is_digit (c : N) : Prop := 48 <= c <= 57.

Lemma fold_dstep_mono t : forall a, a <= fold_left dstep t a.
Proof. induction t as [|c t IH]; intro a; [cbn; lia|]. cbn [fold_left]. specialize (IH (dstep a c)). unfold dstep in *. lia. Qed.

Lemma parse_digits_value ds : Forall is_digit ds -> forall a,
  fold_left dstep ds a <= 18446744073709551615 -> parse_digits ds a = Some (fold_left dstep ds a).
Proof.
  induction 1 as [|c t Hc Ht IH]; intros a Hm; [reflexivity|].
  cbn [parse_digits fold_left] in *. unfold is_digit in Hc.
  replace ((48 <=? c) && (c <=? 57)) with true
    by (symmetry; apply andb_true_iff; split; apply N.leb_le; lia).
  pose proof (fold_dstep_mono t (dstep a c)) as Hmono.
  fold (dstep a c).
  replace (18446744073709551615 <? dstep a c) with false by (symmetry; apply N.ltb_ge; lia).
  apply IH. assumption.
Qed.

Lemma digits_fuel_acc fuel : forall n acc, digits_fuel fuel n acc = digits_fuel fuel n [] ++ acc.
Proof.
  induction fuel as [|k IH]; intros n acc; [reflexivity|].
  cbn [digits_fuel]. destruct (n <? 10); [reflexivity|].
  rewrite (IH (n / 10) (_ :: acc)), (IH (n / 10) [_]), <- app_assoc. reflexivity.
Qed.

Lemma mod10_digit n : is_digit (48 + n mod 10).
Proof. unfold is_digit. assert (H : n mod 10 < 10) by (apply N.mod_lt; discriminate). revert H. generalize (n mod 10). intros; lia. Qed.

Lemma digits_fuel_spec fuel : forall n, n < 10 ^ N.of_nat fuel ->
  Forall is_digit (digits_fuel fuel n []) /\ fold_left dstep (digits_fuel fuel n []) 0 = n.
Proof.
  induction fuel as [|k IH]; intros n Hn.
  - cbn in Hn. assert (n = 0) by lia. subst. split; [constructor | reflexivity].
  - pose proof (mod10_digit n) as Hd.
    cbn [digits_fuel]. destruct (N.ltb_spec n 10) as [Hs|Hs].
    + split; [constructor; [assumption | constructor]|]. cbn [fold_left]. unfold dstep. rewrite N.mod_small by lia. lia.
    + rewrite digits_fuel_acc.
      assert (Hq : n / 10 < 10 ^ N.of_nat k).
      { apply N.div_lt_upper_bound; [lia|]. rewrite Nat2N.inj_succ, N.pow_succ_r' in Hn. lia. }
      destruct (IH _ Hq) as [F V]. split.
      * apply Forall_app. split; [assumption | constructor; [assumption | constructor]].
      * rewrite fold_left_app, V. cbn [fold_left]. unfold dstep.
        assert (E : n = 10 * (n / 10) + n mod 10) by (apply N.div_mod; discriminate).
        revert E. generalize (n / 10) (n mod 10). intros; lia.
Qed.

Lemma digits_fuel_nonempty k n acc : exists c t, digits_fuel (S k) n acc = c :: t.
Proof.
  cbn [digits_fuel]. destruct (n <? 10); [eauto|].
  rewrite digits_fuel_acc. destruct (digits_fuel k (n / 10) []); cbn [app]; eauto.
Qed.

Lemma dec_digits_nonempty n : exists c t, dec_digits n = c :: t.
Proof. exact (digits_fuel_nonempty 19 n []). Qed.

Lemma parse_dec_digits n : n < 18446744073709551616 -> parse_usize (dec_digits n) = Some n.
Proof.
  intro Hn.
  assert (E20 : 10 ^ N.of_nat 20 = 100000000000000000000) by (vm_compute; reflexivity).
  destruct (digits_fuel_spec 20 n) as [F V]; [rewrite E20; lia|]. clear E20.
  fold (dec_digits n) in F, V.
  destruct (dec_digits_nonempty n) as (c & t & E).
  unfold parse_usize. rewrite E. rewrite E in F.
  assert (Hc : is_digit c) by (inversion F; assumption).
  replace (c =? 43) with false by (symmetry; apply N.eqb_neq; unfold is_digit in Hc; lia).
  rewrite <- E in *. rewrite parse_digits_value; [rewrite V; reflexivity | assumption | rewrite V; lia].
Qed.

Lemma digits_fuel_no_colon fuel : forall m acc,
  Forall (fun c : N => c <> 58) acc -> Forall (fun c : N => c <> 58) (digits_fuel fuel m acc).
Proof.
  induction fuel as [|k IH]; intros m acc Hacc; [assumption|]. cbn [digits_fuel].
  assert (48 + m mod 10 <> 58) by (pose proof (mod10_digit m) as D; unfold is_digit in D; revert D; generalize (m mod 10); intros; lia).
  destruct (m <? 10); [constructor; assumption|]. apply IH. constructor; assumption.
Qed.

Lemma dec_digits_no_colon n : Forall (fun c => c <> 58) (dec_digits n).
Proof. apply digits_fuel_no_colon. constructor. Qed.

(* ------------------------------------------------------------------------------------------ DCS font loading *)
Lemma strip_prefix_app p s : strip_prefix p (p ++ s) = Some s.
Proof. induction p as [|x p IH]; [destruct s; reflexivity|]. cbn [app strip_prefix]. rewrite N.eqb_refl. exact IH. Qed.

Lemma split_colon_app a b : Forall (fun c => c <> 58) a -> split_colon (a ++ 58 :: b) = Some (a, b).
Proof.
  induction 1 as [|c t Hc Ht IH]; [reflexivity|].
  cbn [app split_colon]. replace (c =? 58) with false by (symmetry; apply N.eqb_neq; assumption).
  rewrite IH. reflexivity.
Qed.

Section Dcs.
  Variable b64_enc : list N -> list N.
  Variable b64_dec : list N -> option (list N).
  Hypothesis b64_inverse : forall x, b64_dec (b64_enc x) = Some x.

  Lemma load_dcs_string slot raw : slot < 18446744073709551616 ->
    load_custom_font b64_dec (dcs_string b64_enc slot raw) =
      match from_bytes raw with
      | Ok f => Ok (slot, f) | Err _ => Err E_DCS_FONT | Panic s => Panic s | Diverge => Diverge
      end.
  Proof.
    intro Hs. unfold load_custom_font, dcs_string.
    rewrite strip_prefix_app.
    change (dec_digits slot ++ [58] ++ b64_enc raw) with (dec_digits slot ++ 58 :: b64_enc raw).
    rewrite split_colon_app by apply dec_digits_no_colon.
    rewrite parse_dec_digits by assumption. rewrite b64_inverse. reflexivity.
  Qed.

  Lemma dcs_roundtrip_proof slot f : wf_raw_font f -> (f_h f <= Z.of_N MAX_FONT_HEIGHT)%Z -> slot < 18446744073709551616 ->
    exists raw, convert_to_u8_data f = Ok raw /\
      (sniffs_as_psf raw = false -> load_custom_font b64_dec (dcs_string b64_enc slot raw) = Ok (slot, f)).
  Proof.
    intros Hwf Hmax Hs. exists (concat (f_glyphs f)). split; [apply convert_raw; assumption|].
    intro Hn. rewrite load_dcs_string by assumption. rewrite from_bytes_raw by assumption. reflexivity.
  Qed.

  Lemma dcs_roundtrip_full slot f : wf_raw_font f -> (f_h f <= Z.of_N MAX_FONT_HEIGHT)%Z -> slot < 18446744073709551616 ->
    exists raw, convert_to_u8_data f = Ok raw /\
      encode_as_ansi b64_enc slot f = Ok ([27; 80] ++ dcs_string b64_enc slot raw ++ [27; 92]) /\
      (sniffs_as_psf raw = false -> load_custom_font b64_dec (dcs_string b64_enc slot raw) = Ok (slot, f)).
  Proof.
    intros Hwf Hmax Hs. destruct (dcs_roundtrip_proof slot f Hwf Hmax Hs) as (raw & E & R).
    exists raw. split; [exact E|]. split; [|exact R].
    unfold encode_as_ansi. rewrite E. reflexivity.
  Qed.
End Dcs.

(* the excluded class is not empty: a raw 8x1 font whose first rows are 36 04 00 01 loads as a 252 glyph PSF1 font *)
Definition collision_font : font :=
  mkFont 8 1 256 ([54] :: [4] :: [0] :: [1] :: map (fun i => [i]) (nrange 252)).

Lemma collision_font_wf : wf_raw_font collision_font.
Proof.
  unfold wf_raw_font, collision_font. cbn [f_w f_h f_len f_glyphs].
  repeat split; try lia; try reflexivity.
  unfold rows_ok. apply Forall_forall. intros g Hg.
  repeat (destruct Hg as [<- | Hg]; [reflexivity|]).
  apply in_map_iff in Hg. destruct Hg as (i & <- & _). reflexivity.
Qed.

Lemma collision_font_sniffs : sniffs_as_psf (concat (f_glyphs collision_font)) = true.
Proof. reflexivity. Qed.

Lemma collision_font_loads :
  exists f', from_bytes (concat (f_glyphs collision_font)) = Ok f' /\ lenN (f_glyphs f') = 252 /\ f' <> collision_font.
Proof.
  eexists. split; [vm_compute; reflexivity|]. split; [reflexivity|]. intro E. discriminate E.
Qed.

Lemma dcs_collision_proof :
  exists f, wf_raw_font f /\ exists raw, convert_to_u8_data f = Ok raw /\ sniffs_as_psf raw = true /\
    forall (b64_enc : list N -> list N) (b64_dec : list N -> option (list N)),
      (forall x, b64_dec (b64_enc x) = Some x) -> forall slot, slot < 18446744073709551616 ->
      exists f', load_custom_font b64_dec (dcs_string b64_enc slot raw) = Ok (slot, f') /\ f' <> f.
Proof.
  exists collision_font. split; [exact collision_font_wf|].
  exists (concat (f_glyphs collision_font)). split; [apply convert_raw; exact collision_font_wf|].
  split; [exact collision_font_sniffs|].
  intros enc dec Hinv slot Hs. destruct collision_font_loads as (f' & E & _ & Hne).
  exists f'. split; [|exact Hne]. rewrite (load_dcs_string enc dec Hinv) by assumption. rewrite E. reflexivity.
Qed.

(* ------------------------------------------------------------------------------------------ embedded slots *)
Lemma xbin_embed_proof f : wf_raw_font f -> (f_h f <= 32)%Z ->
  exists slot, xbin_font_write f = Ok slot /\ lenN slot = 256 * Z.to_N (f_h f) /\ xbin_font_read (Z.to_N (f_h f)) slot = f.
Proof.
  intros H _. exists (concat (f_glyphs f)). split; [apply convert_raw; assumption|].
  split; [|apply create_8_concat; assumption].
  destruct H as (_ & _ & _ & Hn & Hr). rewrite (rows_concat_len _ _ Hr), Hn. lia.
Qed.

Lemma adf_embed_proof f : wf_raw_font f -> f_h f = 16%Z ->
  exists slot, adf_font_write f = Ok slot /\ lenN slot = 4096 /\ adf_font_read slot = f.
Proof.
  intros H Hh. exists (concat (f_glyphs f)). split; [apply convert_raw; assumption|].
  split.
  - destruct H as (_ & _ & _ & Hn & Hr). rewrite (rows_concat_len _ _ Hr), Hn, Hh. reflexivity.
  - pose proof (create_8_concat f H) as E. rewrite Hh in E. exact E.
Qed.

Lemma icy_embed_proof name f : wf_psf2_font f -> lenN name < 4294967296 ->
  exists chunk, icy_font_write name f = Ok chunk /\ icy_font_read chunk = Ok (name, f).
Proof.
  intros H Hn. destruct (psf2_roundtrip_proof f H) as (bs & E1 & E2).
  unfold icy_font_write. rewrite E1. cbn [bind]. eexists. split; [reflexivity|].
  unfold icy_font_read. rewrite N.mod_small by assumption.
  change (take 7 4) with (take 7 (length (u32le (lenN name)))). rewrite take_app. cbn [bind fst snd].
  rewrite le32_u32le by assumption.
  replace (lenN (name ++ bs) <? lenN name) with false by (symmetry; apply N.ltb_ge; rewrite lenN_app; lia).
  cbn [bind]. unfold lenN. rewrite Nat2N.id.
  rewrite skipn_app, Nat.sub_diag, skipn_all, firstn_app, Nat.sub_diag, firstn_all. cbn [skipn firstn app].
  rewrite app_nil_r, E2. reflexivity.
Qed.

(* ------------------------------------------------------------------------------------------ totality *)
Lemma u32_at_ok site data k : (k + 4 <= length data)%nat -> exists v, u32_at site data k = Ok v.
Proof.
  intro H. unfold u32_at. rewrite take_ok by (rewrite skipn_length; lia). cbn [bind fst]. eauto.
Qed.

Lemma load_psf2_total data : safe (load_psf2 data).
Proof.
  unfold load_psf2. destruct (N.ltb_spec (lenN data) 32) as [H|H]; [exact I|].
  assert (L : (32 <= length data)%nat) by (unfold lenN in H; lia).
  destruct (u32_at_ok 1 data 4) as [v E]; [lia|]. rewrite E. cbn [bind].
  destruct (PSF2_MAXVERSION <? v); [exact I|].
  destruct (u32_at_ok 1 data 8) as [hs Ehs]; [lia|]. rewrite Ehs. cbn [bind].
  destruct (u32_at_ok 1 data 16) as [ln Eln]; [lia|]. rewrite Eln. cbn [bind].
  destruct (u32_at_ok 1 data 20) as [cs Ecs]; [lia|]. rewrite Ecs. cbn [bind].
  destruct (negb (ln * cs + hs =? lenN data) || (MAX_GLYPHS <? ln)) eqn:C; [exact I|].
  apply orb_false_iff in C. destruct C as [C _]. apply negb_false_iff, N.eqb_eq in C.
  destruct (u32_at_ok 1 data 24) as [hh Ehh]; [lia|]. rewrite Ehh. cbn [bind].
  destruct (u32_at_ok 1 data 28) as [ww Eww]; [lia|]. rewrite Eww. cbn [bind].
  destruct (_ || _); [exact I|]. destruct (negb (cs =? hh)); [exact I|].
  unfold drop. replace (lenN data <? hs) with false by (symmetry; apply N.ltb_ge; lia).
  exact I.
Qed.

Lemma from_bytes_total_proof data : safe (from_bytes data).
Proof.
  unfold from_bytes. destruct (N.ltb_spec (lenN data) 4) as [H|H]; [exact I|].
  destruct data as [|a [|b [|c [|d rest]]]]; try (cbn in H; lia).
  destruct (le16 [a; b] =? PSF1_MAGIC); [unfold load_psf1; destruct (_ || _); exact I|].
  destruct (le32 [a; b; c; d] =? PSF2_MAGIC); [apply load_psf2_total|].
  unfold load_plain_font. destruct (_ || _); exact I.
Qed.

Lemma dcs_total_proof (b64_dec : list N -> option (list N)) s : safe (load_custom_font b64_dec s).
Proof.
  unfold load_custom_font.
  destruct (strip_prefix CTERM_FONT s); [|exact I].
  destruct (split_colon l) as [[num payload]|]; [|exact I].
  destruct (parse_usize num); [|exact I].
  destruct (b64_dec payload) as [data|]; [|exact I].
  pose proof (from_bytes_total_proof data) as T. destruct (from_bytes data); try exact I; exact T.
Qed.

(* ------------------------------------------------------------------------------------------ fix fB: glyph size of a loaded font *)
(* every font from_bytes returns (PSF1, PSF2 or raw data) has a glyph size of 1..=MAX_FONT_WIDTH x 1..=MAX_FONT_HEIGHT:
   no width / height 0 (division by zero in the sixel epilogue of parse_with_parser), none >= 2^30 (overflow of
   `position * font_dims`), none that becomes negative as an i32 (Layer::new) *)
Ltac bind_ok E :=
  match type of E with
  | bind ?r _ = Ok _ => let v := fresh "v" in destruct r as [v| | |]; cbn [bind] in E; try discriminate E
  end.

Lemma load_psf2_dims data f : load_psf2 data = Ok f -> dims_ok f.
Proof.
  unfold load_psf2. intro E.
  destruct (lenN data <? 32); [discriminate E|].
  bind_ok E. destruct (PSF2_MAXVERSION <? v); [discriminate E|].
  bind_ok E. bind_ok E. bind_ok E.
  destruct (negb _ || _); [discriminate E|].
  bind_ok E. bind_ok E.
  destruct (N.eqb_spec v4 0) as [?|Hw0]; [discriminate E|].
  destruct (N.ltb_spec MAX_FONT_WIDTH v4) as [?|Hw1]; [discriminate E|].
  destruct (N.eqb_spec v3 0) as [?|Hh0]; [discriminate E|].
  destruct (N.ltb_spec MAX_FONT_HEIGHT v3) as [?|Hh1]; [discriminate E|].
  cbn [orb] in E. destruct (negb _); [discriminate E|].
  bind_ok E. injection E as <-. unfold dims_ok. cbn [f_w f_h].
  unfold MAX_FONT_WIDTH, MAX_FONT_HEIGHT in *. rewrite !as_i32_small by lia. lia.
Qed.

Lemma loaded_font_dims_proof data f : from_bytes data = Ok f -> dims_ok f.
Proof.
  unfold from_bytes. intro E. destruct (lenN data <? 4); [discriminate E|].
  destruct data as [|a [|b [|c [|d rest]]]]; try discriminate E.
  destruct (le16 [a; b] =? PSF1_MAGIC).
  - unfold load_psf1 in E.
    destruct (N.eqb_spec d 0) as [?|H0]; [discriminate E|].
    destruct (N.ltb_spec MAX_FONT_HEIGHT d) as [?|H1]; [discriminate E|].
    cbn [orb] in E. injection E as <-. unfold dims_ok, MAX_FONT_WIDTH, MAX_FONT_HEIGHT in *. cbn [f_w f_h]. lia.
  - destruct (le32 [a; b; c; d] =? PSF2_MAGIC); [exact (load_psf2_dims _ _ E)|].
    unfold load_plain_font in E. cbv zeta in E. destruct (negb _); [discriminate E|]. cbn [orb] in E.
    revert E. generalize (lenN (a :: b :: c :: d :: rest) / 256). intros hh E.
    destruct (N.eqb_spec hh 0) as [?|H0]; [discriminate E|].
    destruct (N.ltb_spec MAX_FONT_HEIGHT hh) as [?|H1]; [discriminate E|].
    cbn [orb] in E. injection E as <-. unfold dims_ok, MAX_FONT_WIDTH, MAX_FONT_HEIGHT in *. cbn [f_w f_h].
    rewrite as_i32_small by lia. lia.
Qed.

(* the same through the DCS string: the font a `CTerm:Font:<slot>:<base64>` string installs *)
Lemma dcs_font_dims_proof (b64_dec : list N -> option (list N)) s slot f :
  load_custom_font b64_dec s = Ok (slot, f) -> dims_ok f.
Proof.
  unfold load_custom_font. intro E.
  destruct (strip_prefix CTERM_FONT s); [|discriminate E].
  destruct (split_colon l) as [[num payload]|]; [|discriminate E].
  destruct (parse_usize num); [|discriminate E].
  destruct (b64_dec payload) as [data|]; [|discriminate E].
  destruct (from_bytes data) as [g| | |] eqn:F; try discriminate E.
  injection E as _ <-. exact (loaded_font_dims_proof _ _ F).
Qed.

(* the loader BEFORE fix fB (finding C02-sixel-font0): width and height were taken from the header unchecked, and any
   charsize went through as long as length * charsize + headersize was the file length *)
Definition load_psf2_before_fix (data : list N) : res font :=
  let n := lenN data in
  if n <? 32 then Err E_LENGTH else
  do version <- u32_at 1 data 4;
  if PSF2_MAXVERSION <? version then Err E_VERSION else
  do headersize <- u32_at 1 data 8;
  do length <- u32_at 1 data 16;
  do charsize <- u32_at 1 data 20;
  if negb (length * charsize + headersize =? n) || (MAX_GLYPHS <? length) then Err E_LENGTH else
  do height <- u32_at 1 data 24;
  do width <- u32_at 1 data 28;
  do rest <- drop 3 headersize data;
  Ok (mkFont (as_i32 width) (as_i32 height) (as_i32 length) (glyphs_from_u8_data height rest)).

(* a bare PSF2 header (no glyphs): magic, version 0, headersize 32, flags 0, length 0, charsize 0, height, width *)
Definition psf2_header (h w : N) : list N :=
  u32le PSF2_MAGIC ++ u32le 0 ++ u32le PSF2_HEADERSIZE ++ u32le 0 ++ u32le 0 ++ u32le 0 ++ u32le h ++ u32le w.

Lemma psf2_dims_before_fix_refuted_proof :
  load_psf2_before_fix (psf2_header 16 0) = Ok (mkFont 0 16 0 []) /\
  load_psf2_before_fix (psf2_header 0 8) = Ok (mkFont 8 0 0 []) /\
  load_psf2_before_fix (psf2_header 16 1073741824) = Ok (mkFont 1073741824 16 0 []) /\
  load_psf2_before_fix (psf2_header 4294967295 4294967295) = Ok (mkFont (-1) (-1) 0 []).
Proof. repeat split; vm_compute; reflexivity. Qed.

Lemma psf2_dims_after_fix_proof :
  from_bytes (psf2_header 16 0) = Err E_SIZE /\ from_bytes (psf2_header 0 8) = Err E_SIZE /\
  from_bytes (psf2_header 16 1073741824) = Err E_SIZE /\ from_bytes (psf2_header 4294967295 4294967295) = Err E_SIZE /\
  from_bytes [54; 4; 0; 0] = Err E_SIZE /\                       (* PSF1, charsize 0 *)
  from_bytes (psf2_header 16 8) = Err E_LENGTH /\                (* charsize 0 <> height 16 *)
  from_bytes (psf2_header 16 8 ++ repeat 0 32) = Err E_LENGTH.   (* length * charsize + headersize <> file length *)
Proof. repeat split; vm_compute; reflexivity. Qed.

(* create_8 / from_basic return a font for every input (the model functions are total and never panic);
   what they return for ragged data is the complete glyphs only *)
Lemma glyph_loop_rows fuel : forall h n data ch, n = lenN data -> rows_ok h (glyph_loop fuel h n data ch).
Proof.
  induction fuel as [|k IH]; intros h n data ch Hn; [constructor|].
  cbn [glyph_loop]. destruct (N.eqb_spec h 0) as [H0|H0]; [constructor|].
  destruct (N.ltb_spec n h) as [H1|H1]; [constructor|].
  destruct (MAX_GLYPHS <=? ch); [constructor|]. cbn [orb].
  constructor.
  - unfold lenN in *. rewrite firstn_length. lia.
  - apply IH. unfold lenN in *. rewrite skipn_length. lia.
Qed.

Lemma create_8_rows_proof w h data : rows_ok h (f_glyphs (create_8 w h data)).
Proof. unfold create_8, glyphs_from_u8_data. cbn [f_glyphs]. apply glyph_loop_rows. reflexivity. Qed.

Lemma known_1_witness_proof :
  exists f, wf_raw_font f /\ exists raw, convert_to_u8_data f = Ok raw /\ sniffs_as_psf raw = true.
Proof.
  exists collision_font. split; [exact collision_font_wf|].
  exists (concat (f_glyphs collision_font)). split; [apply convert_raw; exact collision_font_wf | exact collision_font_sniffs].
Qed.

(* ------------------------------------------------------------------------------------------ samples *)
Lemma sample_rows len (F : N -> list N) : (forall i, lenN (F i) = 2) -> rows_ok 2 (map F (nrange len)).
Proof. intro H. unfold rows_ok. apply Forall_forall. intros g Hg. apply in_map_iff in Hg. destruct Hg as (i & <- & _). apply H. Qed.

Lemma nrange_aux_length k : forall s, length (nrange_aux k s) = k.
Proof. induction k as [|k IH]; intro s; [reflexivity|]. cbn [nrange_aux length]. rewrite IH. reflexivity. Qed.

Lemma sample_font_wf_gen len (F : N -> list N) : (len = 256 \/ len = 512) -> (forall i, lenN (F i) = 2) ->
  wf_font (mkFont 8 2 (Z.of_N len) (map F (nrange len))).
Proof.
  intros Hl HF. unfold wf_font. cbn [f_w f_h f_len f_glyphs].
  split; [reflexivity|]. split; [lia|]. split; [destruct Hl as [-> | ->]; [left | right]; reflexivity|].
  split.
  - unfold lenN, nrange. rewrite map_length, nrange_aux_length. lia.
  - apply sample_rows. exact HF.
Qed.
