(* The RIP parser as a whole (Model/RipStream.v): tokenizer invariant + kernel invariant are kept by every character of every
   stream, whatever the wrapped ansi parser does; no panic site is reached. *)
From Coq Require Import NArith ZArith List Bool Lia Arith.
From IE Require Import Gen.RipGen Model.RipTok Model.BgiKernel Model.RipStream Proofs.RipTokProofs Proofs.BgiProofs.
Import ListNotations.
Local Open Scope Z_scope.

(* commands whose run reads their fields (or clears with the state as it is) *)
Definition uses_args (c : cmd) : bool :=
  match c with
  | CTextWindow | CViewPort | CResetWindows | CEraseWindow | CEraseView | CGotoXY | CColor | CSetPalette | COnePalette | CWriteMode
  | CMove | CPixel | CBar | CFillStyle | CFillPattern => true
  | _ => false
  end.

Fixpoint wtot (arms : list (act * ret)) (f : nat) : nat :=
  match arms with [] => 0%nat | a :: t => (aw f a + wtot t f)%nat end.

Lemma wsum_le_wtot arms f : forall n, (wsum arms f n <= wtot arms f)%nat.
Proof. induction arms as [|a t IH]; intros n; destruct n; simpl; try lia. specialize (IH n). lia. Qed.

(* complete check of the generated tables: no field of a kernel command is fed more than two digits *)
Lemma kernel_weights_ok : forall c, uses_args c = true ->
  is_chr c = false /\ forallb (fun f => Nat.leb (wtot (arms_of c) f) 2) (seq 0 (cmd_nfields c)) = true.
Proof. destruct c; intros H; try discriminate H; vm_compute; auto. Qed.

Lemma CmdInv_ArgsOk c st : uses_args (pc_cmd c) = true -> CmdInv c st -> ArgsOk c.
Proof.
  intros U (L & Hst & B & _). destruct (kernel_weights_ok _ U) as [NC W]. specialize (B NC).
  split; [exact L|]. apply Forall_forall. intros v IN. apply In_nth_error in IN. destruct IN as [f E].
  specialize (B f v E).
  assert (F : (f < cmd_nfields (pc_cmd c))%nat) by (rewrite <- L; apply nth_error_Some; congruence).
  rewrite forallb_forall in W. specialize (W f). rewrite in_seq in W. specialize (W ltac:(lia)). apply Nat.leb_le in W.
  pose proof (wsum_le_wtot (arms_of (pc_cmd c)) f (Z.to_nat st)).
  assert (36 ^ Z.of_nat (wsum (arms_of (pc_cmd c)) f (Z.to_nat st)) <= 36 ^ Z.of_nat 2) by (apply pow36_mono; lia).
  change (36 ^ Z.of_nat 2) with 1296 in H0. unfold PMAX. lia.
Qed.

Lemma run_cmd_noargs s c : uses_args (pc_cmd c) = false -> run_cmd s c = ROk s \/ run_cmd s c = RUnmodelled.
Proof. unfold run_cmd. destruct (pc_cmd c); simpl; intros; try discriminate; auto. Qed.

Lemma run_cmd_inv s c st : InvBgi s -> CmdInv c st -> RunPost s (run_cmd s c).
Proof.
  intros I CI. destruct (uses_args (pc_cmd c)) eqn:U.
  - apply run_cmd_ok; [exact I|]. eapply CmdInv_ArgsOk; eauto.
  - destruct (run_cmd_noargs s c U) as [E|E]; rewrite E; simpl; auto.
Qed.

Section StreamProofs.
  Variable FS : Type.
  Variable fb_print : FS -> N -> FS * bool.
  Variable fb_mode : FS -> fbmode.
  Variable fb_reset : FS -> FS.

  Definition RInv (s : rstate FS) : Prop := TokInv (r_tok s) /\ InvBgi (r_bgi s).

  Definition same_canvas (s s' : rstate FS) : Prop :=
    win_w (r_bgi s') = win_w (r_bgi s) /\ win_h (r_bgi s') = win_h (r_bgi s) /\
    length (screen (r_bgi s')) = length (screen (r_bgi s)).

  Definition StepPostR (s : rstate FS) (o : outcome FS) : Prop :=
    match o with
    | OOk s' _ => RInv s' /\ same_canvas s s' /\ t_pstate (r_tok s') <= t_pstate (r_tok s) + 1
    | OPanic _ => False
    | OUnmodelled => True
    end.

  Lemma rip_step_inv s ch : RInv s -> t_pstate (r_tok s) < I32_MAX -> StepPostR s (rip_step FS fb_print fb_mode fb_reset s ch).
  Proof.
    intros [TI BI] PM. unfold rip_step.
    pose proof (tok_step_inv (fb_mode (r_fb s)) (r_tok s) ch TI PM) as Q.
    destruct (tok_step (fb_mode (r_fb s)) (r_tok s) ch) as [t a reset|site]; [|contradiction].
    destruct Q as (TI' & AO & PS).
    assert (SC : same_canvas s s) by (unfold same_canvas; auto).
    destruct a as [| |c|cs|cs]; simpl.
    - split; [split; assumption|auto].
    - split; [split; assumption|auto].
    - destruct AO as [st CI]. pose proof (run_cmd_inv (r_bgi s) c st BI CI) as R.
      destruct (run_cmd (r_bgi s) c) as [b|p|]; simpl in *; [|contradiction|exact I].
      destruct R as (IB & W & H & L). split; [split; assumption|]. split; [unfold same_canvas; simpl; auto|exact PS].
    - destruct (suspend_text (r_bgi s)); [simpl; split; [split; assumption|auto]|].
      destruct (print_all FS fb_print (if reset then fb_reset (r_fb s) else r_fb s) cs) as [fs' ok]. simpl.
      split; [split; assumption|auto].
    - destruct (print_all FS fb_print (if reset then fb_reset (r_fb s) else r_fb s) cs) as [fs' ok]. simpl.
      split; [split; assumption|auto].
  Qed.

  Definition RunPostR (s : rstate FS) (o : outcome FS) : Prop :=
    match o with
    | OOk s' _ => RInv s' /\ same_canvas s s'
    | OPanic _ => False
    | OUnmodelled => True
    end.

  Lemma rip_run_inv cs : forall s errs, RInv s -> t_pstate (r_tok s) + Z.of_nat (length cs) <= I32_MAX ->
    RunPostR s (fst (rip_run FS fb_print fb_mode fb_reset s errs cs)).
  Proof.
    induction cs as [|c t IH]; intros s errs RI PM; simpl.
    - split; [exact RI|unfold same_canvas; auto].
    - simpl length in PM. pose proof (rip_step_inv s c RI ltac:(lia)) as Q.
      destruct (rip_step FS fb_print fb_mode fb_reset s c) as [s' ok|p|]; simpl in *; [|contradiction|exact I].
      destruct Q as (RI' & (W & H & L) & PS).
      specialize (IH s' (if ok then errs else N.succ errs) RI' ltac:(lia)).
      destruct (fst (rip_run FS fb_print fb_mode fb_reset s' (if ok then errs else N.succ errs) t)) as [s'' ok'|p|]; simpl in *; auto.
      destruct IH as (RI'' & W' & H' & L'). split; [exact RI''|]. unfold same_canvas. rewrite W', H', L'. auto.
  Qed.
End StreamProofs.

Lemma bgi_new_inv : InvBgi bgi_new.
Proof.
  unfold InvBgi, bgi_new. cbn -[Z.mul repeat Z.to_nat SCREEN_W SCREEN_H].
  pose proof screen_size as [A B].
  split; [exact A|split; [exact B|split]].
  - rewrite repeat_length. rewrite Z2Nat.id; [reflexivity|]. unfold WMAX in *. nia.
  - split; [unfold VpOk, PMAX, WMAX in *; lia|].
    split; [discriminate|split; [reflexivity|]]. repeat split; reflexivity.
Qed.

(* sequences of kernel commands with arbitrary admissible parameters *)
Fixpoint run_cmds (s : bgi) (cs : list pcmd) : run_result :=
  match cs with
  | [] => ROk s
  | c :: t => match run_cmd s c with ROk s' => run_cmds s' t | r => r end
  end.

Lemma run_cmds_ok cs : forall s, InvBgi s -> Forall ArgsOk cs -> RunPost s (run_cmds s cs).
Proof.
  induction cs as [|c t IH]; intros s I F; simpl.
  - split; [exact I|auto].
  - inversion F as [|? ? A F']; subst. pose proof (run_cmd_ok s c I A) as R.
    destruct (run_cmd s c) as [s'|p|]; simpl in *; [|contradiction|exact Logic.I].
    destruct R as (I' & W & H & L). specialize (IH s' I' F').
    destruct (run_cmds s' t) as [s''|p|]; simpl in *; auto.
    destruct IH as (I'' & W' & H' & L'). split; [exact I''|]. rewrite W', H', L'. auto.
Qed.

(* ---------- statements in the shape Props/C20.v exports ---------- *)
Lemma base36_total_lemma n ch : 0 <= n ->
  match parse_base_36 n ch with
  | Some m => 0 <= m <= I32_MAX /\ exists d, 0 <= d < 36 /\ m = n * 36 + d
  | None => True
  end.
Proof.
  intros H. destruct (parse_base_36 n ch) as [m|] eqn:E; [|exact I].
  apply parse_base_36_spec in E. destruct E as (d & D & -> & R). split; [lia|eauto].
Qed.

Lemma parse_step_safe_lemma c st ch : CmdInv c st ->
  match cmd_parse_step c st ch with
  | PPanic _ => False
  | PErr => True
  | PMore c' | PDone c' => pc_cmd c' = pc_cmd c /\ CmdInv c' (st + 1)
  end.
Proof.
  intros CI. pose proof (cmd_parse_step_inv c st ch CI) as Q.
  destruct (cmd_parse_step c st ch); cbn [StepPost] in Q; [destruct Q as (A & B & _); auto|exact Q|exact I|exact Q].
Qed.

Lemma tokenizer_safe_lemma fb t ch : TokInv t -> t_pstate t < I32_MAX ->
  exists t' a b, tok_step fb t ch = SOk t' a b /\ TokInv t' /\ ActOk a /\ t_pstate t' <= t_pstate t + 1.
Proof.
  intros TI PM. pose proof (tok_step_inv fb t ch TI PM) as Q.
  destruct (tok_step fb t ch) as [t' a b|]; [|contradiction]. exists t', a, b. cbn [StepPostT] in Q. split; [reflexivity|exact Q].
Qed.

Lemma arity_bound_lemma t c n : TokInv t -> reading (t_state t) = true -> t_cmd t = Some c -> fixed_arity (pc_cmd c) = Some n ->
  0 <= t_pstate t < Z.of_nat n.
Proof.
  intros [P R] RD EC FA. destruct (R RD) as (c' & EC' & _ & BA). rewrite EC in EC'. inversion EC'; subst c'.
  split; [exact P|]. apply BA. exact FA.
Qed.

Lemma params_in_range_lemma t c f v : TokInv t -> reading (t_state t) = true -> t_cmd t = Some c -> is_chr (pc_cmd c) = false ->
  nth_error (pc_fields c) f = Some v ->
  0 <= v < 36 ^ Z.of_nat (wsum (arms_of (pc_cmd c)) f (Z.to_nat (t_pstate t))) /\ 0 <= v < 36 ^ Z.of_nat (wtot (arms_of (pc_cmd c)) f).
Proof.
  intros [P R] RD EC NC E. destruct (R RD) as (c' & EC' & (_ & _ & B & _) & _). rewrite EC in EC'. inversion EC'; subst c'.
  specialize (B NC f v E). split; [exact B|].
  pose proof (pow36_mono _ _ (wsum_le_wtot (arms_of (pc_cmd c)) f (Z.to_nat (t_pstate t)))). lia.
Qed.

Lemma pstate_overflow_witness_lemma :
  exists t ch, TokInv t /\ tok_step FDefault t ch = SPanic SITE_PSTATE_OVERFLOW.
Proof.
  exists {| t_state := SReadParams; t_pstate := I32_MAX; t_cmd := Some (new_cmd CText); t_enable := true |}, 65%N.
  split; [|reflexivity].
  split; [simpl; unfold I32_MAX; lia|]. simpl. intros _. exists (new_cmd CText). split; [reflexivity|].
  split.
  - split; [reflexivity|split; [unfold I32_MAX; lia|split]].
    + intros _ f v E. simpl in E. destruct f as [|f]; simpl in E; [inversion E; subst|destruct f; discriminate].
      split; [lia|]. apply Z.pow_pos_nonneg; lia.
    + exact I.
  - intros n F. discriminate F.
Qed.

Definition rip_init (FS : Type) (fs : FS) : rstate FS := {| r_tok := tok_init; r_bgi := bgi_new; r_fb := fs |}.

Lemma rip_stream_safe_lemma (FS : Type) fb_print fb_mode fb_reset (fs : FS) cs errs :
  Z.of_nat (length cs) <= I32_MAX ->
  match fst (rip_run FS fb_print fb_mode fb_reset (rip_init FS fs) errs cs) with
  | OOk s _ => TokInv (r_tok s) /\ InvBgi (r_bgi s) /\
               Z.of_nat (length (screen (r_bgi s))) = SCREEN_W * SCREEN_H /\ win_w (r_bgi s) = SCREEN_W /\ win_h (r_bgi s) = SCREEN_H
  | OPanic _ => False
  | OUnmodelled => True
  end.
Proof.
  intros L.
  pose proof (rip_run_inv FS fb_print fb_mode fb_reset cs (rip_init FS fs) errs (conj tok_init_inv bgi_new_inv) ltac:(simpl; lia)) as Q.
  destruct (fst (rip_run FS fb_print fb_mode fb_reset (rip_init FS fs) errs cs)) as [s ok|p|]; simpl in *; auto.
  destruct Q as ([TI BI] & W & H & LS). split; [exact TI|split; [exact BI|]].
  simpl in W, H. destruct BI as (_ & _ & E & _). rewrite E, W, H. auto.
Qed.
