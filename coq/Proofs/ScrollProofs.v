(* C08 (extension), part 4: scroll_area_left / scroll_area_right are sound edits of the layer document (hence, lifted, of the full
   document): the row surgery moves cells only between the columns of the area, and the area computed by get_area lies inside the layer,
   so the UndoLayerChange snapshot of the area covers everything that changed. *)
From Coq Require Import List ZArith NArith Bool Arith Lia.
From IE Require Import Lib.C08Lib Gen.UndoGen Model.Undo Model.EditModel Model.EditOps Model.DocModel Model.DocOps Model.ScrollOps
  Proofs.UndoProofs Proofs.LayerProofs Proofs.EditProofs Proofs.ApiProofs Proofs.DocProofs Proofs.DocRowColProofs.
Import ListNotations.
Local Open Scope Z_scope.

Local Notation bedit_chain := (edit_chain op_undo op_redo eqv).
Local Notation bsound_edit := (sound_edit op_undo op_redo eqv).

Lemma nth_error_remove_insert_outside {A} (row : list A) (i j : nat) (ch : A) x :
  (i < length row)%nat -> (j < length row)%nat -> ((x < i /\ x < j) \/ (i < x /\ j < x))%nat ->
  nth_error (insert_at j ch (remove_at i row)) x = nth_error row x.
Proof.
  intros Hi Hj Hx. assert (Hl : length (remove_at i row) = (length row - 1)%nat).
  { unfold remove_at. rewrite app_length, firstn_length, skipn_length. lia. }
  rewrite nth_error_insert_at by lia. destruct Hx as [[H1 H2]|[H1 H2]].
  - replace (x <? j)%nat with true by (symmetry; apply Nat.ltb_lt; lia). rewrite nth_error_remove_at.
    replace (x <? i)%nat with true by (symmetry; apply Nat.ltb_lt; lia). reflexivity.
  - replace (x <? j)%nat with false by (symmetry; apply Nat.ltb_ge; lia). replace (x =? j)%nat with false by (symmetry; apply Nat.eqb_neq; lia).
    rewrite nth_error_remove_at. replace (pred x <? i)%nat with false by (symmetry; apply Nat.ltb_ge; lia). f_equal. lia.
Qed.

Lemma cell_at_scroll_row left l r row x : (l < r)%nat -> (x < l \/ r <= x)%nat -> cell_at (scroll_row left l r row) x = cell_at row x.
Proof.
  intros Hlr Hx. unfold scroll_row.
  set (row1 := if (length row <? r)%nat then row ++ repeat invisible (r - length row) else row).
  assert (Hc : forall k, cell_at row1 k = cell_at row k).
  { intro k. subst row1. destruct (length row <? r)%nat; [apply cell_at_app_repeat|reflexivity]. }
  assert (Hlen : (r <= length row1)%nat).
  { subst row1. destruct (length row <? r)%nat eqn:E; [apply Nat.ltb_lt in E; rewrite app_length, repeat_length; lia|apply Nat.ltb_ge in E; exact E]. }
  rewrite <- Hc. destruct left.
  - destruct (nth_error row1 l) as [ch|] eqn:E; [|reflexivity]. unfold cell_at.
    rewrite nth_error_remove_insert_outside; [reflexivity|lia|lia|lia].
  - destruct (nth_error row1 (r - 1)) as [ch|] eqn:E; [|reflexivity]. unfold cell_at.
    rewrite nth_error_remove_insert_outside; [reflexivity|lia|lia|lia].
Qed.

Lemma scroll_lr_step_differs left L L2 ax ay aw ah y :
  0 <= ax -> 0 < aw -> ax + aw <= l_w L -> 0 <= ay -> ay + ah <= l_h L -> ay <= y < ay + ah ->
  scroll_lr_step left (Z.to_nat ax) (Z.to_nat (ax + aw)) L y = Ok L2 -> differs L L2 (ax, ay, aw, ah).
Proof.
  intros Hax Haw Hw Hay Hh Hy H. unfold scroll_lr_step in H.
  destruct (nth_error (l_lines L) (Z.to_nat y)) as [row|] eqn:Er; [|discriminate]. injection H as <-.
  split; [reflexivity|]. intros x' y' Hout. unfold rawL. cbn [l_lines with_lines]. rewrite !raw_cell_at, nth_error_upd_nth.
  destruct (y' =? Z.to_nat y)%nat eqn:Ey; [|reflexivity]. apply Nat.eqb_eq in Ey. subst y'. rewrite Er. cbn [option_map].
  apply cell_at_scroll_row; [lia|].
  destruct (Z_lt_dec (Z.of_nat x') ax) as [H1|H1]; [left; lia|]. destruct (Z_le_dec (ax + aw) (Z.of_nat x')) as [H2|H2]; [right; lia|].
  exfalso. rewrite Z2Nat.id in Hout by lia.
  assert (in_cells aw ah (Z.of_nat x' - ax) (y - ay) = true) as Hc by (apply in_cells_intro; lia).
  assert (inb L (Z.of_nat x') y = true) as Hi.
  { unfold inb. repeat (apply andb_true_intro; split); try apply Z.leb_le; try apply Z.ltb_lt; lia. }
  rewrite Hc, Hi in Hout. discriminate.
Qed.

Lemma get_area_inside s L ax ay aw ah : get_area s L = (ax, ay, aw, ah) -> 0 < aw -> 0 < ah ->
  0 <= ax /\ ax + aw <= l_w L /\ 0 <= ay /\ ay + ah <= l_h L.
Proof.
  unfold get_area. destruct s as [sl|].
  - unfold rect_intersect, sel_rect, layer_rect. intro H. injection H as <- <- <- <-. lia.
  - intro H. injection H as <- <- <- <-. lia.
Qed.

Lemma scroll_lr_inside left s L ax ay aw ah L' : get_area s L = (ax, ay, aw, ah) -> 0 <= aw -> 0 <= ah ->
  mut_scroll_lr left L (ax, ay, aw, ah) = Ok L' -> differs L L' (ax, ay, aw, ah).
Proof.
  intros Ha _ _ H. unfold mut_scroll_lr in H. destruct (rect_is_empty (ax, ay, aw, ah)) eqn:Ee; [injection H as <-; apply differs_refl|].
  unfold rect_is_empty in Ee. apply orb_false_elim in Ee. destruct Ee as [E1 E2]. apply Z.leb_gt in E1, E2.
  destruct ((ax <? 0) || (ay <? 0)); [discriminate|].
  destruct (get_area_inside _ _ _ _ _ _ Ha E1 E2) as (Hax & Hw & Hay & Hh).
  eapply fold_res_differs; [apply differs_refl| |exact H]. intros L1 y L2 Hin HL1 E. apply in_zrange_from in Hin.
  destruct HL1 as [M1 D1].
  assert (Hw1 : l_w L1 = l_w L /\ l_h L1 = l_h L) by (apply meta_fields in M1; tauto).
  eapply differs_trans; [split; [exact M1|exact D1]|].
  eapply scroll_lr_step_differs; try exact E; try lia.
Qed.

Lemma api_scroll_area_lr_sound left : bsound_edit (api_scroll_area_lr left).
Proof.
  intros e e' H. unfold api_scroll_area_lr, guarded in H.
  eapply with_guard_chain; eauto using eqv_refl, eqv_sym, eqv_trans.
  intros e1 e2 Hb. cbv beta in Hb.
  destruct (get_cur_layer (cur e1)) as [[i L]|]; [|discriminate].
  destruct (rect_is_empty _); [injection Hb as <-; apply chain_refl|].
  unfold area_body in Hb. eapply area_body_gen_sound; [|exact Hb].
  intros s L0 ax ay aw ah L' Ha Hw Hh Hm. exact (scroll_lr_inside left (sel s) L0 ax ay aw ah L' Ha Hw Hh Hm).
Qed.

(* ================================================================================================================
   scroll_area_up / scroll_area_down over part of the layer width (after the fix commit): every row of the area keeps the cells left and
   right of the area, whatever piece is spliced back into it, as long as the piece is as long as the area is wide *)
Lemma nth_error_zip_with {A B C} (f : A -> B -> C) : forall la lb k,
  nth_error (zip_with f la lb) k = match nth_error la k, nth_error lb k with Some a, Some b => Some (f a b) | _, _ => None end.
Proof.
  induction la as [|a la IH]; intros lb k; [destruct k; reflexivity|].
  destruct lb as [|b lb]; [cbn [zip_with]; destruct k; cbn [nth_error]; [reflexivity|destruct (nth_error la k); reflexivity]|].
  destruct k; cbn [zip_with nth_error]; [reflexivity|apply IH].
Qed.

Lemma zip_with_length {A B C} (f : A -> B -> C) : forall la lb, length la = length lb -> length (zip_with f la lb) = length la.
Proof.
  induction la as [|a la IH]; intros [|b lb] H; try discriminate H; [reflexivity|].
  cbn [zip_with length] in *. injection H as H. rewrite (IH lb H). reflexivity.
Qed.

Lemma cell_at_splice_drain l r row cs x : (l <= r)%nat -> length cs = (r - l)%nat -> (x < l \/ r <= x)%nat ->
  cell_at (splice_row l cs (snd (drain_row l r row))) x = cell_at row x.
Proof.
  intros Hlr Hcs Hx. unfold drain_row, splice_row. cbn [snd]. set (row1 := resize_to row r invisible).
  assert (Hlen : (r <= length row1)%nat) by apply resize_to_length.
  rewrite <- (cell_at_resize row r x). fold row1.
  assert (Hf : length (firstn l row1) = l) by (rewrite firstn_length; lia).
  assert (E1 : firstn l (firstn l row1 ++ skipn r row1) = firstn l row1).
  { rewrite <- Hf at 1. apply firstn_app_exact. }
  assert (E2 : skipn l (firstn l row1 ++ skipn r row1) = skipn r row1).
  { rewrite <- Hf at 1. apply skipn_app_exact. }
  rewrite E1, E2. unfold cell_at. destruct Hx as [Hx|Hx].
  - rewrite nth_error_app1 by lia. rewrite nth_error_firstn_lt by exact Hx. reflexivity.
  - rewrite nth_error_app2 by lia. rewrite Hf. rewrite nth_error_app2 by lia. rewrite Hcs, nth_error_skipn.
    replace (r + (x - l - (r - l)))%nat with x by lia. reflexivity.
Qed.

Lemma drained_length l r row : (l <= r)%nat -> length (fst (drain_row l r row)) = (r - l)%nat.
Proof.
  intro Hlr. unfold drain_row. cbn [fst]. pose proof (resize_to_length row r invisible) as H.
  rewrite firstn_length, skipn_length. lia.
Qed.

Lemma Forall_split_at {A} (P : A -> Prop) n l : Forall P l -> Forall P (firstn n l) /\ Forall P (skipn n l).
Proof. intro H. rewrite <- (firstn_skipn n l) in H. apply Forall_app in H. exact H. Qed.
Lemma Forall_rot_left {A} (P : A -> Prop) l : Forall P l -> Forall P (rot_left l).
Proof. intro H. unfold rot_left. apply Forall_app. destruct (Forall_split_at P 1 l H). split; assumption. Qed.
Lemma Forall_rot_right {A} (P : A -> Prop) l : Forall P l -> Forall P (rot_right l).
Proof. intro H. unfold rot_right. apply Forall_app. destruct (Forall_split_at P (length l - 1) l H). split; assumption. Qed.

(* row k of the scrolled block: the cells outside the columns l .. r - 1 are those of row k of the block *)
Lemma scroll_ud_rows_outside up l r rows k x : (l <= r)%nat -> (x < l \/ r <= x)%nat ->
  length (scroll_ud_rows up l r rows) = length rows /\
  match nth_error (scroll_ud_rows up l r rows) k, nth_error rows k with
  | Some row', Some row => cell_at row' x = cell_at row x
  | None, None => True
  | _, _ => False
  end.
Proof.
  intros Hlr Hx. unfold scroll_ud_rows. set (dr := map (drain_row l r) rows). set (chars := map fst dr).
  set (chars' := if up then rot_left chars else rot_right chars).
  assert (Hlc : length chars' = length rows).
  { unfold chars'. destruct up; [rewrite rot_left_length|rewrite rot_right_length]; unfold chars, dr; rewrite !map_length; reflexivity. }
  assert (Hfc : Forall (fun cs => length cs = (r - l)%nat) chars').
  { assert (H0 : Forall (fun cs => length cs = (r - l)%nat) chars).
    { unfold chars, dr. rewrite map_map. apply Forall_forall. intros cs Hin. apply in_map_iff in Hin. destruct Hin as (row & <- & _).
      apply drained_length. exact Hlr. }
    unfold chars'. destruct up; [apply Forall_rot_left|apply Forall_rot_right]; exact H0. }
  split; [rewrite zip_with_length; [exact Hlc|rewrite Hlc; unfold dr; rewrite !map_length; reflexivity]|].
  rewrite nth_error_zip_with. unfold dr. rewrite map_map, nth_error_map.
  destruct (nth_error rows k) as [row|] eqn:Er; cbn [option_map].
  - destruct (nth_error chars' k) as [cs|] eqn:Ec.
    + apply cell_at_splice_drain; [exact Hlr| |exact Hx]. rewrite Forall_forall in Hfc. apply Hfc. eapply nth_error_In. exact Ec.
    + apply nth_error_None in Ec. assert (k < length rows)%nat by (apply nth_error_Some; congruence). lia.
  - destruct (nth_error chars' k); exact I.
Qed.

Lemma scroll_ud_inside up s L ax ay aw ah L' : get_area s L = (ax, ay, aw, ah) -> 0 <= aw -> 0 <= ah ->
  mut_scroll_ud up L (ax, ay, aw, ah) = Ok L' -> differs L L' (ax, ay, aw, ah).
Proof.
  intros Ha _ _ H. unfold mut_scroll_ud in H. destruct (rect_is_empty (ax, ay, aw, ah)) eqn:Ee; [injection H as <-; apply differs_refl|].
  unfold rect_is_empty in Ee. apply orb_false_elim in Ee. destruct Ee as [E1 E2]. apply Z.leb_gt in E1, E2.
  destruct ((ax <? 0) || (ay <? 0)); [discriminate|].
  destruct (get_area_inside _ _ _ _ _ _ Ha E1 E2) as (Hax & Hw & Hay & Hh).
  set (top := Z.to_nat ay) in *. set (n := Z.to_nat ah) in *. set (l := Z.to_nat ax) in *. set (r := Z.to_nat (ax + aw)) in *.
  destruct (length (l_lines L) <? top + n)%nat eqn:El; [discriminate|]. apply Nat.ltb_ge in El. injection H as <-.
  split; [reflexivity|]. intros x' y' Hout. unfold rawL. cbn [l_lines with_lines]. rewrite !raw_cell_at.
  set (lines := l_lines L) in *. set (rows := firstn n (skipn top lines)).
  assert (Hrows : length rows = n) by (unfold rows; rewrite firstn_length, skipn_length; lia).
  assert (Hft : length (firstn top lines) = top) by (rewrite firstn_length; lia).
  destruct (lt_dec y' top) as [Hy1|Hy1].
  - rewrite nth_error_app1 by lia. rewrite nth_error_firstn_lt by exact Hy1. reflexivity.
  - destruct (lt_dec y' (top + n)) as [Hy2|Hy2].
    + assert (Hxo : (x' < l \/ r <= x')%nat).
      { destruct (Z_lt_dec (Z.of_nat x') ax) as [H1|H1]; [left; unfold l; lia|].
        destruct (Z_le_dec (ax + aw) (Z.of_nat x')) as [H2|H2]; [right; unfold r; lia|]. exfalso.
        assert (in_cells aw ah (Z.of_nat x' - ax) (Z.of_nat y' - ay) = true) as Hc by (apply in_cells_intro; unfold top, n in *; lia).
        assert (inb L (Z.of_nat x') (Z.of_nat y') = true) as Hi.
        { unfold inb. repeat (apply andb_true_intro; split); try apply Z.leb_le; try apply Z.ltb_lt; unfold top, n in *; lia. }
        rewrite Hc, Hi in Hout. discriminate. }
      destruct (scroll_ud_rows_outside up l r rows (y' - top) x') as [Hlen Hk]; [unfold l, r; lia|exact Hxo|].
      rewrite nth_error_app2 by lia. rewrite Hft. rewrite nth_error_app1 by (rewrite Hlen, Hrows; lia).
      assert (Hr : nth_error rows (y' - top) = nth_error lines y').
      { unfold rows. rewrite nth_error_firstn_lt by lia. rewrite nth_error_skipn. f_equal. lia. }
      rewrite Hr in Hk. destruct (nth_error (scroll_ud_rows up l r rows) (y' - top)) as [row'|]; destruct (nth_error lines y') as [row|]; try contradiction; [exact Hk|reflexivity].
    + rewrite nth_error_app2 by lia. rewrite Hft.
      destruct (scroll_ud_rows_outside up l r rows 0 r) as [Hlen _]; [unfold l, r; lia|right; lia|].
      rewrite nth_error_app2 by (rewrite Hlen, Hrows; lia). rewrite Hlen, Hrows, nth_error_skipn.
      replace (top + n + (y' - top - n))%nat with y' by lia. reflexivity.
Qed.

Lemma area_body_scroll_ud_sound up : bsound_edit (area_body (mut_scroll_ud up)).
Proof.
  intros e e' H. unfold area_body in H. eapply area_body_gen_sound; [|exact H].
  intros s L0 ax ay aw ah L' Ha Hw Hh Hm. exact (scroll_ud_inside up (sel s) L0 ax ay aw ah L' Ha Hw Hh Hm).
Qed.
