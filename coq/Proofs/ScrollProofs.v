(* C08 (extension), part 4: scroll_area_left / scroll_area_right are sound edits of the layer document (hence, lifted, of the full
   document): the row surgery moves cells only between the columns of the area, and the area computed by get_area lies inside the layer,
   so the UndoLayerChange snapshot of the area covers everything that changed. *)
From Coq Require Import List ZArith NArith Bool Arith Lia.
From IE Require Import Lib.C08Lib Gen.UndoGen Model.Undo Model.EditModel Model.EditOps Model.DocModel Model.DocOps Model.ScrollOps
  Proofs.UndoProofs Proofs.LayerProofs Proofs.EditProofs Proofs.ApiProofs.
Import ListNotations.
Local Open Scope Z_scope.

Local Notation bedit_chain := (edit_chain op_undo op_redo eqv).
Local Notation bsound_edit := (sound_edit op_undo op_redo eqv).

Lemma nth_error_remove_insert_outside {A} (row : list A) (i j : nat) (ch : A) x :
  (i < length row)%nat -> (j < length row)%nat -> ((x < i /\ x < j) \/ (i < x /\ j < x))%nat ->
  nth_error (insert_at j ch (remove_at i row)) x = nth_error row x.
Proof.
  intros Hi Hj Hx. assert (Hl : length (remove_at i row) = (length row - 1)%nat).
  { unfold remove_at. rewrite app_length, firstn_length, skipn_length. lia. }
  rewrite nth_error_insert_at by lia. destruct Hx as [[H1 H2]|[H1 H2]].
  - replace (x <? j)%nat with true by (symmetry; apply Nat.ltb_lt; lia). rewrite nth_error_remove_at.
    replace (x <? i)%nat with true by (symmetry; apply Nat.ltb_lt; lia). reflexivity.
  - replace (x <? j)%nat with false by (symmetry; apply Nat.ltb_ge; lia). replace (x =? j)%nat with false by (symmetry; apply Nat.eqb_neq; lia).
    rewrite nth_error_remove_at. replace (pred x <? i)%nat with false by (symmetry; apply Nat.ltb_ge; lia). f_equal. lia.
Qed.

Lemma cell_at_scroll_row left l r row x : (l < r)%nat -> (x < l \/ r <= x)%nat -> cell_at (scroll_row left l r row) x = cell_at row x.
Proof.
  intros Hlr Hx. unfold scroll_row.
  set (row1 := if (length row <? r)%nat then row ++ repeat invisible (r - length row) else row).
  assert (Hc : forall k, cell_at row1 k = cell_at row k).
  { intro k. subst row1. destruct (length row <? r)%nat; [apply cell_at_app_repeat|reflexivity]. }
  assert (Hlen : (r <= length row1)%nat).
  { subst row1. destruct (length row <? r)%nat eqn:E; [apply Nat.ltb_lt in E; rewrite app_length, repeat_length; lia|apply Nat.ltb_ge in E; exact E]. }
  rewrite <- Hc. destruct left.
  - destruct (nth_error row1 l) as [ch|] eqn:E; [|reflexivity]. unfold cell_at.
    rewrite nth_error_remove_insert_outside; [reflexivity|lia|lia|lia].
  - destruct (nth_error row1 (r - 1)) as [ch|] eqn:E; [|reflexivity]. unfold cell_at.
    rewrite nth_error_remove_insert_outside; [reflexivity|lia|lia|lia].
Qed.

Lemma scroll_lr_step_differs left L L2 ax ay aw ah y :
  0 <= ax -> 0 < aw -> ax + aw <= l_w L -> 0 <= ay -> ay + ah <= l_h L -> ay <= y < ay + ah ->
  scroll_lr_step left (Z.to_nat ax) (Z.to_nat (ax + aw)) L y = Ok L2 -> differs L L2 (ax, ay, aw, ah).
Proof.
  intros Hax Haw Hw Hay Hh Hy H. unfold scroll_lr_step in H.
  destruct (nth_error (l_lines L) (Z.to_nat y)) as [row|] eqn:Er; [|discriminate]. injection H as <-.
  split; [reflexivity|]. intros x' y' Hout. unfold rawL. cbn [l_lines with_lines]. rewrite !raw_cell_at, nth_error_upd_nth.
  destruct (y' =? Z.to_nat y)%nat eqn:Ey; [|reflexivity]. apply Nat.eqb_eq in Ey. subst y'. rewrite Er. cbn [option_map].
  apply cell_at_scroll_row; [lia|].
  destruct (Z_lt_dec (Z.of_nat x') ax) as [H1|H1]; [left; lia|]. destruct (Z_le_dec (ax + aw) (Z.of_nat x')) as [H2|H2]; [right; lia|].
  exfalso. rewrite Z2Nat.id in Hout by lia.
  assert (in_cells aw ah (Z.of_nat x' - ax) (y - ay) = true) as Hc by (apply in_cells_intro; lia).
  assert (inb L (Z.of_nat x') y = true) as Hi.
  { unfold inb. repeat (apply andb_true_intro; split); try apply Z.leb_le; try apply Z.ltb_lt; lia. }
  rewrite Hc, Hi in Hout. discriminate.
Qed.

Lemma get_area_inside s L ax ay aw ah : get_area s L = (ax, ay, aw, ah) -> 0 < aw -> 0 < ah ->
  0 <= ax /\ ax + aw <= l_w L /\ 0 <= ay /\ ay + ah <= l_h L.
Proof.
  unfold get_area. destruct s as [sl|].
  - unfold rect_intersect, sel_rect, layer_rect. intro H. injection H as <- <- <- <-. lia.
  - intro H. injection H as <- <- <- <-. lia.
Qed.

Lemma scroll_lr_inside left s L ax ay aw ah L' : get_area s L = (ax, ay, aw, ah) -> 0 <= aw -> 0 <= ah ->
  mut_scroll_lr left L (ax, ay, aw, ah) = Ok L' -> differs L L' (ax, ay, aw, ah).
Proof.
  intros Ha _ _ H. unfold mut_scroll_lr in H. destruct (rect_is_empty (ax, ay, aw, ah)) eqn:Ee; [injection H as <-; apply differs_refl|].
  unfold rect_is_empty in Ee. apply orb_false_elim in Ee. destruct Ee as [E1 E2]. apply Z.leb_gt in E1, E2.
  destruct ((ax <? 0) || (ay <? 0)); [discriminate|].
  destruct (get_area_inside _ _ _ _ _ _ Ha E1 E2) as (Hax & Hw & Hay & Hh).
  eapply fold_res_differs; [apply differs_refl| |exact H]. intros L1 y L2 Hin HL1 E. apply in_zrange_from in Hin.
  destruct HL1 as [M1 D1].
  assert (Hw1 : l_w L1 = l_w L /\ l_h L1 = l_h L) by (apply meta_fields in M1; tauto).
  eapply differs_trans; [split; [exact M1|exact D1]|].
  eapply scroll_lr_step_differs; try exact E; try lia.
Qed.

Lemma api_scroll_area_lr_sound left : bsound_edit (api_scroll_area_lr left).
Proof.
  intros e e' H. unfold api_scroll_area_lr, guarded in H.
  eapply with_guard_chain; eauto using eqv_refl, eqv_sym, eqv_trans.
  intros e1 e2 Hb. cbv beta in Hb.
  destruct (get_cur_layer (cur e1)) as [[i L]|]; [|discriminate].
  destruct (rect_is_empty _); [injection Hb as <-; apply chain_refl|].
  unfold area_body in Hb. eapply area_body_gen_sound; [|exact Hb].
  intros s L0 ax ay aw ah L' Ha Hw Hh Hm. exact (scroll_lr_inside left (sel s) L0 ax ay aw ah L' Ha Hw Hh Hm).
Qed.
