(* C05 x C11: round trips of the BYTES Buffer::to_bytes(.., save_sauce = true) writes and Buffer::from_bytes reads,
   for BIN and Tundra (whose width travels in the SAUCE record) and XBin.  The SAUCE part is C11's split_exact. *)
From Coq Require Import NArith ZArith Bool List Lia PeanoNat.
From IE Require Import Lib.Tbl Lib.C05Lib Gen.Codepage Gen.Formats Model.Attr Model.C05Buf Model.C05Bin Model.C05XBin
  Model.C05Idf Model.C05Tundra Model.C05Spec Model.C02Loaders Model.C05XBinC Model.C05Files
  Proofs.C05BufProofs Proofs.C05BinProofs Proofs.C05AdfProofs Proofs.C05IdfProofs Proofs.C05TundraProofs Proofs.C05XBinProofs
  Proofs.C02BridgeProofs Proofs.C05XBinCProofs Proofs.C05IdfWideProofs.
From IE Require Gen.Sauce Model.Sauce Model.SauceSpec Proofs.SauceProofs.
Import ListNotations.
Local Open Scope Z_scope.

Definition has_font0 (p : pic) : Prop := exists f, get_font (p_fonts p) 0 = Some f.

Lemma wbuf_font p name ws : has_font0 p -> Sauce.b_font (wbuf_of p name ws) = Some name.
Proof. intros (f & Hf). unfold wbuf_of. cbn [Sauce.b_font]. rewrite Hf. reflexivity. Qed.

(* what the loader sees of the record a writer of variant ft appends *)
Lemma view_carried_bin p name ws date :
  sauce_view (SauceSpec.carried Sauce.FtBin (wbuf_of p name ws) name date) =
  mkSauce (2 * (Z.quot (p_w p) 2 mod 256)) 25 (is_ice (p_ice p)).
Proof.
  unfold SauceSpec.carried, SauceSpec.w_strings, SauceSpec.w_flags, wbuf_of. cbn [Sauce.b_sauce].
  destruct ws as [w|]; unfold sauce_view; cbn [Sauce.s_width Sauce.s_height Sauce.s_ice Sauce.b_width Sauce.b_ice];
    f_equal; lia.
Qed.

Lemma view_carried_tnd p name ws date :
  sauce_view (SauceSpec.carried Sauce.FtTundraDraw (wbuf_of p name ws) name date) = tnd_sauce p.
Proof.
  unfold SauceSpec.carried, SauceSpec.w_strings, SauceSpec.w_flags, wbuf_of, tnd_sauce. cbn [Sauce.b_sauce].
  destruct ws as [w|]; reflexivity.
Qed.

(* C11's split_exact, restated on C05's outcome type: the writer appends a tail, from_bytes cuts exactly that tail off and
   hands the loader the record's fields *)
Lemma sauce_glue dp ft p name ws d date content (loader : list N -> option sauce -> res buffer) :
  has_font0 p -> SauceSpec.wf (wbuf_of p name ws) -> length d = 8%nat -> dp d = Some date ->
  (ft = Sauce.FtBin -> Z.quot (p_w p) 2 <= 255) ->
  exists file, with_sauce true ft p name ws d content = Ok file /\
               from_bytes_with dp loader file =
               loader content (Some (sauce_view (SauceSpec.carried ft (wbuf_of p name ws) name date))).
Proof.
  intros Hf0 Hwf Hd Hdp Hbin.
  destruct (SauceProofs.split_exact_proof dp content ft (wbuf_of p name ws) name d date Hwf (wbuf_font p name ws Hf0) Hd Hdp Hbin)
    as (tail & Hw & Hs).
  exists (content ++ tail). unfold with_sauce, from_bytes_with. rewrite Hw, Hs. cbn [lift bind option_map]. auto.
Qed.

Lemma bin_file_roundtrip_proof : forall dp p name ws d date,
  representable_bin p -> has_font0 p -> SauceSpec.wf (wbuf_of p name ws) -> length d = 8%nat -> dp d = Some date ->
  exists file b, bin_to_bytes true p name ws d = Ok file /\ bin_from_bytes dp file = Ok b /\
                 same_picture false [] p (pic_of b).
Proof.
  intros dp p name ws d date Hr Hf0 Hwf Hd Hdp.
  destruct (bin_roundtrip_proof p Hr) as (s & b & Hs & Hl & Hsame).
  pose proof Hr as (_ & Hw & _).
  assert (Hq : Z.quot (p_w p) 2 <= 255) by (apply Z.quot_le_upper_bound; lia).
  destruct (sauce_glue dp Sauce.FtBin p name ws d date (save_bin p) load_bin Hf0 Hwf Hd Hdp (fun _ => Hq)) as (file & Hw' & Hfb).
  exists file, b. split; [exact Hw'|]. split; [|exact Hsame].
  unfold bin_from_bytes. rewrite Hfb, view_carried_bin.
  unfold bin_sauce in Hs. destruct (Z.gtb_spec (Z.quot (p_w p) 2) 255); [discriminate|]. injection Hs as <-. exact Hl.
Qed.

Lemma tnd_file_roundtrip_proof : forall dp p name ws d date,
  representable_tnd p -> has_font0 p -> SauceSpec.wf (wbuf_of p name ws) -> length d = 8%nat -> dp d = Some date ->
  exists file b, tnd_to_bytes true p name ws d = Ok file /\ tnd_from_bytes dp file = Ok b /\
                 same_picture_rgb p (pic_of b).
Proof.
  intros dp p name ws d date Hr Hf0 Hwf Hd Hdp.
  destruct (tnd_roundtrip_proof p Hr) as (data & b & Hs & Hl & Hsame).
  destruct (sauce_glue dp Sauce.FtTundraDraw p name ws d date data load_tnd2 Hf0 Hwf Hd Hdp ltac:(discriminate)) as (file & Hw' & Hfb).
  exists file, b. split; [unfold tnd_to_bytes; rewrite Hs; exact Hw'|]. split; [|exact Hsame].
  unfold tnd_from_bytes. rewrite Hfb, view_carried_tnd. apply tnd_fixed_agrees, Hl.
Qed.

(* XBin: the loader keeps nothing of the SAUCE record, so the record only has to be cut off exactly *)
Lemma xb_file_roundtrip1_proof : forall dp compress p name ws d date,
  representable_xb1 p -> has_font0 p -> SauceSpec.wf (wbuf_of p name ws) -> length d = 8%nat -> dp d = Some date ->
  exists file b, xb_to_bytes compress true p name ws d = Ok file /\ xb_from_bytes dp file = Ok b /\
                 same_picture true [0%N] p (pic_of b).
Proof.
  intros dp comp p name ws d date Hr Hf0 Hwf Hd Hdp.
  set (s := Some (sauce_view (SauceSpec.carried Sauce.FtXBin (wbuf_of p name ws) name date))).
  destruct (xb_roundtrip1_o_proof comp p s Hr) as (data & b & Hs & Hl & Hsame).
  destruct (sauce_glue dp Sauce.FtXBin p name ws d date data load_xb2 Hf0 Hwf Hd Hdp ltac:(discriminate)) as (file & Hw' & Hfb).
  exists file, b. split; [unfold xb_to_bytes; rewrite Hs; exact Hw'|]. split; [|exact Hsame].
  unfold xb_from_bytes. rewrite Hfb. exact Hl.
Qed.

Lemma xb_file_roundtrip2_proof : forall dp compress p name ws d date,
  representable_xb2 p -> has_font0 p -> SauceSpec.wf (wbuf_of p name ws) -> length d = 8%nat -> dp d = Some date ->
  exists file b, xb_to_bytes compress true p name ws d = Ok file /\ xb_from_bytes dp file = Ok b /\
                 same_picture true [0%N; 1%N] p (pic_of b).
Proof.
  intros dp comp p name ws d date Hr Hf0 Hwf Hd Hdp.
  set (s := Some (sauce_view (SauceSpec.carried Sauce.FtXBin (wbuf_of p name ws) name date))).
  destruct (xb_roundtrip2_o_proof comp p s Hr) as (data & b & Hs & Hl & Hsame).
  destruct (sauce_glue dp Sauce.FtXBin p name ws d date data load_xb2 Hf0 Hwf Hd Hdp ltac:(discriminate)) as (file & Hw' & Hfb).
  exists file, b. split; [unfold xb_to_bytes; rewrite Hs; exact Hw'|]. split; [|exact Hsame].
  unfold xb_from_bytes. rewrite Hfb. exact Hl.
Qed.

(* ADF: the record is of type Ansi and carries the width 80 the loader has anyway *)
Lemma view_carried_adf p name ws date : p_w p = 80 ->
  adf_sauce_like (Some (sauce_view (SauceSpec.carried Sauce.FtAnsi (wbuf_of p name ws) name date))).
Proof.
  intro Hw. unfold SauceSpec.carried, SauceSpec.w_strings, SauceSpec.w_flags, wbuf_of. cbn [Sauce.b_sauce].
  destruct ws as [w|]; unfold adf_sauce_like, sauce_view; cbn [Sauce.s_width Sauce.b_width s_w]; rewrite Hw; reflexivity.
Qed.

Lemma adf_file_roundtrip_proof : forall dp p name ws d date,
  representable_adf p -> has_font0 p -> SauceSpec.wf (wbuf_of p name ws) -> length d = 8%nat -> dp d = Some date ->
  exists file b, adf_to_bytes true p name ws d = Ok file /\ adf_from_bytes dp file = Ok b /\
                 same_picture true [0%N] p (pic_of b).
Proof.
  intros dp p name ws d date Hr Hf0 Hwf Hd Hdp.
  pose proof Hr as (_ & Hw & _).
  destruct (adf_roundtrip_proof p _ Hr (view_carried_adf p name ws date Hw)) as (data & b & Hs & Hl & Hsame).
  destruct (sauce_glue dp Sauce.FtAnsi p name ws d date data load_adf Hf0 Hwf Hd Hdp ltac:(discriminate)) as (file & Hw' & Hfb).
  exists file, b. split; [unfold adf_to_bytes; rewrite Hs; exact Hw'|]. split; [|exact Hsame].
  unfold adf_from_bytes. rewrite Hfb. exact Hl.
Qed.

(* IDF: the record is of type Bin (width / 2 must fit a byte: widths up to 511); the loader keeps nothing of it *)
Lemma idf_file_roundtrip_proof : forall dp compress p name ws d date,
  representable_idf_wide p -> p_w p <= 511 -> has_font0 p -> SauceSpec.wf (wbuf_of p name ws) -> length d = 8%nat -> dp d = Some date ->
  exists file b, idf_to_bytes compress true p name ws d = Ok file /\ idf_from_bytes dp file = Ok b /\
                 same_picture true [0%N] p (pic_of b).
Proof.
  intros dp comp p name ws d date Hr Hw Hf0 Hwf Hd Hdp.
  destruct (idf_roundtrip_wide_proof comp p Hr) as (data & b & Hs & Hl & Hsame).
  pose proof Hr as (_ & Hw1 & _).
  assert (Hq : Z.quot (p_w p) 2 <= 255).
  { assert (Z.quot (p_w p) 2 < 256) by (apply Z.quot_lt_upper_bound; lia). lia. }
  destruct (sauce_glue dp Sauce.FtBin p name ws d date data (fun c _ => load_idf c) Hf0 Hwf Hd Hdp (fun _ => Hq)) as (file & Hw' & Hfb).
  exists file, b. split; [unfold idf_to_bytes; rewrite Hs; exact Hw'|]. split; [|exact Hsame].
  unfold idf_from_bytes. rewrite Hfb. exact Hl.
Qed.

(* ------------------------------------------------------------------ re-save of whole Tundra files *)
(* the width SauceData::extract reports is a u16 (or twice a u8): never negative (same statement as C02's
   extract_width_nonneg, proved here again to keep this file independent of C02's dispatch table) *)
Lemma interpret_width_nonneg dt ft t1 t2 f ti : 0 <= t1 ->
  0 <= fst (fst (fst (fst (fst (fst (Sauce.interpret dt ft t1 t2 f ti)))))).
Proof.
  intro H. unfold Sauce.interpret.
  repeat match goal with |- context [if ?c then _ else _] => destruct c end; cbn [fst]; first [apply N2Z.is_nonneg | lia].
Qed.

Ltac inv_extract H :=
  repeat (cbn [Sauce.bind] in H;
          match type of H with
          | Sauce.bind ?r _ = _ => let E := fresh "E" in destruct r eqn:E; cbn [Sauce.bind] in H; try discriminate H
          | (if ?c then _ else _) = _ => destruct c; try discriminate H
          | match ?x with _ => _ end = _ => let E := fresh "E" in destruct x eqn:E; try discriminate H
          end).

Lemma extract_width_nonneg' dp data m : Sauce.extract dp data = Sauce.Ok (Some m) -> 0 <= Sauce.s_width m.
Proof.
  unfold Sauce.extract. intro H.
  inv_extract H.
  injection H as <-. cbn [Sauce.s_width].
  match goal with E : Sauce.interpret ?dt ?ft ?t1 ?t2 ?f ?ti = _ |- _ =>
    pose proof (interpret_width_nonneg dt ft t1 t2 f ti ltac:(lia)) as Hw; rewrite E in Hw; exact Hw end.
Qed.

Lemma load_tnd_fonts data s b : load_tnd data s = Ok b -> b_fonts b = [(0%N, default_font)].
Proof.
  unfold load_tnd. intro H.
  destruct (length data <? _)%nat; [discriminate|]. destruct data as [|v rest]; [discriminate|].
  destruct (negb _); [discriminate|].
  match type of H with bind ?r _ = _ => destruct r as [[L pal]| |]; cbn [bind] in H; try discriminate H end.
  injection H as <-. cbn [b_fonts set_height set_width set_pal set_layer set_modes set_ice].
  destruct s as [s|]; [|reflexivity]. unfold set_sauce.
  destruct ((s_w s =? 0) || (s_w s >? 1000)); destruct (s_ice s); reflexivity.
Qed.

(* every .tnd file Buffer::from_bytes accepts - ANY SAUCE record or none: what extract hands the loader is always acceptable -
   is written back (with its SAUCE record) and read again as the same picture; the three size conditions are the u32
   colour-index limits of the format model (see notes/C05.md), not conditions on the SAUCE record any more *)
Lemma tnd_file_resave_proof : forall dp bytes b,
  is_bytes bytes -> tnd_from_bytes dp bytes = Ok b ->
  0 <= b_h b -> b_w b * b_h b < 1073741824 -> (N.of_nat (length bytes) < 536870912)%N ->
  forall name ws d date, SauceSpec.wf (wbuf_of (pic_of b) name ws) -> length d = 8%nat -> dp d = Some date ->
  exists file' b', tnd_to_bytes true (pic_of b) name ws d = Ok file' /\ tnd_from_bytes dp file' = Ok b' /\
                   same_picture_rgb (pic_of b) (pic_of b').
Proof.
  intros dp bytes b Hbytes Hload Hh0 Hsz Hlen name ws d date Hwf Hd Hdp.
  unfold tnd_from_bytes, from_bytes_with in Hload.
  destruct (Sauce.split dp bytes) as [[content m]|e|s0] eqn:Es; cbn [lift bind] in Hload; try discriminate.
  destruct (SauceProofs.split_is_prefix_proof dp bytes content m Es) as (cut & Hcut & Hm).
  assert (Hc : is_bytes content) by (unfold is_bytes in *; rewrite Hcut in Hbytes; apply Forall_app in Hbytes; apply Hbytes).
  assert (Hcl : (N.of_nat (length content) < 536870912)%N) by (rewrite Hcut, app_length in Hlen; lia).
  assert (Hs : tnd_sauce_like (option_map sauce_view m)).
  { destruct m as [sm|]; [|exact I]. destruct Hm as (_ & He). cbn. eapply extract_width_nonneg', He. }
  apply tnd_fixed_agrees in Hload.
  pose proof (tnd_load_representable content _ b Hc Hs Hload Hh0 Hsz Hcl) as Hr.
  apply (tnd_file_roundtrip_proof dp (pic_of b) name ws d date Hr); try assumption.
  exists default_font. cbn [pic_of p_fonts]. rewrite (load_tnd_fonts _ _ _ Hload). reflexivity.
Qed.
