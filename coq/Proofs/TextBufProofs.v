(* Lemmas about the non-terminal buffer of Model/TextBuf.v: what a printed cell does to the picture
   (the `view`), to the caret and to the number of lines; the layout theorem for the abstract loader
   `lay` (rows of cells, end-of-line after every row that is not full width and not the last). *)
From Coq Require Import NArith Bool List Arith Lia.
From IE Require Import Lib.Tbl Gen.Codepage Gen.TextFmt Model.Attr Model.TextBuf.
Import ListNotations.

(* ---------- set_pad ---------- *)
Lemma set_pad_length {A} (d : A) l i v : length (set_pad d l i v) = Nat.max (length l) (S i).
Proof.
  revert l; induction i as [|i IH]; intros [|h t]; cbn [set_pad length]; try rewrite IH; cbn [length]; lia.
Qed.

Lemma set_pad_nth_error {A} (d : A) l i v j :
  nth_error (set_pad d l i v) j =
  if j =? i then Some v else if j <? length l then nth_error l j else if j <? i then Some d else None.
Proof.
  revert l j; induction i as [|i IH]; intros [|h t] [|j]; cbn [set_pad nth_error length]; try reflexivity.
  all: try (destruct j; reflexivity).
  - change (S j =? 0) with false. change (S j <? S (length t)) with (j <? length t). cbv iota.
    destruct (j <? length t) eqn:E; [reflexivity|]. apply Nat.ltb_ge in E. apply nth_error_None. exact E.
  - rewrite IH. cbn [length]. change (S j =? S i) with (j =? i). change (S j <? S i) with (j <? i).
    destruct (j =? i); [reflexivity|]. destruct j; reflexivity.
  - rewrite IH. change (S j =? S i) with (j =? i). change (S j <? S (length t)) with (j <? length t).
    change (S j <? S i) with (j <? i). reflexivity.
Qed.

(* ---------- view ---------- *)
Lemma invisible_not_visible : is_visible invisible = false.
Proof. reflexivity. Qed.

Lemma nth_error_repeat {A} (a : A) n i : nth_error (repeat a n) i = if i <? n then Some a else None.
Proof.
  revert i; induction n as [|n IH]; intros [|i]; cbn [repeat nth_error]; try reflexivity.
  rewrite IH. reflexivity.
Qed.

Definition vis (c : cell) : option cell := if is_visible c then Some c else None.

Lemma view_alt ls x y :
  view ls x y = match nth_error ls y with
                | Some l => match nth_error l x with Some c => vis c | None => None end
                | None => None end.
Proof. reflexivity. Qed.

Lemma nth_nth_error {A} (l : list A) i d : nth i l d = match nth_error l i with Some v => v | None => d end.
Proof. revert i; induction l as [|h t IH]; intros [|i]; cbn; auto. Qed.

Lemma view_layer_set w ls h x y c x' y' :
  x < w -> y < h ->
  view (layer_set w ls h x y c) x' y' = if (x' =? x) && (y' =? y) then vis c else view ls x' y'.
Proof.
  intros Hx Hy. unfold layer_set.
  replace (w <=? x) with false by (symmetry; apply Nat.leb_gt; lia).
  replace (h <=? y) with false by (symmetry; apply Nat.leb_gt; lia).
  cbn [orb]. rewrite !view_alt. rewrite set_pad_nth_error.
  destruct (Nat.eqb_spec y' y) as [->|Hne].
  - rewrite andb_true_r. rewrite set_pad_nth_error.
    destruct (Nat.eqb_spec x' x) as [->|Hxne]; [reflexivity|].
    rewrite nth_nth_error.
    destruct (nth_error ls y) as [l|] eqn:El.
    + destruct (x' <? length l) eqn:E1; [reflexivity|].
      apply Nat.ltb_ge in E1. rewrite (proj2 (nth_error_None l x')) by lia.
      destruct (x' <? x); reflexivity.
    + rewrite repeat_length, nth_error_repeat.
      destruct (x' <? w); [reflexivity|]. destruct (x' <? x); reflexivity.
  - rewrite andb_false_r.
    destruct (y' <? length ls) eqn:E1; [reflexivity|].
    apply Nat.ltb_ge in E1. rewrite (proj2 (nth_error_None ls y')) by lia.
    destruct (y' <? y); [|reflexivity].
    rewrite nth_error_repeat. destruct (x' <? w); reflexivity.
Qed.

Lemma layer_set_length w ls h x y c :
  x < w -> y < h -> length (layer_set w ls h x y c) = Nat.max (length ls) (S y).
Proof.
  intros Hx Hy. unfold layer_set.
  replace (w <=? x) with false by (symmetry; apply Nat.leb_gt; lia).
  replace (h <=? y) with false by (symmetry; apply Nat.leb_gt; lia).
  cbn [orb]. apply set_pad_length.
Qed.

Lemma view_app_empty ls k x y : view (ls ++ repeat [] k) x y = view ls x y.
Proof.
  rewrite !view_alt.
  destruct (Nat.lt_ge_cases y (length ls)) as [H|H].
  - rewrite nth_error_app1 by exact H. reflexivity.
  - rewrite nth_error_app2 by exact H. rewrite (proj2 (nth_error_None ls y)) by exact H.
    rewrite nth_error_repeat. destruct (_ <? _); [|reflexivity]. destruct x; reflexivity.
Qed.

Lemma view_lf p x y : view (lines (lf p)) x y = view (lines p) x y.
Proof. unfold lf. cbn [lines]. apply view_app_empty. Qed.

(* ---------- one printed cell ---------- *)
Definition put (w : nat) (p : pbuf) (c : cell) : pbuf := print_char w (set_attr p (cat c)) c.

Lemma print_char_view w p c x y :
  px p < w ->
  view (lines (print_char w p c)) x y = if (x =? px p) && (y =? py p) then vis c else view (lines p) x y.
Proof.
  intro Hx. unfold print_char. cbn [px].
  destruct (w <=? S (px p)); [rewrite view_lf|]; cbn [lines]; apply view_layer_set; lia.
Qed.

Lemma print_char_attr w p c : pattr (print_char w p c) = pattr p.
Proof. unfold print_char. cbn [px]. destruct (w <=? S (px p)); reflexivity. Qed.

Lemma print_char_lh w p c : lh (print_char w p c) = Nat.max (lh p) (S (py p)).
Proof. unfold print_char. cbn [px]. destruct (w <=? S (px p)); reflexivity. Qed.

Lemma print_char_pos w p c :
  px p < w ->
  (S (px p) < w /\ px (print_char w p c) = S (px p) /\ py (print_char w p c) = py p) \/
  (S (px p) = w /\ px (print_char w p c) = 0 /\ py (print_char w p c) = S (py p)).
Proof.
  intro Hx. unfold print_char. cbn [px].
  destruct (Nat.leb_spec w (S (px p))); [right|left]; cbn; lia.
Qed.

(* number of lines: K p  :=  length (lines p) <= S (py p) *)
Lemma print_char_length w p c :
  px p < w -> length (lines p) <= S (py p) ->
  (S (px p) < w /\ length (lines (print_char w p c)) = S (py p)) \/
  (S (px p) = w /\ length (lines (print_char w p c)) = S (S (py p)) /\
   nth_error (lines (print_char w p c)) (S (py p)) = Some []).
Proof.
  intros Hx HK. unfold print_char. cbn [px].
  assert (HL : length (layer_set w (lines p) (Nat.max (lh p) (S (py p))) (px p) (py p) c) = S (py p))
    by (rewrite layer_set_length by lia; lia).
  destruct (Nat.leb_spec w (S (px p))); [right|left].
  - split; [lia|]. unfold lf. cbn [lines py]. rewrite app_length, repeat_length, HL.
    split; [lia|]. rewrite nth_error_app2 by lia. rewrite HL.
    replace (S (S (py p)) - S (py p)) with 1 by lia. replace (S (py p) - S (py p)) with 0 by lia. reflexivity.
  - cbn [lines]. split; [lia|exact HL].
Qed.

Lemma lf_length p :
  length (lines p) <= S (py p) ->
  length (lines (lf p)) = S (S (py p)) /\ nth_error (lines (lf p)) (S (py p)) = Some [].
Proof.
  intro HK. unfold lf. cbn [lines]. rewrite app_length, repeat_length. split; [lia|].
  destruct (Nat.eq_dec (length (lines p)) (S (py p))) as [E|E].
  - rewrite nth_error_app2 by lia. rewrite E. replace (S (S (py p)) - S (py p)) with 1 by lia.
    replace (S (py p) - S (py p)) with 0 by lia. reflexivity.
  - rewrite nth_error_app2 by lia. rewrite nth_error_repeat.
    replace (S (py p) - length (lines p) <? S (S (py p)) - length (lines p)) with true; [reflexivity|].
    symmetry. apply Nat.ltb_lt. lia.
Qed.

(* ---------- a run of printed cells ---------- *)
Definition puts (w : nat) (p : pbuf) (cs : list cell) : pbuf := fold_left (put w) cs p.

Lemma put_attr w p c : pattr (put w p c) = cat c.
Proof. unfold put. rewrite print_char_attr. reflexivity. Qed.

Lemma put_view w p c x y : px p < w ->
  view (lines (put w p c)) x y = if (x =? px p) && (y =? py p) then vis c else view (lines p) x y.
Proof. intro H. unfold put. rewrite print_char_view by exact H. reflexivity. Qed.
Lemma put_lh w p c : lh (put w p c) = Nat.max (lh p) (S (py p)).
Proof. unfold put. rewrite print_char_lh. reflexivity. Qed.
Lemma put_pos w p c : px p < w ->
  (S (px p) < w /\ px (put w p c) = S (px p) /\ py (put w p c) = py p) \/
  (S (px p) = w /\ px (put w p c) = 0 /\ py (put w p c) = S (py p)).
Proof. intro H. exact (print_char_pos w (set_attr p (cat c)) c H). Qed.
Lemma put_length w p c : px p < w -> length (lines p) <= S (py p) ->
  (S (px p) < w /\ length (lines (put w p c)) = S (py p)) \/
  (S (px p) = w /\ length (lines (put w p c)) = S (S (py p)) /\ nth_error (lines (put w p c)) (S (py p)) = Some []).
Proof. intros H K. exact (print_char_length w (set_attr p (cat c)) c H K). Qed.

Lemma puts_attr w p cs : pattr (puts w p cs) = match rev cs with [] => pattr p | c :: _ => cat c end.
Proof.
  unfold puts. revert p; induction cs as [|c t IH]; intro p; [reflexivity|].
  cbn [fold_left]. rewrite IH. cbn [rev]. destruct (rev t) as [|d r] eqn:E; cbn [app].
  - apply put_attr.
  - reflexivity.
Qed.

Definition in_run (x0 y0 n x y : nat) : bool := (y =? y0) && (x0 <=? x) && (x <? x0 + n).

Lemma puts_spec w p cs :
  px p < w -> px p + length cs <= w ->
  let q := puts w p cs in
  (forall x y, view (lines q) x y =
     if in_run (px p) (py p) (length cs) x y then match nth_error cs (x - px p) with Some c => vis c | None => None end
     else view (lines p) x y) /\
  ((px p + length cs < w /\ px q = px p + length cs /\ py q = py p) \/
   (px p + length cs = w /\ cs <> [] /\ px q = 0 /\ py q = S (py p))) /\
  lh q = (match cs with [] => lh p | _ => Nat.max (lh p) (S (py p)) end).
Proof.
  unfold puts. revert p; induction cs as [|c t IH]; intros p Hx Hlen; cbn [fold_left length] in *.
  - split; [|split].
    + intros x y. unfold in_run.
      destruct (Nat.leb_spec (px p) x); [|rewrite andb_false_r; reflexivity].
      replace (x <? px p + 0) with false by (symmetry; apply Nat.ltb_ge; lia). rewrite andb_false_r. reflexivity.
    + left. lia.
    + reflexivity.
  - pose proof (put_view w p c) as Hv1. pose proof (put_lh w p c) as Hlh1.
    destruct (put_pos w p c Hx) as [(Hlt & Hpx & Hpy)|(Heq & Hpx & Hpy)]; set (p1 := put w p c) in *.
    + assert (Hx1 : px p1 < w) by lia.
      assert (Hlen1 : px p1 + length t <= w) by lia.
      destruct (IH p1 Hx1 Hlen1) as (IHv & IHpos & IHlh).
      split; [|split].
      * intros x y. rewrite IHv, Hpx, Hpy, Hv1 by exact Hx. unfold in_run.
        destruct (Nat.eqb_spec y (py p)) as [->|Hy]; cbn [andb]; [|rewrite andb_false_r; reflexivity].
        rewrite andb_true_r.
        destruct (Nat.eqb_spec x (px p)) as [->|Hxx].
        -- replace (S (px p) <=? px p) with false by (symmetry; apply Nat.leb_gt; lia). cbn [andb].
           rewrite Nat.leb_refl. replace (px p <? px p + S (length t)) with true by (symmetry; apply Nat.ltb_lt; lia).
           cbn [andb]. rewrite Nat.sub_diag. reflexivity.
        -- destruct (Nat.leb_spec (S (px p)) x) as [H1|H1].
           ++ replace (px p <=? x) with true by (symmetry; apply Nat.leb_le; lia). cbn [andb].
              replace (x <? px p + S (length t)) with (x <? S (px p) + length t)
                by (f_equal; lia).
              destruct (x <? S (px p) + length t) eqn:E2; [|reflexivity].
              replace (x - px p) with (S (x - S (px p))) by lia. reflexivity.
           ++ cbn [andb]. replace (px p <=? x) with false by (symmetry; apply Nat.leb_gt; lia). reflexivity.
      * rewrite Hpx, Hpy in IHpos. destruct IHpos as [(A & B & C)|(A & B & C & D)]; [left|right].
        -- split; [lia|]. split; [lia|exact C].
        -- split; [lia|]. split; [discriminate|]. split; assumption.
      * rewrite IHlh, Hlh1, Hpy. destruct t; lia.
    + assert (t = []) by (destruct t; [reflexivity|cbn [length] in Hlen; lia]). subst t. cbn [fold_left length].
      split; [|split].
      * intros x y. rewrite Hv1 by exact Hx. unfold in_run.
        destruct (Nat.eqb_spec y (py p)) as [->|Hy]; cbn [andb]; [|rewrite andb_false_r; reflexivity].
        rewrite andb_true_r.
        destruct (Nat.eqb_spec x (px p)) as [->|Hxx].
        -- rewrite Nat.leb_refl. replace (px p <? px p + 1) with true by (symmetry; apply Nat.ltb_lt; lia).
           rewrite Nat.sub_diag. reflexivity.
        -- destruct (Nat.leb_spec (px p) x); cbn [andb]; [|reflexivity].
           replace (x <? px p + 1) with false by (symmetry; apply Nat.ltb_ge; lia). reflexivity.
      * right. split; [lia|]. split; [discriminate|]. split; assumption.
      * exact Hlh1.
Qed.

Lemma puts_length w p cs :
  px p < w -> px p + length cs <= w -> cs <> [] -> length (lines p) <= S (py p) ->
  let q := puts w p cs in
  (px p + length cs < w /\ length (lines q) = S (py p)) \/
  (px p + length cs = w /\ length (lines q) = S (S (py p)) /\ nth_error (lines q) (S (py p)) = Some []).
Proof.
  unfold puts. revert p; induction cs as [|c t IH]; intros p Hx Hlen Hne HK; [congruence|].
  cbn [fold_left length] in *.
  destruct (put_length w p c Hx HK) as [(Hlt & HL)|(Heq & HL & Hnth)].
  - destruct (put_pos w p c Hx) as [(_ & Hpx & Hpy)|(Heq & _)]; [|lia]. set (p1 := put w p c) in *.
    destruct t as [|d t'].
    + left. cbn [fold_left length]. split; [lia|exact HL].
    + assert (Hx1 : px p1 < w) by lia.
      assert (Hl1 : px p1 + length (d :: t') <= w) by (cbn [length] in *; lia).
      assert (HK1 : length (lines p1) <= S (py p1)) by lia.
      destruct (IH p1 Hx1 Hl1 ltac:(discriminate) HK1) as [(A & B)|(A & B & C)]; [left|right];
        rewrite ?Hpx, ?Hpy in *; cbn [length] in *.
      * split; [lia|exact B].
      * split; [lia|]. split; assumption.
  - assert (t = []) by (destruct t; [reflexivity|cbn [length] in Hlen; lia]). subst t. cbn [fold_left length].
    right. split; [lia|]. split; assumption.
Qed.

(* ---------- the abstract loader ---------- *)
Fixpoint lay (w h : nat) (p : pbuf) (rows : list (list cell)) (y : nat) : pbuf :=
  match rows with
  | [] => p
  | r :: rest =>
    let p1 := puts w p r in
    let p2 := if (length r <? w) && (S y <? h) then lf p1 else p1 in
    lay w h p2 rest (S y)
  end.

Definition spec_view (rows : list (list cell)) (x y : nat) : option cell :=
  match nth_error rows y with
  | Some r => match nth_error r x with Some c => vis c | None => None end
  | None => None
  end.

(* rows y0.. are laid out from a caret at (0, y0); h = y0 + number of rows *)
Lemma lay_view w h rows : 0 < w ->
  forall p y0, h = y0 + length rows -> Forall (fun r => length r <= w) rows ->
  px p = 0 -> py p = y0 ->
  (forall x y, y0 <= y -> view (lines p) x y = None) ->
  forall x y, view (lines (lay w h p rows y0)) x y =
              if y <? y0 then view (lines p) x y else spec_view rows x (y - y0).
Proof.
  intro Hw. induction rows as [|r rest IH]; intros p y0 Hh Hlen Hpx Hpy Hnone x y.
  - cbn [lay]. destruct (Nat.ltb_spec y y0); [reflexivity|]. rewrite Hnone by lia.
    unfold spec_view. destruct (y - y0); reflexivity.
  - cbn [lay]. cbn [length] in Hh. inversion Hlen as [|? ? Hr Hrest]; subst.
    assert (Hx0 : px p < w) by lia.
    assert (Hl0 : px p + length r <= w) by lia.
    destruct (puts_spec w p r Hx0 Hl0) as (Hv & Hpos & _).
    set (p1 := puts w p r) in *.
    set (p2 := if (length r <? w) && (S (py p) <? py p + S (length rest)) then lf p1 else p1).
    assert (Hv2 : forall x y, view (lines p2) x y = view (lines p1) x y).
    { intros. unfold p2. destruct (_ && _); [apply view_lf|reflexivity]. }
    (* caret after the row *)
    assert (Hcar : (px p2 = 0 /\ py p2 = S (py p)) \/ (rest = [] /\ True)).
    { unfold p2. destruct (Nat.ltb_spec (length r) w) as [Hlt|Hge]; cbn [andb].
      - destruct (Nat.ltb_spec (S (py p)) (py p + S (length rest))) as [H2|H2].
        + left. unfold lf. cbn [px py]. destruct Hpos as [(_ & _ & Hy)|(Hc & _ & _ & Hy)]; lia.
        + right. destruct rest; [auto|cbn [length] in H2; lia].
      - destruct Hpos as [(A & _)|(_ & _ & B & C)]; [lia|]. left. lia. }
    destruct Hcar as [(Hpx2 & Hpy2)|(-> & _)].
    + assert (Hnone2 : forall x y, S (py p) <= y -> view (lines p2) x y = None).
      { intros x' y' Hy'. rewrite Hv2, Hv. unfold in_run.
        replace (y' =? py p) with false by (symmetry; apply Nat.eqb_neq; lia). cbn [andb]. apply Hnone. lia. }
      rewrite (IH p2 (S (py p)) ltac:(lia) Hrest Hpx2 Hpy2 Hnone2).
      destruct (Nat.ltb_spec y (S (py p))) as [Hlt|Hge].
      * rewrite Hv2, Hv. unfold in_run. rewrite Hpx. cbn [Nat.leb]. rewrite andb_true_r. cbn [plus].
        destruct (Nat.ltb_spec y (py p)) as [H3|H3].
        -- replace (y =? py p) with false by (symmetry; apply Nat.eqb_neq; lia). reflexivity.
        -- assert (y = py p) by lia. subst y. rewrite Nat.eqb_refl. cbn [andb]. rewrite Nat.sub_diag.
           unfold spec_view. cbn [nth_error]. rewrite Nat.sub_0_r.
           destruct (Nat.ltb_spec x (length r)) as [H4|H4]; [reflexivity|].
           rewrite (proj2 (nth_error_None r x)) by lia. apply Hnone. lia.
      * replace (y <? py p) with false by (symmetry; apply Nat.ltb_ge; lia).
        unfold spec_view. replace (y - py p) with (S (y - S (py p))) by lia. reflexivity.
    + cbn [lay]. rewrite Hv2, Hv. unfold in_run. rewrite Hpx. cbn [Nat.leb]. rewrite andb_true_r. cbn [plus].
      destruct (Nat.ltb_spec y (py p)) as [H3|H3].
      * replace (y =? py p) with false by (symmetry; apply Nat.eqb_neq; lia). reflexivity.
      * destruct (Nat.eqb_spec y (py p)) as [->|Hy].
        -- cbn [andb]. rewrite Nat.sub_diag. unfold spec_view. cbn [nth_error]. rewrite Nat.sub_0_r.
           destruct (Nat.ltb_spec x (length r)) as [H4|H4]; [reflexivity|].
           rewrite (proj2 (nth_error_None r x)) by lia. apply Hnone. lia.
        -- cbn [andb]. rewrite Hnone by lia. unfold spec_view.
           replace (y - py p) with (S (y - S (py p))) by lia. cbn [nth_error].
           destruct (y - S (py p)); reflexivity.
Qed.

Lemma lh_lf p : lh (lf p) = lh p.
Proof. reflexivity. Qed.

(* number of lines and layer height after the abstract loader, when the last row is not empty *)
Lemma lay_length w h rows : 0 < w ->
  forall p y0, h = y0 + length rows -> rows <> [] -> Forall (fun r => length r <= w) rows -> last rows [] <> [] ->
  px p = 0 -> py p = y0 -> length (lines p) <= S y0 ->
  let q := lay w h p rows y0 in
  ((length (last rows []) < w /\ length (lines q) = h) \/
   (length (last rows []) = w /\ length (lines q) = S h /\ nth_error (lines q) h = Some [])) /\
  h <= lh q.
Proof.
  intro Hw. induction rows as [|r rest IH]; intros p y0 Hh Hne Hlen Hlast Hpx Hpy HK; [congruence|].
  cbn [lay]. cbn [length] in Hh. inversion Hlen as [|? ? Hr Hrest]; subst.
  assert (Hx0 : px p < w) by lia.
  assert (Hl0 : px p + length r <= w) by lia.
  destruct (puts_spec w p r Hx0 Hl0) as (_ & Hpos & Hlh).
  destruct rest as [|r2 rest'].
  - (* last row *)
    cbn [last] in Hlast. cbn [lay last length].
    replace (S (py p) <? py p + 1) with false by (symmetry; apply Nat.ltb_ge; lia). rewrite andb_false_r.
    destruct (puts_length w p r Hx0 Hl0 Hlast HK) as [(A & B)|(A & B & C)].
    + split; [left; split; [lia|lia]|]. rewrite Hlh. destruct r; [congruence|lia].
    + split; [right; split; [lia|]; split; [lia|]|].
      * replace (py p + 1) with (S (py p)) by lia. exact C.
      * rewrite Hlh. destruct r; [congruence|lia].
  - set (rest := r2 :: rest') in *.
    assert (Hlast' : last rest [] <> []) by exact Hlast.
    replace (last (r :: rest) []) with (last rest []) by reflexivity.
    set (p1 := puts w p r) in *.
    assert (Hc : S (py p) <? py p + S (length rest) = true) by (apply Nat.ltb_lt; unfold rest; cbn [length]; lia).
    rewrite Hc, andb_true_r.
    set (p2 := if length r <? w then lf p1 else p1).
    assert (H2 : px p2 = 0 /\ py p2 = S (py p) /\ length (lines p2) <= S (S (py p))).
    { unfold p2. destruct r as [|c r'].
      - cbn [length]. replace (0 <? w) with true by (symmetry; apply Nat.ltb_lt; lia).
        unfold p1, puts. cbn [fold_left]. destruct (lf_length p HK) as (A & _). unfold lf at 1 2. cbn [px py]. lia.
      - destruct (puts_length w p (c :: r') Hx0 Hl0 ltac:(discriminate) HK) as [(A & B)|(A & B & C)]; fold p1 in B.
        + replace (length (c :: r') <? w) with true by (symmetry; apply Nat.ltb_lt; lia).
          assert (HK1 : length (lines p1) <= S (py p1)).
          { destruct Hpos as [(_ & _ & E)|(E0 & _)]; lia. }
          destruct (lf_length p1 HK1) as (A1 & _).
          destruct Hpos as [(_ & _ & E)|(E0 & _)]; [|lia]. unfold lf at 1 2. cbn [px py]. lia.
        + replace (length (c :: r') <? w) with false by (symmetry; apply Nat.ltb_ge; lia).
          destruct Hpos as [(E0 & _)|(_ & _ & E1 & E2)]; lia. }
    destruct H2 as (Hpx2 & Hpy2 & HK2).
    destruct (IH p2 (S (py p)) ltac:(lia) ltac:(discriminate) Hrest Hlast' Hpx2 Hpy2 HK2) as (A & B).
    split; assumption.
Qed.

(* ---------- crop_loaded_file ---------- *)
Lemma nth_error_firstn {A} (l : list A) n i : i < n -> nth_error (firstn n l) i = nth_error l i.
Proof.
  revert l i; induction n as [|n IH]; intros l i H; [lia|].
  destruct l as [|a t]; [destruct i; reflexivity|]. destruct i; [reflexivity|]. cbn. apply IH. lia.
Qed.

Lemma last_nth_error {A} (l : list A) d v : nth_error l (length l - 1) = Some v -> last l d = v.
Proof.
  induction l as [|a t IH]; [discriminate|].
  destruct t as [|b t']; cbn [length nth_error last Nat.sub]; [intro H; inversion H; reflexivity|].
  intro H. apply IH. cbn [length Nat.sub]. rewrite Nat.sub_0_r. exact H.
Qed.

Lemma crop_lines_stop fuel ls l : nth_error ls (length ls - 1) = Some l -> l <> [] -> crop_lines fuel ls = ls.
Proof.
  intros H Hne. destruct fuel; [reflexivity|]. cbn [crop_lines].
  rewrite (last_nth_error ls [blank] l H). destruct l; [congruence|]. rewrite andb_false_r. reflexivity.
Qed.

Lemma removelast_firstn_len {A} (l : list A) : removelast l = firstn (length l - 1) l.
Proof.
  induction l as [|a t IH]; [reflexivity|]. destruct t as [|b t']; [reflexivity|].
  change (removelast (a :: b :: t')) with (a :: removelast (b :: t')). rewrite IH.
  cbn [length Nat.sub]. rewrite Nat.sub_0_r. reflexivity.
Qed.

Lemma crop_spec p h :
  0 < h ->
  (length (lines p) = h \/ (length (lines p) = S h /\ nth_error (lines p) h = Some [])) ->
  (exists l, nth_error (lines p) (h - 1) = Some l /\ l <> []) ->
  lines (crop p) = firstn h (lines p) /\ lh (crop p) = h.
Proof.
  intros Hh Hlen (l & Hl & Hne).
  assert (E : crop_lines (length (lines p)) (lines p) = firstn h (lines p)).
  { destruct Hlen as [A|(A & B)].
    - rewrite (crop_lines_stop _ _ l) by (rewrite ?A; assumption). rewrite <- A. symmetry. apply firstn_all.
    - rewrite A. cbn [crop_lines]. rewrite A.
      replace (1 <? S h) with true by (symmetry; apply Nat.ltb_lt; lia).
      rewrite (last_nth_error (lines p) [blank] []) by (rewrite A; cbn [Nat.sub]; rewrite Nat.sub_0_r; exact B).
      cbn [andb]. rewrite removelast_firstn_len, A. cbn [Nat.sub]. rewrite Nat.sub_0_r.
      apply (crop_lines_stop _ _ l); [|exact Hne].
      rewrite firstn_length, A. replace (Nat.min h (S h)) with h by lia.
      rewrite nth_error_firstn by lia. exact Hl. }
  unfold crop. cbn [lines lh]. rewrite E. split; [reflexivity|].
  rewrite firstn_length. destruct Hlen as [A|(A & _)]; lia.
Qed.


(* ---------- the source side: get_line_length ---------- *)
Lemma line_length_aux r n : forall s acc,
  acc <= s ->
  (forall x, acc <= x -> x < s -> is_transparent (row_get r x) = true) ->
  (0 < acc -> is_transparent (row_get r (acc - 1)) = false) ->
  let L := fold_left (fun len x => if is_transparent (row_get r x) then len else S x) (seq s n) acc in
  L <= s + n /\
  (forall x, L <= x -> x < s + n -> is_transparent (row_get r x) = true) /\
  (0 < L -> is_transparent (row_get r (L - 1)) = false).
Proof.
  induction n as [|n IH]; intros s acc Hle Htr Hlast; cbn [seq fold_left].
  - split; [lia|]. split; [|exact Hlast]. intros x H1 H2. apply Htr; lia.
  - destruct (is_transparent (row_get r s)) eqn:E.
    + destruct (IH (S s) acc ltac:(lia)) as (A & B & C).
      * intros x H1 H2. destruct (Nat.eq_dec x s) as [->|]; [exact E|apply Htr; lia].
      * exact Hlast.
      * split; [lia|]. split; [|exact C]. intros x H1 H2. apply B; lia.
    + destruct (IH (S s) (S s) ltac:(lia)) as (A & B & C).
      * intros; lia.
      * intros _. cbn [Nat.sub]. rewrite Nat.sub_0_r. exact E.
      * split; [lia|]. split; [|exact C]. intros x H1 H2. apply B; lia.
Qed.

Lemma line_length_spec w r :
  line_length w r <= w /\
  (forall x, line_length w r <= x -> x < w -> is_transparent (row_get r x) = true) /\
  (0 < line_length w r -> is_transparent (row_get r (line_length w r - 1)) = false).
Proof.
  unfold line_length. apply (line_length_aux r w 0 0); [lia| |]; intros; lia.
Qed.

Lemma row_cells_length w r : length (row_cells w r) = line_length w r.
Proof. unfold row_cells. rewrite map_length, seq_length. reflexivity. Qed.

Lemma nth_error_seq s n i : i < n -> nth_error (seq s n) i = Some (s + i).
Proof.
  revert s i; induction n as [|n IH]; intros s i H; [lia|]. destruct i; cbn [seq nth_error]; [f_equal; lia|].
  rewrite IH by lia. f_equal. lia.
Qed.

Lemma row_cells_nth w r x : x < line_length w r -> nth_error (row_cells w r) x = Some (row_get r x).
Proof.
  intro H. unfold row_cells. apply map_nth_error. rewrite nth_error_seq by exact H. reflexivity.
Qed.

(* layer height after the abstract loader: every printed row raises it *)
Lemma lay_lh w h rows : 0 < w ->
  forall p y0, h = y0 + length rows -> rows <> [] -> Forall (fun r => length r <= w) rows -> last rows [] <> [] ->
  px p = 0 -> py p = y0 -> h <= lh (lay w h p rows y0).
Proof.
  intro Hw. induction rows as [|r rest IH]; intros p y0 Hh Hne Hlen Hlast Hpx Hpy; [congruence|].
  cbn [lay]. cbn [length] in Hh. inversion Hlen as [|? ? Hr Hrest]; subst.
  assert (Hx0 : px p < w) by lia.
  assert (Hl0 : px p + length r <= w) by lia.
  destruct (puts_spec w p r Hx0 Hl0) as (_ & Hpos & Hlh).
  destruct rest as [|r2 rest'].
  - cbn [last] in Hlast. cbn [lay length].
    replace (S (py p) <? py p + 1) with false by (symmetry; apply Nat.ltb_ge; lia). rewrite andb_false_r.
    rewrite Hlh. destruct r; [congruence|lia].
  - set (rest := r2 :: rest') in *.
    assert (Hc : S (py p) <? py p + S (length rest) = true) by (apply Nat.ltb_lt; unfold rest; cbn [length]; lia).
    rewrite Hc, andb_true_r.
    set (p1 := puts w p r) in *.
    set (p2 := if length r <? w then lf p1 else p1).
    assert (H2 : px p2 = 0 /\ py p2 = S (py p)).
    { unfold p2. destruct (Nat.ltb_spec (length r) w) as [Hlt|Hge].
      - unfold lf. cbn [px py]. destruct Hpos as [(_ & _ & Hy)|(Hcc & _ & _ & Hy)]; lia.
      - destruct Hpos as [(A & _)|(_ & _ & B & C)]; lia. }
    destruct H2 as (Hpx2 & Hpy2).
    exact (IH p2 (S (py p)) ltac:(lia) ltac:(discriminate) Hrest Hlast Hpx2 Hpy2).
Qed.
