(* C02 — `Buffer::from_bytes` never panics: composition of the SAUCE split (C11), the extension dispatch and the loaders. *)
From Coq Require Import NArith ZArith Bool List Lia.
From IE Require Import Lib.Tbl Lib.C05Lib Lib.C02Lib Gen.Codepage Gen.Formats Gen.C02Ext Model.Attr Model.C05Buf Model.C05Bin
  Model.C05XBin Model.C05Idf Model.C05Tundra Model.C02Loaders Model.C02Icy Model.C02Dispatch Proofs.C02Proofs Proofs.C02IcyProofs.
From IE Require Model.Sauce Proofs.SauceProofs.
Import ListNotations.
Local Open Scope Z_scope.

Lemma cls_total {A} (r : res A) : total r -> cls r <> OPanic.
Proof. destruct r; cbn; intros H; [discriminate|discriminate|contradiction]. Qed.

(* the width SauceData::extract reports is a u16 (or twice a u8): never negative *)
Lemma interpret_width dt ft t1 t2 f ti : 0 <= t1 ->
  0 <= fst (fst (fst (fst (fst (fst (Sauce.interpret dt ft t1 t2 f ti)))))).
Proof.
  intro H. unfold Sauce.interpret.
  repeat match goal with |- context [if ?c then _ else _] => destruct c end; cbn [fst]; first [apply N2Z.is_nonneg | lia].
Qed.

Ltac inv_extract H :=
  repeat (cbn [Sauce.bind] in H;
          match type of H with
          | Sauce.bind ?r _ = _ => let E := fresh "E" in destruct r eqn:E; cbn [Sauce.bind] in H; try discriminate H
          | (if ?c then _ else _) = _ => destruct c; try discriminate H
          | match ?x with _ => _ end = _ => let E := fresh "E" in destruct x eqn:E; try discriminate H
          end).

Lemma extract_width_nonneg dp data m : Sauce.extract dp data = Sauce.Ok (Some m) -> 0 <= Sauce.s_width m.
Proof.
  unfold Sauce.extract. intro H.
  inv_extract H.
  injection H as <-. cbn [Sauce.s_width].
  match goal with E : Sauce.interpret ?dt ?ft ?t1 ?t2 ?f ?ti = _ |- _ =>
    pose proof (interpret_width dt ft t1 t2 f ti ltac:(lia)) as Hw; rewrite E in Hw; exact Hw end.
Qed.

Lemma split_sauce_nonneg dp data c m : Sauce.split dp data = Sauce.Ok (c, m) -> sauce_nonneg (option_map view m).
Proof.
  intro H. destruct (SauceProofs.split_is_prefix_proof dp data c m H) as (cut & _ & Hm).
  destruct m as [s|]; [|exact I]. destruct Hm as (_ & He). cbn. eapply extract_width_nonneg, He.
Qed.

Section Dispatch.
  Variable dp : list N -> option Sauce.ymd.
  Variable text_load : fmt -> list N -> option sauce -> outcome.
  Variable icy_chunks : list N -> option (list (kind * list N)).
  Variable font_ok pal_ok sauce_ok : list N -> bool.

  (* what is assumed of the nine text loaders (properties C01 / C10): see Props/C02.v *)
  Hypothesis text_safe : forall f content s, is_text f = true -> sauce_nonneg s -> text_load f content s <> OPanic.

  Lemma load_fmt_total f content s : sauce_nonneg s ->
    load_fmt text_load icy_chunks font_ok pal_ok sauce_ok f content s <> OPanic.
  Proof.
    intro Hs. destruct f; cbn [load_fmt]; try (apply text_safe; [reflexivity|exact Hs]).
    - destruct (icy_chunks content); [apply cls_total, run_chunks_total|discriminate].
    - apply cls_total, idf_total.
    - apply cls_total, bin_total, Hs.
    - apply cls_total, xb2_total.
    - apply cls_total, tnd2_total.
    - apply cls_total, adf_total.
  Qed.

  Lemma from_bytes_total ext bytes :
    from_bytes dp text_load icy_chunks font_ok pal_ok sauce_ok ext bytes <> OPanic.
  Proof.
    unfold from_bytes. pose proof (SauceProofs.split_total_proof dp bytes) as Ht.
    destruct (Sauce.split dp bytes) as [[c m]|e|s] eqn:E; [|discriminate|contradiction].
    apply load_fmt_total. eapply split_sauce_nonneg, E.
  Qed.
End Dispatch.

(* the extension table: the property's list, case-insensitively, anything else falls back to the ANSI loader *)
Lemma ext_table_sweep :
  map fmt_of_ext [[97;110;115]; [65;78;83]; [105;99;101]; [100;105;122]; [105;99;121]; [105;100;102]; [98;105;110]; [120;98]; [88;66]; [116;110;100];
                  [112;99;98]; [97;118;116]; [97;115;99]; [97;100;102]; [109;115;103]; [97;110;49]; [97;110;53]; [97;110;57]; [115;101;113]; [97;116;97];
                  [122;122;122]; []; [97;110;48]]%N
  = [FAnsi; FAnsi; FAnsi; FAnsi; FIcy; FIdf; FBin; FXb; FXb; FTnd; FPcb; FAvt; FAsc; FAdf; FMsg; FRen; FRen; FRen; FSeq; FAta; FAnsi; FAnsi; FAnsi].
Proof. vm_compute. reflexivity. Qed.

Lemma from_bytes_binary_total dp text_load icy_chunks font_ok pal_ok sauce_ok ext bytes :
  is_text (fmt_of_ext ext) = false -> from_bytes dp text_load icy_chunks font_ok pal_ok sauce_ok ext bytes <> OPanic.
Proof.
  intro Hb. unfold from_bytes. pose proof (SauceProofs.split_total_proof dp bytes) as Ht.
  destruct (Sauce.split dp bytes) as [[c m]|e|s] eqn:E; [|discriminate|contradiction].
  pose proof (split_sauce_nonneg _ _ _ _ E) as Hs.
  destruct (fmt_of_ext ext); try discriminate Hb; cbn [load_fmt].
  - destruct (icy_chunks c); [apply cls_total, run_chunks_total|discriminate].
  - apply cls_total, idf_total.
  - apply cls_total, bin_total, Hs.
  - apply cls_total, xb2_total.
  - apply cls_total, tnd2_total.
  - apply cls_total, adf_total.
Qed.
