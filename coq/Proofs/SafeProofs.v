(* C01 (partial): on a state that satisfies the C09 invariant no operation of the terminal core panics, and one
   character of the ANSI parser (any parser state, no stored macro) yields an action or an error value: no panic site
   of the model is reachable and the macro recursion is not entered.  (The two classes that used to be carved out,
   stream-supplied font and non-scalar DECFRA fill character, are repaired in the merged tree.) *)
From Coq Require Import ZArith NArith List Bool Lia.
From IE Require Import Model.TermCore Model.AnsiTok Model.Emu Proofs.TermProofs Proofs.AnsiProofs Proofs.EmuProofs.
From IE Require Lib.C17Lib Model.Font Proofs.FontDcsSafe.
Import ListNotations.
Local Open Scope Z_scope.

Definition okr (r : res term) : Prop := exists t', r = ROk t'.

(* ---- terminal core: no panic under the invariant -------------------------------------------------------------------- *)
Lemma limit_okr : forall t t0, InvG t0 -> geo t = geo t0 -> okr (limit_caret_pos t).
Proof. intros t t0 HG Hg. destruct (limit_ok t (InvG_geo _ _ Hg HG)) as (t' & E & _). exists t'. exact E. Qed.

Lemma caret_lf_okr : forall t, InvG t -> InvY t -> okr (caret_lf t).
Proof.
  intros t HG HY. pose proof HG as (Htw & Hth & Hbh & Hbw & Ho & Hm & Hl & Ht).
  unfold caret_lf.
  set (y := cy t + 1). set (t1 := set_pos t 0 y).
  set (t2 := if y >=? Z.of_nat (length (lines t1)) then set_lines t1 (lines t1 ++ repeat [] (Z.to_nat (y + 1) - length (lines t1))) else t1).
  assert (G2 : geo t2 = geo t) by (subst t2; destruct (_ >=? _); reflexivity).
  set (t3 := if y + 1 >? bh t2 then set_bh t2 (y + 1) else t2).
  destruct (cy t >? last_edit t); [|eexists; reflexivity].
  assert (HG3 : InvG t3).
  { destruct (geo_inv _ _ G2) as (H1 & H2 & H3 & H4 & H5 & H6 & H7 & H8).
    subst t3. destruct (y + 1 >? bh t2) eqn:E.
    - apply Z.gtb_lt in E. unfold InvG; cbn. rewrite ?H1, ?H2, ?H3, ?H5, ?H6, ?H7, ?H8. repeat split; auto; lia.
    - eapply InvG_geo; eauto. }
  eapply limit_okr; [exact HG3|reflexivity].
Qed.

Lemma line_insert_okr : forall row i c, 0 <= i -> exists r, line_insert_char row i c = ROk r.
Proof. intros. unfold line_insert_char. destruct (Z.ltb_spec i 0); [lia|]. eexists; reflexivity. Qed.
Lemma nth_error_resized : forall A (l : list A) n d, exists x, nth_error (if Nat.ltb (length l) (S n) then resize l (S n) d else l) n = Some x.
Proof.
  intros. destruct (Nat.ltb (length l) (S n)) eqn:E.
  - assert (n < length (resize l (S n) d))%nat by (rewrite length_resize; lia).
    destruct (nth_error (resize l (S n) d) n) eqn:Q; [eexists; reflexivity|]. apply nth_error_None in Q. lia.
  - apply Nat.ltb_ge in E. destruct (nth_error l n) eqn:Q; [eexists; reflexivity|]. apply nth_error_None in Q. lia.
Qed.
Lemma first_nonneg : forall t, 0 <= first t. Proof. intro. unfold first. lia. Qed.

Lemma print_char_okr : forall t c, Inv09 t -> okr (print_char t c).
Proof.
  intros t c [HG [HX HY]]. pose proof (first_nonneg t) as HF. unfold InvX in HX. unfold InvY in HY.
  unfold print_char.
  match goal with |- okr (bind ?r _) => assert (E1 : exists t1, r = ROk t1 /\ pgeo t1 = pgeo t) end.
  { destruct (ins t); [|eexists; split; reflexivity].
    destruct (Z.ltb_spec (cy t) 0); [lia|]. cbn zeta.
    destruct (nth_error_resized _ (lines t) (Z.to_nat (cy t)) []) as [row Q]. rewrite Q.
    destruct (line_insert_okr row (cx t) blank (proj1 HX)) as [r Er]. rewrite Er. cbn. eexists; split; reflexivity. }
  destruct E1 as (t1 & E1 & P1). rewrite E1. cbn [bind].
  set (t2 := if cy t1 + 1 >? lh t1 then set_lh t1 (cy t1 + 1) else t1).
  assert (P2 : pgeo t2 = pgeo t) by (subst t2; destruct (_ >? _); [rewrite pgeo_set_lh|]; exact P1).
  set (t3 := if cy t2 + 1 >? bh t2 then set_bh t2 (cy t2 + 1) else t2).
  assert (P3 : pgeo t3 = pgeo t).
  { subst t3. destruct (pgeo_inv _ _ P2) as (Hg2 & _ & H10). destruct (geo_inv _ _ Hg2) as (_ & _ & _ & H4 & _).
    pose proof (InvY_first t HG).
    destruct (cy t2 + 1 >? bh t2) eqn:E; [|exact P2]. apply Z.gtb_lt in E. rewrite H10, H4 in E. lia. }
  set (t4 := layer_set t3 (cx t3) (cy t3) c).
  assert (P4 : pgeo t4 = pgeo t) by (subst t4; rewrite pgeo_layer_set; exact P3).
  set (t5 := set_cx t4 (cx t4 + 1)).
  destruct (pgeo_inv _ _ P4) as (Hg & Hx & Hy).
  assert (G5 : geo t5 = geo t) by exact Hg.
  assert (Y5 : cy t5 = cy t) by exact Hy.
  destruct (cx t5 >=? tw t5); [|eexists; reflexivity].
  destruct (awrap t5); [|eexists; reflexivity].
  apply caret_lf_okr; [eapply InvG_geo; eauto|].
  unfold InvY. rewrite (first_geo _ _ G5), Y5. destruct (geo_inv _ _ G5) as (H1 & H2 & _). rewrite H2. exact HY.
Qed.

Lemma erase_loop_okr : forall n row i c, 0 <= i -> exists r, erase_loop row i c n = ROk r.
Proof.
  induction n as [|k IH]; intros row i c Hi; cbn; [eexists; reflexivity|].
  unfold line_set_char. destruct (Z.ltb_spec i 0); [lia|]. cbn. apply IH. lia.
Qed.
Lemma caret_erase_okr : forall t n, Inv09 t -> okr (caret_erase t n).
Proof.
  intros t n [HG [HX HY]]. unfold caret_erase, okr.
  destruct (_ <=? 0); [eexists; reflexivity|]. destruct (cy t <? 0); [eexists; reflexivity|].
  destruct (nth_error _ _); [|eexists; reflexivity].
  destruct (erase_loop_okr (Z.to_nat (Z.min (tw t - cx t) n)) l (cx t) (32, cbg t) (proj1 HX)) as [r E]. rewrite E. cbn. eexists; reflexivity.
Qed.
Lemma layer_insert_line_okr : forall t i, 0 <= i -> okr (layer_insert_line t i).
Proof. intros. unfold layer_insert_line. destruct (Z.ltb_spec i 0); [lia|]. eexists; reflexivity. Qed.
Lemma remove_terminal_line_okr : forall t, Inv09 t -> okr (remove_terminal_line t (cy t)).
Proof.
  intros t [HG [HX HY]]. pose proof (first_nonneg t). unfold InvY in HY. pose proof HG as (_ & _ & _ & _ & _ & Hm & _).
  unfold remove_terminal_line. destruct (_ >=? _); [eexists; reflexivity|].
  destruct (Z.ltb_spec (cy t) 0); [lia|].
  change (mtb (set_lines t (remove_at (lines t) (Z.to_nat (cy t))))) with (mtb t).
  destruct (mtb t) as [[a b]|]; [|eexists; reflexivity]. cbn in Hm. apply layer_insert_line_okr. lia.
Qed.
Lemma insert_terminal_line_okr : forall t, Inv09 t -> okr (insert_terminal_line t (cy t)).
Proof.
  intros t [HG [HX HY]]. pose proof (first_nonneg t). unfold InvY in HY. pose proof HG as (_ & _ & _ & _ & _ & Hm & _).
  unfold insert_terminal_line.
  destruct (mtb t) as [[a b]|]; cbn.
  - cbn in Hm. destruct (b <? zlen (lines t)); cbn.
    + destruct (Z.ltb_spec b 0); [lia|]. cbn. apply layer_insert_line_okr. cbn. lia.
    + apply layer_insert_line_okr. lia.
  - apply layer_insert_line_okr. lia.
Qed.
Lemma sr_row_okr : forall sc ec row, ec <> -1 -> exists r, sr_row sc ec row = ROk r.
Proof. intros. unfold sr_row. destruct (_ && _); [|eexists; reflexivity]. destruct (Z.eqb_spec ec (-1)); [contradiction|]. eexists; reflexivity. Qed.
Lemma scroll_right_okr : forall t, InvG t -> okr (scroll_right t).
Proof.
  intros t HG. pose proof HG as (Htw & Hth & Hbh & Hbw & Ho & Hm & Hl & Ht).
  assert (EC : last_col t <> -1).
  { unfold last_col. destruct (mlr t) as [[a b]|]; [cbn in Hl; lia|]. unfold sat_sub, sat, I32_MIN, I32_MAX. lia. }
  unfold scroll_right.
  assert (F : forall l acc, (exists ls, acc = ROk ls) -> exists ls,
             fold_left (fun acc i => do ls <- acc; if i <? 0 then ROk ls else
                          match nth_error ls (Z.to_nat i) with
                          | Some row => do r <- sr_row (first_col t) (last_col t) row; ROk (set_nth ls (Z.to_nat i) r)
                          | None => ROk ls end) l acc = ROk ls).
  { induction l as [|i l IH]; intros acc [ls E]; cbn; [exists ls; exact E|]. apply IH. subst acc. cbn.
    destruct (i <? 0); [eexists; reflexivity|]. destruct (nth_error ls (Z.to_nat i)); [|eexists; reflexivity].
    destruct (sr_row_okr (first_col t) (last_col t) l0 EC) as [r Er]. rewrite Er. cbn. eexists; reflexivity. }
  destruct (F (zrange_incl (first_edit t) (last_edit t)) (ROk (lines t))) as [ls E]; [eexists; reflexivity|].
  rewrite E. cbn. eexists; reflexivity.
Qed.

Lemma iter_res_okr : forall (f : term -> res term),
  (forall t, Inv09 t -> okr (f t)) -> (forall t t', Inv09 t -> f t = ROk t' -> Inv09 t') ->
  forall n t, Inv09 t -> okr (iter_res n f t).
Proof.
  intros f Ho Hi n t Ht. unfold iter_res.
  assert (H : exists t', N.iter (Z.to_N n) (fun r => bind r f) (ROk t) = ROk t' /\ Inv09 t').
  { apply (N.iter_invariant (Z.to_N n) _ (fun r => bind r f) (fun r => exists t', r = ROk t' /\ Inv09 t')); [|exists t; auto].
    intros r (x & E & Hx). subst r. cbn. destruct (Ho x Hx) as [x' E']. exists x'. split; [exact E'|eapply Hi; eauto]. }
  destruct H as (t' & E & _). exists t'. exact E.
Qed.

(* ---- one character ---------------------------------------------------------------------------------------------------------- *)
Definition Safe (o : outcome) : Prop := match o with OPanic _ | ODeep _ => False | _ => True end.
Lemma safe_lift : forall r p, okr r -> Safe (lift r p).
Proof. intros r p [t' E]. rewrite E. exact I. Qed.

Ltac sifs := repeat match goal with
                    | |- Safe (if ?c then _ else _) => destruct c
                    | |- Safe (match ?l with [] => _ | _ :: _ => _ end) => destruct l
                    | |- Safe (match ?o with Some _ => _ | None => _ end) => destruct o
                    | |- Safe (let '(_, _) := ?x in _) => destruct x
                    end.
(* the lift leaves: pick the existence lemma from the shape of the operation *)
Ltac slift HI :=
  apply safe_lift;
  lazymatch goal with
  | |- okr (limit_caret_pos _) => eapply limit_okr; [apply HI|]; repeat match goal with |- context [match ?x with _ => _ end] => destruct x end; reflexivity
  | |- okr (caret_left _ _) => eapply limit_okr; [apply HI|reflexivity]
  | |- okr (caret_right _ _) => eapply limit_okr; [apply HI|reflexivity]
  | |- okr (caret_up _ _) => eapply limit_okr; [apply HI|]; rewrite (proj1 (check_scrolling_up_geo _ _)); reflexivity
  | |- okr (caret_down _ _) => eapply limit_okr; [apply HI|]; rewrite (proj1 (check_scrolling_down_geo _ _)); reflexivity
  | |- okr (caret_index _) => eapply limit_okr; [apply HI|]; rewrite (proj1 (check_scrolling_down_geo _ _)); reflexivity
  | |- okr (caret_reverse_index _) => eapply limit_okr; [apply HI|]; rewrite (proj1 (check_scrolling_up_geo _ _)); reflexivity
  | |- okr (caret_next_line _) => eapply limit_okr; [apply HI|]; rewrite (proj1 (check_scrolling_down_geo _ _)); reflexivity
  | |- okr (caret_lf _) => apply caret_lf_okr; apply HI
  | |- okr (print_char _ _) => apply print_char_okr; exact HI
  | |- okr (caret_erase _ _) => apply caret_erase_okr; exact HI
  | |- okr (remove_terminal_line _ _) => apply remove_terminal_line_okr; exact HI
  | |- okr (insert_terminal_line _ _) => apply insert_terminal_line_okr; exact HI
  | |- okr (iter_res _ (fun x => remove_terminal_line x (cy x)) _) =>
      apply iter_res_okr; [intros; apply remove_terminal_line_okr; assumption
                          |intros ? ? HI2 HH; eapply Inv09_pgeo; [eapply remove_terminal_line_pgeo; exact HH|exact HI2] | exact HI]
  | |- okr (iter_res _ (fun x => insert_terminal_line x (cy x)) _) =>
      apply iter_res_okr; [intros; apply insert_terminal_line_okr; assumption
                          |intros ? ? HI2 HH; eapply Inv09_pgeo; [eapply insert_terminal_line_pgeo; exact HH|exact HI2] | exact HI]
  | |- okr (iter_res _ (fun x => print_char x _) _) =>
      apply iter_res_okr; [intros; apply print_char_okr; assumption | intros ? ? HI2 HH; exact (print_char_09 _ _ _ HI2 HH) | exact HI]
  | |- okr (iter_res _ scroll_right _) =>
      apply iter_res_okr; [intros ? HI2; apply scroll_right_okr; apply HI2
                          |intros ? ? HI2 HH; eapply Inv09_pgeo; [eapply scroll_right_pgeo; exact HH|exact HI2] | exact HI]
  end.

Lemma csi_final_safe : forall t p is_start ch, Inv09 t -> Safe (csi_final t p is_start ch).
Proof.
  intros t p is_start ch HI. unfold csi_final, cmd_sgr, cmd_decslrm, cmd_ech, cmd_csr, cmd_decstbm, cmd_window, hpos_line.
  repeat match goal with
         | |- Safe (if ?c then _ else _) => destruct c
         | |- Safe (match nums p with _ => _ end) => destruct (nums p) as [|n1 [|n2 [|n3 [|n4 r]]]]
         | |- Safe (match ?l with [] => _ | _ :: _ => _ end) => destruct l
         | |- Safe (match ?o with Some _ => _ | None => _ end) => destruct o
         | |- Safe (let '(_, _) := ?x in _) => destruct x
         end; try exact I.
  all: try (slift HI).
  all: try (destruct (caret_erase t 1) eqn:E; [exact I|]; destruct (caret_erase_okr t 1 HI) as [x Ex]; congruence).
  all: repeat match goal with |- Safe (match ?z with _ => _ end) => destruct z end; try exact I.
  all: apply safe_lift; eapply limit_okr; [apply HI|]; apply iter_G; intro; reflexivity.
Qed.

Lemma step_default_safe : forall t p ch, Inv09 t -> Safe (step_default t p ch).
Proof. intros t p ch HI. unfold step_default. sifs; try exact I; slift HI. Qed.

Lemma astep_gen_safe : forall invoke m,
  (forall t0 p0 id, Inv09 t0 -> macros p0 = macros (ps m) -> Safe (invoke t0 p0 id)) ->
  forall ch, Inv09 (tm m) -> Safe (astep_gen invoke m ch).
Proof.
  intros invoke [t p] Hinv ch HI. cbn [ps] in Hinv. cbn [tm] in HI. unfold astep_gen. cbn [tm ps].
  destruct (st p) eqn:ST.
  - apply step_default_safe; exact HI.
  - sifs; try exact I; try (slift HI).
    apply safe_lift. eapply limit_okr; [apply HI|apply restore_saved_geo].
  - apply csi_final_safe; exact HI.
  - unfold csi_cmd. sifs; try exact I. all: repeat match goal with |- Safe (match ?z with _ => _ end) => destruct z end; exact I.
  - unfold csi_req, cmd_reset_margins, cmd_ssm. sifs; try exact I. all: repeat match goal with |- Safe (match ?z with _ => _ end) => destruct z end; try exact I.
  - destruct (ch =? 112).
    + apply safe_lift. eapply limit_okr; [apply reset_terminal_G; apply HI|reflexivity].
    + apply step_default_safe; exact HI.
  - unfold csi_devattr. sifs; exact I.
  - unfold cmd_fill_rect, cmd_erase_rect, cmd_sel_erase_rect, cmd_font_selection.
    repeat match goal with
           | |- Safe (if ?c then _ else _) => destruct c eqn:?
           | |- Safe (match nums p with _ => _ end) => destruct (nums p) as [|n1 [|n2 [|n3 [|n4 [|n5 [|n6 [|n7 r]]]]]]]
           | |- Safe (let '(_, _) := ?x in _) => destruct x
           end; try exact I; try (slift HI).
    all: try (apply Hinv; [exact HI|reflexivity]).
    all: repeat match goal with |- Safe (match ?z with _ => _ end) => destruct z end; try exact I.
  - sifs; exact I.
  - sifs; try exact I. unfold execute_dcs. destruct (starts_with _ _).
    { unfold load_custom_font.
      pose proof (FontDcsSafe.font_dcs_total Base64.decode (map Z.to_N (rev (pstr (dflt p))))) as T.
      destruct (Font.load_custom_font _ _) as [[slot f]|e|s|]; first [exact I|exact T]. }
    destruct (lead_nums _ _). repeat match goal with |- Safe (match ?x with _ => _ end) => destruct x end; exact I.
  - sifs; try exact I. all: try (apply Hinv; [exact HI|reflexivity]).
    all: repeat match goal with |- Safe (match ?z with _ => _ end) => destruct z end; try exact I; try (apply Hinv; [exact HI|reflexivity]).
  - unfold parse_music, parse_default_music. destruct m; sifs; exact I.
  - sifs; exact I.
  - sifs; exact I.
  - sifs; exact I.
  - sifs; try exact I. unfold parse_osc. destruct (lead_nums _ _).
    repeat match goal with
           | |- Safe (match ?x with _ => _ end) => destruct x
           | |- Safe (if ?x then _ else _) => destruct x
           end; exact I.
Qed.

(* one character of the ANSI parser on a state that satisfies the C09 invariant and holds no stored macro: an action
   or an error value, never a panic, never the macro recursion.  (With stored macros the replay may execute a text-area resize in the middle of a
   character, after which the C09 invariant is not available: that case is covered by stages C and S only.) *)
Lemma astep_safe : forall fuel m ch, Inv09 (tm m) -> macros (ps m) = [] -> Safe (astep fuel m ch).
Proof.
  intros fuel m ch HI HM. destruct fuel; cbn [astep]; apply astep_gen_safe; try exact HI;
    intros t0 p0 id _ E; rewrite E, HM; exact I.
Qed.

Definition SafeM (o : mout) : Prop := match o with MPanic _ => False | _ => True end.
Lemma fallback_safe : forall m ch, Inv09 (mt m) -> macros (ps (am m)) = [] -> SafeM (fallback m ch).
Proof.
  intros m ch HI HM. unfold fallback. pose proof (astep_safe _ (am m) ch HI HM : Safe (ansi_step (am m) ch)) as G.
  destruct (ansi_step (am m) ch); first [exact G | contradiction].
Qed.
Lemma mlift_safe : forall m r, okr r -> SafeM (mlift m r).
Proof. intros m r [t' E]. rewrite E. exact I. Qed.

(* the emulations that do not wrap the ANSI parser: no stored macros, no resize, no known site *)
Definition NoPanic (o : mout) : Prop := match o with MPanic _ => False | _ => True end.
Lemma mlift_np : forall m r, okr r -> NoPanic (mlift m r).
Proof. intros m r [t' E]. rewrite E. exact I. Qed.
Ltac npifs := repeat match goal with |- NoPanic (if ?c then _ else _) => destruct c end.

Lemma ascii_step_np : forall m ch, Inv09 (mt m) -> NoPanic (ascii_step m ch).
Proof.
  intros m ch HI. unfold ascii_step, print_value. npifs; try exact I; apply mlift_np.
  - apply caret_lf_okr; apply HI.
  - apply print_char_okr; exact HI.
Qed.
Lemma atascii_step_np : forall m ch, Inv09 (mt m) -> NoPanic (atascii_step m ch).
Proof.
  intros m ch HI. unfold atascii_step, print_value. npifs; try exact I; apply mlift_np.
  - apply print_char_okr; exact HI.
  - eapply limit_okr; [apply HI|]. rewrite (proj1 (check_scrolling_up_geo _ _)); reflexivity.
  - eapply limit_okr; [apply HI|]. rewrite (proj1 (check_scrolling_down_geo _ _)); reflexivity.
  - eapply limit_okr; [apply HI|reflexivity].
  - eapply limit_okr; [apply HI|reflexivity].
  - apply caret_lf_okr; apply HI.
  - apply remove_terminal_line_okr; exact HI.
  - apply insert_terminal_line_okr; exact HI.
  - apply print_char_okr. eapply Inv09_pgeo; [|exact HI]. reflexivity.
  - apply print_char_okr. eapply Inv09_pgeo; [|exact HI]. reflexivity.
Qed.
Lemma index_fg_okr : forall w h t, 1 <= w -> 1 <= h -> InvFG w h t -> okr (caret_index t).
Proof.
  intros w h t Hw Hh (A&B&C&D&E&F&G&X&Y&O&M&L). unfold caret_index, limit_caret_pos.
  set (t1 := check_scrolling_down (set_cy t (cy t + 1)) true).
  assert (G1 : geo t1 = geo t) by (subst t1; rewrite (proj1 (check_scrolling_down_geo _ _)); reflexivity).
  destruct (geo_inv _ _ G1) as (H1 & H2 & H3 & H4 & H5 & _).
  rewrite H5, O. unfold first. rewrite H2, H4.
  destruct (Z.ltb_spec (Z.max 0 (bh t - th t) + th t - 1) (Z.max 0 (bh t - th t))); [lia|]. eexists; reflexivity.
Qed.
Lemma mode7_step_np : forall w h m ch, 1 <= w -> 1 <= h -> InvFG w h (mt m) -> NoPanic (mode7_step m ch).
Proof.
  intros w h m ch Hw Hh HI. pose proof HI as (A&B&C&D&E&F&G&X&Y&O&M&L). unfold mode7_step.
  repeat match goal with |- NoPanic (if ?c then _ else _) => destruct c eqn:? end; try exact I; apply mlift_np; try (eexists; reflexivity).
  - unfold m7_right. destruct (_ >=? _); [|eexists; reflexivity]. apply (index_fg_okr w h); auto. apply set_cx_fg; auto. lia.
  - apply (index_fg_okr w h); auto.
  - unfold m7_print, m7_right. destruct (_ >=? _); [|eexists; reflexivity]. apply (index_fg_okr w h); auto.
    apply set_cx_fg; [lia|]. apply layer_set_fg; auto.
Qed.
Lemma viewdata_step_np : forall m ch, NoPanic (viewdata_step m ch).
Proof. intros m ch. unfold viewdata_step. npifs; exact I. Qed.

Definition standalone (e : emu) : bool := match e with EAscii | EAtascii | EViewdata | EMode7 => true | _ => false end.
(* they never touch the parser record (hence never set the resize ghost) *)
Lemma with_t_ps : forall m t, ps (am (with_t m t)) = ps (am m). Proof. reflexivity. Qed.
Lemma standalone_keeps_ps : forall e m ch, standalone e = true ->
  match step e m ch with MOk m1 | MErr m1 => ps (am m1) = ps (am m) | _ => True end.
Proof.
  intros e m ch He. destruct e; try discriminate; cbn [step].
  - unfold ascii_step, mok, mlift.
    repeat match goal with |- match (if ?c then _ else _) with _ => _ end => destruct c end; try reflexivity;
      match goal with |- match (match ?r with _ => _ end) with _ => _ end => destruct r end; first [reflexivity|exact I].
  - unfold atascii_step, mok, mlift.
    repeat match goal with |- match (if ?c then _ else _) with _ => _ end => destruct c end; try reflexivity;
      match goal with |- match (match ?r with _ => _ end) with _ => _ end => destruct r end; first [reflexivity|exact I].
  - unfold viewdata_step.
    repeat match goal with |- match (if ?c then _ else _) with _ => _ end => destruct c end; reflexivity.
  - unfold mode7_step, mlift.
    repeat match goal with |- match (if ?c then _ else _) with _ => _ end => destruct c end; try reflexivity;
      match goal with |- match (match ?r with _ => _ end) with _ => _ end => destruct r end; first [reflexivity|exact I].
Qed.

(* C01 (partial), stream form for the stand-alone emulations: no stream of any length makes ASCII, ATASCII, Viewdata or
   Mode 7 panic or diverge: the run always ends in a state *)
Lemma c01_standalone_proof : forall e music bs w h cs,
  standalone e = true -> 1 <= w <= 132 -> 1 <= h <= 60 ->
  exists m', run e (init music bs w h) cs = RunOk m'.
Proof.
  intros e music bs w h cs He Hw Hh.
  destruct (scrolling e) eqn:Sc.
  - assert (K : forall cs m, Inv09 (mt m) -> resized (ps (am m)) = false -> exists m', run e m cs = RunOk m').
    { induction cs0 as [|c r IH]; intros m HI HR; cbn; [eexists; reflexivity|].
      assert (HA : InvA (am m)) by (intro; exact HI).
      pose proof (step_good e m c Sc HA) as G. pose proof (standalone_keeps_ps e m c He) as N.
      assert (S1 : NoPanic (step e m c)) by (destruct e; try discriminate; cbn [step]; [apply ascii_step_np|apply atascii_step_np]; exact HI).
      destruct (step e m c) as [m1|m1|s]; try contradiction.
      - apply IH; [apply G; rewrite N; exact HR|rewrite N; exact HR].
      - apply IH; [apply G; rewrite N; exact HR|rewrite N; exact HR]. }
    apply K; [apply init_09; assumption|reflexivity].
  - assert (K : forall cs m, InvFG w h (mt m) -> exists m', run e m cs = RunOk m').
    { induction cs0 as [|c r IH]; intros m HI; cbn; [eexists; reflexivity|].
      pose proof (step_fg e w h m c Sc (proj1 Hw) (proj1 Hh) HI) as G.
      assert (S1 : NoPanic (step e m c)) by (destruct e; try discriminate; cbn [step]; [apply viewdata_step_np|eapply mode7_step_np; eauto; lia]).
      destruct (step e m c) as [m1|m1|s]; try contradiction; apply IH; exact G. }
    apply K. apply init_fg; lia.
Qed.

(* C01 (partial), the ANSI parser: after ANY stream that executed no resize, on a state without stored macros,
   the next character yields an action or an error value *)
Lemma c01_next_char_proof : forall music bs w h cs m ch,
  1 <= w <= 132 -> 1 <= h <= 60 ->
  run EAnsi (init music bs w h) cs = RunOk m -> resized (ps (am m)) = false -> macros (ps (am m)) = [] ->
  exists m', step EAnsi m ch = MOk m' \/ step EAnsi m ch = MErr m'.
Proof.
  intros music bs w h cs m ch Hw Hh R NR NM.
  assert (H0 : InvA (am (init music bs w h))) by (intro; apply init_09; assumption).
  pose proof (run_good EAnsi cs _ _ eq_refl H0 R NR) as HI.
  cbn [step]. pose proof (fallback_safe m ch HI NM) as G.
  destruct (fallback m ch) as [m1|m1|s]; try contradiction; exists m1; auto.
Qed.

Lemma astep_ok_or_err : forall fuel m ch, Inv09 (tm m) -> macros (ps m) = [] ->
  exists m', astep fuel m ch = OOk m' \/ astep fuel m ch = OErr m'.
Proof.
  intros fuel m ch HI HM. pose proof (astep_safe fuel m ch HI HM) as G.
  destruct (astep fuel m ch) as [m1|m1|s|]; try contradiction; exists m1; auto.
Qed.

(* stream form without a side condition on the result: a stream runs through to a state, or the character at which it
   stops was processed after a text-area resize or while a macro was stored (the two situations the per-character
   theorem does not cover).  Any start state of the invariant. *)
Definition Uncovered (m : mach) : Prop := resized (ps (am m)) = true \/ macros (ps (am m)) <> [].
Lemma run_ansi_from : forall cs m, InvA (am m) ->
  (exists m', run EAnsi m cs = RunOk m') \/
  (exists pre c post m', cs = pre ++ c :: post /\ run EAnsi m pre = RunOk m' /\ Uncovered m').
Proof.
  induction cs as [|c r IH]; intros m HA; [left; eexists; reflexivity|].
  destruct (resized (ps (am m))) eqn:NR.
  { right. exists [], c, r, m. repeat split. left; exact NR. }
  destruct (macros (ps (am m))) as [|mc ml] eqn:NM.
  2:{ right. exists [], c, r, m. repeat split. right. rewrite NM. discriminate. }
  pose proof (fallback_safe m c (HA NR) NM) as S1.
  pose proof (step_good EAnsi m c eq_refl HA) as G1.
  cbn [run step]. cbn [step] in G1.
  destruct (fallback m c) as [m1|m1|s] eqn:F; try contradiction.
  - destruct (IH m1 G1) as [[m' E]|(pre & c' & post & m' & E1 & E2 & U)].
    + left. exists m'. exact E.
    + right. exists (c :: pre), c', post, m'. repeat split; [rewrite E1; reflexivity| |exact U].
      cbn [run step]. rewrite F. exact E2.
  - destruct (IH m1 G1) as [[m' E]|(pre & c' & post & m' & E1 & E2 & U)].
    + left. exists m'. exact E.
    + right. exists (c :: pre), c', post, m'. repeat split; [rewrite E1; reflexivity| |exact U].
      cbn [run step]. rewrite F. exact E2.
Qed.
Lemma c01_ansi_stream_proof : forall music bs w h cs,
  1 <= w <= 132 -> 1 <= h <= 60 ->
  (exists m', run EAnsi (init music bs w h) cs = RunOk m') \/
  (exists pre c post m', cs = pre ++ c :: post /\ run EAnsi (init music bs w h) pre = RunOk m' /\ Uncovered m').
Proof.
  intros music bs w h cs Hw Hh. apply run_ansi_from. intro. apply init_09; assumption.
Qed.
