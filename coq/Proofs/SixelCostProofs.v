(* C03 (extension d): the sixel decoder: iterations <= payload length + executed repeat counts; bytes held by the image <= height x longest row,
   both bounded by the iterations and the sizes declared by raster attributes. *)
From Coq Require Import ZArith NArith List Bool Lia Arith.
From IE Require Import Model.Sixel Model.SixelCost Proofs.SixelProofs.
From IE Require Model.Cost Proofs.CostProofs.
Import ListNotations.
Local Open Scope Z_scope.

(* ---- row lengths ---------------------------------------------------------------------------------------------------------------- *)
Lemma set_pixel_length x c line : length (set_pixel x c line) = Nat.max (length line) (4 * (Z.to_nat x + 1)).
Proof.
  unfold set_pixel. destruct c as [[r g] b]. set (off := (Z.to_nat x * 4)%nat).
  destruct (Nat.leb_spec (length line) off) as [Hle|Hgt].
  - rewrite !app_length, firstn_length, skipn_length, resize_length. cbn [length]. subst off. lia.
  - rewrite !app_length, firstn_length, skipn_length. cbn [length]. subst off. lia.
Qed.
Lemma max_len_upd_nth (f : list N -> list N) B : (forall l, (length (f l) <= Nat.max (length l) B)%nat) ->
  forall n r, (max_len (upd_nth n f r) <= Nat.max (max_len r) B)%nat.
Proof.
  intros Hf n r. revert n. induction r as [|l r IH]; intros n; cbn [upd_nth max_len fold_right]; [lia|].
  destruct n; cbn [max_len fold_right]; fold (max_len r).
  - specialize (Hf l). lia.
  - fold (max_len (upd_nth n f r)). specialize (IH n). lia.
Qed.
Lemma max_len_app a b : max_len (a ++ b) = Nat.max (max_len a) (max_len b).
Proof. induction a as [|l a IH]; cbn [app max_len fold_right]; [reflexivity|]. fold (max_len (a ++ b)). fold (max_len a). rewrite IH. lia. Qed.
Lemma max_len_repeat v n : (max_len (repeat v n) <= length v)%nat.
Proof. induction n; cbn [repeat max_len fold_right]; [lia|]. fold (max_len (repeat v n)). lia. Qed.
Lemma max_len_firstn n r : (max_len (firstn n r) <= max_len r)%nat.
Proof. revert n. induction r as [|l r IH]; intros [|n]; cbn [firstn max_len fold_right]; try lia. fold (max_len (firstn n r)). fold (max_len r). specialize (IH n). lia. Qed.
Lemma max_len_resize n v r : (max_len (resize n v r) <= Nat.max (max_len r) (length v))%nat.
Proof. unfold resize. rewrite max_len_app. pose proof (max_len_firstn n r). pose proof (max_len_repeat v (n - length r)). lia. Qed.
Lemma max_len_first r : (match r with [] => 0 | l :: _ => length l end <= max_len r)%nat.
Proof. destruct r; cbn [max_len fold_right]; lia. Qed.
Lemma plot_max_len k : forall i mask x y last c r, (max_len (plot k i mask x y last c r) <= Nat.max (max_len r) (4 * (Z.to_nat x + 1)))%nat.
Proof.
  induction k as [|k IH]; intros i mask x y last c r; cbn [plot]; [lia|].
  destruct (Z.testbit mask i); [|apply IH]. destruct (last <=? y + i); [lia|].
  specialize (IH (i + 1) mask x y last c (upd_nth (Z.to_nat (y + i)) (set_pixel x c) r)).
  pose proof (max_len_upd_nth (set_pixel x c) (4 * (Z.to_nat x + 1)) (fun l => ltac:(rewrite set_pixel_length; lia)) (Z.to_nat (y + i)) r). lia.
Qed.
Lemma sixel_bytes_le r : sixel_bytes r <= height r * mxl r.
Proof.
  unfold height, mxl. induction r as [|l r IH]; cbn [sixel_bytes fold_right max_len length]; [lia|].
  fold (sixel_bytes r). fold (max_len r). unfold zlenN. nia.
Qed.
Lemma height_nonneg r : 0 <= height r. Proof. unfold height. lia. Qed.
Lemma mxl_nonneg r : 0 <= mxl r. Proof. unfold mxl. lia. Qed.

(* ---- what a stretch of the decoding can do to the cursor and to the size of the image ------------------------------------------------ *)
Definition within (s s' : sx) (n dw dh : Z) : Prop :=
  0 <= cur_x s' <= cur_x s + n /\ cur_y s' <= cur_y s + n /\
  height (rows s') <= Z.max (Z.max (height (rows s)) (6 * (cur_y s + n) + 6)) dh /\
  mxl (rows s') <= Z.max (Z.max (mxl (rows s)) (4 * (cur_x s + n))) (4 * dw).
Lemma within_trans s s' s'' n m dw dh dw' dh' : 0 <= n -> 0 <= m -> within s s' n dw dh -> within s' s'' m dw' dh' ->
  within s s'' (n + m) (Z.max dw dw') (Z.max dh dh').
Proof. unfold within. intros Hn Hm (A1 & A2 & A3 & A4) (B1 & B2 & B3 & B4). repeat split; lia. Qed.
Lemma within_weaken s s' n dw dh n' dw' dh' : n <= n' -> dw <= dw' -> dh <= dh' -> within s s' n dw dh -> within s s' n' dw' dh'.
Proof. unfold within. intros H1 H2 H3 (A1 & A2 & A3 & A4). repeat split; lia. Qed.
Lemma within_same s s' n : 0 <= cur_x s -> 0 <= n -> cur_x s' = cur_x s -> cur_y s' = cur_y s -> rows s' = rows s -> within s s' n 0 0.
Proof. unfold within. intros H0 Hn H1 H2 H3. rewrite H1, H2, H3. pose proof (height_nonneg (rows s)). pose proof (mxl_nonneg (rows s)). repeat split; lia. Qed.

Ltac bind_as H x E :=
  match type of H with
  | bind ?r _ = Ok _ => destruct r as [x| |] eqn:E; cbn [bind] in H; [|discriminate H|discriminate H]
  end.
Local Opaque plot.
Lemma translate_within s ch s' : 0 <= cur_x s -> translate s ch = Ok s' -> within s s' 1 0 0.
Proof.
  intros Hx H. unfold translate in H. destruct (ch <? 63); [discriminate|]. destruct (length (pal s) =? 0)%nat; [discriminate|].
  cbv zeta in H. bind_inv H. bind_inv H. destruct (_ || _); [discriminate|]. bind_inv H. inversion H; subst; clear H. unfold chk in *.
  destruct ((cur_y s * 6 <=? I32_MAX) && (- I32_MAX - 1 <=? cur_y s * 6)); [|discriminate]. inversion E; subst; clear E.
  destruct ((cur_y s * 6 + 6 <=? I32_MAX) && (- I32_MAX - 1 <=? cur_y s * 6 + 6)); [|discriminate]. inversion E0; subst; clear E0.
  destruct ((cur_x s + 1 <=? I32_MAX) && (- I32_MAX - 1 <=? cur_x s + 1)); [|discriminate]. inversion E1; subst; clear E1.
  unfold within. cbn [cur_x cur_y rows set_cur set_rows].
  set (last_line := if hset s && (height (rows s) <? cur_y s * 6 + 6) then height (rows s) else cur_y s * 6 + 6).
  set (r1 := if height (rows s) <? last_line then resize (Z.to_nat last_line) (zeros (Z.to_nat (width (rows s)) * 4)) (rows s) else rows s).
  assert (HL : last_line <= cur_y s * 6 + 6) by (subst last_line; destruct (hset s && _) eqn:E; [apply andb_true_iff in E; destruct E as [_ E]; apply Z.ltb_lt in E; lia|lia]).
  assert (H1 : height r1 <= Z.max (height (rows s)) (6 * cur_y s + 6)).
  { subst r1. destruct (height (rows s) <? last_line) eqn:E; [|lia]. apply Z.ltb_lt in E. unfold height in *. rewrite resize_length. lia. }
  assert (H2 : mxl r1 <= mxl (rows s)).
  { subst r1. destruct (height (rows s) <? last_line); [|lia]. unfold mxl.
    pose proof (max_len_resize (Z.to_nat last_line) (zeros (Z.to_nat (width (rows s)) * 4)) (rows s)) as HR. unfold zeros in HR. rewrite repeat_length in HR.
    pose proof (max_len_first (rows s)) as HF. unfold width in HR. destruct (rows s) as [|l r]; [cbn in *; lia|]. unfold zeros, width. cbv beta iota in HR, HF |- *.
    assert ((Z.to_nat (Z.of_nat (length l) / 4) * 4 <= length l)%nat); [|lia].
    pose proof (Z.mul_div_le (Z.of_nat (length l)) 4 ltac:(lia)). pose proof (Z.div_pos (Z.of_nat (length l)) 4 ltac:(lia) ltac:(lia)). lia. }
  pose proof (plot_max_len 6 0 (ch - 63) (cur_x s) (cur_y s * 6) last_line
               (get_color (pal s) (color s mod Z.of_nat (length (pal s)))) r1) as HP.
  unfold height in *. rewrite plot_length. unfold mxl in *. repeat split; lia.
Qed.
Lemma psd_within s ch s' : 0 <= cur_x s -> parse_sixel_data s ch = Ok s' -> within s s' 1 0 0.
Proof.
  intros Hx H. unfold parse_sixel_data in H.
  destruct (ch =? 35); [inversion H; apply within_same; auto; lia|].
  destruct (ch =? 33); [inversion H; apply within_same; auto; lia|].
  destruct (ch =? 45).
  { bind_inv H. inversion H; subst; clear H. unfold chk in E. destruct (_ && _); [|discriminate]. inversion E; subst.
    unfold within. cbn [cur_x cur_y rows set_cur]. pose proof (height_nonneg (rows s)). pose proof (mxl_nonneg (rows s)). repeat split; lia. }
  destruct (ch =? 36).
  { inversion H; subst. unfold within. cbn [cur_x cur_y rows set_cur]. pose proof (height_nonneg (rows s)). pose proof (mxl_nonneg (rows s)). repeat split; lia. }
  destruct (ch =? 34); [inversion H; apply within_same; auto; lia|].
  destruct (127 <? ch); [inversion H; subst; apply within_same; auto; lia|].
  apply (translate_within _ _ _ Hx H).
Qed.
Lemma repeat_data_within n : forall s ch s', 0 <= cur_x s -> repeat_data n s ch = Ok s' -> within s s' (Z.of_nat n) 0 0.
Proof.
  induction n as [|n IH]; intros s ch s' Hx H; cbn [repeat_data] in H.
  - inversion H; subst. apply within_same; auto; lia.
  - bind_as H s0 E. pose proof (psd_within _ _ _ Hx E) as W1. assert (Hx' : 0 <= cur_x s0) by (destruct W1 as ((? & _) & _); lia).
    pose proof (IH _ _ _ Hx' H) as W2. pose proof (within_trans _ _ _ 1 (Z.of_nat n) 0 0 0 0 ltac:(lia) ltac:(lia) W1 W2) as W.
    replace (Z.of_nat (S n)) with (1 + Z.of_nat n) by lia. exact W.
Qed.

Lemma sixel_raster_refused_l s v h rest : nums s = v :: h :: rest -> existsb (fun n => MAX_SIXEL_DIMENSION <? n) rest = true -> finish_size s = Err 3.
Proof. intros HN HE. unfold finish_size. cbv zeta. rewrite HN. destruct (_ || _); [reflexivity|]. rewrite HE. reflexivity. Qed.

Section S.
Variable hsl : Z -> Z -> Z -> rgb.

Lemma finish_color_cur s s' : finish_color hsl s = Ok s' -> cur_x s' = cur_x s /\ cur_y s' = cur_y s /\ rows s' = rows s.
Proof.
  intro H. destruct (finish_color_rows hsl _ _ H) as (R & _ & _). split; [|split; [|exact R]];
  unfold finish_color in H; cbv zeta in H;
  assert (P : cur_x (pick_color s) = cur_x s /\ cur_y (pick_color s) = cur_y s) by (unfold pick_color; destruct (nums s); split; reflexivity);
  destruct P as [P1 P2]; set (s0 := pick_color s) in *;
  (destruct (1 <? length (nums s0))%nat; [|inversion H; subst; auto]);
  (destruct (negb (length (nums s0) =? 5)%nat); [discriminate|]);
  repeat match type of H with
         | match ?x with _ => _ end = _ => destruct x; try discriminate H
         end;
  try (inversion H; subst; cbn [cur_x cur_y set_pal]; auto; fail);
  bind_inv H; bind_inv H; bind_inv H; inversion H; subst; cbn [cur_x cur_y set_pal]; auto.
Qed.
Lemma finish_size_within s s' : 0 <= cur_x s -> finish_size s = Ok s' ->
  cur_x s' = cur_x s /\ cur_y s' = cur_y s /\ nums s' = nums s /\
  height (rows s') <= Z.max (height (rows s)) (snd (match nums s with _ :: _ :: [hh] => (0, Z.max 0 hh) | _ :: _ :: [ww; hh] => (Z.max 0 ww, Z.max 0 hh) | _ => (0, 0) end)) /\
  mxl (rows s') <= Z.max (mxl (rows s)) (4 * fst (match nums s with _ :: _ :: [hh] => (0, Z.max 0 hh) | _ :: _ :: [ww; hh] => (Z.max 0 ww, Z.max 0 hh) | _ => (0, 0) end)).
Proof.
  intros Hx H. unfold finish_size in H. cbv zeta in H.
  destruct ((length (nums s) <? 2)%nat || (4 <? length (nums s))%nat); [discriminate|].
  destruct (nums s) as [|v [|h rest]] eqn:EN; try discriminate. destruct (existsb _ rest); [discriminate|].
  inversion H; subst; clear H. cbn [cur_x cur_y rows nums set_st]. unfold declare.
  pose proof (height_nonneg (rows s)). pose proof (mxl_nonneg (rows s)).
  destruct rest as [|a [|b [|c t]]]; cbn [cur_x cur_y rows nums set_scale set_rows fst snd]; rewrite ?EN; repeat split; try lia.
  - unfold height. rewrite resize_length. lia.
  - unfold mxl. pose proof (max_len_resize (Z.to_nat a) [] (rows s)). cbn [length] in *. lia.
  - unfold height. rewrite resize_length. lia.
  - unfold mxl, zeros. pose proof (max_len_resize (Z.to_nat b) (repeat 0%N (4 * Z.to_nat a)) (rows s)) as HR. rewrite repeat_length in HR. lia.
Qed.
Lemma rep_of_nonneg s ch : 0 <= rep_of s ch.
Proof. unfold rep_of. destruct (st s); try lia. destruct (is_digit ch); [lia|]. destruct (nums s) as [|i r]; [lia|]. destruct (_ <? i); lia. Qed.
Lemma decl_of_nonneg s ch : 0 <= fst (decl_of s ch) /\ 0 <= snd (decl_of s ch).
Proof.
  unfold decl_of. destruct (st s); cbn; try lia. destruct (_ || _); cbn; [lia|]. destruct (nums s) as [|a [|b [|c [|d [|e r]]]]]; cbn; lia.
Qed.
Lemma parse_char_within s ch s' : 0 <= cur_x s -> parse_char hsl s ch = Ok s' ->
  within s s' (1 + rep_of s ch) (fst (decl_of s ch)) (snd (decl_of s ch)).
Proof.
  intros Hx H. unfold parse_char in H. unfold rep_of, decl_of. destruct (st s) eqn:ES.
  - cbn [fst snd]. apply (within_weaken _ _ 1 0 0); try lia. apply (psd_within _ _ _ Hx H).
  - cbn [fst snd]. destruct (is_digit ch); [inversion H; apply within_same; auto; lia|]. destruct (ch =? 59); [inversion H; apply within_same; auto; lia|].
    bind_as H s0 E. destruct (finish_color_cur _ _ E) as (C1 & C2 & C3). pose proof (psd_within s0 ch s' ltac:(lia) H) as W.
    unfold within in *. rewrite C1, C2, C3 in W. replace (1 + 0) with 1 by lia. exact W.
  - destruct (is_digit ch); [cbn [orb fst snd]; inversion H; apply within_same; auto; lia|]. destruct (ch =? 59); [cbn [orb fst snd]; inversion H; apply within_same; auto; lia|].
    cbn [orb]. bind_as H s0 E. destruct (finish_size_within _ _ Hx E) as (C1 & C2 & C3 & C4 & C5). pose proof (psd_within s0 ch s' ltac:(lia) H) as W.
    unfold within in *. rewrite C1, C2 in W. destruct W as (W1 & W2 & W3 & W4).
    set (d := match nums s with _ :: _ :: [hh] => (0, Z.max 0 hh) | _ :: _ :: [ww; hh] => (Z.max 0 ww, Z.max 0 hh) | _ => (0, 0) end) in *.
    assert (0 <= fst d /\ 0 <= snd d) by (subst d; destruct (nums s) as [|a [|b [|c [|dd [|e r]]]]]; cbn; lia).
    repeat split; lia.
  - destruct (is_digit ch); [cbn [fst snd]; inversion H; apply within_same; auto; lia|].
    destruct (nums s) as [|i r] eqn:EN; [discriminate|]. destruct (MAX_SIXEL_DIMENSION <? i); [discriminate|]. cbn [fst snd]. bind_as H s0 E. inversion H; subst; clear H.
    pose proof (repeat_data_within _ _ _ _ Hx E) as W. apply (within_weaken _ _ (Z.of_nat (Z.to_nat i)) 0 0); try lia.
    unfold within in *. cbn [cur_x cur_y rows set_st]. exact W.
Qed.

Lemma parse_chars_within cs : forall s s', 0 <= cur_x s -> parse_chars hsl s cs = Ok s' ->
  within s s' (zlenN cs + rep_sum hsl s cs) (fst (decl_max hsl s cs)) (snd (decl_max hsl s cs)) /\ 0 <= rep_sum hsl s cs.
Proof.
  induction cs as [|c t IH]; intros s s' Hx H; cbn [parse_chars rep_sum decl_max] in *.
  - inversion H; subst. split; [apply within_same; auto; unfold zlenN; cbn; lia|lia].
  - bind_as H s0 E. pose proof (parse_char_within _ _ _ Hx E) as W1. assert (Hx' : 0 <= cur_x s0) by (destruct W1 as ((? & _) & _); lia).
    destruct (IH _ _ Hx' H) as [W2 R2]. pose proof (rep_of_nonneg s c) as HR. cbn [fst snd].
    assert (0 <= zlenN t) by (unfold zlenN; lia).
    assert (N1 : 0 <= 1 + rep_of s c) by lia. assert (N2 : 0 <= zlenN t + rep_sum hsl s0 t) by lia.
    pose proof (within_trans _ _ _ _ _ _ _ _ _ N1 N2 W1 W2) as W. split; [|lia].
    replace (zlenN (c :: t) + (rep_of s c + rep_sum hsl s0 t)) with (1 + rep_of s c + (zlenN t + rep_sum hsl s0 t)) by (unfold zlenN; cbn [length]; lia). exact W.
Qed.

(* sixel_ticks_bound: iterations <= payload length + executed repeat counts *)
Lemma repeat_data_t_snd_le : forall n s ch k, k <= snd (Cost.repeat_data_t n s ch k) <= k + Z.of_nat n.
Proof.
  induction n as [|n IH]; intros s ch k; cbn [Cost.repeat_data_t]; [cbn; lia|].
  destruct (parse_sixel_data s ch); cbn [snd]; [specialize (IH a ch (k + 1))|..]; lia.
Qed.
Lemma parse_char_t_fst s ch : fst (parse_char_t hsl s ch) = parse_char hsl s ch.
Proof.
  unfold parse_char_t, parse_char. destruct (st s); try reflexivity. destruct (is_digit ch); [reflexivity|]. destruct (nums s) as [|i r]; [reflexivity|].
  destruct (MAX_SIXEL_DIMENSION <? i); [reflexivity|]. cbn [fst]. rewrite CostProofs.repeat_data_t_fst. reflexivity.
Qed.
Lemma parse_char_t_snd s ch : 1 <= snd (parse_char_t hsl s ch) <= 1 + rep_of s ch.
Proof.
  unfold parse_char_t, rep_of. destruct (st s); cbn [snd]; try lia. destruct (is_digit ch); cbn [snd]; [lia|]. destruct (nums s) as [|i r]; cbn [snd]; [lia|].
  destruct (MAX_SIXEL_DIMENSION <? i); cbn [snd]; [lia|]. pose proof (repeat_data_t_snd_le (Z.to_nat i) s ch 0). lia.
Qed.
Lemma parse_chars_t_spec cs : forall s k, fst (parse_chars_t hsl s cs k) = parse_chars hsl s cs /\
  k <= snd (parse_chars_t hsl s cs k) <= k + zlenN cs + rep_sum hsl s cs.
Proof.
  induction cs as [|c t IH]; intros s k; cbn [parse_chars_t parse_chars rep_sum]; [unfold zlenN; cbn; split; [reflexivity|lia]|].
  rewrite parse_char_t_fst. pose proof (parse_char_t_snd s c) as HS. pose proof (rep_of_nonneg s c).
  destruct (parse_char hsl s c) as [s0|e|p]; cbn [bind fst snd].
  - destruct (IH s0 (k + snd (parse_char_t hsl s c))) as [I1 I2]. split; [exact I1|]. unfold zlenN in *. cbn [length]. lia.
  - split; [reflexivity|]. unfold zlenN. cbn [length]. lia.
  - split; [reflexivity|]. unfold zlenN. cbn [length]. lia.
Qed.
Lemma sixel_ticks_bound_l s cs : 0 <= snd (parse_chars_t hsl s cs 0) <= zlenN cs + rep_sum hsl s cs.
Proof. destruct (parse_chars_t_spec cs s 0) as [_ H]. lia. Qed.
Lemma sixel_ticks_same_l s cs : fst (parse_chars_t hsl s cs 0) = parse_chars hsl s cs.
Proof. apply parse_chars_t_spec. Qed.

(* sixel_alloc_bound: bytes held by picture_data *)
Lemma sixel_alloc_bound_l s cs s' : 0 <= cur_x s -> 0 <= cur_y s -> parse_chars hsl s cs = Ok s' ->
  sixel_bytes (rows s') <= sixel_cap (cur_x s) (cur_y s) (height (rows s)) (mxl (rows s)) (zlenN cs + rep_sum hsl s cs) (fst (decl_max hsl s cs)) (snd (decl_max hsl s cs)).
Proof.
  intros Hx Hy H. destruct (parse_chars_within cs s s' Hx H) as [(W1 & W2 & W3 & W4) R]. pose proof (sixel_bytes_le (rows s')) as HB.
  pose proof (height_nonneg (rows s')). pose proof (mxl_nonneg (rows s')). unfold sixel_cap. nia.
Qed.
(* a fresh decoder (parse_from): at most max(6 T + 6, declared height) rows of at most 4 max(T, declared width) bytes *)
Lemma sixel_alloc_bound_init_l pal0 vs hs cs s' : parse_chars hsl (init_state pal0 vs hs) cs = Ok s' ->
  let T := zlenN cs + rep_sum hsl (init_state pal0 vs hs) cs in
  sixel_bytes (rows s') <= Z.max (6 * T + 6) (snd (decl_max hsl (init_state pal0 vs hs) cs)) * (4 * Z.max T (fst (decl_max hsl (init_state pal0 vs hs) cs))).
Proof.
  intros H T. pose proof (sixel_alloc_bound_l (init_state pal0 vs hs) cs s' (Z.le_refl 0) (Z.le_refl 0) H) as HB.
  unfold sixel_cap in HB. cbn [cur_x cur_y rows init_state] in HB. change (height []) with 0 in HB. change (mxl []) with 0 in HB. fold T in HB.
  destruct (parse_chars_within cs _ _ (Z.le_refl 0 : 0 <= cur_x (init_state pal0 vs hs)) H) as [_ R]. assert (0 <= T) by (subst T; unfold zlenN; lia).
  replace (Z.max (Z.max 0 (6 * (0 + T) + 6)) (snd (decl_max hsl (init_state pal0 vs hs) cs))) with (Z.max (6 * T + 6) (snd (decl_max hsl (init_state pal0 vs hs) cs))) in HB by lia.
  replace (Z.max (Z.max 0 (4 * (0 + T))) (4 * fst (decl_max hsl (init_state pal0 vs hs) cs))) with (4 * Z.max T (fst (decl_max hsl (init_state pal0 vs hs) cs))) in HB by lia.
  exact HB.
Qed.
(* the assembled image of parse_from (rows padded to the longest one): exactly height x longest row bytes *)
Lemma parse_chars_app a : forall s b, parse_chars hsl s (a ++ b) = (do s1 <- parse_chars hsl s a; parse_chars hsl s1 b).
Proof. induction a as [|c a IH]; intros s b; cbn [app parse_chars bind]; [reflexivity|]. destruct (parse_char hsl s c); cbn [bind]; [apply IH|reflexivity|reflexivity]. Qed.
Lemma assemble_len r : zlenN (snd (assemble r)) = height r * mxl r.
Proof.
  unfold assemble, height, mxl, zlenN. cbn [snd]. set (ll := max_len r).
  assert (G : forall q, (forall l, In l q -> length l <= ll)%nat -> length (concat (map (pad ll) q)) = (length q * ll)%nat).
  { induction q as [|l q IH]; intro Hq; cbn [map concat length]; [reflexivity|]. rewrite app_length, IH by (intros l' Hl'; apply Hq; right; exact Hl').
    unfold pad, zeros. rewrite app_length, repeat_length. specialize (Hq l (or_introl eq_refl)). lia. }
  rewrite G; [lia|]. subst ll. clear G. induction r as [|l0 r IH]; intros l Hin; [destruct Hin|]. cbn [max_len fold_right]. fold (max_len r). destruct Hin as [<-|Hin]; [lia|specialize (IH l Hin); lia].
Qed.
Lemma sixel_image_bound_l pal0 vs hs data w h d : parse_from hsl pal0 vs hs data = Ok (w, h, d) ->
  let cs := data ++ [35] in let s0 := init_state pal0 vs hs in let T := zlenN cs + rep_sum hsl s0 cs in
  zlenN d <= Z.max (6 * T + 6) (snd (decl_max hsl s0 cs)) * (4 * Z.max T (fst (decl_max hsl s0 cs))).
Proof.
  intros H cs s0 T. unfold parse_from in H. destruct (parse_chars hsl (init_state pal0 vs hs) data) as [s1| |] eqn:E1; cbn [bind] in H; try discriminate.
  destruct (parse_char hsl s1 35) as [s2| |] eqn:E2; cbn [bind] in H; try discriminate. assert (HA : assemble (rows s2) = (w, h, d)) by congruence. clear H.
  assert (EC : parse_chars hsl s0 cs = Ok s2).
  { subst cs s0. rewrite parse_chars_app, E1. cbn [bind parse_chars]. rewrite E2. reflexivity. }
  destruct (parse_chars_within cs s0 s2 (Z.le_refl 0 : 0 <= cur_x s0) EC) as [(W1 & W2 & W3 & W4) R].
  assert (HD : zlenN d = height (rows s2) * mxl (rows s2)) by (rewrite <- assemble_len, HA; reflexivity).
  rewrite HD. change (cur_x s0) with 0 in *. change (cur_y s0) with 0 in *. change (rows s0) with (@nil (list N)) in *. change (height []) with 0 in *. change (mxl []) with 0 in *.
  fold T in W1, W2, W3, W4. pose proof (height_nonneg (rows s2)). pose proof (mxl_nonneg (rows s2)). assert (0 <= T) by (subst T; unfold zlenN; lia). nia.
Qed.
(* ---- after the fix (MAX_SIXEL_DIMENSION): bounds without the numbers of the payload -------------------------------------------------------- *)
Lemma rep_of_le s ch : 0 <= rep_of s ch <= MAX_SIXEL_DIMENSION.
Proof.
  unfold rep_of. destruct (st s); try (unfold MAX_SIXEL_DIMENSION; lia). destruct (is_digit ch); [unfold MAX_SIXEL_DIMENSION; lia|].
  destruct (nums s) as [|i r]; [unfold MAX_SIXEL_DIMENSION; lia|]. destruct (MAX_SIXEL_DIMENSION <? i) eqn:E; [unfold MAX_SIXEL_DIMENSION; lia|].
  apply Z.ltb_ge in E. unfold MAX_SIXEL_DIMENSION in *. lia.
Qed.
Lemma rep_sum_le cs : forall s, 0 <= rep_sum hsl s cs <= zlenN cs * MAX_SIXEL_DIMENSION.
Proof.
  induction cs as [|c t IH]; intro s; cbn [rep_sum]; [unfold zlenN; cbn; lia|]. pose proof (rep_of_le s c) as HR.
  assert (HT : 0 <= match parse_char hsl s c with Ok s' => rep_sum hsl s' t | _ => 0 end <= zlenN t * MAX_SIXEL_DIMENSION).
  { destruct (parse_char hsl s c) as [s0| |]; [apply IH| |]; unfold zlenN, MAX_SIXEL_DIMENSION; lia. }
  unfold zlenN in *. cbn [length]. unfold MAX_SIXEL_DIMENSION in *. lia.
Qed.
Lemma sixel_ticks_bound_abs_l s cs : 0 <= snd (parse_chars_t hsl s cs 0) <= zlenN cs * (1 + MAX_SIXEL_DIMENSION).
Proof. pose proof (sixel_ticks_bound_l s cs). pose proof (rep_sum_le cs s). lia. Qed.
Lemma sixel_alloc_bound_abs_l s cs s' : InvB (rows s) -> parse_chars hsl s cs = Ok s' ->
  sixel_bytes (rows s') <= 4 * MAX_SIXEL_DIMENSION * MAX_SIXEL_DIMENSION.
Proof.
  intros HB H. destruct (parse_chars_InvB hsl cs s s' HB H) as [Hh Hf]. pose proof (max_len_le_B _ Hf) as HM.
  pose proof (sixel_bytes_le (rows s')) as HS. pose proof (height_nonneg (rows s')). pose proof (mxl_nonneg (rows s')). unfold mxl in *. nia.
Qed.
Lemma sixel_alloc_bound_abs_init_l pal0 vs hs cs s' : parse_chars hsl (init_state pal0 vs hs) cs = Ok s' ->
  sixel_bytes (rows s') <= 4 * MAX_SIXEL_DIMENSION * MAX_SIXEL_DIMENSION.
Proof. apply sixel_alloc_bound_abs_l. split; [unfold height, MAX_SIXEL_DIMENSION; cbn; lia|constructor]. Qed.
Lemma sixel_image_bound_abs_l pal0 vs hs data w h d : parse_from hsl pal0 vs hs data = Ok (w, h, d) ->
  zlenN d <= 4 * MAX_SIXEL_DIMENSION * MAX_SIXEL_DIMENSION.
Proof.
  intro H. pose proof (sixel_rect_proof hsl _ _ _ _ _ _ _ H) as HR. destruct (sixel_dims_bounded_proof hsl _ _ _ _ _ _ _ H) as [HW HH].
  unfold zlenN. rewrite HR. nia.
Qed.

End S.
