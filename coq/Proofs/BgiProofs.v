(* Lemmas about the BGI kernel model (Model/BgiKernel.v): the invariant InvBgi, the row loop in one pass equals the
   pixel-by-pixel loop with its checked writes, bar_rect / put_pixel / every modelled Command::run keep the invariant and
   never reach a panic site, for all parameters in 0..=PMAX (a superset of what two base-36 digits can denote). *)
From Coq Require Import NArith ZArith List Bool Lia Arith.
From IE Require Import Gen.RipGen Model.RipTok Model.BgiKernel Proofs.RipTokProofs.
Import ListNotations.
Local Open Scope Z_scope.

Definition PMAX : Z := 65535.        (* parameters: two base-36 digits give at most 1295 *)
Definition WMAX : Z := 1024.         (* window side: the engine uses 640 x 350 *)
Definition RB : Z := 1048576.        (* rectangles handed to bar_rect: text windows reach 16 * PMAX *)

Definition VpOk (r : rect) : Prop :=
  let '(x, y, w, h) := r in 0 <= x <= PMAX /\ 0 <= y <= PMAX /\ 0 <= x + w <= PMAX /\ 0 <= y + h <= PMAX.
Definition RectOk (r : rect) : Prop :=
  let '(x, y, w, h) := r in - RB <= x <= RB /\ - RB <= y <= RB /\ - RB <= x + w <= RB /\ - RB <= y + h <= RB.

Definition InvBgi (s : bgi) : Prop :=
  1 <= win_w s <= WMAX /\ 1 <= win_h s <= WMAX /\
  Z.of_nat (length (screen s)) = win_w s * win_h s /\
  VpOk (viewport s) /\
  (fill_style s <= 12)%N /\ length (fill_user_pattern s) = 8%nat /\
  (color s < 16)%N /\ (bkcolor s < 16)%N /\ (fill_color s < 16)%N /\
  match text_window s with Some r => RectOk r | None => True end.

(* ---------- generated constants ---------- *)
Lemma fill_patterns_shape : length DEFAULT_FILL_PATTERNS = 13%nat /\ forallb (fun p => Nat.eqb (length p) 8) DEFAULT_FILL_PATTERNS = true.
Proof. vm_compute. auto. Qed.
Lemma ega_length : length EGA_PALETTE = 64%nat.
Proof. reflexivity. Qed.
Lemma moduli : COLOR_MOD = 16%N /\ BKCOLOR_MOD = 16%N /\ FILLCOLOR_MOD = 16%N /\ NOT_MOD = 16%N.
Proof. vm_compute. auto. Qed.
Lemma default_pattern_length : length DEFAULT_USER_PATTERN = 8%nat.
Proof. reflexivity. Qed.
Lemma screen_size : 1 <= SCREEN_W <= WMAX /\ 1 <= SCREEN_H <= WMAX.
Proof. vm_compute. intuition discriminate. Qed.
Lemma fillstyle_from_range : forallb (fun kv => (snd kv <=? 12)%N) FILLSTYLE_FROM = true /\ (FILLSTYLE_FROM_DEFAULT <= 12)%N.
Proof. vm_compute. split; [reflexivity|discriminate]. Qed.

(* ---------- chk ---------- *)
Lemma chk_ok z : I32_MIN <= z <= I32_MAX -> chk z = Ok z.
Proof. intros H. unfold chk. replace (in_i32 z) with true; [reflexivity|]. symmetry. apply in_i32_iff. exact H. Qed.

Ltac chk_tac := rewrite chk_ok by (unfold I32_MIN, I32_MAX, PMAX, WMAX, RB in *; nia).

(* ---------- the row loop ---------- *)
Lemma row_fill_length scr : forall st vals, length (row_fill scr st vals) = length scr.
Proof.
  induction scr as [|p t IH]; intros st vals; simpl; [reflexivity|].
  destruct st; [destruct vals; simpl; [reflexivity|f_equal; apply IH]|simpl; f_equal; apply IH].
Qed.

Lemma row_fill_nil scr : forall st, row_fill scr st [] = scr.
Proof. induction scr as [|p t IH]; intros st; simpl; [reflexivity|]. destruct st; [reflexivity|f_equal; apply IH]. Qed.

Lemma row_fill_beyond scr : forall st vals, (length scr <= st)%nat -> row_fill scr st vals = scr.
Proof.
  induction scr as [|p t IH]; intros st vals H; simpl in *; [reflexivity|].
  destruct st; [lia|]. f_equal. apply IH. lia.
Qed.

Lemma row_fill_step scr : forall st v vs scr', set_nth scr st v = Some scr' -> row_fill scr st (v :: vs) = row_fill scr' (S st) vs.
Proof.
  induction scr as [|p t IH]; intros st v vs scr' H; simpl in H; [discriminate|].
  destruct st.
  - inversion H; subst. reflexivity.
  - destruct (set_nth t st v) as [t'|] eqn:E; [|discriminate]. inversion H; subst.
    change (row_fill (p :: t) (S st) (v :: vs)) with (p :: row_fill t st (v :: vs)).
    change (row_fill (p :: t') (S (S st)) vs) with (p :: row_fill t' (S st) vs).
    f_equal. apply IH. exact E.
Qed.

(* the one-pass fill IS the checked pixel-by-pixel loop of bar_rect: the `if x_start >= len { break }` guard makes every
   screen[x_start] = v write land inside the vector *)
Lemma row_loop_px_eq vals : forall scr st, row_loop_px scr st vals = Ok (row_fill scr st vals).
Proof.
  induction vals as [|v vs IH]; intros scr st; simpl.
  - rewrite row_fill_nil. reflexivity.
  - destruct (Nat.leb (length scr) st) eqn:E.
    + apply Nat.leb_le in E. rewrite row_fill_beyond by exact E. reflexivity.
    + apply Nat.leb_gt in E. unfold set_px. destruct (set_nth_some scr st v E) as [scr' S]. rewrite S. simpl.
      rewrite IH. rewrite (row_fill_step _ _ _ _ _ S). reflexivity.
Qed.

(* a row starting at or beyond the end of the screen changes nothing: the extra test on [len] in bar_rows_* is the same
   `x_start >= screen.len() -> break` guard, evaluated once for the row *)
Lemma row_fill_guard scr len ystart vals : len = Z.of_nat (length scr) ->
  (if (ystart <? 0) || (len <=? ystart) then scr else row_fill scr (Z.to_nat ystart) vals) =
  (if ystart <? 0 then scr else row_fill scr (Z.to_nat ystart) vals).
Proof.
  intros ->. destruct (ystart <? 0) eqn:A; [reflexivity|]. simpl.
  destruct (Z.of_nat (length scr) <=? ystart) eqn:B; [|reflexivity].
  apply Z.leb_le in B. apply Z.ltb_ge in A. symmetry. apply row_fill_beyond. lia.
Qed.

Lemma bar_rows_solid_ok n : forall scr len ystart ww w c,
  0 <= ww -> I32_MIN <= ystart -> ystart + Z.of_nat n * ww <= I32_MAX ->
  exists scr', bar_rows_solid n scr len ystart ww w c = Ok scr' /\ length scr' = length scr.
Proof.
  induction n as [|n IH]; intros scr len ystart ww w c Hw Hlo Hhi; simpl.
  - eauto.
  - rewrite chk_ok by (unfold I32_MIN, I32_MAX in *; nia). simpl.
    destruct (IH (if (ystart <? 0) || (len <=? ystart) then scr else row_fill scr (Z.to_nat ystart) (repeat c w)) len (ystart + ww) ww w c) as [scr' [E L]];
      [lia|unfold I32_MIN in *; lia|nia|].
    exists scr'. split; [exact E|]. rewrite L. destruct ((ystart <? 0) || (len <=? ystart)); [reflexivity|apply row_fill_length].
Qed.

Lemma idx_ok {A} site (l : list A) i : 0 <= i < Z.of_nat (length l) -> exists v, idx site l i = Ok v /\ nth_error l (Z.to_nat i) = Some v.
Proof.
  intros H. unfold idx. replace (i <? 0) with false by (symmetry; apply Z.ltb_ge; lia).
  destruct (nth_error_some_lt l (Z.to_nat i)) as [v E]; [lia|]. rewrite E. eauto.
Qed.

Lemma bar_rows_pattern_ok n : forall scr len ystart ww w pattern ypat mask fillc bk,
  0 <= ww -> I32_MIN <= ystart -> ystart + Z.of_nat n * ww <= I32_MAX -> length pattern = 8%nat -> 0 <= ypat < 8 ->
  exists scr', bar_rows_pattern n scr len ystart ww w pattern ypat mask fillc bk = Ok scr' /\ length scr' = length scr.
Proof.
  induction n as [|n IH]; intros scr len ystart ww w pattern ypat mask fillc bk Hw Hlo Hhi LP HY; simpl.
  - eauto.
  - destruct (idx_ok SITE_PATTERN_INDEX pattern ypat) as [pat [E _]]; [rewrite LP; simpl; lia|]. rewrite E. simpl.
    rewrite chk_ok by (unfold I32_MIN, I32_MAX in *; nia). simpl.
    destruct (IH (if (ystart <? 0) || (len <=? ystart) then scr else row_fill scr (Z.to_nat ystart) (pat_vals w pat mask fillc bk)) len (ystart + ww) ww w
                 pattern (Z.rem (ypat + 1) 8) mask fillc bk) as [scr' [E' L]];
      [lia|unfold I32_MIN in *; lia|nia|exact LP| |].
    { pose proof (Z.rem_bound_pos (ypat + 1) 8). lia. }
    exists scr'. split; [exact E'|]. rewrite L. destruct ((ystart <? 0) || (len <=? ystart)); [reflexivity|apply row_fill_length].
Qed.

(* ---------- records ---------- *)
Lemma upd_screen_id s : upd_screen s (screen s) = s.
Proof. destruct s; reflexivity. Qed.

Lemma InvBgi_upd_screen s scr : InvBgi s -> length scr = length (screen s) -> InvBgi (upd_screen s scr).
Proof. unfold InvBgi. intros H L. simpl. rewrite L. exact H. Qed.

(* ---------- bar_rect ---------- *)
Lemma get_fill_pattern_ok s : InvBgi s -> exists p, get_fill_pattern s = Ok p /\ length p = 8%nat.
Proof.
  intros (_ & _ & _ & _ & FS & LP & _). unfold get_fill_pattern.
  destruct (fill_style s =? 12)%N; [eauto|].
  destruct fill_patterns_shape as [L13 F8].
  destruct (idx_ok SITE_PATTERN_INDEX DEFAULT_FILL_PATTERNS (Z.of_N (fill_style s))) as [p [E N]]; [rewrite L13; simpl; lia|].
  exists p. split; [exact E|]. rewrite forallb_forall in F8. apply Nat.eqb_eq. apply F8. eapply nth_error_In; eauto.
Qed.

Lemma bar_rect_ok s r : InvBgi s -> RectOk r ->
  exists scr, bar_rect s r = Ok (upd_screen s scr) /\ length scr = length (screen s).
Proof.
  intros I R. pose proof I as (HW & HH & LS & VP & FS & LP & _).
  destruct r as [[[ax ay] aw] ah]. destruct (viewport s) as [[[bx by_] bw] bh] eqn:EV.
  unfold RectOk in R. unfold VpOk in VP.
  unfold bar_rect, r_intersect. rewrite EV.
  repeat (chk_tac; cbn [bind]).
  set (l := Z.max ax bx). set (t := Z.max ay by_).
  set (w := Z.min (ax + aw) (bx + bw) - l). set (h := Z.min (ay + ah) (by_ + bh) - t).
  assert (Hl : 0 <= l <= RB) by (unfold l, RB, PMAX in *; lia).
  assert (Ht : 0 <= t <= RB) by (unfold t, RB, PMAX in *; lia).
  assert (Hlw : l + w <= PMAX) by (unfold w, l; lia).
  assert (Hth : t + h <= PMAX) by (unfold h, t; lia).
  destruct ((w =? 0) || (h =? 0)); [exists (screen s); rewrite upd_screen_id; auto|].
  assert (Hw1 : - RB <= l + w) by (unfold w, l, RB, PMAX in *; lia).
  assert (Hh1 : - RB <= t + h) by (unfold h, t, RB, PMAX in *; lia).
  repeat (chk_tac; cbn [bind]).
  assert (HB : t * win_w s + l + Z.of_nat (Z.to_nat h) * win_w s <= I32_MAX).
  { destruct (Z.le_gt_cases h 0).
    - replace (Z.to_nat h) with 0%nat by lia. unfold I32_MAX, RB, WMAX in *. nia.
    - rewrite Z2Nat.id by lia. unfold I32_MAX, RB, WMAX, PMAX in *. nia. }
  destruct (fill_style s =? 1)%N.
  - destruct (bar_rows_solid_ok (Z.to_nat h) (screen s) (Z.of_nat (length (screen s))) (t * win_w s + l) (win_w s) (Z.to_nat w) (fill_color s)) as [scr [E L]];
      [lia|unfold I32_MIN, RB in *; nia|exact HB|].
    rewrite E. cbn [bind]. eauto.
  - destruct (get_fill_pattern_ok s I) as [p [EP LPP]]. rewrite EP. cbn [bind].
    destruct (h <=? 0); [exists (screen s); rewrite upd_screen_id; auto|].
    pose proof (Z.rem_bound_pos l 8 ltac:(lia) ltac:(lia)).
    replace (Z.rem l 8 <? 0) with false by (symmetry; apply Z.ltb_ge; lia).
    destruct (bar_rows_pattern_ok (Z.to_nat h) (screen s) (Z.of_nat (length (screen s))) (t * win_w s + l) (win_w s) (Z.to_nat w) p (Z.rem t 8)
                (N.shiftr 128 (Z.to_N (Z.rem l 8))) (fill_color s) (bkcolor s)) as [scr [E L]];
      [lia|unfold I32_MIN, RB in *; nia|exact HB|exact LPP|apply Z.rem_bound_pos; lia|].
    rewrite E. cbn [bind]. eauto.
Qed.

(* ---------- put_pixel ---------- *)
Lemma r_contains_ok r px py : VpOk r -> - RB <= px <= RB -> - RB <= py <= RB ->
  exists b, r_contains r px py = Ok b /\
            (b = true -> let '(x, y, w, h) := r in x <= px <= x + w /\ y <= py <= y + h).
Proof.
  destruct r as [[[x y] w] h]. unfold VpOk, r_contains. intros V HX HY.
  destruct (x <=? px) eqn:E1; simpl; [|exists false; split; [reflexivity|discriminate]].
  chk_tac. cbn [bind].
  destruct (px <=? x + w) eqn:E2; simpl; [|exists false; split; [reflexivity|discriminate]].
  destruct (y <=? py) eqn:E3; simpl; [|exists false; split; [reflexivity|discriminate]].
  chk_tac. cbn [bind]. exists (py <=? y + h). split; [reflexivity|]. intros E4.
  apply Z.leb_le in E1, E2, E3, E4. lia.
Qed.

Lemma put_pixel_ok s x y c : InvBgi s -> - RB <= x <= RB -> - RB <= y <= RB ->
  exists scr, put_pixel s x y c = Ok (upd_screen s scr) /\ length scr = length (screen s).
Proof.
  intros I HX HY. pose proof I as (HW & HH & LS & VP & _).
  unfold put_pixel. destruct (r_contains_ok (viewport s) x y VP HX HY) as [b [E IN]]. rewrite E. cbn [bind].
  destruct b; simpl; [|exists (screen s); rewrite upd_screen_id; auto].
  specialize (IN eq_refl). destruct (viewport s) as [[[vx vy] vw] vh]. unfold VpOk in VP.
  repeat (chk_tac; cbn [bind]).
  destruct ((y * win_w s + x <? 0) || (Z.of_nat (length (screen s)) <=? y * win_w s + x)) eqn:G;
    [exists (screen s); rewrite upd_screen_id; auto|].
  apply orb_false_iff in G. destruct G as [G1 G2]. apply Z.ltb_ge in G1. apply Z.leb_gt in G2.
  destruct (idx_ok SITE_SCREEN_INDEX (screen s) (y * win_w s + x)) as [old [EO _]]; [lia|]. rewrite EO. cbn [bind].
  unfold set_px.
  destruct (set_nth_some (screen s) (Z.to_nat (y * win_w s + x)) (wm_apply (write_mode s) old c)) as [scr ES]; [lia|].
  rewrite ES. cbn [bind]. exists scr. split; [reflexivity|]. eapply set_nth_length; eauto.
Qed.

Lemma bar_ok s l t r b : InvBgi s -> 0 <= l <= PMAX -> 0 <= t <= PMAX -> 0 <= r <= PMAX -> 0 <= b <= PMAX ->
  exists scr, bar s l t r b = Ok (upd_screen s scr) /\ length scr = length (screen s).
Proof.
  intros I Hl Ht Hr Hb. unfold bar. repeat (chk_tac; cbn [bind]).
  apply bar_rect_ok; [exact I|]. unfold RectOk, RB, PMAX in *. lia.
Qed.

(* ---------- Command::run ---------- *)
Definition ArgsOk (c : pcmd) : Prop :=
  length (pc_fields c) = cmd_nfields (pc_cmd c) /\ Forall (fun v => 0 <= v <= PMAX) (pc_fields c).

Definition RunPost (s : bgi) (r : run_result) : Prop :=
  match r with
  | ROk s' => InvBgi s' /\ win_w s' = win_w s /\ win_h s' = win_h s /\ length (screen s') = length (screen s)
  | RPanic _ => False
  | RUnmodelled => True
  end.

Lemma ega_ok i : exists c, ega i = Ok c.
Proof.
  unfold ega. rewrite ega_length.
  destruct (idx_ok SITE_EGA_INDEX EGA_PALETTE (i mod Z.of_nat 64)) as [c [E _]]; [rewrite ega_length; apply Z.mod_pos_bound; simpl; lia|].
  eauto.
Qed.

Lemma map_ega_ok l : exists p, map_res ega l = Ok p.
Proof.
  induction l as [|a t [p IH]]; simpl; [eauto|]. destruct (ega_ok a) as [c E]. rewrite E, IH. simpl. eauto.
Qed.

Lemma cell_of_range size : let '(cx, cy) := cell_of size in 0 <= cx <= 16 /\ 0 <= cy <= 16.
Proof.
  unfold cell_of. simpl.
  repeat match goal with |- context [if ?b then _ else _] => destruct b end; simpl; lia.
Qed.

Lemma fs_from_range n : (fs_from n <= 12)%N.
Proof.
  unfold fs_from. destruct fillstyle_from_range as [F D].
  destruct (lookup n FILLSTYLE_FROM) as [k|] eqn:E; [|exact D].
  assert (In (n, k) FILLSTYLE_FROM \/ True) as _ by auto.
  revert E. generalize FILLSTYLE_FROM F. intros l. induction l as [|[k' v] t IH]; simpl; [discriminate|].
  intros F' E. apply andb_true_iff in F'. destruct F' as [F1 F2].
  destruct (n =? k')%N; [inversion E; subst; apply N.leb_le; exact F1|apply IH; assumption].
Qed.

Lemma mod16_lt (a : N) : (a mod 16 < 16)%N.
Proof. apply N.mod_upper_bound. discriminate. Qed.

Lemma InvBgi_frame s c bk wm fs pat fc vp pal cx cy sus tw tww :
  InvBgi s -> VpOk vp -> (fs <= 12)%N -> length pat = 8%nat -> (c < 16)%N -> (bk < 16)%N -> (fc < 16)%N ->
  match tw with Some r => RectOk r | None => True end ->
  InvBgi (mk c bk wm fs pat fc (win_w s) (win_h s) vp pal (screen s) cx cy sus tw tww).
Proof. intros (HW & HH & LS & _) V F P C B FC T. unfold InvBgi, mk. simpl. auto 12. Qed.

Ltac inv_frame I :=
  pose proof I as (?HW & ?HH & ?LS & ?VP & ?FS & ?LP & ?CC & ?CB & ?CF & ?TW).

Lemma graph_defaults_ok s : InvBgi s -> exists s', graph_defaults s = Ok s' /\ InvBgi s' /\ win_w s' = win_w s /\ win_h s' = win_h s /\
  length (screen s') = length (screen s).
Proof.
  intros I. inv_frame I. destruct moduli as (M1 & M2 & M3 & _).
  unfold graph_defaults, clear_device.
  set (s3 := with_fill _ _ _ _).
  assert (I3 : InvBgi s3).
  { unfold s3, with_fill, with_bk, with_color, with_viewport, with_palette. cbn -[N.modulo DEFAULT_USER_PATTERN DOS_DEFAULT_PALETTE].
    apply (InvBgi_frame s); auto.
    - unfold VpOk, PMAX, WMAX in *. lia.
    - discriminate.
    - rewrite M1. apply mod16_lt.
    - rewrite M2. apply mod16_lt.
    - rewrite M3. apply mod16_lt. }
  assert (W3 : win_w s3 = win_w s /\ win_h s3 = win_h s /\ screen s3 = screen s) by (unfold s3; auto).
  destruct W3 as (W3 & H3 & S3).
  destruct (bar_ok s3 0 0 (win_w s3) (win_h s3) I3) as [scr [E L]]; try (rewrite ?W3, ?H3; unfold PMAX, WMAX in *; lia).
  rewrite E. cbn [bind]. eexists. split; [reflexivity|].
  pose proof (InvBgi_upd_screen s3 scr I3 L) as I4.
  split; [|split; [exact W3|split; [exact H3|rewrite <- S3; exact L]]].
  unfold InvBgi in *. exact I4.
Qed.

Lemma clear_text_window_ok s : InvBgi s -> exists scr, clear_text_window s = Ok (upd_screen s scr) /\ length scr = length (screen s).
Proof.
  intros I. unfold clear_text_window. inv_frame I. destruct (text_window s) as [tw|].
  - apply bar_rect_ok; assumption.
  - exists (screen s). rewrite upd_screen_id. auto.
Qed.

Lemma VpOk_RectOk r : VpOk r -> RectOk r.
Proof. destruct r as [[[x y] w] h]. unfold VpOk, RectOk, PMAX, RB. lia. Qed.

Lemma run_cmd_ok s c : InvBgi s -> ArgsOk c -> RunPost s (run_cmd s c).
Proof.
  intros I [L A]. inv_frame I. destruct moduli as (M1 & M2 & M3 & _).
  destruct c as [cm fields vec tl]. cbn [pc_cmd pc_fields pc_vec] in *.
  unfold run_cmd. cbn [pc_cmd].
  destruct cm; try exact Logic.I; cbn [cmd_nfields] in L;
    repeat (let a := fresh "a" in destruct fields as [|a fields]; cbn [length] in L; try discriminate L; try (injection L as L));
    repeat match goal with H : Forall _ (_ :: _) |- _ => let P := fresh "P" in inversion H as [|? ? P ?]; subst; clear H end;
    unfold arg; cbn [pc_fields pc_vec nth_error bind lift];
    try solve [cbn [RunPost]; split; [exact I|auto]].    (* the commands that leave every field of the invariant alone: Home, EraseEOL, GotoXY, Move, WriteMode, … *)
  - (* TextWindow *)
    pose proof (cell_of_range a4) as CR. destruct (cell_of a4) as [cx cy].
    repeat (chk_tac; cbn [bind]). cbn [lift RunPost].
    assert (RO : RectOk (a * cx, a0 * cy, a1 * cx - a * cx, a2 * cy - a0 * cy)) by (unfold RectOk, RB, PMAX in *; nia).
    destruct ((a =? 0) && (a0 =? 0) && (a1 =? 0) && (a2 =? 0) && (a4 =? 0) && (a3 =? 0)).
    + split; [|auto]. unfold with_text_window, with_suspend. cbn. apply (InvBgi_frame s); auto.
    + split; [|auto]. unfold with_text_window. apply (InvBgi_frame s); auto.
  - (* ViewPort *)
    repeat (chk_tac; cbn [bind]). cbn [lift RunPost]. split; [|auto].
    unfold with_viewport. apply (InvBgi_frame s); auto. unfold VpOk, PMAX in *. lia.
  - (* ResetWindows *)
    destruct (clear_text_window_ok s I) as [scr [E Ls]]. rewrite E. cbn [bind].
    pose proof (InvBgi_upd_screen s scr I Ls) as I1.
    destruct (graph_defaults_ok _ I1) as (s' & E' & I' & W' & H' & L'). rewrite E'. cbn [lift RunPost].
    split; [exact I'|]. simpl in *. split; [exact W'|split; [exact H'|]]. rewrite L'. exact Ls.
  - (* EraseWindow *)
    destruct (clear_text_window_ok s I) as [scr [E Ls]]. rewrite E. cbn [lift RunPost].
    split; [apply InvBgi_upd_screen; auto|simpl; auto].
  - (* EraseView *)
    unfold clear_viewport. destruct (bar_rect_ok s (viewport s) I (VpOk_RectOk _ VP)) as [scr [E Ls]]. rewrite E. cbn [lift RunPost].
    split; [apply InvBgi_upd_screen; auto|simpl; auto].
  - (* Color *) cbn [lift RunPost]. split; [unfold with_color; apply (InvBgi_frame s); auto; rewrite M1; apply mod16_lt|auto].
  - (* SetPalette *)
    destruct (map_ega_ok vec) as [p E]. rewrite E. cbn [bind lift RunPost]. split; [unfold with_palette; apply (InvBgi_frame s); auto|auto].
  - (* OnePalette *)
    destruct (ega_ok (Z.of_N (as_u8 a0))) as [col E]. rewrite E. cbn [bind lift RunPost].
    split; [unfold with_palette; apply (InvBgi_frame s); auto|auto].
  - (* Pixel *)
    destruct (put_pixel_ok s a a0 (color s) I) as [scr [E Ls]]; try (unfold RB, PMAX in *; lia). rewrite E. cbn [lift RunPost].
    split; [apply InvBgi_upd_screen; auto|simpl; auto].
  - (* Bar *)
    destruct (a <? a1); destruct (a0 <? a2);
      match goal with |- RunPost _ (lift (bar s ?l ?t ?r ?b)) =>
        destruct (bar_ok s l t r b I) as [scr [E Ls]]; try lia; rewrite E; cbn [lift RunPost];
        (split; [apply InvBgi_upd_screen; auto|simpl; auto]) end.
  - (* FillStyle *)
    cbn [lift RunPost]. split; [unfold with_fill; apply (InvBgi_frame s); auto; [apply fs_from_range|rewrite M3; apply mod16_lt]|auto].
  - (* FillPattern *)
    cbn [lift RunPost]. split; [unfold with_fill; apply (InvBgi_frame s); auto; [discriminate|rewrite M3; apply mod16_lt]|auto].
Qed.
