(* C08, operation part 2: every modelled public editing operation is a sound edit. *)
From Coq Require Import List ZArith NArith Bool Arith Lia.
From IE Require Import Lib.C08Lib Gen.UndoGen Model.Undo Model.EditModel Model.EditOps Proofs.UndoProofs Proofs.LayerProofs Proofs.EditProofs.
Import ListNotations.
Local Open Scope Z_scope.

Local Notation lclosed := (lclosed op_undo op_redo eqv).
Local Notation Undoable := (Undoable op_undo op_redo eqv).
Local Notation edit_chain := (edit_chain op_undo op_redo eqv).
Local Notation edit_joint := (edit_joint op_undo op_redo eqv).
Local Notation sound_edit := (sound_edit op_undo op_redo eqv).

Lemma get_current_layer_ok s i : get_current_layer s = Ok i -> exists L, nth_error (layers s) i = Some L.
Proof.
  unfold get_current_layer. destruct (layers s) as [|L0 l] eqn:E; [discriminate|]. intro H. injection H as <-.
  destruct (nth_error (L0 :: l) (Nat.min (curl s) (pred (length (L0 :: l))))) eqn:En; [eauto|].
  apply nth_error_None in En. cbn [length pred] in En. lia.
Qed.

Lemma get_cur_layer_some s i L : get_cur_layer s = Some (i, L) -> nth_error (layers s) i = Some L /\ get_current_layer s = Ok i.
Proof.
  unfold get_cur_layer. destruct (get_current_layer s) as [j| |] eqn:E; try discriminate.
  destruct (nth_error (layers s) j) eqn:En; [|discriminate]. intro H. injection H as <- <-. auto.
Qed.

Lemma get_current_layer_curl s i : get_current_layer s = Ok i -> (curl s < length (layers s))%nat -> i = curl s.
Proof.
  unfold get_current_layer. destruct (layers s) as [|L0 l]; [discriminate|]. intros H Hl. injection H as <-. cbn [length pred] in *. lia.
Qed.

Ltac finish_push H E C :=
  rewrite E in H; cbn [bind] in H; try (injection H as <-); try exact C.

(* ------------------------------------------------------------------ single pushes *)
Lemma api_swap_char_sound x1 y1 x2 y2 : sound_edit (api_swap_char x1 y1 x2 y2).
Proof.
  intros e e' H. unfold api_swap_char in H.
  destruct (get_current_layer (cur e)) as [i| |] eqn:Ei; cbn [bind] in H; try discriminate.
  destruct (get_current_layer_ok _ _ Ei) as (L & Hn).
  destruct (push_sound _ _ e (USwapChar i x1 y1 x2 y2) (upd_layer (cur e) i (fun L => l_swap_char L x1 y1 x2 y2))
              (stable_lclosed _ swapchar_stable)) as (e1 & E1 & C1 & _).
  { exists i, x1, y1, x2, y2, L. repeat split; auto. apply eqv_refl. }
  finish_push H E1 C1.
Qed.

Lemma api_resize_buffer_sound w h : sound_edit (api_resize_buffer w h).
Proof.
  intros e e' H. unfold api_resize_buffer in H.
  destruct (push_sound _ _ e (UResizeBuffer (bw (cur e)) (bh (cur e)) w h) (with_bsize (cur e) w h)
              (stable_lclosed _ resize_stable)) as (e1 & E1 & C1 & _).
  { exists w, h. split; [reflexivity|apply eqv_refl]. }
  finish_push H E1 C1.
Qed.

Lemma curl_upd_chain (e : E) n : edit_chain e (upd e (fun s => with_curl s n)).
Proof. apply upd_chain. intro s. apply eqv_with_curl. Qed.

Lemma api_add_new_layer_sound n : sound_edit (api_add_new_layer n).
Proof.
  intros e e' H. unfold api_add_new_layer in H.
  destruct (layer_new (1, 0)%N (bw (cur e)) (bh (cur e))) as [L| |]; cbn [bind] in H; try discriminate.
  set (idx := Nat.min (n + 1) (length (layers (cur e)))) in *.
  destruct (push_sound _ _ e (UAddLayer idx (Some (with_has_alpha L true)))
              (with_layers (cur e) (insert_at idx (with_has_alpha L true) (layers (cur e)))) add_closed) as (e1 & E1 & C1 & _).
  { exists idx, (with_has_alpha L true). repeat split; [lia|apply eqv_refl]. }
  rewrite E1 in H. cbn [bind] in H. injection H as <-. eapply chain_trans; [exact C1|apply curl_upd_chain].
Qed.

Lemma remove_at_length {A} i (l : list A) : (i < length l)%nat -> length (remove_at i l) = pred (length l).
Proof. intro H. unfold remove_at. rewrite app_length, firstn_length, skipn_length. lia. Qed.

Lemma api_remove_layer_sound n : sound_edit (api_remove_layer n).
Proof.
  intros e e' H. unfold api_remove_layer in H.
  destruct (length (layers (cur e)) <=? n)%nat eqn:El; [discriminate|]. apply Nat.leb_gt in El.
  destruct (nth_error (layers (cur e)) n) as [L|] eqn:Hn; [|apply nth_error_None in Hn; lia].
  destruct (push_sound _ _ e (URemoveLayer n None) (with_layers (cur e) (remove_at n (layers (cur e)))) remove_closed) as (e1 & E1 & C1 & _).
  { exists n, L, None. split; [reflexivity|]. cbn [layers with_layers]. split; [rewrite remove_at_length by exact El; lia|].
    rewrite insert_at_remove_at by exact Hn. repeat split; try reflexivity. apply Forall2_leqv_refl. }
  finish_push H E1 C1.
Qed.

Lemma swap_at_some {A} i j (l : list A) : (i < length l)%nat -> (j < length l)%nat -> exists r, swap_at i j l = Some r.
Proof.
  intros Hi Hj. unfold swap_at.
  destruct (nth_error l i) eqn:Ei; [|apply nth_error_None in Ei; lia].
  destruct (nth_error l j) eqn:Ej; [|apply nth_error_None in Ej; lia]. eauto.
Qed.

Lemma api_raise_layer_sound n : sound_edit (api_raise_layer n).
Proof.
  intros e e' H. unfold api_raise_layer in H.
  destruct (length (layers (cur e)) <=? n + 1)%nat eqn:El; [discriminate|]. apply Nat.leb_gt in El.
  destruct (swap_at_some n (S n) (layers (cur e))) as (la & Hs); try lia.
  destruct (push_sound _ _ e (URaise n) (with_layers (cur e) la) (stable_lclosed _ raise_stable)) as (e1 & E1 & C1 & _).
  { exists n, la. repeat split; auto. apply eqv_refl. }
  rewrite E1 in H. cbn [bind] in H. injection H as <-. eapply chain_trans; [exact C1|apply curl_upd_chain].
Qed.

Lemma api_lower_layer_sound n : sound_edit (api_lower_layer n).
Proof.
  intros e e' H. unfold api_lower_layer in H. destruct n as [|m]; [injection H as <-; apply chain_refl|].
  destruct (length (layers (cur e)) <=? S m)%nat eqn:El; [discriminate|]. apply Nat.leb_gt in El.
  destruct (swap_at_some (S m) m (layers (cur e))) as (la & Hs); try lia.
  destruct (push_sound _ _ e (ULower (S m)) (with_layers (cur e) la) (stable_lclosed _ lower_stable)) as (e1 & E1 & C1 & _).
  { exists m, la. repeat split; auto. apply eqv_refl. }
  rewrite E1 in H. cbn [bind] in H. injection H as <-. eapply chain_trans; [exact C1|apply curl_upd_chain].
Qed.

Lemma api_duplicate_layer_sound n : sound_edit (api_duplicate_layer n).
Proof.
  intros e e' H. unfold api_duplicate_layer in H.
  destruct (nth_error (layers (cur e)) n) as [L|] eqn:Hn; [|discriminate].
  assert (Hl : (n < length (layers (cur e)))%nat) by (apply nth_error_Some; congruence).
  set (L' := with_title L (fst (l_title L), (snd (l_title L) + 1)%N)) in *.
  destruct (push_sound _ _ e (UAddLayer (n + 1) (Some L')) (with_layers (cur e) (insert_at (n + 1) L' (layers (cur e)))) add_closed) as (e1 & E1 & C1 & _).
  { exists (n + 1)%nat, L'. repeat split; [lia|apply eqv_refl]. }
  rewrite E1 in H. cbn [bind] in H. injection H as <-. eapply chain_trans; [exact C1|apply curl_upd_chain].
Qed.

Lemma api_clear_layer_sound n : sound_edit (api_clear_layer n).
Proof.
  intros e e' H. unfold api_clear_layer in H.
  destruct (length (layers (cur e)) <=? n)%nat eqn:El; [discriminate|]. apply Nat.leb_gt in El.
  destruct (nth_error (layers (cur e)) n) as [L|] eqn:Hn; [|apply nth_error_None in Hn; lia].
  destruct (push_sound _ _ e (UClearLayer n []) (upd_layer (cur e) n (fun L => with_lines L [])) clear_closed) as (e1 & E1 & C1 & _).
  { exists n, [], L. repeat split; auto. apply eqv_refl. }
  rewrite E1 in H. cbn [bind] in H. injection H as <-. eapply chain_trans; [exact C1|apply curl_upd_chain].
Qed.

Lemma api_toggle_layer_visibility_sound n : sound_edit (api_toggle_layer_visibility n).
Proof.
  intros e e' H. unfold api_toggle_layer_visibility in H.
  destruct (length (layers (cur e)) <=? n)%nat eqn:El; [discriminate|]. apply Nat.leb_gt in El.
  destruct (nth_error (layers (cur e)) n) as [L|] eqn:Hn; [|apply nth_error_None in Hn; lia].
  destruct (push_sound _ _ e (UToggleVis n) (upd_layer (cur e) n toggle) (stable_lclosed _ toggle_stable)) as (e1 & E1 & C1 & _).
  { exists n, L. repeat split; auto. apply eqv_refl. }
  finish_push H E1 C1.
Qed.

Lemma api_set_layer_size_sound n w h : sound_edit (api_set_layer_size n w h).
Proof.
  intros e e' H. unfold api_set_layer_size in H.
  destruct (length (layers (cur e)) <=? n)%nat eqn:El; [discriminate|]. apply Nat.leb_gt in El.
  destruct (nth_error (layers (cur e)) n) as [L|] eqn:Hn; [|apply nth_error_None in Hn; lia].
  destruct (push_sound _ _ e (USetLayerSize n w h w h) (upd_layer (cur e) n (fun L => with_size L w h)) lsize_closed) as (e1 & E1 & C1 & _).
  { exists n, w, h, w, h, L. repeat split; auto. apply eqv_refl. }
  finish_push H E1 C1.
Qed.

Lemma api_move_layer_sound tx ty : sound_edit (api_move_layer tx ty).
Proof.
  intros e e' H. unfold api_move_layer in H.
  destruct (get_cur_layer (cur e)) as [[i L]|] eqn:Ec; [|injection H as <-; apply chain_refl].
  destruct (get_cur_layer_some _ _ _ Ec) as [Hn Hi].
  destruct (nth_error (layers (cur e)) (curl (cur e))) as [L'|] eqn:Hc.
  - assert (Hlt : (curl (cur e) < length (layers (cur e)))%nat) by (apply nth_error_Some; congruence).
    pose proof (get_current_layer_curl _ _ Hi Hlt) as ->. assert (L' = L) by congruence. subst L'.
    destruct (push_sound _ _ e (UMoveLayer (curl (cur e)) (l_ox L) (l_oy L) tx ty)
                (upd_layer (cur e) (curl (cur e)) (fun L => l_set_offset L tx ty)) (stable_lclosed _ move_stable)) as (e1 & E1 & C1 & _).
    { exists (curl (cur e)), tx, ty, L. repeat split; auto. apply eqv_refl. }
    finish_push H E1 C1.
  - (* stale current_layer: MoveLayer::redo reports InvalidLayer, the operation fails *)
    exfalso. unfold push, push_action in H. rewrite f_redo_leaf in H. cbn [op_redo] in H. unfold on_layer in H. rewrite Hc in H.
    cbn [bind] in H. discriminate.
Qed.

(* ------------------------------------------------------------------ selection records *)
Lemma selection_push_sound (e : E) o : ((exists old new, o = USetSelection old new) \/ (exists s, o = USelectNothing s) \/ (exists s, o = UDeselect s)) ->
  exists e1, push o e = Ok e1 /\ edit_chain e e1.
Proof.
  intro Ho. destruct (push_sound _ _ e o (cur e) (stable_lclosed _ selection_stable)) as (e1 & E1 & C1 & _).
  { split; [exact Ho|apply eqv_refl]. }
  eauto.
Qed.

Lemma api_set_selection_sound s : sound_edit (api_set_selection s).
Proof.
  intros e e' H. unfold api_set_selection in H. destruct (opt_sel_eqb (sel (cur e)) (Some s)); [injection H as <-; apply chain_refl|].
  destruct (selection_push_sound e (USetSelection (sel (cur e)) (Some s))) as (e1 & E1 & C1); [left; eauto|].
  finish_push H E1 C1.
Qed.

Lemma sel_upd_chain (e : E) v : edit_chain e (upd e (fun s => with_sel s v)).
Proof. apply upd_chain. intro s. apply eqv_with_sel. Qed.

Lemma api_clear_selection_sound : sound_edit api_clear_selection.
Proof.
  intros e e' H. unfold api_clear_selection in H. destruct (sel (cur e)) as [s|] eqn:Es; [|injection H as <-; apply chain_refl].
  destruct (selection_push_sound (upd e (fun s => with_sel s None)) (USelectNothing (Some s))) as (e1 & E1 & C1); [right; left; eauto|].
  rewrite E1 in H. injection H as <-. eapply chain_trans; [apply sel_upd_chain|exact C1].
Qed.

Lemma api_deselect_sound : sound_edit api_deselect.
Proof.
  intros e e' H. unfold api_deselect in H. destruct (sel (cur e)) as [s|] eqn:Es; [|injection H as <-; apply chain_refl].
  destruct (selection_push_sound (upd e (fun st => with_sel st None)) (UDeselect s)) as (e1 & E1 & C1); [right; right; eauto|].
  rewrite E1 in H. injection H as <-. eapply chain_trans; [apply sel_upd_chain|exact C1].
Qed.

(* ------------------------------------------------------------------ controls *)
Lemma ctl_cur_sound n : sound_edit (ctl_cur n).
Proof. intros e e' H. injection H as <-. apply upd_chain. intro s. apply eqv_with_curl. Qed.
Lemma ctl_mirror_sound b : sound_edit (ctl_mirror b).
Proof. intros e e' H. injection H as <-. apply upd_chain. intro s. apply eqv_with_mirror. Qed.
Lemma ctl_caret_sound x y : sound_edit (ctl_caret x y).
Proof. intros e e' H. injection H as <-. apply upd_chain. intro s. apply eqv_with_caret. Qed.

(* ------------------------------------------------------------------ set_char, with and without mirror mode *)
Lemma set_char_unwritable L x y c : writable L x y = false -> leqv (l_set_char L x y c) L.
Proof. intro W. destruct (set_char_spec L x y c) as [M R]. split; [exact M|]. intros. rewrite R, W. reflexivity. Qed.

Lemma set_char_idem L x y c : leqv (l_set_char (l_set_char L x y c) x y c) (l_set_char L x y c).
Proof.
  destruct (writable L x y) eqn:W.
  - destruct (set_char_spec L x y c) as [M1 R1]. destruct (set_char_spec (l_set_char L x y c) x y c) as [M2 R2].
    split; [exact M2|]. intros x' y'. rewrite R2. destruct (writable (l_set_char L x y c) x y && at_pos x' y' x y) eqn:E; [|reflexivity].
    apply andb_prop in E. destruct E as [_ E]. rewrite R1, W, E. reflexivity.
  - pose proof (set_char_unwritable L x y c W) as H.
    eapply leqv_trans; [apply set_char_leqv; exact H|]. apply leqv_refl.
Qed.

Lemma restore_same L x y : leqv (l_restore_char L x y (get_char L x y)) L.
Proof.
  destruct (restore_char_spec L x y (get_char L x y)) as [M R]. split; [exact M|]. intros x' y'. rewrite R.
  destruct (inb L x y) eqn:Hin; cbn [andb]; [|reflexivity].
  destruct (at_pos x' y' x y) eqn:E; [|reflexivity].
  rewrite get_char_spec, Hin. unfold at_pos in E. apply andb_prop in E. destruct E as [A B]. apply Nat.eqb_eq in A, B. subst. reflexivity.
Qed.

Lemma get_char_set_char_other L mx x y c : mx <> x -> get_char (l_set_char L mx y c) x y = get_char L x y.
Proof.
  intro Hne. destruct (set_char_spec L mx y c) as [M R]. rewrite !get_char_spec, (inb_meta _ _ x y M).
  destruct (inb L x y) eqn:Hin; [|reflexivity]. rewrite R.
  destruct (writable L mx y && at_pos (Z.to_nat x) (Z.to_nat y) mx y) eqn:E; [|reflexivity]. exfalso.
  apply andb_prop in E. destruct E as [W A]. apply writable_inb in W. apply inb_bounds in W. apply inb_bounds in Hin.
  unfold at_pos in A. apply andb_prop in A. destruct A as [A _]. apply Nat.eqb_eq in A. lia.
Qed.

Lemma push_setchar_exact (e : E) i x y old c L : nth_error (layers (cur e)) i = Some L ->
  push (USetChar i x y old c) e = Ok (mkEs (upd_layer (cur e) i (fun L => l_set_char L x y c)) (Leaf (USetChar i x y old c) :: ustk e) []).
Proof. intro H. unfold push, push_action. rewrite f_redo_leaf. cbn [op_redo]. rewrite H. reflexivity. Qed.

Lemma P_setchar_here a i x y c L : nth_error (layers a) i = Some L ->
  P_setchar (USetChar i x y (get_char L x y) c) a (upd_layer a i (fun L => l_set_char L x y c)).
Proof. intro H. exists i, x, y, c, L. repeat split; auto. apply eqv_refl. Qed.

(* the same set_char recorded twice in one group (mirror mode on the centre column) *)
Definition PP (f : fop uop) (a b : estate) : Prop := exists o, f = Atomic [Leaf o; Leaf o] /\ P_setchar o a b.

Lemma PP_closed : closed op_undo op_redo eqv PP PP.
Proof.
  split.
  - intros f a b (o & -> & HP) t Ht. pose proof HP as (i & x & y & new & L & -> & Hn & Hb).
    destruct (proj1 (setchar_stable _ _ _ HP) t Ht) as (t1 & E1 & Ea1).
    destruct (eqv_has_layer t1 _ i _ Ea1 Hn) as (L1 & Hn1 & _).
    exists (Atomic [Leaf (USetChar i x y (get_char L x y) new); Leaf (USetChar i x y (get_char L x y) new)]).
    eexists. rewrite f_undo_atomic. cbn [undo_list bind]. rewrite f_undo_leaf, E1. cbn [bind].
    rewrite f_undo_leaf. cbn [op_undo]. rewrite Hn1. cbn [bind]. split; [reflexivity|]. split.
    + eapply eqv_trans; [apply (eqv_upd_layer _ _ i _ (fun L0 => l_restore_char L0 x y (get_char L x y)) Ea1); intros; apply restore_char_leqv; assumption|].
      apply eqv_upd_layer_id. intros L' HL'. assert (L' = L) by congruence. subst. apply restore_same.
    + eexists. split; [reflexivity|exact HP].
  - intros f a b (o & -> & HP) t Ht. pose proof HP as (i & x & y & new & L & -> & Hn & Hb).
    destruct (proj2 (setchar_stable _ _ _ HP) t Ht) as (t1 & E1 & Eb1).
    destruct (eqv_has_layer t1 _ i _ (eqv_trans _ _ _ Eb1 Hb) (nth_upd_layer _ _ _ _ Hn)) as (L1 & Hn1 & _).
    exists (Atomic [Leaf (USetChar i x y (get_char L x y) new); Leaf (USetChar i x y (get_char L x y) new)]).
    eexists. rewrite f_redo_atomic. cbn [redo_list bind]. rewrite f_redo_leaf, E1. cbn [bind].
    rewrite f_redo_leaf. cbn [op_redo]. rewrite Hn1. cbn [bind]. split; [reflexivity|]. split.
    + eapply eqv_trans; [apply eqv_upd_both; [exact (eqv_trans _ _ _ Eb1 Hb)|intros; apply set_char_leqv; assumption]|].
      eapply eqv_trans; [|apply eqv_sym; exact Hb]. apply eqv_upd_layer_at. intros L' _. apply set_char_idem.
    + eexists. split; [reflexivity|exact HP].
Qed.

Lemma api_set_char_sound x y c : sound_edit (api_set_char x y c).
Proof.
  intros e e' H. unfold api_set_char, guarded in H. eapply with_guard_joint; eauto using eqv_refl, eqv_sym, eqv_trans.
  clear H e'. set (e0 := mkEs (cur e) (ustk e) []). intros e2 H. cbv beta in H.
  change (cur e0) with (cur e) in H.
  destruct (get_cur_layer (cur e)) as [[i L]|] eqn:Ec; [|discriminate].
  destruct (get_cur_layer_some _ _ _ Ec) as [Hn _].
  destruct (mirror (cur e)).
  - (* mirror mode *)
    rewrite (push_setchar_exact e0 i (l_w L - x - 1) y _ c L Hn) in H. cbn [bind] in H.
    set (e1 := mkEs (upd_layer (cur e0) i (fun L0 => l_set_char L0 (l_w L - x - 1) y c)) (Leaf (USetChar i (l_w L - x - 1) y (get_char L (l_w L - x - 1) y) c) :: ustk e0) []) in H.
    assert (Hn1 : nth_error (layers (cur e1)) i = Some (l_set_char L (l_w L - x - 1) y c)).
    { unfold e1. cbn [cur]. apply (nth_upd_layer (cur e0) i (fun L0 => l_set_char L0 (l_w L - x - 1) y c) L). exact Hn. }
    destruct (Z.eq_dec (l_w L - x - 1) x) as [Heq|Hne].
    + (* centre column: the same record twice, sound as a group *)
      rewrite (push_setchar_exact e1 i x y _ c _ Hn1) in H. injection H as <-. rewrite Heq.
      exists [Leaf (USetChar i x y (get_char L x y) c); Leaf (USetChar i x y (get_char L x y) c)].
      split; [reflexivity|]. split; [|left; reflexivity]. cbn [rev app cur].
      exists PP, PP. split; [apply PP_closed|]. eexists. split; [reflexivity|].
      exists i, x, y, c, L. split; [reflexivity|]. split; [exact Hn|]. unfold e1. cbn [cur]. rewrite upd_layer_twice.
      apply eqv_upd_layer_at. intros L' _. apply set_char_idem.
    + (* two different cells: a chain of two sound records *)
      apply edit_chain_joint; eauto using eqv_refl, eqv_sym, eqv_trans.
      assert (C1 : edit_chain e0 e1).
      { destruct (push_sound _ _ e0 _ _ (stable_lclosed _ setchar_stable) (P_setchar_here (cur e0) i (l_w L - x - 1) y c L Hn)) as (e1' & E1 & C1 & _).
        rewrite (push_setchar_exact e0 i (l_w L - x - 1) y _ c L Hn) in E1. injection E1 as <-. exact C1. }
      rewrite <- (get_char_set_char_other L (l_w L - x - 1) x y c Hne) in H.
      destruct (push_sound _ _ e1 _ _ (stable_lclosed _ setchar_stable) (P_setchar_here (cur e1) i x y c _ Hn1)) as (e2' & E2 & C2 & _).
      rewrite E2 in H. injection H as <-. eapply chain_trans; eauto.
  - cbn [bind] in H. apply edit_chain_joint; eauto using eqv_refl, eqv_sym, eqv_trans.
    destruct (push_sound _ _ e0 _ _ (stable_lclosed _ setchar_stable) (P_setchar_here (cur e0) i x y c L Hn)) as (e2' & E2 & C2 & _).
    rewrite E2 in H. injection H as <-. exact C2.
Qed.

(* ------------------------------------------------------------------ the snapshot frame: ALL area operations at once *)
(* what the frame needs from the mutation: it may change the current layer only inside the area (and inside the layer),
   and must leave size, offset and properties alone. Everything that writes through Layer::set_char at positions of
   the area has this property (set_char_differs + differs_trans). *)
Definition stays_inside (mutate : layer -> rect -> res layer) : Prop :=
  forall L ax ay aw ah L', 0 <= aw -> 0 <= ah -> mutate L (ax, ay, aw, ah) = Ok L' -> differs L L' (ax, ay, aw, ah).

Lemma area_body_gen_sound areaf mutate :
  (forall s L ax ay aw ah L', areaf s L = (ax, ay, aw, ah) -> 0 <= aw -> 0 <= ah -> mutate L (ax, ay, aw, ah) = Ok L' ->
     differs L L' (ax, ay, aw, ah)) ->
  forall e e', area_body_gen areaf mutate e = Ok e' -> edit_chain e e'.
Proof.
  intros Hm e e' H. unfold area_body_gen in H.
  destruct (get_cur_layer (cur e)) as [[i L]|] eqn:Ec; [|discriminate].
  destruct (get_cur_layer_some _ _ _ Ec) as [Hn _].
  destruct (areaf (cur e) L) as [[[ax ay] aw] ah] eqn:Ea.
  destruct (from_layer L (ax, ay, aw, ah)) as [old| |] eqn:Eo; cbn [bind] in H; try discriminate.
  destruct (mutate L (ax, ay, aw, ah)) as [L'| |] eqn:Em; cbn [bind] in H; try discriminate.
  destruct (from_layer L' (ax, ay, aw, ah)) as [new| |] eqn:En; cbn [bind] in H; try discriminate.
  injection H as <-.
  destruct (from_layer_get _ _ _ _ _ _ Eo) as (_ & _ & Hw & Hh & _).
  pose proof (Hm _ _ _ _ _ _ _ Ea Hw Hh Em) as Hd.
  eapply plain_sound; [apply (stable_lclosed _ change_stable)|].
  exists i, ax, ay, old, new, L, L'. split; [reflexivity|]. split; [exact Hn|]. split; [apply eqv_refl|].
  split; [eapply frame_undo; eauto|eapply frame_redo; eauto].
Qed.

Lemma area_body_sound mutate : stays_inside mutate -> forall e e', area_body mutate e = Ok e' -> edit_chain e e'.
Proof. intros Hm. unfold area_body. apply area_body_gen_sound. intros s L ax ay aw ah L' _. apply Hm. Qed.

Theorem api_area_op_sound mutate : stays_inside mutate -> sound_edit (api_area_op mutate).
Proof.
  intros Hm e e' H. unfold api_area_op, guarded in H.
  eapply with_guard_chain; eauto using eqv_refl, eqv_sym, eqv_trans.
  intros e1 e2. apply area_body_sound. exact Hm.
Qed.

(* ---- the concrete mutations stay inside *)
Lemma fold_left_differs {B} (f : layer -> B -> layer) a L0 : forall l L, differs L0 L a ->
  (forall L1 b, In b l -> differs L0 L1 a -> differs L0 (f L1 b) a) -> differs L0 (fold_left f l L) a.
Proof.
  induction l as [|b l IH]; intros L HL Hf; [exact HL|]. cbn [fold_left]. apply IH.
  - apply Hf; [left; reflexivity|exact HL].
  - intros L1 b' Hin. apply Hf. right. exact Hin.
Qed.

Lemma fold_res_differs {B} (f : layer -> B -> res layer) a L0 : forall l L L', differs L0 L a ->
  (forall L1 b L2, In b l -> differs L0 L1 a -> f L1 b = Ok L2 -> differs L0 L2 a) -> fold_res f l L = Ok L' -> differs L0 L' a.
Proof.
  induction l as [|b l IH]; intros L L' HL Hf H; cbn [fold_res] in H; [injection H as <-; exact HL|].
  destruct (f L b) as [L1| |] eqn:E; cbn [bind] in H; try discriminate.
  eapply IH; [|intros L2 b' L3 Hin; apply Hf; right; exact Hin|exact H].
  eapply Hf; [left; reflexivity|exact HL|exact E].
Qed.

Lemma set_char_step L0 L1 x y c ax ay aw ah : differs L0 L1 (ax, ay, aw, ah) -> in_cells aw ah (x - ax) (y - ay) = true ->
  differs L0 (l_set_char L1 x y c) (ax, ay, aw, ah).
Proof. intros H Hc. eapply differs_trans; [exact H|]. apply set_char_differs. exact Hc. Qed.

Lemma in_zrange_from a n v : In v (zrange_from a n) <-> a <= v < a + n.
Proof.
  unfold zrange_from. rewrite in_map_iff. split.
  - intros (k & <- & Hk). apply in_zrange in Hk. lia.
  - intro H. exists (v - a). split; [lia|]. apply in_zrange. lia.
Qed.

Lemma in_cells_intro aw ah i j : 0 <= i < aw -> 0 <= j < ah -> in_cells aw ah i j = true.
Proof.
  intros Hi Hj. unfold in_cells. repeat (apply andb_true_intro; split); try apply Z.leb_le; try apply Z.ltb_lt; lia.
Qed.

Lemma justify_left_inside : stays_inside mut_justify_left.
Proof.
  intros L ax ay aw ah L' Hw Hh H. unfold mut_justify_left in H. injection H as <-.
  apply fold_left_differs; [apply differs_refl|]. intros L1 y Hy HL1. apply in_zrange_from in Hy.
  destruct (aw <=? _); [exact HL1|]. apply fold_left_differs; [exact HL1|].
  intros L2 x Hx HL2. apply in_zrange_from in Hx. apply set_char_step; [exact HL2|]. apply in_cells_intro; lia.
Qed.

Lemma justify_right_inside : stays_inside mut_justify_right.
Proof.
  intros L ax ay aw ah L' Hw Hh H. unfold mut_justify_right in H. injection H as <-.
  apply fold_left_differs; [apply differs_refl|]. intros L1 y Hy HL1. apply in_zrange_from in Hy.
  destruct (aw =? _); [exact HL1|]. apply fold_left_differs; [exact HL1|].
  intros L2 x Hx HL2. apply in_rev in Hx. apply in_zrange_from in Hx. apply set_char_step; [exact HL2|]. apply in_cells_intro; lia.
Qed.

Lemma center_inside : stays_inside mut_center.
Proof.
  intros L ax ay aw ah L' Hw Hh H. unfold mut_center in H. injection H as <-.
  apply fold_left_differs; [apply differs_refl|]. intros L1 y Hy HL1. apply in_zrange_from in Hy.
  destruct (aw =? _); [exact HL1|]. apply fold_left_differs; [exact HL1|].
  intros L2 x Hx HL2. apply in_zrange in Hx. apply set_char_step; [exact HL2|]. apply in_cells_intro; lia.
Qed.

Lemma flip_pair_step ftab L0 L1 L2 x1 y1 x2 y2 ax ay aw ah : differs L0 L1 (ax, ay, aw, ah) ->
  in_cells aw ah (x1 - ax) (y1 - ay) = true -> in_cells aw ah (x2 - ax) (y2 - ay) = true ->
  flip_pair ftab L1 x1 y1 x2 y2 = Ok L2 -> differs L0 L2 (ax, ay, aw, ah).
Proof.
  intros H H1 H2 E. unfold flip_pair in E.
  destruct (map_cell ftab (get_char L1 x1 y1)) as [c1| |]; cbn [bind] in E; try discriminate.
  destruct (map_cell ftab (get_char L1 x2 y2)) as [c2| |]; cbn [bind] in E; try discriminate.
  injection E as <-. apply set_char_step; [|exact H2]. apply set_char_step; [exact H|exact H1].
Qed.

Lemma half_le n : 0 <= n -> 0 <= Z.quot n 2 /\ 2 * Z.quot n 2 <= n.
Proof.
  intro H. rewrite Z.quot_div_nonneg by lia. split; [apply Z.div_pos; lia|]. apply Z.mul_div_le. lia.
Qed.

Lemma flip_x_inside ftab : stays_inside (mut_flip_x ftab).
Proof.
  intros L ax ay aw ah L' Hw Hh H. unfold mut_flip_x in H. destruct (half_le aw Hw) as [Hq1 Hq2].
  eapply fold_res_differs; [apply differs_refl| |exact H]. intros L1 y L2 Hy HL1 E. apply in_zrange_from in Hy.
  eapply fold_res_differs; [exact HL1| |exact E]. intros L3 x L4 Hx HL3 E2. apply in_zrange in Hx.
  eapply flip_pair_step; [exact HL3| | |exact E2]; apply in_cells_intro; lia.
Qed.

Lemma flip_y_inside ftab : stays_inside (mut_flip_y ftab).
Proof.
  intros L ax ay aw ah L' Hw Hh H. unfold mut_flip_y in H. destruct (half_le ah Hh) as [Hq1 Hq2].
  eapply fold_res_differs; [apply differs_refl| |exact H]. intros L1 x L2 Hx HL1 E. apply in_zrange_from in Hx.
  eapply fold_res_differs; [exact HL1| |exact E]. intros L3 y L4 Hy HL3 E2. apply in_zrange in Hy.
  eapply flip_pair_step; [exact HL3| | |exact E2]; apply in_cells_intro; lia.
Qed.

Lemma api_justify_left_sound : sound_edit api_justify_left.
Proof. apply api_area_op_sound. apply justify_left_inside. Qed.
Lemma api_justify_right_sound : sound_edit api_justify_right.
Proof. apply api_area_op_sound. apply justify_right_inside. Qed.
Lemma api_flip_x_sound ftab : sound_edit (api_flip_x ftab).
Proof. apply api_area_op_sound. apply flip_x_inside. Qed.
Lemma api_flip_y_sound ftab : sound_edit (api_flip_y ftab).
Proof. apply api_area_op_sound. apply flip_y_inside. Qed.

(* center = guard { justify_left (itself guarded) ; second frame }: nested groups *)
Lemma api_center_sound : sound_edit api_center.
Proof.
  intros e e' H. unfold api_center, guarded in H.
  eapply with_guard_chain; eauto using eqv_refl, eqv_sym, eqv_trans.
  intros e1 e2 Hb. cbv beta in Hb.
  destruct (api_justify_left e1) as [e1'| |] eqn:E1; cbn [bind] in Hb; try discriminate.
  eapply chain_trans; [apply api_justify_left_sound; exact E1|]. eapply area_body_sound; [apply center_inside|exact Hb].
Qed.

(* erase_selection: whole-layer clone snapshots + clear_selection in one group *)
Lemma api_erase_selection_sound : sound_edit api_erase_selection.
Proof.
  intros e e' H. unfold api_erase_selection in H. destruct (sel (cur e)) as [s0|] eqn:Es; [|injection H as <-; apply chain_refl].
  unfold guarded in H. eapply with_guard_chain; eauto using eqv_refl, eqv_sym, eqv_trans.
  intros e1 e2 Hb. cbv beta in Hb.
  destruct (get_current_layer (cur e1)) as [i| |] eqn:Ei; cbn [bind] in Hb; try discriminate.
  destruct (nth_error (layers (cur e1)) i) as [L|] eqn:Hn; [|discriminate].
  set (L' := fold_left (fun L0 '(x, y) => if is_selected (sel (cur e1)) (x + l_ox L0) (y + l_oy L0) then l_set_char L0 x y invisible else L0)
                       (cells (l_w L) (l_h L)) L) in Hb.
  assert (Hd : differs L L' (0, 0, l_w L, l_h L)).
  { unfold L'. apply fold_left_differs; [apply differs_refl|]. intros L1 [x y] Hin HL1. apply in_cells_iff in Hin.
    destruct (is_selected _ _ _); [|exact HL1]. apply set_char_step; [exact HL1|]. rewrite !Z.sub_0_r. exact Hin. }
  eapply chain_trans; [|apply api_clear_selection_sound; exact Hb].
  eapply plain_sound; [apply (stable_lclosed _ change_stable)|].
  exists i, 0, 0, (snap_of_layer L), (snap_of_layer L'), L, L'. split; [reflexivity|]. split; [exact Hn|]. split; [apply eqv_refl|].
  split; [apply clone_undo; exact Hd|apply clone_redo; exact Hd].
Qed.

(* make_layer_transparent: the frame over the whole layer *)
Lemma api_make_layer_transparent_sound : sound_edit api_make_layer_transparent.
Proof.
  intros e e' H. unfold api_make_layer_transparent, guarded in H.
  eapply with_guard_chain; eauto using eqv_refl, eqv_sym, eqv_trans.
  intros e1 e2 Hb. cbv beta in Hb.
  destruct (get_current_layer (cur e1)) as [i| |]; cbn [bind] in Hb; try discriminate.
  eapply area_body_gen_sound; [|exact Hb].
  intros s L ax ay aw ah L' Ha Hw Hh Hm. injection Ha as <- <- <- <-. unfold mut_transparent in Hm. injection Hm as <-.
  apply fold_left_differs; [apply differs_refl|]. intros L1 x Hx HL1. apply in_zrange in Hx.
  apply fold_left_differs; [exact HL1|]. intros L2 y Hy HL2. apply in_zrange in Hy.
  destruct (is_transparent _); [|exact HL2]. apply set_char_step; [exact HL2|]. apply in_cells_intro; lia.
Qed.

(* the row / column wrappers: set_selection, the operation, clear_selection under one guard *)
Lemma line_op_sound r op : sound_edit op -> sound_edit (line_op r op).
Proof.
  intros Hop. unfold UndoProofs.sound_edit. intros e e' H. unfold line_op, guarded in H.
  eapply with_guard_chain; try exact eqv_refl; try exact eqv_sym; try exact eqv_trans; [|exact H].
  intros e1 e2 Hb. cbv beta in Hb.
  destruct (r (cur e)) as [s| |]; cbn [bind] in Hb; try discriminate.
  destruct (api_set_selection s e1) as [e3| |] eqn:E3; cbn [bind] in Hb; try discriminate.
  destruct (op e3) as [e4| |] eqn:E4; cbn [bind] in Hb; try discriminate.
  eapply chain_trans; [exact (api_set_selection_sound s _ _ E3)|].
  eapply chain_trans; [exact (Hop _ _ E4)|]. exact (api_clear_selection_sound _ _ Hb).
Qed.

Lemma line_erase_sound r : sound_edit (line_erase r).
Proof.
  unfold UndoProofs.sound_edit. intros e e' H. unfold line_erase, guarded in H.
  eapply with_guard_chain; try exact eqv_refl; try exact eqv_sym; try exact eqv_trans; [|exact H].
  intros e1 e2 Hb. cbv beta in Hb.
  destruct (r (cur e)) as [s| |]; cbn [bind] in Hb; try discriminate.
  destruct (api_set_selection s e1) as [e3| |] eqn:E3; cbn [bind] in Hb; try discriminate.
  eapply chain_trans; [exact (api_set_selection_sound s _ _ E3)|]. exact (api_erase_selection_sound _ _ Hb).
Qed.

(* ------------------------------------------------------------------ histories over the modelled operations *)
Inductive modelled : (E -> res E) -> Prop :=
| m_set_char x y c : modelled (api_set_char x y c)
| m_swap_char x1 y1 x2 y2 : modelled (api_swap_char x1 y1 x2 y2)
| m_resize_buffer w h : modelled (api_resize_buffer w h)
| m_add_new_layer n : modelled (api_add_new_layer n)
| m_remove_layer n : modelled (api_remove_layer n)
| m_raise_layer n : modelled (api_raise_layer n)
| m_lower_layer n : modelled (api_lower_layer n)
| m_duplicate_layer n : modelled (api_duplicate_layer n)
| m_clear_layer n : modelled (api_clear_layer n)
| m_toggle_layer_visibility n : modelled (api_toggle_layer_visibility n)
| m_move_layer x y : modelled (api_move_layer x y)
| m_set_layer_size n w h : modelled (api_set_layer_size n w h)
| m_set_selection s : modelled (api_set_selection s)
| m_clear_selection : modelled api_clear_selection
| m_deselect : modelled api_deselect
| m_area_op mutate : stays_inside mutate -> modelled (api_area_op mutate)
| m_justify_left : modelled api_justify_left
| m_justify_right : modelled api_justify_right
| m_center : modelled api_center
| m_flip_x ftab : modelled (api_flip_x ftab)
| m_flip_y ftab : modelled (api_flip_y ftab)
| m_erase_selection : modelled api_erase_selection
| m_make_layer_transparent : modelled api_make_layer_transparent
| m_center_line : modelled api_center_line
| m_justify_line_left : modelled api_justify_line_left
| m_justify_line_right : modelled api_justify_line_right
| m_erase_row : modelled api_erase_row
| m_erase_row_to_start : modelled api_erase_row_to_start
| m_erase_row_to_end : modelled api_erase_row_to_end
| m_erase_column : modelled api_erase_column
| m_erase_column_to_start : modelled api_erase_column_to_start
| m_erase_column_to_end : modelled api_erase_column_to_end
| m_ctl_cur n : modelled (ctl_cur n)
| m_ctl_mirror b : modelled (ctl_mirror b)
| m_ctl_caret x y : modelled (ctl_caret x y).

Lemma modelled_sound f : modelled f -> sound_edit f.
Proof.
  destruct 1;
  try solve [auto using api_set_char_sound, api_swap_char_sound, api_resize_buffer_sound, api_add_new_layer_sound,
    api_remove_layer_sound, api_raise_layer_sound, api_lower_layer_sound, api_duplicate_layer_sound, api_clear_layer_sound,
    api_toggle_layer_visibility_sound, api_move_layer_sound, api_set_layer_size_sound, api_set_selection_sound,
    api_clear_selection_sound, api_deselect_sound, api_area_op_sound, api_justify_left_sound, api_justify_right_sound,
    api_center_sound, api_flip_x_sound, api_flip_y_sound, api_erase_selection_sound, ctl_cur_sound, ctl_mirror_sound, ctl_caret_sound,
    api_make_layer_transparent_sound].
  - apply (line_op_sound row_sel api_center). apply api_center_sound.
  - apply (line_op_sound row_sel api_justify_left). apply api_justify_left_sound.
  - apply (line_op_sound row_sel api_justify_right). apply api_justify_right_sound.
  - apply (line_erase_sound row_sel).
  - unfold api_erase_row_to_start. apply line_erase_sound.
  - unfold api_erase_row_to_end. apply line_erase_sound.
  - unfold api_erase_column. apply line_erase_sound.
  - unfold api_erase_column_to_start. apply line_erase_sound.
  - unfold api_erase_column_to_end. apply line_erase_sound.
Qed.

Theorem undo_redo_history_proof : forall (fs : list (E -> res E)) e0 en d,
  fresh e0 -> Forall modelled fs -> run_edits fs e0 = Ok en ->
  let n := length (ustk en) in
  exists tl, length tl = S n /\ rstk en = [] /\
    eqv (nth 0 tl d) (cur e0) /\ nth n tl d = cur en /\
    forall w, exists e', run_ur op_undo op_redo w en = Ok e' /\ eqv (cur e') (nth (walk w n n) tl d).
Proof.
  intros fs e0 en d Hf Hm Hrun.
  apply (history_sound op_undo op_redo eqv eqv_refl eqv_sym eqv_trans fs e0 en d Hf); [|exact Hrun].
  eapply Forall_impl; [|exact Hm]. apply modelled_sound.
Qed.

Theorem undo_all_redo_all_proof : forall (fs : list (E -> res E)) e0 en,
  fresh e0 -> Forall modelled fs -> run_edits fs e0 = Ok en ->
  let n := length (ustk en) in
  exists e1 e2, iter_res (undo op_undo) n en = Ok e1 /\ eqv (cur e1) (cur e0) /\ ustk e1 = [] /\
                iter_res (redo op_redo) n e1 = Ok e2 /\ eqv (cur e2) (cur en).
Proof.
  intros fs e0 en Hf Hm Hrun.
  apply (undo_all_redo_all op_undo op_redo eqv eqv_refl eqv_sym eqv_trans fs e0 en Hf); [|exact Hrun].
  eapply Forall_impl; [|exact Hm]. apply modelled_sound.
Qed.

(* ------------------------------------------------------------------ what eqv means for the observation the property prescribes *)
Definition obs_layer_eq (L1 L2 : layer) : Prop := meta L1 = meta L2 /\ forall x y, get_char L1 x y = get_char L2 x y.
Definition obs_eq (a b : estate) : Prop := bw a = bw b /\ bh a = bh b /\ Forall2 obs_layer_eq (layers a) (layers b).

Lemma eqv_obs_eq a b : eqv a b -> obs_eq a b.
Proof.
  intros (H1 & H2 & H3). repeat split; auto. induction H3 as [|L1 L2 l1 l2 HL H IH]; constructor; auto.
  split; [apply HL|]. intros x y. apply get_char_leqv. exact HL.
Qed.
