(* Proofs about Model/Unicode.v: the UTF-8 validator and the lossy converter against the specification of
   UTF-8 (utf8_encode of a list of scalar values). *)
From Coq Require Import NArith ZArith List Bool Lia.
From IE Require Import Model.Unicode.
Import ListNotations.
Local Open Scope N_scope.

Ltac Zify.zify_post_hook ::= Z.to_euclidean_division_equations.

(* ---- specification-level predicates *)
Definition scalar (c : N) : Prop := c < 0xD800 \/ (0xE000 <= c /\ c < 0x110000).
Definition byte (b : N) : Prop := b < 256.
(* a byte string is UTF-8 when it is the encoding of a sequence of scalar values *)
Definition is_utf8 (bs : list N) : Prop := exists cs, Forall scalar cs /\ bs = utf8_encode cs.
(* a conversion number -> char is checked when whatever it yields is a scalar value *)
Definition checked (conv : N -> option N) : Prop := forall x c, conv x = Some c -> scalar c.

Lemma scalarb_spec : forall c, scalarb c = true <-> scalar c.
Proof.
  intro c. unfold scalarb, scalar.
  rewrite orb_true_iff, andb_true_iff, !N.ltb_lt, N.leb_le. tauto.
Qed.

Lemma scalarb_false : forall c, scalarb c = false <-> ~ scalar c.
Proof.
  intro c. rewrite <- scalarb_spec. destruct (scalarb c); intuition congruence.
Qed.

Lemma char_from_u32_some : forall x c, char_from_u32 x = Some c -> c = x /\ scalar c.
Proof.
  unfold char_from_u32. intros x c H. destruct (scalarb x) eqn:E; [|discriminate].
  injection H as <-. split; [reflexivity|]. apply scalarb_spec. exact E.
Qed.

Lemma char_from_u32_scalar : forall x, scalar x -> char_from_u32 x = Some x.
Proof. intros x H. unfold char_from_u32. apply scalarb_spec in H. rewrite H. reflexivity. Qed.

Lemma char_from_u32_none : forall x, ~ scalar x -> char_from_u32 x = None.
Proof. intros x H. unfold char_from_u32. apply scalarb_false in H. rewrite H. reflexivity. Qed.

Lemma char_from_u32_checked : checked char_from_u32.
Proof. intros x c H. apply char_from_u32_some in H. tauto. Qed.

Lemma unchecked_not_checked : ~ checked char_from_u32_unchecked.
Proof.
  intro H. specialize (H 0xD800 0xD800 eq_refl). unfold scalar in H. lia.
Qed.

(* ---- boolean plumbing *)
Lemma in_range_spec : forall lo hi b, in_range lo hi b = true <-> lo <= b /\ b <= hi.
Proof. intros. unfold in_range. rewrite andb_true_iff, !N.leb_le. tauto. Qed.

Lemma in_range_false : forall lo hi b, in_range lo hi b = false <-> (b < lo \/ hi < b).
Proof.
  intros. unfold in_range. rewrite andb_false_iff, !N.leb_gt. tauto.
Qed.

Lemma is_cont_spec : forall b, is_cont b = true <-> 0x80 <= b /\ b <= 0xBF.
Proof. intro. apply in_range_spec. Qed.

Lemma second3_spec : forall b0 b1, 0xE0 <= b0 <= 0xEF -> second3_ok b0 b1 = true ->
  0x80 <= b1 <= 0xBF /\ (b0 = 0xE0 -> 0xA0 <= b1) /\ (b0 = 0xED -> b1 <= 0x9F).
Proof.
  intros b0 b1 R H. unfold second3_ok in H.
  destruct (b0 =? 0xE0) eqn:E0; [apply N.eqb_eq in E0|apply N.eqb_neq in E0].
  - apply in_range_spec in H. lia.
  - destruct (b0 =? 0xED) eqn:E1; [apply N.eqb_eq in E1|apply N.eqb_neq in E1].
    + apply in_range_spec in H. lia.
    + apply is_cont_spec in H. lia.
Qed.

Lemma second4_spec : forall b0 b1, 0xF0 <= b0 <= 0xF4 -> second4_ok b0 b1 = true ->
  0x80 <= b1 <= 0xBF /\ (b0 = 0xF0 -> 0x90 <= b1) /\ (b0 = 0xF4 -> b1 <= 0x8F).
Proof.
  intros b0 b1 R H. unfold second4_ok in H.
  destruct (b0 =? 0xF0) eqn:E0; [apply N.eqb_eq in E0|apply N.eqb_neq in E0].
  - apply in_range_spec in H. lia.
  - destruct (b0 =? 0xF4) eqn:E1; [apply N.eqb_eq in E1|apply N.eqb_neq in E1].
    + apply in_range_spec in H. lia.
    + apply is_cont_spec in H. lia.
Qed.

(* ---- the four shapes: decoding an accepted sequence gives a scalar whose encoding is that sequence *)
Lemma enc1 : forall b0, b0 < 0x80 -> utf8_encode_char b0 = [b0] /\ scalar b0.
Proof.
  intros b0 H. unfold utf8_encode_char, scalar.
  apply N.ltb_lt in H as H'. rewrite H'. split; [reflexivity|lia].
Qed.

Lemma enc2 : forall b0 b1, 0xC2 <= b0 <= 0xDF -> 0x80 <= b1 <= 0xBF ->
  let c := (b0 - 0xC0) * 64 + (b1 - 0x80) in utf8_encode_char c = [b0; b1] /\ scalar c.
Proof.
  intros b0 b1 R0 R1 c. subst c. unfold utf8_encode_char, scalar.
  set (c := (b0 - 0xC0) * 64 + (b1 - 0x80)).
  assert (Hc : 0x80 <= c < 0x800) by (subst c; lia).
  destruct (c <? 0x80) eqn:E1; [apply N.ltb_lt in E1; lia|].
  destruct (c <? 0x800) eqn:E2; [|apply N.ltb_ge in E2; lia].
  split; [|lia].
  assert (c / 64 = b0 - 0xC0) by (subst c; lia).
  assert (c mod 64 = b1 - 0x80) by (subst c; lia).
  f_equal; [lia|]. f_equal. lia.
Qed.

Lemma enc3 : forall b0 b1 b2, 0xE0 <= b0 <= 0xEF -> 0x80 <= b1 <= 0xBF -> 0x80 <= b2 <= 0xBF ->
  (b0 = 0xE0 -> 0xA0 <= b1) -> (b0 = 0xED -> b1 <= 0x9F) ->
  let c := (b0 - 0xE0) * 4096 + (b1 - 0x80) * 64 + (b2 - 0x80) in
  utf8_encode_char c = [b0; b1; b2] /\ scalar c.
Proof.
  intros b0 b1 b2 R0 R1 R2 L H c. subst c. unfold utf8_encode_char, scalar.
  set (c := (b0 - 0xE0) * 4096 + (b1 - 0x80) * 64 + (b2 - 0x80)).
  assert (Hc : 0x800 <= c < 0x10000) by (subst c; lia).
  destruct (c <? 0x80) eqn:E1; [apply N.ltb_lt in E1; lia|].
  destruct (c <? 0x800) eqn:E2; [apply N.ltb_lt in E2; lia|].
  destruct (c <? 0x10000) eqn:E3; [|apply N.ltb_ge in E3; lia].
  assert (A0 : c / 4096 = b0 - 0xE0) by (subst c; lia).
  assert (A1 : (c / 64) mod 64 = b1 - 0x80) by (subst c; lia).
  assert (A2 : c mod 64 = b2 - 0x80) by (subst c; lia).
  split.
  - rewrite A0, A1, A2. f_equal; [lia|]. f_equal; [lia|]. f_equal. lia.
  - subst c. lia.
Qed.

Lemma enc4 : forall b0 b1 b2 b3, 0xF0 <= b0 <= 0xF4 -> 0x80 <= b1 <= 0xBF -> 0x80 <= b2 <= 0xBF -> 0x80 <= b3 <= 0xBF ->
  (b0 = 0xF0 -> 0x90 <= b1) -> (b0 = 0xF4 -> b1 <= 0x8F) ->
  let c := (b0 - 0xF0) * 262144 + (b1 - 0x80) * 4096 + (b2 - 0x80) * 64 + (b3 - 0x80) in
  utf8_encode_char c = [b0; b1; b2; b3] /\ scalar c.
Proof.
  intros b0 b1 b2 b3 R0 R1 R2 R3 L H c. subst c. unfold utf8_encode_char, scalar.
  set (c := (b0 - 0xF0) * 262144 + (b1 - 0x80) * 4096 + (b2 - 0x80) * 64 + (b3 - 0x80)).
  assert (Hc : 0x10000 <= c < 0x110000) by (subst c; lia).
  destruct (c <? 0x80) eqn:E1; [apply N.ltb_lt in E1; lia|].
  destruct (c <? 0x800) eqn:E2; [apply N.ltb_lt in E2; lia|].
  destruct (c <? 0x10000) eqn:E3; [apply N.ltb_lt in E3; lia|].
  assert (A0 : c / 262144 = b0 - 0xF0) by (subst c; lia).
  assert (A1 : (c / 4096) mod 64 = b1 - 0x80) by (subst c; lia).
  assert (A2 : (c / 64) mod 64 = b2 - 0x80) by (subst c; lia).
  assert (A3 : c mod 64 = b3 - 0x80) by (subst c; lia).
  split.
  - rewrite A0, A1, A2, A3. f_equal; [lia|]. f_equal; [lia|]. f_equal; [lia|]. f_equal. lia.
  - lia.
Qed.

(* ---- one step of the decoder *)
Lemma byte_at_nonzero : forall bs i, byte_at bs i <> 0 -> (i < length bs)%nat.
Proof.
  intros bs i H. unfold byte_at in H.
  destruct (Nat.lt_ge_cases i (length bs)) as [L|G]; [exact L|].
  rewrite nth_overflow in H by exact G. congruence.
Qed.

Lemma firstn_byte_at : forall bs n, (n <= length bs)%nat -> firstn n bs = map (byte_at bs) (seq 0 n).
Proof.
  induction bs as [|a r IH]; intros n H.
  - cbn in H. replace n with O by lia. reflexivity.
  - destruct n; [reflexivity|]. cbn [firstn seq map]. f_equal.
    rewrite IH by (cbn in H; lia). rewrite <- seq_shift, map_map. reflexivity.
Qed.

(* an accepted sequence is the encoding of a scalar value and lies inside the string *)
Lemma step_ok : forall bs c n, bs <> [] -> utf8_step bs = UOk c n ->
  scalar c /\ firstn n bs = utf8_encode_char c /\ (1 <= n <= length bs)%nat.
Proof.
  intros bs c n NE H. unfold utf8_step in H.
  assert (L0 : (0 < length bs)%nat) by (destruct bs; [congruence|cbn; lia]).
  set (b0 := byte_at bs 0) in *. set (b1 := byte_at bs 1) in *.
  set (b2 := byte_at bs 2) in *. set (b3 := byte_at bs 3) in *.
  destruct (b0 <? 0x80) eqn:E0.
  { injection H as <- <-. apply N.ltb_lt in E0.
    destruct (enc1 b0 E0) as [EN SC]. split; [exact SC|]. split; [|lia].
    rewrite firstn_byte_at by lia. rewrite EN. reflexivity. }
  destruct (in_range 0xC2 0xDF b0) eqn:E2.
  { destruct (is_cont b1) eqn:C1; [|discriminate]. injection H as <- <-.
    apply in_range_spec in E2. apply is_cont_spec in C1.
    assert (L1 : (1 < length bs)%nat) by (apply byte_at_nonzero; fold b1; lia).
    destruct (enc2 b0 b1 E2 C1) as [EN SC]. split; [exact SC|]. split; [|lia].
    rewrite firstn_byte_at by lia. rewrite EN. reflexivity. }
  destruct (in_range 0xE0 0xEF b0) eqn:E3.
  { destruct (second3_ok b0 b1) eqn:S1; [|discriminate].
    destruct (is_cont b2) eqn:C2; [|discriminate]. injection H as <- <-.
    apply in_range_spec in E3. apply is_cont_spec in C2.
    destruct (second3_spec b0 b1 E3 S1) as [R1 [LO HI]].
    assert (L2 : (2 < length bs)%nat) by (apply byte_at_nonzero; fold b2; lia).
    destruct (enc3 b0 b1 b2 E3 R1 C2 LO HI) as [EN SC]. split; [exact SC|]. split; [|lia].
    rewrite firstn_byte_at by lia. rewrite EN. reflexivity. }
  destruct (in_range 0xF0 0xF4 b0) eqn:E4; [|discriminate].
  destruct (second4_ok b0 b1) eqn:S1; [|discriminate].
  destruct (is_cont b2) eqn:C2; [|discriminate].
  destruct (is_cont b3) eqn:C3; [|discriminate]. injection H as <- <-.
  apply in_range_spec in E4. apply is_cont_spec in C2. apply is_cont_spec in C3.
  destruct (second4_spec b0 b1 E4 S1) as [R1 [LO HI]].
  assert (L3 : (3 < length bs)%nat) by (apply byte_at_nonzero; fold b3; lia).
  destruct (enc4 b0 b1 b2 b3 E4 R1 C2 C3 LO HI) as [EN SC]. split; [exact SC|]. split; [|lia].
  rewrite firstn_byte_at by lia. rewrite EN. reflexivity.
Qed.

(* a rejected prefix is non-empty, so the converter always makes progress *)
Lemma step_bad_len : forall bs n, utf8_step bs = UBad n -> (1 <= n)%nat.
Proof.
  intros bs n H. unfold utf8_step in H.
  repeat match type of H with
  | (if ?b then _ else _) = _ => destruct b
  | (let _ := _ in _) = _ => cbv zeta in H
  end; try discriminate; injection H as <-; lia.
Qed.

(* ---- completeness of the step: the encoding of a scalar value is accepted and decoded to that value *)
Lemma second3_intro : forall b0 b1, 0x80 <= b1 <= 0xBF -> (b0 = 0xE0 -> 0xA0 <= b1) -> (b0 = 0xED -> b1 <= 0x9F) ->
  second3_ok b0 b1 = true.
Proof.
  intros b0 b1 R LO HI. unfold second3_ok.
  destruct (b0 =? 0xE0) eqn:E0; [apply N.eqb_eq in E0; apply in_range_spec; lia|].
  destruct (b0 =? 0xED) eqn:E1; [apply N.eqb_eq in E1; apply in_range_spec; lia|].
  apply is_cont_spec. lia.
Qed.

Lemma second4_intro : forall b0 b1, 0x80 <= b1 <= 0xBF -> (b0 = 0xF0 -> 0x90 <= b1) -> (b0 = 0xF4 -> b1 <= 0x8F) ->
  second4_ok b0 b1 = true.
Proof.
  intros b0 b1 R LO HI. unfold second4_ok.
  destruct (b0 =? 0xF0) eqn:E0; [apply N.eqb_eq in E0; apply in_range_spec; lia|].
  destruct (b0 =? 0xF4) eqn:E1; [apply N.eqb_eq in E1; apply in_range_spec; lia|].
  apply is_cont_spec. lia.
Qed.

Lemma step_encode : forall c rest, scalar c ->
  utf8_step (utf8_encode_char c ++ rest) = UOk c (length (utf8_encode_char c)).
Proof.
  intros c rest SC. unfold scalar in SC. unfold utf8_encode_char.
  destruct (c <? 0x80) eqn:E1.
  { unfold utf8_step. cbn [app byte_at nth]. rewrite E1. reflexivity. }
  apply N.ltb_ge in E1.
  destruct (c <? 0x800) eqn:E2.
  { apply N.ltb_lt in E2. unfold utf8_step. cbn [app byte_at nth length].
    set (b0 := 0xC0 + c / 64). set (b1 := 0x80 + c mod 64).
    assert (R0 : 0xC2 <= b0 <= 0xDF) by (subst b0; lia).
    assert (R1 : 0x80 <= b1 <= 0xBF) by (subst b1; lia).
    replace (b0 <? 0x80) with false by (symmetry; apply N.ltb_ge; lia).
    replace (in_range 0xC2 0xDF b0) with true by (symmetry; apply in_range_spec; lia).
    replace (is_cont b1) with true by (symmetry; apply is_cont_spec; lia).
    f_equal. subst b0 b1. lia. }
  apply N.ltb_ge in E2.
  destruct (c <? 0x10000) eqn:E3.
  { apply N.ltb_lt in E3. unfold utf8_step. cbn [app byte_at nth length].
    set (b0 := 0xE0 + c / 4096). set (b1 := 0x80 + (c / 64) mod 64). set (b2 := 0x80 + c mod 64).
    assert (R0 : 0xE0 <= b0 <= 0xEF) by (subst b0; lia).
    assert (R1 : 0x80 <= b1 <= 0xBF) by (subst b1; lia).
    assert (R2 : 0x80 <= b2 <= 0xBF) by (subst b2; lia).
    assert (LO : b0 = 0xE0 -> 0xA0 <= b1) by (subst b0 b1; lia).
    assert (HI : b0 = 0xED -> b1 <= 0x9F) by (subst b0 b1; lia).
    replace (b0 <? 0x80) with false by (symmetry; apply N.ltb_ge; lia).
    replace (in_range 0xC2 0xDF b0) with false by (symmetry; apply in_range_false; lia).
    replace (in_range 0xE0 0xEF b0) with true by (symmetry; apply in_range_spec; lia).
    rewrite (second3_intro b0 b1 R1 LO HI).
    replace (is_cont b2) with true by (symmetry; apply is_cont_spec; lia).
    f_equal. subst b0 b1 b2. lia. }
  apply N.ltb_ge in E3.
  unfold utf8_step. cbn [app byte_at nth length].
  set (b0 := 0xF0 + c / 262144). set (b1 := 0x80 + (c / 4096) mod 64).
  set (b2 := 0x80 + (c / 64) mod 64). set (b3 := 0x80 + c mod 64).
  assert (R0 : 0xF0 <= b0 <= 0xF4) by (subst b0; lia).
  assert (R1 : 0x80 <= b1 <= 0xBF) by (subst b1; lia).
  assert (R2 : 0x80 <= b2 <= 0xBF) by (subst b2; lia).
  assert (R3 : 0x80 <= b3 <= 0xBF) by (subst b3; lia).
  assert (LO : b0 = 0xF0 -> 0x90 <= b1) by (subst b0 b1; lia).
  assert (HI : b0 = 0xF4 -> b1 <= 0x8F) by (subst b0 b1; lia).
  replace (b0 <? 0x80) with false by (symmetry; apply N.ltb_ge; lia).
  replace (in_range 0xC2 0xDF b0) with false by (symmetry; apply in_range_false; lia).
  replace (in_range 0xE0 0xEF b0) with false by (symmetry; apply in_range_false; lia).
  replace (in_range 0xF0 0xF4 b0) with true by (symmetry; apply in_range_spec; lia).
  rewrite (second4_intro b0 b1 R1 LO HI).
  replace (is_cont b2) with true by (symmetry; apply is_cont_spec; lia).
  replace (is_cont b3) with true by (symmetry; apply is_cont_spec; lia).
  f_equal. subst b0 b1 b2 b3. lia.
Qed.

Lemma encode_char_length : forall c, (1 <= length (utf8_encode_char c) <= 4)%nat.
Proof.
  intro c. unfold utf8_encode_char.
  destruct (c <? 0x80); [cbn; lia|]. destruct (c <? 0x800); [cbn; lia|]. destruct (c <? 0x10000); cbn; lia.
Qed.

Lemma encode_char_bytes : forall c, scalar c -> Forall byte (utf8_encode_char c).
Proof.
  intros c SC. unfold scalar in SC. unfold utf8_encode_char, byte.
  destruct (c <? 0x80) eqn:E1; [apply N.ltb_lt in E1; repeat constructor; lia|apply N.ltb_ge in E1].
  destruct (c <? 0x800) eqn:E2; [apply N.ltb_lt in E2; repeat constructor; lia|apply N.ltb_ge in E2].
  destruct (c <? 0x10000) eqn:E3; [apply N.ltb_lt in E3|apply N.ltb_ge in E3]; repeat constructor; lia.
Qed.

(* ---- is_utf8 algebra *)
Lemma is_utf8_nil : is_utf8 [].
Proof. exists []. split; [constructor|reflexivity]. Qed.

Lemma is_utf8_cons : forall c bs, scalar c -> is_utf8 bs -> is_utf8 (utf8_encode_char c ++ bs).
Proof.
  intros c bs SC [cs [F E]]. exists (c :: cs). split; [constructor; assumption|].
  subst bs. reflexivity.
Qed.

Lemma is_utf8_app : forall a b, is_utf8 a -> is_utf8 b -> is_utf8 (a ++ b).
Proof.
  intros a b [ca [Fa Ea]] [cb [Fb Eb]]. exists (ca ++ cb). split.
  - apply Forall_app. split; assumption.
  - subst. unfold utf8_encode. rewrite flat_map_app. reflexivity.
Qed.

Lemma is_utf8_encode : forall cs, Forall scalar cs -> is_utf8 (utf8_encode cs).
Proof. intros cs F. exists cs. split; [exact F|reflexivity]. Qed.

Lemma is_utf8_bytes : forall bs, is_utf8 bs -> Forall byte bs.
Proof.
  intros bs [cs [F ->]]. induction F as [|c cs SC F IH]; [constructor|].
  cbn [utf8_encode flat_map]. apply Forall_app. split; [apply encode_char_bytes; exact SC|exact IH].
Qed.

Lemma scalar_replacement : scalar REPLACEMENT.
Proof. unfold scalar, REPLACEMENT. lia. Qed.

(* ---- the validator decides the specification *)
Lemma valid_fuel_sound : forall fuel bs, utf8_valid_fuel fuel bs = true -> is_utf8 bs.
Proof.
  induction fuel as [|f IH]; intros bs H.
  - destruct bs; [apply is_utf8_nil|discriminate].
  - destruct bs as [|a r]; [apply is_utf8_nil|].
    cbn [utf8_valid_fuel] in H.
    destruct (utf8_step (a :: r)) as [c n|n] eqn:S; [|discriminate].
    apply step_ok in S; [|discriminate]. destruct S as [SC [EN L]].
    rewrite <- (firstn_skipn n (a :: r)). rewrite EN.
    apply is_utf8_cons; [exact SC|]. apply IH. exact H.
Qed.

Lemma valid_fuel_complete : forall cs, Forall scalar cs ->
  forall fuel, (length (utf8_encode cs) <= fuel)%nat -> utf8_valid_fuel fuel (utf8_encode cs) = true.
Proof.
  induction 1 as [|c cs SC F IH]; intros fuel L.
  - destruct fuel; reflexivity.
  - cbn [utf8_encode flat_map] in *. fold (utf8_encode cs) in *.
    pose proof (encode_char_length c) as LC.
    rewrite app_length in L.
    destruct fuel as [|f]; [lia|].
    destruct (utf8_encode_char c ++ utf8_encode cs) as [|a r] eqn:E.
    { apply (f_equal (@length N)) in E. rewrite app_length in E. cbn in E. lia. }
    cbn [utf8_valid_fuel]. rewrite <- E. rewrite step_encode by exact SC.
    rewrite skipn_app, skipn_all, Nat.sub_diag. cbn [skipn app].
    apply IH. lia.
Qed.

Lemma utf8_valid_spec_proof : forall bs, utf8_valid bs = true <-> is_utf8 bs.
Proof.
  intro bs. split.
  - apply valid_fuel_sound.
  - intros [cs [F ->]]. apply valid_fuel_complete; [exact F|lia].
Qed.

(* ---- the lossy converter *)
Lemma lossy_fuel_is_utf8 : forall fuel bs, is_utf8 (utf8_lossy_fuel fuel bs).
Proof.
  induction fuel as [|f IH]; intro bs.
  - destruct bs; apply is_utf8_nil.
  - destruct bs as [|a r]; [apply is_utf8_nil|].
    cbn [utf8_lossy_fuel].
    destruct (utf8_step (a :: r)) as [c n|n] eqn:S.
    + apply step_ok in S; [|discriminate]. destruct S as [SC [EN L]].
      rewrite EN. apply is_utf8_cons; [exact SC|apply IH].
    + apply is_utf8_cons; [apply scalar_replacement|apply IH].
Qed.

Lemma utf8_lossy_is_utf8_proof : forall bs, is_utf8 (utf8_lossy bs).
Proof. intro. apply lossy_fuel_is_utf8. Qed.

Lemma lossy_fuel_id : forall fuel bs, utf8_valid_fuel fuel bs = true -> utf8_lossy_fuel fuel bs = bs.
Proof.
  induction fuel as [|f IH]; intros bs H.
  - destruct bs; [reflexivity|discriminate].
  - destruct bs as [|a r]; [reflexivity|].
    cbn [utf8_valid_fuel] in H. cbn [utf8_lossy_fuel].
    destruct (utf8_step (a :: r)) as [c n|n] eqn:S; [|discriminate].
    rewrite (IH _ H). apply firstn_skipn.
Qed.

Lemma utf8_lossy_id_proof : forall bs, is_utf8 bs -> utf8_lossy bs = bs.
Proof. intros bs H. apply lossy_fuel_id. apply utf8_valid_spec_proof. exact H. Qed.

(* the fuel (= length) of utf8_lossy / utf8_valid is never exhausted: more fuel changes nothing *)
Lemma lossy_fuel_irrelevant : forall f1 f2 bs, (length bs <= f1)%nat -> (length bs <= f2)%nat ->
  utf8_lossy_fuel f1 bs = utf8_lossy_fuel f2 bs.
Proof.
  induction f1 as [|f IH]; intros f2 bs L1 L2.
  - destruct bs; [destruct f2; reflexivity|cbn in L1; lia].
  - destruct bs as [|a r]; [destruct f2; reflexivity|].
    destruct f2 as [|g]; [cbn in L2; lia|].
    cbn [utf8_lossy_fuel]. cbn [length] in L1, L2.
    assert (P : forall n, (1 <= n)%nat -> (length (skipn n (a :: r)) <= length r)%nat).
    { intros n Hn. rewrite skipn_length. cbn [length]. lia. }
    destruct (utf8_step (a :: r)) as [c n|n] eqn:S.
    + apply step_ok in S; [|discriminate]. destruct S as [_ [_ Ln]].
      f_equal. apply IH; specialize (P n); lia.
    + apply step_bad_len in S. f_equal. apply IH; specialize (P n); lia.
Qed.

Lemma lossy_fuel_suffices_proof : forall fuel bs, (length bs <= fuel)%nat ->
  utf8_lossy_fuel fuel bs = utf8_lossy bs.
Proof. intros fuel bs L. unfold utf8_lossy. apply lossy_fuel_irrelevant; [exact L|lia]. Qed.

(* String::from_utf8_unchecked on arbitrary bytes does not give UTF-8 *)
Lemma str_unchecked_refuted_proof : exists bs, Forall byte bs /\ ~ is_utf8 (str_unchecked bs).
Proof.
  exists [0x80]. split; [repeat constructor; unfold byte; lia|].
  intro H. apply utf8_valid_spec_proof in H. vm_compute in H. discriminate.
Qed.

Lemma str_lossy_is_utf8_proof : forall bs, is_utf8 (str_lossy bs).
Proof. exact utf8_lossy_is_utf8_proof. Qed.
