(* C01 extension: the four wrappers of the ANSI parser (Avatar, PCBoard, Ctrl-A, Renegade) and the ANSI parser itself at
   STREAM level on the weak invariant W: every stream of any length runs through to a state; it never panics - whatever was
   resized, whatever macros are stored (a macro invocation nested deeper than MAX_MACRO_NESTING is an error value). *)
From Coq Require Import ZArith NArith List Bool Lia.
From IE Require Import Model.TermCore Model.AnsiTok Model.Emu Proofs.TermProofs Proofs.AnsiProofs Proofs.EmuProofs
                       Proofs.WeakInv Proofs.AnsiSafeW.
Import ListNotations.
Local Open Scope Z_scope.

Definition NPM (o : mout) : Prop :=
  match o with MOk m | MErr m => W (mt m) | MPanic _ => False end.
Lemma fallback_np : forall m ch, W (mt m) -> NPM (fallback m ch).
Proof.
  intros m ch HW. unfold fallback. pose proof (ansi_step_np (am m) ch HW) as G.
  destruct (ansi_step (am m) ch); exact G.
Qed.
Lemma npm_ok : forall m t, W t -> NPM (mok m t). Proof. intros; assumption. Qed.
Lemma npm_lift : forall m r, okW r -> NPM (mlift m r).
Proof. intros m r (t' & E & HW). rewrite E. exact HW. Qed.

Ltac mwifs := repeat match goal with |- NPM (if ?c then _ else _) => destruct c end.
Ltac mwok HW := apply npm_ok; wkeep HW.
Ltac mwlift HW := apply npm_lift; wlim HW.

Lemma attr_from_u8_W : forall t ice b, W t -> W (attr_from_u8 t ice b).
Proof. intros t ice b HW. eapply W_pgeo; [apply attr_from_u8_pgeo|exact HW]. Qed.

(* ---- Avatar ------------------------------------------------------------------------------------------------------------------ *)
(* ^Y c n: the character is fed n times through the ANSI parser *)
Lemma avt_repeat_np : forall n m ch, W (mt m) -> NPM (avt_repeat n m ch).
Proof.
  induction n as [|k IH]; intros m ch HW; cbn [avt_repeat]; [exact HW|].
  pose proof (fallback_np m ch HW) as G. destruct (fallback m ch) as [m1|m1|s]; cbn in G |- *; auto.
Qed.
Lemma avatar_step_np : forall m ch, W (mt m) -> NPM (avatar_step m ch).
Proof.
  intros m ch HW. unfold avatar_step.
  mwifs; first [ apply fallback_np; assumption | exact HW | mwok HW | mwlift HW | idtac ].
  all: try (apply avt_repeat_np; exact HW).
  all: try (apply npm_ok; apply attr_from_u8_W; exact HW).
  all: try (apply npm_ok; apply set_cx_dec_W; exact HW).
Qed.

(* ---- PCBoard, Ctrl-A, Renegade --------------------------------------------------------------------------------------------------- *)
Lemma pcboard_step_np : forall m ch, W (mt m) -> NPM (pcboard_step m ch).
Proof.
  intros m ch HW. unfold pcboard_step. mwifs; first [ apply fallback_np; assumption | exact HW | idtac ].
  all: apply npm_ok; apply attr_from_u8_W; exact HW.
Qed.
Lemma ctrla_step_np : forall m ch, W (mt m) -> NPM (ctrla_step m ch).
Proof.
  intros m ch HW. unfold ctrla_step.
  repeat match goal with
         | |- NPM (if ?c then _ else _) => destruct c
         | |- NPM (match index_of ?a ?b ?c with _ => _ end) => destruct (index_of a b c)
         end;
    first [ apply fallback_np; assumption | exact HW | mwok HW | mwlift HW | idtac ].
  all: try (apply npm_ok; destruct (_ <? 8); first [exact HW | (eapply W_pgeo; [|exact HW]); reflexivity]).
  all: try (pose proof (fallback_np (with_e m 0 (eb m) (ec m) (ed m)) 1 HW) as G; destruct (fallback _ 1); exact G).
Qed.
Lemma renegade_step_np : forall m ch, W (mt m) -> NPM (renegade_step m ch).
Proof.
  intros m ch HW. unfold renegade_step. mwifs; first [ apply fallback_np; assumption | exact HW | mwok HW | idtac ].
Qed.

(* ---- the five machines built on the ANSI parser -------------------------------------------------------------------------------------- *)
Definition wrapper (e : emu) : bool := match e with EAnsi | EAvatar | EPcb | ECtrlA | ERenegade => true | _ => false end.
Lemma step_np : forall e m ch, wrapper e = true -> W (mt m) -> NPM (step e m ch).
Proof.
  intros e m ch He HW. destruct e; try discriminate; cbn [step].
  - apply fallback_np; assumption.
  - apply avatar_step_np; assumption.
  - apply pcboard_step_np; assumption.
  - apply ctrla_step_np; assumption.
  - apply renegade_step_np; assumption.
Qed.

(* Every stream, from every W state, runs through to a state, which satisfies W again. *)
Lemma run_np : forall e cs m, wrapper e = true -> W (mt m) -> exists m', run e m cs = RunOk m' /\ W (mt m').
Proof.
  intros e cs. induction cs as [|c r IH]; intros m He HW; [exists m; auto|].
  pose proof (step_np e m c He HW) as G. cbn [run].
  destruct (step e m c) as [m1|m1|s]; try contradiction; apply IH; assumption.
Qed.

Lemma init_W : forall music bs w h, 1 <= w <= 132 -> 1 <= h <= 60 -> W (mt (init music bs w h)).
Proof. intros. apply Inv09_W. apply init_09; assumption. Qed.

(* (a)+(c)+(d): the ANSI parser and its four wrappers, every stream, every screen size: the run ends in a state *)
Lemma c01_wrappers_proof : forall e music bs w h cs,
  wrapper e = true -> 1 <= w <= 132 -> 1 <= h <= 60 -> exists m', run e (init music bs w h) cs = RunOk m'.
Proof.
  intros e music bs w h cs He Hw Hh.
  destruct (run_np e cs (init music bs w h) He (init_W music bs w h Hw Hh)) as (m' & E & _). exists m'; exact E.
Qed.
(* a stream never panics: the negative form *)
Lemma c01_wrappers_no_panic_proof : forall e music bs w h cs s,
  wrapper e = true -> 1 <= w <= 132 -> 1 <= h <= 60 -> run e (init music bs w h) cs <> RunPanic s.
Proof.
  intros e music bs w h cs s He Hw Hh.
  destruct (c01_wrappers_proof e music bs w h cs He Hw Hh) as (m' & E); rewrite E; discriminate.
Qed.
(* the weak invariant after every stream: also after a resize the cursor has non-negative coordinates, the margins are
   ordered and non-negative, origin mode is never WithinMargins *)
Lemma c01_wrappers_state_proof : forall e music bs w h cs m',
  wrapper e = true -> 1 <= w <= 132 -> 1 <= h <= 60 -> run e (init music bs w h) cs = RunOk m' -> W (mt m').
Proof.
  intros e music bs w h cs m' He Hw Hh R.
  destruct (run_np e cs (init music bs w h) He (init_W music bs w h Hw Hh)) as (m2 & E & H2); rewrite E in R.
  inversion R; subst; exact H2.
Qed.
