(* C01 extension: the four wrappers of the ANSI parser (Avatar, PCBoard, Ctrl-A, Renegade) and the ANSI parser itself at
   STREAM level on the weak invariant W: every stream of any length runs through to a state, or stops in the
   macro-nesting overflow (MDiverge: the known class); it never panics - whatever was resized, whatever macros are stored. *)
From Coq Require Import ZArith NArith List Bool Lia.
From IE Require Import Model.TermCore Model.AnsiTok Model.Emu Proofs.TermProofs Proofs.AnsiProofs Proofs.EmuProofs
                       Proofs.WeakInv Proofs.AnsiSafeW.
Import ListNotations.
Local Open Scope Z_scope.

Definition NPM (Q : Prop) (o : mout) : Prop :=
  match o with MOk m | MErr m => W (mt m) | MPanic _ => False | MDiverge => Q end.
Lemma npm_weaken : forall (Q Q' : Prop) o, (Q -> Q') -> NPM Q o -> NPM Q' o.
Proof. intros Q Q' [m|m|s|] H; cbn; auto. Qed.
Lemma fallback_np : forall Q m ch, W (mt m) -> (Q \/ macros (ps (am m)) = []) -> NPM Q (fallback m ch).
Proof.
  intros Q m ch HW HQ. unfold fallback, ansi_step. pose proof (astep_np_or Q MACRO_FUEL (am m) ch HW HQ) as G.
  destruct (astep MACRO_FUEL (am m) ch); exact G.
Qed.
Lemma npm_ok : forall Q m t, W t -> NPM Q (mok m t). Proof. intros; assumption. Qed.
Lemma npm_lift : forall Q m r, okW r -> NPM Q (mlift m r).
Proof. intros Q m r (t' & E & HW). rewrite E. exact HW. Qed.

Ltac mwifs := repeat match goal with |- NPM _ (if ?c then _ else _) => destruct c end.
Ltac mwok HW := apply npm_ok; wkeep HW.
Ltac mwlift HW := apply npm_lift; wlim HW.

Lemma attr_from_u8_W : forall t ice b, W t -> W (attr_from_u8 t ice b).
Proof. intros t ice b HW. eapply W_pgeo; [apply attr_from_u8_pgeo|exact HW]. Qed.

(* ---- Avatar ------------------------------------------------------------------------------------------------------------------ *)
(* ^Y c n: the character is fed n times through the ANSI parser *)
Lemma avt_repeat_np : forall (Q : Prop) n m ch, Q -> W (mt m) -> NPM Q (avt_repeat n m ch).
Proof.
  intros Q. induction n as [|k IH]; intros m ch HQ HW; cbn [avt_repeat]; [exact HW|].
  pose proof (fallback_np Q m ch HW (or_introl HQ)) as G. destruct (fallback m ch) as [m1|m1|s|]; cbn in G |- *; auto.
Qed.
(* ... and it cannot overflow the macro nesting when no macro is stored before the first repetition: a character other than
   `\` leaves the macro table empty (astep_keeps_nomacro), and `\` never reaches the macro invoker (astep_np_not_z) *)
Lemma fallback_keeps_nomacro : forall m ch, macros (ps (am m)) = [] -> ch <> 92 ->
  match fallback m ch with MOk m1 | MErr m1 => macros (ps (am m1)) = [] | _ => True end.
Proof.
  intros m ch HM N. unfold fallback, ansi_step. pose proof (astep_keeps_nomacro MACRO_FUEL (am m) ch HM N) as G.
  destruct (astep MACRO_FUEL (am m) ch); exact G.
Qed.
Lemma fallback_np_not_z : forall m ch, W (mt m) -> ch <> 122 -> NPM False (fallback m ch).
Proof.
  intros m ch HW N. unfold fallback, ansi_step. pose proof (astep_np_not_z MACRO_FUEL (am m) ch HW N) as G.
  destruct (astep MACRO_FUEL (am m) ch); exact G.
Qed.
Lemma avt_repeat_np_nomacro : forall n m ch, W (mt m) -> macros (ps (am m)) = [] -> NPM False (avt_repeat n m ch).
Proof.
  intros n m ch HW HM. destruct (Z.eq_dec ch 92) as [E|N].
  - clear HM. revert m HW. induction n as [|k IH]; intros m HW; cbn [avt_repeat]; [exact HW|].
    assert (N : ch <> 122) by lia.
    pose proof (fallback_np_not_z m ch HW N) as G. destruct (fallback m ch) as [m1|m1|s|]; cbn in G |- *; auto.
  - revert m HW HM. induction n as [|k IH]; intros m HW HM; cbn [avt_repeat]; [exact HW|].
    pose proof (fallback_np False m ch HW (or_intror HM)) as G. pose proof (fallback_keeps_nomacro m ch HM N) as K.
    destruct (fallback m ch) as [m1|m1|s|]; cbn in G |- *; auto.
Qed.
Lemma avatar_step_np : forall (Q : Prop) m ch, W (mt m) -> (Q \/ macros (ps (am m)) = []) -> NPM Q (avatar_step m ch).
Proof.
  intros Q m ch HW HQ. unfold avatar_step.
  mwifs; first [ apply fallback_np; assumption | exact HW | mwok HW | mwlift HW | idtac ].
  all: try (destruct HQ as [HQ|HM]; [apply avt_repeat_np; [exact HQ|exact HW]
                                    |eapply npm_weaken; [|apply avt_repeat_np_nomacro; [exact HW|exact HM]]; intros []]).
  all: try (apply npm_ok; apply attr_from_u8_W; exact HW).
  all: try (apply npm_ok; apply set_cx_dec_W; exact HW).
Qed.

(* ---- PCBoard, Ctrl-A, Renegade --------------------------------------------------------------------------------------------------- *)
Lemma pcboard_step_np : forall Q m ch, W (mt m) -> (Q \/ macros (ps (am m)) = []) -> NPM Q (pcboard_step m ch).
Proof.
  intros Q m ch HW HQ. unfold pcboard_step. mwifs; first [ apply fallback_np; assumption | exact HW | idtac ].
  all: apply npm_ok; apply attr_from_u8_W; exact HW.
Qed.
Lemma ctrla_step_np : forall Q m ch, W (mt m) -> (Q \/ macros (ps (am m)) = []) -> NPM Q (ctrla_step m ch).
Proof.
  intros Q m ch HW HQ. unfold ctrla_step.
  repeat match goal with
         | |- NPM _ (if ?c then _ else _) => destruct c
         | |- NPM _ (match index_of ?a ?b ?c with _ => _ end) => destruct (index_of a b c)
         end;
    first [ apply fallback_np; assumption | exact HW | mwok HW | mwlift HW | idtac ].
  all: try (apply npm_ok; destruct (_ <? 8); first [exact HW | (eapply W_pgeo; [|exact HW]); reflexivity]).
  all: try (pose proof (fallback_np Q (with_e m 0 (eb m) (ec m) (ed m)) 1 HW HQ) as G; destruct (fallback _ 1); exact G).
Qed.
Lemma renegade_step_np : forall Q m ch, W (mt m) -> (Q \/ macros (ps (am m)) = []) -> NPM Q (renegade_step m ch).
Proof.
  intros Q m ch HW HQ. unfold renegade_step. mwifs; first [ apply fallback_np; assumption | exact HW | mwok HW | idtac ].
Qed.

(* ---- the five machines built on the ANSI parser -------------------------------------------------------------------------------------- *)
Definition wrapper (e : emu) : bool := match e with EAnsi | EAvatar | EPcb | ECtrlA | ERenegade => true | _ => false end.
Lemma step_np : forall (Q : Prop) e m ch, wrapper e = true -> W (mt m) -> (Q \/ macros (ps (am m)) = []) -> NPM Q (step e m ch).
Proof.
  intros Q e m ch He HW HQ. destruct e; try discriminate; cbn [step].
  - apply fallback_np; assumption.
  - apply avatar_step_np; assumption.
  - apply pcboard_step_np; assumption.
  - apply ctrla_step_np; assumption.
  - apply renegade_step_np; assumption.
Qed.

(* a macro is stored *)
Definition Stored (m : mach) : Prop := macros (ps (am m)) <> [].

(* Every stream, from every W state: it runs through to a state (which satisfies W again), or it stops in the
   macro-nesting overflow, and then the character at which it stops was processed with a macro stored. *)
Lemma run_np : forall e cs m, wrapper e = true -> W (mt m) ->
  (exists m', run e m cs = RunOk m' /\ W (mt m')) \/
  (run e m cs = RunDiverge /\ exists pre c post m', cs = pre ++ c :: post /\ run e m pre = RunOk m' /\ Stored m').
Proof.
  intros e cs. induction cs as [|c r IH]; intros m He HW; [left; exists m; auto|].
  assert (D : macros (ps (am m)) = [] \/ Stored m).
  { unfold Stored. destruct (macros (ps (am m))); [left; reflexivity|right; discriminate]. }
  assert (K : forall m1, (step e m c = MOk m1 \/ step e m c = MErr m1) -> W (mt m1) ->
           (exists m', run e m (c :: r) = RunOk m' /\ W (mt m')) \/
           (run e m (c :: r) = RunDiverge /\ exists pre c' post m', c :: r = pre ++ c' :: post /\ run e m pre = RunOk m' /\ Stored m')).
  { intros m1 E H1. assert (R : forall l, run e m (c :: l) = run e m1 l) by (intro l; cbn [run]; destruct E as [E|E]; rewrite E; reflexivity).
    destruct (IH m1 He H1) as [(m' & E' & H')|(E' & pre & c' & post & m' & E1 & E2 & U)].
    - left. exists m'. rewrite R. auto.
    - right. rewrite R. split; [exact E'|]. exists (c :: pre), c', post, m'. repeat split; [rewrite E1; reflexivity| |exact U].
      rewrite R. exact E2. }
  destruct D as [HM|U].
  - pose proof (step_np False e m c He HW (or_intror HM)) as G.
    destruct (step e m c) as [m1|m1|s|] eqn:F; try contradiction; apply (K m1); auto.
  - pose proof (step_np True e m c He HW (or_introl I)) as G.
    destruct (step e m c) as [m1|m1|s|] eqn:F; try contradiction; try (apply (K m1); auto).
    right. cbn [run]. rewrite F. split; [reflexivity|]. exists [], c, r, m. repeat split. exact U.
Qed.

Lemma init_W : forall music bs w h, 1 <= w <= 132 -> 1 <= h <= 60 -> W (mt (init music bs w h)).
Proof. intros. apply Inv09_W. apply init_09; assumption. Qed.

(* (a)+(c)+(d): the ANSI parser and its four wrappers, every stream, every screen size *)
Lemma c01_wrappers_proof : forall e music bs w h cs,
  wrapper e = true -> 1 <= w <= 132 -> 1 <= h <= 60 ->
  (exists m', run e (init music bs w h) cs = RunOk m') \/
  (run e (init music bs w h) cs = RunDiverge /\
   exists pre c post m', cs = pre ++ c :: post /\ run e (init music bs w h) pre = RunOk m' /\ Stored m').
Proof.
  intros e music bs w h cs He Hw Hh.
  destruct (run_np e cs (init music bs w h) He (init_W music bs w h Hw Hh)) as [(m' & E & _)|R]; [left; exists m'; exact E|right; exact R].
Qed.
(* a stream never panics: the negative form *)
Lemma c01_wrappers_no_panic_proof : forall e music bs w h cs s,
  wrapper e = true -> 1 <= w <= 132 -> 1 <= h <= 60 -> run e (init music bs w h) cs <> RunPanic s.
Proof.
  intros e music bs w h cs s He Hw Hh.
  destruct (c01_wrappers_proof e music bs w h cs He Hw Hh) as [(m' & E)|(E & _)]; rewrite E; discriminate.
Qed.
(* the weak invariant after every stream: also after a resize the cursor has non-negative coordinates, the margins are
   ordered and non-negative, origin mode is never WithinMargins *)
Lemma c01_wrappers_state_proof : forall e music bs w h cs m',
  wrapper e = true -> 1 <= w <= 132 -> 1 <= h <= 60 -> run e (init music bs w h) cs = RunOk m' -> W (mt m').
Proof.
  intros e music bs w h cs m' He Hw Hh R.
  destruct (run_np e cs (init music bs w h) He (init_W music bs w h Hw Hh)) as [(m2 & E & H2)|(E & _)]; rewrite E in R; [|discriminate].
  inversion R; subst; exact H2.
Qed.
