#!/usr/bin/env python3
"""Rewrites the seeded-changes table of DESIGN.md (between the SEEDED-TABLE markers) from seeded/*/meta.json."""
import json, glob, re
rows = []
for d in sorted(glob.glob('seeded/*/meta.json')):
    m = json.load(open(d)); name = d.split('/')[1]
    line = [l for l in m.get('check_output', []) if l.startswith(m['property'] + ':')]
    viol = [l for l in m.get('check_output', []) if l.startswith('VIOLATION')]
    how = (line[0] if line else '')[:110]
    if viol and 'no-failing-input-found' in viol[0]: how += ' [no-failing-input-found]'
    rows.append('| %s | %s | %s | %s |' % (name, m['summary'][:170].replace('|', '/').replace('\n', ' '), m.get('needs', '')[:140].replace('|', '/').replace('\n', ' '), how))
table = ('<!-- SEEDED-TABLE-BEGIN -->\n| seed | change | needs | check result with the change applied |\n|---|---|---|---|\n' + '\n'.join(rows) + '\n<!-- SEEDED-TABLE-END -->')
s = open('DESIGN.md').read()
if 'SEEDED-TABLE-BEGIN' in s:
    s = re.sub(r'<!-- SEEDED-TABLE-BEGIN -->.*<!-- SEEDED-TABLE-END -->', lambda _: table, s, flags=re.S)
else:
    s = re.sub(r'\| seed \| change \| property \| check result with the change applied \|\n\|---\|---\|---\|---\|\n(\|.*\n)*', lambda _: table + '\n', s)
open('DESIGN.md', 'w').write(s)
print(len(rows), 'seeds')
