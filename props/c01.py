"""C01 — no byte stream can crash a terminal emulation (DESIGN.md section 7 C01, Appendix A).
No known class is left (the unbounded macro recursion is repaired: MAX_MACRO_NESTING, fix 2513579); time/memory are C03's."""
import os, re, base64, struct
from props import termgen as tg

ID = 'C01'
GENERATORS = ['gen_font',     # Model/AnsiTok.v loads `CTerm:Font:` strings with C17's Model/Font.v, which needs Gen/FontConsts.v
              'gen_macro']    # Gen/MacroLimit.v: MAX_MACRO_NESTING read from src/parsers/ansi/mod.rs; pins the counter discipline of invoke_macro_by_id
COQ_TARGETS = ['Props/C01.vo', 'Run/RunC09.vo', 'Run/RunC01.vo']
PROPS_MODULE = 'Props.C01'
THEOREMS = ['c01_standalone', 'c01_ansi_char_partial', 'c01_stream_partial', 'c01_ansi_stream_partial', 'core_ops_never_panic',
            'c01_ansi_char', 'c01_wrappers', 'c01_wrappers_no_panic', 'c01_wrappers_state', 'c01_petscii', 'c01_no_emulation_panics', 'c01_every_stream_ends',
            'macro_limit_only_cuts', 'macro_recursion_reaches_every_limit']
SWEEP_LEMMAS = []
TRUSTED = ['Coq 8.16.1 kernel + vm_compute; no axioms (Print Assumptions: closed)',
           'hand-written models Model/TermCore.v, AnsiTok.v, Emu.v (shared with C09) and Model/Petscii.v, tied to the Rust source by differential runs: outcome class of every character, final geometry; '
           'for states after a resize, macro replay and PETSCII the full C09 observation (18 values) after EVERY character',
           'Model/Font.v (C17: load_custom_font, BitFont::from_bytes) reused for the CTerm:Font DCS; Model/Base64.v = decoder of the external crate base64 0.22 (STANDARD), tied by stage C on valid / truncated / badly padded / non-canonical / non-alphabet payloads',
           'harness/src/c01.rs + the worker protocol of vlib/driver.py (panic location, abort / stack overflow / timeout / OOM classification)']
UNMODELLED = ['the nesting counter Parser::macro_nesting is not a field of the model state: it is the structural recursion depth of astep (fuel = MAX_MACRO_NESTING - counter); that it is 0 whenever '
              'print_char is entered from outside (one increment, one decrement, no early exit between them, no other writer) is pinned token by token by translator/gen_macro.py, not proved',
              'the stack need of one nesting level (measured: 10.4 KiB in the dev profile, see the fix commit) is outside the model; gen_macro.py refuses a limit whose 16 KiB-per-level budget exceeds 1 MiB',
              'sixel decoding (runs in a thread, C14) and Buffer::update_sixel_threads, OSC 4 palette regex (accepted without evaluation), DECRQCRA checksum value, SendString/PlayMusic payloads, '
              'font tables (of a font loaded by DCS only the slot number is kept; the built-in slots 0..=42 are a constant of the model)',
              'PETSCII: font page of a cell, foreground colour, underline_mode / c_shift (written, never read) are outside the cell projection (code, background)',
              'the application-side reaction to CallbackAction::ResizeTerminal (the parser only changes TerminalState.size; the harness, like the model, leaves Buffer / Layer size alone)',
              'time and memory (C03): loop counts are not bounded by the theorems; the generators keep repeat counts of REP/SU/SD/IL/DL/ICH/DCH/SL/SR/CVT/CBT/CUU small']
ASSUMPTIONS = ['row counters stay below 2^31 (see C09)', 'bytes are fed as `b as char`']
RULE = ('character-level streams: (1) token streams over the C09 alphabet plus resize, DCS (text/hex macro definition, invocation, nested and self invocation, sixel hand-off, '
        'CTerm:Font strings with PSF1/PSF2/raw fonts and perturbed base64, unknown), font selection of loaded / empty slots, DECFRA with scalar and non-scalar fill characters, OSC 4/8 (open/close/unbalanced), APS, music strings (all seven MusicStates, overflowing lengths) for every music option; (2) malformed streams of raw bytes biased to the bytes '
        'that drive the state machines, with huge numbers; all ten emulations, sizes 1..=132 x 1..=60; the ledger inputs as regression cases. Stage C compares per stream the number of '
        'actions, of error values, the index of the first error and the final geometry (or the panic site class). Stage S: any panic/abort/stack overflow/timeout/OOM of the worker is a failure '
        'with signature C01-<class>:<function> (panic location mapped to the enclosing fn). Extension area (per-character observation): (3) set-up + resize to a smaller / larger / extreme size + tokens of the whole alphabet, '
        '(4) hex / text macros whose bodies resize, move, edit, define and invoke macros (lower ones, themselves, each other: cycles end in the error MacroNestingTooDeep on both sides, with the same state after every character), invoked from the stream, inside a DCS, and by the Avatar repeat; chains of 15..18 macros around the limit MAX_MACRO_NESTING, self-invocation with fan-out, '
        'through all five ANSI-based emulations, (5) PETSCII byte streams incl. every byte after reverse-on and every byte after ESC. non-trivial = stream produced at least one error value or moved the cursor')
MODEL_IMPORTS = 'From IE Require Import Run.RunC09 Run.RunC01.\nLocal Open Scope Z_scope.'
E = tg.E

def zl(b):
    return '[%s]' % '; '.join(str(x) for x in b)

# ---- generators ---------------------------------------------------------------------------------------------------------
LOOP_FINALS = b'bSTPLMYZ@Ak'
def sanitize(b):
    """keep repeat counts of the loop commands small (their cost is C03's subject, not a crash)"""
    def fix(m):
        n = m.group(1)
        return (b'9' if len(n) > 2 else n) + m.group(2)
    b = re.sub(rb'(\d{3,})( ?[bSTPLMYZ@Ak])', fix, b)
    b = re.sub(rb'(\d{3,})( [@A])', fix, b)
    b = re.sub(rb'!(\d{4,})', lambda m: b'!99', b)
    # any other long digit run survives only directly in front of a final that does not loop over it
    b = re.sub(rb'\d{3,}(?![0-9eEFdHfaBCDGrsmnXtJK])', lambda m: m.group(0)[:2], b)
    return b

def font_dcs(slot, data, payload=None):
    """ESC P CTerm:Font:<slot>:<base64> ESC \\ (what BitFont::encode_as_ansi writes); payload overrides the base64 text"""
    if isinstance(slot, int): slot = str(slot).encode()
    return E + b'PCTerm:Font:' + slot + b':' + (base64.b64encode(data) if payload is None else payload) + E + b'\\'

def psf2(length, charsize, height, width, data=b'', version=0, headersize=32):
    return struct.pack('<8I', 0x864ab572, version, headersize, 0, length, charsize, height, width) + data

PSF1_EMPTY = b'\x36\x04\x00\x10'                   # PSF1, 8x16, no glyph data
FONT_TOKENS = [('FONT-short', font_dcs(0, b'')), ('FONT-3bytes', font_dcs(0, b'\x36\x04\x00')), ('FONT-psf1', font_dcs(77, PSF1_EMPTY)), ('FONT-psf1-5', font_dcs(78, PSF1_EMPTY + b'\xff')),
               ('FONT-psf1-6', font_dcs(79, PSF1_EMPTY + b'\xff\x81')), ('FONT-psf1-h0', font_dcs(80, b'\x36\x04\x01\x00\x01\x02\x03')), ('FONT-psf2', font_dcs(88, psf2(0, 0, 16, 8))),
               ('FONT-psf2-1', font_dcs(89, psf2(1, 2, 2, 8, b'\x55\xaa'))), ('FONT-psf2-badlen', font_dcs(90, psf2(1, 1, 1, 8))), ('FONT-psf2-ver', font_dcs(91, psf2(0, 0, 16, 8, version=1))),
               ('FONT-psf2-short', font_dcs(92, psf2(0, 0, 16, 8)[:31])), ('FONT-psf2-hdr', font_dcs(93, psf2(0, 0, 16, 8, b'\0\0', headersize=34))), ('FONT-psf2-ovf', font_dcs(94, psf2(0xffffffff, 32, 32, 8, headersize=64))),
               ('FONT-psf2-many', font_dcs(95, psf2(0xd801, 0, 0, 8))), ('FONT-raw5', font_dcs(96, b'\0' * 5)),
               ('FONT-nopad', font_dcs(81, b'', b'NgQAEA')), ('FONT-noncanon2', font_dcs(81, b'', b'NgQAEB==')), ('FONT-noncanon1', font_dcs(81, b'', b'NgQAEP+=')), ('FONT-pad3', font_dcs(81, b'', b'NgQAE===')),
               ('FONT-midpad', font_dcs(81, b'', b'Ng==AEA=')), ('FONT-len1', font_dcs(81, b'', b'NgQAE')), ('FONT-badsym', font_dcs(81, b'', b'NgQA*A==')), ('FONT-hi', font_dcs(81, b'', b'NgQA\xe9A==')),
               ('FONT-urlsafe', font_dcs(81, b'', b'NgQA_-8=')), ('FONT-std', font_dcs(82, b'', b'NgQA/+8=')), ('FONT-extra-pad', font_dcs(81, b'', b'NgQAEA====')), ('FONT-space', font_dcs(81, b'', b'NgQA EA==')),
               ('FONT-noslot', font_dcs(b'', PSF1_EMPTY)), ('FONT-plus', font_dcs(b'+83', PSF1_EMPTY)), ('FONT-plusonly', font_dcs(b'+', PSF1_EMPTY)), ('FONT-neg', font_dcs(b'-1', PSF1_EMPTY)),
               ('FONT-slot-max', font_dcs(18446744073709551615, PSF1_EMPTY)), ('FONT-slot-ovf', font_dcs(18446744073709551616, PSF1_EMPTY)), ('FONT-slot-0x', font_dcs(b'0084', PSF1_EMPTY)),
               ('FONT-nocolon', E + b'PCTerm:Font:12' + E + b'\\'), ('FONT-colons', font_dcs(b'85:', PSF1_EMPTY)), ('FONT-prefix-only', E + b'PCTerm:Font:' + E + b'\\'), ('FONT-case', E + b'PCterm:Font:1:NgQAEA==' + E + b'\\'),
               ('FONT-slot0', font_dcs(0, PSF1_EMPTY)),
               # fix fB: the loaders refuse a glyph size outside 1..=8 x 1..=32 and a PSF2 charsize != height: 'FONT-psf2' (charsize 0, height 16), 'FONT-psf1-h0', 'FONT-psf2-hdr' are errors now;
               # a header-only PSF2 font that loads, and sizes around the bounds (slot 98 never gets a font: FONTSEL-98 must fail on both sides)
               ('FONT-psf2-ok', font_dcs(97, psf2(0, 16, 16, 8))), ('FONT-psf2-32', font_dcs(97, psf2(1, 32, 32, 1, bytes(32)))), ('FONT-psf2-w0', font_dcs(98, psf2(0, 16, 16, 0))),
               ('FONT-psf2-w9', font_dcs(98, psf2(0, 16, 16, 9))), ('FONT-psf2-h33', font_dcs(98, psf2(0, 33, 33, 8))), ('FONT-psf2-big', font_dcs(98, psf2(0, 0, 0xffffffff, 1 << 30))),
               ('FONT-psf1-h33', font_dcs(98, b'\x36\x04\x00\x21'))]
FONTSEL_TOKENS = [('FONTSEL-%d' % n, E + b'[0;%d D' % n) for n in (77, 78, 79, 80, 81, 82, 83, 84, 85, 88, 89, 90, 91, 93, 95, 96, 97, 98, 42, 43)] + [('FONTSEL-max', E + b'[0;2147483647 D')]
RAW256 = font_dcs(66, bytes(range(7, 256)) + bytes(7))                       # an 8x1 raw font (344 base64 symbols)
RAW4096 = font_dcs(67, bytes((i * 7 + i // 256) % 256 for i in range(4096)))    # an 8x16 raw font
FONT_STREAMS = [(RAW256 + E + b'[0;66 D' + E + b'[0;67 D', 'font-raw256'), (RAW4096 + E + b'[0;67 D' + E + b'[0;66 D', 'font-raw4096'),
                (font_dcs(66, bytes(255)) + E + b'[0;66 D', 'font-raw255'), (font_dcs(18446744073709551615, PSF1_EMPTY) + E + b'[0;2147483647 D', 'font-slot-max'),
                (E + b'c' + font_dcs(99, PSF1_EMPTY) + E + b'c' + E + b'[!p' + E + b'[0;99 D', 'font-survives-reset')]

def random_font_token(rng):
    """a font DCS with a random payload: valid base64 of a (mostly loadable) font, perturbed in one place half of the time"""
    kind = rng.random()
    if kind < 0.4: data = b'\x36\x04' + bytes(rng.randrange(256) for _ in range(rng.choice([0, 1, 2, 3, 4, 5, 9])))
    elif kind < 0.7: data = psf2(rng.choice([0, 1, 2]), rng.choice([0, 1, 2]), rng.choice([0, 1, 2, 16]), 8, bytes(rng.randrange(256) for _ in range(rng.choice([0, 1, 2, 4]))), version=rng.choice([0, 0, 0, 1]))
    else: data = bytes(rng.randrange(256) for _ in range(rng.choice([0, 1, 2, 3, 4, 5, 6, 7])))
    pay = bytearray(base64.b64encode(data))
    if rng.random() < 0.5 and pay:
        i = rng.randrange(len(pay)); r = rng.random()
        if r < 0.3: del pay[i]
        elif r < 0.6: pay[i] = rng.choice(b'ABPQghw/+019=-_ *')
        elif r < 0.8: pay.insert(i, rng.choice(b'A=Z9'))
        else: pay = pay.rstrip(b'=')
    slot = rng.choice([b'77', b'43', b'0', b'+9', b'', b'x', b'99'])
    return ('FONT-random', font_dcs(slot, b'', bytes(pay)))

def random_string_token(rng):
    """OSC / DCS / APS string with a random payload: 7-bit and 8-bit bytes, field separators, the known prefixes"""
    intro = rng.choice([b']', b']', b']', b'P', b'_'])
    parts = []
    for _ in range(rng.randint(0, 5)):
        r = rng.random()
        if r < 0.3: parts.append(rng.choice([b'8', b'4', b'8;', b'8;;', b'4;1', b'rgb:aa/bb/cc', b'id=x', b'http://a', b'CTerm:Font:', b'1;0;1!z', b'q']))
        elif r < 0.6: parts.append(bytes(rng.choice([0xe9, 0x80, 0xff, 0xc3, 0xa9, 0x9b, 0x7f, 0x20, 0x3a]) for _ in range(rng.randint(1, 4))))
        else: parts.append(bytes(rng.randrange(0x20, 0x100) for _ in range(rng.randint(0, 6))))
    body = b';'.join(parts) if rng.random() < 0.7 else b''.join(parts)
    body = body.replace(b'\x1b', b'')
    return ('STR-random', E + intro + body + (E + b'\\' if rng.random() < 0.9 else b'\x07'))

def extra_tokens(music):
    t = FONT_TOKENS + FONTSEL_TOKENS + [('DCS-macro', E + b'P1;0;0!zAB\x0a' + E + b'\\'), ('DCS-macro-hex', E + b'P2;0;1!z41!3;4243;0A' + E + b'\\'), ('DCS-macro-bad', E + b'P3;0;1!z4G' + E + b'\\'),
         ('DCS-macro-clr', E + b'P4;1;0!zX' + E + b'\\'), ('DCS-macro-p3', E + b'P4;0;7!zX' + E + b'\\'), ('DCS-nonum', E + b'P!zX' + E + b'\\'),
         ('DCS-macro-csi', E + b'P5;0;1!z1B5B3243' + E + b'\\'), ('DCS-macro-nest', E + b'P6;0;1!z1B5B352A7A' + E + b'\\'),
         ('INV1', E + b'[1*z'), ('INV2', E + b'[2*z'), ('INV5', E + b'[5*z'), ('INV6', E + b'[6*z'), ('INV9', E + b'[9*z'),
         ('DCS-inv-inside', E + b'P7;0;0!zq' + E + b'[2*zr' + E + b'\\'), ('DCS-inv-nonum', E + b'P' + E + b'[*z' + E + b'\\'), ('DCS-inv-star2', E + b'P' + E + b'[1**z' + E + b'\\'), ('DCS-bad-inside', E + b'P' + E + b'[x' + E + b'\\'), ('DCS-esc', E + b'P' + E + b'Q' + E + b'\\'),
         ('DCS-sixel', E + b'Pq#0;2;0;0;0~-~' + E + b'\\'), ('DCS-sixel-bad', E + b'P0;1q"1;1;x' + E + b'\\'), ('DCS-unknown', E + b'Pzz' + E + b'\\'), ('DCS-open', E + b'P12'),
         ('OSC8-open', E + b']8;;http://x' + E + b'\\'), ('OSC8-close', E + b']8;;' + E + b'\\'), ('OSC4', E + b']4;1;rgb:aa/bb/cc' + E + b'\\'), ('OSC4-noidx', E + b']4;;rgb:00/00/00' + E + b'\\'),
         ('OSC4-big', E + b']4;999;rgb:00/00/00' + E + b'\\'), ('OSC-unknown', E + b']9;x' + E + b'\\'), ('OSC-empty', E + b']' + E + b'\\'), ('OSC-esc', E + b']8' + E + b'x'),
         ('APS', E + b'_hello' + E + b'\\'), ('APS-esc', E + b'_a' + E + b'b'), ('ST', E + b'\\'),
         ('CHK-macro', E + b'[?63;1n'), ('CHK-space', E + b'[?62n'), ('FONTSEL', E + b'[0;1 D'), ('FONTSEL-bad', E + b'[0;43 D'), ('FONTSEL-huge', E + b'[0;2147483647 D'),
         ('DECFRA-ok', E + b'[65;1;1;9;9$x'), ('DECFRA-max', E + b'[1114111;1;1;2;2$x'), ('DECFRA-surrogate', E + b'[55296;1;1;2;2$x'), ('DECFRA-surrogate-hi', E + b'[57343;1;1;2;2$x'),
         ('DECFRA-e000', E + b'[57344;1;1;2;2$x'), ('DECFRA-d7ff', E + b'[55295;1;1;2;2$x'), ('DECFRA-110000', E + b'[1114112;1;1;2;2$x'), ('DECFRA-i32max', E + b'[2147483647;1;1;2;2$x'), ('DECFRA-4', E + b'[65;1;1;9$x'), ('T24', E + b'[1;300;2;3t'), ('CSI-star-x', E + b'[1*x'), ('CSI-dollar-q', E + b'[1$q'),
         ('DEVATTR', E + b'[<0c'), ('DEVATTR2', E + b'[<1;2c'), ('REQ1', E + b'[=1n'), ('REQ2', E + b'[=2n'), ('REQ3', E + b'[=3n'), ('REQ9', E + b'[=9n'), ('SSM-short', E + b'[=1m'),
         ('BIG-e', E + b'[2147483647e'), ('BIG-E', E + b'[2147483647E'), ('BIG-F', E + b'[2147483647F'), ('BIG-d', E + b'[2147483647d'), ('BIG-H', E + b'[2147483647;2147483647H'),
         ('BIG-a', E + b'[2147483647a'), ('BIG-B', E + b'[2147483647B'), ('BIG-C', E + b'[2147483647C'), ('BIG-D', E + b'[2147483647D'), ('BIG-G', E + b'[99999999999G'),
         ('BIG-r', E + b'[1;2147483647r'), ('BIG-s', E + b'[?69h' + E + b'[2147483647;2147483647s'), ('BIG-X', E + b'[2147483647X'), ('BIG-tab', E + b'[2147483647 d'), ('BIG-ssm', E + b'[=1;2147483647m')]
    if music:
        for s in (b'MFT120O3L4CDEFGAB', b'O6B+', b'O6B#######', b'C2147483647.', b'C99999999', b'L2147483647.', b'P2147483647.', b'T99999', b'O9', b'MBC-', b'A#8.', b'<<<<<<<<C', b'>>>>>>>>B+', b'MNMLMS'):
            t.append(('music ' + s.decode(), E + (b'[M' if music in (1, 3) else b'[N') + s + b'\x0e'))
            t.append(('music| ' + s.decode(), E + b'[|' + s + b'\x0e'))
        t.append(('music-open', E + b'[|T12'))
    return t

def gen_stream(rng, emu, w, h, music):
    r = rng.random()
    if r < 0.35:
        return sanitize(tg.malformed_stream(rng, emu, rng.choice([20, 200, 1500, 4096]), music != 0)), ['malformed']
    toks = tg.alphabet(emu, w, h)
    if emu in tg.ANSI_BASED:
        toks = toks + tg.RESIZE + extra_tokens(music & 3) * 2 + [random_font_token(rng) for _ in range(12)] + [random_string_token(rng) for _ in range(16)]
    toks = [t for t in toks if b'9999' not in t[1] or t[0].split('(')[0] in ('CUD', 'CUF', 'CUB', 'CNL', 'CPL', 'CHA', 'VPA', 'VPR', 'HPA', 'HPR', 'HPB', 'ECH', 'CUP', 'DECSTBM', 'CSR', 'DECSLRM', 'SSM')]
    b, names = tg.random_stream(rng, emu, w, h, rng.choice([3, 10, 40, 150]), toks=toks)
    if rng.random() < 0.3: b = b'\n' * (h + rng.choice([1, 30])) + b
    return b[:4096], names


# ---- the area of the extension: states after a text-area resize, macro replay, the wrappers, PETSCII ---------------------------
def light_tokens(emu, w, h):
    return [t for t in tg.alphabet(emu, w, h) if b'9999' not in t[1]]

def hexmacro(pid, body, flags=b'0'):
    """ESC P pid;flags;1 !z <hex of body> ESC \\  (parse_hex_macro_sequence)"""
    return E + b'P%d;' % pid + flags + b';1!z' + body.hex().upper().encode() + E + b'\\'

def post_resize_stream(rng, emu, w, h):
    """set-up (scrollback, margins, far cursor, insert mode) + one resize to a smaller / larger / extreme size + tokens of the whole alphabet"""
    toks = light_tokens(emu, w, h)
    setup = rng.choice([b'', b'\n' * (h + rng.choice([1, 7])), b'\n' * (h - 1) + b'A' * (w - 1)])
    if rng.random() < 0.5: setup += E + b'[%d;%dr' % (rng.choice([1, 2, h // 2 + 1]), rng.choice([h, max(1, h - 1), h // 2 + 1]))
    if rng.random() < 0.4: setup += E + b'[?69h' + E + b'[%d;%ds' % (rng.choice([1, 2, w // 2 + 1]), rng.choice([w, max(1, w - 1)]))
    if rng.random() < 0.5: setup += E + b'[%d;%dH' % (rng.choice([1, h, h // 2 + 1]), rng.choice([1, w, w // 2 + 1]))
    if rng.random() < 0.3: setup += E + b'[4h'
    if rng.random() < 0.3: setup += E + b'7'
    hh, ww = rng.choice([(1, 1), (1, w), (h, 1), (2, 2), (max(1, h // 2), max(1, w // 2)), (60, 132), (h + 5, w + 9), (0, 0), (3, 200)])
    out = [setup, E + b'[8;%d;%dt' % (hh, ww)]; names = ['setup', 'RESIZE(%d;%d)' % (hh, ww)]
    for _ in range(rng.choice([6, 12, 25])):
        r = rng.random()
        if r < 0.2: n, b = rng.choice([('print', bytes([rng.choice(b'AB \xdb')]) * rng.choice([1, 2, ww + 1 if 0 < ww < 140 else 3])), ('LF', b'\n' * rng.choice([1, 2, 5])), ('CR', b'\r')])
        elif r < 0.25: n, b = rng.choice(tg.RESIZE)
        elif r < 0.3: n, b = rng.choice([('DECRC', E + b'8'), ('RCP', E + b'[u'), ('DECSTR', E + b'[!p'), ('RIS', E + b'c')])
        else: n, b = rng.choice(toks)
        out.append(b); names.append(n)
    return b''.join(out), names

MACRO_BODIES = [b'AB\n', b'\x1b[8;3;4tXY\x1b[L\x1b[M', b'\x1b[2;3r\x1b[9B\x1bM\x1bM\x1bM', b'\x1b[4hQ\x1b[4l\x1b[3@\x1b[2P', b'\x1b[ @\x1b[ A\x1b[5b', b'\x1b[99C\x1b[8;1;1tZ\x1b[X',
                b'\x1b[?69h\x1b[2;3s\x1b[ A', b'\x1bD\x1bE\x1b[1;1H\x1b[J', b'\x1bP9;0;0!zq\x1b\\', b'\x0c\x1b[!p', b'\x1b[1;2;3;4r\x1b[=r', b'\x1b[0;0r\x1b[M\x1b[L']
def macro_stream(rng, emu, w, h):
    """hex macros whose bodies resize / move / edit / define macros / invoke lower macros; invoked from the stream, from inside a DCS, twice, and (Avatar) by ^Y z n"""
    toks = light_tokens(emu, w, h)
    out = []; names = []
    nm = rng.choice([1, 2, 3])
    for i in range(1, nm + 1):
        body = rng.choice(MACRO_BODIES)
        if rng.random() < 0.4: body += b''.join(rng.choice(toks)[1] for _ in range(rng.choice([1, 3])))
        if i > 1 and rng.random() < 0.6: body += E + b'[%d*z' % rng.randrange(1, i)          # a lower macro: bounded nesting
        if rng.random() < 0.12: body += E + b'[%d*z' % i + rng.choice([b'', b'Z', E + b'[%d*z' % i])   # itself (the former known class): ends in MacroNestingTooDeep, nothing after it is replayed
        if rng.random() < 0.12: body += E + b'[%d*z' % rng.randrange(1, nm + 1) + rng.choice([b'', b'Y'])   # any macro, also a higher one: cycles
        rep = rng.random()
        if rep < 0.2: out.append(E + b'P%d;0;1!z' % i + b'!%d;' % rng.choice([0, 2, 3]) + body.hex().upper().encode() + b';' + E + b'\\')
        elif rep < 0.3: out.append(E + b'P%d;0;0!z' % i + bytes(c for c in body if c != 0x1b) + E + b'\\')       # text form
        else: out.append(hexmacro(i, body, rng.choice([b'0', b'0', b'1'])))
        names.append('DEF%d' % i)
    for _ in range(rng.choice([2, 4, 7])):
        r = rng.random(); k = rng.randrange(1, nm + 2)
        if r < 0.45: out.append(E + b'[%d*z' % k); names.append('INV%d' % k)
        elif r < 0.55: out.append(E + b'Pq' + E + b'[%d*zr' % k + E + b'\\'); names.append('INV-in-DCS%d' % k)
        elif r < 0.65 and emu == 1: out.append(E + b'[%d*' % k + b'\x19z' + bytes([rng.choice([1, 2, 3])])); names.append('INV-avt-rep%d' % k)
        elif r < 0.7: n, b = rng.choice(tg.RESIZE); out.append(b); names.append(n)
        else: n, b = rng.choice(toks); out.append(b); names.append(n)
    return b''.join(out), names

def term_cases(ctx):
    """per-character comparison (harness kind `term`) on exactly the newly proved area"""
    meta = []
    for _ in range(ctx.n(45, 500)):
        emu = ctx.rng.choice(tg.ANSI_BASED)
        w, h = ctx.rng.choice([(80, 25), (40, 24), (5, 3), (1, 1), (10, 4), (20, 60)])
        b, names = post_resize_stream(ctx.rng, emu, w, h)
        meta.append((emu, 0, w, h, b[:300], ['post-resize'] + names))
    for _ in range(ctx.n(45, 500)):
        emu = ctx.rng.choice(tg.ANSI_BASED)
        w, h = ctx.rng.choice([(80, 25), (40, 24), (5, 3), (10, 4)])
        b, names = macro_stream(ctx.rng, emu, w, h)
        meta.append((emu, 0, w, h, b[:400], ['macro-replay'] + names))
    for _ in range(ctx.n(60, 700)):
        w, h = ctx.rng.choice([(40, 25), (40, 25), (80, 25), (5, 3), (1, 1), (10, 4), (132, 60)]) if ctx.rng.random() < 0.85 else (ctx.rng.randint(1, 132), ctx.rng.randint(1, 60))
        meta.append((6, 0, w, h, tg.petscii_stream(ctx.rng, w, h, ctx.rng.choice([5, 20, 60, 150])), ['petscii']))
    # directed: every PETSCII byte once after `reverse on`, and every byte as the second byte of a C128 escape
    meta.append((6, 0, 40, 25, b''.join(bytes([0x12, c]) for c in range(256) if c not in (0x1b, 0x93)), ['petscii-reverse-all']))
    meta.append((6, 0, 40, 25, b'AB\rCD\r' + b''.join(bytes([0x1b, c]) for c in range(256)), ['petscii-escape-all']))
    meta.append((6, 0, 10, 4, b'\r' * 9 + b'\x8eAB\x0e\x8e\x8e\x93\x0e', ['petscii-shift']))
    # directed: the former known class through every wrapper (both sides: one error value, same states), a chain of depth 6,
    # a macro that resizes to 1 x 1 and then edits lines far outside the new screen; chains around the nesting limit; recursion with fan-out,
    # mutual recursion, recursion through an invocation inside a DCS string
    chain = b''.join(hexmacro(i, (b'<%d>' % i) + (E + b'[%d*z' % (i - 1) if i > 1 else b'\n')) for i in range(1, 7)) + E + b'[6*z'
    far = b'\n' * 30 + E + b'[2;20r' + E + b'[79C' + hexmacro(1, E + b'[8;1;1t' + E + b'[L' + E + b'[M' + E + b'[3@' + E + b'[ @' + E + b'[ A' + b'A' + E + b'[3b' + E + b'[4hBC' + E + b'M' + E + b'E') + E + b'[1*z' + E + b'[1*z'
    for emu in tg.ANSI_BASED:
        meta.append((emu, 0, 80, 25, KNOWN_INPUTS[0][2], ['macro-replay', 'macro-self']))
        meta.append((emu, 0, 80, 25, chain, ['macro-replay', 'macro-chain-6']))
        meta.append((emu, 0, 80, 25, far, ['macro-replay', 'macro-resize-far']))
        for b, name in DEEP_INPUTS:
            meta.append((emu, 0, 80, 25, b, ['macro-replay', name]))
    return meta

LEDGER = [(0, 0, E + b']8;;' + E + b'\\', 'osc8-empty'), (0, 0, E + b']4;;rgb:00/00/00' + E + b'\\', 'osc4-noindex'), (0, 0, E + b'[0;0r' + E + b'[M', 'neg-margin-DL'),
          (0, 0, E + b'[0;0r' + E + b'[L', 'neg-margin-IL'), (0, 0, b'\x0c' + E + b'[ @', 'scroll-left-unallocated'), (0, 0, b'\x0c' + E + b'[ A', 'scroll-right-unallocated'),
          (0, 0, b'\x0cAB' + E + b'[ @' + E + b'[ A', 'scroll-short-row'), (0, 1, E + b'[MO6B+\x0e', 'music-freq'), (0, 1, E + b'[MC2147483647.\x0e', 'music-len-dot'),
          (0, 1, E + b'[MC99999999D\x0e', 'music-tempo-len'), (0, 1, E + b'[ML2147483647.\x0e', 'music-setlen'), (0, 1, E + b'[MP2147483647.\x0e', 'music-pause'),
          (0, 0, b'\n' * 80 + E + b'[2147483647e', 'vpr-overflow'), (0, 0, b'\n' * 80 + E + b'[2147483647B', 'cud-overflow'), (0, 0, b'\n' * 80 + E + b'[2147483647d', 'vpa-overflow'),
          (0, 0, b'\n' * 80 + E + b'[2147483647H', 'cup-overflow'), (0, 0, b'\n' * 80 + E + b'[2147483647E', 'cnl-overflow'), (0, 0, b'A' * 60 + E + b'[2147483647a', 'hpr-overflow'),
          (0, 0, E + b'[1;2147483647r' + E + b'[M', 'huge-margin-DL'), (0, 0, E + b'[=0;0m' + E + b'[M' + E + b'[L' + E + b'[=2;0m' + E + b'[ @' + E + b'[ A', 'ssm-zero')]
# repaired in the merged tree by other properties' commits (09bc4f1 fill character, 952a970 .. 2141fac BitFont loaders): regression cases
LEDGER += [(0, 0, E + b'[55296;1;1;2;2$x', 'fill-surrogate'), (0, 0, E + b'PCTerm:Font:0:' + E + b'\\', 'font-short'),
           (1, 0, b'\x16\x08\xf0\xf0' + b'\x16\x08\0\0' + b'\x16\x08\x03\x02', 'avatar-goto')] + [(0, 0, b, n) for b, n in FONT_STREAMS]
# the former known class C01-stackoverflow:invoke_macro_by_id (repaired by 2513579: MAX_MACRO_NESTING): regression cases
KNOWN_INPUTS = [(0, 0, E + b'P1;0;1!z1B5B312A7A' + E + b'\\' + E + b'[1*z', 'macro-self')]
def macro_chain(n, leaf=b'A'):
    """macro 1 = leaf, macro k = `<k> ESC [ k-1 * z`: invoking macro n nests n deep"""
    return b''.join(hexmacro(i, leaf if i == 1 else (b'%d' % (i % 10)) + E + b'[%d*z' % (i - 1) + b'.') for i in range(1, n + 1))
DEEP_INPUTS = [(macro_chain(n) + E + b'[%d*z' % n + b'!' + E + b'[%d*z' % (n - 1), 'macro-chain-%d' % n) for n in (15, 16, 17, 18, 40)] + [
    (hexmacro(1, (b'a' + E + b'[1*z') * 4) + E + b'[1*z' + b'B', 'macro-self-fanout4'),                       # 4^16 replays if the error did not end the chain
    (E + b'P1;0;1!z!9;41' + (E + b'[1*z').hex().upper().encode() + b';' + E + b'\\' + E + b'[1*z', 'macro-self-repeat9'),
    (hexmacro(1, b'x' + E + b'[2*z' + b'X') + hexmacro(2, b'y' + E + b'[1*z' + b'Y') + E + b'[2*z' + E + b'[1*z', 'macro-mutual'),
    (hexmacro(1, b'x' + E + b'[2*z') + hexmacro(2, b'y' + E + b'[3*z') + hexmacro(3, E + b'[8;4;9t' + E + b'[1*z') + E + b'[1*z' + b'\n' + E + b'[3*z', 'macro-cycle-3'),
    (hexmacro(1, E + b'Pq' + E + b'[1*z' + b'r' + E + b'\\') + E + b'[1*z' + b'C' + E + b'\\' + b'D', 'macro-self-in-dcs'),   # the nested invocations are the ones inside a DCS string
    (hexmacro(1, b'AB') + hexmacro(2, E + b'[1*z' + E + b'[9*z' + E + b'[1*z') + E + b'[2*z', 'macro-unknown-id'),
    (hexmacro(1, E + b'[1*z') + E + b'[1*z' * 3 + E + b'c' + E + b'[1*z', 'macro-self-then-ris')]
LEDGER += KNOWN_INPUTS + [(0, 0, b, n) for b, n in DEEP_INPUTS]

def norm_impl(r):
    if r[0] == 'ok': return r[1]
    if r[0] == 'stackoverflow': return [-2]
    if r[0] in ('panic', 'abort'): return [-1]
    return [r[0]]

def norm_model(m):
    if m is None: return None
    if m[:1] == [-1]: return [-1]
    return m

def correspondence(ctx):
    n = ctx.n(160, 2500)
    meta = []
    for _ in range(n):
        emu = ctx.rng.choice(tg.MODELLED)
        w, h = ctx.rng.choice([(80, 25), (80, 25), (40, 24), (5, 3), (1, 1), (132, 60), (10, 4)]) if ctx.rng.random() < 0.8 else (ctx.rng.randint(1, 132), ctx.rng.randint(1, 60))
        if emu in (8, 9) and ctx.rng.random() < 0.6: w, h = 40, 24
        music = ctx.rng.choice([0, 1, 2, 3, 4, 5]) if emu == 0 else 0
        b, names = gen_stream(ctx.rng, emu, w, h, music)
        b = b[:ctx.rng.choice([40, 120, 250])]          # the Coq side evaluates these
        b = re.sub(rb'(\d{2,})( ?[bSTPLMYZ@Ak])', lambda m: b'7' + m.group(2), b)
        meta.append((emu, music, w, h, b, names))
    for emu, music, b, name in LEDGER:
        meta.append((emu, music, 80, 25, b, [name]))
    # directed: every font DCS token followed by every font selection (which slots hold a font afterwards), the DECFRA fill characters
    allsel = b''.join(b for _, b in FONTSEL_TOKENS)
    for name, b in FONT_TOKENS:
        meta.append((0, 0, 80, 25, b + allsel, [name, 'FONTSEL-*']))
    for _ in range(ctx.n(40, 400)):
        name, b = random_font_token(ctx.rng)
        meta.append((ctx.rng.choice([0, 1, 2, 3, 4]), 0, 80, 25, b + E + b'[0;77 D' + E + b'[0;43 D' + E + b'[0;99 D' + E + b'[0;9 D', [name]))
    meta.append((0, 0, 10, 4, b''.join(b for n, b in extra_tokens(0) if n.startswith('DECFRA')), ['DECFRA-*']))
    # the Avatar goto with every kind of position byte, as the LAST movement of the stream (only the final cursor is observed here)
    for w, h in ((80, 25), (5, 3), (132, 60)):
        for name, b in tg.emu_tokens(1, w, h):
            if name.startswith('avt-goto'):
                meta.append((1, 0, w, h, b'AB\n' + b, [name]))
    cases = ['c01run %d %d %d %d %s' % (e, mu, w, h, tg.hx(b)) for e, mu, w, h, b, _ in meta]
    exprs = ['run_c01 %d %d %d %d %s' % (e, mu, w, h, zl(b)) for e, mu, w, h, b, _ in meta]
    impl = ctx.impl(cases, per_case_timeout=30)
    model = ctx.model(MODEL_IMPORTS, exprs, timeout=900)
    dis = []; nontriv = set(); classes = {}
    for c, r, m, me in zip(cases, impl, model, meta):
        a, mm = norm_impl(r), norm_model(m)
        if r[0] == 'panic' and 'library/std/src/thread' in r[1]:
            continue      # sandbox thread limit
        cls = 'ok' if r[0] == 'ok' and r[1][1] == 0 else 'ok-with-errors' if r[0] == 'ok' else r[0]
        classes[cls] = classes.get(cls, 0) + 1
        if a != mm:
            dis.append({'case': c, 'impl': list(r) if r[0] != 'ok' else r[1], 'model': m, 'tokens': me[5][:20]})
        elif r[0] == 'ok' and (r[1][1] > 0 or r[1][3] or r[1][4]):
            nontriv.add(c)
    merr = getattr(ctx, 'model_errors', [])[:2]
    # the area of the extension: observation after EVERY character
    tmeta = term_cases(ctx)
    tcases = ['term %d %d %d %d %s' % (e, mu, w, h, tg.hx(b)) for e, mu, w, h, b, _ in tmeta]
    texprs = [('run_term_pet %d %d %s' % (w, h, zl(b))) if e == 6 else ('run_term %d %d %d %d %s' % (e, mu, w, h, zl(b))) for e, mu, w, h, b, _ in tmeta]
    timpl = ctx.impl(tcases, per_case_timeout=30)
    tmodel = ctx.model(MODEL_IMPORTS, texprs, timeout=900)
    area = {}
    for c, r, m, me in zip(tcases, timpl, tmodel, tmeta):
        if r[0] == 'panic' and 'library/std/src/thread' in r[1]:
            continue
        lab = me[5][0].split('-')[0] if me[0] == 6 else me[5][0]
        area[lab] = area.get(lab, 0) + 1
        cls = r[0] if r[0] != 'ok' else 'ok'
        classes['percharacter-' + cls] = classes.get('percharacter-' + cls, 0) + 1
        if r[0] == 'ok':
            agree = (m == r[1])
        else:
            agree = False
        if not agree:
            k = next((i for i in range(min(len(r[1]), len(m))) if r[1][i] != m[i]), min(len(r[1]), len(m))) if (r[0] == 'ok' and m) else 0
            dis.append({'case': c, 'first_difference_at_char': k // 18, 'impl': r[1][k - k % 18:k - k % 18 + 18] if r[0] == 'ok' else list(r),
                        'model': None if m is None else m[k - k % 18:k - k % 18 + 18], 'tokens': me[5][:30]})
        elif r[0] == 'ok' and len(r[1]) > 40:
            nontriv.add(c)
    return {'cases': len(cases) + len(tcases), 'disagreements': dis, 'distinct_nontrivial': len(nontriv),
            'distribution': {'outcome_classes': classes, 'extension_area_streams': area, 'model_errors': (merr + getattr(ctx, 'model_errors', [])[:2])[:2],
                             'observation': 'n_actions n_errors first_error_index cx cy bw bh tw th nlines | panic; extension area: the 18-tuple of C09 after every character'},
            'samples': [cases[0][:300], cases[-1][:300], tcases[0][:300]]}

# ---- search --------------------------------------------------------------------------------------------------------------
_src_cache = {}
def enclosing_fn(repo, loc):
    """file:line of a panic -> name of the enclosing fn (stable under line shifts)"""
    m = re.match(r'(.*?):(\d+)$', loc.strip())
    if not m: return 'unknown'
    path, line = m.group(1), int(m.group(2))
    if not os.path.isabs(path): path = os.path.join(repo, path)
    if not path.startswith(repo): return os.path.basename(path)
    if path not in _src_cache:
        try:
            with open(path, errors='replace') as f: _src_cache[path] = f.readlines()
        except OSError:
            return os.path.basename(path)
    lines = _src_cache[path]
    for i in range(min(line, len(lines)) - 1, -1, -1):
        mm = re.match(r'\s*(?:pub(?:\([a-z]+\))?\s+)?(?:unsafe\s+)?fn\s+([A-Za-z0-9_]+)', lines[i])
        if mm: return mm.group(1)
    return os.path.basename(path)

ABORT_BISECTIONS = 25      # each costs ~log2(len) worker runs; a broken tree produces thousands of aborting streams
def classify(ctx, case, r, budget=None):
    """signature of a crash"""
    hexs = case.split()[5]
    b = b'' if hexs == '-' else bytes.fromhex(hexs)
    if r[0] == 'panic':
        if 'library/std/src/thread' in r[1]:
            return None      # thread::spawn refused by the worker's address-space limit (sixel decode threads): an artefact of the sandbox, not of the stream
        fn = enclosing_fn(ctx.repo, r[1])
        return 'C01-panic:' + fn
    if r[0] == 'abort':
        if budget is not None:
            if budget[0] <= 0:      # not located: named after the only construct known to abort, if the stream contains it
                return 'C01-abort:fill_rectangular_area' if re.search(rb'\$x', b) else 'C01-abort:unlocated'
            budget[0] -= 1
        # no location survives an abort: find the shortest crashing prefix and look at the sequence that ends it
        lo, hi = 0, len(b)
        head = ' '.join(case.split()[:5])
        while lo + 1 < hi:
            mid = (lo + hi) // 2
            rr = ctx.impl(['%s %s' % (head, tg.hx(b[:mid]))], per_case_timeout=30)[0]
            if rr[0] == 'abort': hi = mid
            else: lo = mid
        pre = b[:hi]
        if re.search(rb'\$x$', pre): return 'C01-abort:fill_rectangular_area'
        return 'C01-abort:after-' + pre[-12:].hex()
    if r[0] == 'stackoverflow':
        return 'C01-stackoverflow:invoke_macro_by_id' if b'*z' in b else 'C01-stackoverflow:unknown'
    return 'C01-%s' % r[0]

def search(ctx, broken):
    cases = []; meta = []
    for bk in broken:
        d = bk.get('detail') or {}
        c = str(d.get('case', '')) if isinstance(d, dict) else ''
        if c.startswith('c01run '):
            cases.append(c); meta.append('disagreed')
    for emu, music, b, name in LEDGER:
        for (w, h) in [(80, 25), (3, 2)]:
            cases.append('c01run %d %d %d %d %s' % (emu, music, w, h, tg.hx(b))); meta.append('ledger:' + name)
    for b, name in [(KNOWN_INPUTS[0][2], 'macro-self')] + DEEP_INPUTS:      # the repaired recursion through the four wrappers as well
        for emu in tg.ANSI_BASED[1:]:
            cases.append('c01run %d 0 80 25 %s' % (emu, tg.hx(b))); meta.append('ledger:' + name)
    n = min(ctx.n(3000, 25000), 25000)
    for i in range(n):
        emu = ctx.rng.choice([0, 0, 0, 0, 1, 2, 3, 4, 5, 6, 7, 8, 9])
        w, h = ctx.rng.choice([(80, 25), (80, 25), (40, 24), (5, 3), (1, 1), (132, 60), (2, 60), (132, 1)]) if ctx.rng.random() < 0.7 else (ctx.rng.randint(1, 132), ctx.rng.randint(1, 60))
        music = ctx.rng.choice([0, 1, 2, 3, 4, 7]) if emu == 0 else 0
        b, names = gen_stream(ctx.rng, emu, w, h, music)
        cases.append('c01run %d %d %d %d %s' % (emu, music, w, h, tg.hx(b))); meta.append('random')
    # every emulation x every byte pair after three prefixes (character-level exhaustive, depth 2 over the hot bytes)
    hot = sorted(set(b'\x00\x01\x07\x08\x09\x0a\x0c\x0d\x0e\x16\x19\x1b !#$*+-.0159;<=>?@ABCDHLMNPSTXYZ[\\]_bcdhlmnpqrstuxyz|~\x7f\x80\x9b\x9c\x9d\xfd\xff'))
    for emu in range(10):
        for pre in ([b'', E + b'[', E + b'[1;', E + b'P', E + b']', b'\n' * 30 + E + b'[?'] if emu in tg.ANSI_BASED else [b'', b'\x1b', b'A' * 50]):
            for a in hot:
                body = b''.join(pre + bytes([a, c]) + b'\x1b\\' for c in hot)
                cases.append('c01run %d %d 80 25 %s' % (emu, 3 if emu == 0 else 0, tg.hx(body))); meta.append('pairs')
    impl = ctx.impl(cases, per_case_timeout=10)
    failures = []; nontriv = 0; classes = {}
    budget = [ABORT_BISECTIONS]
    for c, r, me in sorted(zip(cases, impl, meta), key=lambda x: len(x[0])):      # shortest streams first: they get the bisections
        classes[r[0]] = classes.get(r[0], 0) + 1
        if r[0] == 'ok':
            if r[1][1] > 0 or r[1][3] or r[1][4]: nontriv += 1
            continue
        sig = classify(ctx, c, r, budget)
        if sig is None:
            classes['sandbox-thread-limit'] = classes.get('sandbox-thread-limit', 0) + 1
            continue
        failures.append({'signature': sig, 'input': c, 'impl': list(r), 'expected': 'an action or an error value for every character',
                         'detail': 'emulation %s, %s' % (tg.EMU_NAMES[int(c.split()[1])], me)})
    failures.sort(key=lambda f: len(str(f['input'])))
    return {'cases': len(cases), 'failures': failures, 'distinct_nontrivial': nontriv, 'outcome_classes': classes,
            'samples': [cases[0][:200], cases[-1][:200]]}

def replay(ctx, body):
    from vlib import driver
    inp = body.get('input')
    print('replay', ID, inp)
    driver.stage_build()
    r = ctx.impl([inp], per_case_timeout=30)[0]
    print('implementation (n_ok n_err first_err cx cy bw bh tw th nlines):', r)
    if r[0] != 'ok': print('signature:', classify(ctx, inp, r))
    p = inp.split()
    if int(p[1]) != 6:
        b = b'' if p[5] == '-' else bytes.fromhex(p[5])
        if len(b) <= 1500:
            m = ctx.model(MODEL_IMPORTS, ['run_c01 %s %s %s %s %s' % (p[1], p[2], p[3], p[4], zl(b))])
            print('model:', m[0])
    return 0 if r[0] == 'ok' else 1

LEVEL_TEXT = ('Machine-checked (Coq, closed under the global context) for ALL TEN emulations, streams of any length, screens 1..=132 x 1..=60: '
              '(a) c01_standalone: ASCII, ATASCII, Viewdata, Mode 7 - every stream ends in a state (every character an action or an error value); '
              '(b) c01_petscii: the same for PETSCII (Model/Petscii.v: print_char, handle_c128_escapes, handle_reverse_mode with the u8 overflow as an explicit site, update_shift_mode); '
              '(c) c01_wrappers / c01_wrappers_no_panic: the ANSI parser and its Avatar, PCBoard, Ctrl-A and Renegade wrappers - every stream ends in a state, '
              'with no side condition on text-area resizes or stored macros: the proof runs on a weak invariant W '
              '(sizes >= 1, origin mode never WithinMargins, margins 0 <= a <= b, tab stops >= 0, cursor coordinates >= 0) that survives CSI 8;h;w t and is kept by macro replay (induction on the nesting budget); '
              '(d) c01_ansi_char: one character of ansi::Parser::print_char in EVERY EngineState, any macro table, any value of the nesting counter, on any W state: action or error value on a W state; '
              'c01_every_stream_ends / c01_no_emulation_panics put (a)-(c) into one statement: every stream of every emulation yields actions and error values only, no exception. '
              'Macro invocations nest at most MAX_MACRO_NESTING = 16 deep (fix 2513579; the constant is read from the source by the translator, which also pins the counter discipline of invoke_macro_by_id): the model\'s recursion budget IS that counter, '
              'a deeper invocation is the error value MacroNestingTooDeep that ends the whole chain of replays. macro_limit_only_cuts: an outcome that is not that error is the same for every larger limit (= the code before the fix); '
              'macro_recursion_reaches_every_limit: the former known input nests to every limit (the old stack overflow, as a statement about the same model). core_ops_never_panic and the earlier *_partial theorems are kept. '
              'No known crash class is left. Ten fix: commits remove the panics of the ledger (OSC 8, OSC 4, margin validation, SL/SR, music index, music arithmetic, cursor-motion overflow, macro nesting limit; DECFRA fill character by C10, BitFont loaders by C17).')
LEVEL_NOTE = ('Trusted: Coq kernel + vm_compute; hand models tied to the Rust code by per-stream outcome comparison and per-character state comparison (stage C; via C09 for resize-free streams, '
              'in C01 for post-resize states, macro replay and PETSCII); the base64 decoder model (external crate) tied by stage C; worker classification of aborts/stack overflows/timeouts. '
              'Row counters are unbounded in the model (2^31 rows are the resource domain of C03). Resource bounds (time, memory) are C03, not C01.')
TECHNIQUE = ('Coq proof: a weak invariant W preserved by every operation of the terminal core and sufficient for every res-valued operation to return a state; case analysis of every parser state '
             'with the macro invoker abstracted (astep_gen_np), induction on the nesting budget (= MAX_MACRO_NESTING minus the counter of the code) for macro replay, monotonicity of the outcome in the budget, '
             'totality of the font loader model, induction over streams; differential outcome classes and per-character observations; crash search with signatures by enclosing function')
