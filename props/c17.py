"""C17 — bitmap and TheDraw fonts survive every encoding the engine uses (DESIGN.md section 7, C17)."""
import os, json, base64

ID = 'C17'
GENERATORS = ['gen_font']
COQ_TARGETS = ['Props/C17.vo', 'Run/RunC17.vo']
PROPS_MODULE = 'Props.C17'
THEOREMS = ['psf2_roundtrip', 'psf2_roundtrip_general', 'psf2_partial_roundtrip', 'pad_font_complete', 'raw_roundtrip',
            'raw_partial_roundtrip', 'wf_font_256_is_raw', 'dcs_roundtrip',
            'dcs_magic_collision_refuted', 'known_1_witness', 'xbin_embed_roundtrip', 'adf_idf_embed_roundtrip',
            'icydraw_embed_roundtrip', 'from_bytes_total', 'dcs_total', 'loaded_font_dims', 'dcs_font_dims',
            'psf2_dims_before_fix_refuted', 'to_psf2_bytes_total', 'convert_to_u8_data_total',
            'writers_negative_height_refuted', 'create_8_rows',
            'tdf_roundtrip', 'tdf_single_roundtrip', 'tdf_writer_overflow_is_error', 'from_tdf_total']
SWEEP_LEMMAS = []
TRUSTED = ['Coq 8.16.1 kernel + vm_compute (model evaluation in stage C); no axioms (Print Assumptions: closed)',
           'translator/gen_font.py: extraction of the named constants of src/fonts.rs and src/tdf_font/mod.rs',
           'hand-written models Model/Font.v and Model/Tdf.v, tied to the code by differential execution (stage C)',
           'base64 (crate `base64`, STANDARD engine): oracle; the theorems assume only b64_dec (b64_enc x) = Some x; the real crate is exercised in stages C and S',
           'String::from_utf8_lossy: oracle; the TDF theorems assume only that it is the identity on valid UTF-8 (utf8_valid is tied to core::str::from_utf8 in stage C)',
           'harness/src/c17.rs and the python reference TDF reader/writer used by the search stage']
UNMODELLED = ['collection of the DCS string by the ANSI parser state machine (ESC P … ESC \\): exercised through the real parser in stages C and S, proved nowhere (C01/C09 territory)',
              'the container around the font slots: XBin/ADF/IDF headers, palette and picture data, IcyDraw PNG/zTXt chunks and their base64 (C05/C07); the slot encoders/decoders themselves are modelled, the whole files are exercised in stages C and S',
              'BitFont name, path, font_type, checksum (calculate_checksum) and guess_font_name; TheDrawFont::render / transform_outline',
              'BitFont::load / TheDrawFont::load (file system)']
ASSUMPTIONS = ['byte strings are shorter than 2^31 bytes (usize -> i32 casts of lengths and heights are exact); usize is 64 bit',
               'b64_dec (b64_enc x) = Some x for the base64 engine (hypothesis of dcs_roundtrip)',
               'from_utf8_lossy s = s for valid UTF-8 s (hypothesis of tdf_roundtrip)',
               'the glyph map of a BitFont is a table indexed by code 0, 1, 2, … (what every constructor of the crate builds); char::from_u32 is None exactly on 0xD800..=0xDFFF and above 0x10FFFF (is_char; the lower boundary is exercised in stage C, the theorems only use codes below MAX_GLYPHS = 0xD800)']
RULE = ('bitmap fonts: width 8, height 1..32 (biased to 1, 8, 14, 16, 32), 256 or 512 glyphs, glyph rows random / constant / bit patterns, '
        'plus every built-in font page 0..=42 and every SAUCE font read from the data files named in the fonts!/sauce_fonts! macros; '
        'encoders are also run on fonts with glyphs missing at the end of the table or more glyphs than `length` (expected: padded / cut to `length` with empty glyphs, incl. a table reaching code 0xD800), on ill-formed fonts (wrong row count, length <= 0, width != 8, negative height); decoders on the encodings, '
        'on truncations / header-field mutations / byte corruptions of valid PSF1, PSF2 and raw files and on short inputs, on 20 files with a glyph size outside 1..8 x 1..32 or charsize != height (must be refused) and 7 at the boundary (must load); every loaded font is checked for its size and rows per glyph; '
        'TheDraw fonts: all three types, 0..94 defined glyphs of 1..30 x 1..12, names of 0..12 bytes (ASCII and multi-byte UTF-8), spaces 0..40, bundles of 1..34 fonts, '
        'plus ill-formed ones (name too long, NUL in name, spaces out of range, > 65535 bytes of glyph data) and truncations / corruptions of the files; '
        'a case is non-trivial when the decoded font has at least one glyph / the outcome is not an immediate length error; distinct = distinct inputs')

ERR_CODE = {'UnsupportedVersion': 3, 'LengthMismatch': 4, 'UnknownFontFormat': 5, 'UnsupportedSize': 6,
            'FileTooShort': 11, 'IdMismatch': 12, 'NameTooLong': 13, 'UnsupportedTtfType': 14, 'DataOverflow': 15,
            'GlyphOutsideFontDataSize': 16, 'LetterSpaceTooMuch': 17, 'IdLengthMismatch': 18, 'FontIndicatorMismatch': 19}
IMPORTS = 'From IE Require Import Lib.C17Lib Model.Font Model.Tdf Run.RunC17.\nLocal Open Scope N_scope.'
KNOWN_DCS = 'C17-dcs-magic-collision'

def budget(ctx, quick, esc, thorough):
    """three budgets: quick tier; escalated run (a stage broke or a modelled function drifted from its anchor hash:
    bigger than quick, but the whole run has to stay under ~6 minutes); thorough tier"""
    if ctx.thorough: return thorough
    return esc if ctx.escalated else quick

def hexs(bs):
    return ''.join('%02x' % b for b in bs) or '-'

def unhex(h):
    return b'' if h == '-' else bytes.fromhex(h)

def clist(bs):
    return '[' + ';'.join(str(b) for b in bs) + ']'

def zlit(z):
    return '%d%%Z' % z if z >= 0 else '(%d)%%Z' % z

# ------------------------------------------------------------------------------------------------ bitmap fonts
class Font:
    """w, h, length: ints; glyphs: list of bytes objects (codes 0..n-1)"""
    def __init__(self, w, h, length, glyphs):
        self.w, self.h, self.length, self.glyphs = w, h, length, glyphs
    def spec(self):
        gh = len(self.glyphs[0]) if self.glyphs else 0
        assert all(len(g) == gh for g in self.glyphs)
        return '%d %d %d %d %d %s' % (self.w, self.h, self.length, len(self.glyphs), gh, hexs(b''.join(self.glyphs)))
    def coq(self):
        return '(mkFont %s %s %s [%s])' % (zlit(self.w), zlit(self.h), zlit(self.length), ';'.join(clist(g) for g in self.glyphs))
    def obs(self):
        v = [self.w, self.h, self.length, len(self.glyphs)]
        for i, g in enumerate(self.glyphs):
            v += [i, len(g)] + list(g)
        return v
    def raw(self):
        return b''.join(self.glyphs)
    def key(self):
        return (self.w, self.h, self.length, tuple(self.glyphs))

def font_of_obs(v):
    """inverse of the font observation (None when the glyph codes are not 0..n-1)"""
    w, h, length, n = v[:4]
    p = 4; gl = []
    for i in range(n):
        if v[p] != i: return None
        rows = v[p + 1]
        gl.append(bytes(v[p + 2:p + 2 + rows])); p += 2 + rows
    return Font(w, h, length, gl)

def rand_rows(rng, h):
    m = rng.random()
    if m < 0.55: return bytes(rng.randrange(256) for _ in range(h))
    if m < 0.7: return bytes([rng.choice([0, 255, 0x55, 0xaa, 0x36, 0x04, 0x72, 0x1b])] * h)
    if m < 0.85: return bytes((1 << rng.randrange(8)) for _ in range(h))
    return bytes(rng.choice([0, 0, 0, 255]) for _ in range(h))

def gen_wf_font(rng, big_ok=True, length=None):
    r = rng.random()
    if r < 0.45: h = rng.choice([1, 2, 8, 14, 16, 19, 32] if big_ok else [1, 2, 3, 8])
    else: h = rng.randint(1, 32 if big_ok else 6)
    if length is None: length = 512 if rng.random() < 0.25 else 256
    return Font(8, h, length, [rand_rows(rng, h) for _ in range(length)])

def avoid_magic(f):
    """the DCS / plain-file path sniffs the first bytes: keep generated fonts away from the PSF magics"""
    r = f.raw()
    if r[:2] == b'\x36\x04' or r[:4] == b'\x72\xb5\x4a\x86':
        g0 = bytes([r[0] ^ 1]) + f.glyphs[0][1:]
        return Font(f.w, f.h, f.length, [g0] + f.glyphs[1:])
    return f

def sniffs_as_psf(raw):
    return raw[:2] == b'\x36\x04' or raw[:4] == b'\x72\xb5\x4a\x86'

def gen_odd_font(rng):
    """ill-formed fonts for the encoders: missing glyphs, wrong row count, odd length / width / height"""
    h = rng.choice([0, 1, 2, 3, 8])
    gh = h if rng.random() < 0.6 else rng.choice([0, 1, 2, 5])
    length = rng.choice([0, 1, 2, 5, 16, 256, -1, -7])
    n = max(0, min(300, (length if length > 0 else 3) + rng.choice([0, 0, -1, -2, 1, 3])))
    w = rng.choice([8, 8, 0, 6, 9, 16, -1, 70000])
    hh = h if rng.random() < 0.8 else rng.choice([-1, -3, 300, 70000])
    return Font(w, hh, length, [bytes(rng.randrange(256) for _ in range(gh)) for _ in range(n)])

def pad_font(f):
    """what the writers emit since /repo c9c7437: exactly `length` glyphs, a missing one is `height` zero bytes"""
    n = max(f.length, 0)
    return Font(f.w, f.h, f.length, [f.glyphs[i] if i < len(f.glyphs) else bytes(f.h) for i in range(n)])

def gen_partial_font(rng):
    """well-formed dimensions, but glyphs missing at the end of the table (or more glyphs than `length`)"""
    h = rng.choice([1, 2, 8, 14, 16, rng.randint(1, 32)])
    length = rng.choice([256, 256, 512, 1, 2, 5, 100, 300])
    k = rng.random()
    if k < 0.15: n = 0
    elif k < 0.7: n = rng.randrange(0, length + 1)
    elif k < 0.85: n = length - 1
    else: n = length + rng.randint(1, 4)
    return Font(8, h, length, [rand_rows(rng, h) for _ in range(n)])

# the inputs on which the model of the C17 branch (unwrap of a missing glyph: panic) and the merged code (empty glyph)
# disagreed; kept as regression cases of both stages
PARTIAL_REGRESSION = [Font(0, 1, 5, [b'\x81', b'\x1d', b'\x60']), Font(6, 1, 5, [b'\x48', b'\x16', b'\x82']), Font(8, 2, 1, []),
                      Font(8, 1, 3, [b'\x01', b'\x02', b'\x03', b'\x04'])]
# fix fB: fonts the PSF2 writer still writes but the loader refuses now (width / height outside 1..=8 x 1..=32)
DIM_REGRESSION = [Font(0, 1, 5, [b'\x81', b'\x1d', b'\x60']), Font(9, 1, 2, [b'\x01', b'\x02']), Font(8, 33, 1, [bytes(33)]), Font(8, 0, 0, []),
                  Font(1 << 30, 16, 0, []), Font(8, 1 << 30, 0, []), Font(-1, -1, 0, []), Font(8, 300, 1, [bytes(300)])]
# stage C only: rows shorter than the height; the witness of Props.C17.writers_negative_height_refuted (the one panic the
# writers have left: `vec![0; height as usize]` for a missing glyph of a font with a negative height)
ODD_REGRESSION = [Font(8, 300, 5, [bytes([40 + i] * 5) for i in range(3)]), Font(8, -1, 1, [])]
# a table that reaches the first code that is not a char (0xD800): written as an empty glyph, no abort
def surrogate_font(length=0xD801, n=0xD800):
    return Font(8, 1, length, [bytes([i & 255]) for i in range(n)])

def le32(v): return bytes([(v >> (8 * i)) & 255 for i in range(4)])

def ref_psf2(f):
    """PSF2 file for font f written from the format description (reference, independent of model and code)"""
    return (le32(0x864ab572) + le32(0) + le32(32) + le32(0) + le32(f.length) + le32(f.h) + le32(f.h) + le32(f.w)
            + b''.join(f.glyphs[:f.length]))

def gen_malformed_font_files(rng, n):
    out = []
    specials = [0, 1, 2, 3, 4, 31, 32, 33, 255, 256, 257, 511, 512, 0xD7FF, 0xD800, 0xD801, 0xFFFF, 0x10000, 0x7FFFFFFF,
                0x80000000, 0xFFFFFFFF]
    for i in range(n):
        k = rng.random()
        h = rng.choice([1, 2, 3, 4])
        cnt = rng.choice([1, 2, 3, 256]) if k < 0.5 else rng.choice([4, 16, 256])
        body = bytes(rng.randrange(256) for _ in range(h * cnt))
        if k < 0.40:        # PSF2 with mutated header fields / truncation / extension
            hdr = [0x864ab572, 0, 32, 0, cnt, h, h, 8]
            for _ in range(rng.choice([0, 1, 1, 2])):
                j = rng.randrange(1, 8)
                hdr[j] = rng.choice(specials + [hdr[j] + 1, max(0, hdr[j] - 1), len(body), len(body) + 32])
            b = b''.join(le32(x) for x in hdr) + body
            m = rng.random()
            if m < 0.3: b = b[:rng.randrange(len(b) + 1)]
            elif m < 0.4: b = b + bytes(rng.randrange(1, 5))
            elif m < 0.5:
                # make the length equation hold for the mutated header when possible
                want = hdr[4] * hdr[5] + hdr[2]
                if 0 <= want <= 4096: b = (b + bytes(4096))[:want] if want >= 32 else b
        elif k < 0.65:      # PSF1
            mode = rng.choice([0, 1, 2, 3, 255]); cs = rng.choice([0, 0, 1, 2, 3, h, 255, 32, 33])
            b = bytes([0x36, 0x04, mode, cs]) + body
            if rng.random() < 0.5: b = b[:rng.randrange(len(b) + 1)]
        elif k < 0.85:      # raw
            b = bytes(rng.randrange(256) for _ in range(rng.choice([0, 1, 2, 3, 4, 5, 255, 256, 257, 512, 768, 1024, 1000, 1000, 31 * 256, 32 * 256, 33 * 256, 34 * 256])))
            if rng.random() < 0.3 and len(b) >= 4: b = rng.choice([b'\x36\x04', b'\x72\xb5\x4a\x86', b'\x72\xb5', b'\x36']) + b[4:]
        else:               # short
            ln = rng.randrange(0, 40)
            b = bytes(rng.randrange(256) for _ in range(ln))
            if rng.random() < 0.6: b = (rng.choice([b'\x36\x04', b'\x72\xb5\x4a\x86']) + b)[:ln]
        out.append(b)
    return out

REGRESSION_FILES = [b'', b'\x00', b'\x36\x04', b'\x36\x04\x00', b'\x36\x04\x00\x00', b'\x36\x04\x00\x00\x01', b'\x36\x04\x00\x02\x01',
                    b'\x36\x04\x00\x02\x01\x02\x03', b'\x72\xb5\x4a\x86', b'\x72\xb5\x4a\x86' + bytes(20),
                    b'\x72\xb5\x4a\x86' + le32(0) + le32(32) + le32(0) + le32(2) + le32(2) + le32(0) + le32(8) + b'\x01\x02\x03\x04',
                    b'\x72\xb5\x4a\x86' + le32(0) + le32(32) + le32(0) + le32(2) + le32(2) + le32(3) + le32(8) + b'\x01\x02\x03\x04',
                    b'\x72\xb5\x4a\x86' + le32(0) + le32(64) + le32(0) + le32(0xFFFFFFFF) + le32(32) + le32(3) + le32(8),
                    b'\x72\xb5\x4a\x86' + le32(0) + le32(32) + le32(0) + le32(0x7FFFFFFF) + le32(0) + le32(0) + le32(8),
                    b'\x72\xb5\x4a\x86' + le32(1) + le32(32) + le32(0) + le32(0) + le32(0) + le32(0) + le32(8)]
# fix fB (finding C02-sixel-font0): glyph sizes the loaders refuse since - a bare PSF2 header (length 0, charsize 0) with width /
# height 0, 2^30, 2^32-1, 9, 33; a PSF1 header with charsize 0 / 33; raw data of 33 rows; a good size with charsize != height
def psf2_header(h, w, length=0, charsize=0):
    return b'\x72\xb5\x4a\x86' + le32(0) + le32(32) + le32(0) + le32(length) + le32(charsize) + le32(h) + le32(w)
DEGENERATE_FILES = [psf2_header(16, 0), psf2_header(0, 8), psf2_header(16, 1 << 30), psf2_header(1 << 30, 8), psf2_header(0xFFFFFFFF, 0xFFFFFFFF),
                    psf2_header(0, 0), psf2_header(16, 9), psf2_header(33, 8), psf2_header(0x80000000, 0x80000000),
                    psf2_header(33, 8, 1, 33) + bytes(33), psf2_header(16, 9, 1, 32) + bytes(32), psf2_header(16, 16, 1, 32) + bytes(32),
                    psf2_header(16, 8, 1, 32) + bytes(32), psf2_header(16, 8, 2, 8) + bytes(16), psf2_header(16, 8),
                    b'\x36\x04\x00\x00', b'\x36\x04\x01\x00' + bytes(7), b'\x36\x04\x00\x21' + bytes(33 * 256), bytes(33 * 256), bytes(255 * 256)]
# ... and the sizes at the boundary that still load (1x1, 8x32, 1x32; PSF1 charsize 32; raw 32 rows)
BOUNDARY_FILES = [psf2_header(1, 1, 2, 1) + b'\x80\x00', psf2_header(32, 8, 1, 32) + bytes(range(32)), psf2_header(32, 1, 1, 32) + bytes(32),
                  b'\x36\x04\x00\x20' + bytes(32 * 256), b'\x36\x04\x00\x01\x05', bytes([1]) * (32 * 256), bytes([1]) * 256]
MAX_FONT_WIDTH, MAX_FONT_HEIGHT = 8, 32      # the plug-in's own copy of the bound (the Coq side reads the constants from the source)
def dims_ok(w, h):
    return 1 <= w <= MAX_FONT_WIDTH and 1 <= h <= MAX_FONT_HEIGHT

# more than 0xD800 glyphs (abort on the pinned tree)
BIG_FILES = [b'\x36\x04\x00\x01' + bytes(i & 255 for i in range(0xD800 + 5)),
             b'\x72\xb5\x4a\x86' + le32(0) + le32(32) + le32(0) + le32(0xD801) + le32(1) + le32(1) + le32(8) + bytes(0xD801),
             b'\x72\xb5\x4a\x86' + le32(0) + le32(32) + le32(0) + le32(0xD800) + le32(1) + le32(1) + le32(8) + bytes(i & 255 for i in range(0xD800))]

def builtin_files(ctx):
    from translator import gen_font
    out = []
    for kind, key, file, name in gen_font.builtin_fonts(ctx.repo):
        with open(os.path.join(ctx.repo, 'data/fonts', file), 'rb') as f:
            out.append((kind, key, file, f.read()))
    return out

# ------------------------------------------------------------------------------------------------ DCS
def b64_strict(payload):
    """STANDARD engine: canonical alphabet, padding required, no trailing bits; None = decode error"""
    try:
        s = bytes(payload)
        d = base64.b64decode(s, validate=True)
        return d if base64.b64encode(d) == s else None
    except Exception:
        return None

def dcs_payload(s):
    """what load_custom_font hands to base64 (None when it never gets there)"""
    p = b'CTerm:Font:'
    if not s.startswith(p): return None
    rest = s[len(p):]
    i = rest.find(b':')
    return None if i < 0 else rest[i + 1:]

def gen_dcs_strings(rng, n, small_fonts):
    out = []
    for i in range(n):
        f = rng.choice(small_fonts)
        raw = f.raw()
        k = rng.random()
        slot = rng.choice([1, 2, 3, 7, 42, 255, 256, 65535, 4000000000, 2 ** 63 - 1])
        num = str(slot).encode()
        pay = base64.b64encode(raw)
        if k < 0.35: pass
        elif k < 0.45: num = rng.choice([b'', b'+', b'+5', b'-1', b'1a', b' 1', b'007', b'18446744073709551616', b'99999999999999999999999'])
        elif k < 0.55: pay = pay[:rng.randrange(len(pay) + 1)]
        elif k < 0.62: pay = pay[:5] + rng.choice([b'!', b':', b' ', b'\x80', b'=']) + pay[5:]
        elif k < 0.72:
            raw2 = rng.choice([b'', b'\x00', b'\x36\x04', b'\x36\x04\x00', b'\x36\x04\x00\x00\x01', b'\x72\xb5\x4a\x86', raw[:255], raw[:257], raw + b'\x00'])
            pay = base64.b64encode(raw2)
        elif k < 0.80:
            f2 = Font(8, f.h, f.length, f.glyphs[:]); pay = base64.b64encode(ref_psf2(f2))
        elif k < 0.88:
            g0 = rng.choice([b'\x36\x04', b'\x72\xb5\x4a\x86'])
            raw2 = (g0 + raw[len(g0):]); pay = base64.b64encode(raw2)
        s = b'CTerm:Font:' + num + b':' + pay
        if 0.88 <= k < 0.94: s = rng.choice([b'CTerm:Font:', b'CTerm:Font:1', b'CTerm:Font', b'CTerm:Font:3:', b'CTerm:Fonts:1:AAAA', b'CTerm:Font::AAAA'])
        s = s.replace(b'\x1b', b'')
        try: sl = int(num) if num and not num.startswith(b'-') else 9
        except ValueError: sl = 9
        out.append((sl if 0 < sl < 2 ** 63 else 9, s))
    return out

# ------------------------------------------------------------------------------------------------ TheDraw fonts
class TFont:
    """name: bytes; type 0/1/2; spaces: int; glyphs: dict index -> (w, h, data bytes)"""
    def __init__(self, name, type_, spaces, glyphs):
        self.name, self.type, self.spaces, self.glyphs = name, type_, spaces, glyphs
    def spec(self):
        s = '%s %d %d %d' % (hexs(self.name), self.type, self.spaces, len(self.glyphs))
        for i in sorted(self.glyphs):
            w, h, d = self.glyphs[i]
            s += ' %d %d %d %s' % (i, w, h, hexs(d))
        return s
    def coq(self):
        tbl = []
        for i in range(94):
            if i in self.glyphs:
                w, h, d = self.glyphs[i]
                tbl.append('Some (mkGlyph %s %s %s)' % (zlit(w), zlit(h), clist(d)))
            else: tbl.append('None')
        return '(mkTFont %s %s %s [%s])' % (clist(self.name), ['Outline', 'Block', 'Color'][self.type], zlit(self.spaces), ';'.join(tbl))
    def key(self):
        return (self.name, self.type, self.spaces, tuple(sorted(self.glyphs.items())))

def tfonts_spec(fs):
    return '%d %s' % (len(fs), ' '.join(f.spec() for f in fs))

def gen_glyph_data(rng, type_, w, h, wf=True):
    d = bytearray()
    for y in range(h):
        for x in range(rng.randint(0, w) if rng.random() < 0.3 else w):
            ch = rng.choice([32, 65, 79, 64, 0xDB, 0xDC, 0xDF, 0xF7, 1, 255, 14]) if rng.random() < 0.7 else rng.randrange(1, 256)
            if type_ == 2:
                if ch == 13: ch = 14
                d += bytes([ch, rng.choice([0, 7, 0x1f, 13, 255]) if rng.random() < 0.5 else rng.randrange(256)])
            else:
                d.append(ch)
        if y + 1 < h or rng.random() < 0.3: d.append(13)
    if not wf:
        k = rng.random()
        if k < 0.4 and d: d[rng.randrange(len(d))] = 0
        elif k < 0.7 and type_ == 2: d += bytes([65])
    return bytes(d)

NAMES = [b'', b'A', b'Coder Blue', b'123456789012', b'twelve chars', 'Grüße'.encode(), '€€€€'.encode(),
         '\U0001F600ab'.encode(), b'a b', b'\x7f\x01', b'x' * 11]

def gen_tfont(rng, max_glyphs=94, small=False):
    type_ = rng.randrange(3)
    r = rng.random()
    if r < 0.15: k = 0
    elif r < 0.3: k = max_glyphs
    else: k = rng.randint(0, max_glyphs)
    idx = rng.sample(range(94), k)
    gl = {}
    for i in idx:
        w = rng.randint(1, 6 if small else 30); h = rng.randint(1, 3 if small else 12)
        if not small and rng.random() < 0.1: w, h = 30, 12
        gl[i] = (w, h, gen_glyph_data(rng, type_, w, h))
    name = rng.choice(NAMES) if rng.random() < 0.6 else bytes(rng.randrange(32, 127) for _ in range(rng.randint(0, 12)))
    t = TFont(name, type_, rng.choice([0, 1, 2, 40, rng.randint(0, 40)]), gl)
    # keep the glyph data inside the 16 bit block
    while sum(len(d) + 3 for _, _, d in t.glyphs.values()) > 65535:
        del t.glyphs[max(t.glyphs)]
    return t

def gen_bad_tfont(rng):
    t = gen_tfont(rng, max_glyphs=6, small=True)
    k = rng.random()
    if k < 0.2: t.name = rng.choice([b'1234567890123', b'x' * 20, '€€€€€'.encode()])
    elif k < 0.35: t.name = rng.choice([b'ab\x00cd', b'\x00', b'abc\x00'])
    elif k < 0.55: t.spaces = rng.choice([41, 255, 256, -1, -216, 1000])
    elif k < 0.8 and t.glyphs:
        i = rng.choice(sorted(t.glyphs)); w, h, d = t.glyphs[i]
        t.glyphs[i] = (w, h, gen_glyph_data(rng, t.type, w, h, wf=False))
    elif t.glyphs:
        i = rng.choice(sorted(t.glyphs)); w, h, d = t.glyphs[i]
        t.glyphs[i] = (rng.choice([0, 255, 256, 300, -1]), rng.choice([0, 255, 257, -2]), d)
    return t

def overflow_tfont(total_glyphs=94, type_=2):
    g = (bytes([65, 7]) * 30 + b'\r') * 12
    return TFont(b'BIG', type_, 1, {i: (30, 12, g) for i in range(total_glyphs)})

def le16(v): return bytes([v & 255, (v >> 8) & 255])

def ref_tdf_write(fs, single=False):
    """TDF bytes from the format description (reference writer, independent of model and code)"""
    out = bytearray(b'\x13TheDraw FONTS file\x1a')
    for f in (fs[:1] if single else fs):
        out += b'\x55\xaa\x00\xff' + bytes([12]) + f.name + bytes(12 - len(f.name)) + bytes(4) + bytes([f.type, f.spaces])
        tbl = bytearray(); data = bytearray()
        for i in range(94):
            if i in f.glyphs:
                w, h, d = f.glyphs[i]
                tbl += le16(len(data)); data += bytes([w, h]) + d + b'\x00'
            else: tbl += b'\xff\xff'
        out += le16(len(data)) + tbl + data
    if not single: out.append(0)
    return bytes(out)

def ref_tdf_read(b):
    """reference reader (format description); returns list of TFont or None when the file is not well formed"""
    try:
        if b[:20] != b'\x13TheDraw FONTS file\x1a': return None
        o = 20; out = []
        while o < len(b) and b[o] != 0:
            if b[o:o + 4] != b'\x55\xaa\x00\xff': return None
            nl = b[o + 4]; name = b[o + 5:o + 5 + min(nl, 12)].split(b'\x00')[0]
            ty = b[o + 21]; sp = b[o + 22]; bs = b[o + 23] | b[o + 24] << 8
            tb = [b[o + 25 + 2 * i] | b[o + 26 + 2 * i] << 8 for i in range(94)]
            d0 = o + 213; gl = {}
            for i, off in enumerate(tb):
                if off == 0xFFFF: continue
                p = d0 + off; w, h = b[p], b[p + 1]; p += 2; d = bytearray()
                while b[p] != 0:
                    d.append(b[p]); p += 1
                    if ty == 2 and d[-1] != 13: d.append(b[p]); p += 1
                gl[i] = (w, h, bytes(d))
            out.append(TFont(name, ty, sp, gl)); o = d0 + bs
        return out
    except IndexError:
        return None

def parse_tdfdec(v, lossy_model=False):
    """fonts observation -> list of (name bytes, type, spaces, has list, status, reenc bytes)"""
    k = v[0]; p = 1; out = []
    for _ in range(k):
        nl = v[p]; name = bytes(v[p + 1:p + 1 + nl]); p += 1 + nl
        if lossy_model: name = name.decode('utf-8', 'replace').encode('utf-8')
        ty, sp = v[p], v[p + 1]; p += 2
        has = v[p:p + 94]; p += 94
        st, ln = v[p], v[p + 1]; p += 2
        out.append((name, ty, sp, tuple(has), st, bytes(v[p:p + ln]))); p += ln
    return out

def gen_malformed_tdf(rng, valid_files, n):
    out = []
    for i in range(n):
        b = bytearray(rng.choice(valid_files))
        k = rng.random()
        if k < 0.3: b = b[:rng.randrange(len(b) + 1)]
        elif k < 0.4: b = b[:rng.choice([232, 233, 234, 20, 21, 19, len(b) - 1, len(b) - 2])]
        elif k < 0.7:
            for _ in range(rng.choice([1, 1, 2, 4])):
                j = rng.randrange(len(b)) if rng.random() < 0.4 else rng.randrange(min(len(b), 233 + 40))
                b[j] = rng.choice([0, 1, 2, 3, 12, 13, 40, 41, 255, rng.randrange(256)])
        elif k < 0.85 and len(b) >= 233:
            # point a lookup entry / the block size somewhere else
            j = 20 + 23 + 2 * rng.randrange(95)
            v = rng.choice([0, 1, 2, 0xFFFE, 0xFFFF, len(b) - 233, len(b) - 234, len(b) - 232, rng.randrange(65536)]) & 0xFFFF
            b[j] = v & 255; b[j + 1] = v >> 8
        else:
            b = b + bytes(rng.choice([[1], [0x55], [0x55, 0xaa, 0, 0xff], [0x55, 0xaa, 0, 0xff] + [0] * 208, [0x55, 0xaa, 0, 0xff, 12] + [65] * 208]))
        out.append(bytes(b))
    return out

# ------------------------------------------------------------------------------------------------ model evaluation
def model_eval(ctx, exprs, shards=16, timeout=1500):
    """Same contract as ctx.model. Work-around for a limitation of the shared driver: Ctx.model reads the shards'
    stdout pipes one after the other, so with outputs beyond the 64 kB pipe buffer (fonts are echoed back) the
    shards block on their pipes and run sequentially. Here every coqc writes to a file, shards are balanced by
    expression size, and all run in parallel."""
    import subprocess, re
    from vlib import driver
    cdir = os.path.join(driver.COQ, 'Cases')
    os.makedirs(cdir, exist_ok=True)
    n = len(exprs)
    shards = max(1, min(shards, (n + 19) // 20))
    order = sorted(range(n), key=lambda i: -len(exprs[i]))
    load = [0] * shards; idxs = [[] for _ in range(shards)]
    for i in order:
        k = load.index(min(load)); idxs[k].append(i); load[k] += len(exprs[i]) + 200
    out = [None] * n
    procs = []
    for sidx, idx in enumerate(idxs):
        if not idx: continue
        idx.sort()
        path = os.path.join(cdir, '%s_m%d.v' % (ctx.pid, sidx))
        with open(path, 'w') as f:
            f.write('From Coq Require Import NArith ZArith List String.\nImport ListNotations.\n')
            f.write(IMPORTS + '\nSet Printing Width 1000000.\nSet Printing Depth 1000000.\n')
            for i in idx: f.write('Eval vm_compute in (%s).\n' % exprs[i])
        of = open(path + '.out', 'w')
        def big_stack():      # 55 296-glyph fonts recurse that deep in vm_compute
            import resource
            try: resource.setrlimit(resource.RLIMIT_STACK, (resource.RLIM_INFINITY, resource.RLIM_INFINITY))
            except (ValueError, OSError): pass
        p = subprocess.Popen(['coqc', '-noglob', '-Q', driver.COQ, 'IE', path], stdout=of, stderr=subprocess.STDOUT, cwd=driver.COQ,
                             preexec_fn=big_stack)
        procs.append((p, idx, path, of))
    ctx.model_errors = []
    import time as _t
    deadline = _t.time() + timeout
    for p, idx, path, of in procs:
        try: p.wait(timeout=max(1, deadline - _t.time()))
        except subprocess.TimeoutExpired: p.kill(); p.wait()
        of.close()
        with open(path + '.out', errors='replace') as f: o = f.read()
        vals = []; cur = None
        for line in o.splitlines():
            if line.startswith('     = '): cur = [line[7:]]
            elif line.startswith('     : '):
                if cur is not None: vals.append(' '.join(cur)); cur = None
            elif cur is not None: cur.append(line)
        if p.returncode != 0 or len(vals) != len(idx):
            ctx.model_errors.append(o[-1500:] if len(o) < 100000 else o[-600:])
        for k, i in enumerate(idx):
            if k < len(vals): out[i] = [int(x) for x in re.findall(r'-?\d+', vals[k])]
        for q in (path, path + '.out'):
            try: os.remove(q)
            except OSError: pass
    return out

# ------------------------------------------------------------------------------------------------ canonical outcomes
def canon_impl(r):
    if r is None: return [9]
    if r[0] == 'ok': return [0] + list(r[1])
    if r[0] == 'err': return [1, ERR_CODE.get(r[1], -1)]
    if r[0] == 'timeout': return [3]
    return [2]

def canon_model(m):
    if m is None: return [8]
    if m[0] == 2: return [2]
    return list(m)

def anchor_drift(ctx):
    from translator import gen_font
    try:
        cur = gen_font.anchors(ctx.repo)
        with open(os.path.join(os.path.dirname(__file__), '..', 'translator', 'anchors_c17.json')) as f: ref = json.load(f)
        return sorted(k for k in set(cur) | set(ref) if cur.get(k) != ref.get(k))
    except Exception as ex:
        return ['error: %r' % ex]

# ------------------------------------------------------------------------------------------------ stage C
def correspondence(ctx):
    drift = anchor_drift(ctx)
    if drift: ctx.escalated = True          # a modelled function was edited: thorough budgets (DESIGN section 5)
    rng = ctx.rng
    cases = []; exprs = []; post = []        # post: None | 'tdfdec' | ('dcs', slot)
    def add(case, expr, p=None):
        cases.append(case); exprs.append(expr); post.append(p)
    nf = budget(ctx, 60, 180, 600)
    fonts = [gen_wf_font(rng, big_ok=(i % 4 == 0)) for i in range(nf)]
    small = [avoid_magic(gen_wf_font(rng, big_ok=False, length=256)) for _ in range(12)]
    files = []
    for f in fonts:
        add('c17.psf2 ' + f.spec(), 'run_psf2 ' + f.coq())
        files.append(ref_psf2(f))
        if f.length == 256:
            add('c17.raw ' + f.spec(), 'run_raw ' + f.coq())
            files.append(f.raw())
            add('c17.c8 8 %d %s' % (f.h, hexs(f.raw())), 'run_c8 8 %d %s' % (f.h, clist(f.raw())))
    for f in small:
        slot = rng.choice([0, 1, 9, 10, 255, 65536, 2 ** 63 - 1])
        add('c17.ansi %d %s' % (slot, f.spec()), 'run_ansi %d %s %s' % (slot, f.coq(), clist(base64.b64encode(f.raw()))))
    for i in range(budget(ctx, 60, 250, 600)):
        f = gen_odd_font(rng)
        kind = rng.choice(['psf2', 'raw'])
        # both writers pad a missing glyph with `height` zero bytes (c9c7437)
        if f.h > 1000 and (kind == 'raw' or i % 4): f.h = 3
        if f.h < 0 and len(f.glyphs) < max(f.length, 0):
            # vec![0; negative as usize]: capacity overflow panic, the process survives, but keep it rare
            if rng.random() < 0.7: f.h = 2
        add('c17.%s %s' % (kind, f.spec()), 'run_%s %s' % (kind, f.coq()))
    for f in PARTIAL_REGRESSION + DIM_REGRESSION + ODD_REGRESSION + [gen_partial_font(rng) for _ in range(budget(ctx, 20, 60, 150))]:
        add('c17.psf2 ' + f.spec(), 'run_psf2 ' + f.coq())
        if f.h <= 255: add('c17.raw ' + f.spec(), 'run_raw ' + f.coq())
    # codes that are not chars: 0xD800 is reached with every glyph below it present (every tier); a table with glyphs on
    # both sides of the surrogate range (the harness skips the codes that are not chars) ties the upper boundary 0xDFFF/0xE000
    f = surrogate_font()
    add('c17.raw ' + f.spec(), 'run_raw ' + f.coq())
    if ctx.thorough or ctx.escalated: add('c17.psf2 ' + f.spec(), 'run_psf2 ' + f.coq())
    if ctx.thorough:
        f = surrogate_font(0xE002, 0xE001)
        add('c17.psf2 ' + f.spec(), 'run_psf2 ' + f.coq())
    # decoders
    blt = builtin_files(ctx)
    for kind, key, file, data in (blt if (ctx.thorough or ctx.escalated) else blt[:3] + blt[31:34] + blt[-3:]):
        add('c17.fb ' + hexs(data), 'run_fb ' + clist(data))
    for b in files[:budget(ctx, 40, 120, 400)] + REGRESSION_FILES + DEGENERATE_FILES + BOUNDARY_FILES + gen_malformed_font_files(rng, budget(ctx, 250, 1500, 4000)):
        add('c17.fb ' + hexs(b), 'run_fb ' + clist(b))
    for b in (BIG_FILES if (ctx.thorough or ctx.escalated) else BIG_FILES[:1]):
        add('c17.fb ' + hexs(b), 'run_fb ' + clist(b))
    for i in range(budget(ctx, 60, 250, 600)):
        h = rng.choice([0, 1, 2, 3, 5, 8, 16, 255]); ln = rng.choice([0, 1, 2, 5, 16, 255, 256, 257, 512, 768])
        data = bytes(rng.randrange(256) for _ in range(ln))
        k = rng.choice(['c8', 'basic']); w = rng.choice([8, 8, 0, 255])
        add('c17.%s %d %d %s' % (k, w, h, hexs(data)), 'run_%s %d %d %s' % (k, w, h, clist(data)))
    for slot, s in gen_dcs_strings(rng, budget(ctx, 60, 250, 600), small):
        pay = dcs_payload(s)
        dec = b64_strict(pay) if pay is not None else None
        add('c17.dcs %d %s' % (slot, hexs(b'\x1bP' + s + b'\x1b\\')),
            'run_dcs %s %s' % (clist(s), 'None' if dec is None else '(Some %s)' % clist(dec)), ('dcs', slot))
    # font slots of the art formats
    for i in range(budget(ctx, 16, 48, 120)):
        ext = ['xb', 'adf', 'idf', 'icy'][i % 4]
        if ext == 'xb': f = gen_wf_font(rng, length=256)
        elif ext == 'icy': f = gen_wf_font(rng, big_ok=(i % 8 == 3))
        else:
            f = gen_wf_font(rng, length=256); f = Font(8, 16, 256, [rand_rows(rng, 16) for _ in range(256)])
        e = {'xb': 'run_xbin %d %s' % (f.h, f.coq()), 'adf': 'run_adf ' + f.coq(), 'idf': 'run_adf ' + f.coq(),
             'icy': 'run_icy %s %s' % (clist(b'c17 test font'), f.coq())}[ext]
        add('c17.embed %s %s' % (ext, f.spec()), e)
    # TheDraw fonts
    nt = budget(ctx, 40, 130, 400)
    tfiles = []
    for i in range(nt):
        k = rng.random()
        if k < 0.6: fs = [gen_tfont(rng, small=(i % 3 != 0)) for _ in range(rng.choice([1, 1, 2, 3]))]
        elif k < 0.7: fs = [gen_tfont(rng, max_glyphs=3, small=True) for _ in range(rng.choice([5, 34]))]
        else: fs = [gen_bad_tfont(rng) for _ in range(rng.choice([1, 2]))]
        single = rng.random() < 0.3
        add('c17.tdfenc %s %s' % ('single' if single else 'bundle', tfonts_spec(fs)),
            'run_tdfenc %s [%s]' % ('true' if single else 'false', ';'.join(f.coq() for f in fs)))
        try: tfiles.append(ref_tdf_write(fs, single))
        except Exception: pass
    for t in ([overflow_tfont(94), overflow_tfont(89)] if (ctx.thorough or ctx.escalated) else [overflow_tfont(94)]):
        add('c17.tdfenc bundle ' + tfonts_spec([t]), 'run_tdfenc false [%s]' % t.coq())
    tfiles = [b for b in tfiles if len(b) < 20000] or tfiles
    for b in tfiles[:budget(ctx, 25, 80, 250)] + gen_malformed_tdf(rng, tfiles, budget(ctx, 150, 1000, 3000)):
        add('c17.tdfdec ' + hexs(b), 'run_tdfdec ' + clist(b), 'tdfdec')
    for i in range(budget(ctx, 150, 1500, 3000)):
        b = gen_utf8ish(rng)
        add('c17.utf8 ' + hexs(b), 'run_utf8 ' + clist(b), 'utf8')
    impl = ctx.impl(cases, per_case_timeout=20)
    model = model_eval(ctx, exprs)
    dis = []; dist = {}; nontrivial = 0
    for c, r, m, p in zip(cases, impl, model, post):
        ci = canon_impl(r); cm = canon_model(m)
        kind = c.split()[0]
        ok = True
        if p == 'tdfdec' and ci[0] == 0 and cm[0] == 0:
            try: ok = parse_tdfdec(ci[1:]) == parse_tdfdec(cm[1:], lossy_model=True)
            except Exception: ok = False
        elif p == 'utf8':
            ok = ci[:2] == [0, cm[0]] if len(cm) == 1 else False
            if ok:   # python's 'replace' policy is the stand-in for from_utf8_lossy in the tdfdec comparison: tie it too
                b = unhex(c.split()[1])
                ok = bytes(ci[2:]) == b.decode('utf-8', 'replace').encode('utf-8')
        elif isinstance(p, tuple) and p[0] == 'dcs':
            # impl: [0, errors, has_font, font…]; model: [0, slot, font…] | [1, e]
            if ci[0] != 0: ok = (ci[0] == cm[0] == 2)
            elif cm[0] == 0: ok = (ci[1] == 0 and ci[2] == 1 and cm[1] == p[1] and ci[3:] == cm[2:])
            elif cm[0] == 1: ok = (ci[1] >= 1 and ci[2] == 0)
            else: ok = False
        elif kind in ('c17.c8', 'c17.basic'):
            ok = ci[0] == 0 and m is not None and ci[1:] == list(m)     # these model functions return the font itself
        else:
            ok = ci == cm
        cls = '%s:%s' % (kind, {0: 'ok', 1: 'err', 2: 'panic', 3: 'timeout'}.get(ci[0], '?'))
        dist[cls] = dist.get(cls, 0) + 1
        if ci[0] == 0 and len(ci) > 6: nontrivial += 1
        if not ok:
            dis.append({'case': c if len(c) < 4000 else c[:4000] + '…', 'impl': trunc(ci), 'model': trunc(cm), 'full_case': c})
    return {'cases': len(cases), 'disagreements': dis, 'distinct_nontrivial': min(nontrivial, len(set(cases))),
            'distribution': {'outcomes': dist, 'anchor_drift': drift, 'model_errors': getattr(ctx, 'model_errors', [])[:2]},
            'samples': [cases[0][:200], cases[len(cases) // 2][:200], cases[-1][:200]]}

def trunc(v, n=60):
    return v if len(v) <= n else v[:n] + ['…(%d)' % len(v)]

def gen_utf8ish(rng):
    parts = []
    for _ in range(rng.randint(0, 5)):
        k = rng.random()
        if k < 0.3: parts.append(bytes([rng.randrange(128)]))
        elif k < 0.6: parts.append(chr(rng.choice([0x80, 0x7ff, 0x800, 0xfff, 0xd7ff, 0xe000, 0xffff, 0x10000, 0x10ffff, rng.randrange(0x80, 0xd800)])).encode('utf-8'))
        elif k < 0.8: parts.append(bytes([rng.choice([0x80, 0xbf, 0xc0, 0xc1, 0xc2, 0xdf, 0xe0, 0xed, 0xef, 0xf0, 0xf4, 0xf5, 0xff]), rng.choice([0x7f, 0x80, 0x8f, 0x90, 0x9f, 0xa0, 0xbf, 0xc0])]))
        else: parts.append(bytes(rng.randrange(256) for _ in range(rng.randint(1, 4))))
    b = b''.join(parts)
    if rng.random() < 0.2 and b: b = b[:-1]
    return b

# ------------------------------------------------------------------------------------------------ stage S
def search(ctx, broken):
    rng = ctx.rng
    failures = []
    ncases = 0
    distinct = set()
    def fail(sig, inp, impl=None, expected=None, detail=None):
        failures.append({'signature': sig, 'input': inp if len(str(inp)) < 20000 else str(inp)[:20000], 'impl': trunc(impl) if isinstance(impl, list) else impl,
                         'expected': trunc(expected) if isinstance(expected, list) else expected, 'detail': detail})
    # ---- inputs that broke the correspondence come first (and are re-judged by the oracles below)
    first_cases = []
    for b in broken:
        d = b.get('detail') or {}
        if isinstance(d, dict) and d.get('full_case'): first_cases.append(d['full_case'])
    # ---- 1. bitmap fonts: random + built-in
    fonts = [avoid_magic(gen_wf_font(rng, big_ok=(i % 3 == 0))) for i in range(budget(ctx, 120, 700, 1500))]
    labels = ['random'] * len(fonts)
    blt = builtin_files(ctx)
    cases = []
    for kind, key, file, data in blt:
        if kind in ('ansi', 'sauce'): cases.append('c17.builtin %s %d' % (kind, key))
    cases.append('c17.nbuiltin')
    res = ctx.impl(cases); ncases += len(cases)
    nb = res[-1]
    n_ansi = sum(1 for b in blt if b[0] == 'ansi'); n_sauce = sum(1 for b in blt if b[0] == 'sauce')
    if nb[0] != 'ok' or nb[1] != [n_ansi - 1, n_sauce]:
        fail('builtin-font-list-mismatch', 'c17.nbuiltin', nb, [n_ansi - 1, n_sauce], 'the fonts!/sauce_fonts! macro invocations no longer match ANSI_FONTS / SAUCE_FONT_NAMES')
    for c, r in zip(cases[:-1], res[:-1]):
        if r[0] != 'ok':
            fail('builtin-font-%s' % r[0], c, r, None, 'built-in font does not load'); continue
        f = font_of_obs(r[1])
        if f is None or len(f.glyphs) not in (256, 512) or len(f.glyphs) != f.length:
            fail('builtin-font-shape', c, r[1][:8], None, 'built-in font is not a 256/512 glyph table'); continue
        fonts.append(f); labels.append(c)
    for fc in first_cases:
        a = fc.split()
        if a[0] in ('c17.psf2', 'c17.raw', 'c17.embed', 'c17.ansi') :
            try:
                b = a[-6:]; gh = int(b[4]); d = unhex(b[5]); n = int(b[3])
                f = Font(int(b[0]), int(b[1]), int(b[2]), [d[i * gh:(i + 1) * gh] for i in range(n)])
                if f.w == 8 and 1 <= f.h <= 32 and f.length in (256, 512) and n == f.length and gh == f.h:
                    fonts.insert(0, f); labels.insert(0, 'from-correspondence')
            except Exception: pass
    # round trip 1: PSF2
    c1 = ['c17.psf2 ' + f.spec() for f in fonts]
    r1 = ctx.impl(c1, per_case_timeout=20); ncases += len(c1)
    c2 = []; idx2 = []
    for i, (f, r) in enumerate(zip(fonts, r1)):
        distinct.add(f.key())
        if r[0] != 'ok':
            fail('to_psf2_bytes-%s' % r[0], c1[i], r, None, 'encoder failed on a well-formed font (%s)' % labels[i]); continue
        c2.append('c17.fb ' + hexs(r[1])); idx2.append(i)
    r2 = ctx.impl(c2, per_case_timeout=20); ncases += len(c2)
    for i, c, r in zip(idx2, c2, r2):
        if r[0] != 'ok': fail('psf2-roundtrip-%s' % r[0], c1[i], r, fonts[i].obs()[:8], 'from_bytes(to_psf2_bytes(font)) failed (%s)' % labels[i])
        elif r[1] != fonts[i].obs(): fail('psf2-roundtrip-mismatch', c1[i], r[1], fonts[i].obs(), 'PSF2 round trip changed the font (%s)' % labels[i])
    # round trip 2: raw 8 bit data, create_8 / from_basic  (256 glyph fonts; height is a u8)
    f256 = [(i, f) for i, f in enumerate(fonts) if f.length == 256]
    c1 = ['c17.raw ' + f.spec() for _, f in f256]
    r1 = ctx.impl(c1, per_case_timeout=20); ncases += len(c1)
    c2 = []; idx2 = []
    for (i, f), c, r in zip(f256, c1, r1):
        if r[0] != 'ok' or bytes(r[1]) != f.raw():
            fail('convert_to_u8_data-mismatch', c, r if r[0] != 'ok' else r[1], list(f.raw()), 'raw glyph data differs from the glyph rows in code order'); continue
        for k in ('c8', 'basic'):
            c2.append('c17.%s 8 %d %s' % (k, f.h, hexs(r[1]))); idx2.append(i)
    r2 = ctx.impl(c2, per_case_timeout=20); ncases += len(c2)
    for i, c, r in zip(idx2, c2, r2):
        if r[0] != 'ok': fail('raw-roundtrip-%s' % r[0], c, r, None, 'create_8/from_basic failed (%s)' % labels[i])
        elif r[1] != fonts[i].obs(): fail('raw-roundtrip-mismatch', c, r[1], fonts[i].obs(), 'create_8/from_basic(convert_to_u8_data(font)) changed the font (%s)' % labels[i])
    # round trip 2b: glyphs missing from the table (regression: the writers used to unwrap / build unchecked chars).
    # The file must be the reference PSF2 file of the padded font and must load as the padded font.
    partial = PARTIAL_REGRESSION + DIM_REGRESSION + [surrogate_font(0xD800, 0xD7FE)] + [gen_partial_font(rng) for _ in range(budget(ctx, 40, 300, 600))]
    for fc in first_cases:
        a = fc.split()
        if a[0] in ('c17.psf2', 'c17.raw'):
            try:
                f = font_from_spec(a[1:])
                if 0 <= f.w < 2 ** 31 and 1 <= f.h <= 4096 and 0 <= f.length <= 0xD800 and all(len(g) == f.h for g in f.glyphs): partial.insert(0, f)
            except Exception: pass
    c1 = ['c17.psf2 ' + f.spec() for f in partial]
    r1 = ctx.impl(c1, per_case_timeout=20); ncases += len(c1)
    c2 = []; idx2 = []
    for i, (f, c, r) in enumerate(zip(partial, c1, r1)):
        distinct.add(f.key())
        want = ref_psf2(pad_font(f))
        if r[0] != 'ok': fail('to_psf2_bytes-%s' % r[0], c, r, trunc(list(want)), 'encoder failed on a font with %d of %d glyphs present' % (len(f.glyphs), f.length)); continue
        if bytes(r[1]) != want: fail('psf2-partial-mismatch', c, r[1], list(want), 'PSF2 file differs from the file of the font padded with empty glyphs'); continue
        c2.append('c17.fb ' + hexs(r[1])); idx2.append(i)
    r2 = ctx.impl(c2, per_case_timeout=20); ncases += len(c2)
    for i, c, r in zip(idx2, c2, r2):
        want = pad_font(partial[i]).obs()
        if not dims_ok(partial[i].w, partial[i].h):
            # fix fB: the writer writes any size; the loader must refuse a glyph size outside 1..=8 x 1..=32
            if r != ('err', 'UnsupportedSize'):
                fail('from_bytes-degenerate-size' if r[0] in ('ok', 'err') else 'from_bytes-%s' % r[0], c1[i], r[1][:8] if r[0] == 'ok' else r, ['err', 'UnsupportedSize'],
                     'the PSF2 file of a %d x %d font must be refused with UnsupportedSize' % (partial[i].w, partial[i].h))
            continue
        if r[0] != 'ok': fail('psf2-roundtrip-%s' % r[0], c1[i], r, want[:8], 'from_bytes(to_psf2_bytes(font with missing glyphs)) failed')
        elif r[1] != want: fail('psf2-roundtrip-mismatch', c1[i], r[1], want, 'PSF2 round trip of a font with missing glyphs is not the padded font')
    p256 = [f for f in partial if f.length == 256 and f.h <= 255]
    c1 = ['c17.raw ' + f.spec() for f in p256]
    r1 = ctx.impl(c1, per_case_timeout=20); ncases += len(c1)
    c2 = []; idx2 = []
    for i, (f, c, r) in enumerate(zip(p256, c1, r1)):
        if r[0] != 'ok' or bytes(r[1]) != pad_font(f).raw():
            fail('convert_to_u8_data-mismatch', c, r if r[0] != 'ok' else r[1], list(pad_font(f).raw()), 'raw glyph data of a font with missing glyphs is not padded with empty glyphs'); continue
        c2.append('c17.c8 8 %d %s' % (f.h, hexs(r[1]))); idx2.append(i)
    r2 = ctx.impl(c2, per_case_timeout=20); ncases += len(c2)
    for i, c, r in zip(idx2, c2, r2):
        want = pad_font(p256[i]).obs()
        if r[0] != 'ok': fail('raw-roundtrip-%s' % r[0], c, r, None, 'create_8 failed on padded raw data')
        elif r[1] != want: fail('raw-roundtrip-mismatch', c, r[1], want, 'create_8(convert_to_u8_data(font with missing glyphs)) is not the padded font')
    # round trip 3: DCS  (a subset: the stream is base64 of the whole font) + the magic collision witness
    sub = f256[:budget(ctx, 40, 200, 400)] + [(i, f) for i, f in f256 if labels[i] != 'random'][:budget(ctx, 6, 50, 100)]
    collide = []
    for g0 in (b'\x36\x04', b'\x72\xb5\x4a\x86'):
        f = gen_wf_font(rng, length=256); f = Font(8, 16, 256, [rand_rows(rng, 16) for _ in range(256)])
        f.glyphs[0] = g0 + f.glyphs[0][len(g0):]
        collide.append(f)
    dfonts = [f for _, f in sub] + collide
    slots = [rng.choice([1, 2, 5, 40, 255, 1000]) for _ in dfonts]
    c1 = ['c17.ansi %d %s' % (s, f.spec()) for s, f in zip(slots, dfonts)]
    r1 = ctx.impl(c1, per_case_timeout=20); ncases += len(c1)
    c2 = []; idx2 = []
    for j, (f, c, r) in enumerate(zip(dfonts, c1, r1)):
        if r[0] != 'ok': fail('encode_as_ansi-%s' % r[0], c, r); continue
        c2.append('c17.dcs %d %s' % (slots[j], hexs(r[1]))); idx2.append(j)
    r2 = ctx.impl(c2, per_case_timeout=20); ncases += len(c2)
    for j, c, r in zip(idx2, c2, r2):
        f = dfonts[j]
        good = (r[0] == 'ok' and r[1][:2] == [0, 1] and r[1][2:] == f.obs())
        if not good:
            if sniffs_as_psf(f.raw()) and r[0] in ('ok', 'err'):
                fail(KNOWN_DCS, c1[j][:300], r[1][:12] if r[0] == 'ok' else r, f.obs()[:12],
                     'raw glyph data that begins with a PSF magic is sniffed as PSF by from_bytes in the DCS path')
            else:
                fail('dcs-roundtrip-%s' % (r[0] if r[0] != 'ok' else 'mismatch'), c1[j], r[1] if r[0] == 'ok' else r, [0, 1] + f.obs(),
                     'font loaded from its own CTerm:Font DCS sequence differs')
    # round trip 4: font slots of XBin / ADF / IDF / IcyDraw
    c1 = []; want = []
    pool = fonts[:budget(ctx, 24, 150, 300)] + [f for f, l in zip(fonts, labels) if l != 'random'][:budget(ctx, 8, 50, 100)]
    for j, f in enumerate(pool):
        for ext in ('xb', 'adf', 'idf', 'icy'):
            if ext in ('adf', 'idf') and (f.h != 16 or f.length != 256): continue
            if ext == 'xb' and f.length != 256: continue
            c1.append('c17.embed %s %s' % (ext, f.spec())); want.append(f)
    for j in range(budget(ctx, 12, 50, 100)):
        f = Font(8, 16, 256, [rand_rows(rng, 16) for _ in range(256)])
        for ext in ('adf', 'idf'):
            c1.append('c17.embed %s %s' % (ext, f.spec())); want.append(f)
    r1 = ctx.impl(c1, per_case_timeout=30); ncases += len(c1)
    for c, f, r in zip(c1, want, r1):
        ext = c.split()[1]
        if r[0] != 'ok': fail('embed-%s-%s' % (ext, r[0]), c, r, None, 'saving/loading a buffer with this font in slot 0 failed')
        elif r[1] != f.obs(): fail('embed-%s-roundtrip-mismatch' % ext, c, r[1], f.obs(), 'font slot of the reloaded %s file differs' % ext)
    # ---- 2. no panic / termination of the bitmap font loader
    mal = REGRESSION_FILES + DEGENERATE_FILES + BOUNDARY_FILES + BIG_FILES + gen_malformed_font_files(rng, budget(ctx, 600, 5000, 8000))
    for fc in first_cases:
        if fc.startswith('c17.fb '): mal.insert(0, unhex(fc.split()[1]))
    c1 = ['c17.fb ' + hexs(b) for b in mal]
    r1 = ctx.impl(c1, per_case_timeout=15); ncases += len(c1)
    for c, b, r in zip(c1, mal, r1):
        distinct.add(b)
        if r[0] not in ('ok', 'err'):
            fail('from_bytes-%s' % r[0], c if len(c) < 400 else c[:400] + '…(%d bytes)' % len(b), r, None, 'BitFont::from_bytes must return Ok or Err for every byte string')
        elif r[0] == 'ok':
            f = font_of_obs(r[1])
            if f is None: fail('from_bytes-glyph-codes', c[:400], r[1][:20], None, 'glyph codes are not 0..n')
            # fix fB (Props.C17.loaded_font_dims): no loaded font has a glyph size outside 1..=8 x 1..=32, and every glyph has `height` rows
            elif not dims_ok(f.w, f.h):
                fail('from_bytes-degenerate-size', c if len(c) < 400 else c[:400] + '…(%d bytes)' % len(b), r[1][:4], None,
                     'BitFont::from_bytes returned a font with glyph size %d x %d (outside 1..=8 x 1..=32)' % (f.w, f.h))
            elif any(len(g) != f.h for g in f.glyphs):
                fail('from_bytes-glyph-rows', c[:400], r[1][:20], None, 'a glyph of the loaded font does not have `height` rows')
    for b, r in zip(mal, r1):
        if (b in DEGENERATE_FILES and r[0] == 'ok') or (b in BOUNDARY_FILES and r[0] == 'err'):
            fail('from_bytes-degenerate-size' if r[0] == 'ok' else 'from_bytes-boundary-size-refused', 'c17.fb ' + hexs(b[:64]), r[1][:4] if r[0] == 'ok' else r, None,
                 'a font file with a glyph size outside 1..=8 x 1..=32 (or charsize != height) must be refused, one at the boundary must load')
    dcs_short = [b'\x1bPCTerm:Font:0:\x1b\\', b'\x1bPCTerm:Font:1:AA==\x1b\\', b'\x1bPCTerm:Font:1:NgQ=\x1b\\', b'\x1bPCTerm:Font:1:NgQAAAE=\x1b\\']
    c1 = ['c17.dcs 1 ' + hexs(b) for b in dcs_short]
    r1 = ctx.impl(c1); ncases += len(c1)
    for c, r in zip(c1, r1):
        if r[0] != 'ok': fail('dcs-%s' % r[0], c, r, None, 'a CTerm:Font DCS sequence with a short payload must be rejected, not crash')
    # ---- 3. TheDraw fonts
    bundles = []
    for i in range(budget(ctx, 60, 350, 700)):
        k = rng.random()
        if k < 0.7: fs = [gen_tfont(rng, small=(i % 3 != 0)) for _ in range(rng.choice([1, 1, 2, 3, 6]))]
        elif k < 0.85: fs = [gen_tfont(rng, max_glyphs=4, small=True) for _ in range(rng.choice([12, 34]))]
        else: fs = [gen_tfont(rng, max_glyphs=94)]
        bundles.append((fs, rng.random() < 0.25 and len(fs) == 1))
    # boundary: glyph data of exactly 65535 / 65534 bytes, and the 16 bit overflow regression (must be an error now)
    for total in (65535, 65534):
        t = overflow_tfont(89, type_=1) # 89 * 735 = 65415 (block font: any NUL-free bytes are glyph data)
        rest = total - 65415 - 3
        t.glyphs[93] = (30, 12, bytes([66] * rest))
        bundles.append(([t], False))
    for fc in first_cases:
        if fc.startswith('c17.tdfenc '):
            bundles.insert(0, ('case', fc))
    c1 = []; meta = []
    for b in bundles:
        if b[0] == 'case': c1.append(b[1]); meta.append(None)
        else:
            fs, single = b
            c1.append('c17.tdfenc %s %s' % ('single' if single else 'bundle', tfonts_spec(fs))); meta.append((fs, single))
    c1.append('c17.tdfenc bundle ' + tfonts_spec([overflow_tfont(94)])); meta.append('overflow')
    r1 = ctx.impl(c1, per_case_timeout=20); ncases += len(c1)
    c2 = []; idx2 = []
    for j, (c, m, r) in enumerate(zip(c1, meta, r1)):
        cshort = c if len(c) < 3000 else c[:3000] + '…'
        if m == 'overflow':
            if r[0] == 'ok':
                # the writer accepted 69 kB of glyph data: the file must still read back
                c2.append('c17.tdfdec ' + hexs(r[1])); idx2.append(j)
            elif r[0] != 'err': fail('tdf-write-%s' % r[0], cshort, r)
            continue
        if m is None:
            if r[0] == 'ok': c2.append('c17.tdfdec ' + hexs(r[1])); idx2.append(j)
            continue
        fs, single = m
        for f in fs: distinct.add(f.key())
        if r[0] != 'ok':
            fail('tdf-write-%s' % r[0], cshort, r, None, 'writer failed on a well-formed font / bundle'); continue
        want = ref_tdf_write(fs, single)
        if bytes(r[1]) != want:
            back = ref_tdf_read(bytes(r[1]))
            fail('tdf-write-mismatch', cshort, trunc(r[1]), trunc(list(want)), 'TDF bytes differ from the format description (reference reader %s)' % ('parses them' if back else 'cannot parse them'))
            continue
        c2.append('c17.tdfdec ' + hexs(r[1])); idx2.append(j)
    r2 = ctx.impl(c2, per_case_timeout=20); ncases += len(c2)
    for j, c, r in zip(idx2, c2, r2):
        m = meta[j]
        cshort = c1[j] if len(c1[j]) < 3000 else c1[j][:3000] + '…'
        if m == 'overflow' or m is None:
            fs = None
            if m == 'overflow': fs = [overflow_tfont(94)]
            if r[0] != 'ok':
                fail('tdf-u16-overflow' if m == 'overflow' else 'tdf-roundtrip-%s' % r[0], cshort[:600], r, None, 'the writer returned Ok but the reader does not accept the file')
                continue
        else: fs = m[0][:1] if m[1] else m[0]
        if r[0] != 'ok':
            fail('tdf-roundtrip-%s' % r[0], cshort, r, None, 'from_tdf_bytes rejects / crashes on the bytes the writer produced'); continue
        if fs is None: continue
        got = parse_tdfdec(r[1])
        bad = None
        if len(got) != len(fs): bad = 'font count %d != %d' % (len(got), len(fs))
        else:
            for k, (g, f) in enumerate(zip(got, fs)):
                name, ty, sp, has, st, re_ = g
                if name != f.name: bad = 'font %d: name %r != %r' % (k, name, f.name)
                elif ty != f.type: bad = 'font %d: type' % k
                elif sp != f.spaces: bad = 'font %d: spaces %d != %d' % (k, sp, f.spaces)
                elif list(has) != [1 if i in f.glyphs else 0 for i in range(94)]: bad = 'font %d: set of defined glyphs' % k
                elif st != 0: bad = 'font %d: decoded font cannot be written again' % k
                else:
                    back = ref_tdf_read(re_)
                    if not back or len(back) != 1 or back[0].glyphs != f.glyphs or back[0].type != f.type:
                        bad = 'font %d: glyph sizes / data' % k
                if bad: break
        if bad: fail('tdf-roundtrip-mismatch' if m != 'overflow' else 'tdf-u16-overflow', cshort, trunc(r[1]), None, bad)
    # ---- 4. no panic / termination of the TDF reader
    valid = [ref_tdf_write(fs, single) for fs, single in [b for b in bundles if b[0] != 'case'][:60]]
    valid = [b for b in valid if len(b) < 30000] or valid
    mal = gen_malformed_tdf(rng, valid, budget(ctx, 600, 5000, 8000)) + [bytes(232), bytes(233), b'\x13TheDraw FONTS file\x1a' + bytes(213)]
    for fc in first_cases:
        if fc.startswith('c17.tdfdec '): mal.insert(0, unhex(fc.split()[1]))
    c1 = ['c17.tdfdec ' + hexs(b) for b in mal]
    r1 = ctx.impl(c1, per_case_timeout=15); ncases += len(c1)
    for c, b, r in zip(c1, mal, r1):
        distinct.add(b)
        if r[0] not in ('ok', 'err'):
            fail('from_tdf_bytes-%s' % r[0], c if len(c) < 3000 else c[:3000] + '…', r, None, 'from_tdf_bytes must return Ok or Err for every byte string')
    failures.sort(key=lambda f: len(str(f['input'])))
    return {'cases': ncases, 'failures': failures, 'distinct_nontrivial': len(distinct),
            'samples': ['c17.psf2 ' + fonts[0].spec()[:120], c1[0][:160]], 'builtin_fonts': len([l for l in labels if l.startswith('c17.builtin')])}

# ------------------------------------------------------------------------------------------------ replay
def font_from_spec(a):
    w, h, length, n, gh = (int(x) for x in a[:5]); d = unhex(a[5])
    return Font(w, h, length, [d[i * gh:(i + 1) * gh] for i in range(n)])

def tfonts_from_spec(a):
    i = 0; k = int(a[i]); i += 1; out = []
    for _ in range(k):
        name = unhex(a[i]); ty = int(a[i + 1]); sp = int(a[i + 2]); m = int(a[i + 3]); i += 4
        gl = {}
        for _ in range(m):
            gl[int(a[i])] = (int(a[i + 1]), int(a[i + 2]), unhex(a[i + 3])); i += 4
        out.append(TFont(name, ty, sp, gl))
    return out

def replay(ctx, body):
    """re-run the recorded input through the implementation oracle (and the model where it has an entry point);
    exit code 1 when the input still fails the property, 0 when it passes now"""
    from vlib import driver
    inp = body.get('input')
    sig = body.get('signature', '')
    print('replay', ID, sig, str(inp)[:300])
    ok, out = driver.stage_build()
    if not (isinstance(inp, str) and inp.startswith('c17.')) or '…' in inp:
        print(json.dumps(body, indent=1)[:3000]); print('input was truncated when recorded; cannot re-run'); return 1
    a = inp.split()
    kind = a[0]
    run = lambda c: ctx.impl([c], per_case_timeout=30)[0]
    r = run(inp)
    print('implementation:', str(r)[:600])
    expr = None; verdict = None
    if kind == 'c17.fb':
        expr = 'run_fb ' + clist(unhex(a[1])); verdict = r[0] in ('ok', 'err')
    elif kind == 'c17.tdfdec':
        expr = 'run_tdfdec ' + clist(unhex(a[1])); verdict = r[0] in ('ok', 'err')
    elif kind == 'c17.dcs':
        verdict = r[0] == 'ok'
    elif kind in ('c17.psf2', 'c17.raw', 'c17.ansi', 'c17.embed'):
        f = font_from_spec(a[2:] if kind in ('c17.ansi', 'c17.embed') else a[1:])
        expr = {'c17.psf2': 'run_psf2 ', 'c17.raw': 'run_raw '}.get(kind)
        if expr: expr += f.coq()
        if r[0] != 'ok': verdict = False
        elif kind == 'c17.psf2':
            r2 = run('c17.fb ' + hexs(r[1])); print('from_bytes of that:', str(r2)[:300]); verdict = r2[0] == 'ok' and r2[1] == pad_font(f).obs()
        elif kind == 'c17.raw':
            r2 = run('c17.c8 8 %d %s' % (f.h, hexs(r[1]))); r3 = run('c17.basic 8 %d %s' % (f.h, hexs(r[1])))
            print('create_8 of that:', str(r2)[:300]); verdict = bytes(r[1]) == pad_font(f).raw() and r2[0] == 'ok' and r2[1] == pad_font(f).obs() and r3 == r2
        elif kind == 'c17.ansi':
            r2 = run('c17.dcs %s %s' % (a[1], hexs(r[1]))); print('parser fed with that:', str(r2)[:300])
            verdict = r2[0] == 'ok' and r2[1] == [0, 1] + f.obs()
            if not verdict and sniffs_as_psf(f.raw()): print('(raw data begins with a PSF magic: known finding %s)' % KNOWN_DCS)
        else:
            verdict = r[1] == f.obs()
    elif kind == 'c17.tdfenc':
        fs = tfonts_from_spec(a[2:]); single = a[1] == 'single'
        expr = 'run_tdfenc %s [%s]' % ('true' if single else 'false', ';'.join(f.coq() for f in fs))
        if r[0] == 'ok':
            r2 = run('c17.tdfdec ' + hexs(r[1])); print('from_tdf_bytes of that:', str(r2)[:300])
            verdict = False
            if r2[0] == 'ok':
                got = parse_tdfdec(r2[1]); want = fs[:1] if single else fs
                verdict = len(got) == len(want) and all(
                    g[0] == f.name and g[1] == f.type and g[2] == f.spaces and g[4] == 0 and
                    (lambda back: bool(back) and len(back) == 1 and back[0].glyphs == f.glyphs)(ref_tdf_read(g[5]))
                    for g, f in zip(got, want))
        else:
            verdict = r[0] == 'err' and sig == 'tdf-u16-overflow'     # an error instead of a wrapped file is the repaired behaviour
    if expr:
        m = model_eval(ctx, [expr])
        print('model:', str(m[0])[:600])
    print('expected:', str(body.get('expected'))[:400]); print('detail:', body.get('detail'))
    print('oracle verdict now:', {True: 'passes', False: 'FAILS', None: 'not re-evaluated'}[verdict])
    return 0 if verdict else 1

LEVEL_TEXT = ('Machine-checked proof (Coq, closed under the global context) over models of the font code: for every font of width 8, height 1..32, 256 or 512 glyphs and arbitrary row bytes '
              'from_bytes(to_psf2_bytes f) = f (also for every width 1..8, height 1..32 - every glyph size the loaders accept since fix fB - and up to 0xD800 glyphs; a font with any number of its glyphs missing is written with empty glyphs in their place and reads back as exactly that padded font, through PSF2 and through the raw 8 bit data); create_8/from_basic(convert_to_u8_data f) = f; the XBin, ADF/IDF and IcyDraw font slots '
              'read back the font written; the CTerm:Font DCS string loads f into the slot it names for every slot < 2^64, given the base64 inverse law and that the raw data does not begin with a PSF magic '
              '(that exclusion is format-inherent: known finding C17-dcs-magic-collision, with a proved witness); every well-formed TheDraw font / bundle (names <= 12 bytes of NUL-free UTF-8, spaces 0..40, 94 slots, '
              'glyph sizes < 256, NUL-free data, colour data in (char, attribute) pairs, <= 65535 bytes of glyph data per font, any number >= 1 of fonts) reads back identically; and BitFont::from_bytes, the DCS font loader, '
              'and from_tdf_bytes return Ok or Err (no panic, abort or unbounded loop) for every byte string; every font from_bytes returns (PSF1, PSF2, raw data, the payload of a CTerm:Font DCS string) has a glyph size of 1..8 x 1..32 (loaded_font_dims, dcs_font_dims: no loaded font has a zero, huge or negative dimension - finding C02-sixel-font0, fixed); and the two writers to_psf2_bytes / convert_to_u8_data return for every font whose height is not negative. The theorems are about the merged tree: C17\'s fix: commits (short inputs, zero height, '
              'ragged tail, PSF2 header arithmetic, > 0xD800 glyphs, TDF 16 bit overflow, truncated TDF) plus C10\'s c9c7437 (checked glyph-index to char conversion, empty glyph instead of unwrap) plus fix fB (glyph size check of load_psf2 / load_psf1 / load_plain_font; the old loader is refuted: psf2_dims_before_fix_refuted). The models are hand-written and tied to the Rust code by differential execution on every run; constants come from the source.')
LEVEL_NOTE = ('Trusted: Coq kernel + vm_compute; hand models tied by stage C only (no translator for the function bodies; token hashes of the modelled functions raise the budgets when they drift); base64 and from_utf8_lossy enter as '
              'hypotheses in the statements; the DCS string collection of the ANSI parser and the file containers around the font slots are exercised on the real code but not proved.')
TECHNIQUE = 'Coq proof (list induction over glyph tables, offset arithmetic of the TDF block, fuel adequacy for the loaders) + differential correspondence + round-trip / no-panic search on the real code'
