"""Stream generators shared by props/c09.py and props/c01.py: the token alphabet of DESIGN.md Appendix A.4,
seeded random streams, malformed streams.  A token is a byte string; parameters come from
{none, 0, 1, mid, size, size+1, 9999} relative to the screen dimension they address."""

E = b'\x1b'
EMU_NAMES = {0: 'ansi', 1: 'avatar', 2: 'pcboard', 3: 'ctrla', 4: 'renegade', 5: 'ascii', 6: 'petscii', 7: 'atascii', 8: 'viewdata', 9: 'mode7'}
MODELLED = [0, 1, 2, 3, 4, 5, 7, 8, 9]          # emulations of Model/Emu.v; PETSCII (6) is Model/Petscii.v with its own entry points (Run/RunC01.v)
ANSI_BASED = [0, 1, 2, 3, 4]

def hx(b):
    return bytes(b).hex() or '-'

def params(size, heavy=False):
    """None = parameter omitted"""
    mid = max(2, size // 2)
    p = [None, 0, 1, mid, size, size + 1]
    if not heavy:
        p.append(9999)
    return p

def num(p):
    return b'' if p is None else str(p).encode()

def csi(final, *ps, inter=b'', prefix=b''):
    return E + b'[' + prefix + b';'.join(num(p) for p in ps) + inter + final

# (name, final, axis 'w'|'h', heavy)  one-parameter CSI functions
ONE_PARAM = [
    ('CUU', b'A', 'h', True), ('CUD', b'B', 'h', False), ('CUF', b'C', 'w', False), ('CUB', b'D', 'w', False),
    ('CNL', b'E', 'h', False), ('CPL', b'F', 'h', False), ('CHA', b'G', 'w', False), ('VPA', b'd', 'h', False),
    ('VPR', b'e', 'h', False), ('HPA', b"'", 'w', False), ('HPR', b'a', 'w', False), ('HPB', b'j', 'w', False),
    ('VPB', b'k', 'h', True), ('ECH', b'X', 'w', False), ('ICH', b'@', 'w', True), ('DCH', b'P', 'w', True),
    ('IL', b'L', 'h', True), ('DL', b'M', 'h', True), ('SU', b'S', 'h', True), ('SD', b'T', 'h', True),
    ('REP', b'b', 'w', True), ('CVT', b'Y', 'w', True), ('CBT', b'Z', 'w', True),
]

def ansi_tokens(w, h, full=True):
    """list of (name, bytes). `full` = every parameter value; else a thinner set (for the 3-token enumeration)"""
    t = []
    def add(n, b):
        t.append((n, bytes(b)))
    for n, b in [('print', b'A'), ('space', b' '), ('print-hi', b'\xdb'), ('NUL', b'\0'), ('0xFF', b'\xff'), ('BEL', b'\x07'), ('BS', b'\x08'),
                 ('HT', b'\t'), ('LF', b'\n'), ('FF', b'\x0c'), ('CR', b'\r'), ('DEL', b'\x7f')]:
        add(n, b)
    for n, b in [('DECSC', b'7'), ('DECRC', b'8'), ('RIS', b'c'), ('IND', b'D'), ('RI', b'M'), ('NEL', b'E'), ('HTS', b'H'),
                 ('ESC-ESC', b'\x1b'), ('ESC-drop', b'='), ('ESC-err', b'\x01')]:
        add(n, E + b)
    for n, f, ax, heavy in ONE_PARAM:
        size = w if ax == 'w' else h
        ps = params(size, heavy) if full else [None, 1, size, size + 1]
        for p in ps:
            add('%s(%s)' % (n, p), csi(f, p))
    hp = [None, 0, 1, max(2, h // 2), h, h + 1, 9999] if full else [None, 1, h + 1]
    wp = [None, 0, 1, max(2, w // 2), w, w + 1, 9999] if full else [None, 1, w + 1]
    for f in (b'H', b'f'):
        for r in (hp if f == b'H' else [None, h]):
            for c in (wp if f == b'H' else [None, w + 1]):
                add('CUP(%s;%s)' % (r, c), csi(f, r, c) if c is not None else csi(f, r))
    for a, b in [(None, None), (0, 0), (1, 1), (2, max(2, h // 2)), (1, h), (2, h + 1), (h, 1), (1, 9999), (9999, 9999), (0, h)]:
        add('DECSTBM(%s;%s)' % (a, b), csi(b'r') if a is None else csi(b'r', a, b))
    add('DECSTBM(1)', csi(b'r', max(2, h // 2)))
    for a in [(1, h, 1, w), (2, h - 1, 2, w - 1), (1, 2, 3), (0, 0, 0, 0), (1, 9999, 1, 9999)]:
        add('CSR%r' % (a,), csi(b'r', *a))
    add('SCP', csi(b's')); add('RCP', csi(b'u'))
    add('DECLRMM-on', csi(b'h', 69, prefix=b'?')); add('DECLRMM-off', csi(b'l', 69, prefix=b'?'))
    for a, b in [(1, w), (2, max(2, w // 2)), (0, 0), (1, 9999)]:
        add('DECSLRM(%s;%s)' % (a, b), csi(b's', a, b))
    add('DECAWM-on', csi(b'h', 7, prefix=b'?')); add('DECAWM-off', csi(b'l', 7, prefix=b'?'))
    add('DECOM-on', csi(b'h', 6, prefix=b'?')); add('DECOM-off', csi(b'l', 6, prefix=b'?'))
    add('IRM-on', csi(b'h', 4)); add('IRM-off', csi(b'l', 4))
    add('ICE-on', csi(b'h', 33, prefix=b'?'))
    add('DECSTR', E + b'[!p'); add('RIP?', E + b'[!A')
    add('RSM', E + b'[=r')
    for k in (0, 1, 2, 3):
        for v in ((0, 1, h, 9999) if k < 2 else (1, w + 1)):
            add('SSM(%d;%d)' % (k, v), E + b'[=%d;%dm' % (k, v))
    for p in ([None, 0, 1, max(2, w // 2), w, w + 1] if full else [None, w]):
        add('SL(%s)' % p, csi(b'@', p, inter=b' ')); add('SR(%s)' % p, csi(b'A', p, inter=b' '))
    for p in (1, 9, w):
        add('TSR(%d)' % p, csi(b'd', p, inter=b' '))
    for p in (None, 0, 3, 5, 9):
        add('TBC(%s)' % p, csi(b'g', p))
    for p in (None, 0, 1, 2, 3, 9):
        add('ED(%s)' % p, csi(b'J', p))
    for p in (None, 0, 1, 2, 9):
        add('EL(%s)' % p, csi(b'K', p))
    for p in (1, 2, 3, 4, 5, 9):
        add('KEY(%d)' % p, csi(b'~', p))
    for s in (b'', b'0', b'1;31;44', b'7', b'5', b'38;5;196', b'48;2;1;2;3', b'48;5;0', b'27', b'99'):
        add('SGR(%s)' % s.decode(), E + b'[' + s + b'm')
    for p in (5, 6, 255, 7):
        add('DSR(%d)' % p, csi(b'n', p))
    add('DA', csi(b'c'))
    add('DECERA', E + b'[1;1;%d;%d$z' % (h + 1, w + 1)); add('DECFRA', E + b'[65;1;2;%d;%d$x' % (h, w)); add('DECSERA', E + b'[2;2;3;3${')
    add('CSI-N', csi(b'N')); add('CSI-|', csi(b'|')); add('CSI-err', csi(b'y')); add('CSI-bad', E + b'[1:')
    add('DECRQCRA', E + b'[1;1;1;1;2;2*y'); add('DECSCS', E + b'[1;3*r')
    add('TABRPT', E + b'[2$w')
    return t

RESIZE = [('RESIZE(%d;%d)' % (hh, ww), E + b'[8;%d;%dt' % (hh, ww)) for hh, ww in ((10, 20), (60, 132), (0, 0), (25, 80), (1, 1))]

def emu_tokens(emu, w, h):
    """extra tokens of the small emulations (used on top of the ANSI alphabet for the wrappers)"""
    t = []
    if emu == 1:
        t += [('avt-clr', b'\x0c'), ('avt-rep', b'\x19A\x05'), ('avt-rep-big', b'\x19B\xff'), ('avt-color', b'\x16\x01\x8f'), ('avt-blink', b'\x16\x02'),
              ('avt-up', b'\x16\x03'), ('avt-down', b'\x16\x04'), ('avt-left', b'\x16\x05'), ('avt-right', b'\x16\x06'), ('avt-cleol', b'\x16\x07'),
              ('avt-goto', b'\x16\x08' + bytes([min(255, w + 1), min(255, h + 1)])), ('avt-goto-max', b'\x16\x08\xf0\xf0'), ('avt-goto0', b'\x16\x08\0\0'),
              # position bytes inside the screen: the only ones that tell a 0-based goto from the 1-based one of the merged tree
              ('avt-goto-mid', b'\x16\x08' + bytes([max(1, w // 2), max(1, h // 2)])), ('avt-goto-11', b'\x16\x08\x01\x01'), ('avt-goto-32', b'\x16\x08\x03\x02'),
              ('avt-goto-wh', b'\x16\x08' + bytes([min(255, w), min(255, h)])), ('avt-goto-x0', b'\x16\x08\x00\x02'), ('avt-goto-y0', b'\x16\x08\x02\x00'),
              ('avt-badcmd', b'\x16\x63'), ('avt-rep-esc', b'\x19\x1b\x03')]
    elif emu == 2:
        t += [('pcb-color', b'@X1F'), ('pcb-code', b'@CLS@'), ('pcb-at', b'@'), ('pcb-x', b'@Xzz')]
    elif emu == 3:
        t += [('ca-' + chr(c), b'\x01' + bytes([c])) for c in b"L'J><|]AHIENZKBGCRMYW04261537x"] + [('ca-right', b'\x01\x80'), ('ca-right-max', b'\x01\xff')]
    elif emu == 4:
        t += [('ren-fg', b'|07'), ('ren-bg', b'|23'), ('ren-bad1', b'|9'), ('ren-bad2', b'|1x'), ('ren-39', b'|39')]
    return t

def plain_tokens(emu, w, h):
    """alphabets of the standalone parsers"""
    if emu == 5:
        return [(('b%02x' % c), bytes([c])) for c in (0, 7, 8, 9, 10, 12, 13, 27, 32, 65, 127, 219, 255)]
    if emu == 7:
        return [(('b%02x' % c), bytes([c])) for c in (27, 28, 29, 30, 31, 32, 65, 0x7d, 0x7e, 0x7f, 0x9b, 0x9c, 0x9d, 0x9e, 0xfd, 0xfe, 0xff, 0xc1, 10, 13, 0)]
    if emu == 6:
        return [(('b%02x' % c), bytes([c])) for c in (0x05, 0x0a, 0x0d, 0x0e, 0x11, 0x12, 0x13, 0x14, 0x1b, 0x1d, 0x20, 0x41, 0x8d, 0x91, 0x92, 0x93, 0x9d, 0xc1, 0xff, 0x8e, 0x08, 0x09)] + \
               [('esc-' + chr(c), b'\x1b' + bytes([c])) for c in b'QP@JKADI']
    if emu in (8, 9):
        return [(('b%02x' % c), bytes([c])) for c in (0, 7, 8, 9, 10, 11, 12, 13, 14, 17, 20, 27, 28, 30, 31, 32, 65, 95, 127, 128, 129, 136, 141, 145, 152, 153, 156, 157, 158, 159, 160, 200, 255)] + \
               [('esc-' + chr(c), b'\x1b' + bytes([c])) for c in b'AMY^\\]']
    return []

def alphabet(emu, w, h, full=True):
    if emu in ANSI_BASED:
        return ansi_tokens(w, h, full) + emu_tokens(emu, w, h)
    return plain_tokens(emu, w, h)

def random_stream(rng, emu, w, h, ntok, toks=None, resize=False, light=False):
    toks = toks or alphabet(emu, w, h)
    if light:   # the Coq model runs these: keep loop counts small
        toks = [t for t in toks if b'9999' not in t[1]]
    out = []
    names = []
    for _ in range(ntok):
        r = rng.random()
        if r < 0.25:
            n, b = rng.choice([('print', bytes([rng.choice(b'ABC xyz\xdb')]) * rng.choice([1, 1, 2, 3, w])), ('LF', b'\n' * rng.choice([1, 1, 2, h])), ('CR', b'\r')])
        elif resize and r < 0.28:
            n, b = rng.choice(RESIZE)
        else:
            n, b = rng.choice(toks)
        out.append(b); names.append(n)
    return b''.join(out), names

def malformed_stream(rng, emu, n, music=False, huge=True):
    """character level: raw random bytes biased to the bytes that drive the state machines"""
    hot = b'\x1b[];?=!<*$ 0123456789;;;mHfABCDsurMLPXbYZtq\\\x07\x08\x09\x0a\x0c\x0d\x7f\x16\x19\x01@|#.+-<>OTLNPCDEFGAB\x0eh'
    out = bytearray()
    while len(out) < n:
        r = rng.random()
        if r < 0.55: out.append(rng.choice(hot))
        elif r < 0.75: out.append(rng.randrange(256))
        elif r < 0.85: out += b'\x1b['
        elif r < 0.90: out += str(rng.choice([0, 1, 2, 25, 80, 255, 2147483647, 99999999999] if huge else [0, 1, 2, 25, 80, 255, 999])).encode()
        elif r < 0.93: out += rng.choice([b'\x1bP', b'\x1b]', b'\x1b_', b'\x1b\\'])
        elif r < 0.96 and music: out += rng.choice([b'\x1b[M', b'\x1b[N', b'\x1b[|'])
        else: out += b'\n' * rng.choice([1, 3, 30])
    return bytes(out[:n])

# PETSCII byte streams (Model/Petscii.v; compared per character by C01 and C09)
PET_HOT = [0x05, 0x0a, 0x0d, 0x0e, 0x11, 0x12, 0x13, 0x14, 0x1b, 0x1d, 0x20, 0x41, 0x8d, 0x91, 0x92, 0x93, 0x9d, 0xc1, 0xff, 0x8e, 0x08, 0x09, 0x02, 0x07, 0x00, 0x7f, 0x80,
           0xa0, 0xbf, 0xc0, 0xfe, 0x60, 0x5f, 0x3f, 0x1f, 0x1c, 0x81, 0x90, 0x9f, 0x94]
def petscii_stream(rng, w, h, n):
    b = bytearray()
    while len(b) < n:
        r = rng.random()
        if r < 0.45: b.append(rng.choice(PET_HOT))
        elif r < 0.6: b += bytes([0x1b, rng.choice(b'QP@JKADIOZ\x1b\xd1')])
        elif r < 0.75: b.append(rng.randrange(256))
        elif r < 0.9: b += bytes([rng.choice([0x41, 0x20, 0xc1, 0xfe])]) * rng.choice([1, w - 1, w, w + 1])
        else: b += b'\r' * rng.choice([1, h - 1, h, h + 2])
    return bytes(b[:n])

