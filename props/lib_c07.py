"""C07 helpers: document description <-> harness spec, observation parser, PNG zTXt chunk reader/writer,
an independent python reference of the layer record (used only to build malformed payloads), Gallina printers."""
import zlib, base64, struct

INVISIBLE, SHORT_DATA, INVISIBLE_SHORT = 0x8000, 0x4000, 0xC000
ROLE_NORMAL, ROLE_PASTE_PREVIEW, ROLE_PASTE_IMAGE, ROLE_IMAGE = 0, 1, 2, 3

def hexs(bs):
    return ''.join('%02x' % b for b in bs) or '-'

def is_scalar(c):
    return 0 <= c < 0xD800 or 0xE000 <= c < 0x110000

# --------------------------------------------------------------------------- documents
# doc = {'w','h','btype','ice','pmode','fmode','sauce': None | {...}, 'palette': None | [(r,g,b)…],
#        'keep0': bool, 'fonts': [{'slot','name','kind','a','b','c'}…], 'layers': [layer…]}
# layer = {'title': str, 'role','mode','color': None|(r,g,b),'vis','locked','pos_locked','alpha','alpha_locked',
#          'transparency','ox','oy','w','h','dfp','preview': None|(x,y),'lines': [[(ch,fg,bg,page,attr)…]…]}

def u8hex(s):
    return hexs(s.encode('utf-8'))

def doc_spec(d):
    t = [d['w'], d['h'], d['btype'], d['ice'], d['pmode'], d['fmode']]
    s = d.get('sauce')
    if s is None:
        t.append(0)
    else:
        t += [1, u8hex(s['title']), u8hex(s['author']), u8hex(s['group']), len(s['comments'])]
        t += [u8hex(c) for c in s['comments']]
        t += [int(s['letter']), int(s['aspect']), int(s.get('ice', False))]
    p = d.get('palette')
    if p is None:
        t.append(-1)
    else:
        t.append(len(p))
        for c in p: t += list(c)
    t.append(int(d.get('keep0', True)))
    t.append(len(d['fonts']))
    for f in d['fonts']:
        t += [f['slot'], u8hex(f['name']), f['kind'], f['a'], f['b'], f['c']]
    t.append(len(d['layers']))
    for l in d['layers']:
        col = l['color']
        t += [u8hex(l['title']), l['role'], l['mode'], int(col is not None)] + list(col or (0, 0, 0))
        t += [int(l['vis']), int(l['locked']), int(l['pos_locked']), int(l['alpha']), int(l['alpha_locked']),
              l['transparency'], l['ox'], l['oy'], l['w'], l['h'], l['dfp']]
        pv = l.get('preview')
        t += [int(pv is not None)] + list(pv or (0, 0))
        t.append(len(l['lines']))
        for row in l['lines']:
            t.append(len(row))
            for c in row: t += list(c)
    return ' '.join(str(x) for x in t)

# --------------------------------------------------------------------------- observation parser
class Rd:
    def __init__(self, v, p=0): self.v = v; self.p = p
    def i(self):
        x = self.v[self.p]; self.p += 1; return x
    def take(self, n):
        x = self.v[self.p:self.p + n]; self.p += n; return x
    def lst(self):
        return self.take(self.i())

def parse_obs(v):
    r = Rd(v)
    o = {'w': r.i(), 'h': r.i(), 'btype': r.i(), 'ice': r.i(), 'pmode': r.i(), 'fmode': r.i()}
    if r.i():
        s = {'title': r.lst(), 'author': r.lst(), 'group': r.lst()}
        s['comments'] = [r.lst() for _ in range(r.i())]
        s['letter'] = r.i(); s['aspect'] = r.i(); s['ice'] = r.i(); s['data_type'] = r.i(); s['file_type'] = r.i()
        s['bw'] = r.i(); s['bh'] = r.i()
        s['font'] = r.lst() if r.i() else None
        o['sauce'] = s
    else:
        o['sauce'] = None
    n = r.i()
    o['palette'] = [tuple(r.take(3)) for _ in range(n)]
    o['fonts'] = {}
    for _ in range(r.i()):
        slot = r.i()
        o['fonts'][slot] = {'name': bytes(r.lst()), 'w': r.i(), 'h': r.i(), 'length': r.i(), 'hash': r.i(), 'missing': r.i()}
    o['layers'] = []
    for _ in range(r.i()):
        l = {'title': bytes(r.lst()), 'role': r.i(), 'mode': r.i()}
        hc = r.i(); rgb = tuple(r.take(3))
        l['color'] = rgb if hc else None
        for k in ('vis', 'locked', 'pos_locked', 'alpha', 'alpha_locked', 'transparency', 'ox', 'oy', 'base_ox', 'base_oy', 'w', 'h', 'dfp', 'nsixels'):
            l[k] = r.i()
        l['lines'] = []
        for _ in range(r.i()):
            n = r.i()
            l['lines'].append([tuple(r.take(5)) for _ in range(n)])
        o['layers'].append(l)
    if r.p != len(v):
        raise ValueError('trailing data in observation')
    return o

def split_icydoc(v):
    """-> (obs original | None, obs reloaded | None, file bytes | None)"""
    r = Rd(v)
    a = r.lst(); b = r.lst(); c = r.lst()
    return (parse_obs(a) if a else None, parse_obs(b) if b else None, bytes(c) if c else None)

# --------------------------------------------------------------------------- PNG container (python stdlib only)
PNG_SIG = b'\x89PNG\r\n\x1a\n'

def png_chunks(data):
    if data[:8] != PNG_SIG: raise ValueError('not a png')
    p = 8; out = []
    while p + 8 <= len(data):
        ln, = struct.unpack('>I', data[p:p + 4]); typ = data[p + 4:p + 8]
        body = data[p + 8:p + 8 + ln]
        crc, = struct.unpack('>I', data[p + 8 + ln:p + 12 + ln])
        if zlib.crc32(typ + body) & 0xFFFFFFFF != crc: raise ValueError('bad chunk crc')
        out.append((typ, body)); p += 12 + ln
    return out

def icy_chunks(data):
    """[(keyword, payload bytes)] of the zTXt chunks in file order (payload = base64-decoded, inflated text)"""
    out = []
    for typ, body in png_chunks(data):
        if typ != b'zTXt': continue
        z = body.index(b'\0')
        kw = body[:z].decode('latin-1')
        if body[z + 1] != 0: raise ValueError('unknown compression method')
        text = zlib.decompress(body[z + 2:])
        out.append((kw, base64.b64decode(text, validate=True)))
    return out

def _chunk(typ, body):
    return struct.pack('>I', len(body)) + typ + body + struct.pack('>I', zlib.crc32(typ + body) & 0xFFFFFFFF)

def make_icy(chunks):
    """a minimal 1x1 RGBA PNG carrying the given (keyword, payload) pairs as zTXt chunks before IDAT"""
    out = PNG_SIG + _chunk(b'IHDR', struct.pack('>IIBBBBB', 1, 1, 8, 6, 0, 0, 0))
    for kw, payload in chunks:
        out += _chunk(b'zTXt', kw.encode('latin-1') + b'\0\0' + zlib.compress(base64.b64encode(payload)))
    out += _chunk(b'IDAT', zlib.compress(b'\0\0\0\0\0')) + _chunk(b'IEND', b'')
    return out

# --------------------------------------------------------------------------- views (the oracle's own notion of a layer)
def get_char(l, x, y):
    """what Layer::get_char returns, as (visible, ch, fg, bg, page, attr)"""
    if x < 0 or y < 0 or x >= l['w'] or y >= l['h'] or y >= len(l['lines']) or x >= len(l['lines'][y]):
        return None
    return tuple(l['lines'][y][x])

def view(l):
    """{(x,y): cell} of the visible cells inside the layer rectangle"""
    out = {}
    for y in range(min(max(l['h'], 0), len(l['lines']))):
        row = l['lines'][y]
        for x in range(min(max(l['w'], 0), len(row))):
            c = tuple(row[x])
            if c[4] & INVISIBLE == 0: out[(x, y)] = c
    return out

# --------------------------------------------------------------------------- Gallina printers
def g_list(xs):
    return '[' + '; '.join(xs) + ']'

def g_bytes(bs):
    return g_list([str(b) for b in bs])

def g_cell(c):
    return 'mkc %d %d %d %d %d' % tuple(c)

def g_bool(b):
    return 'true' if b else 'false'

def g_layer(l):
    """Gallina term of type IcyLayer.layer (see coq/Model/IcyLayer.v mkL)"""
    title = g_bytes(l['title'].encode('utf-8') if isinstance(l['title'], str) else l['title'])
    col = 'None' if l['color'] is None else 'Some (%d, %d, %d)' % tuple(l['color'])
    pv = 'None' if l.get('preview') is None else 'Some (%d, %d)%%Z' % tuple(l['preview'])
    lines = g_list([g_list([g_cell(c) for c in row]) for row in l['lines']])
    return ('(mkL %s %d %d (%s) %s %s %s %s %s %d (%d)%%Z (%d)%%Z (%s) (%d)%%Z (%d)%%Z %d %s)' % (
        title, l['role'], l['mode'], col, g_bool(l['vis']), g_bool(l['locked']), g_bool(l['pos_locked']), g_bool(l['alpha']),
        g_bool(l['alpha_locked']), l['transparency'], l['ox'], l['oy'], pv, l['w'], l['h'], l['dfp'], lines))
