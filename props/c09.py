"""C09 — cursor and fixed-grid geometry stay consistent under any stream (DESIGN.md section 7 C09, Appendix A)."""
from props import termgen as tg

ID = 'C09'
GENERATORS = ['gen_font',     # Model/AnsiTok.v loads `CTerm:Font:` strings with C17's Model/Font.v, which needs Gen/FontConsts.v
              'gen_macro']    # Gen/MacroLimit.v: MAX_MACRO_NESTING (Model/AnsiTok.v)
COQ_TARGETS = ['Props/C09.vo', 'Run/RunC09.vo', 'Run/RunC01.vo']
PROPS_MODULE = 'Props.C09'
THEOREMS = ['c09_stream', 'origin_never_margins', 'fixed_grid_size', 'ansi_char_keeps_cursor', 'c09_petscii']
SWEEP_LEMMAS = []
TRUSTED = ['Coq 8.16.1 kernel + vm_compute (model evaluation in stage C); no axioms (Print Assumptions: closed)',
           'hand-written models Model/TermCore.v, AnsiTok.v, Emu.v: tied to the Rust source by differential runs after EVERY character (stage C), not by translation',
           'harness/src/c09.rs (observer: caret, buffer/layer/terminal sizes, row lengths, margins, tabs, modes, outcome class)']
UNMODELLED = ['PETSCII: font page / foreground colour of a cell (Model/Petscii.v, added with the C01 extension, models everything that can move the cursor or change a size)',
              'colours beyond "is palette index 0", rendition flags, font tables, SendString/PlayMusic payloads, hyperlink texts (cannot influence geometry)',
              'cell contents of Viewdata / Mode 7 (graphics, hold, fill_to_eol): their row lengths are not compared, everything else is',
              'non-terminal buffers (file loaders) and multi-layer buffers',
              'streams that execute a text-area resize (CSI 8;h;w t) are outside the property; the model carries a ghost flag for them']
ASSUMPTIONS = ['row counters (cursor row, buffer height, number of lines) stay below 2^31: `pos.y + 1` is unchecked in the model; reaching it needs >= 2^31-61 allocated rows (resource domain of C03)',
               'bytes are fed as `b as char` (code points 0..255), as the property says',
               'macro invocations nest at most MAX_MACRO_NESTING deep (Gen/MacroLimit.v, read from the source by translator/gen_macro.py, which pins the counter discipline of invoke_macro_by_id); a deeper one is an error value']
RULE = ('token streams over the alphabet of DESIGN A.4 (~75 control functions x parameters {none,0,1,mid,size,size+1,9999}; 333 concrete ANSI tokens, plus the tokens of '
        'Avatar/PCBoard/Ctrl-A/Renegade and the byte alphabets of ASCII/ATASCII/PETSCII/Viewdata/Mode 7). Stage C: seeded random streams, observation after every '
        'character. Stage S: the invariant itself after every character: every 2-token sequence (quick) / 3-token sequence over a thinned alphabet (thorough) after three '
        'set-ups (fresh screen, scrollback present, scrollback + margins), every emulation, random streams up to 4 KiB that fill the scrollback, sizes 1..=132 x 1..=60; '
        'Viewdata/Mode 7 40x24 size constancy. non-trivial = the stream moved the cursor, grew a scrollback or produced an error value')
MODEL_IMPORTS = 'From IE Require Import Run.RunC09 Run.RunC01.\nLocal Open Scope Z_scope.'

SIZES = [(80, 25), (80, 25), (40, 24), (132, 60), (5, 3), (1, 1), (2, 2), (10, 4), (7, 60), (132, 1), (1, 60), (33, 17)]

def zl(b):
    return '[%s]' % '; '.join(str(x) for x in b)

def strip_fixed(v):
    """fixed-grid emulations: drop the row-length sum of every observation and the final row lengths"""
    out = []; i = 0
    while i + 18 <= len(v) and v[i] != -7:
        out += v[i:i + 16] + v[i + 17:i + 18]; i += 18
    if i < len(v) and v[i] == -7:
        out += v[i:i + 2]
        j = v.index(-8, i)
        out += v[j:]
    return out

def gen_case(rng, emus=tg.MODELLED):
    emu = rng.choice(emus)
    w, h = rng.choice(SIZES)
    if rng.random() < 0.15:
        w, h = rng.randint(1, 132), rng.randint(1, 60)
    if emu in (8, 9) and rng.random() < 0.6: w, h = 40, 24
    music = rng.choice([0, 0, 0, 1, 2, 3, 4, 7]) if emu == 0 else 0
    ntok = rng.choice([4, 10, 20, 30])
    b, names = tg.random_stream(rng, emu, w, h, ntok, light=True, resize=(rng.random() < 0.15))
    if rng.random() < 0.3:
        b = b'\n' * (h + rng.choice([1, 5, 16])) + b     # scrollback first
    return emu, music, w, h, b, names

def correspondence(ctx):
    n = ctx.n(400, 4000)
    meta = [gen_case(ctx.rng) for _ in range(n)]
    # the streams of the defect ledger
    E = tg.E; LF40 = b'\n' * 40
    for emu, b in [(0, E + b'[20Y'), (0, LF40 + b'\x0c'), (0, E + b'[s' + LF40 + E + b'[u'), (0, E + b'7' + LF40 + E + b'8'), (1, b'\x16\x08\xf0\xf0'),
                   (1, b'\x16\x04' * 40), (3, LF40 + b"\x01'"), (0, LF40 + E + b'[!p'), (0, LF40 + E + b'c'), (0, E + b'[0;0r' + E + b'[M' + E + b'[L'),
                   (0, b'\x0c' + E + b'[ @' + E + b'[ A'), (0, b'\n' * 80 + E + b'[2147483647e'), (0, E + b'[1;2147483647r' + E + b'[M')]:
        meta.append((emu, 0, 80, 25, b, ['ledger']))
    # PETSCII (Model/Petscii.v): byte streams, observation after every character
    for _ in range(ctx.n(40, 400)):
        w, h = ctx.rng.choice(SIZES)
        meta.append((6, 0, w, h, tg.petscii_stream(ctx.rng, w, h, ctx.rng.choice([5, 20, 60, 150])), ['petscii']))
    cases = ['term %d %d %d %d %s' % (e, mu, w, h, tg.hx(b)) for e, mu, w, h, b, _ in meta]
    exprs = [('run_term_pet %d %d %s' % (w, h, zl(b))) if e == 6 else ('run_term %d %d %d %d %s' % (e, mu, w, h, zl(b))) for e, mu, w, h, b, _ in meta]
    impl = ctx.impl(cases, per_case_timeout=30)
    model = ctx.model(MODEL_IMPORTS, exprs, timeout=900)
    dis = []; nontriv = set(); dist = {}
    for c, r, m, me in zip(cases, impl, model, meta):
        emu = me[0]
        dist[tg.EMU_NAMES[emu]] = dist.get(tg.EMU_NAMES[emu], 0) + 1
        if r is None or r[0] != 'ok':
            a = [-1] if r and r[0] == 'panic' else [str(r)]
            mm = m[:1] if m else m
            if not (m and m[0:1] == [-1] and r and r[0] == 'panic') and not (m and m[-2:-1] == [-1] and r and r[0] == 'panic'):
                dis.append({'case': c, 'impl': list(r) if r else None, 'model': None if m is None else m[-4:], 'tokens': me[5][:30]})
            continue
        a = r[1]
        if emu in (8, 9) and m:
            a, m = strip_fixed(a), strip_fixed(m)
        if a != m:
            k = next((i for i in range(min(len(a), len(m or []))) if a[i] != m[i]), 0) if m else 0
            per = 17 if emu in (8, 9) else 18
            dis.append({'case': c, 'first_difference_at_char': k // per, 'impl': a[k - k % per:k - k % per + per], 'model': None if m is None else m[k - k % per:k - k % per + per],
                        'tokens': me[5][:30]})
        else:
            obs = r[1]
            if any(obs[i] == 1 for i in range(0, len(obs) - 4, 18) if obs[i] in (0, 1)) or (len(obs) > 40 and (obs[-1] != 0 or obs[4] > me[3] or obs[1] or obs[2])):
                nontriv.add(c)
    return {'cases': len(cases), 'disagreements': dis, 'distinct_nontrivial': len(nontriv),
            'distribution': {'per_emulation': dist, 'model_errors': getattr(ctx, 'model_errors', [])[:2],
                             'observations_per_stream': 'one 18-tuple after every character + final row lengths and tab stops'},
            'samples': [cases[0][:300], cases[len(cases) // 2][:300]]}

# ---- search: the invariant on the real code --------------------------------------------------------------------------------
KIND = {1: 'column-outside-screen', 2: 'row-outside-visible-rows', 3: 'fixed-grid-size-changed'}

def tok_class(name):
    return name.split('(')[0]

def thin(toks):
    """first and last variant of every token kind"""
    groups = {}
    for n, b in toks:
        groups.setdefault(tok_class(n), []).append((n, b))
    out = []
    for k, g in groups.items():
        out.append(g[0])
        if len(g) > 1: out.append(g[-1])
    return out

def setups(w, h):
    E = tg.E
    return [('fresh', b''), ('scrollback', b'\n' * (h + 15)), ('scrollback+margins', b'\n' * (h + 7) + E + b'[2;%dr' % max(2, h - 1) + E + b'[?69h' + E + b'[2;%ds' % max(2, w - 1) + b'AB')]

def search(ctx, broken):
    failures = []; cases = []; meta = []
    E = tg.E; LF40 = b'\n' * 40
    nontriv = 0
    # 1. disagreeing inputs of stage C first, then the regression corpus (ledger)
    for b in broken:
        d = b.get('detail') or {}
        c = str(d.get('case', '')) if isinstance(d, dict) else ''
        if c.startswith('term '):
            cases.append('c09inv ' + c[5:]); meta.append(('inv', int(c.split()[1]), None, None))
    corpus = [(0, 80, 25, E + b'[20Y', 'CVT'), (0, 80, 25, LF40 + b'\x0c', 'FF'), (0, 80, 25, E + b'[s' + LF40 + E + b'[u', 'RCP'),
              (0, 80, 25, E + b'7' + LF40 + E + b'8', 'DECRC'), (1, 80, 25, b'\x16\x08\xf0\xf0', 'avt-goto'), (1, 80, 25, b'\x16\x04' * 40, 'avt-down'),
              (1, 40, 25, b'\x16\x06' * 45, 'avt-right'), (1, 80, 25, LF40 + b'\x16\x03' * 30, 'avt-up'), (3, 80, 25, LF40 + b"\x01'", 'ca-home'),
              (0, 80, 25, LF40 + E + b'[!p', 'DECSTR'), (0, 80, 25, LF40 + E + b'c', 'RIS'), (0, 80, 25, E + b'[20Z', 'CBT')]
    for emu, w, h, b, cls in corpus:
        cases.append('c09inv %d 0 %d %d %s' % (emu, w, h, tg.hx(b))); meta.append(('corpus', emu, cls, None))
    # 2. exhaustive token sequences
    deep = ctx.thorough          # the 3-token enumeration is too long for an escalated run (budget ~5 min)
    exh = []
    for emu in (0, 1, 2, 3, 4):
        for (w, h) in ([(80, 25), (4, 3)] if emu == 0 else [(80, 25)]):
            toks = tg.alphabet(emu, w, h) if emu == 0 else thin(tg.alphabet(emu, w, h, False)) + tg.emu_tokens(emu, w, h)
            sts = setups(w, h) if emu == 0 else setups(w, h)[1:2]
            for sname, sb in sts:
                exh.append((emu, w, h, 2, sname, sb, toks))
            if deep and emu == 0 and (w, h) == (80, 25):
                t3 = thin(tg.alphabet(emu, w, h, False))
                for sname, sb in setups(w, h)[:2]:
                    exh.append((emu, w, h, 3, sname, sb, t3))
    for emu in (5, 6, 7, 8, 9):
        w, h = (40, 24) if emu in (8, 9) else (20, 6)
        toks = tg.alphabet(emu, w, h)
        for sname, sb in [('fresh', b''), ('filled', b'A' * (w * (h + 3)))]:
            exh.append((emu, w, h, 3 if len(toks) <= 40 else 2, sname, sb, toks))
    for emu, w, h, depth, sname, sb, toks in exh:
        arg = ','.join(tg.hx(b) for _, b in toks)
        for first in range(len(toks)):
            cases.append('c09exh %d 0 %d %d %d %s %d %s' % (emu, w, h, depth, tg.hx(sb), first, arg))
            meta.append(('exh', emu, (depth, toks, sname), None))
    # 3. heavy tokens with 9999 and every token once after every set-up, several sizes
    for (w, h) in [(80, 25), (132, 60), (1, 1), (3, 2)]:
        toks = tg.alphabet(0, w, h)
        heavy = [(n + '-9999', tg.csi(f, 9999)) for n, f, ax, hv in tg.ONE_PARAM if hv] + [('SL-9999', tg.csi(b'@', 9999, inter=b' ')), ('SR-9999', tg.csi(b'A', 9999, inter=b' '))]
        for sname, sb in setups(w, h):
            for n, b in toks + (heavy if (w, h) in ((80, 25), (3, 2)) else []):
                cases.append('c09inv 0 0 %d %d %s' % (w, h, tg.hx(sb + b))); meta.append(('single', 0, tok_class(n), None))
    # 4. seeded random streams up to 4 KiB that fill the scrollback, every emulation, every size
    nrand = min(ctx.n(2000, 25000), 25000)
    for i in range(nrand):
        emu = ctx.rng.choice([0, 0, 0, 1, 2, 3, 4, 5, 6, 7, 8, 9])
        w, h = ctx.rng.choice(SIZES) if ctx.rng.random() < 0.7 else (ctx.rng.randint(1, 132), ctx.rng.randint(1, 60))
        if emu in (8, 9): w, h = 40, 24
        music = ctx.rng.choice([0, 0, 1, 2, 3, 4]) if emu == 0 else 0
        ntok = ctx.rng.choice([5, 20, 60, 200, 600])
        toks = tg.alphabet(emu, w, h)
        toks = [t for t in toks if b'9999' not in t[1] or ctx.rng.random() < 0.05]
        b, names = tg.random_stream(ctx.rng, emu, w, h, ntok, toks=toks)
        if ctx.rng.random() < 0.4: b = b'\n' * (h + ctx.rng.choice([1, 9, 40])) + b
        if ctx.rng.random() < 0.1: b = tg.malformed_stream(ctx.rng, emu, ctx.rng.choice([100, 1000, 4096]), music != 0, huge=False)
        b = b[:4096]
        cases.append('c09inv %d %d %d %d %s' % (emu, music, w, h, tg.hx(b))); meta.append(('random', emu, None, b))
    impl = ctx.impl(cases, per_case_timeout=30)
    n_seq = 0
    for c, r, me in zip(cases, impl, meta):
        kind, emu = me[0], me[1]
        if r[0] != 'ok':
            # crashes are C01's business; they do not make the cursor invalid. Counted, not failed, unless nothing else ran.
            continue
        v = r[1]
        if kind == 'exh':
            depth, toks, sname = me[2]
            n_seq += v[0]
            if v[1] > 0:
                rec = v[2:]; per = depth + 6
                for k in range(0, len(rec), per):
                    idx = rec[k:k + depth]; ci, vk, x, y, first, tpos = rec[k + depth:k + per]
                    names = [toks[i][0] for i in idx]
                    failures.append({'signature': 'C09:%s:%s:%s' % (tg.EMU_NAMES[emu], KIND[vk], tok_class(names[tpos])),
                                     'input': 'c09inv %s %s' % (' '.join(c.split()[1:5]), tg.hx(tg_un(c.split()[6]) + b''.join(toks[i][1] for i in idx))),
                                     'impl': {'cx': x, 'cy': y, 'first_visible_line': first}, 'expected': 'cursor inside the visible screen',
                                     'detail': 'after set-up %s, tokens %s' % (sname, ' '.join(names))})
            continue
        n_seq += 1
        if v[0] > 3: nontriv += 1
        if v[1] >= 0:
            cls = me[2] or 'stream'
            failures.append({'signature': 'C09:%s:%s:%s' % (tg.EMU_NAMES[emu], KIND[v[2]], cls), 'input': c,
                             'impl': {'char_index': v[1], 'cx': v[3], 'cy': v[4], 'first_visible_line': v[5], 'tw': v[6], 'th': v[7], 'buffer': v[8:10], 'layer': v[10:12], 'lines': v[12]},
                             'expected': 'cursor inside the visible screen / fixed grid keeps its size', 'detail': 'first violation after character %d' % v[1]})
    failures.sort(key=lambda f: len(str(f['input'])))
    crashed = sum(1 for r in impl if r[0] != 'ok')
    return {'cases': n_seq, 'failures': failures, 'distinct_nontrivial': nontriv + sum(1 for m_ in meta if m_[0] == 'exh'),
            'harness_cases': len(cases), 'crashed_or_timed_out (not a C09 matter, see C01)': crashed,
            'samples': [cases[0][:200], cases[-1][:200]]}

def tg_un(h):
    return b'' if h == '-' else bytes.fromhex(h)

def replay(ctx, body):
    from vlib import driver
    inp = body.get('input')
    print('replay', ID, inp)
    driver.stage_build()
    r = ctx.impl([inp], per_case_timeout=60)[0]
    print('implementation (n_fed viol_index kind cx cy first tw th bw bh lw lh nlines resized_at):', r)
    parts = inp.split()
    if parts[0] in ('c09inv', 'term'):
        b = tg_un(parts[5])
        if int(parts[1]) != 6:
            m = ctx.model(MODEL_IMPORTS, ['run_term %s %s %s %s %s' % (parts[1], parts[2], parts[3], parts[4], zl(b))])
            print('model (last observation: cls cx cy bw bh lw lh tw th nlines ...):', None if not m[0] else m[0][-60:])
        return 0 if (r[0] == 'ok' and r[1][1] < 0) else 1
    return 1

LEVEL_TEXT = ('Machine-checked proof (Coq, closed under the global context) over ALL character streams of any length. Hand model of the terminal core (caret motions, '
              'line feed with scrollback growth, printing with insert mode and auto-wrap, scrolling, erasing, line insertion/removal, margins, tab stops, limit_caret_pos), '
              'of ansi::Parser::print_char at character level (every EngineState: CSI with parameter accumulation, ?, =, !, <, intermediates, DCS with macro definition/'
              'invocation incl. recursion fuel, OSC, APS, ANSI music) and of Avatar, PCBoard, Ctrl-A, Renegade, ASCII, ATASCII, Viewdata, Mode 7. Theorems: c09_stream (every '
              'emulation but the fixed grids, every music option, every size 1..=132 x 1..=60, every stream that executes no text-area resize: 0 <= x < width and first visible '
              'row <= y < first + height after every character), origin_never_margins (origin mode is never WithinMargins, margins stay inside the screen), fixed_grid_size '
              '(Viewdata/Mode 7: terminal, buffer and layer keep exactly w x h, at most h rows allocated, for every stream). The theorems hold for the code WITH eight fix: '
              'commits (CVT, FF, RCP, DECRC, DECSTR, Avatar goto, Avatar relative moves, Ctrl-A home) which repair the defects of the ledger. c09_petscii (added with the C01 extension): PETSCII (Model/Petscii.v) keeps the same cursor invariant for every stream; it has no resize, so no side condition.')
LEVEL_NOTE = ('Trusted: Coq kernel + vm_compute; the hand models are tied to the Rust code by differential execution with an observation after every character (caret, sizes, '
              'row lengths, margins, tabs, modes, outcome class); row counters are unbounded in the model (an i32 row overflow needs 2^31 allocated rows).')
TECHNIQUE = ('Coq proof: inductive invariant (geometry + margins inside the screen + cursor inside the visible rows) preserved by every operation, every parser state and every '
             'emulation, lifted over streams by induction (macro replay by induction on the recursion fuel); differential tie after every character; exhaustive 2/3-token search of the invariant on the real code')
