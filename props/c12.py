"""C12 — default (colour-optimised) saving never changes the rendered picture (DESIGN.md section 7, C12)."""
ID = 'C12'
GENERATORS = ['gen_codepage', 'gen_comp', 'gen_fonts', 'gen_sixel']
COQ_TARGETS = ['Props/C12.vo', 'Run/RunC12.vo']
PROPS_MODULE = 'Props.C12'
THEOREMS = ['optimize_preserves_render', 'optimize_size', 'optimize_total', 'optimize_changes_only_invisible',
            'document_render_preserved', 'builtin_fonts_ok', 'font_table_ok', 'flat_layer_get_char', 'composite_cells_wf']
SWEEP_LEMMAS = ['ColorOptProofs.row_sweep (9 widths x 256 row bytes: popcount / bit-column facts)',
                'Props.C12.builtin_fonts_ok (font_ok_b over every glyph of the 60 built-in fonts regenerated from data/fonts)']
TRUSTED = ['Coq 8.16.1 kernel + vm_compute; no axioms (Print Assumptions: closed)',
           'translator/gen_fonts.py: parser of the fonts![]/sauce_fonts![] tables and python re-implementation of BitFont::from_bytes (PSF1/PSF2/raw); every generated glyph is compared with the real loader on every run (stage C, exhaustive)',
           'translator/gen_codepage.py (attribute flag constants), gen_comp.py (TRANSPARENT_COLOR), gen_sixel.py (DOS_DEFAULT_PALETTE)',
           'hand model of ColorOptimizer::optimize / get_shape / render_to_rgba (character part) / Palette::get_rgb, tied by differential runs (optimised cells cell-exact, rendered RGBA byte-exact)',
           'reflat / wf_cell are proved against the compositing model of property C13 (flat_layer_get_char, composite_cells_wf) and additionally tied by the byte-exact render comparison']
UNMODELLED = ['sixel layers (flat_clone drops them; outside the quantifier)', 'cells with TextAttribute::TRANSPARENT_COLOR (half-block compositing is property C13)',
              'the pixel array layout of render_to_rgba is modelled as a grid of per-cell blocks; overlapping writes cannot occur because blocks are clipped to font 0\'s cell size']
ASSUMPTIONS = ['fonts satisfy fonts_ok (width 1..8, glyph rows = height, no bits outside the width, blank space glyph if present): proved for all built-in fonts, a hypothesis for user-loaded fonts',
               'composited cells are visible without transparent colour, or AttributedChar::invisible() with font page 0 (layers made by Layer::new)']
RULE = ('documents of 1..4 layers (alpha/opaque, offsets -3..4, hidden) of 1..8 x 1..4 cells, characters biased to blank (0,32,255), solid (219) and shaded/box glyphs plus random codes, '
        'fg/bg 0..15 and inserted RGB palette entries, bold flag, up to three font slots incl. an 8x8 font, both normalize_whitespaces settings; non-trivial = the optimiser changed at least one cell; '
        'plus the exhaustive glyph-by-glyph tie of the 60 generated built-in fonts')

CHARS = [0, 32, 255, 219, 176, 177, 178, 220, 223, 65, 1, 254]

def gen_doc(rng, big=False):
    w = rng.randint(1, 16 if big else 6); h = rng.randint(1, 8 if big else 3)
    slots = [(0, 0)]
    r = rng.random()
    if r < 0.35: slots.append((1, rng.choice([5, 26, 37, 42])))
    if r < 0.15: slots.append((2, 32))
    extra = [(rng.randrange(256), rng.randrange(256), rng.randrange(256)) for _ in range(rng.choice([0, 0, 2]))]
    ncol = 16 + len(extra)
    layers = []
    for li in range(rng.randint(1, 4)):
        visible = rng.random() < 0.85
        alpha = rng.random() < 0.5 if li > 0 else rng.random() < 0.2
        offx, offy = (0, 0) if rng.random() < 0.5 else (rng.randint(-3, 4), rng.randint(-2, 3))
        lw, lh = (w, h) if rng.random() < 0.6 else (rng.randint(1, w + 2), rng.randint(1, h + 1))
        cells = []
        dens = rng.choice([0.3, 0.7, 1.0])
        for y in range(lh):
            for x in range(lw):
                if rng.random() > dens: continue
                ch = rng.choice(CHARS) if rng.random() < 0.8 else rng.randrange(256)
                fg = rng.randrange(ncol); bg = rng.randrange(ncol)
                at = 1 if rng.random() < 0.25 else 0
                page = rng.choice(slots)[0]
                cells.append((x, y, ch, fg, bg, at, page))
        layers.append((visible, alpha, offx, offy, lw, lh, cells))
    return (w, h, slots, extra, layers)

def doc_args(d):
    w, h, slots, extra, layers = d
    a = [w, h, 0, len(slots)] + [v for s in slots for v in s] + [len(extra)] + [v for e in extra for v in e] + [len(layers)]
    for (vis, alpha, ox, oy, lw, lh, cells) in layers:
        a += [int(vis), int(alpha), ox, oy, lw, lh, len(cells)] + [v for c in cells for v in c]
    return ' '.join(map(str, a))

def coq_list(l): return '[%s]' % '; '.join(map(str, l))
def coq_slots(slots): return '[%s]' % '; '.join('(%d, %d)' % s for s in slots)
def coq_bool(b): return 'true' if b else 'false'

FONT_KEYS = list(range(43)) + [99] + [100 + j for j in range(16)]

def correspondence(ctx):
    rng = ctx.rng
    docs = [(gen_doc(rng), rng.random() < 0.5) for _ in range(ctx.n(150, 2500))]
    # regression / boundary documents
    docs.insert(0, ((3, 1, [(0, 0)], [], [(True, False, 0, 0, 3, 1, [(0, 0, 65, 14, 1, 0, 0), (2, 0, 219, 4, 2, 0, 0)])]), True))
    docs.insert(1, ((2, 1, [(0, 0)], [], [(True, False, 0, 0, 2, 1, [(0, 0, 65, 1, 2, 0, 0)]), (True, True, 1, 0, 1, 1, [])]), False))
    # every glyph of a font page in one document: ties get_shape for all 256 codes of that page
    pages = list(range(43))
    for pg in pages:
        cells = [(i % 64, i // 64, i, 1 + (i * 7) % 15, (i * 3) % 16, 0, 0) for i in range(256)]
        docs.append(((64, 4, [(0, pg)], [], [(True, False, 0, 0, 64, 4, cells)]), pg % 2 == 0))
    opt_cases = ['opt %d %s' % (int(n), doc_args(d)) for d, n in docs]
    nrend = ctx.n(40, 400)
    rend_cases = ['rend %d %s' % (int(n), doc_args(d)) for d, n in docs[:nrend]]
    font_cases = ['fontdump %d' % k for k in FONT_KEYS]
    impl = ctx.impl(opt_cases + rend_cases + font_cases, per_case_timeout=20)
    io, ir, ifo = impl[:len(opt_cases)], impl[len(opt_cases):len(opt_cases) + len(rend_cases)], impl[len(opt_cases) + len(rend_cases):]
    exprs = []; expect = []; labels = []
    changed = 0
    for (d, n), c, r in zip(docs, opt_cases, io):
        w, h, slots, extra, layers = d
        if r[0] == 'ok':
            comp = r[1][2:2 + 5 * w * h]
            optc = r[1][2 + 5 * w * h + 3:]
            if comp != optc: changed += 1
            exprs.append('run_opt %s %s %d %s' % (coq_bool(n), coq_slots(slots), w, coq_list(comp))); expect.append(optc); labels.append(c)
        else:
            exprs.append('[0%Z]'); expect.append(None); labels.append(c)
    for (d, n), c, r, ro in zip(docs[:nrend], rend_cases, ir, io):
        w, h, slots, extra, layers = d
        if r[0] == 'ok' and ro[0] == 'ok':
            comp = ro[1][2:2 + 5 * w * h]
            exprs.append('run_rend %s %s %d [%s] %s' % (coq_bool(n), coq_slots(slots), w, '; '.join('(%d, %d, %d)' % e for e in extra), coq_list(comp)))
            expect.append(r[1][5:]); labels.append(c)
        else:
            exprs.append('[0%Z]'); expect.append(None); labels.append(c)
    for i, (k, r) in enumerate(zip(FONT_KEYS, ifo)):
        exprs.append('font_rows %d' % i); labels.append('fontdump %d' % k)
        if r[0] == 'ok':
            v = r[1]; out = v[:3]; j = 3
            for _ in range(v[2]):
                ln = v[j]; out += v[j + 1:j + 1 + ln]; j += 1 + ln
            expect.append(out)
        else: expect.append(None)
    model = ctx.model('From IE Require Import Run.RunC12.\nLocal Open Scope N_scope.', exprs, timeout=900)
    dis = []
    for lab, e, m, r in zip(labels, expect, model, io + ir + ifo):
        if e is None:
            # implementation did not return Ok: the optimiser panicked (font page without font) -- the model must panic too
            if not (r[0] == 'panic'):
                dis.append({'case': lab[:300], 'impl': list(r)[:2], 'model': 'n/a'})
            continue
        if m != e:
            k = next((i for i, (a, b) in enumerate(zip(m or [], e)) if a != b), None)
            dis.append({'case': lab[:400], 'impl': e[:30], 'model': (m or [])[:30], 'first_difference_at': k})
    return {'cases': len(labels), 'disagreements': dis, 'distinct_nontrivial': changed + len(FONT_KEYS), 'exhaustive': False,
            'distribution': {'documents': len(docs), 'documents_changed_by_optimiser': changed, 'render_compared': len(rend_cases),
                             'fonts_compared_glyph_by_glyph': len(FONT_KEYS), 'impl_non_ok': sum(1 for r in io if r[0] != 'ok'),
                             'model_errors': getattr(ctx, 'model_errors', [])[:2]},
            'samples': [opt_cases[0][:200], rend_cases[0][:200], font_cases[0]]}

def search(ctx, broken):
    rng = ctx.rng
    docs = [(gen_doc(rng, big=(i % 4 == 0)), rng.random() < 0.5) for i in range(ctx.n(1500, 20000))]
    cases = ['rendeq %d %s' % (int(n), doc_args(d)) for d, n in docs]
    for b in broken:
        d = b.get('detail') or {}
        c = str(d.get('case', '')) if isinstance(d, dict) else ''
        if c.startswith('opt ') or c.startswith('rend '):
            cases.insert(0, 'rendeq ' + c.split(' ', 1)[1])
    impl = ctx.impl(cases, per_case_timeout=20)
    failures = []
    for c, r in zip(cases, impl):
        if r[0] != 'ok':
            failures.append({'signature': 'optimiser-' + r[0], 'input': c, 'impl': list(r), 'detail': 'optimise/render died'}); continue
        eq, pw, ph, pw2, ph2, first = r[1]
        if (pw, ph) != (pw2, ph2):
            failures.append({'signature': 'optimised-size-differs', 'input': c, 'impl': r[1], 'detail': 'rendered size %dx%d vs %dx%d' % (pw, ph, pw2, ph2)})
        elif not eq:
            px = first // 4
            failures.append({'signature': 'optimised-render-differs', 'input': c, 'impl': r[1],
                             'detail': 'first differing byte %d = pixel (%d,%d) channel %d' % (first, px % pw, px // pw, first % 4)})
    failures.sort(key=lambda f: len(f['input']))
    return {'cases': len(cases), 'failures': failures, 'distinct_nontrivial': len(set(cases)), 'samples': [cases[0][:200]]}

def replay(ctx, body):
    from vlib import driver
    driver.stage_build()
    inp = body.get('input')
    r = ctx.impl([inp], per_case_timeout=20)[0]
    print('replay', ID, inp); print('implementation (eq pw ph pw2 ph2 first_diff):', r)
    return 0 if (r[0] == 'ok' and r[1][0] == 1) else 1

LEVEL_TEXT = ('Machine-checked proof (Coq, closed under the global context): for every flattened buffer (any size, any cells, any palette, any carried cur_attr), '
              'both normalize_whitespaces settings and every font table satisfying fonts_ok, the cells written by ColorOptimizer::optimize render to exactly the same pixel blocks, '
              'the buffer keeps its size, the optimiser does not panic when every cell has a glyph, and a cell changes only in the fg of a blank glyph, the bg of a solid glyph or which blank '
              'character is used; lifted to the document level through the flat_clone/Buffer::get_char round trip (document_render_preserved). fonts_ok is proved for all 60 built-in fonts from '
              'glyph data regenerated from data/fonts on every run. Full for the stated font hypothesis; transparent-colour cells and sixels are outside (named).')
LEVEL_NOTE = ('Trusted: Coq kernel + vm_compute; hand model of optimize/get_shape/render_to_rgba tied cell-exact and byte-exact to the real code on generated documents; font translator tied exhaustively; '
              'the composite (Buffer::get_char) itself is property C13.')
TECHNIQUE = 'Coq proof: per-cell pixel-block invariance (blank/solid glyph lemmas from a complete 9x256 row sweep) lifted by induction over rows with the carried attribute; reflective font check over regenerated glyph data'
