"""C20 — RIPscrip and IGS command streams never crash or stall the engine (DESIGN.md section 7, C20).

Proof part (Coq): RIP tokenizer state machine + base-36 parameter parsers + the level-0 commands whose `run`
only touches the modelled BGI kernel.  Search part (this file, `search`): the complete RIP and IGS command tables
against the real parsers in sandboxed workers."""
import os, re, itertools

ID = 'C20'
GENERATORS = ['gen_rip', 'gen_ripline', 'gen_igs']
COQ_TARGETS = ['Props/C20.vo', 'Run/RunC20.vo']
PROPS_MODULE = 'Props.C20'
THEOREMS = ['base36_total', 'base36_non_digit_is_error', 'parse_step_safe', 'tokenizer_safe', 'arity_bound', 'params_in_range', 'tok_resync',
            'pstate_overflow_witness', 'row_loop_checked', 'row_guard_is_break', 'bar_rect_safe', 'put_pixel_safe', 'kernel_safe', 'kernel_seq_safe', 'rip_stream_safe',
            # extension 1: line family
            'line_canvas_generic', 'fill_x_generic', 'fill_y_generic', 'line_safe', 'rectangle_safe', 'draw_poly_safe', 'draw_poly_line_safe', 'line_cost',
            'tokenizer_vec_range', 'kernel2_safe', 'kernel2_seq_safe', 'kernel2_modelled', 'rip_stream_safe2',
            # extension 2 / 3: IGS tokenizer, IGS pixel kernel
            'igs_tokenizer_safe', 'igs_next_action_safe', 'igs_stream_safe', 'igs_loop_step_safe', 'igs_loop_progress', 'igs_loop_terminates', 'igs_loop_step0_stuck_before_fix', 'igs_executor_invariant',
            'igs_set_pixel_safe', 'igs_get_pixel_safe', 'igs_fill_rect_safe', 'igs_fill_rect_cost', 'igs_picture_safe', 'igs_kernel_safe', 'igs_stream_kernel_safe',
            'igs_clip_line_safe', 'igs_draw_line_total', 'igs_draw_line_before_fix', 'igs_draw_line_before_fix_stall', 'igs_kernel2_safe', 'igs_stream_kernel2_safe']
SWEEP_LEMMAS = ['RipTokProofs.tables_ok (all 52 generated parse tables: every field index inside the struct, `_` arm is text or error, a continuing arm of a fixed-arity table has a successor, no empty fixed-arity table)',
                'RipStreamProofs.kernel_weights_ok (no field of a kernel command is fed more than two base-36 digits)',
                'RipTokProofs.lf_not_command (line feed is not a command letter in the three generated dispatch tables)',
                'RipStream2Proofs.line_weights_ok (Line / Rectangle / polygon point count fields are fed two base-36 digits, LineStyle 2 + 4 + 2) and BgiLineProofs.line_patterns_shape / linestyle_from_range (5 line patterns, 16 pattern bits, LineStyle::from lands in 0..=4)',
                'IgsKernelProofs.resolutions_ok / igs_patterns_shape / igs_pixels_ok (3 resolutions within 1..=1024, no empty fill pattern, 24 / 6 / 6 pattern tables, initial pixels below 16, 16-colour palettes) and the IgsTokProofs check that `&` is not a from_char letter',
                'BgiProofs.fill_patterns_shape / ega_length / moduli / fillstyle_from_range / screen_size (generated constants: 13 patterns of 8 bytes, 64 EGA colours, colour moduli 16, FillStyle::from lands in 0..=12, window 640x350 <= 1024)']
TRUSTED = ['Coq 8.16.1 kernel + vm_compute (table sweeps, model evaluation); no axioms (Print Assumptions: closed). Uint63 primitive integers are used ONLY by the canvas hash of Run/RunC20.v (stage C), in no theorem',
           'translator/gen_rip.py + vlib/rustsrc.py: dispatch tables, per-command parse tables, constants; token-for-token pins of parse_base_36 and the nine irregular parse functions',
           'hand-written Model/RipTok.v, BgiKernel.v, RipStream.v, BgiLine.v, RipStream2.v, IgsTok.v, IgsKernel.v, tied to the source by the differential runs of stage C (state + canvas hashes on streams of modelled commands; the line primitives called directly with arbitrary i32 arguments; IGS picture hashes, error and loop-step counts) and by translator/gen_ripline.py / gen_igs.py (constants, tables, sha-256 token pins of 31 hand-modelled function bodies)',
           'harness/src/c20.rs (stdout redirected while a case runs; icon files written to the temp dir), the worker limits (5 s / 1 GiB), the panic-location -> function map of props/c20.py']
UNMODELLED = ['RIP primitives beyond put_pixel / get_pixel / bar / bar_rect / fill_x / fill_y / line / rectangle / draw_poly / draw_poly_line: circle, ellipse, arcs, pie slices, bezier, filled polygons, flood fill, fonts and text output, buttons, mouse fields, icons, get/put image (search stage only)',
              'Command::run of FontStyle, Mouse, Button, ButtonStyle, LoadIcon, FileQuery, GetImage, PutImage, CopyRegion, Circle, Oval*, Arc*, PieSlice*, Bezier, FilledPolygon, Fill, Text, TextXY: reaching one is the explicit outcome OUnmodelled2',
              'the wrapped ansi::Parser of both parsers (a parameter of the stream theorems: any behaviour), TerminalState::set_text_window (terminal margins), Buffer::clear_screen',
              'IGS: every DrawExecutor command except ColorSet, FilledRectangle, AttributeForFills, ScreenClear, SetResolution, HollowSet, DrawingMode, SetPenColor, DrawLine, LineDrawTo, LineMarkerTypes (with the right parameter count they are the explicit outcome XUnmodelled; the tokenizer theorems hold for EVERY executor); the unchecked `x += p.len() as i32` of the loop parameter count (needs 2^31 parameters)',
              'running time: cost theorems only for Bgi::line (put_pixel calls), IGS fill_rect (fill_pixel calls <= width x height), IGS draw_line (at most width + height - 1 loop iterations since the line is clipped first) and IGS loops (every loop ends after at most |to - from| steps); otherwise the search stage enforces 5 s of CPU per command under the worker',
              'IGS clip_line is proved safe and on-screen (no i128 overflow, no division by zero, both end points inside the screen); that the clipped line is the visible part of the original line (up to rounding) is NOT proved — the search stage compares it with an independent rational-arithmetic clipper']
ASSUMPTIONS = ['streams shorter than 2^31 characters: parameter_state (i32) overflows in the dev profile after 2^31-1 parameter characters of a single command (theorem pstate_overflow_witness); not reproducible under the 1 GiB worker limit',
               'buf.terminal_state.cleared_screen is never set by the engine (the only assignment in the crate is the reset inside rip print_char), so the graph_defaults prologue of print_char is not modelled',
               'Rust i32 arithmetic panics on overflow (dev profile); `as u8` / `as usize` / `as u32` truncate or reinterpret as written in the model',
               'IGS: fewer than 2^31 loop parameters (the parameter-count fold `x += p.len() as i32` is modelled unbounded); i128 arithmetic of clip_line is modelled with explicit overflow sites that are proved unreachable for i32 arguments']
RULE = ('search: every RIP command letter of the three dispatch tables (read from rip/mod.rs) x every parameter string over {0,1,Z} up to length 4 (quick) / 6 (thorough) and the uniform strings up to '
        'length 24, terminated by | and by newline, on a fresh parser and on two prelude states; non-base-36 characters in six positions of every command; ~280 hand-picked special streams '
        '(continuation lines, text variables, unknown commands, plain text, buttons, icons, images, fills); every IGS command letter (igs/cmd.rs) x 0..=12 parameters from '
        '{-50,-1,0,1,7,99,320,640,99999} (uniform + seeded mixed lists), loops, chained commands, ~170 special streams; seeded random sequences of 1..=20 commands on the state left by their predecessors. '
        'correspondence: seeded streams of 1..=20 modelled commands (truncated / over-long / non-digit / continuation-line parameters, line ends, lead-in variants). '
        'extension: streams of Line / Rectangle / Polygon / PolyLine / LineStyle commands on a small viewport (ripobs2), Bgi::line / rectangle / draw_poly / draw_poly_line called directly with arbitrary i32 arguments (ripline), '
        'IGS streams over the modelled executor arms with loops (step 0, step i32::MAX, parameter values at the i32 limits), far lines, wrong parameter counts, separators and junk (igsobs); search: + regression streams of every repaired finding, ten loops of known length drained by igsdrain, '
        'lines with end points from the whole i32 range against an exact-fraction Liang-Barsky clipper (igspix), the repaired IGS primitives with i32-extreme parameters through loop parameters. '
        'non-trivial = stream longer than 3 characters answered without failure; distinct = distinct streams')

# ---------------------------------------------------------------------------------------------------------------
# command tables, read from the source on every run
def rip_tables(repo):
    """-> (level0, level1, level9): dict letter -> (struct name, 'start'|'push'), from the match arms of print_char"""
    with open(os.path.join(repo, 'src/parsers/rip/mod.rs')) as f: src = f.read()
    i = src.index('State::ReadCommand(level) =>')
    j = src.index('State::GotRipStart =>', i)
    blk = src[i:j]
    a = blk.index('if level == 1'); b = blk.index('if level == 9'); c = blk.index('match ch {', b + 10)
    # the level-9 block has its own `if let '\x1B' = ch`
    arm = re.compile(r"'(\\x1B|\\\\|.)'\s*=>\s*(?:return\s+)?self\.(start|push)_command\(Box::<commands::(\w+)>")
    def tab(s):
        out = {}
        for m in arm.finditer(s):
            ch = '\x1b' if m.group(1) == '\\x1B' else m.group(1)
            out[ch] = (m.group(3), m.group(2))
        return out
    l0 = tab(blk[c:]); l1 = tab(blk[a:b])
    l9 = {}
    m = re.search(r"if let '(\\x1B)' = ch \{\s*self\.start_command\(Box::<commands::(\w+)>", blk[b:c])
    if m: l9['\x1b'] = (m.group(2), 'start')
    if len(l0) < 30 or len(l1) < 10:
        raise RuntimeError('cannot read the RIP command tables from rip/mod.rs (%d level-0, %d level-1 arms)' % (len(l0), len(l1)))
    return l0, l1, l9

def igs_table(repo):
    with open(os.path.join(repo, 'src/parsers/igs/cmd.rs')) as f: src = f.read()
    i = src.index('pub fn from_char')
    out = {}
    for m in re.finditer(r"'(.)'\s*=>\s*IgsCommands::(\w+)", src[i:]):
        out[m.group(1)] = m.group(2)
    if len(out) < 30:
        raise RuntimeError('cannot read the IGS command table from igs/cmd.rs (%d arms)' % len(out))
    return out

_fn_cache = {}
def enclosing_fn(repo, loc):
    """'file:line' of a panic -> name of the enclosing fn (scanning the source), or ext/<basename> for foreign files"""
    m = re.match(r'(.*):(\d+)$', loc or '')
    if not m: return 'unknown'
    path, line = m.group(1), int(m.group(2))
    rp = os.path.realpath(path) if os.path.isabs(path) else os.path.realpath(os.path.join(repo, path))
    if not rp.startswith(os.path.realpath(repo) + os.sep) or not os.path.exists(rp):
        return 'ext/' + os.path.basename(path)
    if rp not in _fn_cache:
        with open(rp, errors='replace') as f: _fn_cache[rp] = f.readlines()
    lines = _fn_cache[rp]
    for k in range(min(line, len(lines)) - 1, -1, -1):
        mm = re.match(r'\s*(?:pub(?:\([a-z]+\))?\s+)?(?:const\s+)?(?:unsafe\s+)?fn\s+(\w+)', lines[k])
        if mm:
            # qualify trait methods implemented many times (parse/run) with the impl target
            if mm.group(1) in ('parse', 'run', 'from', 'new', 'default'):
                for q in range(k, -1, -1):
                    im = re.match(r'impl(?:<[^>]*>)?\s+(?:(\w+)(?:<[^>]*>)?\s+for\s+)?(\w+)', lines[q])
                    if im: return '%s::%s' % (im.group(2), mm.group(1))
            return mm.group(1)
    return os.path.basename(path)

def panic_sig(repo, lang, loc):
    """signature of a panic: <lang>-panic:<enclosing fn>, with the suffix :todo when the panicking line is a `todo!()` /
    `unimplemented!()` (a missing feature is another class than an index / arithmetic panic of the same function)"""
    fn = enclosing_fn(repo, loc)
    m = re.match(r'(.*):(\d+)$', loc or '')
    if m:
        rp = os.path.realpath(m.group(1)) if os.path.isabs(m.group(1)) else os.path.realpath(os.path.join(repo, m.group(1)))
        lines = _fn_cache.get(rp) or []
        k = int(m.group(2)) - 1
        if 0 <= k < len(lines) and re.search(r'\b(todo|unimplemented)!\s*\(', lines[k]): return '%s-panic:%s:todo' % (lang, fn)
    return '%s-panic:%s' % (lang, fn)

def hx(s):
    return (s.encode('latin-1').hex()) or '-'

# ---------------------------------------------------------------------------------------------------------------
# RIP streams
DIG = '01Z'
def rip_cmd(level, letter, params, term='|'):
    return '|' + ('' if level == 0 else str(level)) + letter + params + ('' if term == '|' else term)

def rip_stream(cmds):
    """cmds: list of command bodies starting with '|' ; '!' lead-in, final '|' flushes the last command"""
    s = '!' + ''.join(cmds)
    if not s.endswith('\n'): s += '|'
    return s

PRELUDES = ['',                                    # fresh state
            '|v0A0A1E1E|W01|s0101ZZ0Z10Z00Z110A|=04ZZZZ03|Y020104000',   # small viewport, xor, user pattern, user line style, thick, vertical small font
            '|v00000000|S0B0F|c0F|=01000001|1C000005050|1B0A0A000100010203040506070809000000000',   # empty viewport, close-dot fill, saved image, button style with flags
            ]

def rip_exhaustive(tables, full_len, uniform_to=24):
    """every command letter x parameter strings: all strings over {0,1,Z} up to length full_len, the three uniform strings for every
    length up to uniform_to; terminated by '|' (and by newline for the uniform ones)"""
    l0, l1, l9 = tables
    out = []
    cmds = [(0, c) for c in sorted(l0)] + [(1, c) for c in sorted(l1)] + [(9, c) for c in sorted(l9)]
    for lv, c in cmds:
        seen = set()
        for n in range(0, uniform_to + 1):
            if n <= full_len:
                ps = [''.join(t) for t in itertools.product(DIG, repeat=n)]
            else:
                ps = [d * n for d in DIG] + [('0' + d) * (n // 2) + ('0' if n % 2 else '') for d in '1Z']
            for p in ps:
                if p in seen: continue
                seen.add(p)
                out.append(((lv, c), rip_stream([rip_cmd(lv, c, p)])))
                if n > full_len or n == 0:
                    out.append(((lv, c), rip_stream([rip_cmd(lv, c, p, '\n')])))
    return out

def rip_special(tables):
    """continuation lines, text variables, unknown commands, plain text, lead-in variants, text-bearing commands"""
    l0, l1, l9 = tables
    S = []
    S += ['plain text only', '!', '!!', '!x', '!|', '!|#', '!|#|', '!|#x!|c01|', '!|1', '!|9', '!|1\n', '!|9x', '!|?', '!|1?', '!|~00|',
          '!|c0\\\n1|', '!|c\\\r\n01|', '!|v00\\\n00\\\n0A\\\n0A|B0000\\\n0505|', '!|c0\\x', '!|L0000\\|', '!|c\\\\\\\n01|',
          '!|$DATE$|', '!|$$', '!|$', '!|$unterminated\n', '!|$A$$B$|', '!|T$DATE$|', '!|@0000$TIME$|',
          '!|Thello world|', '!|T|', '!|T\n', '!|@0505label|', '!|@ZZZZedge|', '!|@|', '!|@00|',
          '!|Y00000400|Thello|', '!|Y01000A00|Tbig|', '!|Y0A010100|Tvertical|', '!|Y0B000000|Tuser|', '!|Y00000400|@ZZZZclipped|',
          '!|Y00000400|@J9001x|', '!|Y02000400|@HR9Ixyz|', '!|Y00000400|T' + 'W' * 90 + '|', '!|Y01000A00|T' + 'W' * 90 + '|',
          '!|1U0101000000<>Label<>cmd^m|', '!|1U01010000000iconfile<>Label<>Host^m|', '!|1U0A0A1E1E4100<>Label|', '!|1U0A0A1E1E4100no separators|',
          '!|1U0A0A1E1E0000<>|', '!|1U00000000000<><><>|',
          '!|1B0A0A020000010203040506070809000000000|1U0A0A1E1E4100<>Ok<>x|',
          '!|1B0A0A00ZZZZ010203040506070809000000000|1U0A0A1E1E4100<>Above<>x|',
          '!|1B0A0A01ZZZZ010203040506070809000000000|1U0A0A1E1E4100<>Left<>x|',
          '!|1B0A0A03ZZZZ010203040506070809000000000|1U0A0A1E1E4100<>Right<>x|',
          '!|1B0A0A04ZZZZ010203040506070809000000000|1U0A0A1E1E4100<>Below<>x|',
          '!|1B0A0A02ZZZZ0Z0Z0Z0Z0Z0Z0Z0Z0Z0Z0000000|1U0A0A1E1E4100<>Hotkey A<>x|',
          '!|1B0A0A02ZZZZ0Z0Z0Z0Z0Z0Z0Z0Z0Z0Z0000000|1U0A0A1E1EZZ00<>\xe9\xe8<>x|',
          '!|1B' + 'Z' * 37 + '|', '!|1B' + 'Z' * 36 + '|', '!|1B' + '0' * 30 + 'ZZZZZZ|',
          '!|1IA.ICN|', '!|1I0000000000A.ICN|', '!|1I0000010000A.ICN|', '!|1IZZZZ040000A.ICN|', '!|1IHQ9M000000A.ICN|', '!|1I0000000000B.ICN|',
          '!|1I0000000000C.ICN|', '!|1I0000000000A|', '!|1I0000000000missing.icn|', '!|1I0000000000|', '!|W01|1I0000030000A.ICN|',
          '!|1F000000A.ICN|', '!|1F010000A.ICN|', '!|1F020000A.ICN|', '!|1F030000A.ICN|', '!|1F040000A.ICN|', '!|1F050000A.ICN|', '!|1F000000nope|', '!|1F|',
          '!|1C000005050|1P0A0A000|', '!|1P0A0A000|', '!|1C0000ZZZZ0|1P000000|', '!|1C0505000000|1P0000010|', '!|1CZZZZ00000|1P0000020|',
          '!|1G080G140M0005|', '!|1G00000Z0Z00ZZ|', '!|1GZZZZ000000ZZ|', '!|1G0000ZZZZ0000|',
          '!|1M00001122331100000host^M|', '!|1M|', '!|1K|', '!|1E|', '!|1T0011001100|', '!|1t1region text|', '!|1D00700var,60:?q?d|',
          '!|1\x1b0000query $X$^m|', '!|1R00000000file.rip|', '!|9\x1b00010000ICON.ICN<>|', '!|9\x1b|', '!|1W0file.icn|',
          '!|w000000000!', '!|w00001B0M10|', '!|w00000000 0|', '!|w0000000000|text while suspended!|c01|', '!|w0A0A00001 |', '!|w1000000000|', '!|w0010000000|',
          '!|Q000102030405060708090A0B0C0D0E0F|', '!|Q1S|', '!|Q1R|', '!|QZZ|', '!|Q00|c0F|X0101|', '!|Q|X0101|', '!|a051B|', '!|a051S|', '!|a0Z1R|', '!|aZZ00|', '!|aZZZZ|',
          '!|F00000F|', '!|V234020A40HH0|v1100ZZZ0|F8359x3|', '!|v0A0A1E1E|F0F0F0F|', '!|v0A0A1E1E|F14140F|', '!|v00000505|F0A0A01|', '!|v0A0AZZZZ|F0B0B0F|', '!|vZZZZ0000|F00000F|', '!|v0000HR9P|F000001|',
          '!|S010F|B00000A0A|F0505 0F|', '!|c0F|R05051E1E|S010A|F0A0A0F|', '!|c0F|R05051E1E|S0B0A|F0A0A0F|', '!|c0F|R00000505|S0100|F02020F|',
          '!|P00|', '!|P01|', '!|P010101|', '!|p00|', '!|p01|', '!|p0100|', '!|l00|', '!|l|', '!|P|', '!|p|', '!|pZZ' + '0A' * 40 + '|', '!|P03010105090905|', '!|p03010105050909|',
          '!|p03ZZZZ00ZZZZ00|', '!|p0300ZZ00ZZ0000|', '!|l03010105050909|', '!|S000F|p03010105050909|', '!|c00|p03010105050909|',
          '!|Z0A0B0C0D0E0F0G0H1G|', '!|Z0A0B0C0D0E0F0G0H00|', '!|Z0A0B0C0D0E0F0G0H01|', '!|Z00000000000000ZZZZZZ|', '!|Z0A0B0C0D0E0F0G0HZZ|',
          '!|C1E180M|', '!|C000000|', '!|C0000ZZ|', '!|CZZZZZZ|', '!|O1E1A18003G15|', '!|O00000000ZZZZ|', '!|O0000003GZZZZ|', '!|O0000ZZ00ZZZZ|',
          '!|o1G2B0M0G|', '!|o00000000|', '!|o0000ZZZZ|', '!|oZZZZZZZZ|', '!|=000003|o1G2B0M0G|', '!|A1E18003G15|', '!|A0000ZZ00ZZ|', '!|V1E18003G151Q|', '!|I1E18003G15|',
          '!|I0000ZZ00ZZ|', '!|i1E18003G151Q|', '!|i00000000ZZZZ|', '!|i0000ZZ00ZZZZ|', '!|=010003|i1E18003G151Q|', '!|=04ZZZZ03|L00000Z0Z|', '!|=000003|R05050A0A|',
          '!|L00010A0E|', '!|L0000ZZZZ|', '!|LZZZZ0000|', '!|L00ZZZZ00|', '!|L0000ZZ01|', '!|L000001ZZ|', '!|R00010A0E|', '!|RZZZZ0000|', '!|B00010A0E|', '!|BZZZZ0000|',
          '!|vZZZZ0000|B0000ZZZZ|E|', '!|v0000ZZZZ|B0000ZZZZ|E|X' + 'ZZZZ|', '!|v0000ZZZZ|L0000ZZZZ|', '!|v0000ZZZZ|o0909ZZZZ|', '!|v0000ZZZZ|Y00000400|@HQ9Qx|',
          '!|e|', '!|E|', '!|*|', '!|H|', '!|>|', '!|g0509|', '!|m0509|X1122|', '!|W01|X0101|', '!|W04|X0101|B00000505|', '!|WZZ|',
          '\x1b[!', '\x1b[0!', '\x1b[1!|c01|', '\x1b[2!!|c01|', '\x1b[3!', '\x1b[1!\x1b[2!!|c0F|',
          '!|c01\r\n!|c02\r\n', '!|c01|\n!|c02|', 'text!|c01|more text\n!|X0000|', '!|c01|c02|c03|X0000|X0101|',
          ]
    # every command with non-base-36 characters in every parameter position of a 12-character parameter string
    for lv, tab in ((0, l0), (1, l1), (9, l9)):
        for c, (name, kind) in sorted(tab.items()):
            if kind != 'start': continue
            for bad in ' !-,$\xff':
                for pos in (0, 1, 3, 8, 9, 11):
                    p = '0' * pos + bad + '0' * (11 - pos)
                    S.append(rip_stream([rip_cmd(lv, c, p)]))
    return S

def gen_rip_param(rng, n):
    mode = rng.random()
    if mode < 0.35: return ''.join(rng.choice(DIG) for _ in range(n))
    if mode < 0.70: return ''.join(rng.choice('0123456789ABCDEFGHIJKLMNOPQRSTUVWXYZ') for _ in range(n))
    if mode < 0.85: return ''.join(rng.choice('000001123459AHZ') for _ in range(n))
    if mode < 0.93: return ''.join(rng.choice('0123456789abcxyz') for _ in range(n))
    return ''.join(rng.choice("01Z9A \\!$,-.:;<>^m\r") for _ in range(n))

NPAR = {'TextWindow': 10, 'ViewPort': 8, 'GotoXY': 4, 'Color': 2, 'SetPalette': 32, 'OnePalette': 4, 'WriteMode': 2, 'Move': 4, 'Text': 6, 'TextXY': 9,
        'FontStyle': 8, 'Pixel': 4, 'Line': 8, 'Rectangle': 8, 'Bar': 8, 'Circle': 6, 'Oval': 12, 'FilledOval': 8, 'Arc': 10, 'OvalArc': 12, 'PieSlice': 10,
        'OvalPieSlice': 12, 'Bezier': 18, 'Polygon': 14, 'FilledPolygon': 14, 'PolyLine': 14, 'Fill': 6, 'LineStyle': 8, 'FillStyle': 4, 'FillPattern': 18,
        'Mouse': 20, 'BeginText': 10, 'RegionText': 6, 'GetImage': 9, 'PutImage': 7, 'WriteIcon': 6, 'LoadIcon': 14, 'ButtonStyle': 37, 'Button': 22,
        'Define': 10, 'Query': 8, 'CopyRegion': 12, 'ReadScene': 12, 'FileQuery': 11, 'EnterBlockMode': 12, 'TextVariable': 5}

def gen_rip_cmd(rng, tables, only=None):
    l0, l1, l9 = tables
    r = rng.random()
    if only is not None:
        lv, c = rng.choice(only)
        tab = {0: l0, 1: l1, 9: l9}[lv]
    elif r < 0.70: lv, tab = 0, l0; c = rng.choice(sorted(tab))
    elif r < 0.97: lv, tab = 1, l1; c = rng.choice(sorted(tab))
    else: lv, tab = 9, l9; c = rng.choice(sorted(tab))
    name, kind = tab[c]
    if kind == 'push': return (lv, c), rip_cmd(lv, c, '')
    want = NPAR.get(name, 8)
    m = rng.random()
    if m < 0.70: n = want
    elif m < 0.85: n = rng.randint(0, want)
    else: n = rng.randint(want, want + 8)
    n = min(n, 40)
    p = gen_rip_param(rng, n)
    if name in ('Polygon', 'FilledPolygon', 'PolyLine') and rng.random() < 0.7:
        k = rng.choice([0, 1, 2, 3, 3, 4, 5, 8])
        p = '0' + '0123458'[min(k, 6)] if k < 7 else '08'
        p += ''.join(rng.choice(['00', '01', '0A', '1E', '2S', '5K', '9P', 'HR', 'ZZ']) for _ in range(2 * k))
        if rng.random() < 0.2: p = p[:rng.randint(0, len(p))]
    if name == 'LoadIcon' and rng.random() < 0.6: p = gen_rip_param(rng, 9)[:9].replace('\\', '0').replace('|', '0') + rng.choice(['A.ICN', 'B.ICN', 'C.ICN', 'a', 'x.icn'])
    if name == 'Button' and rng.random() < 0.6:
        p = ''.join(rng.choice(['00', '05', '0A', '1E', '5K', 'ZZ']) for _ in range(4)) + rng.choice(['00', '41', 'ZZ']) + rng.choice('01') + '0' + rng.choice(['<>Label<>x', 'ic<>Lab<>h^m', '<>A', 'nosep', '<><><>'])
    if name == 'ButtonStyle' and rng.random() < 0.6:
        p = rng.choice(['0A0A', '0000', 'ZZZZ', '2S1E']) + '02' + ''.join(rng.choice('0123456789ABCDEFGHIJKLMNOPQRSTUVWXYZ') for _ in range(4)) + \
            ''.join(rng.choice(['00', '01', '03', '0F', '0Z']) for _ in range(10)) + '000000'
    if name in ('Text', 'TextXY', 'RegionText') and rng.random() < 0.7:
        pre = '' if name != 'TextXY' else ''.join(rng.choice(['00', '05', '1E', '5K', 'HQ', 'HR', '9P', '9I', 'ZZ']) for _ in range(2))
        p = pre + rng.choice(['hello', 'A', 'x' * 30, '$DATE$', 'W' * 85, '\xe9\xff', ''])
    p = p.replace('|', '0')
    term = '|' if rng.random() < 0.9 else rng.choice(['\n', '\r\n', '\\\n|', '\\|'])
    return (lv, c), rip_cmd(lv, c, p, term)

def gen_rip_seq(rng, tables, only=None, kmax=20):
    k = rng.choice([1, 2, 3, 5, 8, 12, 20]) if kmax >= 20 else rng.randint(1, kmax)
    ids, cmds = [], []
    for _ in range(k):
        i, c = gen_rip_cmd(rng, tables, only)
        ids.append(i); cmds.append(c)
        if c.endswith('\n'): cmds[-1] = c + '!'      # a new RIP line
    if rng.random() < 0.1: cmds.insert(rng.randrange(len(cmds) + 1), 'plain text!'); ids.insert(0, (0, '?'))
    return ids, rip_stream(cmds)

# ---------------------------------------------------------------------------------------------------------------
# IGS streams
IGS_VALUES = [-50, -1, 0, 1, 7, 99, 320, 640, 99999]
IGS_NPAR = {'AttributeForFills': 3, 'BellsAndWhistles': 1, 'Box': 5, 'ColorSet': 2, 'LineDrawTo': 2, 'TextEffects': 3, 'FloodFill': 2, 'PolyFill': 7,
            'GraphicScaling': 1, 'GrabScreen': 8, 'QuickPause': 1, 'HollowSet': 1, 'Initialize': 1, 'EllipticalArc': 6, 'Cursor': 1, 'Arc': 5, 'DrawLine': 4,
            'PolyLine': 7, 'DrawingMode': 1, 'ChipMusic': 6, 'Noise': 2, 'Circle': 3, 'PolymarkerPlot': 2, 'Ellipse': 4, 'SetResolution': 2, 'ScreenClear': 1,
            'SetPenColor': 4, 'TimeAPause': 1, 'LineMarkerTypes': 3, 'RoundedRectangles': 5, 'Pieslice': 5, 'WriteText': 3, 'EllipticalPieslice': 6,
            'FilledRectangle': 4, 'InputCommand': 3, 'AskIG': 1, 'VTColor': 2, 'VTDeleteLine': 1, 'VTLineInsert': 2, 'VTLineClear': 1, 'VTCursorMotion': 2,
            'VTPosition': 2, 'VTRemember': 1, 'VTInverseVideo': 1, 'VTLineWrap': 1, 'ExtendedCommands': 4}

def igs_cmd(c, vals, text=None):
    s = c + ','.join(str(v) for v in vals)
    if text is not None: return s + ',' + text + '@'
    return s + ':'

def igs_stream(cmds):
    return 'G#' + ''.join(cmds)

def igs_exhaustive(table, per_len, rng):
    """every command letter x 0..=12 parameters: the 9 uniform lists for every length + per_len seeded mixed lists per length"""
    out = []
    for c in sorted(table):
        for n in range(0, 13):
            lists = [[v] * n for v in IGS_VALUES] if n else [[]]
            for _ in range(per_len if n > 1 else 0):
                lists.append([rng.choice(IGS_VALUES) for _ in range(n)])
            seen = set()
            for l in lists:
                if tuple(l) in seen: continue
                seen.add(tuple(l))
                if c == 'W':
                    out.append((c, igs_stream([igs_cmd(c, l, 'text')])))
                out.append((c, igs_stream([igs_cmd(c, l)])))
    return out

def igs_special(table):
    S = ['G', 'G#', 'Gx', 'G#?', 'G#?>0:', 'G#?>3:', 'G#?>0:\nG#?>0:', 'plain', 'G#~0:', 'G#I 0:', 'G#I 3:s 0:', 'G#I>0:\r\nG#s>0:', 'G#R 0,0:', 'G#R 1,0:', 'G#R 2,0:', 'G#R 3,0:',
         'G#R 1,1:B 0,0,639,199,0:', 'G#R 2,1:B 0,0,639,399,0:Z 0,0,639,399:', 'G#W 10,10,Hello@', 'G#W 10,10,@', 'G#W 310,195,edge@', 'G#W 99999,99999,far@', 'G#W 0,0,\n',
         'G#E 0,8,0:W 10,10,x@', 'G#E 31,20,4:W 10,10,x@', 'G#E 0,0,0:W 10,10,x@', 'G#E 0,99999,1:W 10,10,abc@',
         'G#&0,3,1,0,L,4,0,0,x,y:', 'G#&0,10,1,0,L,4,0,0,+10,-5:', 'G#&0,3,0,0,L,4,0,0,1,1:', 'G#&3,0,1,0,L,4,0,0,1,1:', 'G#&0,0,1,0,L,4,0,0,1,1:', 'G#&0,2,1,1,L,4,0,0,1,1:',
         'G#&0,99999,1,0,P,2,x,y:', 'G#&0,3,1,0,~,4,0,0,1,1:', 'G#&0,3,1,0,L,0,:', 'G#&0,3,1,0,L,4,a,b,c,d:', 'G#&0,3,1,0,L,4,!x,!y,+x,-y:', 'G#&0,5,1,0,W,2,0,x:text@', 'G#&1,5,1,0,L|4,0,0,1,1:',
         'G#&0,3,1,0,L,', 'G#&0,3,1,0', 'G#&0,3,1,0,L,x', 'G#&0,6,2,0,B,10,0,0,x,y,0:1,1,y,x,1:', 'G#&0,3,1,0,&,4,0,0,1,1:',
         'G#G 0,3,0,0,100,100,100,50:', 'G#G 1,3,0,0,100,100:', 'G#G 2,3,200,50:', 'G#G 1,3,0,0,100,100:G 2,3,200,50:', 'G#G 1,3,0,0,100,100:G 3,3,50,50,75,75,150,100:',
         'G#G 1,3,100,100,0,0:G 2,3,0,0:', 'G#G 3,3,0,0,10,10,0,0:', 'G#G 1,3,0,0,319,199:G 2,3,300,190:', 'G#G 1,3,0,0,99999,99999:', 'G#G 0,3,0,0,99999,99999,0,0:', 'G#G 4,3,0,0:',
         'G#S 0,7,7,7:', 'G#S 15,0,0,0:', 'G#S 16,0,0,0:', 'G#S 99999,9,9,9:', 'G#C 0,15:C 1,16:C 2,99999:C 3,255:C 4,1:', 'G#C 2,16:Z 0,0,10,10:', 'G#C 1,200:L 0,0,10,10:', 'G#C 0,77:P 5,5:',
         'G#C 3,99:W 5,5,a@', 'G#A 2,1,1:Z 0,0,50,50:', 'G#A 2,24,1:Z 0,0,50,50:', 'G#A 2,25,1:Z 0,0,50,50:', 'G#A 2,0,1:Z 0,0,50,50:', 'G#A 3,12,1:Z 0,0,50,50:', 'G#A 3,13,1:Z 0,0,50,50:',
         'G#A 3,0,0:Z 0,0,50,50:', 'G#A 4,9,1:Z 0,0,50,50:', 'G#A 4,8,1:Z 0,0,50,50:', 'G#A 0,0,0:Z 0,0,50,50:', 'G#A 99999,99999,1:Z 0,0,5,5:', 'G#T 1,1,1:', 'G#T 2,7,1:L 0,0,50,50:', 'G#T 2,8,1:L 0,0,50,50:',
         'G#T 1,9,8:P 10,10:', 'G#T 1,6,99999:P 10,10:', 'G#T 2,1,99999:L 0,0,9,9:', 'G#T 2,1,0:L 0,0,9,9:', 'G#T 99999,1,1:', 'G#M 0:', 'G#M 4:', 'G#M 99999:', 'G#H 0:H 1:H 7:',
         'G#F 0,0:', 'G#F 319,199:', 'G#F 320,200:', 'G#F 99999,0:', 'G#B 10,10,50,50,0:F 20,20:', 'G#C 2,0:F 0,0:', 'G#f 3,0,0,10,10,0,10:', 'G#f 0:', 'G#f 1,5,5:', 'G#f 2,0,0,5,5:', 'G#f 3,0,0:',
         'G#f 99999,0,0:', 'G#f 3,99999,0,0,99999,5,5:', 'G#f 4,0,0,319,0,319,199,0,199:', 'G#z 3,0,0,10,10,0,10:', 'G#z 0:', 'G#z 1,0,0:', 'G#z 99999:', 'G#z 3,0,0:',
         'G#O 100,100,50:', 'G#O 0,0,99999:', 'G#O 0,0,0:', 'G#Q 100,100,50,20:', 'G#Q 0,0,99999,99999:', 'G#Q 10,10,0,0:', 'G#K 100,100,50,0,90:', 'G#K 0,0,640,0,99999:', 'G#J 100,100,50,20,0,90:',
         'G#V 100,100,50,0,90:', 'G#Y 100,100,50,20,0,90:', 'G#U 0,0,50,50,1:', 'G#U 50,50,0,0,0:', 'G#U 0,0,99999,99999,1:', 'G#Z 50,50,0,0:', 'G#Z 0,0,99999,99999:', 'G#B 0,0,99999,99999,1:',
         'G#L 0,0,99999,99999:', 'G#L 99999,0,0,99999:', 'G#D 10,10:D 99999,99999:', 'G#P 0,0:P 319,199:P 320,200:P 99999,99999:', 'G#t 0:', 'G#q 0:', 'G#b 0:b 19:b 20:b 99999:',
         'G#n 0,0,0,0,0,0:', 'G#N 0,0:', 'G#g 0:g 1:g 2:g 3:L 0,0,9999,9999:', 'G#g 1:B 0,0,9999,9999,0:', 'G#k 0:k 1:k 2:k 3:k 99999:', 'G#s 0:s 1:s 2:s 3:s 4:s 5:s 99999:', 'G#< 1,0,1:',
         'G#X 0,1,2,3:', 'G#X 99999:', 'G#X 7,0,1,2,3,4,5,6,7,8,9,10,11,12,13,14,15,16:', 'G#c 0,1:c 1,15:c 1,16:c 99999,99999:', 'G#d 1:d 99999:', 'G#i 0,1:i 1,99999:', 'G#l 0:l 1:l 2:l 3:l 4:l 99999:',
         'G#m 0,0:m 1,99999:m 2,5:m 3,5:m 4,5:', 'G#p 0,0:p 79,24:p 99999,99999:', 'G#r 0:r 1:r 2:', 'G#v 0:v 1:v 2:', 'G#w 0:w 1:w 2:', 'G#L 0,0,10,10:L_\n 10,10,20,\n20:', 'G#L 0,0,\n10,10:',
         'G#L 0 , 0 , 10 , 10 :', 'G#L>0,0,10,10:', 'G#L 0,0,10,10', 'G#L -1,-1,10,10:', 'G#L 0,,10:', 'G#L ,:', 'G#L:', 'G#:', 'G#L 2147483647,2147483648,99999999999,1:', 'G#W 2147483648,1,x@',
         'G#L 0,0,1000000000,0:', 'G#&100,200,2147483647,0,L,4,0,0,1,1:', 'G#&1,3,1,0,L,4,+2147483647,0,0,0:', 'G#&1,3,1,0,L,4,--2147483648,0,0,0:', 'G#&1,3,1,0,L,4,!-2147483648,0,0,0:',
         'G#&200,100,2147483647,0,L,4,0,0,1,1:', 'G#&0,2147483647,1,0,P,2,x,y:', 'G#&1,3,1,0,L,4,+2147483646,0,0,0:', 'G#&0,3,1,0,L,4,-2147483647,0,0,0:', 'G#&0,3,1,0,L,4,!2147483647,0,0,0:',
         'G#L 0,0,5,5:\nG#L 5,5,9,9:\n', 'G#L 0,0,5,5:L 5,5,9,9:', 'G#L 0,0,5,5:x', 'text G#L 0,0,5,5:text G', 'G#I 0:\rG#s 0:', 'GG#s 0:', 'G#G#s 0:']
    # a command or loop abandoned at every possible point, then (in the SAME stream, on the parser state the abandoned
    # one left behind) a well-formed loop and a well-formed command: stale tokenizer/loop state must not leak
    LOOP = '&0,3,1,0,L,4,0,0,x,0:'
    CMDS = ['L 0,0,5,5:', 'B 0,0,9,9,1:', LOOP, '&0,2,1,0,P,2,x,y:']
    for whole in CMDS:
        for cut in range(1, len(whole)):
            for term in ('\nG#', '>\nG#', 'q', ':', '@'):
                S.append('G#' + whole[:cut] + term + LOOP + 'L 1,1,4,4:' + '&0,1,1,0,B,5,0,0,x,y,1:')
    return S

def gen_igs_cmd(rng, table):
    c = rng.choice(sorted(table))
    name = table[c]
    want = IGS_NPAR.get(name, 3)
    m = rng.random()
    if m < 0.7: n = want
    elif m < 0.85: n = rng.randint(0, want)
    else: n = rng.randint(want, 12)
    vm = rng.random()
    if vm < 0.5: vals = [rng.choice(IGS_VALUES) for _ in range(n)]
    elif vm < 0.8: vals = [rng.choice([0, 1, 2, 3, 4, 5, 8, 10, 15, 16, 20, 50, 100, 199, 200, 319, 320]) for _ in range(n)]
    else: vals = [rng.randint(-50, 99999) for _ in range(n)]
    if name in ('PolyFill', 'PolyLine') and rng.random() < 0.7:
        k = rng.choice([0, 1, 2, 3, 4, 6]); vals = [k] + [rng.choice([0, 5, 50, 199, 319, 320, 640, 99999]) for _ in range(2 * k)]
        if rng.random() < 0.2: vals = vals[:rng.randint(1, len(vals))]
    if name == 'TimeAPause' or name == 'QuickPause': vals = [0] * n      # pauses sleep by design; not the subject
    if name == 'WriteText' and rng.random() < 0.8:
        return c, igs_cmd(c, (vals + [0, 0, 0])[:3], rng.choice(['hi', 'Hello World', '', 'x' * 50, '\xe9']))
    return c, igs_cmd(c, vals)

def gen_igs_loop(rng, table):
    c = rng.choice('LPBZODQ')
    frm, to = rng.choice([(0, 3), (0, 10), (5, 0), (0, 0), (0, 40), (3, 4)])
    step = rng.choice([1, 1, 2, 5])
    npar = rng.choice([2, 4, 4, 5, 8])
    par = [rng.choice(['x', 'y', '0', '5', '100', '+10', '-3', '!7', '319', '99999', 'q', '']) for _ in range(npar)]
    return '&', '&%d,%d,%d,0,%s,%d,%s:' % (frm, to, step, c, npar, ','.join(par))

def gen_igs_seq(rng, table):
    k = rng.choice([1, 2, 3, 5, 8, 12, 20])
    ids, cmds = [], []
    for _ in range(k):
        if rng.random() < 0.06: i, c = gen_igs_loop(rng, table)
        else: i, c = gen_igs_cmd(rng, table)
        ids.append(i); cmds.append(c)
        if rng.random() < 0.1: cmds[-1] += rng.choice(['\nG#', '\r\nG#', ' ', '\n' + 'G#'])
    return ids, igs_stream(cmds)

# ---------------------------------------------------------------------------------------------------------------
def classify(ctx, lang, ids, stream, r, W=None):
    """-> failure dict or None.  r = worker result of a `rip`/`igs` case."""
    cls = r[0]
    if cls == 'ok':
        v = r[1]
        if lang == 'rip':
            chars, ok, err, slen, w, h, has, pw, ph, plen = v[-10:]
            bad = None
            if ok + err != chars or chars != len(stream): bad = 'not every character answered: %d chars, %d ok, %d err' % (len(stream), ok, err)
            elif slen != w * h: bad = 'bgi.screen has %d bytes, window is %dx%d' % (slen, w, h)
            elif has and (pw != w or ph != h or plen != 4 * w * h): bad = 'get_picture_data: size %dx%d, %d bytes; window %dx%d' % (pw, ph, plen, w, h)
        else:
            chars, ok, err, steps, w, h, has, pw, ph, plen = v[-10:]
            bad = None
            if ok + err != chars or chars != len(stream): bad = 'not every character answered: %d chars, %d ok, %d err' % (len(stream), ok, err)
            elif not has or pw != w or ph != h or plen != 4 * w * h: bad = 'get_picture_data: size %dx%d, %d bytes; resolution %dx%d' % (pw, ph, plen, w, h)
        if bad:
            return {'signature': 'canvas-size' if 'bytes' in bad else lang + '-unanswered', 'input': '%s %s' % (lang, hx(stream)), 'impl': v[-10:], 'detail': '%r: %s' % (stream, bad)}
        return None
    if cls == 'panic':
        fn = enclosing_fn(ctx.repo, r[1])
        return {'signature': panic_sig(ctx.repo, lang, r[1]), 'input': '%s %s' % (lang, hx(stream)), 'impl': list(r), 'detail': '%r panics at %s (fn %s)' % (stream, r[1], fn)}
    if cls == 'err':
        return {'signature': '%s-harness-error' % lang, 'input': '%s %s' % (lang, hx(stream)), 'impl': list(r), 'detail': stream}
    # timeout / oom / abort / stackoverflow / killed: attributed to a command by `attribute`
    return {'signature': '%s-%s:?' % (lang, cls), 'input': '%s %s' % (lang, hx(stream)), 'impl': list(r), 'detail': '%r: %s' % (stream, r[1]), 'ids': ids, 'pending': True}

def split_cmds(lang, stream):
    """cut a stream into its commands (prefix-closed pieces) for attribution of a timeout/oom/abort"""
    if lang == 'rip':
        parts = re.split(r'(?=\|)', stream)
        return [p for p in parts if p]
    parts = re.split(r'(?<=[:@])', stream)
    return [p for p in parts if p]

def cmd_name(lang, piece):
    if lang == 'rip':
        m = re.match(r'\|(1|9)?(.)', piece, re.S)
        if not m: return '?'
        return (m.group(1) or '') + (m.group(2) if m.group(2) != '\x1b' else 'ESC')
    p = piece.replace('G#', '').lstrip(' \r\n')
    return p[:1] or '?'

def attribute(ctx, fails):
    """failures without a panic location (timeout / oom / abort / stack overflow): re-run the stream one command per chunk with
    a generous limit; the worker reports progress on stderr, so the command during which it died (or which alone took longer
    than 5 s of CPU time) names the signature.  A sequence that is merely long (no single command above 5 s) is not a failure."""
    pend = [f for f in fails if f.get('pending')]
    if not pend: return
    todo = pend[:24]
    cases = []
    for f in todo:
        lang, h = f['input'].split()
        stream = bytes.fromhex(h).decode('latin-1')
        f['_pieces'] = split_cmds(lang, stream)
        cases.append('%stime %s' % (lang, ' '.join(hx(p) for p in f['_pieces'])))
    res = ctx.impl(cases, per_case_timeout=150, jobs=8)
    for f, r in zip(todo, res):
        lang = f['input'].split()[0]
        pieces = f.pop('_pieces')
        k = None
        if r[0] == 'ok':
            slow = [i for i, ms in enumerate(r[1]) if ms >= 5000]
            if not slow:
                f['drop'] = True; continue
            k = slow[0]; cls = 'timeout'
        elif r[0] == 'panic':      # died differently on the second run: report what it is now
            f['signature'] = panic_sig(ctx.repo, lang, r[1]); continue
        else:
            m = re.search(r'c20-progress (\d+)', r[1] or '')
            cls = r[0]
            if m: k = int(m.group(1))
        if k is None or k >= len(pieces):
            f['signature'] = '%s-%s:sequence' % (lang, cls); continue
        pre = ''.join(pieces[:k + 1])
        f['signature'] = '%s-%s:%s' % (lang, cls, cmd_name(lang, pieces[k]))
        f['detail'] += ' | failing command %r (number %d of the stream)' % (pieces[k], k + 1)
        f['input'] = '%s %s' % (lang, hx(pre))
    for f in pend:
        f.pop('pending', None); f.pop('ids', None)
        if f['signature'].endswith(':?'): f['signature'] = f['signature'][:-1] + 'unattributed'
    fails[:] = [f for f in fails if not f.get('drop')]

# loops whose length is known: (stream, number of executed steps the loop may take at most).  A loop still pending after
# that many further get_next_action calls never ends (step 0): signature igs-loop-endless
LOOP_BOUNDS = [('G#&0,3,1,0,L,4,0,0,1,1:', 3), ('G#&0,3000,1,0,C,2,2,3:', 3000), ('G#&0,3000,7,0,C,2,2,3:', 429), ('G#&3000,0,1,0,C,2,2,3:', 3000), ('G#&0,3,0,0,L,4,0,0,1,1:', 3),
               ('G#&5,0,0,0,C,2,2,3:', 5), ('G#&0,0,0,0,C,2,2,3:', 0), ('G#&0,99999,99999,0,C,2,2,3:', 1), ('G#&0,3,2147483647,0,C,2,2,3:', 1), ('G#&7,7,0,0,C,2,2,3:', 0)]

def loop_oracle(ctx):
    cases = ['igsdrain %s %d' % (hx(s), n + 200) for s, n in LOOP_BOUNDS]
    res = ctx.impl(cases, per_case_timeout=20, jobs=4)
    fails = []
    for (s, n), c, r in zip(LOOP_BOUNDS, cases, res):
        if r[0] == 'ok':
            steps, more, ended = r[1]
            if not ended or steps + more + 1 > n + 1:
                fails.append({'signature': 'igs-loop-endless', 'input': 'igs ' + hx(s), 'impl': r[1],
                              'detail': '%r: the loop may run at most %d steps; after %d get_next_action calls it is %s' % (s, n, steps + more, 'finished' if ended else 'still pending')})
        elif r[0] == 'panic':
            fails.append({'signature': 'igs-panic:%s' % enclosing_fn(ctx.repo, r[1]), 'input': 'igs ' + hx(s), 'impl': list(r), 'detail': '%r panics at %s' % (s, r[1])})
        else:
            fails.append({'signature': 'igs-%s:&' % r[0], 'input': 'igs ' + hx(s), 'impl': list(r), 'detail': '%r: %s' % (s, r[1])})
    return cases, fails

# ---- IGS draw_line against an independent clipper (exact rational arithmetic): the line is clipped before it is drawn, so the
# pixels it changes must be the visible part of the ideal line
LINE_VALS = [-2147483648, -2147483647, -1000000000, -99999, -32769, -641, -321, -201, -2, -1, 0, 1, 2, 5, 100, 160, 198, 199, 200, 201, 318, 319, 320, 321, 639, 640,
             32767, 99999, 1000000000, 2147483599, 2147483646, 2147483647]

def line_stream(c):
    x0, y0, x1, y1 = c
    if min(c) >= 0 and max(c) <= 2147483599: return 'G#L %d,%d,%d,%d:' % c
    return 'G#&0,1,1,0,L,4,%s:' % ','.join('+%d' % v for v in c)      # loop parameters carry a sign (x = 0 in the first step)

def visible_interval(c, lo_x, hi_x, lo_y, hi_y):
    """Liang-Barsky in exact fractions: the parameter interval [t0, t1] of the part of the segment inside the box, or None"""
    from fractions import Fraction as F
    x0, y0, x1, y1 = c
    t0, t1 = F(0), F(1)
    for p, q in ((-(x1 - x0), x0 - lo_x), (x1 - x0, hi_x - x0), (-(y1 - y0), y0 - lo_y), (y1 - y0, hi_y - y0)):
        if p == 0:
            if q < 0: return None
        else:
            t = F(q, p)
            if p < 0: t0 = max(t0, t)
            else: t1 = min(t1, t)
    return (t0, t1) if t0 <= t1 else None

def check_line(c, w, h, pix):
    """-> None or a description of the disagreement; pix = offsets of the changed pixels"""
    import math
    x0, y0, x1, y1 = c
    dx, dy = x1 - x0, y1 - y0
    M = max(abs(dx), abs(dy))
    pts = [(o % w, o // w) for o in pix]
    for (px, py) in pts:
        if not (min(x0, x1) <= px <= max(x0, x1) and min(y0, y1) <= py <= max(y0, y1)): return 'pixel (%d,%d) outside the bounding box of the line' % (px, py)
        if abs(dx * (py - y0) - dy * (px - x0)) > 2 * M: return 'pixel (%d,%d) more than 2 pixels off the line' % (px, py)
    big = visible_interval(c, -2, w + 1, -2, h + 1)
    if big is None:
        return 'nothing of the line comes within 2 pixels of the screen, but %d pixels changed' % len(pts) if pts else None
    xmajor = abs(dx) >= abs(dy)
    if len(pts) > (big[1] - big[0]) * M + 3: return '%d pixels changed, the visible part is %s pixels long' % (len(pts), float((big[1] - big[0]) * M))
    small = visible_interval(c, 2, w - 3, 2, h - 3)
    if small is not None and M > 0:
        a = (x0 + small[0] * dx) if xmajor else (y0 + small[0] * dy)
        b = (x0 + small[1] * dx) if xmajor else (y0 + small[1] * dy)
        lo, hi = math.ceil(min(a, b)) + 1, math.floor(max(a, b)) - 1
        have = set(p[0] if xmajor else p[1] for p in pts)
        miss = [m for m in range(lo, hi + 1) if m not in have]
        if miss: return 'no pixel at %s = %d (visible part %d..%d)' % ('x' if xmajor else 'y', miss[0], lo, hi)
    return None

def line_oracle(ctx, rng):
    n = 4000 if ctx.thorough else 400      # not raised by escalation: on a tree without the clip every far line is a 5 s timeout
    cs = [(0, 0, 4, 2), (0, 0, 1000000000, 0), (-10, -10, 700, 500), (2147483647, -2147483648, -2147483648, 2147483647), (-2147483648, -2147483648, 2147483647, 2147483647),
          (319, 199, 319, 199), (320, 0, 320, 199), (-5, 100, 325, 100), (100, -5, 100, 205), (0, 199, 319, 0), (-1000000000, 100, 1000000000, 101), (5, -2147483648, 6, 2147483647)]
    for _ in range(n):
        r = rng.random()
        v = (lambda: rng.choice(LINE_VALS)) if r < 0.3 else (lambda: rng.randint(-400, 720)) if r < 0.7 else (lambda: rng.choice(LINE_VALS) if rng.random() < 0.4 else rng.randint(-30, 350))
        cs.append((v(), v(), v(), v()))
    streams = [line_stream(c) for c in cs]
    cases = ['igspix ' + hx(s) for s in streams]
    res = ctx.impl(cases, per_case_timeout=5, jobs=8)
    fails = []; drawn = 0
    for c, s, r in zip(cs, streams, res):
        if r[0] == 'ok':
            w, h, cnt = r[1][:3]
            bad = 'resolution changed' if cnt < 0 else check_line(c, w, h, r[1][3:])
            if cnt > 0: drawn += 1
            if bad: fails.append({'signature': 'igs-line-clip', 'input': 'igs ' + hx(s), 'impl': r[1][:12], 'detail': '%r: %s' % (s, bad)})
        elif r[0] == 'panic':
            fails.append({'signature': 'igs-panic:%s' % enclosing_fn(ctx.repo, r[1]), 'input': 'igs ' + hx(s), 'impl': list(r), 'detail': '%r panics at %s' % (s, r[1])})
        else:
            fails.append({'signature': 'igs-%s:L' % r[0], 'input': 'igs ' + hx(s), 'impl': list(r), 'detail': '%r: %s' % (s, r[1])})
    return cases, fails, drawn

# ---- the repaired IGS primitives with parameters from the whole i32 range (loop parameters carry a sign): no panic, no stall
EXTREME = [-2147483648, -2147483647, -1000000000, -99999, -32769, -32768, -641, -1, 0, 1, 5, 100, 199, 200, 319, 320, 639, 640, 32767, 32768, 99999, 1000000000,
           2147483599, 2147483646, 2147483647]
def gen_extreme(rng):
    lp = lambda c, vals: '&0,1,1,0,%s,%d,%s:' % (c, len(vals), ','.join('+%d' % v for v in vals))
    v = lambda: rng.choice(EXTREME) if rng.random() < 0.7 else rng.randint(-700, 700)
    c = rng.choice(['L', 'L', 'D', 'z', 'f', 'O', 'Q', 'G3', 'G2', 'B', 'P'])
    pre = rng.choice(['', 'A 1,1,1:', 'T 2,%d,1:' % rng.randint(1, 7), 'R 1,0:', 'G 1,3,0,0,50,40:', 'G 1,3,10,10,300,190:A 2,3,1:'])
    if c == 'L': cmd = lp('L', [v(), v(), v(), v()])
    elif c == 'D': cmd = lp('D', [v(), v()]) + lp('D', [v(), v()])
    elif c in 'zf':
        k = rng.choice([1, 2, 3, 4]); cmd = lp(c, [k] + [v() for _ in range(2 * k)])
    elif c == 'O': cmd = lp('O', [v(), v(), v()])
    elif c == 'Q': cmd = lp('Q', [v(), v(), v(), v()])
    elif c == 'G3': cmd = lp('G', [3, 3, v(), v(), v(), v(), v(), v()])
    elif c == 'G2': cmd = lp('G', [2, 3, v(), v()])
    elif c == 'B': cmd = lp('B', [v(), v(), v(), v(), rng.choice([0, 1])])
    else: cmd = lp('P', [v(), v()])
    return c[0], 'G#' + pre + cmd

# regression inputs of the defects repaired by fix: commits (must stay clean)
IGS_REGRESSIONS = ['G#&0,3,0,0,L,4,0,0,1,1:', 'G#&5,0,0,0,C,2,2,3:', 'G#&100,200,2147483647,0,L,4,0,0,1,1:', 'G#&1,3,1,0,L,4,+2147483647,0,0,0:', 'G#&1,3,1,0,L,4,--2147483648,0,0,0:',
                   'G#&1,3,1,0,L,4,!-2147483648,0,0,0:', 'G#&200,100,2147483647,0,L,4,0,0,1,1:', 'G#L 0,0,1000000000,0:', 'G#L 0,0,2147483599,2147483599:', 'G#D 1000000000,1000000000:D 0,0:',
                   'G#T 2,7,1:L 0,0,50,50:', 'G#T 2,7,5:D 9,9:z 2,1,1,30,30:', 'G#L 2147483647,2147483648,99999999999,1:', 'G#A 1,1,1:B 0,0,1000000000,1000000000,1:',
                   'G#O 0,0,99999:', 'G#Q1,99999,99999,1:', 'G#O 160,100,32767:', 'G#A 1,1,1:O 160,100,32767:', 'G#A 1,1,1:Q 160,100,32767,100:', 'G#Q 160,100,2000,3000:', 'G#O 100,100,4000:',
                   'G#f 3,99999,0,0,99999,5,5:', 'G#f 3,2147483599,0,0,2147483599,5,5:', 'G#A 1,1,1:f 3,99999,0,0,99999,5,5:',
                   'G#G 3,3,0,0,10,10,0,0:', 'G#G 1,3,0,0,50,40:G 3,3,10,10,99999,99999,100,100:', 'G#G 1,3,0,0,50,40:G 3,3,45,35,60,50,0,0:', 'G#G 2,3,10,10:']
REGRESSIONS = ['!|v0A0A1E1E|F14140F|', '!|V234020A40HH0|v1100ZZZ0|F8359x3|', '!|F00009Q0F|', '!|FHS000F|', '!|v0000ZZZZ|FHS9Q0F|', '!|v0000ZZZZ|B0000ZZZZ|F05059Q01|',
               '!|1B0A0A02ZZZZ0Z0Z0Z0Z0Z0Z0Z0Z0Z0Z0000000|1U0A0A1E1E1T00<>\xe9A<>x|', '!|1U0A0A1E1E1T00<>\xe9A<>x|', '!|1B0A0A02ZZZZ0Z0Z0Z0Z0Z0Z0Z0Z0Z0Z0000000|1U0A0A1E1E1T00<>\xe9\xe8A<>x|',
               '!|1B0A0A02ZZZZ0Z0Z0Z0Z0Z0Z0Z0Z0Z0Z0000000|1U0A0A1E1E6H00<>\xe9\xe8A\xe9<>x|'] + \
              ['!|w000000000!', '!|w00000000 0|', '!|w1000000000|', '!|w0010000000|', '!|1B' + 'Z' * 37 + '|', '!|Q1S|', '!|QZZ|', '!|a051S|', '!|a0Z1R|']

def search(ctx, broken):
    tables = rip_tables(ctx.repo)
    igt = igs_table(ctx.repo)
    rng = ctx.rng
    big = ctx.thorough or ctx.escalated
    streams = []          # (lang, ids, stream)
    for s in REGRESSIONS: streams.append(('rip', [], s))
    for s in IGS_REGRESSIONS: streams.append(('igs', [], s))
    for b in broken:
        d = b.get('detail') or {}
        c = str(d.get('case', '')) if isinstance(d, dict) else ''
        if c.startswith('ripobs '):
            streams.append(('rip', [], bytes.fromhex(c.split()[1]).decode('latin-1')))
    for s in rip_special(tables): streams.append(('rip', [], s))
    for s in igs_special(igt): streams.append(('igs', [], s))
    ex = rip_exhaustive(tables, 6 if ctx.thorough else (5 if ctx.escalated else 4))
    for i, s in ex: streams.append(('rip', [i], s))
    # the same uniform parameter strings on the states left by two preludes
    for pre in PRELUDES[1:]:
        for i, s in rip_exhaustive(tables, 2 if not big else 3):
            streams.append(('rip', [i], '!' + pre + s[1:]))
    for c, s in igs_exhaustive(igt, 12 if big else 3, rng): streams.append(('igs', [c], s))
    n_exh = len(streams)
    # random sequences: quick / escalated (a mutated tree; kept under ~5 min) / thorough
    for _ in range(40000 if ctx.thorough else ctx.n(2500, 14000)):
        ids, s = gen_rip_seq(rng, tables); streams.append(('rip', ids, s))
    for _ in range(25000 if ctx.thorough else ctx.n(1500, 9000)):
        ids, s = gen_igs_seq(rng, igt); streams.append(('igs', ids, s))
    for _ in range(3000 if ctx.thorough else 400):
        i, s = gen_extreme(rng); streams.append(('igs', [i], s))
    cases = ['%s %s' % (l, hx(s)) for l, _, s in streams]
    res = ctx.impl(cases, per_case_timeout=5, mem_mb=1024, jobs=8)
    failures = []
    nontriv = set()
    for (lang, ids, s), r in zip(streams, res):
        f = classify(ctx, lang, ids, s, r)
        if f: failures.append(f)
        elif len(s) > 3: nontriv.add(s)
    attribute(ctx, failures)
    lcases, lfails = loop_oracle(ctx)
    cases += lcases; failures += lfails
    ccases, cfails, cdrawn = line_oracle(ctx, rng)
    cases += ccases; failures += cfails
    failures.sort(key=lambda f: len(str(f['input'])))
    sig = {}
    for f in failures: sig[f['signature']] = sig.get(f['signature'], 0) + 1
    return {'cases': len(cases), 'failures': failures, 'distinct_nontrivial': len(nontriv), 'samples': [cases[len(REGRESSIONS) + len(IGS_REGRESSIONS) + 5], cases[n_exh + 1], cases[-1]],
            'exhaustive_command_table_cases': n_exh, 'rip_commands': [len(t) for t in tables], 'igs_commands': len(igt), 'signatures': sig,
            'line_clip_cases': len(ccases), 'line_clip_cases_drawing': cdrawn}

# ---------------------------------------------------------------------------------------------------------------
# stage C: modelled tokenizer + kernel vs the real parser, on streams restricted to the modelled commands
MODELLED0 = 'wv*eEgH>cQaWmXBSs$'
MODELLED1 = 'KTtEWDR'      # not the ESC-lettered Query / EnterBlockMode: after a parse error the ESC would reach the (unmodelled) ansi parser
XS = ['00', '00', '01', '05', '0A', '0K', '10', '1E', '2S', 'HR', 'HS', 'ZZ']
YS = ['00', '00', '01', '05', '0A', '0K', '10', '1E', '9P', '9Q', 'ZZ']
B36 = '0123456789ABCDEFGHIJKLMNOPQRSTUVWXYZ'

def gen_model_cmd(rng):
    r = rng.random()
    if r < 0.10: lv, c = 1, rng.choice(MODELLED1)
    else: lv, c = 0, rng.choice(MODELLED0 + 'vvXXXBBBcSsWm')
    if lv == 0 and c in '*eEH>': 
        if c == '*' and rng.random() < 0.8: c = rng.choice('eH>E')     # full-screen clears are slow to evaluate in Coq: keep them rarer
        return rip_cmd(0, c, '')
    if lv == 1 and c in 'KE': return rip_cmd(1, c, '')
    xy = lambda: rng.choice(XS) + rng.choice(YS)
    if lv == 0:
        if c == 'w': p = xy() + xy() + rng.choice('01') + rng.choice('01234A')
        elif c == 'v':
            p = xy() + xy() if rng.random() < 0.5 else rng.choice(['00', '05', '0A']) + rng.choice(['00', '05', '0A']) + rng.choice(['0K', '10', '1E', '0A']) + rng.choice(['0K', '10', '1E', '05'])
        elif c in 'gmX': p = xy()
        elif c == 'B': p = xy() + xy()
        elif c in 'cW': p = rng.choice(['00', '01', '02', '03', '04', '05', '07', '0F', '0G', '1S', 'ZZ', '73', '74'])
        elif c == 'Q': p = ''.join(rng.choice(['00', '01', '07', '1R', '1S', '3F', 'ZZ', '0Z']) for _ in range(rng.choice([16, 16, 16, 1, 3, 8])))
        elif c == 'a': p = rng.choice(['00', '05', '0F', '0G', '10', 'ZZ']) + rng.choice(['00', '1B', '1R', '1S', 'ZZ', '3F'])
        elif c == 'S': p = rng.choice(['00', '01', '02', '05', '0B', '0C', '0D', 'ZZ', '74']) + rng.choice(['00', '01', '0F', '0G', 'ZZ'])
        elif c == 's': p = ''.join(rng.choice(['00', '01', 'ZZ', '2S', '7V', '4Q', '73']) for _ in range(8)) + rng.choice(['00', '0F', '0G', '09'])
        elif c == '$': p = rng.choice(['DATE', 'X', '', 'A B']) + ('$' if rng.random() < 0.8 else '')
        else: p = ''
    else:
        p = ''.join(rng.choice(B36) for _ in range(rng.choice([0, 2, 5, 8, 10]))) + rng.choice(['', 'text', 'a.b<>c'])
    m = rng.random()
    if m < 0.12 and p: p = p[:rng.randrange(len(p))]                                  # truncated
    elif m < 0.20: p = p + ''.join(rng.choice(B36) for _ in range(rng.randint(1, 4)))  # over-long
    elif m < 0.26 and p: k = rng.randrange(len(p)); p = p[:k] + rng.choice(' !-,.;') + p[k+1:]   # not a digit
    elif m < 0.32 and p: k = rng.randrange(len(p) + 1); p = p[:k] + rng.choice(['\\\n', '\\\r\n', '\\', '\r']) + p[k:]   # continuation
    elif m < 0.36 and p: p = ''.join(rng.choice(B36 + 'abcxyz') for _ in p)
    term = '|' if rng.random() < 0.88 else rng.choice(['\n!', '\r\n!', '\n', '\n!!', '#|', '#x!'])
    return rip_cmd(lv, c, p.replace('|', '0'), term)

def gen_model_stream(rng):
    k = rng.choice([1, 2, 3, 5, 8, 12, 20])
    cmds = []
    if rng.random() < 0.75:
        cmds.append('|v' + rng.choice(['00', '05']) + rng.choice(['00', '02']) + rng.choice(['0K', '1E', '0A']) + rng.choice(['08', '0K', '05']))   # a small viewport first
    for _ in range(k): cmds.append(gen_model_cmd(rng))
    if rng.random() < 0.15: cmds.insert(rng.randrange(len(cmds) + 1), rng.choice(['|?', '|1?', '|9x', '|1', ' plain text !', 'x!y!|', '|#', '|#\n!']))
    s = rng.choice(['!', '!', '!', 'ab!', '!!']) + ''.join(cmds)
    if not s.endswith('\n') and rng.random() < 0.9: s += '|'
    return s

DIRECTED_C = ['!|c0A|X0101|', '!|v05050A0A|B00000Z0Z|', '!|*|', '!|E|', '!|w00001B0M10|e|', '!|w0000000000|text|w0000000000|more', '!|S0B0F|B00000K0K|', '!|S0C0F|s0102040810204080ZZ|B05050K0K|',
              '!|W01|c0F|X0505|X0505|', '!|W04|X0000|', '!|W02|c03|X0101|c0C|X0101|', '!|W03|c03|X0101|', '!|Q000102030405060708090A0B0C0D0E0F|', '!|Q1S|', '!|a051B|a0Z1S|', '!|aZZZZ|',
              '!|vHRHR0000|B0000ZZZZ|E|', '!|v0000ZZZZ|XHS00|XHR9P|XHS9P|', '!|v0005ZZ0A|S020F|E|', '!|m0509|g0A0B|', '!|w0A0A00001 |e|', '!|w050A0A0501|S010F|e|', '!|c0|', '!|X01|', '!|B0505|',
              '!|c0\\\n1|X0000|', '!|$A$|c01|', '!|1K|1E|1T0011001100|c02|', '!|#|c01|', '!|#x!|c01|', '!x!|c01|', '!|c01\n!|c02|', '!|v00000A0A|S020F|B00000A0A|W01|B00000A0A|']

# ---- extension 1 (line family): streams with Line / Rectangle / Polygon / PolyLine / LineStyle on a small viewport, and the
# primitives called directly with arbitrary i32 arguments
SMALL_VP = ['|v00000K0F', '|v0502190K', '|v00000A0A', '|v0A000K0P', '|v0000140C', '|v03031E0K']
LX = ['00', '00', '01', '03', '05', '08', '0A', '0F', '0K', '0P', '10', '1E', 'HR', 'ZZ']
def gen_line_cmd(rng):
    xy = lambda: rng.choice(LX) + rng.choice(LX)
    c = rng.choice('LLLLRRPl==cWXBSm')
    if c in 'LR': p = xy() + xy()
    elif c in 'Pl':
        k = rng.choice([0, 1, 2, 3, 3, 4, 5])
        p = '0' + str(k) + ''.join(xy() for _ in range(k)) + rng.choice(['', '', '05', '0505', '050505'])
        if rng.random() < 0.15: p = p[:rng.randrange(len(p) + 1)]
    elif c == '=':
        p = rng.choice(['00', '01', '02', '03', '04', '04', '05', '74', 'ZZ']) + rng.choice(['0000', '0001', 'FFFF', '5555', '0F0F', 'ZZZZ', '00ZZ', '1EKF']) + rng.choice(['01', '01', '01', '02', '03', '03', '05', '00', '08'])
    elif c in 'cW': p = rng.choice(['00', '01', '02', '03', '04', '07', '0F', '0G'])
    elif c in 'Xm': p = xy()
    elif c == 'B': p = xy() + xy()
    else: p = rng.choice(['00', '01', '02', '0B', '0C']) + rng.choice(['00', '01', '0F'])
    m = rng.random()
    if m < 0.08 and p: p = p[:rng.randrange(len(p))]
    elif m < 0.14: p = p + ''.join(rng.choice(B36) for _ in range(rng.randint(1, 3)))
    elif m < 0.18 and p: k = rng.randrange(len(p)); p = p[:k] + rng.choice(' !-,.;') + p[k+1:]
    elif m < 0.22 and p: k = rng.randrange(len(p) + 1); p = p[:k] + rng.choice(['\\\n', '\\\r\n', '\r']) + p[k:]
    term = '|' if rng.random() < 0.9 else rng.choice(['\n!', '\r\n!', '\n'])
    return rip_cmd(0, c, p.replace('|', '0'), term)

def gen_line_stream(rng):
    cmds = [rng.choice(SMALL_VP)]
    for _ in range(rng.choice([1, 2, 3, 5, 8, 12])): cmds.append(gen_line_cmd(rng))
    s = '!' + ''.join(cmds)
    if not s.endswith('\n') and rng.random() < 0.9: s += '|'
    return s

DIRECTED_L = ['!|L00000402|', '!|c0A|L00000A05|', '!|L0A050000|', '!|L000A0500|', '!|L05000500|', '!|L00050A05|', '!|L05050505|', '!|v00000K0F|L0000ZZZZ|', '!|v00000K0F|LZZZZ0000|', '!|v00000K0F|L00ZZZZ00|',
              '!|v00000K0F|=010003|L00000K0F|', '!|v00000K0F|=045A5A02|R02020F0A|', '!|v00000K0F|=040000 1|L00000K0F|', '!|v05050K0F|=000005|R00000P0K|', '!|v00000K0F|=02000001|P03010105090905|',
              '!|v00000K0F|l03010105050909|', '!|v00000K0F|P00|', '!|v00000K0F|l00|', '!|v00000K0F|P01|', '!|v00000K0F|P010505|', '!|v00000K0F|l020101|', '!|v00000K0F|=000003|*|', '!|=01000001|*|L00000A00|',
              '!|v00000K0F|W01|L00000A0A|L00000A0A|', '!|v00000K0F|=0000ZZ|L05050A05|', '!|v00000K0F|=000000|L00000A05|', '!|v0000000F|L00000A05|', '!|vZZZZ0000|L00000A05|', '!|L0000ZZ01|', '!|L000001ZZ|']

def gen_ripline_case(rng):
    vp = rng.choice([(0, 0, 40, 30), (5, 2, 40, 30), (0, 0, 20, 15), (10, 10, 15, 15), (0, 0, 1295, 12), (3, 3, 6, 40), (0, 0, 0, 0), (600, 0, 700, 20), (30, 20, 40, 25)])
    def coord(lo, hi):
        r = rng.random()
        if r < 0.70: return rng.randint(min(lo, hi), max(lo, hi))
        if r < 0.82: return rng.randint(-20, 80)
        if r < 0.93: return rng.choice([0, 1, 639, 640, 349, 350, 1295, 65535, -1, -300, -65535])
        return rng.randint(-65535, 65535)
    pt = lambda: [coord(vp[0], min(vp[2], vp[0] + 45)), coord(vp[1], min(vp[3], vp[1] + 30))]
    style = rng.choice([0, 0, 0, 1, 2, 3, 4, 4, 7, 255, 260])
    up = rng.choice([1, 0x5555, 0xF0F0, 0xFFFF, 1679615, 0x8001, -1, 70000, 0])
    thick = rng.choice([1, 1, 1, 3, 3, 2, 0, 5, 9])
    if vp[2] <= 40 and vp[3] <= 30 and rng.random() < 0.15: thick = rng.choice([40, 1295, 65535])
    wm = rng.choice([0, 0, 0, 0, 1, 2, 3, 4])
    kind = rng.choice([0, 0, 0, 1, 2, 3])
    co = pt() + pt() if kind < 2 else sum([pt() for _ in range(rng.choice([0, 1, 2, 3, 4]))], [])
    if kind == 0 and rng.random() < 0.15: co[2] = co[0]
    if kind == 0 and rng.random() < 0.15: co[3] = co[1]
    return list(vp) + [style, up, thick, wm, kind] + co

DIRECTED_RL = [[0, 0, 40, 30, 0, 0, 1, 0, 0, 0, 0, 10, 5], [0, 0, 40, 30, 0, 0, 1, 0, 0, 10, 5, 0, 0], [0, 0, 40, 30, 0, 0, 1, 0, 0, 0, 5, 10, 0], [0, 0, 40, 30, 0, 0, 1, 0, 0, 3, 0, 0, 17],
               [0, 0, 40, 30, 0, 0, 3, 0, 0, -65535, -65535, 65535, 65535], [0, 0, 40, 30, 1, 0, 1, 0, 0, 65535, 0, -65535, 1], [0, 0, 40, 30, 4, 0x5555, 2, 1, 0, 0, -65535, 1, 65535],
               [5, 5, 20, 20, 2, 0, 5, 0, 1, 0, 0, 30, 30], [0, 0, 40, 30, 3, 0, 1, 0, 2, 1, 1, 20, 3, 9, 25], [0, 0, 40, 30, 0, 0, 1, 0, 3, 1, 1, 20, 3, 9, 25], [0, 0, 40, 30, 0, 0, 1, 0, 2], [0, 0, 40, 30, 0, 0, 1, 0, 3],
               [0, 0, 40, 30, 0, 0, 65535, 0, 0, 5, 5, 9, 7], [0, 0, 40, 30, 0, 0, 0, 0, 0, 5, 5, 25, 7], [0, 0, 0, 0, 0, 0, 1, 0, 0, 0, 0, 5, 5], [30, 20, 10, 5, 0, 0, 1, 0, 0, 0, 0, 35, 25]]

def zlit(v): return '(%d)' % v

def correspondence_lines(ctx, rng):
    """-> (cases, disagreements, nontrivial set, counters) for the line-family part of stage C"""
    streams = [d.encode().decode('unicode_escape') for d in DIRECTED_L] + [gen_line_stream(rng) for _ in range(ctx.n(110, 1000))]
    kc = DIRECTED_RL + [gen_ripline_case(rng) for _ in range(ctx.n(140, 1000))]
    cases = ['ripobs2 ' + hx(s) for s in streams] + ['ripline ' + ' '.join(str(v) for v in c) for c in kc]
    impl = ctx.impl(cases, per_case_timeout=10)
    exprs = ['run_rip2 %s' % to_codes(s) for s in streams] + \
            ['run_line %s [%s]' % (' '.join(zlit(v) for v in c[:9]), '; '.join(zlit(v) for v in c[9:])) for c in kc]
    model = model_parallel(ctx, 'From IE Require Import Run.RunC20.\nLocal Open Scope Z_scope.', exprs)
    dis = []; nontriv = set(); cnt = {'line_streams': len(streams), 'line_kernel_cases': len(kc), 'kernel_cases_drawing': 0, 'line_streams_unmodelled': 0}
    for i, (c, r, m) in enumerate(zip(cases, impl, model)):
        a = r[1] if (r is not None and r[0] == 'ok') else ([-1] if (r is not None and r[0] == 'panic') else None)
        b = m
        if b is not None and len(b) >= 1 and b[0] == -1: b = [-1]
        if a != b or a is None:
            dis.append({'case': c, 'stream': streams[i] if i < len(streams) else None, 'impl': r if r is None or r[0] != 'ok' else r[1], 'model': m})
        else:
            nontriv.add(c)
            if i >= len(streams) and a != [-1] and a[2] > 0: cnt['kernel_cases_drawing'] += 1
        if b == [-2]: cnt['line_streams_unmodelled'] += 1
    return cases, dis, nontriv, cnt

# ---- extension 2 / 3 (IGS tokenizer + pixel kernel): streams over the modelled executor arms C Z A s R, loops over them, every
# letter with a wrong parameter count, text commands cut by a newline, separators / continuation / junk
IGS_ARITY_HINT = {'I': 1, '?': 1, 'k': 1, 'C': 2, 'S': 4, 'L': 4, 'D': 2, 'B': 5, 'U': 5, 'H': 1, 'V': 5, 'O': 3, 'Q': 4, 'J': 6, 'q': 1, 'A': 3, 'Z': 4, 't': 1, 'P': 2, 'E': 3,
                  'T': 3, 'M': 1, 'R': 2, 'F': 2, 'c': 2, 'p': 2}
def gen_igs_model_cmd(rng):
    sx = lambda: str(rng.choice([0, 1, 2, 3, 5, 8, 13, 20, 33, 47, 60]))
    sy = lambda: str(rng.choice([0, 1, 2, 3, 4, 6, 9, 12]))
    r = rng.random()
    if r < 0.22:
        big = rng.random() < 0.12
        v = [sx(), sy(), sx(), sy()]
        if big:      # a wide rectangle only one or two rows high, never a tall one: every pixel costs a pass over the canvas list in Coq
            v[rng.choice([0, 2])] = rng.choice(['99999', '2147483647', '4000000000', '319', '320', '639'])
            v[3] = str(min(12, int(v[1]) + rng.choice([0, 0, 1])))
        elif rng.random() < 0.04:      # a tall rectangle two pixels wide
            x0 = rng.choice([0, 318]); v = [str(x0), rng.choice(['0', '190']), str(x0 + 1), rng.choice(['199', '200', '99999'])]
        c = 'Z' + rng.choice(['', ' ']) + ','.join(v)
    elif r < 0.32: c = 'C' + rng.choice(['', ' ']) + rng.choice(['0', '1', '1', '2', '2', '2', '3', '4', '99']) + ',' + rng.choice(['0', '1', '2', '3', '7', '15', '16', '255'])
    elif r < 0.42: c = 'A ' + rng.choice(['0', '1', '2', '2', '3', '3', '4', '5']) + ',' + rng.choice(['0', '1', '5', '6', '7', '12', '13', '24', '25', '99']) + ',' + rng.choice(['0', '1', '1', '2'])
    elif r < 0.53: c = rng.choice(['L ' + ','.join([sx(), sy(), sx(), sy()]), 'L ' + ','.join([sx(), sy(), sx(), sy()]), 'D ' + sx() + ',' + sy(), 'D ' + sx() + ',' + sy(),
                                   'T 2,' + rng.choice(['1', '2', '3', '4', '5', '6', '6', '7', '7', '0', '8']) + ',' + rng.choice(['1', '3']), 'T 1,' + rng.choice(['1', '6', '7', '0']) + ',1', 'T 3,1,1',
                                   'L ' + sx() + ',' + sy() + ',' + rng.choice(['400', '1000', '99999', '1000000000', '2147483647', '4000000000']) + ',' + sy(), 'L 0,' + sy() + ',0,' + rng.choice(['250', '1000', '2147483647']),
                                   'L ' + rng.choice(['99999', '2147483647']) + ',' + rng.choice(['0', '99999', '2147483599']) + ',' + sx() + ',' + sy(), 'D ' + rng.choice(['99999,5', '5,99999', '2147483647,2147483647'])])
    elif r < 0.56: c = 's' + rng.choice(['', ' 0', ' 5', ' 1,2'])
    elif r < 0.59: c = rng.choice(['H ' + rng.choice(['0', '1', '2']), 'M ' + rng.choice(['0', '1', '3', '4', '5']),
                                   'S ' + rng.choice(['0', '1', '2', '15', '16']) + ',' + ','.join(rng.choice(['0', '3', '7', '8', '255', '256']) for _ in range(3))])
    elif r < 0.63: c = 'R ' + rng.choice(['0', '0', '1', '2', '3']) + ',' + rng.choice(['0', '1', '2', '3'])
    elif r < 0.74:
        # a letter with the wrong number of parameters: an error before anything happens
        l = rng.choice(sorted(IGS_ARITY_HINT)); n = IGS_ARITY_HINT[l]
        k = rng.choice([x for x in range(0, 8) if x != n])
        c = l + ','.join(str(rng.choice([0, 1, 5, 50, 320])) for _ in range(k))
    elif r < 0.79: return 'W ' + rng.choice(['1,2,abc', '10,10,Hello World', '1,2,', '1,2,a:b,c@d'][:3]) + '\nG#'
    elif r < 0.95:
        cmd = rng.choice('ZZZCCAsLLD')
        frm, to = rng.choice([(0, 3), (0, 6), (5, 0), (0, 0), (2, 9), (3, 4), (7, 2), (0, 12)])
        step = rng.choice([1, 1, 1, 2, 3, 5, 0, 2147483647, 99])
        if cmd in 'CLD' and rng.random() < 0.25:      # long counters only for commands whose cost in Coq does not grow with x / y
            frm, to, step = rng.choice([(100, 200, 30), (100, 200, 99), (200, 100, 30), (200, 100, 2147483647), (0, 2147483599, 2147483647), (0, 2147483599, 500000000), (0, 2147483599, 2147483599),
                                        (2147483599, 2147483000, 99), (2147483599, 0, 1000000000), (2147483599, 2147483000, 2147483647)])      # at most 7 steps each
        big = ['+2147483647', '--2147483648', '!-2147483648', '+-2147483648', '-2147483647', '!2147483647']
        if cmd == 'Z': par = [rng.choice(['x', 'y', '0', '5', '+2', '-3', '!7', '12', 'q', '', '+x', '-y', '007']) for _ in range(4)]      # no huge rectangles: every pixel is a pass over the canvas list in Coq
        elif cmd == 'C': par = [rng.choice(['2', '0', '1', 'x']), rng.choice(['x', 'y', '3', '+1', '-15', '!16'] + big[:1])]
        elif cmd == 'A': par = [rng.choice(['2', '3', 'x']), rng.choice(['x', 'y', '+1', '5']), rng.choice(['0', '1', 'x'])]
        elif cmd == 'L': par = [rng.choice(['x', 'y', '0', '5', '+2', '-3', '!7', '12', '40'] + big) for _ in range(4)]
        elif cmd == 'D': par = [rng.choice(['x', 'y', '3', '+9', '-30'] + big) for _ in range(2)]
        else: par = []
        groups = rng.choice([1, 1, 1, 2])
        npar = len(par) * groups
        body = ':'.join(','.join(par) for _ in range(groups))
        if rng.random() < 0.15: npar = rng.choice([0, 1, npar + 1, npar - 1 if npar else 0])
        sep = rng.choice([',', ',', '@', '|'])
        delay = rng.choice(['0', '0', '5', '99'])
        return '&%d,%d,%d,%s,%s%s%d,%s:' % (frm, to, step, delay, cmd, sep, npar, body)
    else: c = rng.choice(['L 0,0,5,5', 'P 3,3', 'B 0,0,9,9,1', 'F 1,1', 'X 0,1', 'g 1', 'n 1,2', '~0', '&', '&1,2', '&0,3,1,0,L', 'Z 1,2,3,4,'])
    m = rng.random()
    if m < 0.06: c = c.replace(',', ' , ', 1)
    elif m < 0.10: c = c.replace(',', ',_\n', 1)
    elif m < 0.14: c = c[:rng.randrange(1, len(c) + 1)] + rng.choice(['x', '-', '\n', '@', 'G#'])
    term = ':' if rng.random() < 0.92 else rng.choice([':\nG#', ':\r\nG#', ':\n\nG#', ' :', '', ':G#'])
    return c + term

def gen_igs_model_stream(rng):
    k = rng.choice([1, 2, 3, 5, 8, 12])
    s = rng.choice(['G#', 'G#', 'G#', 'xG#', 'GG#', 'G\nG#', 'G#?', '']) + ''.join(gen_igs_model_cmd(rng) for _ in range(k))
    if rng.random() < 0.1: s += rng.choice(['G', 'G#', 'text', 'G#Z 1,2'])
    return s

DIRECTED_I = ['G#L 0,0,1000000000,0:', 'G#C 1,2:T 2,7,1:L 0,0,50,12:D 60,0:', 'G#L 2147483647,2147483648,99999999999,1:', 'G#&0,1,1,0,L,4,+-2147483648,+-2147483648,+2147483647,+2147483647:',
              'G#&0,1,1,0,L,4,+-10,+-10,+700,+500:', 'G#&0,1,1,0,L,4,+-5,+3,+1000000000,+4:C 1,3:D 5,5:', 'G#&0,3,0,0,L,4,0,0,1,1:C 1,2:L 0,0,5,5:', 'G#&100,200,2147483647,0,L,4,0,0,x,1:', 'G#&1,3,1,0,L,4,+2147483647,0,0,0:',
              'G#&1,3,1,0,L,4,--2147483648,0,0,0:', 'G#&1,3,1,0,L,4,!-2147483648,0,0,0:', 'G#&200,100,99,0,D,2,x,y:', 'G#&5,0,0,0,C,2,2,3:', 'G#R 1,0:L 0,0,99999,150:L 639,0,0,199:', 'G#L 319,0,319,99999:L 320,0,320,50:',
              'G#C 1,3:L 0,0,4,2:', 'G#C 1,2:L 5,5,40,9:D 3,12:D 60,0:', 'G#T 2,3,1:C 1,5:L 0,0,60,12:', 'G#T 2,6,1:C 1,5:L 0,12,60,0:D 0,0:', 'G#T 2,7,1:L 0,0,5,5:', 'G#T 2,8,1:T 1,7,1:T 3,1,1:T 1,2,5:L 1,1,9,9:',
              'G#L 0,0,99999,5:', 'G#L 99999,99999,0,0:', 'G#L 0,0,0,0:', 'G#D 5,5:D 5,5:', 'G#L 1,2,3:', 'G#&0,4,1,0,L,4,0,x,20,y:', 'G#C 1,4:&0,5,1,0,D,2,+3,x:', 'G#L 2147483647,0,0,0:', 'G#L 0,0,200000,1:T 2,2,1:',
              'G#S 2,7,0,3:C 2,2:Z 0,0,10,5:', 'G#S 1,7,7,7:', 'G#S 16,1,1,1:', 'G#S 0,255,256,8:Z 0,0,3,3:', 'G#H 1:H 2:M 3:M 0:M 5:', 'G#C 2,3:Z 0,0,10,5:', 'G#&0,3,1,0,Z,4,x,0,x,5:', 'G#R 1,2:A 2,5,1:Z 3,3,40,9:', 'G#Z 0,0,99999,3:', 'G#Z 99999,99999,318,198:', 'G#Z 4000000000,0,5,5:', 'G#A 3,9,1:C 2,5:Z 1,1,33,9:',
              'G#A 2,0,0:C 2,15:Z 0,0,47,12:', 'G#A 2,25,1:Z 0,0,5,5:', 'G#A 3,13,2:Z 0,0,5,5:', 'G#A 5,1,1:', 'G#C 2,16:Z 0,0,5,5:', 'G#C 4,1:', 'G#C 2:', 'G#s:Z 0,0,3,3:', 'G#R 1,0:Z 600,0,700,3:', 'G#R 0,3:', 'G#R 2,0:',
              'G#R 1,1:R 0,0:Z 0,0,5,5:', 'G#W 1,2,abc\nG#C 2,3:Z 0,0,5,5:', 'G#&0,3,1,0,C,2,2,x:Z 0,0,9,2:', 'G#&5,0,2,0,Z,4,x,0,x,y:', 'G#&0,0,1,0,Z,4,0,0,1,1:', 'G#&0,3,1,0,~,4,0,0,1,1:', 'G#&0,3,1,0,Z,0,:',
              'G#&0,6,1,0,Z,8,0,0,x,1:0,3,x,4:', 'G#&0,3,1,0,Z,4,q,0,1,1:', 'G#&0,3,1,0,Z,4,+x,-y,!2,y:', 'G#&0,3,1,5,Z,4,0,0,1,1:', 'G#&0,3,1,0,Z|4,0,0,1,1:', 'G#&0,3,1,0,Z,4,0,0,\n1,1:', 'G#&0,3,1,0,Z,x',
              'G#&0,3,0,0,C,2,2,3:Z 0,0,2,2:', 'G#&100,200,2147483647,0,C,2,2,1:', 'G#&1,3,1,0,C,2,+2147483647,0:', 'G#&0,3,1,0,Z,4,0,0,1,1:&0,2,1,0,C,2,2,x:', 'G#L 1,2:', 'G#L:', 'G#?:', 'G#~:', 'G', 'G#', 'Gx', 'plain text',
              'G#Z 0 , 0 , 5 , 5 :', 'G#Z>0,0,5,5:', 'G#Z 0,0,_\n5,5:', 'G#Z 0,0,5,5:\nG#C 2,4:Z 6,0,9,3:', 'G#Z 0,0,5,5:\n\nG#C 2,4:', 'G#Z 0,0,5,5:\rG#C 2,4:', 'G#Z 0,0,5,5:x', 'G#Z -1,0,5,5:', 'G#Z 0,,5:', 'G#Z ,:', 'G#:']

def correspondence_igs(ctx, rng):
    streams = [d.encode().decode('unicode_escape') for d in DIRECTED_I] + [gen_igs_model_stream(rng).encode().decode('unicode_escape') for _ in range(ctx.n(160, 1200))]
    cases = ['igsobs ' + hx(s) for s in streams]
    impl = ctx.impl(cases, per_case_timeout=10)
    model = model_parallel(ctx, 'From IE Require Import Run.RunC20.\nLocal Open Scope Z_scope.', ['run_igs2 %s' % to_codes(s) for s in streams])
    dis = []; nontriv = set(); cnt = {'igs_streams': len(streams), 'igs_unmodelled': 0, 'igs_with_loop_steps': 0, 'igs_with_errors': 0, 'igs_panic_both': 0}
    for st, c, r, m in zip(streams, cases, impl, model):
        a = r[1] if (r is not None and r[0] == 'ok') else ([-1] if (r is not None and r[0] == 'panic') else None)
        b = m
        if b is not None and len(b) >= 1 and b[0] == -1: b = [-1]
        if b == [-2]:
            cnt['igs_unmodelled'] += 1          # a command outside the kernel ran: nothing to compare (the generator keeps these rare)
            if a is None: dis.append({'case': c, 'stream': st, 'impl': r, 'model': m})
            continue
        if a != b or a is None:
            dis.append({'case': c, 'stream': st, 'impl': r if r is None or r[0] != 'ok' else r[1], 'model': m})
        else:
            nontriv.add(st)
            if a == [-1]: cnt['igs_panic_both'] += 1
            else:
                if a[1] > 0: cnt['igs_with_loop_steps'] += 1
                if a[0] > 0: cnt['igs_with_errors'] += 1
    return cases, dis, nontriv, cnt

def model_parallel(ctx, imports, exprs, ways=16, timeout=900):
    """ctx.model caps its shard count at one per 50 expressions; a full-screen fill costs seconds in Coq, so the expressions are
    dealt round-robin to `ways` concurrent ctx.model calls (each on a shallow copy of ctx with its own case-file prefix)"""
    import copy, threading
    ways = max(1, min(ways, len(exprs)))
    out = [None] * len(exprs); errs = []
    def work(k):
        c = copy.copy(ctx); c.pid = '%s_w%d' % (ctx.pid, k)
        idx = list(range(k, len(exprs), ways))
        r = c.model(imports, [exprs[i] for i in idx], shards=1, timeout=timeout)
        for i, v in zip(idx, r): out[i] = v
        errs.extend(getattr(c, 'model_errors', []))
    th = [threading.Thread(target=work, args=(k,)) for k in range(ways)]
    for t in th: t.start()
    for t in th: t.join()
    ctx.model_errors = errs
    return out

def to_codes(s):
    return '[%s]%%N' % '; '.join(str(ord(ch)) for ch in s)

def correspondence(ctx):
    rng = ctx.rng
    streams = [d.encode().decode('unicode_escape') for d in DIRECTED_C] + [gen_model_stream(rng) for _ in range(ctx.n(220, 3000))]
    cases = ['ripobs ' + hx(s) for s in streams]
    impl = ctx.impl(cases, per_case_timeout=10)
    model = model_parallel(ctx, 'From IE Require Import Run.RunC20.\nLocal Open Scope Z_scope.', ['run_rip %s' % to_codes(s) for s in streams])
    dis = []; nontriv = set(); dist = {'with_error_chars': 0, 'panic_both': 0}
    lens = {}
    for st, c, r, m in zip(streams, cases, impl, model):
        a = r[1] if (r is not None and r[0] == 'ok') else ([-1] if (r is not None and r[0] == 'panic') else None)
        b = m
        if b is not None and len(b) >= 1 and b[0] == -1: b = [-1]
        if a != b or a is None:
            dis.append({'case': c, 'stream': st, 'impl': r if r is None or r[0] != 'ok' else r[1], 'model': m})
        else:
            if a == [-1]: dist['panic_both'] += 1
            else:
                if a[0] > 0: dist['with_error_chars'] += 1
                nontriv.add(st)
        n = st.count('|'); lens[n] = lens.get(n, 0) + 1
    dist['commands_per_stream'] = {str(k): v for k, v in sorted(lens.items())}
    dist['model_errors'] = getattr(ctx, 'model_errors', [])[:2]
    lcases, ldis, lnon, lcnt = correspondence_lines(ctx, rng)
    dist.update(lcnt)
    dist['model_errors'] += getattr(ctx, 'model_errors', [])[:2]
    icases, idis, inon, icnt = correspondence_igs(ctx, rng)
    dist.update(icnt)
    dist['model_errors'] += getattr(ctx, 'model_errors', [])[:2]
    return {'cases': len(cases) + len(lcases) + len(icases), 'disagreements': dis + ldis + idis, 'distinct_nontrivial': len(nontriv) + len(lnon) + len(inon), 'distribution': dist,
            'samples': [cases[0], cases[len(DIRECTED_C) + 1], cases[-1], lcases[0], lcases[-1], icases[1], icases[-1]]}

def replay(ctx, body):
    from vlib import driver
    inp = body.get('input')
    print('replay', ID, inp)
    driver.stage_build()
    r = ctx.impl([inp], per_case_timeout=5)[0]
    lang, h = inp.split()[:2]
    stream = bytes.fromhex(h).decode('latin-1') if h != '-' else ''
    print('stream: %r' % stream)
    print('implementation:', r)
    if lang == 'rip':
        o = ctx.impl(['ripobs ' + hx(stream)], per_case_timeout=10)[0]
        m = ctx.model('From IE Require Import Run.RunC20.\nLocal Open Scope Z_scope.', ['run_rip %s' % to_codes(stream)], timeout=300)[0]
        print('implementation state (ripobs):', o)
        print('model (run_rip; [-2] = reaches a command outside the modelled kernel, [-1; site] = model panic):', m)
    if lang == 'igs':
        o = ctx.impl(['igsobs ' + hx(stream)], per_case_timeout=10)[0]
        m = ctx.model('From IE Require Import Run.RunC20.\nLocal Open Scope Z_scope.', ['run_igs2 %s' % to_codes(stream)], timeout=300)[0]
        print('implementation (igsobs):', o)
        print('model (run_igs2; [-2] = a command outside the modelled executor ran, [-1; site] = model panic, site 32 = Loop::next_step arithmetic):', m)
        bounds = dict(LOOP_BOUNDS)
        if stream in bounds:
            d = ctx.impl(['igsdrain %s %d' % (hx(stream), bounds[stream] + 200)], per_case_timeout=20)[0]
            print('loop drain (steps during the stream, further steps, ended):', d)
            if d[0] == 'ok' and (not d[1][2] or d[1][0] + d[1][1] > bounds[stream]):
                print('oracle: FAIL igs-loop-endless: the loop may run at most %d steps' % bounds[stream])
                return 1
    f = classify(ctx, lang, [], stream, r)
    if f:
        attribute(ctx, [f])
        print('oracle: FAIL', f['signature'], f.get('detail'))
        return 1
    print('oracle: ok')
    return 0

LEVEL_TEXT = ('PARTIAL by design. Machine-checked proof (Coq, closed under the global context) for the RIPscrip tokenizer, a BGI kernel with its line family, the IGS tokenizer and an IGS pixel kernel: '
              '(a) model of rip::Parser::print_char (all six states, !| lead-in, levels 0/1/9, continuation lines, text variables) and of Command::parse of all 52 commands, dispatch and parse tables re-extracted from '
              'rip/mod.rs and commands.rs on every run; theorems: no character of any stream reaches a panic site of the tokenizer, the parameter index stays below the arity, every field stays below 36^(digits read), '
              'palette / polygon vectors hold numbers below 1296, two line feeds always resynchronise; (b) model of put_pixel / bar / bar_rect / viewport / palette / fill state and of the run-slice line family '
              '(fill_x, fill_y, line, rectangle, draw_poly, draw_poly_line, line style / pattern / thickness) with checked indexing and checked i32 arithmetic; theorems kernel_safe / kernel2_safe: every modelled command '
              '(TextWindow, ViewPort, ResetWindows, EraseWindow, EraseView, GotoXY, Color, SetPalette, OnePalette, WriteMode, Move, Pixel, Bar, FillStyle, FillPattern, Line, Rectangle, Polygon, PolyLine, LineStyle + 12 no-op commands) '
              'with ANY parameters in 0..=65535 on any state satisfying the invariant returns normally and keeps the canvas at width x height bytes; Bgi::line is proved over an abstract canvas: every pixel is plotted through the checked '
              'put_pixel AFTER clipping to the viewport and at most (3(|dx|+|dy|)+8)*thickness pixels are plotted; lifted by induction to every command sequence and to every character stream of the whole parser, for every behaviour '
              'of the wrapped ansi parser; (c) character-level model of the IGS tokenizer (states, saturating decimal accumulation, & loops with their header, `:` chaining, `@` text, line continuation, Loop::new, Loop::next_step) with command execution '
              'and the fallback parser as parameters; theorem igs_tokenizer_safe / igs_stream_safe: for every executor, every interleaving of characters and get_next_action calls, NO panic site is reached (parsed_numbers[0..=4], the loop_parameters unwraps, '
              '`% len`, the parameter index, the delay sleep, and — since the fix commits: step <= 0 rejected, saturating counter and parameter arithmetic — the i32 arithmetic of Loop::next_step); every loop the parser runs moves its counter towards `to` in every step '
              'and ends after at most |to-from| steps (igs_loop_progress, igs_loop_terminates); (d) IGS set_pixel / get_pixel / fill_pixel / fill_rect and the executor arms ColorSet, FilledRectangle, AttributeForFills, '
              'ScreenClear, SetResolution, HollowSet, DrawingMode, SetPenColor are safe for ALL parameter values, fill_rect does at most width x height pixel calls, get_picture_data indexes the pen table in range; '
              '(e) IGS draw_line (DrawLine, LineDrawTo, LineMarkerTypes) with its clip to the screen (clip_line / cut in i128: no overflow, no division by zero, end points on the screen): for ALL i32 arguments and every line type it returns after at most width + height - 1 loop iterations — work bounded by the canvas; '
              'igs_stream_kernel2_safe joins (c), (d), (e): the whole IGS parser over these executor arms has no panic outcome; the behaviour before the fixes (endless step-0 loop, overflowing loop arithmetic, unclipped line loop, LINE_STYLE[6]) is kept as statements about the old expressions. '
              'NOT proved: ovals, arcs, bezier, filled polygons, flood fill, fonts, buttons, icons, images and the other IGS drawing commands, and that the clipped line is the visible part of the line — covered only by the search stage, which runs the complete RIP and IGS command tables '
              '(every letter x parameter lengths 0..=24 over {0,1,Z}; 0..=12 IGS values), the repaired IGS primitives with parameters from the whole i32 range, an independent rational-arithmetic line clipper and random sequences against the real code under 5 s / 1 GiB limits; 27 defects found this way are fixed by fix: commits, 1 failure class (a todo!() feature) remains a known finding.')
LEVEL_NOTE = ('Trusted: Coq kernel + vm_compute; the python translator (tables, constants, token pins); hand-written tokenizer / kernel models tied by differential runs (state and canvas hashes); '
              'the harness and worker limits. Assumes streams shorter than 2^31 characters (parameter_state overflow witness is a theorem) and fewer than 2^31 IGS loop parameters. No axioms.')
TECHNIQUE = 'Coq proof: invariants by induction over character streams, event sequences and command sequences, an abstract-canvas (parametric) proof of the run-slice line with a cost measure, complete vm_compute sweeps of the regenerated command tables; exhaustive + random search of the full command tables in sandboxed workers'
