"""C07 — the native IcyDraw format is lossless (DESIGN.md section 7, C07).

Stage C ties the hand-written Coq model (Model/IcyLayer.v, Model/IcyDoc.v) to the code: the payload of every LAYER_n / ICED
chunk of a really saved file is compared byte for byte with the model's encoding, the really reloaded layers cell by cell
(raw `lines`) with the model's decoding of the same payload, the chunk order and keywords with the model's, and a stream of
damaged payloads (python-built PNG files) with the model's error / panic classes.
Stage S states the property on the real code: Buffer::to_bytes("icy", lossles_output) -> Buffer::from_bytes, every field the
property lists compared by an oracle that knows nothing of the model."""
import json, os
from props import lib_c07 as L

ID = 'C07'
GENERATORS = ['gen_icy']
COQ_TARGETS = ['Props/C07.vo', 'Run/RunC07.vo']
PROPS_MODULE = 'Props.C07'
THEOREMS = ['layer_roundtrip', 'layer_roundtrip_role', 'known_1_witness', 'small_layers_fit', 'document_roundtrip', 'save_succeeds',
            'visible_bit14_needed', 'font_page_u16_needed', 'default_font_page_u16_needed', 'preview_offset_needed',
            'negative_width_needed', 'title_u32_needed', 'scalar_char_needed', 'title_utf8_needed', 'loader_checks_silent_on_writer_output',
            'before_fix_refuted', 'before_fix_row_shift_refuted', 'after_fix_regression', 'fix_is_local',
            'mode_bytes_roundtrip']
SWEEP_LEMMAS = ['IcyLayerProofs.short_word_sweep (all 16384 attribute words a visible cell may carry: how the reader classifies a | SHORT_DATA and a)',
                'IcyDocProofs.mode_bytes_sweep (from_byte (to_byte v) = v and to_byte v < 256 for every variant of the four generated mode enums)',
                'IcyLayerProofs.consts_ok (the generated attribute / layer-flag / chunk-size constants have the values the proofs compute with)']
TRUSTED = ['Coq 8.16.1 kernel + vm_compute (model evaluation in stage C, the non-vacuity examples); no axioms (Print Assumptions: closed)',
           'translator/gen_icy.py + vlib/rustsrc.py: constants of the format and the to_byte/from_byte match arms of the four mode enums',
           'the hand-written bodies of Model/IcyLayer.v and Model/IcyDoc.v, tied to the code by stage C (byte-for-byte payloads, raw reloaded lines, error classes)',
           'the container oracle: PNG zTXt chunks + zlib + base64 return the keyword/payload pairs in file order (stated as the hypothesis unpack (pack cs) = Some cs; exercised by stage C/S on every run; stage C reads the real file with an independent python PNG reader)',
           'the payload codecs of SAUCE (C11), the Ice palette text (C16) and PSF2 fonts (C17) appear as hypotheses of document_roundtrip; stage S checks them on the real code',
           'format!("{k}") / str::parse::<usize> are modelled by Coq\'s DecimalString (digits only, no sign)',
           'char::from_u32 and String::from_utf8_lossy are Model/Unicode.v of property C10 (char_from_u32, utf8_lossy; utf8_valid = from_utf8(..).is_ok() is proved '
           'equivalent to "encoding of scalar values" there); tied to the std functions by C10\'s stage C and here by damaged files with ill-formed titles / font names / character fields',
           'harness/src/c07.rs, props/lib_c07.py (python PNG reader/writer) and the python oracle of the search stage']
UNMODELLED = ['layers of role Image (sixel payload) and `~k` continuation chunks (layers whose record exceeds 3 000 000 bytes): explicit Err 8 in the model; '
              'small_layers_fit proves no layer of the quantified size (<= 200 x 120, title < 2.6 MB) needs one',
              'the embedded preview image (first_line scan, render_to_rgba, PNG encoder): it does not influence the chunks; exercised by stage S only',
              'SauceData::creation_time: write_sauce_info stamps the current date in every format (C11 treats the date as a parameter); '
              'data_type/file_type/buffer_size/use_ice/font of the SAUCE record are derived from the buffer on save (checked as such by stage S)',
              'palette title/author/description and colour names (C16), BitFont::font_type / path_opt (not part of a font slot\'s content)']
ASSUMPTIONS = ['unpack (pack cs) = Some cs  -- the PNG/zlib/base64 container returns the chunks in order',
               'sauce_dec (sauce_enc w h ice font0 s) = Ok (Some (sauce_carried …)), pal_dec (pal_enc p) = Ok (pal_norm p), '
               'font_dec (font_name f) (font_psf2 f) = Ok (font_norm f)  -- payload codecs of C11 / C16 / C17',
               'Rust integer casts behave as written into the model (`as u8/u16/u32` = mod, u32 as i32 = two\'s complement); a char is its scalar value, a String its (valid) UTF-8 bytes',
               'HashMap<usize, BitFont>: insert overwrites, iteration visits every key once (order arbitrary: the theorem holds for every order)']
RULE = ('documents per the quantifier: 1..6 layers, sizes 0..200 x 0..120 (most small, a share medium/large), offsets -50..50, every '
        'combination of the five layer flags, modes, colour tags, transparency, Unicode titles (empty, multi-byte, astral), raw `lines` '
        'ragged/shorter/longer than the layer, rows that are empty / full width / end in invisible cells, cells drawn from short, '
        'long-by-char (up to U+10FFFF), long-by-colour (palette index > 255, TRANSPARENT_COLOR | rgb, u32::MAX), long-by-font-page, '
        'invisible (bare and with extra flag bits) with the boundary values 255/256 of every field, palettes of 1..300 colours or the '
        'default one, font slots 0..300 (slot 0 always present, every referenced page present), with and without SAUCE; plus directed '
        'boundary documents. Stage C also runs damaged LAYER_/ICED/FONT_ payloads (truncations at every field boundary, flipped bytes, '
        'forged attribute words and length fields, surrogate / out-of-range character fields, ill-formed UTF-8 in titles and font names). A case is non-trivial when it has at least one visible cell; distinct = distinct specs.')

IMPORTS = 'From IE Require Import Model.IcyLayer Model.IcyDoc Run.RunC07.\nLocal Open Scope N_scope.'
TRANSPARENT = 1 << 31

# --------------------------------------------------------------------------- generators
TITLES = ['', 'Background', 'layer 1', 'Ebene äöü', 'фон', '背景レイヤー', '\U0001F600\U0001F3A8 art', 'a\u0000b', 'x' * 70,
          '‮RTL', 'tab\there', '﻿bom', 'ẹ́ combining', '\U0010FFFF']

def rand_title(rng):
    r = rng.random()
    if r < 0.6: return rng.choice(TITLES)
    n = rng.randint(0, 12)
    out = []
    for _ in range(n):
        k = rng.random()
        if k < 0.4: c = rng.randint(32, 126)
        elif k < 0.7: c = rng.randint(0xA0, 0x7FF)
        elif k < 0.9: c = rng.choice([rng.randint(0x800, 0xD7FF), rng.randint(0xE000, 0xFFFF)])
        else: c = rng.randint(0x10000, 0x10FFFF)
        out.append(chr(c))
    return ''.join(out)

def rand_char(rng, long_):
    if not long_:
        return rng.choice([0, 32, 65, 176, 219, 255, rng.randint(0, 255), rng.randint(0, 255)])
    return rng.choice([256, 0x2588, 0xD7FF, 0xE000, 0xFFFF, 0x10000, 0x10FFFF, rng.randint(256, 0xD7FF), rng.randint(0xE000, 0x10FFFF)])

def rand_colour(rng, long_, npal):
    if not long_:
        return rng.choice([0, 7, 15, 255, rng.randint(0, 255), rng.randint(0, min(255, max(npal - 1, 0)))])
    return rng.choice([256, 299, TRANSPARENT, TRANSPARENT | rng.randrange(1 << 24), 0xFFFFFFFF, rng.randint(256, 0xFFFFFFFF)])

def rand_attr(rng):
    r = rng.random()
    if r < 0.4: return 0
    if r < 0.8: return rng.randrange(1 << 10)
    if r < 0.9: return 1 << rng.randrange(10)
    return rng.randrange(1 << 14)            # bits 10..13 are not named but travel like the others

def rand_cell(rng, pages, npal):
    """pages: (short pages, long pages) available in the font table"""
    sp, lp = pages
    k = rng.random()
    if k < 0.12:                                           # invisible, bare
        return (32, 7, 0, rng.choice(sp), L.INVISIBLE)
    if k < 0.2:                                            # invisible with extra flags / odd content
        return (rng.choice([32, 65, 0x2588]), rng.choice([7, 300, TRANSPARENT]), rng.choice([0, 1]), rng.choice(sp + lp),
                L.INVISIBLE | rng.choice([1, 8, 0x4000, 0x4001, rng.randrange(1 << 15)]))
    long_ch = k > 0.75 and rng.random() < 0.5
    long_fg = k > 0.75 and rng.random() < 0.35
    long_bg = k > 0.75 and rng.random() < 0.35
    long_pg = bool(lp) and k > 0.75 and rng.random() < 0.25
    return (rand_char(rng, long_ch), rand_colour(rng, long_fg, npal), rand_colour(rng, long_bg, npal),
            rng.choice(lp) if long_pg else rng.choice(sp), rand_attr(rng))

def rand_lines(rng, w, h, pages, npal):
    nrows = rng.choice([h, h, h, max(0, h - rng.randint(0, 3)), h + rng.randint(1, 2), rng.randint(0, h)])
    lines = []
    for y in range(nrows):
        k = rng.random()
        if k < 0.12: n = 0
        elif k < 0.45: n = w
        elif k < 0.55: n = w + rng.randint(1, 3)
        else: n = rng.randint(0, w)
        row = [rand_cell(rng, pages, npal) for _ in range(n)]
        m = rng.random()
        if m < 0.25 and n:                                 # trailing invisible cells
            t = rng.randint(1, n)
            for i in range(n - t, n): row[i] = (32, 7, 0, rng.choice(pages[0]), L.INVISIBLE)
        elif m < 0.35:                                     # a row of invisible cells only
            row = [(32, 7, 0, rng.choice(pages[0]), L.INVISIBLE) for _ in range(n)]
        elif m < 0.5 and n:                                # make sure the last cell of the layer row is visible (no terminator)
            row = [c if c[4] & L.INVISIBLE == 0 or i < n - 1 else (65, 7, 0, c[3], 0) for i, c in enumerate(row)]
        lines.append(row)
    return lines

def rand_layer(rng, w, h, pages, npal, slots):
    return {'title': rand_title(rng), 'role': L.ROLE_NORMAL, 'mode': rng.randrange(3),
            'color': None if rng.random() < 0.5 else (rng.randrange(256), rng.randrange(256), rng.randrange(256)),
            'vis': rng.random() < 0.5, 'locked': rng.random() < 0.5, 'pos_locked': rng.random() < 0.5,
            'alpha': rng.random() < 0.5, 'alpha_locked': rng.random() < 0.5,
            'transparency': rng.choice([0, 255, rng.randrange(256)]), 'ox': rng.randint(-50, 50), 'oy': rng.randint(-50, 50),
            'w': w, 'h': h, 'dfp': rng.choice(slots), 'preview': None, 'lines': rand_lines(rng, w, h, pages, npal)}

SAUCE_STR = ['', 'Title', 'an author', 'ACiD', 'x' * 35, 'Café ▒▓█', 'a  b', '123']

def rand_doc(rng, cls):
    """cls: 'small' | 'medium' | 'large' (layer sizes); buffer sizes stay small because the preview image dominates run time"""
    bw, bh = (rng.randint(0, 12), rng.randint(0, 8)) if cls == 'small' else (rng.randint(1, 40), rng.randint(1, 20))
    if rng.random() < 0.1: bw, bh = rng.choice([(0, 0), (0, 5), (5, 0), (1, 1), (80, 25)])
    d = {'w': bw, 'h': bh, 'btype': rng.randrange(5), 'ice': rng.randrange(3), 'pmode': rng.randrange(4), 'fmode': rng.randrange(4), 'keep0': True}
    if rng.random() < 0.45:
        d['sauce'] = {'title': rng.choice(SAUCE_STR), 'author': rng.choice(SAUCE_STR)[:20], 'group': rng.choice(SAUCE_STR)[:20],
                      'comments': [rng.choice(SAUCE_STR[1:]) for _ in range(rng.choice([0, 0, 1, 3]))],
                      'letter': rng.random() < 0.5, 'aspect': rng.random() < 0.5, 'ice': d['ice'] == 2}
    else:
        d['sauce'] = None
    r = rng.random()
    if r < 0.4: d['palette'] = None
    else:
        n = rng.choice([1, 2, 15, 16, 17, 256, 300, rng.randint(1, 300)])
        d['palette'] = [(rng.randrange(256), rng.randrange(256), rng.randrange(256)) for _ in range(n)]
        if rng.random() < 0.1:                              # the 16 default colours, rebuilt by hand
            d['palette'] = list(DOS)
    npal = 16 if d['palette'] is None else len(d['palette'])
    # fonts: slot 0 always; a few more, some beyond 255
    fonts = []
    def mkfont(slot):
        if rng.random() < 0.6:
            return {'slot': slot, 'name': rng.choice(['', 'IBM VGA', 'fünf', 'フォント', 'x' * 40]), 'kind': 0, 'a': rng.randrange(42), 'b': 0, 'c': 0}
        return {'slot': slot, 'name': rng.choice(['custom', '', 'Côdé']), 'kind': 1, 'a': 8, 'b': rng.choice([8, 14, 16, 16, 19]), 'c': rng.randrange(1 << 30)}
    fonts.append(mkfont(0))
    for _ in range(rng.choice([0, 0, 1, 2, 3])):
        s = rng.choice([1, 2, 255, 256, 300, rng.randint(1, 300)])
        if s not in [f['slot'] for f in fonts]: fonts.append(mkfont(s))
    if rng.random() < 0.3: rng.shuffle(fonts)
    d['fonts'] = fonts
    slots = [f['slot'] for f in fonts]
    pages = ([s for s in slots if s <= 255], [s for s in slots if s > 255])
    layers = []
    for _ in range(rng.choice([1, 1, 2, 2, 3, rng.randint(1, 6)])):
        if cls == 'small': w, h = rng.randint(0, 12), rng.randint(0, 8)
        elif cls == 'medium': w, h = rng.randint(0, 40), rng.randint(0, 20)
        else: w, h = rng.choice([(200, 120), (200, rng.randint(0, 120)), (rng.randint(0, 200), 120), (rng.randint(100, 200), rng.randint(60, 120))])
        if rng.random() < 0.08: w, h = rng.choice([(0, 0), (0, 3), (3, 0), (1, 1)])
        layers.append(rand_layer(rng, w, h, pages, npal, slots))
    d['layers'] = layers
    return d

DOS = [(0, 0, 0), (0, 0, 170), (0, 170, 0), (0, 170, 170), (170, 0, 0), (170, 0, 170), (170, 85, 0), (170, 170, 170),
       (85, 85, 85), (85, 85, 255), (85, 255, 85), (85, 255, 255), (255, 85, 85), (255, 85, 255), (255, 255, 85), (255, 255, 255)]

def base_layer(**kw):
    l = dict(title='t', role=0, mode=0, color=None, vis=True, locked=False, pos_locked=False, alpha=False, alpha_locked=False,
             transparency=0, ox=0, oy=0, w=3, h=2, dfp=0, preview=None, lines=[])
    l.update(kw); return l

def base_doc(layers, **kw):
    d = dict(w=4, h=2, btype=1, ice=0, pmode=1, fmode=1, sauce=None, palette=None, keep0=True, fonts=[], layers=layers)
    d.update(kw); return d

A = (65, 7, 0, 0, 0)
def inv(a=L.INVISIBLE): return (32, 7, 0, 0, a)

def directed_docs():
    """(name, doc) — boundary documents and the regression inputs of the fixed defect"""
    out = []
    out.append(('regress-invisible-bold-then-visible', base_doc([base_layer(lines=[[inv(0x8001), A]])])))
    out.append(('regress-invisible-short-bit-then-visible', base_doc([base_layer(lines=[[inv(0xC000), A], [A]])])))
    out.append(('regress-invisible-all-flags', base_doc([base_layer(w=4, lines=[[inv(0xFFFF), inv(0xBFFF), A, inv(0xC001)], [inv(0x8002)]])])))
    out.append(('row-full-no-terminator', base_doc([base_layer(lines=[[A, A, A], [A, A, A]])])))
    out.append(('row-empty-then-full', base_doc([base_layer(lines=[[], [A, A, A]])])))
    out.append(('trailing-empty-rows', base_doc([base_layer(h=5, lines=[[A], [], [inv()], [], []])])))
    out.append(('zero-width', base_doc([base_layer(w=0, h=3, lines=[[A], [A]])])))
    out.append(('zero-height', base_doc([base_layer(w=3, h=0, lines=[[A]])])))
    out.append(('lines-longer-than-layer', base_doc([base_layer(lines=[[A] * 10, [A], [A], [A]])])))
    for name, c in [('ch-255', (255, 7, 0, 0, 0)), ('ch-256', (256, 7, 0, 0, 0)), ('fg-255', (65, 255, 0, 0, 0)), ('fg-256', (65, 256, 0, 0, 0)),
                    ('bg-255', (65, 7, 255, 0, 0)), ('bg-256', (65, 7, 256, 0, 0)), ('ch-d7ff', (0xD7FF, 7, 0, 0, 0)), ('ch-e000', (0xE000, 7, 0, 0, 0)),
                    ('ch-10ffff', (0x10FFFF, 7, 0, 0, 0)), ('fg-max', (65, 0xFFFFFFFF, 0xFFFFFFFF, 0, 0)), ('transparent', (65, TRANSPARENT, TRANSPARENT | 0x123456, 0, 0)),
                    ('attr-3fff', (65, 7, 0, 0, 0x3FFF)), ('attr-3fff-long', (0x2588, 7, 0, 0, 0x3FFF)), ('nul', (0, 0, 0, 0, 0))]:
        out.append(('cell-' + name, base_doc([base_layer(lines=[[c, inv(), c], [c]])])))
    f255 = dict(slot=255, name='p255', kind=0, a=1, b=0, c=0); f256 = dict(slot=256, name='p256', kind=0, a=2, b=0, c=0); f300 = dict(slot=300, name='p300', kind=1, a=8, b=16, c=5)
    out.append(('page-255-256-300', base_doc([base_layer(dfp=300, lines=[[(65, 7, 0, 255, 0), (65, 7, 0, 256, 0), (65, 7, 0, 300, 0)]])], fonts=[f255, f256, f300])))
    out.append(('all-flags', base_doc([base_layer(vis=v, locked=l, pos_locked=p, alpha=a, alpha_locked=al, ox=-50, oy=50, lines=[[A, inv(), A]])
                                       for v in (False, True) for l in (False, True) for p in (False, True) for a in (False, True) for al in (False, True)][:6])))
    for k in range(1, 6):
        out.append(('flags-%d' % k, base_doc([base_layer(vis=bool(i >> 0 & 1), locked=bool(i >> 1 & 1), pos_locked=bool(i >> 2 & 1), alpha=bool(i >> 3 & 1),
                                                         alpha_locked=bool(i >> 4 & 1), mode=i % 3, lines=[[A, inv(), A]]) for i in range(6 * k - 4, 6 * k + 2)])))
    out.append(('palette-300', base_doc([base_layer(lines=[[(65, 299, 256, 0, 0)]])], palette=[(i % 256, (i * 7) % 256, (i * 13) % 256) for i in range(300)])))
    out.append(('palette-1', base_doc([base_layer(lines=[[A]])], palette=[(1, 2, 3)])))
    out.append(('palette-default-copy', base_doc([base_layer(lines=[[A]])], palette=list(DOS))))
    out.append(('sauce-full', base_doc([base_layer(lines=[[A]])], ice=2, sauce=dict(title='T' * 35, author='A' * 20, group='G' * 20, comments=['c%d' % i for i in range(5)], letter=True, aspect=True, ice=True))))
    out.append(('sauce-empty', base_doc([base_layer(lines=[[A]])], sauce=dict(title='', author='', group='', comments=[], letter=False, aspect=False, ice=False))))
    out.append(('buffer-0x0', base_doc([base_layer(lines=[[A]])], w=0, h=0)))
    out.append(('six-layers', base_doc([base_layer(title='L%d' % i, ox=i - 3, oy=3 - i, w=i, h=6 - i, lines=[[A] * i] * (6 - i)) for i in range(6)])))
    out.append(('title-astral', base_doc([base_layer(title='\U0001F600\U0010FFFF\u0000é', lines=[[A]])])))
    # the loader decodes titles and font names with from_utf8_lossy: the first/last scalar of every encoded length, U+FFFD itself
    edges = '\u007f\u0080\u07ff\u0800\ud7ff\ue000\ufffd\uffff\U00010000\U0010ffff'
    out.append(('title-utf8-boundaries', base_doc([base_layer(title=edges, lines=[[A]]), base_layer(title='\ufffd', lines=[[A]])],
                                                  fonts=[dict(slot=0, name=edges, kind=0, a=0, b=0, c=0), dict(slot=3, name='\ufffd\ufffd', kind=1, a=8, b=16, c=7)])))
    out.append(('colour-tag', base_doc([base_layer(color=(0, 0, 0), lines=[[A]]), base_layer(color=(255, 254, 253), transparency=255, lines=[[A]])])))
    return out

def known_docs():
    return [('known-role-paste-preview', base_doc([base_layer(role=L.ROLE_PASTE_PREVIEW, alpha=True, lines=[[A, inv(), A]])])),
            ('known-role-paste-image', base_doc([base_layer(), base_layer(role=L.ROLE_PASTE_IMAGE, lines=[[A]])]))]

def nontrivial(d):
    return any(c[4] & L.INVISIBLE == 0 for l in d['layers'] for row in l['lines'] for c in row)

# --------------------------------------------------------------------------- the oracle of stage S (knows nothing of the model)
def cmp_spec(d, o):
    """the document the harness built is the one we described (guards the harness, not the engine)"""
    bad = []
    if (o['w'], o['h'], o['btype'], o['ice'], o['pmode'], o['fmode']) != (d['w'], d['h'], d['btype'], d['ice'], d['pmode'], d['fmode']): bad.append('header')
    if len(o['layers']) != len(d['layers']): return bad + ['layer-count']
    for a, b in zip(d['layers'], o['layers']):
        if a['title'].encode('utf-8') != b['title'] or [list(map(tuple, r)) for r in a['lines']] != b['lines'] or (a['w'], a['h'], a['dfp']) != (b['w'], b['h'], b['dfp']):
            bad.append('layer')
    want = DOS if d['palette'] is None else d['palette']
    if [tuple(c) for c in want] != o['palette']: bad.append('palette')
    if sorted(f['slot'] for f in d['fonts']) != sorted(o['fonts']) and not (d['keep0'] and sorted(set([0] + [f['slot'] for f in d['fonts']])) == sorted(o['fonts'])): bad.append('fonts')
    return bad

def compare(o1, o2):
    """[(signature, detail)] — every field the property lists; o1 = the document, o2 = what came back"""
    out = []
    for k, sig in (('w', 'buffer-size'), ('h', 'buffer-size'), ('btype', 'buffer-type'), ('ice', 'ice-mode'), ('pmode', 'palette-mode'), ('fmode', 'font-mode')):
        if o1[k] != o2[k]: out.append(('icy-%s-differs' % sig, '%s: %r -> %r' % (k, o1[k], o2[k])))
    if len(o1['layers']) != len(o2['layers']):
        out.append(('icy-layer-count-differs', '%d -> %d' % (len(o1['layers']), len(o2['layers']))))
    for i, (a, b) in enumerate(zip(o1['layers'], o2['layers'])):
        for k in ('title', 'mode', 'color', 'vis', 'locked', 'pos_locked', 'alpha', 'alpha_locked', 'transparency', 'ox', 'oy', 'base_ox', 'base_oy', 'w', 'h', 'dfp'):
            if a[k] != b[k]:
                out.append(('icy-layer-%s-differs' % k.replace('_', '-'), 'layer %d %s: %r -> %r' % (i, k, a[k], b[k])))
        if a['role'] != b['role']:
            if a['role'] in (L.ROLE_PASTE_PREVIEW, L.ROLE_PASTE_IMAGE) and b['role'] == L.ROLE_NORMAL:
                out.append(('C07-role-not-stored', 'layer %d role %d reloads as Normal' % (i, a['role'])))
            else:
                out.append(('icy-layer-role-differs', 'layer %d role: %r -> %r' % (i, a['role'], b['role'])))
        va, vb = L.view(a), L.view(b)
        if va != vb:
            ks = sorted(set(va) | set(vb), key=lambda p: (p[1], p[0]))
            first = next(p for p in ks if va.get(p) != vb.get(p))
            out.append(('icy-cell-differs', 'layer %d cell %r: %r -> %r (%d cells differ)' % (i, first, va.get(first), vb.get(first),
                                                                                            sum(1 for p in ks if va.get(p) != vb.get(p)))))
    if o1['palette'] != o2['palette']:
        out.append(('icy-palette-differs', '%d colours -> %d colours' % (len(o1['palette']), len(o2['palette']))))
    if sorted(o1['fonts']) != sorted(o2['fonts']):
        out.append(('icy-font-slots-differ', '%r -> %r' % (sorted(o1['fonts']), sorted(o2['fonts']))))
    else:
        for k in o1['fonts']:
            if o1['fonts'][k] != o2['fonts'][k]:
                out.append(('icy-font-differs', 'slot %d: %r -> %r' % (k, o1['fonts'][k], o2['fonts'][k])))
    s1, s2 = o1['sauce'], o2['sauce']
    if (s1 is None) != (s2 is None):
        out.append(('icy-sauce-presence-differs', '%r -> %r' % (s1 is not None, s2 is not None)))
    elif s1 is not None:
        for k in ('title', 'author', 'group', 'comments', 'letter', 'aspect'):
            if s1[k] != s2[k]: out.append(('icy-sauce-%s-differs' % k, '%r -> %r' % (s1[k], s2[k])))
        # derived on save from the buffer: Character/Ansi, size, ice flag, font name of slot 0
        want = (1, 2, o1['w'] % 65536, o1['h'] % 65536, int(o1['ice'] == 2))
        got = (s2['data_type'], s2['file_type'], s2['bw'], s2['bh'], s2['ice'])
        if want != got or s2['font'] is None:
            out.append(('icy-sauce-derived-fields-differ', 'want %r got %r font %r' % (want, got, s2['font'])))
    return out

def run_docs(ctx, docs, with_file, timeout=60):
    cases = ['icydoc %d %s' % (1 if with_file else 0, L.doc_spec(d)) for _, d in docs]
    return cases, ctx.impl(cases, per_case_timeout=timeout, mem_mb=2048)

# --------------------------------------------------------------------------- stage C
def layer_vec(l):
    v = [len(l['title'])] + list(l['title']) + [l['role'], l['mode']] + ([1] + list(l['color']) if l['color'] is not None else [0, 0, 0, 0])
    v += [l['vis'], l['locked'], l['pos_locked'], l['alpha'], l['alpha_locked'], l['transparency'], l['ox'], l['oy'], l['w'], l['h'], l['dfp'], len(l['lines'])]
    for row in l['lines']:
        v.append(len(row))
        for c in row: v += list(c)
    return v

def doc_vec(o):
    v = [o['w'], o['h'], o['btype'], o['ice'], o['pmode'], o['fmode'], int(o['sauce'] is not None), len(o['fonts'])] + sorted(o['fonts'])
    for k in sorted(o['fonts']):
        v += [len(o['fonts'][k]['name'])] + list(o['fonts'][k]['name'])
    v.append(len(o['layers']))
    for l in o['layers']: v += layer_vec(l)
    return v

def norm_doc_vec(v):
    """sort the font slots (and their names with them) of a model / implementation document vector"""
    if v is None or len(v) < 9 or v[0] != 0: return v
    n = v[8]
    slots = v[9:9 + n]; p = 9 + n; names = []
    for _ in range(n):
        if p >= len(v): return v
        names.append(v[p:p + 1 + v[p]]); p += 1 + v[p]
    order = sorted(range(n), key=lambda i: slots[i])
    out = v[:9] + [slots[i] for i in order]
    for i in order: out += names[i]
    return out + v[p:]

def g_chunks(chunks):
    return L.g_list(['(%s, %s)' % (L.g_bytes(k.encode('latin-1')), L.g_bytes(p)) for k, p in chunks])

def g_xdoc(d, chunks):
    """the document with its opaque payloads taken from the real file (SAUCE / PALETTE / FONT_k in file order)"""
    cm = dict(chunks)
    sauce = 'None' if 'SAUCE' not in cm else 'Some %s' % L.g_bytes(cm['SAUCE'])
    pal = L.g_bytes(cm.get('PALETTE', b''))
    fonts = []
    for k, p in chunks:
        if k.startswith('FONT_'):
            n = int.from_bytes(p[:4], 'little')
            fonts.append('(%s, (%s, %s))' % (k[5:], L.g_bytes(p[4:4 + n]), L.g_bytes(p[4 + n:])))
    return '(mkD (%d)%%Z (%d)%%Z %d %d %d %d (%s) %s %s %s)' % (d['w'], d['h'], d['btype'], d['ice'], d['pmode'], d['fmode'], sauce, pal,
                                                              L.g_list(fonts), L.g_list([L.g_layer(l) for l in d['layers']]))

def mutate_payload(rng, p):
    """damaged LAYER_ payloads: truncations, flipped bytes, forged attribute words / lengths (sizes kept small)"""
    p = bytearray(p)
    tl = int.from_bytes(p[:4], 'little') if len(p) >= 4 else 0
    hdr = 4 + tl + 41
    k = rng.random()
    if k < 0.35:
        cut = rng.choice([rng.randint(0, len(p)), rng.randint(0, min(len(p), hdr + 2)), max(0, len(p) - rng.randint(1, 15))])
        p = p[:cut]
    elif k < 0.6 and len(p) > hdr:
        for _ in range(rng.randint(1, 3)):
            i = rng.randint(hdr, len(p) - 1); p[i] = rng.choice([0, 0x40, 0x80, 0xC0, 0xFF, rng.randrange(256)])
    elif k < 0.7 and len(p) >= hdr:
        i = 4 + tl + 33                                    # the 8-byte length field
        p[i:i + 8] = rng.choice([0, 1, len(p) - hdr + 1, len(p), 1 << 32, (1 << 64) - 1, (1 << 64) - hdr]).to_bytes(8, 'little')
    elif k < 0.8 and len(p) >= hdr:
        j = rng.choice([4 + tl, 4 + tl + 5, 4 + tl + 9, 4 + tl + 14])     # role, mode, colour alpha, transparency
        p[j] = rng.choice([0, 1, 2, 3, 255])
    elif k < 0.86 and len(p) >= 4:
        p[0:4] = rng.choice([0, 1, tl + 1, len(p), len(p) - 4, 1 << 31]).to_bytes(4, 'little')
    elif k < 0.93 and len(p) >= hdr:                       # the title bytes: from_utf8_lossy
        t = rng.choice(BAD_UTF8 + [rand_bytes(rng), rand_bytes(rng)])
        if tl and rng.random() < 0.5:
            i = rng.randrange(tl); t = bytes(p[4:4 + i]) + t + bytes(p[4 + i + 1:4 + tl])
        p = bytearray(len(t).to_bytes(4, 'little') + t + bytes(p[4 + tl:]))
    else:
        p += bytes(rng.randrange(256) for _ in range(rng.randint(1, 20)))
    # keep the loop bounds of the damaged record small (the model iterates in unary)
    p = bytes(p)
    if len(p) >= 4:
        tl = int.from_bytes(p[:4], 'little')
        if 4 + tl + 31 <= len(p):
            w = int.from_bytes(p[4 + tl + 23:4 + tl + 27], 'little'); h = int.from_bytes(p[4 + tl + 27:4 + tl + 31], 'little')
            if 400 < w < (1 << 31) or 400 < h < (1 << 31): return None
    return p

# ill-formed (and a few well-formed boundary) byte strings for titles / font names: every way Utf8Chunks can break
BAD_UTF8 = [b'\xff', b'A\xc3', b'\xc3(', b'\x80', b'\xbfz', b'\xc0\x80', b'\xc1\xbf', b'\xe0\x80\x80', b'\xe0\x9f\xbf', b'\xed\xa0\x80', b'\xed\xbf\xbf',
            b'\xe2\x82', b'\xe2\x82A', b'\xe2(\xa1', b'\xf0\x8f\xbf\xbf', b'\xf0\x9f\x98', b'\xf0\x9f\x98A', b'\xf0\x9f', b'\xf0', b'\xf4\x90\x80\x80',
            b'\xf5\x80\x80\x80', b'\xf8\x88\x80\x80\x80', b'ok\xffok\xfe\xfdok', b'\xef\xbf\xbd\xff\xef\xbf\xbd', b'\xed\x9f\xbf\xee\x80\x80\xf4\x8f\xbf\xbf\xc2\x80\xdf\xbf\xe0\xa0\x80',
            b'\x00\xff\x00', b'\xf0\x90\x80\x80\xf0\x90\x80', b'\xc2\xc2\x80', b'\xe1\x80\xe1\x80\x80']

def rand_bytes(rng):
    return bytes(rng.choice([rng.randrange(256), rng.randrange(0x80, 0x100), rng.choice(b'\xc2\xe0\xed\xf0\xf4\x80\xbf\x9f\xa0\x8f\x90A')]) for _ in range(rng.randint(1, 9)))

def font_with_name(font0, name):
    """the FONT_k payload of a real file with its name replaced"""
    n = int.from_bytes(font0[:4], 'little')
    return len(name).to_bytes(4, 'little') + name + font0[4 + n:]

def mk_payload(rows, w, h, title=b't', role=0, mode=0, length=None, flags=1):
    """a LAYER_ record around the given row bytes (python's own writer of the header, for directed damaged inputs)"""
    hd = len(title).to_bytes(4, 'little') + title + bytes([role, 0, 0, 0, 0, mode, 0, 0, 0, 0]) + flags.to_bytes(4, 'little') + b'\0'
    hd += (0).to_bytes(4, 'little') * 2 + (w & 0xFFFFFFFF).to_bytes(4, 'little') + (h & 0xFFFFFFFF).to_bytes(4, 'little') + (0).to_bytes(2, 'little')
    return hd + (len(rows) if length is None else length).to_bytes(8, 'little') + rows

def directed_payloads():
    u16 = lambda v: v.to_bytes(2, 'little'); u32 = lambda v: v.to_bytes(4, 'little')
    longc = lambda a, ch, fg=7, bg=0, pg=0: u16(a) + u32(ch) + u32(fg) + u32(bg) + u16(pg)
    shortc = lambda a, ch, fg=7, bg=0, pg=0: u16(a | 0x4000) + bytes([ch, fg, bg, pg])
    E = u16(0xC000); I = u16(0x8000)
    rows = [shortc(0, 65)[:5], shortc(0, 65)[:4], shortc(0, 65)[:3], shortc(0, 65)[:2], shortc(0, 65)[:1],          # short record cut at every byte
            longc(0, 65)[:15], longc(0, 65)[:3], longc(0, 65), longc(0, 0xD800), longc(0, 0xDFFF), longc(0, 0x110000), longc(0, 0xFFFFFFFF),
            longc(0, 0x10FFFF) + E, longc(0x8001, 65) + shortc(0, 66), shortc(0x8001, 65) + E, E + shortc(0, 65) + E, I + I + I + shortc(0, 66),
            I + I + shortc(0, 66) + E + shortc(1, 67) * 3, shortc(0, 65) * 3 + shortc(0, 66) * 3 + shortc(0, 67), shortc(0, 65) * 7, E + E + E,
            E, b'', b'\0', shortc(0x3FFF, 255, 255, 255, 255) + longc(0x3FFF, 0x2588, 0xFFFFFFFF, 0x80000000, 0xFFFF) + I,
            longc(0x4000 | 5, 65), u16(0xFFFF) + bytes(14), u16(0x7FFF) + bytes(4) + E]
    out = [mk_payload(r, 3, 2) for r in rows]
    out += [mk_payload(shortc(0, 65) * 2, 0, 5), mk_payload(shortc(0, 65) * 2, 2, 0), mk_payload(shortc(0, 65) * 2, 1, 5), mk_payload(b'', 0, 0),
            mk_payload(shortc(0, 65), 3, 2, length=7), mk_payload(shortc(0, 65), 3, 2, length=0), mk_payload(shortc(0, 65) + E, 3, 2, length=(1 << 64) - 1),
            mk_payload(shortc(0, 65) + E, 3, 2, length=(1 << 64) - 47), mk_payload(shortc(0, 65) + E, 3, 2, mode=3), mk_payload(shortc(0, 65) + E, 3, 2, mode=2, flags=0xFFFFFFFF),
            mk_payload(shortc(0, 65) + E, -1, 2), mk_payload(shortc(0, 65) + E, 3, -2), mk_payload(shortc(0, 65) + E, 3, 2, title='täst'.encode()),
            mk_payload(shortc(0, 65) + E, 3, 2, role=2), mk_payload(shortc(0, 65) + E, 3, 2, role=255)]
    out += [mk_payload(shortc(0, 65) + E, 3, 2, title=t) for t in BAD_UTF8]          # from_utf8_lossy on the title
    full = mk_payload(shortc(0, 65) + E, 3, 2)
    out += [full[:k] for k in range(0, len(full))]                       # the header cut at every byte
    return out

IMPL_CLASS = {'load:header-size': [1, 1], 'load:length': [1, 2], 'load:layer-mode': [1, 3], 'load:font-slot': [1, 4],
              'load:invalid-char': [1, 10], 'load:other:file_too_short': [1, 11]}      # 11: FileTooShort of C02's fix commits

def impl_class(r):
    """implementation outcome of an `icyload` case as the model's outcome prefix"""
    if r is None: return None
    if r[0] == 'ok': return norm_doc_vec([0] + doc_vec(L.parse_obs(r[1])))
    if r[0] == 'err': return IMPL_CLASS.get(r[1], ['err', r[1]])
    if r[0] == 'panic': return [2, 'panic']
    return [r[0], r[1]]          # abort / timeout / oom / …: the model of the merged loader has no such outcome

def model_class(m):
    if m is None: return None
    if m[0] == 0: return norm_doc_vec(m)
    if m[0] == 2: return [2, 'panic']
    return m

ICED_OK = bytes([0, 0, 0, 0, 0, 0, 1, 0, 1, 1, 1, 3, 0, 0, 0, 2, 0, 0, 0])

def default_font_name(ctx):
    """name of the font Buffer::new installs in slot 0 (the model's `default_font` is an opaque parameter): read off a
    document that was loaded from a file without FONT_ chunks"""
    r = ctx.impl(['icyload ' + L.hexs(L.make_icy([('ICED', ICED_OK), ('END', b'')]))], per_case_timeout=20, mem_mb=2048)[0]
    if r[0] != 'ok': return None
    return L.parse_obs(r[1])['fonts'].get(0, {}).get('name')

def correspondence(ctx):
    rng = ctx.rng
    dname = default_font_name(ctx)
    if dname is None:
        return {'cases': 1, 'disagreements': [{'case': 'a file with ICED and END only', 'impl': 'does not load / has no font in slot 0',
                                               'model': 'loads; slot 0 holds the default font'}], 'distinct_nontrivial': 0, 'distribution': {}, 'samples': []}
    run_load = 'run_load %s ' % L.g_bytes(dname)
    docs = list(directed_docs())
    for i in range(ctx.n(36, 260)):
        docs.append(('rand-%d' % i, rand_doc(rng, 'small' if rng.random() < 0.7 else 'medium')))
    for i in range(ctx.n(1, 6)):
        docs.append(('large-%d' % i, rand_doc(rng, 'large')))
    docs += known_docs()
    cases, impl = run_docs(ctx, docs, True)
    dis = []; exprs = []; meta = []          # meta: (label, expected vector)
    dist = {'documents': len(docs), 'layers': 0, 'cells': 0, 'short': 0, 'long': 0, 'invisible': 0, 'damaged_payloads': 0, 'outcomes': {}}
    payloads = []
    for (name, d), c, r in zip(docs, cases, impl):
        if r is None or r[0] != 'ok':
            dis.append({'case': name, 'impl': r, 'model': 'save/load of a well-formed document must succeed', 'spec': c[:300]}); continue
        o1, o2, f = L.split_icydoc(r[1])
        try:
            chunks = L.icy_chunks(f)
        except Exception as ex:
            dis.append({'case': name, 'impl': 'python PNG reader: %r' % ex, 'model': None}); continue
        lay = [p for k, p in chunks if k.startswith('LAYER_')]
        if len(lay) != len(d['layers']) or len(o2['layers']) != len(lay):
            dis.append({'case': name, 'impl': [k for k, _ in chunks], 'model': 'one LAYER_n chunk per layer'}); continue
        for i, (l, p) in enumerate(zip(d['layers'], lay)):
            dist['layers'] += 1
            for row in l['lines']:
                for cell in row:
                    dist['cells'] += 1
                    if cell[4] & L.INVISIBLE: dist['invisible'] += 1
                    elif max(cell[0], cell[1], cell[2], cell[3]) <= 255: dist['short'] += 1
                    else: dist['long'] += 1
            exprs.append('run_enc %s' % L.g_layer(l)); meta.append(('%s layer %d: encode vs LAYER_%d payload' % (name, i, i), [0] + list(p)))
            exprs.append('run_dec %s' % L.g_bytes(p)); meta.append(('%s layer %d: decode vs reloaded layer' % (name, i), [0] + layer_vec(o2['layers'][i])))
            if len(p) < 3000: payloads.append(p)
        small = sum(len(p) for k, p in chunks) < 60000
        if small:
            want = [0, len(chunks)]
            for k, p in chunks: want += [len(k)] + list(k.encode('latin-1')) + [len(p)]
            want += list(dict(chunks)['ICED'])
            exprs.append('run_chunks %s' % g_xdoc(d, chunks)); meta.append(('%s: chunk keywords/order/lengths + ICED payload' % name, want))
            exprs.append(run_load + g_chunks(chunks)); meta.append(('%s: load_chunks vs reloaded document' % name, norm_doc_vec([0] + doc_vec(o2))))
    # damaged payloads through python-built files
    dmg = []
    iced_ok = ICED_OK
    font0 = None
    for (name, d), r in zip(docs, impl):
        if r and r[0] == 'ok':
            font0 = dict(L.icy_chunks(L.split_icydoc(r[1])[2])).get('FONT_0'); break
    for i in range(ctx.n(160, 2500)):
        if not payloads: break
        p = mutate_payload(rng, rng.choice(payloads))
        if p is None: continue
        chunks = [('ICED', iced_ok), ('LAYER_0', p), ('END', b'')]
        k = rng.random()
        if k < 0.08: chunks = [('LAYER_0', p)]                                        # no header, no END
        elif k < 0.12: chunks = [('ICED', iced_ok[:rng.choice([0, 18])] + bytes(rng.choice([0, 2]))), ('LAYER_0', p)]
        elif k < 0.16: chunks.insert(1, (rng.choice(['LAYER_0~1', 'xLAYER_12~3', 'LAYER_~1', 'LAYER_1~', 'LAYERS', 'layer_0', 'FOO', 'FONT_x', 'FONT_', 'FONT_-1']), p))
        elif k < 0.2 and font0: chunks.insert(1, (rng.choice(['FONT_7', 'FONT_007', 'FONT_0']), rng.choice([font0, font0[:3], (1 << 20).to_bytes(4, 'little') + font0[4:],
                                                                                                            font_with_name(font0, rng.choice(BAD_UTF8)), font_with_name(font0, rand_bytes(rng))])))
        elif k < 0.24: chunks[0] = ('ICED', bytes(rng.randrange(256) for _ in range(15)) + bytes([rng.randrange(4), 0, 0, 0]))
        dmg.append(chunks)
    for p in directed_payloads():
        dmg.append([('ICED', iced_ok), ('LAYER_0', p), ('END', b'')])
    if font0:                                                # read_utf8_encoded_string on font names: from_utf8_lossy
        for i, nm in enumerate(BAD_UTF8):
            dmg.append([('ICED', iced_ok), ('FONT_%d' % (i % 3), font_with_name(font0, nm)), ('END', b'')])
    dist['damaged_payloads'] = len(dmg)
    dcases = ['icyload ' + L.hexs(L.make_icy(c)) for c in dmg]
    dimpl = ctx.impl(dcases, per_case_timeout=20, mem_mb=2048) if dcases else []
    nd = len(exprs)
    exprs += [run_load + g_chunks(c) for c in dmg]
    model = ctx.model(IMPORTS, exprs, timeout=ctx.n(600, 1500))
    for (label, want), m in zip(meta, model[:nd]):
        if label.endswith('reloaded document'): m = norm_doc_vec(m)
        if m != want:
            dis.append({'case': label, 'impl': summarize(want), 'model': summarize(m), 'first_difference': first_diff(want, m)})
    for c, dc, r, m in zip(dmg, dcases, dimpl, model[nd:]):
        a, b = impl_class(r), model_class(m)
        if b == [1, 8]:                                    # image layer / continuation chunk: outside the model
            dist['outcomes']['not-modelled'] = dist['outcomes'].get('not-modelled', 0) + 1; continue
        key = 'ok' if (a and a[0] == 0) else str(a[:2] if a else a)
        dist['outcomes'][key] = dist['outcomes'].get(key, 0) + 1
        if a != b:
            dis.append({'case': 'damaged: ' + json.dumps([[k, L.hexs(p)] for k, p in c])[:1500], 'impl': summarize(a), 'model': summarize(b),
                        'first_difference': first_diff(a, b), 'input': dc if len(dc) < 20000 else None})
    dist['model_errors'] = getattr(ctx, 'model_errors', [])[:2]
    return {'cases': len(exprs) + len(cases), 'disagreements': dis,
            'distinct_nontrivial': len({c for (n, d), c in zip(docs, cases) if nontrivial(d)}) + len({c for c in dcases}),
            'distribution': dist, 'samples': [cases[0][:200], cases[len(cases) // 2][:200]] + [c[:200] for c in dcases[:1]]}

def summarize(v):
    if v is None or len(v) <= 60: return v
    return list(v[:40]) + ['… %d values' % len(v)]

def first_diff(a, b):
    if a is None or b is None: return None
    for i, (x, y) in enumerate(zip(a, b)):
        if x != y: return {'index': i, 'impl': x, 'model': y}
    return {'index': min(len(a), len(b)), 'impl_len': len(a), 'model_len': len(b)}

# --------------------------------------------------------------------------- stage S
def search(ctx, broken):
    rng = ctx.rng
    docs = list(directed_docs()) + known_docs()
    n = ctx.n(1200, 12000)
    for i in range(n):
        r = rng.random()
        docs.append(('rand-%d' % i, rand_doc(rng, 'small' if r < 0.6 else ('medium' if r < 0.97 else 'large'))))
    for i in range(ctx.n(3, 40)):
        docs.append(('large-%d' % i, rand_doc(rng, 'large')))
    cases, impl = run_docs(ctx, docs, False, timeout=120)
    failures = []
    for (name, d), c, r in zip(docs, cases, impl):
        inp = {'name': name, 'case': c if len(c) < 60000 else c[:60000] + ' …'}
        if r is None or r[0] != 'ok':
            sig = 'icy-%s' % (r[1] if r and r[0] == 'err' else (r[0] if r else 'none'))
            if r and r[0] == 'panic': sig = 'icy-panic-%s' % os.path.basename(str(r[1]))
            failures.append({'signature': sig, 'input': inp, 'impl': r, 'expected': 'Ok, equal document', 'detail': 'saving and reloading a well-formed document failed'})
            continue
        o1, o2, _ = L.split_icydoc(r[1])
        bad = cmp_spec(d, o1)
        if bad:
            failures.append({'signature': 'harness-built-a-different-document', 'input': inp, 'impl': bad, 'detail': 'harness/src/c07.rs or lib_c07.doc_spec is wrong'})
            continue
        for sig, det in compare(o1, o2):
            failures.append({'signature': sig, 'input': inp, 'impl': det, 'expected': 'equal', 'detail': det})
    failures.sort(key=lambda f: len(str(f['input'])))
    return {'cases': len(cases), 'failures': failures, 'distinct_nontrivial': len({c for (n_, d), c in zip(docs, cases) if nontrivial(d)}),
            'samples': [cases[0][:200], cases[-1][:200]]}

def replay(ctx, body):
    from vlib import driver
    inp = body.get('input') or {}
    case = inp.get('case') if isinstance(inp, dict) else None
    print('replay', ID, body.get('signature'), (inp.get('name') if isinstance(inp, dict) else inp))
    if not case or case.endswith('…'):
        print(json.dumps(body, indent=1)[:4000]); return 1
    ok, out = driver.stage_build()
    r = ctx.impl([case.replace('icydoc 0 ', 'icydoc 1 ', 1)], per_case_timeout=120, mem_mb=2048)[0]
    if r[0] != 'ok':
        print('implementation:', r); return 1
    o1, o2, f = L.split_icydoc(r[1])
    fails = compare(o1, o2)
    print('implementation: chunks', [(k, len(p)) for k, p in L.icy_chunks(f)])
    for sig, det in fails: print('  ', sig, det)
    exprs = ['run_rt (mkL %s %d %d (%s) %s %s %s %s %s %d (%d)%%Z (%d)%%Z None (%d)%%Z (%d)%%Z %d %s)' % (
        L.g_bytes(l['title']), l['role'], l['mode'], 'None' if l['color'] is None else 'Some (%d, %d, %d)' % l['color'], L.g_bool(l['vis']), L.g_bool(l['locked']),
        L.g_bool(l['pos_locked']), L.g_bool(l['alpha']), L.g_bool(l['alpha_locked']), l['transparency'], l['ox'], l['oy'], l['w'], l['h'], l['dfp'],
        L.g_list([L.g_list([L.g_cell(c) for c in row]) for row in l['lines']])) for l in o1['layers']]
    m = ctx.model(IMPORTS, exprs)
    for i, (x, l2) in enumerate(zip(m, o2['layers'])):
        print('model: layer %d encode;decode -> %s ; implementation reloaded %s' % (i, summarize(x), summarize([0] + layer_vec(l2))))
    return 0 if not [s for s, _ in fails if s != 'C07-role-not-stored'] else 1

LEVEL_TEXT = ('Machine-checked proof (Coq, closed under the global context) that the layer record of the native format decodes back to an '
              'observationally equal layer with identical properties, for every layer size and content (induction over rows and cells; short, '
              'long and invisible cell records, row terminators, ragged `lines`), and that whole documents (any number of layers, palette, '
              'fonts in any iteration order, SAUCE) come back chunk by chunk, under the stated container hypothesis unpack (pack cs) = Some cs '
              'and the payload-codec hypotheses of C11/C16/C17. The well-formedness predicate collects exactly what the proof forces; each forced '
              'hypothesis has a computed counterexample. One defect fixed (invisible cells with extra flag bits broke the loader), one known '
              'finding (paste roles are not stored). Continuation chunks (> 3 MB) and image layers are outside the model; the quantified sizes '
              'provably never need a continuation chunk.')
LEVEL_NOTE = ('Trusted: Coq kernel + vm_compute; the translator for constants and the four mode-byte maps; the hand-written model tied by '
              'byte-for-byte differential runs against really saved files (read with an independent python PNG/zlib/base64 reader) and against '
              'damaged payloads; the container and the SAUCE/palette/PSF2 codecs are hypotheses, not axioms.')
TECHNIQUE = 'Coq proof (list induction over rows/cells with a set_char invariant; byte-level LE codec lemmas); translator tie for constants; differential model-vs-code on real files'
