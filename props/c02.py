"""C02 — no file content can crash a loader (DESIGN.md section 7, C02; notes/C02.md)."""
import os, re, json, struct
from props import c02gen as g
from props import c02text

ID = 'C02'
GENERATORS = ['gen_codepage', 'gen_formats', 'gen_sauce', 'gen_font', 'gen_palette', 'gen_icy', 'gen_c02', 'gen_macro', 'gen_filemode',
              'gen_xbin']     # Gen/XBinConst.v for Model/XBin.v (C06), which Model/C05XBinC.v imports: missing here, a fresh worktree could not build C02 before another check had left the file in coq/Gen
COQ_TARGETS = ['Props/C02.vo', 'Run/RunC02.vo', 'Run/RunC02Pal.vo', 'Run/RunC02Text.vo', 'Run/RunC11.vo', 'Run/RunC17.vo']
PROPS_MODULE = 'Props.C02'
THEOREMS = ['sauce_extract_total', 'sauce_split_total', 'bitfont_from_bytes_total', 'tdf_from_bytes_total', 'palette_load_total',
            'palette_load_cases', 'palette_export_total', 'palette_ase_refused', 'known_1_witness', 'bin_loader_total', 'adf_loader_total', 'idf_loader_total', 'xb_loader_total',
            'xb_compressed_reader_total', 'tnd_loader_total', 'icy_string_total', 'icy_layer_record_total',
            'icy_continuation_total', 'icy_header_total', 'icy_document_total', 'from_bytes_total', 'from_bytes_binary_total',
            'ext_table_ok',
            # extension x02: the text loaders (hypothesis of from_bytes_total discharged)
            'file_initial_state', 'file_ansi_char_total', 'file_wrappers_stream_total', 'file_ascii_stream_total', 'file_atascii_stream_total',
            'file_petscii_stream_total', 'sixel_epilogue_total', 'loaded_font_has_dims', 'text_load_total', 'text_load_total_loaded_font', 'text_load_returns', 'text_load_no_ansi_total', 'fixed_2_witness', 'known_2_before_fix_refuted',
            'file_macro_limit_only_cuts', 'known_3_before_fix_refuted', 'fixed_3_witness', 'text_load_hypothesis_discharged', 'from_bytes_total_unconditional', 'from_bytes_no_ansi_total']
SWEEP_LEMMAS = ['C02DispatchProofs.ext_table_sweep (the generated extension table on the 20 listed extensions, upper case, unknown, empty)',
                'C02Proofs.ega_offsets_small (the 16 generated EGA_COLOR_OFFSETS are < 64)']
TRUSTED = ['Coq 8.16.1 kernel + vm_compute; no axioms (Print Assumptions: closed)',
           'translator/gen_c02.py (FORMATS order, extension literals, shape of the dispatch in Buffer::from_bytes; the variants of PaletteFormat and the class of every arm of load_palette / export_palette) and the translators of C05/C11/C16/C17/C07 whose generated constants the models use',
           'harness/src/c02.rs, harness/src/c05.rs (observation of a loaded buffer), props/lib_c07.py (PNG/zTXt/base64 container writer used to deliver payloads)',
           'translator/gen_filemode.py: textual re-instantiation of C01\'s parser models and weak-invariant proof scripts over Model/FileCore.v (Coq checks the result), the pin of every reader of Buffer::is_terminal_buffer',
           'Rust: Vec / slice / String::from_utf8_lossy / char::from_u32 / regex captures / str::parse / chrono / png / base64 / flate2 behave as documented (they are oracles of the models)']
UNMODELLED = ['text loaders: the sixel decode threads and the font table are oracles of the epilogue of parse_with_parser (which sixels were decoded, their position and pixel size, the size of font 0, whether a decode failed); the arithmetic on them is modelled and proved panic-free for an oracle that reports a loaded font (a size BitFont::from_bytes can return: 1..=8 x 1..=32 since fix fB, Props/C17.v loaded_font_dims) and sixels inside i32; that every font of a text-loaded buffer comes from BitFont::from_bytes is a census of translator/gen_c02.py (font_sources), not a theorem - the parser models keep the slot numbers of the font table, not the fonts',
              'text loaders: convert_ansi_to_utf8 is the input side of the theorems (they hold for every character list); the parser models are C01\'s, made for `byte as char`: for characters >= U+10000 (a UTF-8 file behind a BOM) ASCII / Avatar truncate with `as u16`, which the models do not follow; cell content beyond (code, background) and the bold-folding loop (identity on that projection)',
              'text loaders: the macro nesting counter of ansi::Parser is the recursion budget of the (regenerated) parser model, MAX_MACRO_NESTING read from the source; the counter discipline of invoke_macro_by_id is pinned by translator/gen_macro.py (see C01)',
              'the PNG / zTXt / zlib / base64 container of .icy files (oracle `icy_chunks`)',
              'Palette::load_palette / export_palette as code: the five text formats are regex pipelines, model = C16 total functions (tied by C16 and by stage C here); the arm of PaletteFormat::Ase (Err / empty vector after the fix of C02-ase-todo) is classified by the translator from its token shape',
              'time and memory (property C03): a timeout / memory failure of a loader is the class C02-resource:<loader>; it is a known finding only for the six loaders with a recorded witness (the five that embed the ANSI parser: unclamped cursor row; IcyDraw: declared layer size), a violation for every other loader and extractor',
              'Buffer::from_bytes on a path without extension (`extension().unwrap()` panics): outside the property text, observation only',
              'Layer::from_clipboard_data, Buffer::get_char on a layer whose offset is i32::MIN (overflow after a successful load): not loaders']
ASSUMPTIONS = ['64-bit usize; files shorter than 2^31 bytes',
               'text loaders: row counters stay below 2^31 (as in C01 / C09); debug-profile arithmetic (overflow checks on), which is what the harness runs',
               'text loaders: SaneOracle = the size reported for font 0 is the size of a font BitFont::from_bytes returned for some byte string (LoadedFont) and every decoded sixel has a non-negative position / pixel size with (x + 1) * 8 + width <= i32::MAX, (y + 1) * 32 + height <= i32::MAX (SixelBounded). No condition on the font size a FILE could violate is left (the former known class C02-sixel-font0 is fixed: the loaders refuse a glyph size outside 1..=8 x 1..=32)']
LEVEL_TEXT = ('full for the binary loaders (BIN, ADF, IDF, XBin incl. compressed data, Tundra), SAUCE, fonts, TheDraw, palettes, the from_bytes dispatch AND the eight text loaders '
              '(ans/ice/diz/unknown, avt, pcb, asc, msg, an1-an9, seq, ata): from_bytes_total_unconditional has no hypothesis on the text loaders - every character list, every SAUCE record '
              '(height 0 included), parsers of C01 re-proved on a file buffer, parse_with_parser epilogue; NO known class of files is left: a self-invoking macro (C01\'s stack overflow) is repaired by the macro nesting limit (fixed_2_witness, known_2_before_fix_refuted), a sixel next to a degenerate font 0 by the size check of the font loaders (fix fB: fixed_3_witness, known_3_before_fix_refuted; the hypothesis `font 0 at least 1 x 1` became `font 0 is a font from_bytes returned`). '
              'Partial for IcyDraw (container is an oracle) and for the sixel epilogue (decode threads / font table are oracles)')
LEVEL_NOTE = 'one totality theorem per loader over all byte strings / character lists; 12 panics found and fixed (the last one: the todo!() arms of PaletteFormat::Ase), 13th fix: macro nesting limit (2513579), 14th: glyph size check of the font loaders (C02-sixel-font0); no known crash class left in the text loaders'
TECHNIQUE = ('checked-indexing models + induction over fuel/length (guards imply every checked read succeeds), composition with C11 split_total and C17/C05 models; text loaders: a weak invariant of the '
             'terminal core on a file buffer (widths >= 1, margins ordered, cursor >= 0, no condition on heights) kept by every operation, C01\'s character / stream scripts regenerated over it, '
             'initial state of every loader in the invariant for every SAUCE record; fuzz oracle over every extension')
RULE = ('seed files from the engine writers for every loader; every truncation (sampled for long files), single- and multi-byte corruption, '
        '16/32-bit header extremes, random bytes with format magic, SAUCE tails (well-formed, bad version/date, comment blocks, random 128-byte '
        '"SAUCE…" records); text formats additionally token streams of the C01 alphabet and malformed streams; IcyDraw payload mutations re-packed '
        'into a valid container; stand-alone extractors on structured random bytes. Non-trivial = the input is not the unmodified seed; distinct = distinct byte strings')

LOADER_FN = {'ans': 'Ansi::load_buffer', 'icy': 'IcyDraw::load_buffer', 'idf': 'IceDraw::load_buffer', 'bin': 'Bin::load_buffer',
             'xb': 'XBin::load_buffer', 'tnd': 'TundraDraw::load_buffer', 'pcb': 'PCBoard::load_buffer', 'avt': 'Avatar::load_buffer',
             'asc': 'Ascii::load_buffer', 'adf': 'Artworx::load_buffer', 'msg': 'CtrlA::load_buffer', 'an1': 'Renegade::load_buffer',
             'seq': 'Seq::load_buffer', 'ata': 'Atascii::load_buffer'}
FMT_CODE = {'ans': 0, 'icy': 1, 'idf': 2, 'bin': 3, 'xb': 4, 'tnd': 5, 'pcb': 6, 'avt': 7, 'asc': 8, 'adf': 9, 'msg': 10, 'an1': 11, 'seq': 12, 'ata': 13}
IMPORTS = 'From IE Require Import Run.RunC02.\nFrom IE Require Run.RunC11 Run.RunC17.\nLocal Open Scope N_scope.'
PAL_IMPORTS = 'From IE Require Import Run.RunC02Pal.\nLocal Open Scope N_scope.'

def loader_of(ext):
    return g.LOADER_OF.get(ext, ext)

def coq_list(bs):
    return '[' + '; '.join(str(b) for b in bs) + ']'

def coq_ext(ext):
    return coq_list(ext.encode())

def digest(l):
    """Run/RunC05.v digest"""
    out = [len(l)]
    for k in range(0, len(l), 64):
        blk = l[k:k + 64]
        out += [sum(blk), sum((i + 1) * x for i, x in enumerate(blk)), sum((i + 1) * (i + 1) * x for i, x in enumerate(blk))]
    return out

# ------------------------------------------------------------------------------------------------ source map
_FN_CACHE = {}
def enclosing_fn(repo, loc):
    """file:line -> name of the enclosing fn (scanning the source upwards for `fn name`)"""
    m = re.match(r'(.*?):(\d+)$', loc or '')
    if not m: return loc or '?'
    path, line = m.group(1), int(m.group(2))
    if not os.path.isabs(path): path = os.path.join(repo, path)
    if '/src/' in path and not path.startswith(repo):
        path = os.path.join(repo, 'src', path.split('/src/', 1)[1])
    try:
        if path not in _FN_CACHE:
            with open(path, errors='replace') as f: _FN_CACHE[path] = f.read().splitlines()
        lines = _FN_CACHE[path]
    except OSError:
        return os.path.basename(path) + ':' + str(line)
    for i in range(min(line, len(lines)) - 1, -1, -1):
        mm = re.search(r'\bfn\s+([A-Za-z_0-9]+)', lines[i])
        if mm: return mm.group(1)
    return os.path.basename(path) + ':' + str(line)

def classify(ctx, what, r, data=None):
    """what: loader / extractor name used for resource classes; data: the file bytes (text loaders). Returns None (fine) or a signature"""
    cls = r[0]
    if cls in ('ok', 'err'): return None
    if cls == 'panic':
        loc = str(r[1])
        if 'library/std/src/thread' in loc: return None      # thread::spawn refused under the address-space limit (sandbox)
        fn = enclosing_fn(ctx.repo, loc)
        if fn == 'load_palette' and what == 'Palette::load_palette(Ase)': return 'C02-ase-todo'
        if fn == 'export_palette' and what == 'Palette::export_palette(Ase)': return 'C02-ase-todo'
        if what in ANSI_INSIDE and sixel_font0(data) and (fn in ('parse_with_parser', 'get_screen_rect') or 'raw_vec' in loc):
            return 'C02-sixel-font0'
        return 'C02-panic:' + fn
    if cls in ('timeout', 'oom'): return 'C02-resource:' + what
    if cls == 'stackoverflow' and what in ANSI_INSIDE and data is not None and b'!z' in data:
        return 'C02-stackoverflow:invoke_macro_by_id'        # the former Known 2 (fixed by the macro nesting limit): a stored macro is being replayed
    return 'C02-%s:%s' % (cls, what)

ANSI_INSIDE = ('Ansi::load_buffer', 'Avatar::load_buffer', 'PCBoard::load_buffer', 'CtrlA::load_buffer', 'Renegade::load_buffer')
def sixel_font0(data):
    """Known 3: the file replaces font 0 by a `CTerm:Font:0:` DCS string and contains a sixel string"""
    return data is not None and re.search(rb'CTerm:Font:\+?0+:', data) is not None and re.search(rb'\x1bP[0-9;]*q', data) is not None

# ------------------------------------------------------------------------------------------------ seeds
def make_seeds(ctx, per_ext):
    specs = g.seed_specs(ctx.rng, per_ext)
    res = ctx.impl([c for _, c in specs])
    seeds = {}
    for (ext, c), r in zip(specs, res):
        if r[0] == 'ok' and r[1] and r[1][0] == 1:
            seeds.setdefault(ext, []).append(bytes(r[1][1:]))
    # the PETSCII writer is not implemented: hand-made streams stand in for valid .seq files
    seeds['seq'] = [bytes([0x93, 0x05]) + b'HELLO \x12WORLD\x92\r' + bytes(range(0x41, 0x5b)) + b'\r\x1c\x9e\x1f' + bytes([0xc1, 0xc2, 0x11, 0x9d, 0x1d, 0x91])]
    return seeds

def plain_sauce_tail(rng):
    """SAUCE tails whose font field names no font (the buffer models of C05 do not follow font names)"""
    nc = rng.choice([0, 0, 1, 2])
    kind = rng.choice([0, 0, 0, 2, 3])
    rec = bytearray(g.sauce_record(rng, kind, comments=nc, dtype=rng.choice([0, 1, 5, 6]), ftype=rng.choice([0, 1, 2, 8, 40, 80])))
    rec[106:128] = bytes(22)
    blk = b''
    if nc and rng.random() < 0.8:
        blk = b'COMNT' + b''.join(b'comment'.ljust(64) for _ in range(nc if rng.random() < 0.8 else 1))
    return (b'\x1a' if rng.random() < 0.8 else b'') + blk + bytes(rec)

# ------------------------------------------------------------------------------------------------ IcyDraw documents for the model
def kind_code(kw):
    """(code, number) as Run/RunC02.kind_of reads them - mirrors the keyword tests of IcyDraw::load_buffer"""
    if kw == 'END': return (0, 0)
    if kw == 'ICED': return (1, 0)
    if kw == 'PALETTE': return (2, 0)
    if kw == 'SAUCE': return (3, 0)
    if kw.startswith('FONT_'):
        s = kw[5:]
        t = s[1:] if s[:1] == '+' else s
        if t.isdigit() and t.isascii() and int(t) < 2 ** 64: return (4, int(t))
        return (5, 0)
    if not kw.startswith('LAYER_'): return (6, 0)
    m = re.search(r'LAYER_(\d+)~(\d+)', kw, re.A)
    if m:
        n = int(m.group(1))
        return (7, n) if n < 2 ** 64 else (8, 0)
    return (9, 0)

def icy_docs(ctx, seeds, count):
    """[(chunks, file bytes)] restricted to chunk kinds the model decides without an oracle (no PALETTE chunk)"""
    from props.lib_c07 import icy_chunks, make_icy
    out = []
    for lbl, data in g.icy_payload_mutants(ctx.rng, seeds, count * 2):
        try:
            ch = icy_chunks(data)
        except Exception:
            continue
        if any(kw == 'PALETTE' for kw, _ in ch): continue
        out.append((ch, data))
        if len(out) >= count: break
    return out

def big_geometry(payload):
    """a LAYER_ record / ICED header that announces more than 4000 rows or columns: resource territory (C03), kept out of stage C"""
    return False

def doc_too_big(ch):
    for kw, pl in ch:
        if kw.startswith('LAYER_') and '~' not in kw and len(pl) >= 8:
            n = struct.unpack('<I', pl[:4])[0]
            o = 4 + n + 1 + 4 + 1 + 4 + 4 + 1 + 8
            if len(pl) >= o + 8:
                w, h = struct.unpack('<ii', pl[o:o + 8])
                if w > 2000 or h > 2000: return True
        if kw == 'ICED' and len(pl) == 19:
            w, h = struct.unpack('<ii', pl[11:19])
            if w > 2000 or h > 2000 or w < 0 or h < 0: return True
    return False

# ------------------------------------------------------------------------------------------------ stage C
def correspondence(ctx):
    rng = ctx.rng
    seeds = make_seeds(ctx, ctx.n(2, 4))
    cases = []; exprs = []; kinds = []
    dist = {}
    # (1) the five binary loaders on whole files: model = SAUCE split + dispatch + loader, picture compared by digest
    for ext in g.BINARY:
        per = ctx.n(24, 150) if ext in ('adf', 'idf') else ctx.n(60, 500)       # ADF / IDF files have 4 KiB of font
        sd = seeds.get(ext, [])
        muts = g.mutants(rng, ext, sd[:2] + sd[-2:], per, trunc_limit=per // 3)
        rng.shuffle(muts)
        chosen = [m for m in muts if m[0] == 'valid'] + [m for m in muts if m[0] != 'valid'][:per]
        for lbl, d in chosen:
            if lbl in ('sauce+', 'random+sauce', 'sauce-only'):
                cut = d.rfind(b'SAUCE')
                d = (d[:max(0, cut - rng.choice([0, 1, 70]))] if cut >= 0 else d) + plain_sauce_tail(rng)
            if len(d) > 9000: continue
            use_ext = ext if rng.random() < 0.9 else ext.upper()
            cases.append('c5load %s %s' % (use_ext, g.hexs(d)))
            exprs.append('run_bytes %s %s' % (coq_ext(use_ext), coq_list(d)))
            kinds.append(('bytes', ext, lbl)); dist['%s:%s' % (ext, lbl)] = dist.get('%s:%s' % (ext, lbl), 0) + 1
    # the former crash inputs of the binary loaders, with and without a SAUCE tail
    for lbl, c in REGRESSION:
        parts = c.split()
        if parts[0] == 'c2load' and parts[1] in g.BINARY:
            for d in (g.unhex(parts[2]), g.unhex(parts[2]) + plain_sauce_tail(rng)):
                cases.append('c5load %s %s' % (parts[1], g.hexs(d)))
                exprs.append('run_bytes %s %s' % (coq_ext(parts[1]), coq_list(d)))
                kinds.append(('bytes', parts[1], 'regression')); dist['regression'] = dist.get('regression', 0) + 1
    # (2) IcyDraw chunk payloads: outcome class and number of layers
    for ch, data in icy_docs(ctx, seeds.get('icy', []), ctx.n(120, 1500)):
        if doc_too_big(ch): continue
        cases.append('c2load icy ' + g.hexs(data))
        exprs.append('run_doc [%s]' % '; '.join('(%d, %d, %s)' % (kind_code(kw) + (coq_list(pl),)) for kw, pl in ch))
        kinds.append(('icy', 'icy', 'payload')); dist['icy:payload'] = dist.get('icy:payload', 0) + 1
    # (3) stand-alone extractors: outcome class (and header length / font geometry) against the models of C11 / C17
    for _ in range(ctx.n(60, 600)):
        d = g.random_bytes(rng)[:rng.randrange(120)] + g.sauce_tail(rng)
        if rng.random() < 0.3: d = g.corrupt_many(rng, d)
        cases.append('c2sauce ' + g.hexs(d)); exprs.append('RunC11.run_x %s' % coq_list(d)); kinds.append(('sauce', '', '')); dist['sauce'] = dist.get('sauce', 0) + 1
    for _ in range(ctx.n(40, 400)):
        d = font_bytes(rng)
        if len(d) > 6000: d = d[:6000]
        cases.append('c2font ' + g.hexs(d)); exprs.append('RunC17.run_fb %s' % coq_list(d)); kinds.append(('font', '', '')); dist['font'] = dist.get('font', 0) + 1
    for _ in range(ctx.n(40, 400)):
        d = tdf_bytes(rng)
        cases.append('c2tdf ' + g.hexs(d)); exprs.append('RunC17.run_tdfdec %s' % coq_list(d)); kinds.append(('tdf', '', '')); dist['tdf'] = dist.get('tdf', 0) + 1
    impl = ctx.impl(cases)
    # pictures of more than 40 000 cells (or loads that exceed the worker limits) are C03's subject: the model is not run on them
    keep = [i for i, r in enumerate(impl) if not (r[0] in ('timeout', 'oom') or (r[0] == 'ok' and len(r[1]) > 220000))]
    skipped = len(cases) - len(keep)
    cases = [cases[i] for i in keep]; exprs = [exprs[i] for i in keep]; kinds = [kinds[i] for i in keep]; impl = [impl[i] for i in keep]
    model = ctx.model(IMPORTS, exprs)
    dist['skipped_large'] = skipped
    dis = []
    for c, e, k, r, m in zip(cases, exprs, kinds, impl, model):
        want = None
        if k[0] == 'bytes':
            if r[0] == 'ok': got = digest(r[1])
            elif r[0] == 'err' and 'picture-too-large' in str(r[1]): got = digest([-2])
            elif r[0] == 'panic': got = digest([-1])
            else: got = [r[0]]
        elif k[0] == 'icy':
            if r[0] == 'ok': got = [1, r[1][3]] if r[1][0] == 1 else [0]
            elif r[0] == 'panic': got = [-1]
            else: got = [r[0]]
        elif k[0] == 'sauce':
            if r[0] == 'ok': got = {0: [-1], 1: [0]}.get(r[1][0]) or [1, r[1][1]]
            else: got = [-2] if r[0] == 'panic' else [r[0]]
            m = None if m is None else (m[:2] if m[0] == 1 else m[:1])
        else:
            if r[0] == 'ok': got = [0] if r[1][0] == 1 else [1]
            else: got = [2] if r[0] == 'panic' else [r[0]]
            if k[0] == 'font' and r[0] == 'ok' and r[1][0] == 1 and m is not None and m[0] == 0:
                got = [0] + r[1][1:4]; m = m[:4]
            elif k[0] == 'tdf' and r[0] == 'ok' and r[1][0] == 1 and m is not None and m[0] == 0:
                got = [0, r[1][1]]; m = m[:2]
            else:
                m = None if m is None else m[:1]
        if m is None or got != m:
            dis.append({'case': c[:4000], 'kind': k, 'impl': got if len(str(got)) < 300 else str(got)[:300], 'model': m if m is None or len(str(m)) < 300 else str(m)[:300]})
    errs = getattr(ctx, 'model_errors', [])[:2]
    # (3b) palettes, all six PaletteFormat variants: load_palette on seeds / mutants (valid UTF-8 goes to the model; anything else must be Err),
    #      export_palette of small palettes (length of the vector); PaletteFormat::Ase: Err / empty vector
    pc = []; pe = []
    for fmt, sd in PAL_SEEDS.items():
        for lbl, d in [('seed', sd), ('empty', b'')] + g.mutants(rng, None, [sd], ctx.n(8, 60), trunc_limit=None):
            if len(d) > 400: continue
            try: text = d.decode('utf-8')
            except UnicodeDecodeError: text = None
            pc.append('c2pal %d %s' % (fmt, g.hexs(d)))
            pe.append(None if text is None else 'run_pal %d %s' % (fmt, coq_list([ord(ch) for ch in text])))
        for n in (0, 1, 16, 17):
            pc.append('c2palx %d %d' % (fmt, n)); pe.append('run_palx %d %d' % (fmt, n))
    pimpl = ctx.impl(pc)
    pmodel = iter(ctx.model(PAL_IMPORTS, [e for e in pe if e is not None]))
    for c, e, r in zip(pc, pe, pimpl):
        m = [0] if e is None else next(pmodel)          # invalid UTF-8: `String::from_utf8` fails -> Err for the text formats, Err for Ase anyway
        got = r[1] if r[0] == 'ok' else ([-1] if r[0] == 'panic' else [r[0]])
        dist['palette'] = dist.get('palette', 0) + 1
        if m is None or got != m:
            dis.append({'case': c[:4000], 'kind': ('palette', c.split()[1], ''), 'impl': got, 'model': m})
    cases += pc
    errs += getattr(ctx, 'model_errors', [])[:2]
    # (4) the text loaders: whole files through Buffer::from_bytes against Model/FileLoad.v (props/c02text.py)
    tx = c02text.correspondence(ctx)
    dis += tx['disagreements']
    for k, v in tx['distribution'].items(): dist['text:' + k] = v
    return {'cases': len(cases) + tx['cases'], 'disagreements': dis, 'distinct_nontrivial': len(set(cases)) + tx['distinct'],
            'distribution': dict(dist, model_errors=errs + getattr(ctx, 'model_errors', [])[:2]),
            'samples': [cases[0][:200], cases[len(cases) // 2][:200]] + tx['samples']}

def font_bytes(rng):
    r = rng.random()
    d = bytearray(g.random_bytes(rng))
    if r < 0.4:
        d[:4] = b'\x36\x04' + bytes([rng.randrange(4), rng.choice([0, 1, 8, 16, 32, 255])])
        if rng.random() < 0.5: d += bytes(rng.randrange(256) for _ in range(rng.choice([0, 16, 256, 4096])))
    elif r < 0.8:
        d[:32] = b'\x72\xb5\x4a\x86' + struct.pack('<IIIIIII', rng.choice(g.EXTREMES32), rng.choice([0, 32, 33, 64, 0xffffffff]), 0,
                                                    rng.choice([0, 1, 2, 256, 512, 0xffff, 0xffffffff]), rng.choice([0, 1, 16, 32, 4096, 0xffffffff]),
                                                    rng.choice([0, 1, 16, 0xffffffff]), rng.choice([0, 8, 9, 0xffffffff]))
    return bytes(d)

def tdf_font_record(name, ftype, glyphs, bs_delta=0):
    """one well-formed TheDraw font record (id, name, type, spacing, block size, 94 offsets, glyph block)"""
    block = b''; offs = [0xFFFF] * 94
    for idx, gl in glyphs:
        offs[idx] = len(block); block += gl
    rec = b'\x55\xaa\x00\xff' + bytes([len(name)]) + name.ljust(12, b'\0') + b'\0\0\0\0' + bytes([ftype, 1])
    rec += struct.pack('<H', (len(block) + bs_delta) & 0xffff) + b''.join(struct.pack('<H', o) for o in offs) + block
    return rec

def tdf_structured():
    """small valid TDF files (1 and 2 fonts, block / colour glyphs), every truncation of each, and the same files with the
    block-size field larger / smaller than the data (so a glyph can run past the end of the file)"""
    hdr = b'\x13TheDraw FONTS file\x1a'
    g_block = bytes([2, 2]) + b'AB\rCD\0'; g_color = bytes([2, 1]) + b'A\x1fB\x20\0'; g_long = bytes([3, 1]) + b'XYZ\0'
    files = []
    for delta in (0, 1, 7, 300, -1, -5):
        files.append(hdr + tdf_font_record(b'ONE', 1, [(0, g_long)], delta))
        files.append(hdr + tdf_font_record(b'ONE', 1, [(0, g_block), (5, g_block)]) + tdf_font_record(b'TWO', 2, [(1, g_color)], delta))
        files.append(hdr + tdf_font_record(b'OUT', 0, [(2, g_block)], delta))
    out = []
    for f in files:
        for k in range(len(f) + 1):
            if k < 20 or k >= 200 or k % 16 == 0: out.append(f[:k])   # skip most cuts inside the offset table
    return out

def tdf_bytes(rng):
    d = bytearray(g.random_bytes(rng)) + bytearray(rng.randrange(256) for _ in range(rng.randrange(300)))
    r = rng.random()
    if r < 0.85: d[:20] = b'\x13TheDraw FONTS file\x1a'
    if r < 0.65 and len(d) > 30: d[20:24] = b'\x55\xaa\x00\xff'
    if r < 0.4 and len(d) > 250:
        d[24] = rng.choice([0, 5, 12, 13]); d[41] = rng.randrange(4); d[42] = rng.choice([0, 1, 40, 41]); d[43:45] = struct.pack('<H', rng.choice([0, 1, 10, 0xffff]))
    return bytes(d)

# ------------------------------------------------------------------------------------------------ stage S
PAL_SEEDS = {0: b'ICE Palette\n#Name: x\n#Author: y\n#Description: z\n000000\nff00aa\n', 1: b'000000\nFFFFFF\naa55cc',
             2: b'JASC-PAL\n0100\n2\n0 0 0\n255 10 7\n', 3: b'GIMP Palette\nName: n\nColumns: 2\n#c\n0 0 0 black\n255 255 255\twhite\n',
             4: b';paint.net Palette File\n;Palette Name: a\n;Description: b\nFF000000\nFFffffff\n', 5: b'ASEF\0\1\0\0\0\0\0\1'}
PAL_NAMES = ['Ice', 'Hex', 'Pal', 'Gpl', 'Txt', 'Ase']

REGRESSION = [
    # (label, case) - the inputs that crashed before the fix commits
    ('tnd-truncated-colour-record', 'c2load tnd 1854554e445241323406'),
    ('tnd-truncated-jump', 'c2load tnd 0054554e445241323401'),
    ('xb-palette-block-cut', 'c2load xb 5842494e1a040002001001' + '00' * 10),
    ('xb-font-block-cut', 'c2load xb 5842494e002000000000ff' + '00' * 48),
    ('xb-compressed-char-run-at-eof', 'c2load xb 5842494e1a04000200100440'),
    ('xb-compressed-attr-run-at-eof', 'c2load xb 5842494e1a04000200100480'),
    ('xb-compressed-full-run-at-eof', 'c2load xb 5842494e1a040002001004c0'),
    ('ans-cursor-up-insert-line', 'c2load ans 1b5b411b5b4c'),
    ('ans-cursor-up-delete-line', 'c2load ans 1b5b411b5b4d'),
    ('ata-cursor-up-insert-line', 'c2load ata 1c9d'),
    ('ata-cursor-up-delete-line', 'c2load ata 1c9c'),
    ('sauce-record-only', 'c2sauce ' + (b'SAUCE00' + bytes(121)).hex()),
    ('font-short', 'c2font 3604'),
    ('psf1-height-0', 'c2font 3604000001'),
]

def icy_regressions():
    from props.lib_c07 import make_icy
    iced = struct.pack('<HIHBBBII', 0, 0, 0, 1, 1, 1, 80, 25)
    def lay(title=b'L', role=0, w=2, h=1, length=0, body=b'', cut=None):
        b = (struct.pack('<I', len(title)) + title + bytes([role]) + b'\0\0\0\0\0' + b'\1\2\3\4' + struct.pack('<I', 1) + b'\0'
             + struct.pack('<iiiiHQ', 0, 0, w, h, 0, length) + body)
        return b if cut is None else b[:cut]
    docs = {
        'icy-font-chunk-empty': [('ICED', iced), ('FONT_0', b''), ('END', b'')],
        'icy-font-name-cut': [('ICED', iced), ('FONT_0', struct.pack('<I', 100) + b'ab'), ('END', b'')],
        'icy-layer-chunk-empty': [('ICED', iced), ('LAYER_0', b''), ('END', b'')],
        'icy-layer-record-cut-10': [('ICED', iced), ('LAYER_0', lay(cut=10)), ('END', b'')],
        'icy-layer-record-cut-30': [('ICED', iced), ('LAYER_0', lay(cut=30)), ('END', b'')],
        'icy-layer-length-2^64-1': [('ICED', iced), ('LAYER_0', lay(length=2 ** 64 - 1)), ('END', b'')],
        'icy-image-layer-cut': [('ICED', iced), ('LAYER_0', lay(role=1)), ('END', b'')],
        'icy-continuation-without-layer': [('ICED', iced), ('LAYER_5~1', b'\0\0'), ('END', b'')],
        'icy-continuation-cut-1': [('ICED', iced), ('LAYER_0', lay(w=2, h=3)), ('LAYER_0~1', b'\x00'), ('END', b'')],
        'icy-continuation-cut-short': [('ICED', iced), ('LAYER_0', lay(w=2, h=3)), ('LAYER_0~1', b'\x00\x40A'), ('END', b'')],
        'icy-continuation-cut-long': [('ICED', iced), ('LAYER_0', lay(w=2, h=3)), ('LAYER_0~1', b'\x00\x00AAAAA'), ('END', b'')],
        'icy-short-cell-3-bytes': [('ICED', iced), ('LAYER_0', lay(body=b'\x00\x40AAA', length=5)), ('END', b'')],
    }
    return [(k, 'c2load icy ' + g.hexs(make_icy(v))) for k, v in docs.items()]

def search(ctx, broken):
    rng = ctx.rng
    seeds = make_seeds(ctx, ctx.n(3, 6))
    cases = []; what = []; labels = []
    def add(case, w, lbl):
        cases.append(case); what.append(w); labels.append(lbl)
    for lbl, c in REGRESSION + icy_regressions():
        add(c, 'regression', lbl)
    # the directed files of the text-loader correspondence (incl. the two former known classes, both fixed: the files must load)
    for lbl, ext, c, _ in c02text.directed():
        add('c2load %s %s' % (ext, g.hexs(c)), 'regression', lbl)
    for lbl, ext, c, w, h, ice in c02text.sauce_directed():
        add('c2load %s %s' % (ext, g.hexs(c + c02text.mk_sauce(w, h, ice))), 'regression', lbl)
    # inputs on which model and implementation disagreed come first
    for b in broken:
        d = b.get('detail') or {}
        if isinstance(d, dict) and isinstance(d.get('case'), str):
            c = d['case'].replace('c5load ', 'c2load ', 1).replace('c2text ', 'c2load ', 1)
            add(c, 'correspondence-disagreement', 'disagreement')
    budget = ctx.n(600, 2000)
    for ext in g.EXTS:
        ld = loader_of(ext)
        sd = seeds.get(ld, [])
        b = budget if ext == ld else budget // 5
        for lbl, d in g.mutants(rng, ext, sd, b, trunc_limit=b // 3):
            add('c2load %s %s' % (ext if rng.random() < 0.95 else ext.upper(), g.hexs(d)), LOADER_FN[ld], lbl)
        if ext in g.EMU_OF:
            for lbl, d in g.text_streams(rng, ext, b):
                tail = g.sauce_tail(rng) if rng.random() < 0.2 else b''
                add('c2load %s %s' % (ext, g.hexs(d + tail)), LOADER_FN[ld], lbl)
            if ext in c02text.EMU:
                # streams with macros (definition, replay, nesting), resizes, custom fonts and sixels, file-buffer scrolling; SAUCE sizes the loaders act on
                for _ in range(b // 3):
                    d, lbl = c02text.stream(rng, ext)
                    if rng.random() < 0.15 and ld in ('ans', 'avt', 'pcb', 'msg', 'an1'):
                        fw0, fh0 = rng.choice([0, 1, 8, 9, 2 ** 30, 2 ** 31, 2 ** 32 - 1]), rng.choice([0, 1, 16, 32, 33, 2 ** 30, 2 ** 32 - 1])
                        k0 = rng.random()      # charsize 0 (the recorded witnesses) / charsize = height / a PSF1 header with charsize 0 or 33 / raw data of 33 rows
                        f0 = (c02text.font0(fw0, fh0) if k0 < 0.4 else c02text.font0(fw0, fh0, fh0) if k0 < 0.8 else
                              c02text.font0_raw(bytes([0x36, 0x04, 0, rng.choice([0, 33, 255])]) + bytes(40)) if k0 < 0.95 else c02text.font0_raw(bytes(33 * 256)))
                        d = f0 + d + (c02text.SIXEL if rng.random() < 0.5 else b'')
                    tail = c02text.text_sauce(rng) if rng.random() < 0.3 else b''
                    add('c2load %s %s' % (ext, g.hexs(d + tail)), LOADER_FN[ld], 'x-' + lbl)
    for lbl, d in g.icy_payload_mutants(rng, seeds.get('icy', []), budget * 4):
        add('c2load icy ' + g.hexs(d), LOADER_FN['icy'], lbl)
    if ctx.thorough or ctx.escalated:
        from props.lib_c07 import icy_chunks
        for s in seeds.get('icy', [])[:1]:
            try:
                for lbl, d in g.icy_payload_truncations(icy_chunks(s))[:6000]:
                    add('c2load icy ' + g.hexs(d), LOADER_FN['icy'], lbl)
            except Exception:
                pass
    for fmt, sd in PAL_SEEDS.items():
        for lbl, d in g.mutants(rng, None, [sd], budget // 2, trunc_limit=None):
            add('c2pal %d %s' % (fmt, g.hexs(d)), 'Palette::load_palette(%s)' % PAL_NAMES[fmt], lbl)
        add('c2palx %d %d' % (fmt, rng.choice([0, 1, 16, 17])), 'Palette::export_palette(%s)' % PAL_NAMES[fmt], 'export')
        if fmt != 5:
            # every number of the text file at its extremes (count lines, channel values, version fields)
            for d in g.text_number_extremes(sd):
                add('c2pal %d %s' % (fmt, g.hexs(d)), 'Palette::load_palette(%s)' % PAL_NAMES[fmt], 'number-extreme')
    for _ in range(budget * 2):
        d = g.random_bytes(rng)[:rng.randrange(200)] + g.sauce_tail(rng)
        r = rng.random()
        if r < 0.3: d = g.corrupt_many(rng, d)
        if r > 0.9: d = d[rng.randrange(len(d)):]
        add('c2sauce ' + g.hexs(d), 'SauceData::extract', 'sauce')
        add('c2font ' + g.hexs(font_bytes(rng)), 'BitFont::from_bytes', 'font')
        add('c2tdf ' + g.hexs(tdf_bytes(rng)), 'TheDrawFont::from_tdf_bytes', 'tdf')
    for d in tdf_structured():
        add('c2tdf ' + g.hexs(d), 'TheDrawFont::from_tdf_bytes', 'tdf-structured')
    # the witness of the known class of each loader that embeds the ANSI parser (known_findings.d/C02.json): run on every check,
    # so every listed finding prints its KNOWN-FINDING line and a repair shows up as a stale entry
    for ext in ('ans', 'avt', 'pcb', 'msg', 'an1'):
        add('c2load %s %s' % (ext, g.hexs(b'\x1b[2147483647BA')), LOADER_FN[loader_of(ext)], 'known-witness')
    res = ctx.impl(cases)
    failures = []
    counts = {}
    for c, w, lbl, r in zip(cases, what, labels, res):
        counts[r[0]] = counts.get(r[0], 0) + 1
        target = w
        if w in ('regression', 'correspondence-disagreement'):
            ext = c.split()[1].lower() if c.startswith('c2load') else ''
            target = LOADER_FN.get(loader_of(ext), c.split()[0])
        data = None
        if c.startswith('c2load ') or c.startswith('c2text '):
            try: data = g.unhex(c.split()[2])
            except Exception: data = None
        sig = classify(ctx, target, r, data)
        if sig is None: continue
        failures.append({'signature': sig, 'input': c, 'impl': list(r), 'expected': 'ok or err',
                         'detail': '%s on a %s input (%s)' % (r[0], lbl, w)})
    return {'cases': len(cases), 'failures': failures, 'distinct_nontrivial': len(set(cases)),
            'outcomes': counts, 'samples': [cases[0][:200], cases[len(cases) // 2][:200], cases[-1][:200]]}

def replay(ctx, body):
    from vlib import driver
    inp = body.get('input')
    print('replay', ID, 'signature:', body.get('signature'), '\ninput:', str(inp)[:400])
    if not isinstance(inp, str):
        print(json.dumps(body, indent=1)[:3000]); return 1
    ok, out = driver.stage_build()
    if not ok:
        print('harness does not build'); return 2
    r = ctx.impl([inp])[0]
    print('implementation:', str(r)[:800])
    parts = inp.split()
    if parts[0] in ('c2load', 'c5load') and parts[1].lower() in g.BINARY:
        d = g.unhex(parts[2])
        m = ctx.model(IMPORTS, ['run_bytes %s %s' % (coq_ext(parts[1]), coq_list(d))])
        print('model (digest of the load observation; [1,0,..]=Err, [1,-1,..]=Panic):', str(m[0])[:300])
    if parts[0] == 'c2text':
        d = g.unhex(parts[2])
        if r[0] == 'ok' and r[1] and r[1][0] == 1: fw, fh, sx = c02text.oracle_from_obs(r[1])
        else: fw, fh, sx = 8, 16, []
        m = ctx.model(c02text.MODEL_IMPORTS, [c02text.model_expr(parts[1], d, fw, fh, sx, False, None)])
        print('model (Run/RunC02Text.v; sixel oracle taken from the observation, 8x16 and no sixel when the load failed):', str(m[0])[:600])
    what = LOADER_FN.get(loader_of(parts[1].lower()), parts[0]) if parts[0] in ('c2load', 'c2text') else parts[0]
    data = g.unhex(parts[2]) if parts[0] in ('c2load', 'c2text') and len(parts) > 2 else None
    sig = classify(ctx, what, r, data)
    print('oracle:', sig or 'passes')
    return 1 if sig else 0
