"""C11 — SAUCE metadata round-trips and is cut off the content exactly (DESIGN.md section 7, C11)."""
import os, json
ID = 'C11'
GENERATORS = ['gen_sauce']
COQ_TARGETS = ['Props/C11.vo', 'Run/RunC11.vo']
PROPS_MODULE = 'Props.C11'
THEOREMS = ['extract_write', 'split_exact', 'extract_total', 'split_total', 'split_is_prefix',
            'strings_roundtrip_blank', 'strings_roundtrip_nul', 'string_eq_spec',
            'carried_listed_fields', 'font_name_roundtrip', 'from_inverts_display', 'header_len_formula', 'chrono_accepts_written_dates']
SWEEP_LEMMAS = ['SauceCarried.cp437_decode_encode_sweep (256 entries of the generated CP437_TO_UNICODE: no duplicate code point; from_inverts_display rests on it)']
TRUSTED = ['Coq 8.16.1 kernel + vm_compute (model evaluation in stage C, the 256-entry table sweep); no axioms (Print Assumptions: closed)',
           'translator/gen_sauce.py + vlib/rustsrc.py: constants, string widths, comment block arithmetic, CP437 table read from the source text',
           'harness/src/c11.rs (public API only) and the python statement of the property in props/c11.py (search stage)',
           'chrono: the date parser is an argument of the model\'s extract; the theorems hold for every parser; the concrete '
           'chrono_parse (hand model of "%Y%m%d%H%M%S" on date8+"000000") is tied to the real library by stage C only']
UNMODELLED = ['the format loaders/writers around the SAUCE block (content bytes are an arbitrary list in the theorems); covered by the end-to-end oracle of the search stage for the ten writers',
              'Buffer::set_sauce (resize/font/ice application on load) — exercised by the end-to-end oracle',
              'icy: the PNG zTXt + base64 container around the SAUCE bytes (oracle only)',
              'files without an EOF byte in front of their SAUCE data lose their last content byte (reader assumes the EOF byte; outside the property, which is about files written by the engine) — see notes/C11.md']
ASSUMPTIONS = ['slice lengths fit usize (the model uses unbounded nat for offsets); u8/u16/u32 casts are the `mod` written in the model',
               'the creation date is an input (8 bytes) of the model writer; the reader\'s date parser is a parameter (oracle)']
RULE = ('metadata: title/author/group/comment strings over all 256 CP437 bytes with trailing blanks, trailing NULs, interior NULs, '
        'all-blank and full-length variants, 0..=255 comments, every flag combination, all nine SauceFileType values, widths 1..=1000 '
        '(plus 0, odd, >511 for Bin), font names with non-CP437 characters; content: random bytes ending in SAUCE/COMNT/EOF look-alikes. '
        'Reader inputs: writer output, front/back truncations, single-field corruptions, 128-byte SAUCE tails, date-field grammar cases, random bytes. '
        'Non-trivial = a SAUCE id is present at len-128; distinct = distinct byte strings')

from translator import gen_sauce
from vlib import rustsrc

# ------------------------------------------------------------------------------------------------
EXT_FT = {'ans': 2, 'asc': 1, 'avt': 5, 'pcb': 4, 'bin': 7, 'xb': 8, 'tnd': 6, 'adf': 2, 'idf': 7, 'icy': 2}
ERR_CODE = {'version': 1, 'date': 2, 'comment-block': 3, 'comment-id': 4, 'comment-limit': 5, 'bin-width': 6}
_TABLE = {}

def cp437(repo):
    if repo not in _TABLE:
        asc = rustsrc.Source(os.path.join(repo, 'src/parsers/ascii/mod.rs'))
        ty, v = asc.find_const('CP437_TO_UNICODE')
        _TABLE[repo] = rustsrc.parse_array(v)
    return _TABLE[repo]

def hx(bs):
    return ''.join('%02x' % b for b in bs) or '-'

def unhx(h):
    return [] if h == '-' else [int(h[i:i+2], 16) for i in range(0, len(h), 2)]

def coq_list(bs, scope='N'):
    return '[%s]%%%s' % ('; '.join(map(str, bs)), scope) if bs else '[]'

# ---- the property's own statement of "what a variant carries" (independent of the Coq model) ------------
def strip_blank(bs):
    bs = list(bs)
    while bs and bs[-1] in (0, 32): bs.pop()
    return bs

def cut_nul(bs):
    bs = list(bs)
    return bs[:bs.index(0)] if 0 in bs else bs

def spec_font(table, name):
    enc = [table.index(ord(c)) if ord(c) in table else 63 for c in name[:22]]
    return [table[b] for b in strip_blank(cut_nul(enc))]

def spec_carried(table, m):
    """expected reader-visible values for metadata m saved as variant m['ft'] (0 is written as ANSi)"""
    ft = m['ft'] or 2
    s = m['sauce']
    exp = {}
    exp['title'] = strip_blank(s['title']) if s else []
    exp['author'] = strip_blank(s['author']) if s else []
    exp['group'] = strip_blank(s['group']) if s else []
    exp['comments'] = [strip_blank(cut_nul(c)) for c in s['comments']] if s else []
    exp['data_type'] = 5 if ft == 7 else 6 if ft == 8 else 1
    exp['ftype'] = ft
    w, h = m['w'], m['h']
    if ft == 7: exp['w'], exp['h'] = 2 * ((abs(w) // 2 * (1 if w >= 0 else -1)) % 256), 25      # i32 `/` truncates towards zero
    elif ft == 6: exp['w'], exp['h'] = w % 65536, 0
    else: exp['w'], exp['h'] = w % 65536, h % 65536
    exp['ice'] = int(m['ice']) if ft in (1, 2, 3, 7) else 0
    exp['ls'] = int(bool(s and s['ls'])) if ft in (1, 2) else 0
    exp['ar'] = int(bool(s and s['ar'])) if ft in (1, 2) else 0
    exp['font'] = spec_font(table, m['font']) if ft in (1, 2, 3, 7) else None
    n = len(s['comments']) if s else 0
    exp['header_len'] = 1 + (5 + 64 * n if n else 0) + 128
    return exp

def parse_sauce_obs(v):
    """inverse of obs_sauce in harness/src/c11.rs; v starts at the leading 1"""
    o = {}
    i = 0
    assert v[i] == 1; i += 1
    for k in ('header_len', 'data_type', 'ftype', 'w', 'h', 'ice', 'ls', 'ar', 'y', 'm', 'd'):
        o[k] = v[i]; i += 1
    has, n = v[i], v[i+1]; i += 2
    o['font'] = v[i:i+n] if has else None; i += n
    def s():
        nonlocal i
        empty, ln, n = v[i], v[i+1], v[i+2]; i += 3
        b = v[i:i+n]; i += n
        return {'is_empty': empty, 'len': ln, 'bytes': b, 'canon': b[:ln]}
    o['title'] = s(); o['author'] = s(); o['group'] = s()
    nc = v[i]; i += 1
    o['comments'] = [s() for _ in range(nc)]
    o['end'] = i
    return o

def compare_carried(exp, got):
    """list of field names where the loaded value differs from what the variant carries"""
    bad = []
    for k in ('title', 'author', 'group'):
        if got[k]['canon'] != exp[k]: bad.append(k)
    if [c['canon'] for c in got['comments']] != exp['comments']: bad.append('comments')
    for k in ('data_type', 'ftype', 'w', 'h', 'ice', 'ls', 'ar', 'font', 'header_len'):
        if k in exp and got[k] != exp[k]: bad.append(k)
    return bad

# ---- generators ----------------------------------------------------------------------------------------
def rand_str(rng, L, allow_long=False):
    r = rng.random()
    if r < 0.08: return []
    if r < 0.14: return [32] * rng.randint(1, L)
    if r < 0.18: return [0] * rng.randint(1, L)
    n = L if r < 0.35 else rng.randint(1, L)
    mode = rng.random()
    if mode < 0.45: b = [rng.randrange(256) for _ in range(n)]
    elif mode < 0.8: b = [rng.randrange(33, 127) for _ in range(n)]
    else: b = [rng.choice([0, 32, 65, 255, 1, 26]) for _ in range(n)]
    t = rng.random()
    k = rng.randint(1, max(1, n // 2))
    if t < 0.2: b[-k:] = [32] * k                       # trailing blanks
    elif t < 0.35: b[-k:] = [0] * k                     # trailing NULs
    elif t < 0.45: b[-k:] = [rng.choice([0, 32]) for _ in range(k)]
    elif t < 0.55 and n > 2: b[rng.randrange(n - 1)] = 0   # interior NUL
    return b[:L]

FONT_NAMES = ['IBM VGA', 'IBM VGA50', 'IBM EGA', 'Amiga Topaz 1', 'Codepage 437 English', '', 'x', 'IBM VGA  ', 'A' * 22, 'B' * 30,
              'naïve ▒▓', 'snow☃man', 'nul\x00inside', ' lead', 'tab\there', 'Ωmega  ', '22 chars exactly here!!']

def rand_font(rng, table):
    r = rng.random()
    if r < 0.5: return rng.choice(FONT_NAMES)
    n = rng.randint(0, 26)
    return ''.join(chr(table[rng.randrange(256)]) if rng.random() < 0.9 else rng.choice('€中Ж') for _ in range(n))

def rand_sauce(rng, ncomments=None):
    if ncomments is None:
        r = rng.random()
        ncomments = 0 if r < 0.3 else rng.randint(1, 4) if r < 0.8 else rng.randint(5, 40) if r < 0.97 else rng.choice([254, 255, 128])
    return {'title': rand_str(rng, 35), 'author': rand_str(rng, 20), 'group': rand_str(rng, 20),
            'comments': [rand_str(rng, 64) for _ in range(ncomments)], 'ar': rng.random() < 0.5, 'ls': rng.random() < 0.5}

def rand_width(rng):
    r = rng.random()
    if r < 0.25: return rng.choice([80, 160, 40, 132, 1, 2, 3, 255, 256, 257, 510, 511, 512, 513, 999, 1000])
    if r < 0.93: return rng.randint(1, 1000)
    return rng.choice([0, 1001, 65535, 65536, 65537, 70000, -1, -3, 2147483647])

def rand_meta(rng, table, ft=None, ncomments=None):
    return {'ft': rng.randrange(9) if ft is None else ft, 'w': rand_width(rng),
            'h': rng.choice([25, 1, 0, 100, 65535, 65536, 70000, rng.randint(1, 400)]),
            'ice': rng.random() < 0.5, 'font': rand_font(rng, table),
            'sauce': None if (rng.random() < 0.1 and ncomments is None) else rand_sauce(rng, ncomments)}

LOOKALIKES = [b'SAUCE', b'SAUCE00', b'COMNT', b'\x1a', b'\x1aSAUCE00', b'\x1aCOMNT', b'COMNT' + b'x' * 64, b'\x1a\x1a',
              b'SAUCE00' + b' ' * 121, b'COMNT' + b' ' * 64 + b'SAUCE00' + b' ' * 75 + b'20240101' + b'\0' * 4 + b'\1\1P\0\x19\0\0\0\0\0\1\0' + b'\0' * 22]

def rand_content(rng):
    r = rng.random()
    n = 0 if r < 0.1 else rng.randint(1, 40) if r < 0.8 else rng.randint(100, 400)
    body = [rng.randrange(256) for _ in range(n)]
    if rng.random() < 0.5:
        body += list(rng.choice(LOOKALIKES))
    return body

def sauce_args(s):
    if s is None: return '0'
    return '1 %s %s %s %d %d %d%s' % (hx(s['title']), hx(s['author']), hx(s['group']), s['ar'], s['ls'], len(s['comments']),
                                      ''.join(' ' + hx(c) for c in s['comments']))

def w_case(kind, m, content):
    # an empty font name cannot travel as `-` (that means "no font"); the harness treats hex "00"-free empty as name ""
    f = '-' if m['font'] is None else ('empty' if m['font'] == '' else hx(m['font'].encode('utf-8')))
    return '%s %d %s %d %d %d %s %s' % (kind, m['ft'], hx(content), m['w'], m['h'], m['ice'], f, sauce_args(m['sauce']))

def coq_wbuf(m):
    s = m['sauce']
    cs = 'None' if s is None else '(Some (mkWSauce %s %s %s [%s] %s %s))' % (
        coq_list(s['title']), coq_list(s['author']), coq_list(s['group']), '; '.join(coq_list(c) for c in s['comments']),
        'true' if s['ar'] else 'false', 'true' if s['ls'] else 'false')
    f = 'None' if m['font'] is None else '(Some %s)' % coq_list([ord(c) for c in m['font']])
    return '(mkWBuf (%d)%%Z (%d)%%Z %s %s %s)' % (m['w'], m['h'], 'true' if m['ice'] else 'false', f, cs)

def record(title=b'', author=b'', group=b'', date=b'20240101', dt=1, ft=1, t1=80, t2=25, nc=0, flags=0, font=b'', fs=0):
    r = (b'SAUCE00' + bytes(title).ljust(35)[:35] + bytes(author).ljust(20)[:20] + bytes(group).ljust(20)[:20] + bytes(date)[:8].ljust(8)
         + fs.to_bytes(4, 'little') + bytes([dt & 255, ft & 255, t1 & 255, (t1 >> 8) & 255, t2 & 255, (t2 >> 8) & 255, 0, 0, 0, 0, nc & 255, flags & 255])
         + bytes(font).ljust(22, b'\0')[:22])
    assert len(r) == 128
    return list(r)

DATE_CASES = [b'20240101', b'20240229', b'20230229', b'19000229', b'20000229', b'00000101', b'99991231', b'20241301', b'20240001',
              b'20240100', b'20240431', b'20240430', b'2023 1 1', b'2023 1 3', b' 2023101', b'  202311', b'20231 15', b'2023115 ',
              b'1 1 1   ', b'1 1 1 23', b'+2023111', b'+999 1 1', b'-999 1 1', b'+99 1 11', b'-1 1 1  ', b'+1 1 1  ', b'- 1 1 1 ',
              b'2023\t1\n1', b'2023\x0b1\x0c1', b'2023\r1 1', b'2023\x1c1 1', b'2023\xc2\xa011', b'2023\xc2\x851 ', b'20\xe2\x80\x8311 ',
              b'20\xe2\x80\xa8 1 ', b'20\xe2\x81\x9f11 ', b'20\xe3\x80\x8011 ', b'20\xe1\x9a\x8011 ', b'20\xe2\x80\x8b11 ', b'2023\xc2\xa111',
              b'2023010\xc2', b'202301\xe2\x80', b'\xff0230101', b'2023-1-1', b'20230101'[::-1], b'        ', b'\0\0\0\0\0\0\0\0', b'2024011 ',
              b'202401 1', b'2024 101', b'20240 01', b'0 1 1   ', b'     111', b'    1111', b'   11111', b'9999 9 9', b'12345678', b'00010101']

def rand_date(rng):
    r = rng.random()
    if r < 0.3: return list(rng.choice(DATE_CASES))
    if r < 0.5:
        return list(b'%04d%02d%02d' % (rng.choice([1900, 2000, 2023, 2024, 2100, rng.randint(0, 9999)]), rng.randint(0, 13), rng.randint(0, 32)))
    alphabet = list(b'0123456789') * 3 + list(b'  \t+-') + [0xc2, 0xa0, 0xe2, 0x80, 0x83, 0x85, 0x41, 0xff]
    return [rng.choice(alphabet) for _ in range(8)]

def reader_inputs(ctx, written, n_random):
    """byte strings for the reader: (label, bytes)"""
    rng = ctx.rng
    out = []
    for data, clen in written:
        out.append(('written', data))
        tail = len(data) - clen
        r = rng.random()
        if r < 0.35:      # truncation at the front (cuts content, EOF, comment block)
            k = rng.choice([clen, clen + 1, clen + 2, clen + 6, max(0, len(data) - 128), max(0, len(data) - 129), max(0, len(data) - 127), rng.randrange(len(data))])
            out.append(('front-trunc', data[min(k, len(data)):]))
        elif r < 0.5:     # truncation at the end
            out.append(('back-trunc', data[:len(data) - rng.randint(1, 130)]))
        elif r < 0.9:     # corrupt one byte of the SAUCE data
            d = list(data)
            pos = len(d) - 128 + rng.choice([0, 4, 5, 6, 7, 41, 42, 82, 85, 89, 90, 93, 94, 95, 96, 97, 98, 99, 104, 105, 106, 127, rng.randrange(128)])
            if rng.random() < 0.3 and tail > 129: pos = clen + rng.randrange(tail - 128)
            d[pos] = rng.choice([0, 1, 2, 5, 6, 8, 9, 32, 48, 255, rng.randrange(256)])
            out.append(('corrupt', d))
        else:             # comment count changed
            d = list(data); d[len(d) - 128 + 104] = rng.choice([0, 1, 2, 255, rng.randrange(256)])
            out.append(('count-changed', d))
    for _ in range(n_random):
        r = rng.random()
        if r < 0.3:       # 128-byte tail starting with SAUCE, rest random
            front = [rng.randrange(256) for _ in range(rng.choice([0, 0, 1, 5, 69, 70, 200]))]
            rec = list(b'SAUCE') + [rng.choice([48, 48, 48, rng.randrange(256)]) for _ in range(2)] + [rng.randrange(256) for _ in range(121)]
            if rng.random() < 0.7: rec[82:90] = rand_date(rng)
            if rng.random() < 0.5: rec[104] = rng.choice([0, 0, 1, 2, 3])
            if rec[104] and rng.random() < 0.6:
                need = 64 * rec[104] + 5
                front = front + [26] + list(b'COMNT') + [rng.randrange(256) for _ in range(need - 5)] if rng.random() < 0.7 else front
            out.append(('sauce-tail', front + rec))
        elif r < 0.6:     # well-formed record with a date-grammar case and odd type bytes
            rec = record(title=bytes(rand_str(rng, 35)), date=bytes(rand_date(rng)), dt=rng.choice([0, 1, 1, 1, 2, 5, 6, 8, 9, 200]),
                         ft=rng.choice([0, 1, 2, 3, 4, 5, 8, 80, 255]), t1=rng.choice([0, 80, 1000, 1001, 65535]), t2=rng.randrange(65536),
                         flags=rng.randrange(256), font=bytes(rand_str(rng, 22)))
            out.append(('date-record', [rng.randrange(256) for _ in range(rng.choice([0, 1, 3]))] + rec))
        elif r < 0.75:
            n = rng.choice([0, 1, 5, 127, 128, 129, 133, 200, 300])
            out.append(('random', [rng.randrange(256) for _ in range(n)]))
        else:             # record announcing n comments in a file too short / just long enough to hold them
            n = rng.choice([1, 1, 2, 3, 255])
            have = rng.choice([0, 1, 4, 5, 63, 64, 68, 69, 70, 64 * n + 4, 64 * n + 5, 64 * n + 6])
            front = [rng.choice([26, 67, 0, 65]) for _ in range(have)]
            if have >= 64 * n + 5 and rng.random() < 0.7: front[have - 64 * n - 5:have - 64 * n] = list(b'COMNT')
            out.append(('short-comments', front + record(nc=n)))
    return out

REGRESSION = [('sauce-only', record()), ('comment-block-and-record-only', list(b'COMNT') + [65] * 64 + record(nc=1)),
              ('eof-and-record', [26] + record()), ('one-byte-content', [65, 26] + record()),
              ('count-without-room', [65] * 68 + record(nc=1)), ('count-255-short', [65] * 300 + record(nc=255))]

def cheap_geometry(d):
    """the record (if any) at the end of d announces a small picture: loading it through a real loader is cheap
    (a record with height 65535 makes set_sauce allocate 65535 rows: resource use is C03's subject, not C11's)"""
    if len(d) < 128: return True
    r = d[len(d) - 128:]
    return r[96] + 256 * r[97] <= 2000 and r[98] + 256 * r[99] <= 1000

# what the reader must answer on the regression inputs: ('some', header_len, ncomments) | ('err', class)
REGRESSION_EXPECT = {'sauce-only': ('some', 128, 0), 'comment-block-and-record-only': ('some', 197, 1), 'eof-and-record': ('some', 129, 0),
                     'one-byte-content': ('some', 129, 0), 'count-without-room': ('err', 'comment-block'), 'count-255-short': ('err', 'comment-block')}

def check_regression(lbl, r):
    want = REGRESSION_EXPECT.get(lbl)
    if want is None or r[0] not in ('ok', 'err'): return None
    if want[0] == 'err':
        return None if r == ('err', want[1]) else 'expected Err(%s), got %s' % (want[1], str(r)[:80])
    if r[0] != 'ok' or r[1][:1] != [1]: return 'expected a SAUCE record, got %s' % (str(r)[:80])
    got = parse_sauce_obs(r[1])
    if (got['header_len'], len(got['comments'])) != want[1:]:
        return 'expected header_len %d with %d comments, got %d with %d' % (want[1], want[2], got['header_len'], len(got['comments']))
    return None

def impl_to_vec(r):
    """implementation result -> the model's observation convention"""
    if r is None: return None
    if r[0] == 'ok': return r[1]
    if r[0] == 'err': return [-1, ERR_CODE.get(r[1], 99)]
    if r[0] == 'panic': return [-2]
    return [-3, r[0]]

def model_vec(v):
    if v is None: return None
    if v[:1] == [-2]: return [-2]
    return v

IMPORTS = 'From IE Require Import Gen.Sauce Model.Sauce Run.RunC11.'

def date_of_tail(r):
    """8 date bytes out of a `w`/`wx` result (tail = [keeps, n, bytes…])"""
    if r and r[0] == 'ok' and len(r[1]) >= 2 and r[1][1] >= 128:
        n = r[1][1]; tail = r[1][2:2 + n]
        return tail[n - 128 + 82:n - 128 + 90]
    return list(b'20240101')

def write_cases(ctx, n, every_count=False):
    table = cp437(ctx.repo)
    rng = ctx.rng
    metas = []
    for i in range(n):
        m = rand_meta(rng, table)
        if rng.random() < 0.03: m['font'] = None
        metas.append((m, rand_content(rng)))
    if every_count:
        for k in range(256):
            metas.append((rand_meta(rng, table, ncomments=k), rand_content(rng)))
    else:
        for k in (1, 2, 254, 255):
            metas.append((rand_meta(rng, table, ncomments=k), rand_content(rng)))
    return metas

def correspondence(ctx):
    table = cp437(ctx.repo)
    metas = write_cases(ctx, ctx.n(150, 2000), every_count=(ctx.thorough or ctx.escalated))
    wcases = [w_case('w', m, c) for m, c in metas]
    wimpl = ctx.impl(wcases)
    dates = [date_of_tail(r) for r in wimpl]
    wexprs = ['run_w %d %s %s %s' % (m['ft'], coq_wbuf(m), coq_list(d), coq_list(c)) for (m, c), d in zip(metas, dates)]
    written = []
    for (m, c), r in zip(metas, wimpl):
        if r and r[0] == 'ok' and r[1][0] == 1:
            written.append((c + r[1][2:2 + r[1][1]], len(c)))
    # keep the reader corpus bounded: all small ones, a sample of the large ones
    small = [w for w in written if len(w[0]) < 1500]
    large = [w for w in written if len(w[0]) >= 1500]
    ctx.rng.shuffle(large)
    rin = reader_inputs(ctx, small[:ctx.n(120, 1800)] + large[:ctx.n(6, 100)], ctx.n(150, 3000))
    rin += [(lbl, d) for lbl, d in REGRESSION] + [('date-case', [26] + record(date=d)) for d in DATE_CASES]
    xcases = ['x ' + hx(d) for _, d in rin]
    xexprs = ['run_xs %s' % coq_list(d) for _, d in rin]
    ximpl = ctx.impl(xcases)
    model = ctx.model(IMPORTS, wexprs + xexprs, timeout=1500)
    nw, nx = len(wexprs), len(xexprs)
    dis = []
    dist = {}
    for c, r, mo in zip(wcases, wimpl, model[:nw]):
        iv, mv = impl_to_vec(r), model_vec(mo)
        if iv is None or mv is None or iv != mv:
            dis.append({'case': c[:4000], 'impl': str(r)[:600], 'model': str(mo)[:600]})
        k = 'write:' + (r[0] if r else 'none') + (':' + str(r[1]) if r and r[0] != 'ok' else '')
        dist[k] = dist.get(k, 0) + 1
    for (lbl, d), c, r, mo in zip(rin, xcases, ximpl, model[nw:nw + nx]):
        iv, mv = impl_to_vec(r), model_vec(mo[2:] if mo else None)
        if iv is None or mv is None or iv != mv:
            dis.append({'case': c[:4000], 'label': lbl, 'impl': str(r)[:600], 'model': str(mo)[:600]})
        cls = 'none' if iv == [0] else 'some' if iv and iv[0] == 1 else 'err%s' % (iv[1] if iv and len(iv) > 1 else '') if iv and iv[0] == -1 else str(iv)
        dist['read:%s:%s' % (lbl, cls)] = dist.get('read:%s:%s' % (lbl, cls), 0) + 1
    # the split of Buffer::from_bytes: the model's content length, checked differentially on the real loader (bin)
    scases = []; sidx = []
    for i, ((lbl, d), mo) in enumerate(zip(rin, model[nw:nw + nx])):
        if mo is None or mo[0] < 0:
            dis.append({'case': 'split ' + hx(d)[:4000], 'impl': 'n/a', 'model': str(mo)}); continue
        if not cheap_geometry(d): continue
        scases.append('split bin %d %s' % (mo[0], hx(d))); sidx.append(i)
    simpl = ctx.impl(scases)
    for c, r in zip(scases, simpl):
        if r is None or r[0] != 'ok' or r[1][0] != 1 or r[1][1] != 2:
            dis.append({'case': c[:4000], 'impl': str(r), 'model': 'from_bytes == load_buffer(data[..k], sauce) with k = model split'})
    dist['split'] = len(scases)
    nontrivial = len({tuple(d) for _, d in rin if len(d) >= 128 and d[len(d) - 128:len(d) - 123] == list(b'SAUCE')}) + len({c for c in wcases})
    return {'cases': len(wcases) + len(xcases) + len(scases), 'disagreements': dis, 'distinct_nontrivial': nontrivial,
            'distribution': dict(sorted(dist.items()), model_errors=getattr(ctx, 'model_errors', [])[:2]),
            'samples': [wcases[0][:300], xcases[0][:300], xcases[-1][:300]]}

# ---- search: the property on the real code ----------------------------------------------------------------
def e2e_cases(ctx, n):
    table = cp437(ctx.repo)
    rng = ctx.rng
    out = []
    for i in range(n):
        ext = list(EXT_FT)[i % 10]
        m = rand_meta(rng, table, ft=EXT_FT[ext])
        if m['sauce'] is None and rng.random() < 0.7: m['sauce'] = rand_sauce(rng)
        if m['sauce'] and len(m['sauce']['comments']) > 12 and rng.random() < 0.8: m['sauce']['comments'] = m['sauce']['comments'][:rng.randint(0, 12)]
        m['h'] = rng.choice([1, 2, 3, 5, 25, 26, 30])
        r = rng.random()
        defaults = {'bin': 160}.get(ext, 80)
        if r < 0.45: m['w'] = defaults
        elif r < 0.9: m['w'] = rng.choice([1, 2, 10, 40, 79, 81, 100, 132, 160, 200, 255, 256, 400, 510, 511, 512, 1000, rng.randint(1, 1000)])
        if ext == 'adf': m['w'] = 80
        if ext in ('adf', 'idf'): m['ice'] = True
        elif rng.random() < 0.6: m['ice'] = False
        if ext == 'icy' and m['w'] * m['h'] > 4000: m['w'] = 80
        m['w'] = max(1, min(1000, m['w']))
        font = rng.choice(['default', 'default', 'default', 'IBM VGA', 'IBM VGA50', 'IBM EGA', 'Amiga Topaz 1', 'my font'])
        if ext in ('adf', 'idf', 'xb') and font in ('IBM VGA50', 'IBM EGA'): font = 'default'
        m['font'] = font
        tail = rng.choice([b'', b'', b'SAUCE', b'SAUCE00', b'COMNT', b'\x1a', b'xSAUCE00', b'COMNTxxx'])
        out.append((ext, m, tail, rng.randrange(1 << 31)))
    return out

def e2e_case_str(ext, m, tail, seed):
    f = 'default' if m['font'] == 'default' else hx(m['font'].encode())
    return 'e2e %s %d %d %d %s %d %s %s' % (ext, m['w'], m['h'], m['ice'], f, seed, hx(tail), sauce_args(m['sauce']))

def check_e2e(table, ext, m, r):
    """returns (signature, detail) or None"""
    if r[0] == 'err':
        cls = r[1]
        if cls.startswith('save:other') or cls.startswith('save-plain:other'): return None     # format refuses this buffer (not SAUCE related)
        if cls == 'save:bin-width' and m['w'] // 2 > 255: return None                           # Bin variant cannot carry the width: refused, not corrupted
        return ('e2e-%s-%s' % (ext, cls.split(':')[0]), 'save/load failed: %s' % cls)
    if r[0] != 'ok':
        return ('e2e-%s-%s' % (ext, r[0]), str(r[1]))
    v = r[1]
    prefix, eof, appended, same_defaults, same_pic, sw, sh, w1, h1, w2, h2, plain_has = v[:12]
    rest = v[12:]
    mm = dict(m)
    if mm['font'] == 'default': mm['font'] = 'Codepage 437 English'
    exp = spec_carried(table, mm)
    if ext != 'icy':
        if not prefix or not eof: return ('e2e-%s-not-appended' % ext, 'file with SAUCE is not content + EOF + SAUCE')
        if appended != exp['header_len']: return ('e2e-%s-appended-length' % ext, 'appended %d bytes, expected %d' % (appended, exp['header_len']))
        if plain_has: return ('e2e-%s-phantom-sauce' % ext, 'content alone loads with SAUCE metadata')
    if ext == 'icy' and m['sauce'] is None:
        return None if rest[:1] == [0] else ('e2e-icy-phantom-sauce', 'buffer without SAUCE loads with SAUCE')
    if rest[:1] != [1]: return ('e2e-%s-metadata-lost' % ext, 'no SAUCE metadata after load')
    got = parse_sauce_obs(rest)
    # buffer_size inside the loaded buffer's SauceData follows the loader's own set_width/set_height: compare the buffer width instead
    for k in ('w', 'h', 'header_len'): exp.pop(k)
    if ext == 'idf': exp.pop('font')      # IDF names its embedded font itself
    bad = compare_carried(exp, got)
    if bad: return ('e2e-%s-metadata-%s' % (ext, bad[0]), 'fields differing from what the variant carries: %s' % bad)
    wexp = (2 * (m['w'] // 2) or 80) if ext == 'bin' else m['w']      # Bin stores w/2; a stored 0 is what the loader treats as 80
    if w1 != wexp: return ('e2e-%s-width' % ext, 'saved width %d loads as %d' % (m['w'], w1))
    if same_defaults and ext != 'icy' and same_pic == 0:
        return ('e2e-%s-picture' % ext, 'picture loaded from content+EOF+SAUCE differs from picture loaded from content alone')
    return None

def check_wx(table, m, cs, r):
    """write -> extract on the real code for metadata m: a failure record, or None"""
    if m['font'] is None:
        if r[0] != 'panic': return {'signature': 'write-without-font', 'input': cs, 'impl': str(r)[:300], 'detail': 'expected the documented unwrap panic'}
        return None
    exp = spec_carried(table, m)
    too_wide = m['ft'] == 7 and (abs(m['w']) // 2) * (1 if m['w'] >= 0 else -1) > 255
    if r[0] == 'err':
        if r[1] == 'bin-width' and too_wide: return None
        return {'signature': 'write-' + r[1].split(':')[0], 'input': cs, 'impl': str(r)[:300], 'detail': 'writer/reader failed on well-formed metadata'}
    if r[0] != 'ok':
        return {'signature': 'write-' + r[0], 'input': cs, 'impl': str(r)[:300], 'detail': 'writer/reader died on well-formed metadata'}
    v = r[1]
    if too_wide: return {'signature': 'bin-width-not-refused', 'input': cs, 'impl': str(v[:8]), 'detail': 'Bin cannot carry this width; the writer must refuse'}
    keeps, n = v[0], v[1]
    rest = v[2 + n:]
    if not keeps: return {'signature': 'content-changed-by-writer', 'input': cs, 'impl': str(v[:8]), 'detail': 'the content is not a prefix of the written file'}
    if rest[:1] != [1]: return {'signature': 'written-sauce-not-found', 'input': cs, 'impl': str(rest[:4]), 'detail': 'extract finds no SAUCE in the written file'}
    got = parse_sauce_obs(rest)
    bad = compare_carried(exp, got)
    if n != exp['header_len']: bad.append('appended-length')
    if got['header_len'] != n: bad.append('cut')
    if bad:
        sig = 'cut-inexact' if 'cut' in bad or 'header_len' in bad else 'roundtrip-' + bad[0]
        return {'signature': sig, 'input': cs, 'impl': str(rest[:14]), 'expected': {k: exp[k] for k in bad if k in exp},
                'detail': 'loaded values differ from what the variant carries: %s' % bad}
    return None

def parse_sauce_args(a):
    if not a or a[0] == '0': return None
    n = int(a[6])
    return {'title': unhx(a[1]), 'author': unhx(a[2]), 'group': unhx(a[3]), 'ar': a[4] == '1', 'ls': a[5] == '1',
            'comments': [unhx(x) for x in a[7:7 + n]]}

def parse_font(f):
    return None if f == '-' else '' if f == 'empty' else 'default' if f == 'default' else bytes(unhx(f)).decode('utf-8', 'replace')

def parse_w_case(c):
    a = c.split()
    m = {'ft': int(a[1]), 'w': int(a[3]), 'h': int(a[4]), 'ice': a[5] == '1', 'font': parse_font(a[6]), 'sauce': parse_sauce_args(a[7:])}
    return m, unhx(a[2])

def parse_e2e_case(c):
    a = c.split()
    m = {'ft': EXT_FT[a[1]], 'w': int(a[2]), 'h': int(a[3]), 'ice': a[4] == '1', 'font': parse_font(a[5]), 'sauce': parse_sauce_args(a[8:])}
    return a[1], m

def search(ctx, broken):
    table = cp437(ctx.repo)
    failures = []
    samples = []
    # 1. write -> extract on the real code, against the property's statement of what the variant carries
    metas = write_cases(ctx, ctx.n(1200, 30000), every_count=True)
    for b in broken:   # inputs on which model and implementation disagreed come first
        d = b.get('detail') or {}
        c = str(d.get('case', '')) if isinstance(d, dict) else ''
        if c.startswith('x '): REGRESSION.insert(0, ('disagreed', unhx(c.split()[1])))
    wcases = [w_case('wx', m, c) for m, c in metas]
    wimpl = ctx.impl(wcases)
    written = []
    for (m, c), cs, r in zip(metas, wcases, wimpl):
        f = check_wx(table, m, cs, r)
        if f: failures.append(f)
        elif r[0] == 'ok' and r[1][0] == 1:
            written.append((c + r[1][2:2 + r[1][1]], len(c)))
    samples.append(wcases[0][:300])
    # 2. exact cut through the real Buffer::from_bytes (bin loader): loading the file == loading content with the extracted SAUCE
    small = [w for w in written if len(w[0]) < 3000][:ctx.n(400, 5000)]
    scases = ['split bin %d %s' % (cl, hx(d)) for d, cl in small if cheap_geometry(d)]
    for c, r in zip(scases, ctx.impl(scases)):
        if r[0] != 'ok' or r[1][0] != 1 or r[1][1] != 2:
            failures.append({'signature': 'from_bytes-cut-inexact' if r[0] == 'ok' else 'from_bytes-' + r[0], 'input': c, 'impl': str(r),
                             'detail': 'Buffer::from_bytes(content+SAUCE) differs from the loader run on the content with the same SAUCE'})
    # 3. no panic on any input: reader and from_bytes on garbled / truncated / random bytes
    rin = [(l, d) for l, d in REGRESSION] + reader_inputs(ctx, small[:ctx.n(300, 3000)], ctx.n(1500, 40000))
    xcases = ['x ' + hx(d) for _, d in rin] + ['split bin %d %s' % (len(d), hx(d)) for _, d in rin[:ctx.n(500, 5000)] if cheap_geometry(d)]
    xcases += ['huge 1 0', 'huge 1 100', 'huge 3 150', 'huge 0 0']
    ximpl = ctx.impl(xcases, per_case_timeout=30, mem_mb=4096)
    for (lbl, d), r in zip(rin, ximpl):
        msg = check_regression(lbl, r)
        if msg: failures.append({'signature': 'regression-' + lbl, 'input': 'x ' + hx(d), 'impl': str(r)[:300], 'detail': msg})
    for c, r in zip(xcases, ximpl):
        if c.startswith('huge') and r[0] in ('oom', 'killed', 'timeout'):
            continue          # the 2 GiB regression file could not be allocated on this machine: not a verdict about the code
        if r[0] not in ('ok', 'err') or (r[0] == 'err' and r[1].startswith('other')):
            failures.append({'signature': 'extract-' + r[0] if c[0] in 'xh' else 'from_bytes-' + r[0], 'input': c[:6000], 'impl': str(r),
                             'detail': 'the SAUCE reader must return None / Some / Err on every byte string'})
        elif c.startswith('huge 1') or c.startswith('huge 3'):
            n = int(c.split()[1])
            if r != ('ok', [1, 129 + 5 + 64 * n, n]):
                failures.append({'signature': 'extract-2GiB-comment-block', 'input': c, 'impl': str(r), 'detail': 'valid comment block in a file of 2 GiB + k bytes'})
    samples.append(xcases[len(REGRESSION)][:300])
    # 4. the ten writers end to end
    ecs = e2e_cases(ctx, ctx.n(400, 6000))
    ecases = [e2e_case_str(*e) for e in ecs]
    cnt = {}
    for e, c, r in zip(ecs, ecases, ctx.impl(ecases, per_case_timeout=30)):
        f = check_e2e(table, e[0], e[1], r)
        if f: failures.append({'signature': f[0], 'input': c[:6000], 'impl': str(r)[:400], 'detail': f[1]})
        k = '%s:%s' % (e[0], 'ok' if r[0] == 'ok' else r[1][:14])
        cnt[k] = cnt.get(k, 0) + 1
    samples.append(ecases[0][:300])
    failures.sort(key=lambda f: len(str(f['input'])))
    ncases = len(wcases) + len(scases) + len(xcases) + len(ecases)
    return {'cases': ncases, 'failures': failures, 'distinct_nontrivial': len(set(wcases)) + len(set(ecases)) + len({tuple(d) for _, d in rin if len(d) >= 128}),
            'samples': samples, 'e2e_outcomes': dict(sorted(cnt.items()))}

def replay(ctx, body):
    """re-run one recorded input on the implementation (and the model where there is one); exit code 0 = passes now"""
    from vlib import driver
    inp = body.get('input')
    print('replay', ID, 'signature:', body.get('signature'), '\ninput:', str(inp)[:400])
    if not isinstance(inp, str):
        print(json.dumps(body, indent=1)[:3000]); return 1
    ok, out = driver.stage_build()
    if not ok:
        print('harness does not build'); return 2
    r = ctx.impl([inp], per_case_timeout=30, mem_mb=4096)[0]
    print('implementation:', str(r)[:1500])
    table = cp437(ctx.repo)
    kind = inp.split()[0]
    if kind == 'x':
        d = unhx(inp.split()[1])
        m = ctx.model(IMPORTS, ['run_xs %s' % coq_list(d)])
        print('model (split length, has sauce, extract observation):', str(m[0])[:1500])
        good = r[0] in ('ok', 'err') and m[0] is not None and impl_to_vec(r) == model_vec(m[0][2:])
        for lbl, dd in REGRESSION:
            if dd == d and check_regression(lbl, r): print('oracle:', check_regression(lbl, r)); good = False
        return 0 if good else 1
    if kind in ('w', 'wx'):
        m, c = parse_w_case(inp)
        if kind == 'w':
            mo = ctx.model(IMPORTS, ['run_w %d %s %s %s' % (m['ft'], coq_wbuf(m), coq_list(date_of_tail(r)), coq_list(c))])
            print('model:', str(mo[0])[:1500])
            return 0 if impl_to_vec(r) == model_vec(mo[0]) else 1
        f = check_wx(table, m, inp, r)
        print('oracle:', f['signature'] + ' - ' + str(f.get('detail')) if f else 'passes')
        return 1 if f else 0
    if kind == 'e2e':
        ext, m = parse_e2e_case(inp)
        f = check_e2e(table, ext, m, r)
        print('oracle:', '%s - %s' % f if f else 'passes')
        return 1 if f else 0
    if kind == 'split':
        good = r[0] == 'ok' and (r[1][:2] == [1, 2] or int(inp.split()[2]) == len(unhx(inp.split()[3])))
        print('oracle:', 'passes' if good else 'from_bytes differs from the loader run on data[..k] / died')
        return 0 if good else 1
    if kind == 'huge':
        n = int(inp.split()[1])
        good = r == ('ok', [1, 129 + (5 + 64 * n if n else 0), n])
        print('oracle:', 'passes' if good else 'wrong answer on a 2 GiB file')
        return 0 if good else 1
    return 1

LEVEL_TEXT = ('Machine-checked proof (Coq, closed under the global context) about a model of SauceData::extract, Buffer::write_sauce_info, '
              'SauceString and the Buffer::from_bytes split that mirrors every slice, index, subtraction and assert of the Rust code: '
              'for EVERY content byte string and every well-formed metadata (any strings within the field widths, 0..=255 comments, all flags, '
              'all nine SauceFileType values, any i32 width/height) the reader returns exactly the explicitly defined `carried` values, '
              'header_len equals the number of appended bytes, and the split returns the content exactly (also when the content ends in '
              'SAUCE/COMNT/EOF look-alikes); extract and the split never panic on ANY byte string; pad-stripping equality is characterised exactly '
              '(NUL-padded strings round-trip iff no NUL precedes a non-blank byte). Constants, field widths, comment arithmetic and the CP437 '
              'table are re-read from the source each run; the hand-written model is tied by differential runs against the real code; '
              'the ten writers are covered end to end by the search oracle (save with SAUCE, load, metadata and picture comparison). '
              'Full level with the date parser (chrono) as an explicit oracle parameter.')
LEVEL_NOTE = ('Trusted: Coq kernel + vm_compute; translator; harness; chrono hand model tied by stage C only (theorems quantify over every date parser). '
              'Four defects fixed in the repo worktree (sauce-only underflow, i32 truncation of the comment block check, IceDraw loader dropping SAUCE, ASCII writer dropping LS/AR flags).')
TECHNIQUE = 'Coq proof (list/offset algebra over an explicit-panic model, loop invariants for SauceString::read and the comment loop) + translator tie + differential correspondence + end-to-end oracle'
