"""C08 — undo restores the document and redo the edit, for every edit history (DESIGN.md section 7 C08, Appendix B)."""
import json
from props import c08gen as G
from props import c08x as X

ID = 'C08'
GENERATORS = ['gen_undo']
COQ_TARGETS = ['Props/C08.vo', 'Run/RunC08.vo', 'Run/RunC08X.vo']
PROPS_MODULE = 'Props.C08'
THEOREMS = [# (1) framework: any document type, any operations, any equivalence
            'interleaving_sound', 'history_sound', 'undo_all_redo_all', 'undo_k_restores', 'redo_k_restores', 'new_edit_clears_redo',
            'atomic_group_sound', 'nested_guard_folds', 'push_action_sound', 'push_plain_sound',
            # (2) the modelled operations of the (fixed) tree
            'eqv_observable', 'undo_operations_sound', 'layer_change_sound', 'area_op_sound', 'area_mutations_stay_inside', 'api_sound',
            'undo_redo_history', 'undo_all_redo_all_modelled',
            # (3) the code before the fix commits refuted the statement
            'layerchange_drops_hidden_refuted', 'setchar_alpha_locked_refuted', 'swap_loses_char_refuted',
            # (4) extension: the full document (palette, fonts, SAUCE, modes) and the remaining undo records
            'xeqv_is_equivalence', 'xeqv_observable', 'lift_sound', 'lift_undoable', 'undo_operations_sound_x', 'x_api_sound', 'x_undo_redo_history',
            'setfont_before_fix_refuted', 'addfont_before_fix_refuted', 'fontslot_before_fix_refuted', 'resize_sauce_size_before_fix_refuted',
            'rowcol_operations_sound', 'rowcol_cells', 'rowcol_before_fix_refuted', 'scroll_area_ud_sound', 'scroll_area_before_fix_refuted']
SWEEP_LEMMAS = []
TRUSTED = ['Coq 8.16.1 kernel + vm_compute (model evaluation); no axioms (Print Assumptions: closed)',
           'translator/gen_undo.py + vlib/rustsrc.py: guard-expression translator and the statement templates that pin Layer::set_char/'
           'restore_char/can_set_char/swap_char/get_char, Line::set_char/create, push_undo_action, push_plain_undo, begin_typed_atomic_undo, '
           'AtomicUndoGuard::{new,end_action,drop}, UndoState::{undo,redo}, AtomicUndo::{undo,redo}',
           'hand-written Model/EditModel.v, Model/EditOps.v (layer document) and Model/DocModel.v, Model/DocOps.v (full document: palette, font table, '
           'SAUCE, modes, selection mask and every remaining undo record), tied to src/editor/*.rs, src/layer.rs, src/buffers.rs, src/overlay_mask.rs by the '
           'differential runs of stage C (raw `lines` of every layer, palette, font table, SAUCE record, modes, selection, mask after every step)',
           'parameters the model takes from the implementation through harness probes (c08flip, c08flipf, c08probe): flip-x / flip-y character maps per font, '
           'DOS_DEFAULT_PALETTE, the font behind each ANSI font page / SAUCE font name (as an opaque id = hash of name, size, glyphs), ROTATE_TABLE; '
           'the theorems hold for EVERY value of these parameters',
           'harness/src/c08.rs (snapshot comparer, history runner, minimiser) and props/c08.py (signature of a failing minimised history; no known class is left)']
UNMODELLED = ['per-operation soundness is NOT proved (stage S only: the oracle runs them on the real code) for: add_floating_layer, '
              'update_layer_properties, paste_sixel, add_font / set_font with an arbitrary BitFont',
              'outside the model (Err 99, skipped by stage C, run by stage S): replace_font_usage / change_font_slot from font page 0 to another page '
              '(changes Layer::default_font_page, which the layer model fixes to 0); merge_layer_down of a cell with a TRANSPARENT_COLOR colour over a '
              'visible cell (Buffer::make_solid_color)',
              'not part of the Coq document: sixels, hyperlinks, layer transparency / colour / preview offset, the caret attribute (set_ice_mode rewrites it), '
              'buffer_type, terminal state; the caret font page, selection and selection mask are modelled as non-document state (not compared by xeqv, '
              'compared by stage C)',
              'undo/redo while an AtomicUndoGuard is still open; push_reverse_undo / undo_caret_position (no public caller can build the operations)']
ASSUMPTIONS = ['no i32 overflow in coordinate arithmetic (the model computes in Z)',
               'layers carry no sixels / hyperlinks / preview offset and default_font_page = 0 (true for every document the checks build)',
               'colours of cells are palette indices below 2^31 (no TRANSPARENT_COLOR / direct RGB flag), as in every document the checks build',
               'an operation that reports Err or panics is not part of the history (the oracle restarts the history without it)']
RULE = ('a case is one history: a document (buffer 6x4 .. 80x25; 1..3 layers with full/ragged/empty rows, offsets incl. negative, visible/hidden/locked/'
        'position-locked/alpha-locked/has-alpha flags, optional SAUCE record) and a sequence of public editing operations with in-range and boundary '
        'parameters (plus the controls caret / current layer / mirror mode). Stage S: a fixed list of directed histories (all repaired defects and '
        'former known classes as regression cases), every history of length 1 and 2 (thorough: also 3) over a fixed alphabet of 70 parameterised operations, and seeded random '
        'histories of length <= 40; operations that do not report Ok are dropped with a restart; the oracle undoes everything (comparing after every '
        'step with the snapshot recorded when the undo stack had that length), redoes everything, walks randomly over undo/redo incl. the no-op ends, '
        'and checks that an edit after undos empties the redo stack. Stage C: documents with explicit raw rows (incl. content outside `size`) and '
        'histories of the modelled operations interleaved with undo/redo; model and implementation are compared on the raw `lines` of every layer '
        'after every step, histories that stop at a failing operation are re-run without it. Stage C, full document (props/c08x.py): the same '
        'documents plus ice / palette / font mode, SAUCE record (matching or not), extra font slots, caret font page; histories over the liftable layer '
        'operations and every operation of Model/DocOps.v (palette, SAUCE, fonts, modes, merge, stamp, paste with explicit cells, anchor, crop, resize with '
        'layers, mask operations incl. enumerate_selections with a fixed callback, rotate, insert/delete row/column, scroll up/down over the whole and over part of the layer width) with undo/redo; '
        'compared on layers + palette + font table + SAUCE + modes + selection + mask after every step. Non-trivial = at least two operations applied.')

CODE = {1: 'undo-err', 2: 'undo-panic', 3: 'undo-mismatch', 4: 'redo-err', 5: 'redo-panic', 6: 'redo-mismatch', 7: 'stack-length',
        8: 'redo-survives-edit', 9: 'silent-change', 10: 'walk-mismatch', 11: 'walk-err'}
CAT = {1: 'buffer-size', 2: 'modes', 3: 'palette', 4: 'fonts', 5: 'sauce', 6: 'layer-count', 7: 'layer-properties', 8: 'title',
       9: 'layer-size', 10: 'offset', 11: 'cell'}

# ---------------------------------------------------------------------------------------------------------------
# No known class is left (known_findings.d/C08.json: every entry is `fixed`): every failing minimised history is a VIOLATION.
def classify(code, cat, names):
    """signature of a failing minimised history: failure kind / category : the operations of the minimised history"""
    kind = CODE.get(code, 'code%d' % code)
    return 'C08-%s%s:%s' % (kind, ('/' + cat) if cat else '', '+'.join(sorted(set(names))))

# ---------------------------------------------------------------------------------------------------------------
# stage S
def hist_case(seed, doc, ops):
    return 'c08hist %d %s | %s' % (seed, doc, ' ; '.join(ops))

DIRECTED = [
    # the probe witness of DESIGN.md (fixed: UndoLayerChange) and its relatives
    ('B 80 25 0 1 0 0 L 80 25 0 0 1 0 1 1', ['setc 70 20 81 7 0 0 0', 'lsize 0 40 10', 'flipx']),
    ('B 12 8 0 1 0 0 L 12 8 0 0 1 0 2 5', ['setc 10 6 81 7 0 0 0', 'lsize 0 6 4', 'jleft']),
    ('B 12 8 0 1 0 0 L 12 8 0 0 1 0 2 5 L 6 4 2 1 25 0 2 9 P 1 0 0 0', ['sel 3 2 6 4 0', 'flipx']),
    ('B 12 8 0 1 0 0 L 12 8 0 0 1 0 2 5 L 6 4 2 1 25 0 2 9 P 1 0 0 0', ['setc 1 1 32 7 0 32768 0']),
    ('B 12 8 0 1 0 0 L 12 8 0 0 1 0 2 5', ['swap 1 1 -1 3']),
    ('B 12 8 0 1 0 0 L 12 8 0 0 1 0 2 5', ['sel 4 2 9 6 0', 'center']),
    ('B 12 8 0 1 0 0 L 12 8 0 0 1 0 0 5', ['scrdown']),
    ('B 12 8 0 1 0 0 L 12 8 0 0 1 0 3 5', ['scrup', 'jleft']),
    ('B 12 8 0 1 0 0 L 12 8 0 0 1 0 2 5 L 6 4 2 1 17 0 2 9 P 1 0 0 0', ['clearl 1', 'transp']),
    ('B 6 4 0 1 0 0 L 6 2 1 1 16 0 3 21756 L 6 2 2 2 25 2 3 6951 L 6 2 -2 0 17 0 2 29405 P 2 0 5 0', ['stampdown']),
    # witnesses of the former known classes (all repaired: regression cases)
    ('B 12 8 0 1 0 2 L 12 8 0 0 1 0 2 5', ['resize 0 6 4']),
    ('B 12 8 0 1 3 0 L 12 8 0 0 1 0 2 5', ['addfont 0']),
    ('B 12 8 0 1 3 0 L 12 8 0 0 1 0 2 5', ['fontpage 2', 'setfont 1']),
    ('B 12 8 0 1 3 0 L 12 8 0 0 1 0 2 5 F 2 5 F 3 6', ['fontslot 2 3']),
    ('B 12 8 0 1 0 0 L 12 8 0 0 1 0 2 5', ['sel 2 1 5 2 0', 'scrup']),
    ('B 12 8 0 1 0 0 L 12 8 0 0 1 0 2 5', ['sel 2 1 5 2 0', 'scrdown']),
    ('B 12 8 0 1 0 0 L 12 8 0 0 1 0 2 5', ['sel 2 1 5 4 0', 'scrup', 'scrdown', 'scrdown', 'sel 0 3 3 4 0', 'scrup']),
    ('B 12 8 0 1 0 2 L 12 8 0 0 1 0 2 5', ['croprect 1 1 6 4', 'resize 1 5 3', 'sauce 1 40 20', 'resize 0 9 9']),
    ('B 12 8 0 1 3 0 L 12 8 0 0 1 0 2 5 F 2 5', ['fontpage 3', 'setfont 1', 'saucefont 1', 'addfont 2', 'addfont 2', 'fontslot 2 0', 'fontslot 0 3']),
    ('B 12 8 0 1 0 0 L 12 8 0 0 1 0 0 5', ['jleft', 'delcol', 'palmode 0']),
    # insert / delete row and column with HIDDEN content (rows and columns stored outside `size`): every stored row takes part in redo and undo
    ('B 80 25 0 1 0 0 L 80 25 0 0 1 0 2 7', ['lsize 0 80 20', 'inscol']),
    ('B 80 25 0 1 0 0 L 80 25 0 0 1 0 2 7', ['lsize 0 80 20', 'caret 5 3', 'delcol']),
    ('B 80 25 0 1 0 0 L 80 25 0 0 1 0 2 7', ['lsize 0 60 20', 'caret 70 22', 'inscol', 'delcol', 'insrow', 'delrow']),
    ('B 12 8 0 1 0 0 L 12 8 0 0 1 0 4 5', ['caret 2 1', 'inscol']),
    ('B 12 8 0 1 0 0 L 12 8 0 0 1 0 4 5', ['caret 2 1', 'delcol']),
    ('B 12 8 0 1 0 0 L 12 8 0 0 1 0 4 5', ['caret 2 1', 'insrow']),
    ('B 12 8 0 1 0 0 L 12 8 0 0 1 0 4 5', ['caret 2 1', 'delrow']),
    ('B 12 8 0 1 0 0 L 12 8 0 0 1 0 4 5', ['caret 13 8', 'inscol', 'delrow', 'delcol', 'insrow']),
    ('B 12 8 0 1 0 0 L 12 8 0 0 1 0 2 5', ['lsize 0 6 4', 'caret 2 1', 'inscol', 'delcol', 'insrow', 'delrow']),
    ('B 12 8 0 1 0 0 L 12 8 0 0 1 0 2 5', ['lsize 0 6 4', 'caret 8 6', 'delcol', 'delrow', 'lsize 0 12 8']),
    ('B 12 8 0 1 0 0 L 12 8 0 0 1 0 3 5', ['resize 0 6 4', 'lsize 0 5 3', 'caret 1 1', 'insrow', 'inscol']),
]

def search(ctx, broken):
    rng = ctx.rng
    cases = []; meta = []
    def add(doc, ops, kind, seed=None):
        cases.append(hist_case(rng.randrange(1000) if seed is None else seed, doc, ops)); meta.append((doc, ops, kind))
    for doc, ops in DIRECTED: add(doc, ops, 'directed', seed=0)
    # inputs on which model and implementation disagreed come first
    for b in broken:
        d = b.get('detail') or {}
        if isinstance(d, dict) and isinstance(d.get('hist'), list):
            add(d['doc_s'], [o for o in d['hist'] if o not in ('U', 'R')], 'from-correspondence')
    # exhaustive short histories over the fixed alphabet
    deep = ctx.thorough or ctx.escalated
    exdocs = ['B 12 8 0 1 3 1 L 12 8 0 0 1 0 2 5 L 6 4 2 1 17 0 2 9 P 1 0 2 1',
              'B 12 8 0 1 0 0 L 12 8 0 0 1 0 3 7 L 8 5 -1 2 25 0 2 3 L 5 3 7 5 19 0 2 4 P 0 0 1 1']
    alpha = G.alphabet(12, 8)
    n_ex = 0
    for doc in (exdocs if deep else exdocs[:1]):
        for a in alpha:
            add(doc, [a], 'exhaustive-1'); n_ex += 1
        for a in alpha:
            for b in alpha:
                add(doc, [a, b], 'exhaustive-2'); n_ex += 1
    if ctx.thorough:
        # length 3: the two slow operations (flip tables are rebuilt from the glyphs on every call) appear at most once
        skip3 = {'flipy', 'reml 1', 'clearl 1', 'togvis 1', 'sel 0 0 12 8 0', 'sel 2 0 4 8 2', 'ice 2', 'palmode 3', 'caret 11 7', 'cur 0', 'jlineright',
                 'erasecol_e', 'scrdown', 'scrright', 'fontpage 1', 'addfont 2', 'lsize 0 14 9', 'resize 1 15 9', 'setc 11 7 66 14 1 0 0'}
        a3 = [a for a in alpha if a not in skip3]
        doc = exdocs[0]
        for a in a3:
            for b in a3:
                for c in a3:
                    if (a == 'flipx') + (b == 'flipx') + (c == 'flipx') > 1: continue
                    add(doc, [a, b, c], 'exhaustive-3'); n_ex += 1
    # random histories
    n_rand = ctx.n(1500, 8000) if not ctx.thorough else 25000
    for _ in range(n_rand):
        doc, (w, h, nl) = G.gen_doc(rng)
        add(doc, G.gen_history(rng, w, h, rng.choice([4, 8, 12, 20, 40])), 'random')
    impl = ctx.impl(cases, per_case_timeout=120)
    failures = []
    nontriv = 0; kept_total = 0; classes = {}
    for c, (doc, ops, kind), r in zip(cases, meta, impl):
        if r is None or r[0] != 'ok':
            failures.append({'signature': 'C08-harness-%s' % (r[0] if r else 'none'), 'input': c, 'impl': list(r) if r else None,
                             'detail': 'the history runner itself died (%s)' % (r[1] if r else '')})
            continue
        v = r[1]
        if v[0] == 0:
            kept_total += v[1]
            if v[1] >= 2: nontriv += 1
            continue
        code, step, nmin = v[0], v[1], v[2]
        idx = v[3:3 + nmin]; det = v[3 + nmin:]
        names = [G.op_name(ops[i]) for i in idx]
        cat = CAT.get(det[0], '') if code in (3, 6, 9, 10) and det else ''
        sig = classify(code, cat, [n for n in names if n not in ('caret', 'cur', 'mirror')])
        classes[sig] = classes.get(sig, 0) + 1
        failures.append({'signature': sig, 'input': hist_case(int(c.split()[1]), doc, [ops[i] for i in idx]),
                         'impl': v[:3] + det, 'expected': 'undo/redo restore the recorded snapshots',
                         'detail': '%s at step %d%s; minimised from a history of %d operations (%s)' % (
                             CODE.get(code, code), step, (' in ' + cat + ' %r' % det[1:]) if cat else '', len(ops), kind)})
    failures.sort(key=lambda f: len(str(f['input'])))
    return {'cases': len(cases), 'failures': failures, 'distinct_nontrivial': nontriv, 'exhaustive_short_histories': n_ex,
            'random_histories': n_rand, 'operations_applied': kept_total, 'failure_classes': classes,
            'samples': [cases[0], cases[len(DIRECTED) + 5], cases[-1]]}

# ---------------------------------------------------------------------------------------------------------------
# stage C: the modelled subset, raw document after every step
C_CELLS = [(65, 7, 0, 0, 0), (66, 14, 1, 0, 0), (112, 2, 0, 0, 0), (113, 3, 0, 0, 1), (47, 9, 4, 0, 0), (92, 9, 4, 0, 0), (32, 7, 0, 0, 0),
           (32, 7, 3, 0, 0), (0, 7, 0, 0, 0), (220, 12, 0, 0, 0), (223, 12, 0, 0, 0), (221, 1, 7, 0, 0), (179, 7, 0, 0, 0),
           (32, 7, 0, 0, 32768), (88, 5, 2, 0, 32768), (77, 7, 0, 0, 0)]

def enc(ch, fg, bg, fp, attr):
    return ch | (fg << 21) | (bg << 29) | (fp << 37) | (attr << 41)

def c_cell(rng, fp1=False):
    ch, fg, bg, fp, attr = rng.choice(C_CELLS)
    if fp1 and rng.random() < 0.2: fp = 1
    return enc(ch, fg, bg, fp, attr)

def c_doc(rng):
    w, h = rng.choice([(6, 4), (6, 4), (8, 5), (5, 3)])
    nl = rng.choice([1, 1, 2, 2, 3])
    fp1 = rng.random() < 0.04
    layers = []
    for k in range(nl):
        if k == 0 and rng.random() < 0.6: lw, lh, ox, oy = w, h, 0, 0
        else:
            lw, lh = rng.choice([w, w - 2, w + 1, 3, 1]), rng.choice([h, h - 1, h + 1, 2, 1])
            ox, oy = rng.choice([0, 0, 1, -1, 2, -2]), rng.choice([0, 0, 1, -1])
        fl = rng.choice(G.FLAGS)
        mode = rng.choice([0, 0, 0, 1, 2])
        style = rng.choice(['full', 'full', 'ragged', 'empty', 'hidden'])
        rows = []
        if style != 'empty':
            nr = lh if style == 'full' else (lh + 1 if style == 'hidden' else rng.randrange(lh + 1))
            for _ in range(nr):
                ln = lw if style == 'full' else (lw + 2 if style == 'hidden' else rng.randrange(lw + 1))
                rows.append([c_cell(rng, fp1) if rng.random() < 0.6 else enc(32, 7, 0, 0, 32768) for _ in range(ln)])
        layers.append((lw, lh, ox, oy, fl, mode, rows))
    cur = rng.randrange(nl); mir = 1 if rng.random() < 0.15 else 0
    cx, cy = rng.randrange(w), rng.randrange(h)
    return (w, h, layers, cur, mir, cx, cy)

def doc_text(d):
    w, h, layers, cur, mir, cx, cy = d
    t = ['B', w, h, 0, 1, 0, 0]
    for (lw, lh, ox, oy, fl, mode, rows) in layers:
        t += ['X', lw, lh, ox, oy, fl, mode, len(rows)]
        for r in rows: t += [len(r)] + r
    t += ['P', cur, mir, cx, cy]
    return ' '.join(map(str, t))

def zs(v):
    return '(%d)' % v if v < 0 else str(v)

def doc_coq(d):
    w, h, layers, cur, mir, cx, cy = d
    ls = '; '.join('(%s, %s, %s, %s, %d, %d, [%s])' % (zs(lw), zs(lh), zs(ox), zs(oy), fl, mode,
                   '; '.join('[%s]' % '; '.join(map(str, r)) for r in rows)) for (lw, lh, ox, oy, fl, mode, rows) in layers)
    return '(%d, %d, [%s], %d, %d, %d, %d)' % (w, h, ls, cur, mir, cx, cy)

C_OPS = ['setc', 'setc', 'setc', 'setc', 'swap', 'swap', 'resize0', 'addl', 'reml', 'raise', 'lower', 'dup', 'clearl', 'togvis', 'togvis',
         'movel', 'lsize', 'lsize', 'sel', 'sel', 'sel', 'clrsel', 'desel', 'erase', 'flipx', 'flipy', 'jleft', 'jright', 'center', 'center',
         'transp', 'transp', 'centerline', 'jlineleft', 'jlineright', 'eraserow', 'eraserow_s', 'eraserow_e', 'erasecol', 'erasecol_s', 'erasecol_e',
         'caret', 'caret', 'cur', 'cur', 'mirror', 'U', 'U', 'U', 'U', 'U', 'U', 'R', 'R', 'R']

def c_op(rng, w, h):
    f = rng.choice(C_OPS)
    x = lambda: rng.choice([0, 1, 2, w // 2, w - 1, w, -1])
    y = lambda: rng.choice([0, 1, h // 2, h - 1, h, -1])
    li = lambda: rng.choice([0, 0, 1, 1, 2, 3])
    if f == 'setc': return ('setc', [x(), y(), c_cell(rng)])
    if f == 'swap': return ('swap', [x(), y(), x(), y()])
    if f == 'resize0': return ('resize0', [rng.choice([w, w // 2, w + 2, 1, -1]), rng.choice([h, h + 1, 2, 0])])
    if f in ('addl', 'reml', 'raise', 'lower', 'dup', 'clearl', 'togvis', 'cur'): return (f, [li()])
    if f == 'movel': return ('movel', [rng.choice([0, 1, -1, 3]), rng.choice([0, 1, -2])])
    if f == 'lsize': return ('lsize', [li(), rng.choice([w, w // 2, w + 2, 1, 0, -1]), rng.choice([h, h // 2, h + 1, 1, 0])])
    if f == 'sel':
        x1, y1 = rng.choice([0, 0, 1, 2, -1, w]), rng.choice([0, 0, 1, -1])
        return ('sel', [x1, y1, x1 + rng.choice([1, 2, 3, w, w + 2, 0, -2]), y1 + rng.choice([1, 2, h, h + 1, 0]), rng.choice([0, 0, 1, 2])])
    if f == 'caret': return ('caret', [x(), y()])
    if f == 'mirror': return ('mirror', [rng.randrange(2)])
    return (f, [])

H_NAME = {'resize0': 'resize 0'}
C_NAME = {'setc': 'SSetc', 'swap': 'SSwap', 'resize0': 'SResize', 'addl': 'SAddl', 'reml': 'SReml', 'raise': 'SRaise', 'lower': 'SLower',
          'dup': 'SDup', 'clearl': 'SClearl', 'togvis': 'STogvis', 'movel': 'SMovel', 'lsize': 'SLsize', 'sel': 'SSel', 'clrsel': 'SClrsel',
          'desel': 'SDesel', 'erase': 'SErase', 'flipx': 'SFlipx', 'flipy': 'SFlipy', 'jleft': 'SJleft', 'jright': 'SJright',
          'center': 'SCenter', 'transp': 'STransp', 'centerline': 'SCenterLine', 'jlineleft': 'SJLineLeft', 'jlineright': 'SJLineRight',
          'eraserow': 'SEraseRow', 'eraserow_s': 'SEraseRowS', 'eraserow_e': 'SEraseRowE', 'erasecol': 'SEraseCol',
          'erasecol_s': 'SEraseColS', 'erasecol_e': 'SEraseColE', 'caret': 'SCaret', 'cur': 'SCur', 'mirror': 'SMirror', 'U': 'SU', 'R': 'SR'}

def op_text(op):
    f, a = op
    if f == 'setc':
        c = a[2]
        return 'setc %d %d %d %d %d %d %d' % (a[0], a[1], c & 0x1FFFFF, (c >> 21) & 255, (c >> 29) & 255, (c >> 41) & 65535, (c >> 37) & 15)
    return ' '.join([H_NAME.get(f, f)] + [str(v) for v in a])

def op_coq(op):
    f, a = op
    return ' '.join([C_NAME[f]] + [zs(v) for v in a]) if a else C_NAME[f]

def trace_case(d, ops):
    return 'c08trace %s | %s' % (doc_text(d), ' ; '.join(op_text(o) for o in ops))

def trace_expr(d, ops):
    return 'run_trace FX FY %s [%s]' % (doc_coq(d), '; '.join(op_coq(o) for o in ops))

def split_blocks(v):
    """number of complete observation blocks in a trace and the trailing failure code (or None)"""
    i = 0; n = 0
    while i < len(v):
        if v[i] != 0: return n, v[i]
        nl = v[i + 5]; i += 6
        for _ in range(nl):
            nlines = v[i + 9]; i += 10
            for _ in range(nlines): i += 1 + v[i]
        n += 1
    return n, None

def flip_tables(ctx):
    r = ctx.impl(['c08flip'], per_case_timeout=60)[0]
    if r[0] != 'ok' or len(r[1]) != 512: raise RuntimeError('flip table probe failed: %r' % (r,))
    return r[1][:256], r[1][256:]

def model_imports(fx, fy):
    return ('From IE Require Import Run.RunC08.\nLocal Open Scope Z_scope.\n'
            'Definition FX : list Z := [%s].\nDefinition FY : list Z := [%s].' % ('; '.join(map(str, fx)), '; '.join(map(str, fy))))

C_DIRECTED = [
    ((6, 4, [(6, 4, 0, 0, 1, 0, [])], 0, 0, 0, 0), [('setc', [5, 3, enc(81, 7, 0, 0, 0)]), ('lsize', [0, 3, 2]), ('flipx', []), ('U', []), ('U', []), ('U', []), ('R', []), ('R', []), ('R', [])]),
    ((6, 4, [(6, 4, 0, 0, 1, 0, []), (4, 3, 1, 1, 25, 0, [[enc(65, 7, 0, 0, 0), enc(32, 7, 0, 0, 32768), enc(66, 7, 0, 0, 0)]])], 1, 0, 0, 0),
     [('sel', [1, 1, 4, 2, 0]), ('flipx', []), ('setc', [0, 0, enc(32, 7, 0, 0, 32768)]), ('swap', [0, 0, 1, 0]), ('U', []), ('U', []), ('U', []), ('R', []), ('R', [])]),
    ((6, 4, [(6, 4, 0, 0, 1, 0, [[enc(112, 7, 0, 0, 0), enc(47, 7, 0, 0, 0)]])], 0, 1, 0, 0),
     [('setc', [1, 0, enc(77, 7, 0, 0, 0)]), ('sel', [2, 0, 6, 3, 0]), ('center', []), ('jright', []), ('U', []), ('U', []), ('U', []), ('U', []), ('R', []), ('R', []), ('R', []), ('R', [])]),
]

def correspondence(ctx):
    rng = ctx.rng
    fx, fy = flip_tables(ctx)
    hist = list(C_DIRECTED)
    for _ in range(ctx.n(300, 2000)):
        d = c_doc(rng)
        n = rng.choice([3, 6, 10, 16])
        hist.append((d, [c_op(rng, d[0], d[1]) for _ in range(n)]))
    dis = []; total = 0; nontriv = set(); opcount = {}; outcomes = {'all-ok': 0, 'err': 0, 'panic': 0}
    model_errors = []
    for rnd in range(3):
        if not hist: break
        cases = [trace_case(d, ops) for d, ops in hist]
        exprs = [trace_expr(d, ops) for d, ops in hist]
        impl = ctx.impl(cases, per_case_timeout=60)
        model = ctx.model(model_imports(fx, fy), exprs, timeout=900)
        model_errors += getattr(ctx, 'model_errors', [])[:1]
        nxt = []
        for (d, ops), c, r, m in zip(hist, cases, impl, model):
            total += 1
            a = r[1] if (r is not None and r[0] == 'ok') else None
            if a is None or m is None or a != m:
                k = 0
                if a is not None and m is not None:
                    while k < min(len(a), len(m)) and a[k] == m[k]: k += 1
                dis.append({'case': c[:600], 'hist': [op_text(o) if o[0] not in ('U', 'R') else o[0] for o in ops], 'doc_s': doc_text(d),
                            'impl': (a[max(0, k - 6):k + 6] if a is not None else r), 'model': (m[max(0, k - 6):k + 6] if m is not None else None),
                            'first_difference_at': k})
                continue
            nb, code = split_blocks(a)
            for o in ops[:nb - 1 + (1 if code else 0)]: opcount[o[0]] = opcount.get(o[0], 0) + 1
            if code is None:
                outcomes['all-ok'] += 1
                if len(ops) >= 2: nontriv.add(c)
            else:
                outcomes['err' if code == 1 else 'panic'] += 1
                # same history without the step that did not report Ok: goes one round deeper
                k = nb - 1
                nxt.append((d, ops[:k] + ops[k + 1:]))
        hist = nxt
    import sys
    xr = X.correspondence_x(ctx, sys.modules[__name__], ctx.n(250, 1500))
    return {'cases': total + xr['cases'], 'disagreements': dis + xr['disagreements'], 'distinct_nontrivial': len(nontriv) + xr['distinct_nontrivial'],
            'distribution': {'layer_document': {'cases': total, 'steps_by_operation': opcount, 'outcomes': outcomes, 'model_errors': model_errors[:2]},
                             'full_document': dict(xr['distribution'], cases=xr['cases'])},
            'samples': [trace_case(*C_DIRECTED[0])[:300], X.xtrace_case(X.X_DIRECTED[0][0], X.X_DIRECTED[0][1], sys.modules[__name__])[:300]]}

def replay(ctx, body):
    from vlib import driver
    inp = body.get('input')
    print('replay', ID, inp)
    ok, out = driver.stage_build()
    if not isinstance(inp, str) or not inp.startswith('c08hist '):
        print(json.dumps(body, indent=1)); return 1
    r = ctx.impl([inp], per_case_timeout=120)[0]
    print('implementation (0 = property holds on this history | code step n_min indices… detail…):', r)
    good = r[0] == 'ok' and r[1][0] == 0
    if not good and r[0] == 'ok':
        v = r[1]; print('  %s at step %d' % (CODE.get(v[0], v[0]), v[1]))
    return 0 if good else 1

LEVEL_TEXT = ('Machine-checked proof (Coq, closed under the global context), PARTIAL. (1) Framework, fully general: for ANY document '
              'type, undo-operation type (payloads may be re-captured), and observational equivalence, a model of push_undo_action / push_plain_undo / '
              'nested AtomicUndoGuard folding / undo / redo with a zipper invariant; theorems history_sound and interleaving_sound: after any sequence '
              'of sound edits, EVERY interleaving of undo and redo steps succeeds and lands on the entry of one fixed timeline the walk points at '
              '(k undos = k steps back, k redos = k steps forward), undo_all_redo_all, new_edit_clears_redo, atomic groups (nested) are sound. '
              '(2) Layer document (buffer size, layers with every stored cell): per-operation soundness and undo_redo_history for set_char (incl. mirror '
              'mode), swap_char, add/remove/raise/lower/duplicate/clear layer, toggle visibility, move layer, set layer size, resize buffer, selection '
              'set/clear/deselect, erase selection, make layer transparent, the nine row/column wrappers and ALL snapshot-frame area operations '
              '(justify left/right, center, flip x/y), on the tree with twelve small fix commits. '
              '(3) Extension, FULL document (layer document + palette, font table, SAUCE record, ice/palette/font mode; caret font page and selection mask '
              'as extra state): everything of (2) is lifted, and per-operation soundness + the composed theorem x_undo_redo_history (every interleaving of '
              'undo/redo after any history of modelled operations; no known class is left) now also cover switch_to_palette, '
              'update_sauce_data, switch_to_font_page, set_ansi_font / set_sauce_font, add_ansi_font, remove_font, change_font_slot, replace_font_usage, '
              'set_ice_mode and set_palette_mode (for any conversion), merge_layer_down, anchor_layer, stamp_layer_down, paste_clipboard_data, '
              'resize_buffer with layers, crop, crop_rect, add_selection_to_mask, inverse_selection, enumerate_selections, clear/erase selection and the '
              'wrappers reading the selection mask, flip x/y with the maps of the font table, rotate_layer, scroll_area_up/down (whole layer width and '
              'part of it), scroll_area_left/right, insert/delete row and column. The six former known classes (set font recording slot 0, add font / '
              'change font slot onto an occupied slot, resize/crop with a SAUCE record of another size, row/column undo on the raw shape of `lines`, '
              'one-row scroll area) were repaired by fix commits; the theorems carry no exclusion any more and a `*_before_fix_refuted` theorem per '
              'repaired record shows the old behaviour on a witness. '
              '(4) NOT proved (oracle on the real code only): add_floating_layer, layer properties, sixels, fonts given as arbitrary BitFont values. '
              'No known finding is left for this property.')
LEVEL_NOTE = ('Trusted: Coq kernel + vm_compute; translator/gen_undo.py (guard expressions of Layer::set_char/restore_char/can_set_char/get_char and '
              'AtomicUndoGuard::drop are translated, the statement skeletons of the layer primitives and of the undo machinery in editor/mod.rs are '
              'pinned token for token); the hand-written operation models (layer document and full document), tied by differential traces on raw layer content, palette, fonts, '
              'SAUCE, modes, selection and mask after every step; parameters read from the implementation by probes (flip maps per font, DOS palette, font ids, '
              'rotate table) over which the theorems quantify; '
              'the stage S oracle (every failing minimised history is a violation: no known class is left). Model arithmetic is in Z (no i32 overflow).')
TECHNIQUE = ('Coq proof: greatest-fixpoint soundness relation for undo records (explicit invariant pair), zipper invariant by induction over the '
             'interleaving, observational congruence of every layer primitive; translator tie for guards; differential traces; oracle on the real code')
