"""C15 — Avatar, PCBoard, Ctrl-A, Renegade, ASCII, ATASCII files parse back as saved (DESIGN.md section 7, C15)."""
import json

ID = 'C15'
GENERATORS = ['gen_codepage', 'gen_textfmt']
COQ_TARGETS = ['Props/C15.vo', 'Run/RunC15.vo']
PROPS_MODULE = 'Props.C15'
THEOREMS = []
SWEEP_LEMMAS = []
TRUSTED = []
UNMODELLED = []
ASSUMPTIONS = []
RULE = ''
LEVEL_TEXT = ''
LEVEL_NOTE = ''
TECHNIQUE = ''

FMTS = ['pcb', 'avt', 'msg', 'an1', 'asc', 'ata']
FIDX = {f: i for i, f in enumerate(FMTS)}
WIDTH = {'pcb': 80, 'avt': 80, 'msg': 80, 'an1': 80, 'asc': 80, 'ata': 40}
ANSI_CTL = {7, 10, 12, 13, 27, 127}
LEADIN = {'pcb': {64}, 'avt': {22, 25, 12}, 'msg': {1}, 'an1': {124}, 'asc': set(), 'ata': set()}

def domain_chars(fmt):
    """content characters of the property's quantifier, per parser (see notes/C15.md)"""
    if fmt == 'asc':
        return [c for c in range(1, 255) if c not in {7, 8, 10, 12, 13, 127}]
    if fmt == 'ata':
        return [c for c in range(0, 128) if c not in {27, 28, 29, 30, 31, 125, 126, 127}]
    return [c for c in range(1, 256) if c not in ANSI_CTL and c not in LEADIN[fmt]]

DOM = {f: domain_chars(f) for f in FMTS}

# --------------------------------------------------------------------------- buffers
def transparent(c):
    return c[0] in (0, 32) and c[2] == 0

def line_length(row, w):
    n = 0
    for x, c in enumerate(row[:w]):
        if not transparent(c): n = x + 1
    return n

def gen_row(rng, fmt, w, wild=False):
    r = rng.random()
    if r < 0.12: n = 0
    elif r < 0.30: n = w
    elif r < 0.42: n = rng.choice([w - 1, w - 2, w - 3, w - 4, 1, 2, 3])
    else: n = rng.randint(1, w)
    dom = DOM[fmt]
    row = []
    fg, bg, ch = 7, 0, rng.choice(dom)
    attr = 0
    p_attr = rng.choice([0.05, 0.3, 0.8]); p_ch = rng.choice([0.1, 0.5, 0.95])
    while len(row) < n:
        if rng.random() < p_attr:
            fg = rng.randrange(16); bg = rng.randrange(8)
            if fmt == 'ata': fg, bg = rng.choice([(7, 0), (0, 7), (7, 0), (3, 0), (1, 5)])
            if wild and rng.random() < 0.2:
                attr = rng.choice([0, 1, 8, 9]); bg = rng.randrange(16)
        if rng.random() < p_ch:
            ch = rng.choice(dom)
            if rng.random() < 0.15: ch = 32
            if wild and rng.random() < 0.15: ch = rng.choice([0, 255, 8, 1, 22, 25, 12, 64, 124, 254, 7, 127, 27, 155, 128, 200])
            if wild and fmt == 'ata' and ch > 127 and bg > 0: ch &= 127
        row.append((ch, fg, bg, attr))
    # the last cell of the row must not be blank-on-black, otherwise the row is shorter than intended (still legal)
    if row and transparent(row[-1]) and rng.random() < 0.8:
        c = row[-1]; row[-1] = (rng.choice([x for x in dom if x not in (0, 32)]), c[1], c[2], c[3])
    # insignificant tail: blank cells on black with an arbitrary foreground
    if len(row) < w and rng.random() < 0.3:
        for _ in range(rng.randint(1, w - len(row))):
            row.append((32 if (fmt == 'ata' or rng.random() < 0.8) else 0, rng.randrange(16), 0, 0))
    return row

def gen_buffer(rng, fmt, wild=False, h=None):
    w = WIDTH[fmt]
    if h is None:
        h = rng.choice([1, 1, 2, 2, 3, 4, 5, rng.randint(1, 40)])
    rows = [gen_row(rng, fmt, w, wild) for _ in range(h)]
    if line_length(rows[-1], w) == 0:
        rows[-1] = [(rng.choice([x for x in DOM[fmt] if x not in (0, 32)]), rng.randrange(16), 0 if fmt != 'ata' else 0, 0)]
    return rows

def row_hex(row):
    return ''.join('%02x%02x%02x%02x' % c for c in row) or '-'

def buf_args(fmt, rows):
    return '%d %d %s' % (WIDTH[fmt], len(rows), ' '.join(row_hex(r) for r in rows))

def coq_rows(rows):
    return '[' + '; '.join('[' + '; '.join('%d; %d; %d; %d' % c for c in r) + ']' for r in rows) + ']'

def hexs(bs):
    return ''.join('%02x' % b for b in bs) or '-'

IMPORTS = 'From IE Require Import Run.RunC15.\nLocal Open Scope N_scope.'

# --------------------------------------------------------------------------- stage C
def mutate_stream(rng, fmt, bs):
    """byte streams for the loaders: writer output with a few bytes replaced / inserted from the format's own alphabet"""
    alpha = {'pcb': [64, 88, 48, 55, 70, 97, 67, 76, 83, 13, 10, 12, 7, 127, 65],
             'avt': [22, 25, 12, 1, 2, 3, 4, 5, 6, 7, 8, 0, 80, 13, 10, 65, 127, 200],
             'msg': [1, 76, 39, 78, 72, 69, 73, 75, 87, 48, 55, 65, 90, 124, 13, 10, 12, 127, 99],
             'an1': [124, 48, 49, 50, 51, 52, 57, 65, 13, 10, 12, 127],
             'asc': [0, 255, 7, 8, 10, 12, 13, 127, 27, 65, 66],
             'ata': [27, 125, 126, 127, 155, 158, 253, 254, 255, 65, 193, 0, 128]}[fmt]
    bs = list(bs)
    for _ in range(rng.randint(1, 6)):
        if bs and rng.random() < 0.5:
            bs[rng.randrange(len(bs))] = rng.choice(alpha)
        else:
            bs.insert(rng.randint(0, len(bs)), rng.choice(alpha))
    return bs

def correspondence(ctx):
    rng = ctx.rng
    per = ctx.n(60, 700)
    items = []   # (fmt, prep, rows)
    for fmt in FMTS:
        for k in range(per):
            wild = (k % 3 == 2)
            h = None
            if k < 3: h = [40, 25, 1][k]
            items.append((fmt, rng.randrange(3), gen_buffer(rng, fmt, wild, h)))
    wr_cases = ['wr %s %d 1 %s' % (f, p, buf_args(f, rows)) for f, p, rows in items]
    wr_impl = ctx.impl(wr_cases, per_case_timeout=20)
    wr_exprs = ['run_wr %d %d %d %s' % (FIDX[f], p, WIDTH[f], coq_rows(rows)) for f, p, rows in items]
    # loaders: on every file the implementation wrote, plus mutated streams
    ld_inputs = []
    for (f, p, rows), r in zip(items, wr_impl):
        if r and r[0] == 'ok':
            ld_inputs.append((f, r[1]))
            if rng.random() < 0.5:
                ld_inputs.append((f, mutate_stream(rng, f, r[1])))
    for f in FMTS:
        ld_inputs.append((f, []))
    ld_cases = ['ld %s %s' % (f, hexs(bs)) for f, bs in ld_inputs]
    ld_impl = ctx.impl(ld_cases, per_case_timeout=20)
    ld_exprs = ['run_ld %d [%s]' % (FIDX[f], '; '.join(map(str, bs))) for f, bs in ld_inputs]
    model = ctx.model(IMPORTS, wr_exprs + ld_exprs, timeout=1500)
    dis = []
    dist = {'writer_cases': len(wr_cases), 'loader_cases': len(ld_cases), 'loader_unmodelled': 0, 'writer_panics': 0,
            'per_format': {f: 0 for f in FMTS}}
    for c, r, m, (f, p, rows) in zip(wr_cases, wr_impl, model[:len(wr_cases)], items):
        dist['per_format'][f] += 1
        if r is None or m is None: dis.append({'case': c[:400], 'impl': r, 'model': m}); continue
        if r[0] == 'panic':
            dist['writer_panics'] += 1
            if m != [1]: dis.append({'case': c[:400], 'impl': r, 'model': m[:40]})
        elif r[0] != 'ok' or m != [0] + r[1]:
            dis.append({'case': c[:400], 'impl': (r[0], r[1][:60] if r[0] == 'ok' else r[1]), 'model': m[:60]})
    for c, r, m in zip(ld_cases, ld_impl, model[len(wr_cases):]):
        if m == [9]:
            dist['loader_unmodelled'] += 1; continue
        if r is None or m is None or r[0] != 'ok' or m != [0] + r[1]:
            dis.append({'case': c[:400], 'impl': (r[0], r[1][:60] if r and r[0] == 'ok' else (r[1] if r else None)) if r else None,
                        'model': m[:60] if m else m})
    dist['model_errors'] = getattr(ctx, 'model_errors', [])[:2]
    distinct = len({c for c in wr_cases}) + len({c for c in ld_cases})
    return {'cases': len(wr_cases) + len(ld_cases), 'disagreements': dis, 'distinct_nontrivial': distinct,
            'distribution': dist, 'samples': [wr_cases[0][:200], ld_cases[0][:200]]}

# --------------------------------------------------------------------------- stage S
def norm_ch(c):
    return 32 if c == 0 else c

def check_roundtrip(fmt, rows, obs):
    """the property's own oracle: compare the loaded picture (harness `rt` observation) with the source"""
    w = WIDTH[fmt]
    bom, sauce, flen, lc, lw = obs[:5]
    g = obs[5:]
    h = len(rows)
    cls = 'bom' if bom else ('sauce' if sauce else None)
    def fail(kind, detail):
        if cls == 'bom' and fmt != 'ata': return ('C15-utf8-bom', detail)
        if cls == 'sauce': return ('C15-sauce-lookalike', detail)
        return ('C15-%s-%s' % (fmt, kind), detail)
    if lw != w: return fail('width', 'loaded width %d' % lw)
    if fmt == 'ata':
        if lc < h: return fail('height', 'loaded %d rows, saved %d' % (lc, h))
    elif lc != h:
        return fail('height', 'loaded %d rows, saved %d' % (lc, h))
    for y in range(lc):
        row = rows[y] if y < h else []
        L = line_length(row, w)
        for x in range(w):
            ch, fg, bg, at = g[(y * w + x) * 4:(y * w + x) * 4 + 4]
            if x < L:
                s = row[x]
                if fmt == 'asc': ok = ch == norm_ch(s[0])
                elif fmt == 'ata': ok = ch == s[0] and (bg > 0) == (s[2] > 0)
                else: ok = ch == norm_ch(s[0]) and fg == s[1] and bg == s[2]
                if not ok:
                    return fail('cell', 'cell (%d,%d): saved %r, loaded %r' % (x, y, s[:3], (ch, fg, bg)))
            elif not (ch in (0, 32) and bg == 0):
                return fail('extra-cell', 'cell (%d,%d) past the end of the saved row is %r' % (x, y, (ch, fg, bg)))
    return None

def sauce_lookalike():
    """an ASCII picture of 4 full rows whose tail reads as a SAUCE record with one comment line"""
    rec = b'SAUCE00' + b'T' * 35 + b'A' * 20 + b'G' * 20 + b'20240101' + b'ssss' + b'A' + b'B' + b'iiiiiiii' + b'\x01' + b'f' + b'I' * 22
    assert len(rec) == 128
    body = b'x' * (320 - 128 - 69) + b'COMNT' + b'c' * 64 + rec
    assert len(body) == 320
    return [[(b, 7, 0, 0) for b in body[i:i + 80]] for i in range(0, 320, 80)]

def directed():
    A = lambda s, fg=7, bg=0: [(ord(c), fg, bg, 0) for c in s]
    d = []
    # regression: Avatar + Home (fixed finding C15-avt-home-offset)
    d.append(('avt', 1, [A('AB', 1, 2), A('C')]))
    d.append(('avt', 1, [A('x' * 80, 15, 7), [], A('D')]))
    # known: UTF-8 BOM sniffing
    bomrow = [(0xEF, 7, 0, 0), (0xBB, 7, 0, 0), (0xBF, 7, 0, 0), (65, 7, 0, 0)]
    d.append(('asc', 0, [bomrow])); d.append(('an1', 0, [bomrow])); d.append(('msg', 0, [bomrow]))
    # known: SAUCE look-alike tail
    d.append(('asc', 0, sauce_lookalike()))
    # full-width rows everywhere, empty rows inside, run boundaries of the Avatar scanner
    for f in FMTS:
        w = WIDTH[f]
        d.append((f, 0, [A('y' * w, 2, 1), A('z' * w, 3, 0), A('q' * w, 4, 2)]))
        d.append((f, 2, [[], [], A('k' * (w - 1), 9 if f != 'ata' else 7, 0), [], A('m')]))
        for n in (w - 4, w - 3, w - 2, w - 1, w):
            d.append((f, 0, [A('r' * n, 5, 0 if f == 'ata' else 3), A('s' * n + '', 5, 0)]))
    return d

def search(ctx, broken):
    rng = ctx.rng
    per = ctx.n(250, 4000)
    items = directed()
    ndir = len(items)
    for fmt in FMTS:
        for prep in range(3):
            for h in range(1, 41):
                if (h + prep) % ctx.n(4, 1) == 0 or h in (1, 2, 40):
                    items.append((fmt, prep, gen_buffer(rng, fmt, False, h)))
        for _ in range(per):
            items.append((fmt, rng.randrange(3), gen_buffer(rng, fmt)))
    # put the inputs of broken correspondence cases first
    for b in broken:
        d = b.get('detail') or {}
        c = str(d.get('case', '')) if isinstance(d, dict) else ''
        if c.startswith('wr '):
            pass
    cases = ['rt %s %d 1 %s' % (f, p, buf_args(f, rows)) for f, p, rows in items]
    impl = ctx.impl(cases, per_case_timeout=20)
    failures = []
    for (f, p, rows), c, r in zip(items, cases, impl):
        if r is None or r[0] != 'ok':
            failures.append({'signature': 'C15-%s-%s' % (f, r[0] if r else 'none'), 'input': c, 'impl': r,
                             'detail': 'round trip did not complete'})
            continue
        res = check_roundtrip(f, rows, r[1])
        if res:
            failures.append({'signature': res[0], 'input': c, 'impl': r[1][:5], 'detail': res[1],
                             'expected': 'the saved picture'})
    failures.sort(key=lambda x: len(str(x['input'])))
    return {'cases': len(cases), 'failures': failures, 'distinct_nontrivial': len(set(cases)),
            'directed_cases': ndir, 'samples': [cases[0][:200], cases[-1][:200]]}

def replay(ctx, body):
    from vlib import driver
    inp = body.get('input')
    print('replay', ID, str(inp)[:300])
    if isinstance(inp, str) and inp.startswith('rt '):
        ok, out = driver.stage_build()
        r = ctx.impl([inp])[0]
        parts = inp.split()
        fmt = parts[1]
        rows = []
        for hx in parts[6:]:
            bs = [] if hx == '-' else [int(hx[i:i+2], 16) for i in range(0, len(hx), 2)]
            rows.append([tuple(bs[i:i+4]) for i in range(0, len(bs), 4)])
        if r[0] != 'ok':
            print('implementation:', r); return 1
        res = check_roundtrip(fmt, rows, r[1])
        print('implementation: file of %d bytes, %d rows loaded' % (r[1][2], r[1][3]))
        print('oracle:', res if res else 'round trip exact')
        m = ctx.model(IMPORTS, ['run_rt %d %s %d %s' % (FIDX[fmt], parts[2], WIDTH[fmt], coq_rows(rows))])
        print('model round trip agrees with implementation:', m[0] is not None and m[0][:1] == [0] and m[0][2:] == r[1][3:] if m[0] and m[0] != [9] else m[0])
        return 1 if res else 0
    print(json.dumps(body, indent=1)[:3000])
    return 1
