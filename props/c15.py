"""C15 — Avatar, PCBoard, Ctrl-A, Renegade, ASCII, ATASCII files parse back as saved (DESIGN.md section 7, C15)."""
import json

ID = 'C15'
GENERATORS = ['gen_codepage', 'gen_textfmt']
COQ_TARGETS = ['Props/C15.vo', 'Run/RunC15.vo']
PROPS_MODULE = 'Props.C15'
THEOREMS = ['text_roundtrip', 'pcb_roundtrip', 'avt_roundtrip', 'ctrla_roundtrip', 'ren_roundtrip', 'asc_roundtrip',
            'ata_roundtrip', 'line_length_meaning', 'ctrla_sync_all_pairs', 'layout', 'avatar_row_sync', 'avatar_scan_fuel_suffices',
            'avatar_caret_column', 'avatar_home_goto']
SWEEP_LEMMAS = ['TextFormats.ctrla_sweep (Ctrl-A: all 16x8x16x8 (attribute in force, next attribute) pairs: the parser run over the emitted '
                'N/H/E/I/colour letters ends in the next attribute with matching bold/high state)',
                'TextFormats.pcb_code_sweep (PCBoard: 16x8 colours: HEX_TABLE digits -> conv_ch -> from_u8 gives the colours back)',
                'TextAvatar.avt_attr_sweep (Avatar: 16x8 colours: as_u8 -> from_u8 in IceMode::Unlimited gives the colours back)']
TRUSTED = ['Coq 8.16.1 kernel + vm_compute (the three finite sweeps, the examples, model evaluation); no axioms (Print Assumptions: closed)',
           'translator/gen_textfmt.py + gen_codepage.py + vlib/rustsrc.py: constants/tables (HEX_TABLE, Ctrl-A FG/BG, Avatar and control '
           'characters, loader sizes, attribute flag bits and defaults) and the token-level pins of the shared line-break rule, the '
           'screen-preparation arms, the Avatar scanner bound / short-run limit / quoted set and the ATASCII escape set',
           'hand-written models of the six writers, six parsers, Buffer::print_char / Caret::lf,cr,ff,bs,del,home / '
           'TerminalState::limit_caret_pos (non-terminal buffer) / Layer::set_char / '
           'get_line_length / crop_loaded_file / the bold-folding epilogue (Model/TextBuf.v, TextWriters.v, TextParsers.v), tied to the '
           'code by stage C on every run: bytes of Buffer::to_bytes and the raw layer (every line, every cell incl. invisible '
           'padding, layer and buffer height) after Buffer::from_bytes must be equal',
           'harness/src/c15.rs and the python round-trip comparer of the search stage (written against the property text, not the model)']
UNMODELLED = ['SaveOptions.lossles_output = false: the ColorOptimizer pass in front of every writer (rewrites the invisible colour component of '
              'blank / full-block cells by design); covered by stage S only, against ColorOptimizer::optimize(source)',
              'ESC in the input of the ansi fallback parser (the whole CSI/OSC/DCS machine), the Ctrl-A commands J > < ] and 128..255, the '
              'ATASCII cursor / line codes 1C..1F 9C 9D: the model answers "unmodelled"; the theorems show that files written from '
              'in-domain pictures never reach them',
              'files whose tail reads as a SAUCE record or that start with a UTF-8 BOM (known findings C15-sauce-lookalike, C15-utf8-bom): '
              'outside the model, excluded from the theorem by the named predicates',
              'save_sauce = true (SAUCE record appended and stripped again: property C17/C13 territory), multi-layer buffers, palettes other than 16 colours',
              'NUL cells: written as space by five writers (as NUL inside Avatar runs); the model covers it (stage C generates NUL cells) but the '
              'theorem domain starts at character 1, as the property says "printable"']
ASSUMPTIONS = ['the source buffer is built as Buffer::new((w, h)) + Layer::set_char of visible cells (one layer, no offset, default properties): '
               'Buffer::get_char then returns the cell, or AttributedChar::default() where nothing was set',
               'Buffer.ice_mode = Unlimited on both sides (Buffer::new; no SAUCE record), caret ice_mode = false',
               'characters are 0..255 (the loaders map every byte to the char of the same value unless the file starts with a UTF-8 BOM)']
RULE = ('seeded random pictures per format: height 1..40 (biased to 1..5, every height 1..40 x 3 screen preparations in the thorough tier), '
        'row length 0 / full width / width-1..4 / 1..3 / uniform, attribute runs over 16 fg x 8 bg with three change rates, character runs '
        '(for the Avatar RLE) with three change rates, optional insignificant tail of blank-on-black cells with random foreground; stage C '
        'adds "wild" pictures (NUL, 255, lead-in and control characters, bold/blink flags, bg up to 15) and loader inputs mutated with '
        'the format\'s own alphabet (Avatar: plus goto / up / down / right sequences on and beyond the right edge) and directed loader '
        'streams for the shared cursor code (goto clamp, Ctrl-A home, form feed after the buffer has grown); directed cases: the three known/fixed findings, full-width rows in every position, Avatar scanner '
        'boundaries at width-4..width. A case is non-trivial when the picture has a non-blank cell (all are); distinct = distinct case strings')
LEVEL_TEXT = ('Machine-checked proof (Coq, closed under the global context) of the round trip for ALL SIX formats - PCBoard, Renegade, Ctrl-A, '
              'ASCII, Avatar, ATASCII - over every picture of the stated width, every height >= 1, every row length 0..width (full-width '
              'rows go through the auto-wrap lemma), every attribute sequence over 16 fg x 8 bg, all three screen preparations: the loaded '
              'buffer has the saved height and every cell up to the end of its row has the saved character and colours (ASCII: character; '
              'ATASCII: character and inverse-video bit), cells after the end of a row are blank. One generic development (sync law per '
              'row => layout => crop/bold-folding epilogue) with six instances; the Ctrl-A law is a complete 16x8x16x8 sweep, the Avatar law '
              'covers the run scanner and ^Y repeats for every width <= 255. Proved for the merged tree: the Avatar goto takes 1-based bytes '
              '(C15-avt-home-offset, fixed) and, like cursor up/down/right, ends with TerminalState::limit_caret_pos (on the loaders\' '
              'non-terminal buffer: column clamped to the screen, row untouched; the caret column provably never leaves the screen on any '
              'byte stream and the Home sequence is unaffected). Excluded by named predicates and reported as known findings: files that start with a UTF-8 BOM '
              '(ASCII/Renegade/Ctrl-A only; proved impossible for PCBoard and Avatar) and files whose last 128 bytes start with "SAUCE". '
              'The theorem is about lossles_output = true; the colour-optimizer path is covered by the search stage only.')
LEVEL_NOTE = ('Writers, parsers and buffer primitives are hand-modelled (control flow) over generated constants and tied by differential '
              'execution on every run (files byte for byte, loaded layers cell for cell); the search stage replays the property on the real '
              'code for all formats x screen preparations x heights 1..40.')
TECHNIQUE = ('Coq proof: per-format sync law (writer state ~ parser state ~ caret attribute) lifted by induction over cells and rows to a '
             'layout theorem on a model of the non-terminal buffer (view function, auto-wrap, lf padding, crop); finite attribute sweeps by '
             'vm_compute; translator tie for constants and leaf fragments; differential tie for control flow')

FMTS = ['pcb', 'avt', 'msg', 'an1', 'asc', 'ata']
FIDX = {f: i for i, f in enumerate(FMTS)}
WIDTH = {'pcb': 80, 'avt': 80, 'msg': 80, 'an1': 80, 'asc': 80, 'ata': 40}
ANSI_CTL = {7, 10, 12, 13, 27, 127}
LEADIN = {'pcb': {64}, 'avt': {22, 25, 12}, 'msg': {1}, 'an1': {124}, 'asc': set(), 'ata': set()}

def domain_chars(fmt):
    """content characters of the property's quantifier, per parser (see notes/C15.md)"""
    if fmt == 'asc':
        return [c for c in range(1, 255) if c not in {7, 8, 10, 12, 13, 127}]
    if fmt == 'ata':
        return [c for c in range(0, 128) if c not in {27, 28, 29, 30, 31, 125, 126, 127}]
    return [c for c in range(1, 256) if c not in ANSI_CTL and c not in LEADIN[fmt]]

DOM = {f: domain_chars(f) for f in FMTS}

# --------------------------------------------------------------------------- buffers
def transparent(c):
    return c[0] in (0, 32) and c[2] == 0

def line_length(row, w):
    n = 0
    for x, c in enumerate(row[:w]):
        if not transparent(c): n = x + 1
    return n

def gen_row(rng, fmt, w, wild=False):
    r = rng.random()
    if r < 0.12: n = 0
    elif r < 0.30: n = w
    elif r < 0.42: n = rng.choice([w - 1, w - 2, w - 3, w - 4, 1, 2, 3])
    else: n = rng.randint(1, w)
    dom = DOM[fmt]
    row = []
    fg, bg, ch = 7, 0, rng.choice(dom)
    attr = 0
    p_attr = rng.choice([0.05, 0.3, 0.8]); p_ch = rng.choice([0.1, 0.5, 0.95])
    while len(row) < n:
        if rng.random() < p_attr:
            fg = rng.randrange(16); bg = rng.randrange(8)
            if fmt == 'ata': fg, bg = rng.choice([(7, 0), (0, 7), (7, 0), (3, 0), (1, 5)])
            if wild and rng.random() < 0.2:
                attr = rng.choice([0, 1, 8, 9]); bg = rng.randrange(16)
        if rng.random() < p_ch:
            ch = rng.choice(dom)
            if rng.random() < 0.15: ch = 32
            if wild and rng.random() < 0.15: ch = rng.choice([0, 255, 8, 1, 22, 25, 12, 64, 124, 254, 7, 127, 27, 155, 128, 200])
            if wild and fmt == 'ata' and ch > 127 and bg > 0: ch &= 127
        row.append((ch, fg, bg, attr))
    # the last cell of the row must not be blank-on-black, otherwise the row is shorter than intended (still legal)
    if row and transparent(row[-1]) and rng.random() < 0.8:
        c = row[-1]; row[-1] = (rng.choice([x for x in dom if x not in (0, 32)]), c[1], c[2], c[3])
    # insignificant tail: blank cells on black with an arbitrary foreground
    if len(row) < w and rng.random() < 0.3:
        for _ in range(rng.randint(1, w - len(row))):
            row.append((32 if (fmt == 'ata' or rng.random() < 0.8) else 0, rng.randrange(16), 0, 0))
    return row

def gen_buffer(rng, fmt, wild=False, h=None):
    w = WIDTH[fmt]
    if h is None:
        h = rng.choice([1, 1, 2, 2, 3, 4, 5, rng.randint(1, 40)])
    rows = [gen_row(rng, fmt, w, wild) for _ in range(h)]
    if line_length(rows[-1], w) == 0:
        rows[-1] = [(rng.choice([x for x in DOM[fmt] if x not in (0, 32)]), rng.randrange(16), 0 if fmt != 'ata' else 0, 0)]
    return rows

def row_hex(row):
    return ''.join('%02x%02x%02x%02x' % c for c in row) or '-'

def buf_args(fmt, rows):
    return '%d %d %s' % (WIDTH[fmt], len(rows), ' '.join(row_hex(r) for r in rows))

def coq_rows(rows):
    return '[' + '; '.join('[' + '; '.join('%d; %d; %d; %d' % c for c in r) + ']' for r in rows) + ']'

def hexs(bs):
    return ''.join('%02x' % b for b in bs) or '-'

IMPORTS = 'From IE Require Import Run.RunC15.\nLocal Open Scope N_scope.'

# --------------------------------------------------------------------------- stage C
def mutate_stream(rng, fmt, bs):
    """byte streams for the loaders: writer output with a few bytes replaced / inserted from the format's own alphabet"""
    alpha = {'pcb': [64, 88, 48, 55, 70, 97, 67, 76, 83, 13, 10, 12, 7, 127, 65],
             'avt': [22, 25, 12, 1, 2, 3, 4, 5, 6, 7, 8, 0, 80, 13, 10, 65, 127, 200],
             'msg': [1, 76, 39, 78, 72, 69, 73, 75, 87, 48, 55, 65, 90, 124, 13, 10, 12, 127, 99],
             'an1': [124, 48, 49, 50, 51, 52, 57, 65, 13, 10, 12, 127],
             'asc': [0, 255, 7, 8, 10, 12, 13, 127, 27, 65, 66],
             'ata': [27, 125, 126, 127, 155, 158, 253, 254, 255, 65, 193, 0, 128]}[fmt]
    bs = list(bs)
    for _ in range(rng.randint(1, 6)):
        if bs and rng.random() < 0.5:
            bs[rng.randrange(len(bs))] = rng.choice(alpha)
        else:
            bs.insert(rng.randint(0, len(bs)), rng.choice(alpha))
    if fmt == 'avt' and rng.random() < 0.4:
        # cursor commands that end with TerminalState::limit_caret_pos in the merged tree: a goto whose column byte
        # lies on / next to / beyond the right edge (clamped to 79), up / down / right next to it
        at = rng.randint(0, len(bs))
        seq = [22, 8, rng.choice([1, 79, 80, 81, 82, 200, 255, rng.randint(0, 255)]), rng.choice([0, 1, 2, 3, 26, 40, 255, rng.randint(0, 60)])]
        for _ in range(rng.randint(0, 3)):
            seq += [22, rng.choice([3, 4, 5, 6])]
        bs[at:at] = seq
    return bs

def directed_streams():
    """loader inputs for the shared cursor code that other properties' fix commits changed (limit_caret_pos after the Avatar
    goto / up / down / right, Caret::home for Ctrl-A ^A', Caret::ff after the buffer has grown): on the NON-terminal buffer of
    the loaders the column is clamped to 0..79, the row is left alone, home is (0,0) and ff keeps the buffer height"""
    A, B = 65, 66
    d = []
    for x, y in [(0xF0, 0xF0), (0x51, 1), (0x50, 1), (0x52, 3), (0xFF, 2), (1, 1), (0, 0), (0x4F, 30), (200, 26)]:
        d.append(('avt', [22, 8, x, y, A, B]))
        d.append(('avt', [A, 13, 10, 22, 8, x, y, 22, 4, A, 22, 3, B, 22, 6, A, 22, 5, B]))
        d.append(('avt', [22, 8, x, y, 22, 6, A, B, 22, 3, 22, 3, A]))
    d.append(('avt', [A] + [22, 6] * 85 + [B, A]))
    d.append(('avt', [22, 4] * 30 + [A, 12, B]))
    d.append(('avt', [22, 3, 22, 5, A, 22, 4, 22, 4, 22, 3, B]))
    d.append(('avt', [22, 8, 0x50, 1, 25, A, 3, 22, 8, 0xFF, 0xFF, 25, B, 2]))
    d.append(('msg', [A, 13, 10] * 30 + [1, 39, B]))
    d.append(('msg', [A] * 79 + [1, 39, B, 1, 76, A]))
    for f in ('pcb', 'an1', 'asc', 'msg', 'avt'):
        d.append((f, [10] * 30 + [A, 12, B]))
        d.append((f, [A] * 200 + [12] + [B] * 3))
    return d

def hash_list(l):
    h = 7
    for x in l: h = (h * 1000003 + x + 1) % 2147483647
    return h

def digest(l):
    return [l[0] if l else 0, len(l), hash_list(l)]

def correspondence(ctx):
    rng = ctx.rng
    per = ctx.n(60, 500)
    items = []   # (fmt, prep, rows)
    for fmt in FMTS:
        for k in range(per):
            wild = (k % 3 == 2)
            h = None
            if k < 3: h = [40, 25, 1][k]
            items.append((fmt, rng.randrange(3), gen_buffer(rng, fmt, wild, h)))
    wr_cases = ['wr %s %d 1 %s' % (f, p, buf_args(f, rows)) for f, p, rows in items]
    wr_impl = ctx.impl(wr_cases, per_case_timeout=20)
    wr_exprs = ['run_wr_h %d %d %d %s' % (FIDX[f], p, WIDTH[f], coq_rows(rows)) for f, p, rows in items]
    # loaders: on every file the implementation wrote, plus mutated streams
    ld_inputs = []
    for (f, p, rows), r in zip(items, wr_impl):
        if r and r[0] == 'ok':
            ld_inputs.append((f, r[1]))
            if rng.random() < 0.5:
                ld_inputs.append((f, mutate_stream(rng, f, r[1])))
    for f in FMTS:
        ld_inputs.append((f, []))
    ld_inputs += directed_streams()
    ld_cases = ['ld %s %s' % (f, hexs(bs)) for f, bs in ld_inputs]
    ld_impl = ctx.impl(ld_cases, per_case_timeout=20)
    ld_exprs = ['run_ld_h %d [%s]' % (FIDX[f], '; '.join(map(str, bs))) for f, bs in ld_inputs]
    model = ctx.model(IMPORTS, wr_exprs + ld_exprs, timeout=1500)
    dis = []
    dist = {'writer_cases': len(wr_cases), 'loader_cases': len(ld_cases), 'loader_unmodelled': 0, 'writer_panics': 0,
            'per_format': {f: 0 for f in FMTS}}
    suspects = []   # (case, impl result, full model expression)
    for c, r, m, (f, p, rows), e in zip(wr_cases, wr_impl, model[:len(wr_cases)], items, wr_exprs):
        dist['per_format'][f] += 1
        if r is not None and r[0] == 'panic': dist['writer_panics'] += 1
        want = [1] if (r is not None and r[0] == 'panic') else ([0] + r[1] if (r is not None and r[0] == 'ok') else None)
        if want is None or m is None or m != digest(want):
            suspects.append((c, r, e.replace('run_wr_h', 'run_wr', 1)))
    for c, r, m, e in zip(ld_cases, ld_impl, model[len(wr_cases):], ld_exprs):
        if m is not None and m[:2] == [9, 1]:
            dist['loader_unmodelled'] += 1; continue
        want = [0] + r[1] if (r is not None and r[0] == 'ok') else None
        if want is None or m is None or m != digest(want):
            suspects.append((c, r, e.replace('run_ld_h', 'run_ld', 1)))
    if suspects:
        full = ctx.model(IMPORTS, [e for _, _, e in suspects[:12]], timeout=600)
        for (c, r, e), m in zip(suspects[:12], full):
            ri = None if r is None else ((r[0], r[1][:80]) if r[0] == 'ok' else r)
            diff = None
            if r is not None and r[0] == 'ok' and m:
                want = [0] + r[1]
                k = next((i for i, (a, b) in enumerate(zip(want, m)) if a != b), min(len(want), len(m)))
                diff = {'first_difference_at': k, 'impl': want[max(0, k - 4):k + 8], 'model': m[max(0, k - 4):k + 8],
                        'lengths': [len(want), len(m)]}
            dis.append({'case': c if len(c) < 30000 else c[:30000] + '...', 'impl': ri, 'model': (m[:80] if m else m), 'diff': diff})
        for c, r, e in suspects[12:]:
            dis.append({'case': c[:400] + '...', 'impl': None if r is None else r[0], 'model': 'digest differs'})
    dist['model_errors'] = getattr(ctx, 'model_errors', [])[:2]
    distinct = len({c for c in wr_cases}) + len({c for c in ld_cases})
    return {'cases': len(wr_cases) + len(ld_cases), 'disagreements': dis, 'distinct_nontrivial': distinct,
            'distribution': dist, 'samples': [wr_cases[0][:200], ld_cases[0][:200]]}

# --------------------------------------------------------------------------- stage S
def norm_ch(c):
    return 32 if c == 0 else c

def check_roundtrip(fmt, rows, obs):
    """the property's own oracle: compare the loaded picture (harness `rt` observation) with the source"""
    w = WIDTH[fmt]
    bom, sauce, flen, lc, lw = obs[:5]
    g = obs[5:]
    h = len(rows)
    cls = 'bom' if bom else ('sauce' if sauce else None)
    def fail(kind, detail):
        if cls == 'bom' and fmt != 'ata': return ('C15-utf8-bom', detail)
        if cls == 'sauce': return ('C15-sauce-lookalike', detail)
        return ('C15-%s-%s' % (fmt, kind), detail)
    if lw != w: return fail('width', 'loaded width %d' % lw)
    # rows after the last non-empty one are dropped by crop_loaded_file (the property's pictures have none; the
    # colour optimizer can create them by turning a last row of 0xFF cells into spaces)
    heff = max([y + 1 for y in range(h) if line_length(rows[y], w) > 0] + [1])
    if fmt == 'ata':
        if lc < heff: return fail('height', 'loaded %d rows, saved %d' % (lc, heff))
    elif lc != heff and not (lc == 0 and all(line_length(r, w) == 0 for r in rows)):
        return fail('height', 'loaded %d rows, saved %d' % (lc, heff))
    for y in range(lc):
        row = rows[y] if y < h else []
        L = line_length(row, w)
        for x in range(w):
            ch, fg, bg, at = g[(y * w + x) * 4:(y * w + x) * 4 + 4]
            if x < L:
                s = row[x]
                if fmt == 'asc': ok = ch == norm_ch(s[0])
                elif fmt == 'ata': ok = ch == s[0] and (bg > 0) == (s[2] > 0)
                else: ok = ch == norm_ch(s[0]) and fg == s[1] and bg == s[2]
                if not ok:
                    return fail('cell', 'cell (%d,%d): saved %r, loaded %r' % (x, y, s[:3], (ch, fg, bg)))
            elif not (ch in (0, 32) and bg == 0):
                return fail('extra-cell', 'cell (%d,%d) past the end of the saved row is %r' % (x, y, (ch, fg, bg)))
    return None

def sauce_lookalike():
    """an ASCII picture of 4 full rows whose tail reads as a SAUCE record with one comment line"""
    rec = b'SAUCE00' + b'T' * 35 + b'A' * 20 + b'G' * 20 + b'20240101' + b'ssss' + b'A' + b'B' + b'iiiiiiii' + b'\x01' + b'f' + b'I' * 22
    assert len(rec) == 128
    body = b'x' * (320 - 128 - 69) + b'COMNT' + b'c' * 64 + rec
    assert len(body) == 320
    return [[(b, 7, 0, 0) for b in body[i:i + 80]] for i in range(0, 320, 80)]

def directed():
    A = lambda s, fg=7, bg=0: [(ord(c), fg, bg, 0) for c in s]
    d = []
    # regression: Avatar + Home (fixed finding C15-avt-home-offset)
    d.append(('avt', 1, [A('AB', 1, 2), A('C')]))
    d.append(('avt', 1, [A('x' * 80, 15, 7), [], A('D')]))
    # known: UTF-8 BOM sniffing
    bomrow = [(0xEF, 7, 0, 0), (0xBB, 7, 0, 0), (0xBF, 7, 0, 0), (65, 7, 0, 0)]
    d.append(('asc', 0, [bomrow])); d.append(('an1', 0, [bomrow])); d.append(('msg', 0, [bomrow]))
    # known: SAUCE look-alike tail
    d.append(('asc', 0, sauce_lookalike()))
    # full-width rows everywhere, empty rows inside, run boundaries of the Avatar scanner
    for f in FMTS:
        w = WIDTH[f]
        d.append((f, 0, [A('y' * w, 2, 1), A('z' * w, 3, 0), A('q' * w, 4, 2)]))
        d.append((f, 2, [[], [], A('k' * (w - 1), 9 if f != 'ata' else 7, 0), [], A('m')]))
        for n in (w - 4, w - 3, w - 2, w - 1, w):
            d.append((f, 0, [A('r' * n, 5, 0 if f == 'ata' else 3), A('s' * n + '', 5, 0)]))
    return d

def opt_rows(obs, w):
    """split the `rt ... 0` observation into (loaded part, rows of ColorOptimizer::optimize(source))"""
    lc = obs[3]
    n = 5 + lc * w * 4
    oh, ow = obs[n], obs[n + 1]
    g = obs[n + 2:]
    rows = [[tuple(g[(y * ow + x) * 4:(y * ow + x) * 4 + 4]) for x in range(ow)] for y in range(oh)]
    return obs[:n], rows

def search(ctx, broken):
    rng = ctx.rng
    per = ctx.n(250, 3400)
    per_opt = ctx.n(40, 300)
    items = [(f, p, rows, 1) for f, p, rows in directed()]
    # inputs on which model and implementation disagreed come first
    first = []
    for b in broken:
        d = b.get('detail') or {}
        c = str(d.get('case', '')) if isinstance(d, dict) else ''
        if c.startswith('wr ') and not c.endswith('...'):
            parts = c.split()
            try:
                rows = []
                for hx in parts[6:]:
                    bs = [] if hx == '-' else [int(hx[i:i+2], 16) for i in range(0, len(hx), 2)]
                    rows.append([tuple(bs[i:i+4]) for i in range(0, len(bs), 4)])
                if len(rows) == int(parts[5]): first.append((parts[1], int(parts[2]), rows, 1))
            except ValueError:
                pass
    items = first + items
    ndir = len(items)
    every = ctx.n(5, 1)
    for fmt in FMTS:
        for prep in range(3):
            for h in range(1, 41):
                if (h + prep) % every == 0 or h in (1, 2, 40):
                    items.append((fmt, prep, gen_buffer(rng, fmt, False, h), 1))
        for _ in range(per):
            items.append((fmt, rng.randrange(3), gen_buffer(rng, fmt), 1))
        for _ in range(per_opt):
            items.append((fmt, rng.randrange(3), gen_buffer(rng, fmt), 0))
    cases = ['rt %s %d %d %s' % (f, p, ll, buf_args(f, rows)) for f, p, rows, ll in items]
    impl = ctx.impl(cases, per_case_timeout=20)
    failures = []
    stats = {'lossless': 0, 'optimized': 0, 'heights': sorted({len(r) for _, _, r, _ in items})[-1]}
    for (f, p, rows, ll), c, r in zip(items, cases, impl):
        if r is None or r[0] != 'ok':
            failures.append({'signature': 'C15-%s-%s' % (f, r[0] if r else 'none'), 'input': c, 'impl': r,
                             'detail': 'round trip did not complete'})
            continue
        obs = r[1]
        if ll == 0:
            stats['optimized'] += 1
            obs, rows = opt_rows(obs, WIDTH[f])
        else:
            stats['lossless'] += 1
        res = check_roundtrip(f, rows, obs)
        if res:
            sig = res[0] if ll else res[0] + '-optimized'
            failures.append({'signature': sig, 'input': c, 'impl': obs[:5], 'detail': res[1],
                             'expected': 'the saved picture' if ll else 'ColorOptimizer::optimize(saved picture)'})
    failures.sort(key=lambda x: len(str(x['input'])))
    return {'cases': len(cases), 'failures': failures, 'distinct_nontrivial': len(set(cases)),
            'directed_cases': ndir, 'paths': stats, 'samples': [cases[0][:200], cases[-1][:200]]}

def replay(ctx, body):
    from vlib import driver
    inp = body.get('input')
    print('replay', ID, str(inp)[:300])
    if isinstance(inp, str) and inp.startswith('rt '):
        ok, out = driver.stage_build()
        r = ctx.impl([inp])[0]
        parts = inp.split()
        fmt = parts[1]
        rows = []
        for hx in parts[6:]:
            bs = [] if hx == '-' else [int(hx[i:i+2], 16) for i in range(0, len(hx), 2)]
            rows.append([tuple(bs[i:i+4]) for i in range(0, len(bs), 4)])
        if r[0] != 'ok':
            print('implementation:', r); return 1
        obs = r[1]
        if parts[3] == '0':
            obs, rows = opt_rows(obs, WIDTH[fmt])
        res = check_roundtrip(fmt, rows, obs)
        print('implementation: file of %d bytes, %d rows loaded' % (r[1][2], r[1][3]))
        print('oracle:', res if res else 'round trip exact')
        if parts[3] == '1':
            m = ctx.model(IMPORTS, ['run_rt %d %s %d %s' % (FIDX[fmt], parts[2], WIDTH[fmt], coq_rows(rows))])
            if m[0] == [9]: print('model: the load leaves the model (known finding class / unmodelled input)')
            elif m[0]: print('model round trip agrees with implementation:', m[0][:1] == [0] and m[0][1:] == r[1][2:])
            else: print('model: evaluation failed')
        return 1 if res else 0
    print(json.dumps(body, indent=1)[:3000])
    return 1
