"""C16 — palette indices are stable and palette files round-trip (DESIGN.md section 7, C16)."""
import json

ID = 'C16'
GENERATORS = ['gen_palette']
COQ_TARGETS = ['Props/C16.vo', 'Run/RunC16.vo']
PROPS_MODULE = 'Props.C16'
THEOREMS = ['insert_resolves', 'insert_stable', 'insert_existing', 'insert_fresh', 'set_resolves', 'set_stable',
            'ops_invariant', 'ops_insert_tracked',
            'vga63_idempotent', 'vga63_identity', 'vga63_palette_idempotent', 'vga63_palette_identity',
            'ega_channel_idempotent', 'ega_palette_idempotent', 'ega_roundtrip_total',
            'export_import', 'export_import_hex', 'export_import_pal', 'export_import_gpl', 'export_import_ice',
            'export_import_txt', 'export_unchanged_without_breaks', 'verbatim_export_import_outside_known', 'known_1_witness',
            'gpl_unfixed_regex_refuted']
SWEEP_LEMMAS = ['PaletteProofs.chan63_sweep (256 byte values x 6 generated channel expression pairs: from63_*/to63_* and ega_from_*/ega_to_*)',
                'PaletteFilesProofs.dec_sweep / hex2_sweep (print then parse of the 256 channel values through fmt_dec / parse_u32 and fmt_hex2 / hex2)',
                'PaletteFilesProofs.class_sweep (generated \\d / \\s tables and comment characters on the 103 code points up to f)',
                'PaletteEgaProofs.ega_tables_ok (generated EGA_COLOR_OFFSETS: 16 distinct offsets below 64 = length of EGA_PALETTE)']
TRUSTED = ['Coq 8.16.1 kernel + vm_compute (finite sweeps, model evaluation); no axioms (Print Assumptions: closed)',
           'translator/gen_palette.py + vlib/rustsrc.py: tokenizer, template matcher, integer-expression translator (u8/u32 width semantics), '
           'format!-string parser ({} {:3} {:02x} {name} on unsigned integers and Strings), parser of the text arguments (verbatim or through single_line) '
           'and of `fn single_line` (`text.replace([chars], to)`)',
           'hand-written matchers of Model/PaletteFiles.v are equivalent to the pinned regular expressions under the regex crate (leftmost-first, Unicode \\d \\s from the '
           'regex-syntax tables): exercised by stage C on whole exported files and on per-line differential inputs',
           'UTF-8 coding of Strings (python encodes/decodes code points at the harness boundary)',
           'harness/src/c16.rs (observation vectors; the Rust-side oracle pal_oracle / pal_sweep63)']
UNMODELLED = ['PaletteFormat::Ase (no file format behind it: load_palette returns Err, export_palette an empty vector; C02 palette_load_total)',
              'title/author/description/colour names read back by load_palette (only the RGB sequence is part of the property)',
              'Palette::import_palette (extension dispatch), get_checksum, set_color_hsl (floating point)',
              'invalid UTF-8 input to load_palette (-> Err before any line is looked at)']
ASSUMPTIONS = ['Rust u8/u32 operators behave as the width semantics of the translator (shl drops high bits, `as u8` truncates)',
               'format! prints unsigned integers in decimal without sign, {:3} pads left with blanks, {:02x} lower-case hex padded with 0 (fmt_* in Lib/C16Lib.v, tied by stage C)',
               '`str::replace([c1, c2], to)` replaces every occurrence of one of the characters by `to` (str_replace_chars in Lib/C16Lib.v, tied by stage C on texts with CR / LF)',
               'str::lines() as modelled (split on \\n, one \\r before it removed, last line without \\n kept as is; tied by stage C)',
               'a palette never has 2^32 colours or more (the statements carry plen p < 2^31 / < 2^32 explicitly)']
RULE = ('palettes of 0..=300 colours (sizes biased to 0-3, 16, 64, 256, 257, 300) with title/author/description/colour names drawn from '
        '{empty, ascii, with # or ;, leading digits, hex-looking, blank-only, trailing CR, non-ASCII incl. Unicode digits/spaces, texts with line feeds / carriage returns '
        'followed by something that reads as a colour line} for each of the 5 formats; '
        'operation sequences of 0..60 insert/set/lookup/push/fill/resize/clear ops on palettes of 0..=300 colours with colliding colours and '
        'indices around the length, with bit 31 set and 2^32-1; per-line differential inputs for the loaders built from digit runs (ASCII and Unicode, '
        'up to 12 digits), Unicode blanks, hex runs and punctuation, wrapped in valid/invalid magic lines with LF/CRLF endings; 6-bit codec on all 256 '
        'values of every channel (exhaustive) and random byte vectors incl. lengths that panic. Non-trivial = at least one colour or one op; '
        'distinct = distinct case strings')

FORMATS = ['hex', 'pal', 'gpl', 'ice', 'txt']
COQ_FMT = {'hex': 'Hex', 'pal': 'Pal', 'gpl': 'Gpl', 'ice': 'Ice', 'txt': 'Txt'}
MAGIC = {'hex': '', 'pal': 'JASC-PAL\n0100\n1\n', 'gpl': 'GIMP Palette\n', 'ice': 'ICE Palette\n', 'txt': ';paint.net Palette File\n'}
IMPORTS = 'From IE Require Import Model.Palette Model.PaletteFiles Run.RunC16.\nLocal Open Scope N_scope.'

def hexb(bs):
    return ''.join('%02x' % b for b in bs) or '-'

def hexs(s):
    return hexb(s.encode('utf-8'))

def coq_str(s):
    return '[' + '; '.join(str(ord(c)) for c in s) + ']'

def coq_rgbs(cols):
    return '[' + '; '.join('(%d, %d, %d)' % c for c in cols) + ']'

# ---------------------------------------------------------------------------------------------------------
META_POOL = ['', '', 'My palette', 'x', '#ff0000', '# comment', ';semi', '123 go', '1 2 3', '10 20 30 name', 'aabbcc', 'FFaabbcc deadbeef',
             ' ', '   ', ' lead', 'trail ', 'cr\r', '\r', 'tab\there', 'café', '٣٤ ٥', 'nb sp', ' ', '\U0001f600 smile',
             '#Palette Name: fake', ';Description: fake', '#Name: x', 'JASC-PAL', 'GIMP Palette', '0', '00', '4294967296 1 2']

def meta(rng, allow_nl=False):
    r = rng.random()
    if r < 0.75:
        s = rng.choice(META_POOL)
    else:
        alphabet = 'abcXYZ 019#;:-_.\t\ré٣ ' + ('\n' if allow_nl else '')
        s = ''.join(rng.choice(alphabet) for _ in range(rng.randint(1, 12)))
    if allow_nl and rng.random() < 0.15:
        s = s + rng.choice(['\n', '\n', '\r\n', '\n\r']) + rng.choice(['1 2 3 x', 'aabbcc', 'FF010203', '#x', s])
    return s

def pal_size(rng):
    r = rng.random()
    if r < 0.33: return rng.randint(0, 3)
    if r < 0.63: return rng.randint(4, 20)
    if r < 0.83: return rng.choice([15, 16, 17, 64])
    if r < 0.94: return rng.randint(21, 100)
    return rng.choice([255, 256, 257, 300, rng.randint(101, 300)])

def colours(rng, n):
    mode = rng.random()
    if mode < 0.6: return [(rng.randrange(256), rng.randrange(256), rng.randrange(256)) for _ in range(n)]
    if mode < 0.8: return [tuple(rng.choice([0, 1, 9, 10, 99, 100, 255, 170, 85]) for _ in range(3)) for _ in range(n)]
    return [((i * 7) % 256, (i * 13 + 5) % 256, (255 - i) % 256) for i in range(n)]

def gen_palette(rng, allow_nl=False, fmt=None):
    n = pal_size(rng)
    cols = colours(rng, n)
    names = {}
    if rng.random() < 0.3:
        for i in range(n):
            if rng.random() < 0.3: names[i] = meta(rng, allow_nl)
    return {'fmt': fmt or rng.choice(FORMATS), 'title': meta(rng, allow_nl), 'author': meta(rng, allow_nl),
            'desc': meta(rng, allow_nl), 'cols': cols, 'names': names}

def exp_case(p):
    flat = [v for c in p['cols'] for v in c]
    return ' '.join(['pal_exp', p['fmt'], hexs(p['title']), hexs(p['author']), hexs(p['desc']), hexb(flat)]
                    + ['%d,%s' % (i, hexs(nm)) for i, nm in sorted(p['names'].items())])

def exp_expr(p):
    cs = []
    for i, (r, g, b) in enumerate(p['cols']):
        if i in p['names']: cs.append('CN %d %d %d %s' % (r, g, b, coq_str(p['names'][i])))
        else: cs.append('C %d %d %d' % (r, g, b))
    return 'run_export %s (mkPal %s %s %s [%s])' % (COQ_FMT[p['fmt']], coq_str(p['title']), coq_str(p['desc']), coq_str(p['author']), '; '.join(cs))

def cmp_export(r, m):
    """impl: [nbytes, bytes…, load…]; model: [nchars, chars…, load…]"""
    if r is None or m is None or r[0] != 'ok': return False
    iv = r[1]
    try:
        nb = iv[0]; bytes_ = bytes(iv[1:1 + nb]); rest_i = iv[1 + nb:]
        nc = m[0]; text = ''.join(chr(c) for c in m[1:1 + nc]); rest_m = m[1 + nc:]
        return text.encode('utf-8') == bytes_ and rest_i == rest_m
    except (ValueError, IndexError, OverflowError):
        return False

# ---- per-line differential inputs for the loaders ---------------------------------------------------------
WS = [' ', ' ', '  ', '\t', ' ', ' ', '\r', ' \t ', '　']
def tok(rng):
    r = rng.random()
    if r < 0.30: return ''.join(rng.choice('0123456789') for _ in range(rng.choice([1, 1, 2, 3, 3, 4, 9, 10, 11, 12])))
    if r < 0.36: return rng.choice(['4294967295', '4294967296', '0000000000255', '256', '999', '٣', '1٤', '१२'])
    if r < 0.60: return rng.choice(WS)
    if r < 0.80: return ''.join(rng.choice('0123456789abcdefABCDEF') for _ in range(rng.choice([1, 2, 5, 6, 6, 7, 8, 8, 12, 13])))
    return rng.choice(['x', 'g', '#', ';', '-', '+', '.', ',', 'Z', 'é', 'FF', '#Name: q', 'G'])

def gen_line(rng):
    r = rng.random()
    if r < 0.25:   # nearly a decimal colour line
        sep = lambda: rng.choice(WS)
        num = lambda: str(rng.choice([0, 5, 17, 255, 256, 1000, rng.randrange(256)]))
        parts = [rng.choice(['', ' ', '  ', '#', 'x']), num(), sep(), num(), sep(), num(), rng.choice(['', ' ', ' name', 'x', ' 7 8 9', '\t1 2 3', '\r'])]
        if rng.random() < 0.3: parts[rng.randrange(len(parts))] = tok(rng)
        return ''.join(parts)
    if r < 0.40:   # nearly a hex colour line
        h = ''.join(rng.choice('0123456789abcdefABCDEF') for _ in range(rng.choice([5, 6, 6, 7, 8, 8, 9, 14])))
        return rng.choice(['', '', ' ', '#', ';', 'g', 'FF']) + h + rng.choice(['', '', ' ', 'g', ' ' + h])
    return ''.join(tok(rng) for _ in range(rng.randint(0, 8)))

def gen_file(rng, fmt):
    lines = [gen_line(rng) for _ in range(rng.randint(0, 4))]
    nl = rng.choice(['\n', '\n', '\n', '\r\n'])
    body = nl.join(lines)
    if lines and rng.random() < 0.6: body += nl
    head = MAGIC[fmt]
    r = rng.random()
    if r < 0.06: head = head.replace('\n', '\r\n')
    elif r < 0.10: head = head[1:] if head else 'x'
    elif r < 0.13: head = head.upper()
    elif r < 0.16: head = ''
    elif r < 0.19 and fmt == 'pal': head = 'JASC-PAL\n0100\n'
    elif r < 0.21 and head: head = head.rstrip('\n') + ' \n'
    return head + body

def load_case(fmt, text):
    return 'pal_load %s %s' % (fmt, hexs(text))
def load_expr(fmt, text):
    return 'run_load %s %s' % (COQ_FMT[fmt], coq_str(text))

# ---- operation sequences ------------------------------------------------------------------------------------
def gen_ops(rng, maxlen=60, monotone=False):
    n = pal_size(rng)
    init = colours(rng, n)
    pool = list(init[:40]) + [(0, 0, 0), (255, 255, 255), (1, 2, 3), (0, 0, 170)]
    toks = []; exprs = []
    est = n
    for _ in range(rng.randint(0, maxlen)):
        r = rng.random()
        col = rng.choice(pool) if rng.random() < 0.6 else (rng.randrange(256), rng.randrange(256), rng.randrange(256))
        if rng.random() < 0.3: pool.append(col)
        h = '%02x%02x%02x' % col; cq = '%d %d %d' % col
        if r < 0.32:
            toks.append('i,' + h); exprs.append('OInsert (C %s)' % cq); est += 1
        elif r < 0.38:
            nm = meta(rng)
            toks.append('n,%s,%s' % (h, hexs(nm))); exprs.append('OInsert (CN %s %s)' % (cq, coq_str(nm))); est += 1
        elif r < 0.50:
            i = rng.choice([rng.randint(0, max(0, est - 1)), est, est + rng.randint(1, 20), 0])
            est = max(est, i + 1)
            if rng.random() < 0.6:
                toks.append('s,%d,%s' % (i, h)); exprs.append('OSet %d (C %s)' % (i, cq))
            else:
                nm = meta(rng)
                toks.append('c,%d,%s,%s' % (i, h, hexs(nm))); exprs.append('OSet %d (CN %s %s)' % (i, cq, coq_str(nm)))
        elif r < 0.80:
            i = rng.choice([rng.randint(0, max(0, est - 1)), rng.randint(0, max(0, est - 1)), est, est + 1, est + rng.randint(2, 1000),
                            (1 << 31) | rng.randrange(1 << 24), (1 << 31) | rng.randrange(1 << 31), (1 << 32) - 1, (1 << 31) - 1, 1 << 31])
            toks.append('l,%d' % i); exprs.append('OLookup %d' % i)
        elif r < 0.86:
            toks.append('p,' + h); exprs.append('OPush (C %s)' % cq); est += 1
        elif r < 0.90:
            toks.append('f'); exprs.append('OFill16'); est = max(est, 16)
        elif r < 0.97 and not monotone:
            k = rng.choice([0, 1, 15, 16, 17, est, max(0, est - rng.randint(1, 5)), est + rng.randint(1, 30), rng.randint(0, 40)])
            toks.append('z,%d' % k); exprs.append('OResize %d' % k); est = max(k, 16 if k > est else k)
        elif not monotone:
            toks.append('x'); exprs.append('OClear'); est = 0
    flat = [v for c in init for v in c]
    return init, toks, 'run_ops [%s] [%s]' % ('; '.join(map(str, flat)), '; '.join(exprs)), hexb(flat)

# ---- codec cases ------------------------------------------------------------------------------------------------
def codec_cases(rng, n):
    cases = []; exprs = []
    allv = [v for v in range(256) for _ in range(3)]
    cases.append('pal_63 ' + hexb(allv)); exprs.append('run_63 [%s]' % '; '.join(map(str, allv)))
    cols = [(v, v, v) for v in range(256)]
    cases.append('pal_v63 ' + hexb(allv)); exprs.append('run_v63 %s' % coq_rgbs(cols))
    # every byte value at every position an EGA offset reads: four 192-byte vectors
    for k in range(4):
        bs = [(i + 64 * k + 3 * (i % 3)) % 256 for i in range(192)]
        cases.append('pal_egaf ' + hexb(bs)); exprs.append('run_egaf [%s]' % '; '.join(map(str, bs)))
    for k in range(0, 256, 16):
        cols = [((k + i) % 256, (k + i + 85) % 256, (k + i + 170) % 256) for i in range(16)]
        cases.append('pal_egat ' + hexb([v for c in cols for v in c])); exprs.append('run_egat %s' % coq_rgbs(cols))
    for _ in range(n):
        r = rng.random()
        if r < 0.35:
            ln = rng.choice([0, 3, 6, 48, 1, 2, 4, 5, 47, 3 * rng.randint(0, 40), rng.randint(0, 60)])
            bs = [rng.randrange(64) if rng.random() < 0.7 else rng.randrange(256) for _ in range(ln)]
            cases.append('pal_63 ' + hexb(bs)); exprs.append('run_63 [%s]' % '; '.join(map(str, bs)))
        elif r < 0.55:
            cols = colours(rng, rng.randint(0, 40))
            cases.append('pal_v63 ' + hexb([v for c in cols for v in c])); exprs.append('run_v63 %s' % coq_rgbs(cols))
        elif r < 0.75:
            ln = rng.choice([192, 192, 192, 200, 191, 190, 189, 0, 60, 63, 64, 180, rng.randint(0, 192)])
            bs = [rng.randrange(64) if rng.random() < 0.7 else rng.randrange(256) for _ in range(ln)]
            cases.append('pal_egaf ' + hexb(bs)); exprs.append('run_egaf [%s]' % '; '.join(map(str, bs)))
        else:
            cols = colours(rng, rng.choice([0, 1, 7, 15, 16, 17, 20, 64, rng.randint(0, 300)]))
            cases.append('pal_egat ' + hexb([v for c in cols for v in c])); exprs.append('run_egat %s' % coq_rgbs(cols))
    return cases, exprs

def agree(case, r, m):
    if r is None or m is None: return False
    if case.startswith('pal_exp '): return cmp_export(r, m)
    if r[0] == 'panic': return m == [-2]
    return r[0] == 'ok' and r[1] == m

def correspondence(ctx):
    rng = ctx.rng
    cases = []; exprs = []; dist = {}
    def add(kind, c, e):
        cases.append(c); exprs.append(e); dist[kind] = dist.get(kind, 0) + 1
    pals = []
    n_pal = ctx.n(200, 3000)
    for k in range(n_pal):
        p = gen_palette(rng, allow_nl=True, fmt=FORMATS[k % 5])
        pals.append(p); add('export+import ' + p['fmt'], exp_case(p), exp_expr(p))
    # the regression input of the fixed GPL defect and its relatives
    for desc in ('', '\r', ' ', 'name'):
        p = {'fmt': 'gpl', 'title': '', 'author': '', 'desc': desc, 'cols': [(1, 2, 3), (40, 50, 60)], 'names': {}}
        add('export+import gpl', exp_case(p), exp_expr(p))
    # the regression inputs of the fixed line-feed defect: a colour line hidden in every text, for every format
    for p in line_break_regressions():
        add('export+import ' + p['fmt'], exp_case(p), exp_expr(p))
    for k in range(ctx.n(800, 12000)):
        fmt = FORMATS[k % 5]
        text = gen_file(rng, fmt)
        add('load ' + fmt, load_case(fmt, text), load_expr(fmt, text))
    n_ops = 0
    for k in range(ctx.n(1000, 5000)):
        init, toks, expr, flat = gen_ops(rng)
        add('ops', ' '.join(['pal_ops', flat] + toks), expr); n_ops += len(toks)
    cc, ce = codec_cases(rng, ctx.n(150, 2000))
    for c, e in zip(cc, ce): add(c.split()[0], c, e)
    impl = ctx.impl(cases, per_case_timeout=20)
    model = ctx.model(IMPORTS, exprs, timeout=1500)
    dis = []
    for c, r, m in zip(cases, impl, model):
        if not agree(c, r, m):
            dis.append({'case': c, 'impl': trunc(r), 'model': trunc(m)})
    dist['ops_total'] = n_ops
    dist['model_errors'] = [e[-400:] for e in getattr(ctx, 'model_errors', [])[:2]]
    return {'cases': len(cases), 'disagreements': dis, 'distinct_nontrivial': len({c for c in cases if len(c.split()) > 2}),
            'distribution': dist, 'samples': [cases[0][:300], cases[n_pal + 10][:300], cases[-1][:300]],
            'exhaustive': True,
            'exhaustive_note': 'the generated 6-bit channel expressions (from63_*, to63_*, ega_from_*, ega_to_*) are compared on all 256 values of every channel'}

def trunc(x):
    s = json.dumps(x)
    return x if len(s) < 3000 else s[:3000] + '…'

# ---------------------------------------------------------------------------------------------------------
ORACLE_SIG = {1: 'insert-index-does-not-resolve', 2: 'valid-index-changed', 3: 'insert-existing-colour-not-first-index',
              4: 'insert-fresh-colour-not-appended', 5: 'set-index-does-not-resolve', 6: 'set-changes-other-index',
              7: 'lookup-wrong-value', 8: 'lookup-mutates', 9: 'from-bytes-wrong'}

def search(ctx, broken):
    rng = ctx.rng
    cases = []; expect = []
    def add(c, e): cases.append(c); expect.append(e)
    # regression inputs first: the GPL defect fixed in the repository (empty / CR-only description)
    for fmt in FORMATS:
        for desc in ('', '\r'):
            p = {'fmt': fmt, 'title': '', 'author': '', 'desc': desc, 'cols': [(1, 2, 3), (40, 50, 60)], 'names': {}}
            add(exp_case(p), ('rt', p))
    # inputs on which model and implementation disagreed come next
    for b in broken:
        d = b.get('detail') or {}
        c = d.get('case') if isinstance(d, dict) else None
        if isinstance(c, str) and c.startswith('pal_exp ') and not c.endswith('…'):
            p = parse_exp_case(c)
            if p: add(c, ('rt', p))
        if isinstance(c, str) and c.startswith('pal_ops ') and not c.endswith('…'):
            add('pal_oracle ' + c[len('pal_ops '):], ('ops', None))
    for k in range(ctx.n(1500, 20000)):
        p = gen_palette(rng, allow_nl=False, fmt=FORMATS[k % 5])
        add(exp_case(p), ('rt', p))
    # the class of the FIXED finding metadata-line-feed-… (line feed in a text the format writes): regression cases - the witness of
    # Props/C16.v known_1_witness, a colour line hidden in every text of every format, then random members; all must round-trip now
    for p in line_break_regressions():
        add(exp_case(p), ('rt', p))
    for k in range(ctx.n(150, 2000)):
        p = gen_palette(rng, allow_nl=True, fmt=FORMATS[k % 5])
        add(exp_case(p), ('rt', p))
    for k in range(ctx.n(3000, 40000)):
        init, toks, expr, flat = gen_ops(rng)
        add(' '.join(['pal_oracle', flat] + toks), ('ops', None))
    add('pal_sweep63 0', ('sweep', 0))
    add('pal_sweep63 1', ('sweep', 1))
    impl = ctx.impl(cases, per_case_timeout=120)
    failures = []
    for c, e, r in zip(cases, expect, impl):
        short = c if len(c) < 6000 else c[:6000] + '…'
        if r is None or r[0] != 'ok':
            failures.append({'signature': '%s-%s' % (c.split()[0], r[0] if r else 'none'), 'input': c, 'impl': trunc(r),
                             'detail': 'the implementation did not return an observation'})
            continue
        v = r[1]
        if e[0] == 'rt':
            p = e[1]
            nb = v[0]; rest = v[1 + nb:]
            want = [0, len(p['cols'])] + [x for col in p['cols'] for x in col]
            if rest != want:
                got = 'Err' if rest == [1] else '%d colours' % rest[1]
                sig = '%s-roundtrip-colours-differ' % p['fmt'] if wf(p) else KNOWN_1_SIG
                failures.append({'signature': sig, 'input': c, 'impl': trunc(rest), 'expected': trunc(want),
                                 'detail': 'export_palette(%s) then load_palette gives %s, the palette has %d (title=%r author=%r description=%r)'
                                           % (p['fmt'], got, len(p['cols']), p['title'], p['author'], p['desc'])})
        elif e[0] == 'ops':
            if v != [0]:
                failures.append({'signature': ORACLE_SIG.get(v[0], 'ops-oracle-%d' % v[0]), 'input': c, 'impl': v,
                                 'detail': 'op #%d: index %d resolves to %d, expected %d (oracle code %d)' % (v[1], v[2], v[3], v[4], v[0])})
        else:
            if v[0] != 0:
                failures.append({'signature': 'vga63-not-idempotent', 'input': c, 'impl': v,
                                 'detail': '%d six-bit values/colours are not reproduced; first: 0x%x' % (v[0], v[1])})
    failures.sort(key=lambda f: len(str(f['input'])))
    return {'cases': len(cases), 'failures': failures, 'distinct_nontrivial': len({c for c in cases if len(c.split()) > 2}),
            'samples': [cases[0][:300], cases[-3][:300]], 'six_bit_colours_swept': 64 ** 3}

KNOWN_1_SIG = 'metadata-line-feed-roundtrip-colours-differ'     # status `fixed` in known_findings.d/C16.json: reported as a VIOLATION when seen
KNOWN_1_WITNESS = {'fmt': 'gpl', 'title': 'x\n1 2 3 y', 'author': '', 'desc': '', 'cols': [(9, 9, 9)], 'names': {}}

def line_break_regressions():
    out = [KNOWN_1_WITNESS]
    hidden = {'gpl': '1 2 3 y', 'ice': 'aabbcc', 'txt': 'FF010203', 'hex': 'aabbcc', 'pal': '1 2 3'}
    for fmt in FORMATS:
        for brk in ('\n', '\r\n', '\r', '\n\n'):
            t = 'x' + brk + hidden[fmt]
            for where in ('title', 'author', 'desc', 'name'):
                p = {'fmt': fmt, 'title': '', 'author': '', 'desc': '', 'cols': [(9, 9, 9), (8, 7, 6)], 'names': {}}
                if where == 'name': p['names'] = {1: t}
                else: p[where] = t
                out.append(p)
    return out

def wf(p):
    """negation of the class KnownC16_1 of the fixed finding (Coq: meta_nl_free): no line feed in a text the format writes.
    Only used to name the failure: a round-trip failure inside the class carries the signature of the fixed finding"""
    if p['fmt'] in ('hex', 'pal'): return True
    texts = [p['title'], p['author'], p['desc']] + (list(p['names'].values()) if p['fmt'] == 'ice' else [])
    return all('\n' not in s for s in texts)

def parse_exp_case(c):
    try:
        f = c.split()
        dec = lambda h: b''.decode() if h == '-' else bytes.fromhex(h).decode('utf-8')
        raw = b'' if f[5] == '-' else bytes.fromhex(f[5])
        cols = [tuple(raw[i:i + 3]) for i in range(0, len(raw), 3)]
        names = {}
        for t in f[6:]:
            i, h = t.split(',')
            names[int(i)] = dec(h)
        return {'fmt': f[1], 'title': dec(f[2]), 'author': dec(f[3]), 'desc': dec(f[4]), 'cols': cols, 'names': names}
    except Exception:
        return None

def replay(ctx, body):
    from vlib import driver
    inp = body.get('input')
    print('replay', ID, str(inp)[:400])
    if not isinstance(inp, str) or inp.endswith('…'):
        print(json.dumps(body, indent=1)[:4000]); return 1
    ok, out = driver.stage_build()
    r = ctx.impl([inp], per_case_timeout=120)[0]
    print('implementation:', trunc(r))
    if r is None or r[0] != 'ok': return 1
    v = r[1]
    if inp.startswith('pal_exp '):
        p = parse_exp_case(inp)
        nb = v[0]; rest = v[1 + nb:]
        want = [0, len(p['cols'])] + [x for col in p['cols'] for x in col]
        print('exported text:', repr(bytes(v[1:1 + nb]).decode('utf-8', 'replace'))[:1500])
        print('loaded back  :', rest[:60]); print('palette      :', want[:60])
        return 0 if rest == want else 1
    if inp.startswith('pal_oracle '):
        print('oracle verdict:', v, ORACLE_SIG.get(v[0], '') if v != [0] else 'property holds')
        return 0 if v == [0] else 1
    if inp.startswith('pal_sweep63'):
        return 0 if v[0] == 0 else 1
    return 1

LEVEL_TEXT = ('Machine-checked proof (Coq, closed under the global context), for palettes of every length: insert_color returns an index that get_rgb '
              'resolves to the inserted colour, leaves every valid index unchanged, returns the first existing index for a present colour; along every '
              'sequence of insert/set/lookup/push/fill/resize/clear operations an index keeps its colour until a set on that index (or a shrink below it). '
              'The 6-bit VGA expansion/reduction expressions extracted from from_63/as_vec_63 and from_ega_data/to_ega_data are idempotent on all bytes and '
              'the identity on 0..63, lifted to whole palettes; export_palette followed by load_palette returns the same RGB sequence for Hex, JASC PAL, '
              'GIMP GPL, ICE and Paint.NET TXT for EVERY title/author/description/colour name (the exporters write line breaks in these texts as blanks: '
              'single_line, generated from the source; files of palettes without line breaks are proved unchanged). The line printers are generated from the '
              'format! strings and their argument lists, the loaders are hand-written matchers pinned to the source regexes; after the fixes of the GPL colour '
              'regex and of the verbatim copy of texts with line feeds (commits in /repo) nothing of the property is left outside except the regex-crate '
              'equivalence, which is a tested oracle.')
LEVEL_NOTE = ('Trusted: Coq kernel + vm_compute; the python translator (templates, expression and format-string translation); equivalence of the hand-written '
              'matchers with the regex crate on the pinned regexes (differential stage C, Unicode classes taken from the regex-syntax tables); UTF-8 coding; no axioms.')
TECHNIQUE = ('Coq proof (list induction over colours and operation sequences; complete vm_compute sweeps of the 256 channel values for codec and number printing); '
             'translator tie for channel expressions, tables, format strings; differential tie for the regex matchers')
