"""C08 extension: stage C on the FULL document (palette, fonts, SAUCE, modes, selection mask) and the operations modelled in
coq/Model/DocModel.v / DocOps.v.  Used by props/c08.py (correspondence_x).

A case = a document (the explicit-rows documents of props/c08.py plus ice / palette / font mode, SAUCE flag, extra font slots, caret
font page) and a sequence of operations interleaved with undo / redo; model (Run/RunC08X.v run_xtrace) and implementation
(harness c08xtrace) are compared on the whole observation after every step."""

LIFTED = ['setc', 'setc', 'setc', 'swap', 'addl', 'reml', 'raise', 'lower', 'dup', 'clearl', 'togvis', 'movel', 'lsize', 'lsize',
          'sel', 'sel', 'desel', 'flipx', 'flipy', 'jleft', 'jright', 'center', 'transp', 'caret', 'caret', 'cur', 'cur', 'mirror']

STAGE1 = ['xresize', 'xresize', 'pal', 'sauce', 'sauce', 'fontpage', 'fontpage', 'setfont', 'saucefont', 'addfont', 'addfont', 'remfont',
          'fontslot', 'fontslot', 'replfont', 'ice', 'ice', 'palmode', 'palmode']

STAGE2 = ['merge', 'merge', 'merge', 'anchor', 'anchor', 'stampdown', 'stampdown', 'pastex', 'pastex', 'pastex', 'cur', 'cur']
STAGE3 = ['crop', 'croprect', 'croprect', 'resize1', 'resize1', 'sel']
STAGE4 = ['addmask', 'addmask', 'inverse', 'enumsel', 'clrsel', 'clrsel', 'erase', 'erase', 'sel', 'sel', 'sel', 'centerline', 'jlineleft', 'jlineright',
          'eraserow', 'eraserow_s', 'eraserow_e', 'erasecol', 'erasecol_s', 'erasecol_e']

STAGE5 = ['rotate', 'rotate', 'delrow', 'delrow', 'insrow', 'insrow', 'delcol', 'delcol', 'inscol', 'inscol', 'scrup', 'scrup', 'scrdown', 'scrdown', 'scrleft', 'scrleft', 'scrright', 'scrright', 'sel', 'caret', 'caret', 'desel']

PALS = [[0x000000, 0xAA0000, 0x00AA00, 0x0000AA], [0x101010 * k for k in range(16)], [0x000000, 0xFFFFFF], [],
        [0, 170, 43520, 43690, 11141120, 11141290, 11162880, 11184810, 5592405, 5592575, 5635925, 5636095, 16733525, 16733695, 16777045, 16777215, 0x123456, 0x00AA00]]


def zs(v):
    return '(%d)' % v if v < 0 else str(v)


def x_doc(rng, B):
    d = B.c_doc(rng)
    ice = rng.choice([0, 0, 1, 2])
    pm = rng.choice([1, 1, 0, 3, 2])
    fm = rng.choice([0, 1, 2, 3, 3, 3])
    sauce = rng.choice([0, 0, 1, 1, 1, 2])
    extra = []
    if rng.random() < 0.5: extra.append((rng.choice([1, 2, 3]), rng.choice([1, 5, 7])))
    if rng.random() < 0.3: extra.append((rng.choice([2, 3, 100]), rng.choice([2, 6])))
    cfp = rng.choice([0, 0, 0, 1, 2, 3])
    return (d, ice, pm, fm, sauce, extra, cfp)


def xdoc_text(xd, B):
    d, ice, pm, fm, sauce, extra, cfp = xd
    w, h, layers, cur, mir, cx, cy = d
    t = ['B', w, h, ice, pm, fm, sauce]
    for (lw, lh, ox, oy, fl, mode, rows) in layers:
        t += ['X', lw, lh, ox, oy, fl, mode, len(rows)]
        for r in rows: t += [len(r)] + r
    for (slot, page) in extra: t += ['F', slot, page]
    t += ['C', cfp, 'P', cur, mir, cx, cy]
    return ' '.join(map(str, t))


def xdoc_coq(xd, B):
    d, ice, pm, fm, sauce, extra, cfp = xd
    return '(%s, %d, %d, %d, %d, [%s], %d)' % (B.doc_coq(d), ice, pm, fm, sauce, '; '.join('(%d, %d)' % e for e in extra), cfp)


def x_op(rng, w, h, B, pool):
    f = rng.choice(pool)
    if f in ('U', 'R'): return (f, [])
    if f in LIFTED:
        while True:
            o = B.c_op(rng, w, h)
            if o[0] == f: return o
    if f == 'xresize': return ('xresize', [rng.choice([w, w // 2, w + 2, 1, -1]), rng.choice([h, h + 1, 2, 0])])
    if f == 'pal': return ('pal', list(rng.choice(PALS)))
    if f == 'sauce':
        k = rng.choice([0, 1, 2, 3])
        return ('sauce', [k, rng.choice([w, w + 1, 80]), rng.choice([h, 25])])
    if f == 'fontpage': return ('fontpage', [rng.choice([0, 1, 2, 3, 100])])
    if f in ('setfont', 'addfont'): return (f, [rng.choice([0, 1, 2, 3, 5, 42, 43, 99])])
    if f == 'saucefont': return ('saucefont', [rng.choice([0, 1, 2])])
    if f == 'remfont': return ('remfont', [rng.choice([0, 1, 2, 3, 100])])
    if f == 'fontslot':
        a = rng.choice([1, 2, 3, 100, 0]); b = rng.choice([0, 1, 2, 3, 101])
        if a == 0: b = 0
        return ('fontslot', [a, b])
    if f == 'replfont':
        a = rng.choice([1, 1, 2, 3, 0]); b = rng.choice([0, 1, 2, 3])
        if a == 0: b = 0
        return ('replfont', [a, b])
    if f == 'merge': return ('merge', [rng.choice([0, 1, 1, 1, 2, 2, 3])])
    if f == 'pastex':
        pw, ph = rng.choice([1, 2, 3]), rng.choice([1, 2])
        return ('pastex', [rng.choice([0, 1, -1, w - 2]), rng.choice([0, 1, h - 1]), pw, ph] + [B.c_cell(rng) if rng.random() < 0.7 else enc(32, 7, 0, 0, 32768) for _ in range(pw * ph)])
    if f == 'croprect': return ('croprect', [rng.choice([0, 1, 2, -1]), rng.choice([0, 1, -1]), rng.choice([w, w // 2, 2, 1, w + 2, 0]), rng.choice([h, h // 2, 1, h + 1])])
    if f == 'resize1': return ('resize1', [rng.choice([w, w // 2, w + 2, 1, 3]), rng.choice([h, h // 2, h + 1, 1, 2])])
    if f == 'enumsel': return ('enumsel', [rng.choice([65, 66, 32, 112, 0])])
    if f == 'ice': return ('ice', [rng.randrange(3)])
    if f == 'palmode': return ('palmode', [rng.randrange(4)])
    return (f, [])


X_NAME = {'xresize': 'XResize', 'pal': 'XPal', 'sauce': 'XSauce', 'fontpage': 'XFontPage', 'setfont': 'XSetFontA', 'saucefont': 'XSetFontS',
          'addfont': 'XAddFontA', 'remfont': 'XRemFont', 'fontslot': 'XFontSlot', 'replfont': 'XReplFont', 'ice': 'XIce', 'palmode': 'XPalMode',
          'merge': 'XMerge', 'anchor': 'XAnchor', 'stampdown': 'XStamp', 'crop': 'XCrop', 'croprect': 'XCropRect', 'resize1': 'XResizeL',
          'addmask': 'XAddMask', 'inverse': 'XInverseSel', 'enumsel': 'XEnumSel', 'clrsel': 'XClrSel', 'erase': 'XErase',
          'centerline': 'XCenterLine', 'jlineleft': 'XJLineLeft', 'jlineright': 'XJLineRight', 'eraserow': 'XEraseRow', 'eraserow_s': 'XEraseRowS',
          'eraserow_e': 'XEraseRowE', 'erasecol': 'XEraseCol', 'erasecol_s': 'XEraseColS', 'erasecol_e': 'XEraseColE',
          'rotate': 'XRotateL', 'delrow': 'XDelRow', 'insrow': 'XInsRow', 'delcol': 'XDelCol', 'inscol': 'XInsCol', 'scrup': 'XScrUp', 'scrdown': 'XScrDown', 'scrleft': 'XScrLeft', 'scrright': 'XScrRight',
          'U': 'XSU', 'R': 'XSR'}
H_NAME = {'xresize': 'resize 0', 'resize1': 'resize 1'}


def xop_text(op, B):
    f, a = op
    if f in X_NAME and f not in ('U', 'R'):
        return ' '.join([H_NAME.get(f, f)] + [str(v) for v in a])
    return B.op_text(op) if f not in ('U', 'R') else f


def xop_coq(op, B):
    f, a = op
    if f == 'pal': return '(XPal [%s])' % '; '.join(map(str, a))
    if f == 'pastex': return '(XPaste %s %s %d %d [%s])' % (zs(a[0]), zs(a[1]), a[2], a[3], '; '.join(map(str, a[4:])))
    if f in X_NAME:
        return '(%s)' % ' '.join([X_NAME[f]] + [zs(v) for v in a]) if a else X_NAME[f]
    return '(XL (%s))' % B.op_coq(op)


def xtrace_case(xd, ops, B):
    return 'c08xtrace %s | %s' % (xdoc_text(xd, B), ' ; '.join(xop_text(o, B) for o in ops))


def xtrace_expr(xd, ops, B):
    return 'run_xtrace ENV %s [%s]' % (xdoc_coq(xd, B), '; '.join(xop_coq(o, B) for o in ops))


def split_xblocks(v):
    """number of complete observation blocks and the trailing failure code (or None); None, None when malformed"""
    i = 0; n = 0
    try:
        while i < len(v):
            if v[i] != 0: return n, v[i]
            bh = v[i + 4]; nl = v[i + 5]; i += 6
            for _ in range(nl):
                nlines = v[i + 9]; i += 10
                for _ in range(nlines): i += 1 + v[i]
            i += 4
            i += 1 + v[i]
            i += 1 + 2 * v[i]
            i += 4 if v[i] == 1 else 1
            i += 6 if v[i] == 1 else 1
            i += min(max(bh, 0), 200)
            n += 1
    except IndexError:
        return None, None
    return n, None


def probe(ctx):
    r = ctx.impl(['c08probe'], per_case_timeout=60)[0]
    if r[0] != 'ok' or len(r[1]) != 16 + 64 + 2 + 5 + 256: raise RuntimeError('c08probe failed: %r' % (r,))
    v = r[1]
    return v[:16], v[16:80], v[80:82], v[82:87], v[87:]


FLIP_FONTS = [0, 1, 2, 3, 5, 6, 7, 42, 100, 101]      # every font a case can put into the font table (ANSI pages; 100 + i = SAUCE font i)


def probe_flips(ctx):
    rs = ctx.impl(['c08flipf %d' % k for k in FLIP_FONTS], per_case_timeout=60)
    out = []
    for k, r in zip(FLIP_FONTS, rs):
        if r[0] != 'ok' or len(r[1]) != 513: raise RuntimeError('c08flipf %d failed: %r' % (k, r))
        out.append((r[1][0], r[1][1:257], r[1][257:]))
    return out


def x_imports(flips, pr):
    dos, ansi, sf, sr, rot = pr
    L = lambda l: '[%s]' % '; '.join(map(str, l))
    fl = '[%s]' % '; '.join('(%d, %s, %s)' % (i, L(fx), L(fy)) for i, fx, fy in flips)
    return ('From IE Require Import Run.RunC08 Run.RunC08X.\nLocal Open Scope Z_scope.\n'
            'Definition ENV : xenv := (%s, %s, %s, %s, %s, %s).' % (fl, L(dos), L(ansi), L(sf), L(sr), L(rot)))


def enc(ch, fg, bg, fp, attr):
    return ch | (fg << 21) | (bg << 29) | (fp << 37) | (attr << 41)


def base_doc(w, h, layers, cur=0, mir=0, cx=0, cy=0):
    return (w, h, layers, cur, mir, cx, cy)


A, Bc, Sp = enc(65, 7, 0, 0, 0), enc(66, 14, 9, 0, 8), enc(32, 7, 12, 0, 0)
X_DIRECTED = [
    # palette / sauce / font page swaps and their undo
    ((base_doc(6, 4, [(6, 4, 0, 0, 1, 0, [[A, Bc]])]), 0, 1, 3, 1, [(2, 5)], 2),
     [('pal', [0, 0xAA0000, 0x00AA00]), ('sauce', [2, 80, 25]), ('fontpage', [1]), ('sauce', [0, 0, 0]), ('U', []), ('U', []), ('U', []), ('U', []), ('R', []), ('R', []), ('R', []), ('R', [])]),
    # fixed (C08-setfont-records-slot0): set font writes the caret's slot and records the font of THAT slot
    ((base_doc(6, 4, [(6, 4, 0, 0, 1, 0, [])]), 0, 1, 3, 0, [(2, 5)], 2), [('setfont', [7]), ('U', []), ('R', [])]),
    # fixed (C08-addfont-overwrites-slot): add font on an occupied slot
    ((base_doc(6, 4, [(6, 4, 0, 0, 1, 0, [])]), 0, 1, 3, 0, [(2, 5)], 0), [('addfont', [2]), ('U', []), ('R', [])]),
    # fixed (C08-fontslot-overwrites-slot): change font slot onto an occupied slot (from <> 0)
    ((base_doc(6, 4, [(6, 4, 0, 0, 1, 0, [[enc(65, 7, 0, 2, 0)]])]), 0, 1, 3, 0, [(2, 5), (3, 6)], 0), [('fontslot', [2, 3]), ('U', []), ('R', [])]),
    # fixed (C08-resize-rewrites-sauce-size): resize / crop / resize with layers with a SAUCE record of another size
    ((base_doc(6, 4, [(6, 4, 0, 0, 1, 0, [])]), 0, 1, 0, 2, [], 0), [('xresize', [3, 2]), ('U', []), ('R', [])]),
    ((base_doc(6, 4, [(6, 4, 0, 0, 1, 0, [[A, Bc]])]), 0, 1, 0, 2, [], 0),
     [('croprect', [1, 0, 4, 3]), ('sauce', [1, 9, 9]), ('resize1', [3, 2]), ('xresize', [5, 5]), ('U', []), ('U', []), ('U', []), ('U', []), ('R', []), ('R', []), ('R', []), ('R', [])]),
    # set font on an EMPTY caret slot (undo empties it again), with slot 0 removed, and in the modes that write slot 0
    ((base_doc(6, 4, [(6, 4, 0, 0, 1, 0, [])]), 0, 1, 3, 0, [(2, 5)], 3),
     [('setfont', [7]), ('saucefont', [1]), ('U', []), ('U', []), ('R', []), ('R', []), ('remfont', [0]), ('setfont', [5]), ('fontpage', [0]), ('setfont', [1]), ('U', []), ('U', []), ('U', []), ('U', [])]),
    ((base_doc(6, 4, [(6, 4, 0, 0, 1, 0, [])]), 0, 1, 1, 0, [(2, 5)], 2), [('setfont', [7]), ('saucefont', [1]), ('U', []), ('U', []), ('R', []), ('R', [])]),
    # add font twice onto the same slot, change font slot back and forth over occupied slots, undo everything, redo everything
    ((base_doc(6, 4, [(6, 4, 0, 0, 1, 0, [[enc(65, 7, 0, 2, 0)]])]), 0, 1, 3, 0, [(2, 5), (3, 6)], 0),
     [('addfont', [2]), ('addfont', [2]), ('fontslot', [2, 3]), ('fontslot', [3, 2]), ('fontslot', [2, 2]), ('U', []), ('U', []), ('U', []), ('U', []), ('U', []),
      ('R', []), ('R', []), ('R', []), ('R', []), ('R', []), ('U', []), ('U', []), ('R', []), ('R', [])]),
    # ice / palette modes
    ((base_doc(6, 4, [(6, 4, 0, 0, 1, 0, [[A, Bc, Sp, enc(176, 3, 10, 0, 0), enc(220, 1, 9, 0, 0)]])]), 0, 1, 0, 0, [], 0),
     [('ice', [1]), ('ice', [2]), ('palmode', [2]), ('palmode', [0]), ('palmode', [3]), ('palmode', [1]), ('U', []), ('U', []), ('U', []), ('U', []), ('U', []), ('U', []),
      ('R', []), ('R', []), ('R', []), ('R', []), ('R', []), ('R', [])]),
    # fixed (C08-scroll-area-raw-lines): scroll up / down over part of the layer width, one row high and several rows high; the whole width
    ((base_doc(6, 4, [(6, 4, 0, 0, 1, 0, [[A, Bc, A, Sp, A, Bc], [Bc, A], [A, A, A, Bc, Sp], [Sp, Sp, Bc]])]), 0, 1, 0, 0, [], 0),
     [('sel', [1, 1, 3, 2, 0]), ('scrup', []), ('scrdown', []), ('sel', [1, 0, 4, 3, 0]), ('scrup', []), ('scrup', []), ('scrdown', []), ('sel', [2, 1, 6, 4, 0]), ('scrdown', []),
      ('U', []), ('U', []), ('U', []), ('U', []), ('U', []), ('U', []), ('U', []), ('U', []), ('U', []), ('R', []), ('R', []), ('R', []), ('R', []), ('R', []), ('R', []), ('R', []), ('R', []), ('R', [])]),
    ((base_doc(6, 4, [(6, 4, 0, 0, 1, 0, [[A, A, A, A], [Bc]])]), 0, 1, 0, 0, [], 0),
     [('sel', [1, 0, 3, 2, 0]), ('scrup', []), ('scrleft', []), ('scrright', []), ('scrright', []), ('desel', []), ('scrup', []), ('scrdown', []), ('scrdown', []), ('scrleft', []),
      ('U', []), ('U', []), ('U', []), ('U', []), ('U', []), ('U', []), ('U', []), ('R', []), ('R', []), ('R', []), ('R', []), ('R', [])]),
    # paste, anchor, merge, stamp, crop, resize with layers
    ((base_doc(6, 4, [(6, 4, 0, 0, 1, 0, [[A, Bc, A], [Bc]])]), 0, 1, 0, 1, [], 0),
     [('pastex', [1, 1, 2, 1, A, Bc]), ('cur', [1]), ('stampdown', []), ('anchor', []), ('pastex', [4, 2, 3, 2, A, A, A, Bc, Bc, Bc]), ('merge', [1]),
      ('croprect', [1, 0, 4, 3]), ('resize1', [3, 2]), ('U', []), ('U', []), ('U', []), ('U', []), ('U', []), ('U', []), ('R', []), ('R', []), ('R', []), ('R', []), ('R', []), ('R', [])]),
    # selection mask: add, inverse, enumerate, erase through the mask, the wrappers
    ((base_doc(6, 4, [(6, 4, 0, 0, 1, 0, [[A, Bc, A, A, A, A], [Bc, A, A], [A], [A, A]])], 0, 0, 2, 1), 0, 1, 0, 0, [], 0),
     [('sel', [1, 0, 3, 2, 0]), ('addmask', []), ('sel', [2, 1, 5, 3, 2]), ('addmask', []), ('inverse', []), ('enumsel', [66]), ('erase', []),
      ('sel', [0, 0, 2, 2, 0]), ('addmask', []), ('eraserow', []), ('erasecol_e', []), ('U', []), ('U', []), ('U', []), ('U', []), ('U', []), ('U', []), ('U', []), ('U', []), ('U', []),
      ('R', []), ('R', []), ('R', []), ('R', []), ('R', []), ('R', []), ('R', []), ('R', []), ('R', [])]),
    # fixed (C08-rowcol-raw-lines): a record that stores whole `lines` vectors re-imposes another stored shape between redo and undo of a row / column record
    ((base_doc(6, 4, [(6, 4, 0, 0, 1, 0, [])], 0, 0, 2, 1), 0, 1, 0, 0, [], 0),
     [('jleft', []), ('delcol', []), ('palmode', [0]), ('U', []), ('U', []), ('U', []), ('R', []), ('R', []), ('R', []), ('U', []), ('U', []), ('U', []), ('R', []), ('R', []), ('R', [])]),
    ((base_doc(6, 4, [(6, 4, 0, 0, 1, 0, [[A, Bc, A]])], 0, 0, 2, 3), 0, 1, 0, 0, [], 0),
     [('jleft', []), ('delrow', []), ('ice', [0]), ('insrow', []), ('palmode', [0]), ('inscol', []), ('U', []), ('U', []), ('U', []), ('U', []), ('U', []), ('U', []),
      ('R', []), ('R', []), ('R', []), ('R', []), ('R', []), ('R', []), ('U', []), ('U', []), ('U', []), ('U', []), ('U', []), ('U', [])]),
    # rows and columns with HIDDEN content: the layer stores 4 rows of 6 cells but is 4 x 3, then 3 x 2
    ((base_doc(6, 4, [(4, 3, 0, 0, 1, 0, [[A, Bc, A, Bc, A, Bc], [Bc, A, A, A, A, A], [A, A, Bc, Bc, A, A], [Bc, Bc, Bc, A, A, A]])], 0, 0, 1, 1), 0, 1, 0, 0, [], 0),
     [('lsize', [0, 3, 2]), ('inscol', []), ('delcol', []), ('insrow', []), ('delrow', []), ('caret', [4, 3]), ('inscol', []), ('delrow', []),
      ('U', []), ('U', []), ('U', []), ('U', []), ('U', []), ('U', []), ('U', []), ('R', []), ('R', []), ('R', []), ('R', []), ('R', []), ('R', []), ('R', [])]),
    # rotate, rows and columns
    ((base_doc(6, 4, [(5, 3, 0, 0, 1, 0, [[A, enc(220, 7, 0, 0, 0), enc(179, 7, 0, 0, 0)], [Bc]])], 0, 0, 1, 1), 0, 1, 0, 0, [], 0),
     [('rotate', []), ('delrow', []), ('insrow', []), ('delcol', []), ('inscol', []), ('U', []), ('U', []), ('U', []), ('U', []), ('U', []), ('R', []), ('R', []), ('R', []), ('R', []), ('R', [])]),
    ((base_doc(6, 4, [(6, 4, 0, 0, 1, 0, [[A, Bc]]), (3, 2, 1, 1, 17, 0, [[enc(67, 2, 0, 1, 0)]])], 1), 0, 1, 3, 1, [(1, 5)], 1),
     [('replfont', [1, 2]), ('remfont', [1]), ('fontslot', [0, 0]), ('U', []), ('U', []), ('U', []), ('R', []), ('R', []), ('R', [])]),
]


def pools(stage):
    p = list(LIFTED) + ['U'] * 6 + ['R'] * 3
    if stage >= 1: p += STAGE1 * 2
    if stage >= 2: p += STAGE2 * 2
    if stage >= 3: p += STAGE3 * 2
    if stage >= 4: p += STAGE4
    if stage >= 5: p += STAGE5 * 2
    return p


def correspondence_x(ctx, B, n_random, stage=5):
    rng = ctx.rng
    pr = probe(ctx)
    flips = probe_flips(ctx)
    hist = list(X_DIRECTED)
    pool = pools(stage)
    for _ in range(n_random):
        xd = x_doc(rng, B)
        n = rng.choice([3, 6, 10, 14])
        ops = [x_op(rng, xd[0][0], xd[0][1], B, pool) for _ in range(n)]
        if rng.random() < 0.5:
            # undo the last few steps and redo them: every record's undo AND redo-after-undo gets exercised
            m = rng.choice([1, 2, 3, 4])
            ops += [('U', [])] * m + [('R', [])] * m
        hist.append((xd, ops))
    dis = []; total = 0; nontriv = set(); opcount = {}; outcomes = {'all-ok': 0, 'err': 0, 'panic': 0}
    model_errors = []; skipped = [0]
    for rnd in range(3):
        if not hist: break
        cases = [xtrace_case(xd, ops, B) for xd, ops in hist]
        exprs = [xtrace_expr(xd, ops, B) for xd, ops in hist]
        impl = ctx.impl(cases, per_case_timeout=60)
        model = ctx.model(x_imports(flips, pr), exprs, timeout=900)
        model_errors += getattr(ctx, 'model_errors', [])[:1]
        nxt = []
        for (xd, ops), c, r, m in zip(hist, cases, impl, model):
            total += 1
            a = r[1] if (r is not None and r[0] == 'ok') else None
            if a is not None and m is not None and m and m[-1] == 9 and a[:len(m) - 1] == m[:-1] and len(a) >= len(m):
                # the model declares the next operation outside itself: drop that operation and go on
                nbs, _ = split_xblocks(m[:-1])
                if nbs is not None and nbs >= 1:
                    skipped[0] += 1
                    k = nbs - 1
                    nxt.append((xd, ops[:k] + ops[k + 1:]))
                    continue
            if a is None or m is None or a != m:
                k = 0
                if a is not None and m is not None:
                    while k < min(len(a), len(m)) and a[k] == m[k]: k += 1
                dis.append({'case': c[:700], 'hist': [xop_text(o, B) for o in ops if o[0] not in ('U', 'R')], 'doc_s': xdoc_text(xd, B),
                            'impl': (a[max(0, k - 6):k + 6] if a is not None else r), 'model': (m[max(0, k - 6):k + 6] if m is not None else None),
                            'first_difference_at': k})
                continue
            nb, code = split_xblocks(a)
            if nb is None:
                dis.append({'case': c[:700], 'impl': 'malformed observation', 'model': None}); continue
            for o in ops[:nb - 1 + (1 if code else 0)]: opcount[o[0]] = opcount.get(o[0], 0) + 1
            if code is None:
                outcomes['all-ok'] += 1
                if len(ops) >= 2: nontriv.add(c)
            else:
                outcomes['err' if code == 1 else 'panic'] += 1
                k = nb - 1
                nxt.append((xd, ops[:k] + ops[k + 1:]))
        hist = nxt
    return {'cases': total, 'disagreements': dis, 'distinct_nontrivial': len(nontriv),
            'distribution': {'steps_by_operation': opcount, 'outcomes': outcomes, 'outside_model_skips': skipped[0], 'model_errors': model_errors[:2]}}
