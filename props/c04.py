"""C04 — ANSI files written by the engine parse back to the same picture (DESIGN.md section 7, C04 and Appendix C)."""
import json

ID = 'C04'
GENERATORS = ['gen_codepage', 'gen_ansi']
COQ_TARGETS = ['Props/C04.vo', 'Run/RunC04.vo']
PROPS_MODULE = 'Props.C04'
THEOREMS = ['sgr_sync_step', 'sgr_sync_seq', 'sgr_sync_from_start', 'sgr_sync_refuted_before_fix', 'layout_roundtrip',
            'ansi_roundtrip', 'numbers_read_back', 'trimmed_cells_are_blank', 'known_bom_witness']
SWEEP_LEMMAS = ['AnsiPalProofs.dos_nodup (the 16 regenerated DOS colours are pairwise different; complete check by vm_compute)',
                'AnsiSgrProofs.color_offsets_involution, code_fg, code_bg (all 8 entries of the regenerated COLOR_OFFSETS against the 30-37 / 40-47 arms)',
                'AnsiSgrProofs.code_bold .. code_dul, code_reset (the nine regenerated SGR numbers of get_color hit the matching select_graphic_rendition arms)',
                'AnsiRowsProofs.prun_ice_on / prun_ice_off / prun_clear / prun_home (the four regenerated escape literals of screen_prep / screen_end)']

# ---------------------------------------------------------------------------------------------------------------
# option lattice
BIT_NAMES = ['compress', 'use_cursor_forward', 'use_repeat_sequences', 'preserve_line_length', 'longer_terminal_output',
             'use_extended_colors', 'save_sauce', 'lossles_output', 'normalize_whitespaces']
B_COMPRESS, B_CUF, B_REP, B_PRESERVE, B_LONGER, B_EXT, B_SAUCE, B_LOSSLESS, B_NORMALIZE = [1 << i for i in range(9)]
DEFAULT_BITS = B_COMPRESS | B_CUF | B_EXT | B_NORMALIZE          # SaveOptions::new()
# the 2^8 combinations of the quantifier: every boolean of SaveOptions that reaches the ANSI encoder or the
# reload (modern_terminal_output is excluded by the property text); normalize_whitespaces is the ninth boolean, it
# only matters when lossles_output is off and is enumerated as well (so 2^9 points per (prep, cc, ice))
N_BITS = 9

DOS = [(0, 0, 0), (0, 0, 0xAA), (0, 0xAA, 0), (0, 0xAA, 0xAA), (0xAA, 0, 0), (0xAA, 0, 0xAA), (0xAA, 0x55, 0), (0xAA, 0xAA, 0xAA),
       (0x55, 0x55, 0x55), (0x55, 0x55, 0xFF), (0x55, 0xFF, 0x55), (0x55, 0xFF, 0xFF), (0xFF, 0x55, 0x55), (0xFF, 0x55, 0xFF),
       (0xFF, 0xFF, 0x55), (0xFF, 0xFF, 0xFF)]
BOLD, FAINT, ITALIC, BLINK, UNDERLINE, DOUBLE_UNDERLINE, CONCEAL, CROSSED_OUT = 1, 2, 4, 8, 16, 32, 64, 128
CONTROL_CHARS = [27, 7, 8, 9, 12, 127, 13, 10]       # StringGenerator::CONTROL_CHARS (checked against Gen/AnsiConsts.v in stage C)

def unencodable(cc):
    """characters the writer cannot encode in a control-character mode (derived from the writer + parser code, see notes):
    Ignore writes the raw byte: ESC, BEL, FF, DEL, CR, LF are acted upon by the parser (BS and TAB are printed);
    IcyTerm writes ESC + byte and the parser prints every one of the eight; FilterOut replaces all eight by '.'"""
    if cc == 0: return {27, 7, 12, 127, 13, 10}
    if cc == 1: return set()
    return set(CONTROL_CHARS)

def xterm_palette(ctx):
    import re, os
    if not hasattr(ctx, '_xterm'):
        from translator import gen_ansi
        txt = gen_ansi.generate(ctx.repo)['AnsiConsts.v']
        m = re.search(r'XTERM_256_PALETTE : list \(N \* N \* N\) := \[(.*?)\]\.', txt)
        ctx._xterm = [tuple(int(x) for x in t.split(',')) for t in re.findall(r'\(([^)]*)\)', m.group(1))]
    return ctx._xterm

# ---------------------------------------------------------------------------------------------------------------
# buffers
def pal_ok(pal):
    """the palette condition of the theorems: index 0 is black and a dark DOS colour sits among 0..7 only at its own index"""
    if len(pal) < 1 or pal[0] != (0, 0, 0): return False
    for i in range(min(8, len(pal))):
        if pal[i] in DOS[:8] and DOS.index(pal[i]) != i: return False
    for i in range(len(pal), 8):            # indices past the end read as black
        if i != 0: return False
    return True

def gen_palette(ctx, rng):
    xt = xterm_palette(ctx)
    base = list(DOS)
    if rng.random() < 0.25:
        for _ in range(rng.randint(1, 4)):
            i = rng.randrange(1, 16)
            r = rng.random()
            if r < 0.5: base[i] = tuple(rng.randrange(256) for _ in range(3))
            elif r < 0.75: base[i] = rng.choice(xt)
            elif i >= 8: base[i] = rng.choice(DOS)
        for i in range(8):
            if base[i] in DOS[:8] and DOS.index(base[i]) != i: base[i] = DOS[i]
    k = rng.choice([0, 0, 1, 2, 4, 7])
    extra = []
    for _ in range(k):
        r = rng.random()
        if r < 0.45: extra.append(tuple(rng.randrange(256) for _ in range(3)))
        elif r < 0.9: extra.append(rng.choice(xt))
        else: extra.append(rng.choice(DOS))
    pal = base + extra
    assert pal_ok(pal)
    return pal

def gen_buffer(ctx, rng, bits, cc, ice, small=True):
    """(w, h, palette, cells) inside the domain of the property for this option point"""
    w = 80
    if bits & B_SAUCE and rng.random() < 0.6:
        w = rng.choice([1, 2, 3, 5, 40, 79, 81, 132, rng.randint(1, 132)])
    r = rng.random()
    if small: h = rng.choice([1, 1, 2, 2, 3, 4, 6]) if r < 0.9 else rng.randint(1, 60)
    else: h = rng.randint(1, 60)
    pal = gen_palette(ctx, rng)
    bad = unencodable(cc)
    allowed = [c for c in range(256) if c not in bad]
    def attr():
        fg = rng.randrange(len(pal)) if rng.random() < 0.8 else rng.randrange(16)
        bg = rng.randrange(len(pal)) if rng.random() < 0.5 else rng.choice([0, 0, 0, 1, 7, 8])
        fl = 0
        if rng.random() < 0.6:
            for b in (BOLD, FAINT, ITALIC, BLINK, UNDERLINE, DOUBLE_UNDERLINE, CONCEAL, CROSSED_OUT):
                if rng.random() < 0.15: fl |= b
        if ice == 2: fl &= ~BLINK
        return fg, bg, fl
    plain = (32, 7, 0, 0)
    cells = []
    for y in range(h):
        row = []
        style = rng.random()
        while len(row) < w:
            r = rng.random()
            a = attr()
            if r < 0.05:
                row += [(rng.choice([32, 65, 219, 0, 255]),) + a] * (w - len(row))          # run to the right margin
            elif r < 0.30:
                row += [(rng.choice([32, 32, 32, 0, 255, 219, 65, rng.choice(allowed)]),) + a] * rng.randint(1, 14)
            elif r < 0.48:
                row += [plain] * rng.randint(1, 30)
            elif r < 0.58:
                row += ([(32,) + a] if style < 0.5 else [plain]) * (w - len(row))            # blank tail
            else:
                row += [(rng.choice(allowed),) + a for _ in range(rng.randint(1, 6))]
        cells += row[:w]
    # a file that starts with the UTF-8 byte order mark is read as UTF-8 (known finding C04:utf8-bom-prefix)
    if len(cells) >= 3 and [c[0] for c in cells[:3]] == [0xEF, 0xBB, 0xBF]:
        cells[0] = (0x41,) + cells[0][1:]
    return w, h, pal, cells

def hexcells(cells):
    return ''.join('%02x%04x%04x%04x' % c for c in cells) or '-'

def hexpal(pal):
    return ''.join('%02x%02x%02x' % c for c in pal)

def case_str(kind, pt, buf):
    bits, prep, cc, ice = pt
    w, h, pal, cells = buf
    return '%s %d %d %d %d %d %d %s %s' % (kind, bits, prep, cc, ice, w, h, hexpal(pal), hexcells(cells))

def coq_args(pt, buf):
    bits, prep, cc, ice = pt
    w, h, pal, cells = buf
    return '%d %d %d %d %d %d [%s] [%s]' % (bits, prep, cc, ice, w, h, '; '.join('(%d, %d, %d)' % c for c in pal),
                                            '; '.join('(%d, %d, %d, %d)' % c for c in cells))

def describe(pt):
    bits, prep, cc, ice = pt
    on = [n for i, n in enumerate(BIT_NAMES) if bits >> i & 1]
    return {'options_on': on, 'screen_preparation': ['None', 'ClearScreen', 'Home'][prep],
            'control_char_handling': ['Ignore', 'IcyTerm', 'FilterOut'][cc], 'ice_mode': ['Unlimited', 'Blink', 'Ice'][ice]}

ALL_ON = (1 << N_BITS) - 1

def sample_points(rng, n):
    """a seeded sample of the lattice that always contains the default point and the all-off / all-on corners"""
    pts = [(DEFAULT_BITS, 0, 0, 1), (DEFAULT_BITS, 0, 0, 0), (DEFAULT_BITS, 0, 0, 2), (0, 0, 0, 0), (ALL_ON, 2, 2, 2), (ALL_ON, 1, 1, 1),
           (0, 2, 1, 2)]
    while len(pts) < n:
        pts.append((rng.randrange(1 << N_BITS), rng.randrange(3), rng.randrange(3), rng.randrange(3)))
    return pts[:max(n, 7)]

def all_points():
    return [(b, p, c, i) for b in range(1 << N_BITS) for p in range(3) for c in range(3) for i in range(3)]

# ---------------------------------------------------------------------------------------------------------------
# regression inputs: the five defects repaired by `fix:` commits (each must keep passing)
def regression_cases():
    R = []
    d = DEFAULT_BITS | B_LOSSLESS
    def row(cells, w=80):
        return list(cells) + [(32, 7, 0, 0)] * (w - len(cells))
    # concealed A, blinking B, plain C  (writer marked the state as blinking on SGR 8)
    R.append(('fixed:concealed-then-blink', (d, 0, 0, 1), (80, 1, list(DOS), row([(65, 7, 0, CONCEAL), (66, 7, 0, BLINK), (67, 7, 0, 0)]))))
    # bold flag on a low-intensity foreground
    R.append(('fixed:bold-low-foreground', (d, 0, 0, 1), (80, 1, list(DOS), row([(65, 3, 0, BOLD), (66, 3, 0, 0)]))))
    # blanks on an xterm-256 background replaced by cursor-forward
    R.append(('fixed:cursor-forward-on-xterm-background', (d, 0, 0, 1),
              (80, 1, list(DOS) + [(0, 0, 95)], row([(65, 7, 0, 0)] + [(32, 7, 16, 0)] * 8 + [(66, 7, 0, 0)]))))
    # trailing blinking blanks trimmed
    R.append(('fixed:trailing-blinking-blanks', (d, 0, 0, 1), (80, 1, list(DOS), [(65, 7, 0, 0)] + [(32, 7, 0, BLINK)] * 79)))
    # cursor-forward up to the right margin (preserved line length), followed by a second row
    R.append(('fixed:cursor-forward-to-margin', (d | B_PRESERVE, 0, 0, 1),
              (80, 2, list(DOS), row([(65, 7, 0, 0)]) + row([(66, 7, 0, 0)]))))
    # last row made of cursor movements only (the reloaded buffer was one row shorter)
    R.append(('fixed:last-row-cursor-forward-only', (d, 0, 0, 1),
              (80, 2, list(DOS), row([(65, 7, 0, 0)]) + [(32, 7, 0, 0)] * 6 + [(32, 1, 0, 0)] * 74)))
    return R

# ---------------------------------------------------------------------------------------------------------------
def blank(c):
    return c in (0, 32, 255)

def strip_sauce(bits, data):
    """Buffer::to_bytes appends 0x1A + the 128-byte SAUCE record (no comments); its contents belong to C11"""
    if bits & B_SAUCE:
        if len(data) < 129 or data[-129] != 0x1A or bytes(data[-128:-121]) != b'SAUCE00':
            return None
        return data[:-129]
    return data

def correspondence(ctx):
    rng = ctx.rng
    n_default = ctx.n(300, 1500)
    n_random = ctx.n(200, 2500)
    todo = []
    for name, pt, buf in regression_cases():
        todo.append((pt, buf))
    for i in range(n_default):
        pt = (DEFAULT_BITS, 0, 0, i % 3)
        todo.append((pt, gen_buffer(ctx, rng, pt[0], pt[2], pt[3])))
    for pt in sample_points(rng, n_random):
        todo.append((pt, gen_buffer(ctx, rng, pt[0], pt[2], pt[3])))
    cases = [case_str('c04rt', pt, buf) for pt, buf in todo]
    exprs = ['run_rt_full ' + coq_args(pt, buf) for pt, buf in todo]
    # exhaustive leaf ties: glyph shapes of the default font (256 codes), CONTROL_CHARS, parse_next_number
    cases.append('c04shapes'); exprs.append('run_shapes')
    numbers = ['0', '7', '33', '255', '1000', '2147483647', '2147483648', '99999999999', '0000123'] + \
              [str(rng.randrange(10 ** rng.randint(1, 12))) for _ in range(40)]
    for s in numbers:
        cases.append('c04num ' + s); exprs.append('run_number [%s]%%N' % '; '.join(str(ord(c)) for c in s))
    impl = ctx.impl(cases, per_case_timeout=20)
    model = ctx.model('From IE Require Import Run.RunC04.\nLocal Open Scope N_scope.', exprs, timeout=ctx.n(400, 1200))
    dis = []
    dist = {'heights': {}, 'widths': {}, 'option_points': len({pt for pt, _ in todo}), 'bytes_compared': 0, 'cells_compared': 0}
    distinct = set()
    for i, (c, r, m) in enumerate(zip(cases, impl, model)):
        if i >= len(todo):
            if r is None or r[0] != 'ok' or m is None or r[1] != m:
                dis.append({'case': c, 'impl': r, 'model': m})
            continue
        pt, buf = todo[i]
        dist['heights'][str(buf[1])] = dist['heights'].get(str(buf[1]), 0) + 1
        dist['widths'][str(buf[0])] = dist['widths'].get(str(buf[0]), 0) + 1
        short = {'point': describe(pt), 'size': [buf[0], buf[1]], 'case': c if len(c) < 4000 else c[:4000] + '…'}
        if r is None or r[0] != 'ok' or m is None:
            dis.append(dict(short, impl=r if r is None or r[0] != 'ok' else 'ok', model=None if m is None else 'ok', full_case=c)); continue
        a = r[1]
        n = a[0]; data = a[1:1 + n]; obs = a[1 + n:]
        content = strip_sauce(pt[0], data)
        mn = m[0]; mdata = m[1:1 + mn]; mobs = m[1 + mn:]
        if content is None or content != mdata:
            k = next((j for j in range(min(len(content or []), len(mdata))) if content[j] != mdata[j]), min(len(content or []), len(mdata)))
            dis.append(dict(short, what='bytes differ at offset %d' % k, impl=(content or [])[max(0, k - 20):k + 20], model=mdata[max(0, k - 20):k + 20], full_case=c)); continue
        if obs != mobs:
            k = next((j for j in range(min(len(obs), len(mobs))) if obs[j] != mobs[j]), min(len(obs), len(mobs)))
            dis.append(dict(short, what='reloaded buffers differ at observation %d' % k, impl=obs[max(0, k - 8):k + 8], model=mobs[max(0, k - 8):k + 8], full_case=c)); continue
        dist['bytes_compared'] += len(mdata); dist['cells_compared'] += (len(obs) - 3) // 4
        distinct.add(hash(c))
    dist['model_errors'] = getattr(ctx, 'model_errors', [])[:2]
    return {'cases': len(cases), 'disagreements': dis, 'distinct_nontrivial': len(distinct), 'distribution': dist,
            'samples': [cases[0][:300], cases[len(todo) // 2][:300]], 'exhaustive': False}

# ---------------------------------------------------------------------------------------------------------------
def classify(res):
    """signature of a failing c04chk observation (None = property holds)"""
    bad, ws, hs, wd, hd, nbytes, b0, b1, b2 = res[:9]
    bom = [b0, b1, b2] == [0xEF, 0xBB, 0xBF]
    if bad:
        x, y = res[9], res[10]
        s, d = res[11:15], res[15:19]
        diff = [n for n, a, b in zip(['char', 'fg', 'bg', 'blink'], s, d) if a != b]
        det = {'x': x, 'y': y, 'source_shows': s, 'reloaded_shows': d, 'mismatching_cells': bad,
               'source_size': [ws, hs], 'reloaded_size': [wd, hd], 'file_bytes': nbytes}
        # the loader reads a file that starts with EF BB BF as UTF-8: the one class listed in known_findings.d/C04.json
        return ('utf8-bom-prefix' if bom else 'cell-mismatch:' + '+'.join(diff)), det
    if (ws, hs) != (wd, hd):
        kind = 'height' if ws == wd else 'width'
        return ('utf8-bom-prefix' if bom else 'size-mismatch:' + kind), {'source_size': [ws, hs], 'reloaded_size': [wd, hd], 'file_bytes': nbytes}
    return None, None

def bom_case():
    """cells 0xEF 0xBB 0xBF at the start of the picture: the file starts with the UTF-8 byte order mark"""
    row = [(0xEF, 7, 0, 0), (0xBB, 7, 0, 0), (0xBF, 7, 0, 0), (0x41, 7, 0, 0)] + [(32, 7, 0, 0)] * 76
    return ('known:utf8-bom-prefix', (DEFAULT_BITS, 0, 0, 1), (80, 1, list(DOS), row))

def search(ctx, broken):
    rng = ctx.rng
    todo = []      # (label, point, buffer)
    for name, pt, buf in regression_cases():
        todo.append((name, pt, buf))
    todo.append(bom_case())
    # inputs on which model and implementation disagreed come first
    for b in broken:
        d = b.get('detail') or {}
        if isinstance(d, dict) and str(d.get('full_case', '')).startswith('c04rt '):
            todo.append(('disagreement', None, d['full_case']))
    if ctx.thorough or ctx.escalated:
        per_point = 3 if ctx.thorough else 1
        pts = all_points()
        if not ctx.thorough: pts = [p for p in pts if rng.random() < 0.9]     # escalated run: ~12 000 points x 1 buffer
        for pt in pts:
            for k in range(per_point):
                todo.append(('lattice', pt, gen_buffer(ctx, rng, pt[0], pt[2], pt[3], small=(k != 2 or rng.random() < 0.8))))
    else:
        for pt in sample_points(rng, 1200):
            todo.append(('sample', pt, gen_buffer(ctx, rng, pt[0], pt[2], pt[3])))
        for i in range(300):
            pt = (DEFAULT_BITS, 0, 0, i % 3)
            todo.append(('default', pt, gen_buffer(ctx, rng, pt[0], pt[2], pt[3], small=(i % 10 != 0))))
    cases = []
    for label, pt, buf in todo:
        if pt is None: cases.append('c04chk ' + buf.split(' ', 1)[1])
        else: cases.append(case_str('c04chk', pt, buf))
    impl = ctx.impl(cases, per_case_timeout=20)
    failures = []
    points = set(); distinct = set()
    for (label, pt, buf), c, r in zip(todo, cases, impl):
        if pt is not None: points.add(pt)
        distinct.add(hash(c))
        if r is None or r[0] != 'ok':
            failures.append({'signature': 'roundtrip-%s' % (r[0] if r else 'none'), 'input': c, 'impl': r,
                             'detail': {'point': describe(pt) if pt else None, 'label': label}})
            continue
        sig, det = classify(r[1])
        if sig is None: continue
        det['point'] = describe(pt) if pt else None; det['label'] = label
        failures.append({'signature': sig, 'input': c, 'impl': r[1][:19], 'expected': 'every cell shows the same character, foreground, background and blink state', 'detail': det})
    failures.sort(key=lambda f: len(f['input']))
    return {'cases': len(cases), 'failures': failures, 'distinct_nontrivial': len(distinct), 'option_points': len(points),
            'all_option_points': len(points) == (1 << N_BITS) * 27,
            'unproved_option_points': UNPROVED_OPTION_POINTS,
            'samples': [cases[0][:300], cases[-1][:300]]}

def replay(ctx, body):
    from vlib import driver
    inp = body.get('input')
    print('replay', ID, (inp or '')[:200])
    if isinstance(inp, str) and inp.startswith('c04'):
        ok, out = driver.stage_build()
        args = inp.split(' ', 1)[1]
        r = ctx.impl(['c04chk ' + args, 'c04rt ' + args], per_case_timeout=30)
        print('implementation oracle (mismatches, sizes, first mismatch):', r[0])
        a = args.split()
        bits, prep, cc, ice, w, h = map(int, a[:6])
        pal = [tuple(int(a[6][i + j:i + j + 2], 16) for j in (0, 2, 4)) for i in range(0, len(a[6]), 6)] if a[6] != '-' else []
        cells = [(int(a[7][i:i + 2], 16), int(a[7][i + 2:i + 6], 16), int(a[7][i + 6:i + 10], 16), int(a[7][i + 10:i + 14], 16)) for i in range(0, len(a[7]), 14)] if a[7] != '-' else []
        m = ctx.model('From IE Require Import Run.RunC04.\nLocal Open Scope N_scope.', ['run_rt_full ' + coq_args((bits, prep, cc, ice), (w, h, pal, cells))])
        if r[1] and r[1][0] == 'ok':
            n = r[1][1][0]
            print('bytes written:', bytes(r[1][1][1:1 + n]))
        if m[0]:
            print('model bytes:  ', bytes(m[0][1:1 + m[0][0]]))
        if r[0] and r[0][0] == 'ok':
            sig, det = classify(r[0][1])
            print('verdict:', sig or 'property holds on this input', det or '')
            return 1 if sig else 0
        return 1
    print(json.dumps(body, indent=1)[:3000])
    return 1

# ---------------------------------------------------------------------------------------------------------------
UNPROVED_OPTION_POINTS = []   # layout_roundtrip / ansi_roundtrip quantify over every SaveOptions value of the model:
                              # all 2^9 booleans x 3 screen preparations x 3 control-character modes x 3 ice modes
TRUSTED = ['Coq 8.16.1 kernel + vm_compute (model evaluation in stage C, the finite checks over regenerated constants); no axioms (Print Assumptions: closed)',
           'translator/gen_ansi.py + gen_codepage.py + vlib/rustsrc.py: extraction of DOS_DEFAULT_PALETTE, XTERM_256_PALETTE, COLOR_OFFSETS, CONTROL_CHARS, the SGR numbers and escape literals of get_color / screen_prep / screen_end, SaveOptions::new(), the attribute bit constants',
           'the hand-written function bodies of Model/AnsiWriter.v and Model/AnsiParser.v are tied to the code by differential execution only (stage C: bytes written byte for byte, reloaded cells cell for cell; glyph shapes of the default font and parse_next_number as leaf ties)',
           'harness/src/c04.rs (builds the buffer through the public API, Buffer::to_bytes / Buffer::from_bytes, reads cells with Buffer::get_char and Palette::get_rgb)',
           'the SAUCE record is treated as a carrier of width / height / non-blink flag (its byte layout is property C11); stage C strips it from the written bytes and checks that it is there']
UNMODELLED = ['UTF-8 "modern terminal" output (excluded by the property text), output_line_length (line breaking with CSI s / CSI u) and skip_lines: not options of the property',
              'fonts other than page 0 with the default font (CSI 0;n SP D font switches, font upload), sixels, hyperlinks',
              'everything of ansi::Parser outside the slice the writer can produce (Model/AnsiParser.v sets p_unmodelled there; the theorem shows the writer never leaves the slice)',
              'a file that starts with EF BB BF is decoded as UTF-8 by convert_ansi_to_utf8: known finding utf8-bom-prefix, excluded from ansi_roundtrip by the predicate KnownC04_bom',
              'u32 overflow of `state.fg_idx += 8` (needs a palette index above 2^32 - 9) and i32 overflow of cursor coordinates (needs 2^31 rows)']
ASSUMPTIONS = ['single-layer buffer without alpha channel: Buffer::get_char returns a visible cell everywhere (cells never written read as the default cell)',
               'palette: index 0 is black and, among the indices 0..7, a dark DOS colour sits only at its own index (pal_ok); components are u8; colour indices of cells are plain palette indices (no direct-RGB bit 31)',
               'in ice mode no cell carries the blink flag (it has no meaning on screen there and the format cannot express it)',
               'characters: everything but the code points the chosen control-character mode cannot encode (Ignore: 27, 7, 12, 127, 13, 10; IcyTerm: none; FilterOut: 27, 7, 8, 9, 12, 127, 13, 10)',
               'width 80, or 1..=1000 when the SAUCE record carries it; heights and widths below 2^30 (decimal parameters are read back exactly below that)',
               'the picture does not start with the three characters 0xEF 0xBB 0xBF (known finding)']
RULE = ('single-layer buffers: width 80 (1..=132 when save_sauce), heights 1..=60 (90 % of them <= 6 in the quick tier), palette = 16 DOS colours with up to 4 '
        'entries replaced (keeping pal_ok) plus 0..7 extra xterm-256 / random RGB / duplicate DOS colours, cells built from runs (identical cells up to 14 long, '
        'default blanks up to 30, runs to the right margin, blank tails with and without attributes) and single random cells over the whole CP437 range minus the '
        'characters the control-character mode cannot encode, 8 rendition flags with probability 0.15 each (no blink in ice mode); option points: quick = default point in '
        'the three ice modes + a seeded sample of the 2^9 x 27 lattice that always contains the default and the all-off / all-on corners; thorough = every point x 3 buffers. '
        'Stage C compares the bytes of Buffer::to_bytes with the model byte for byte and the reloaded buffer cell for cell; stage S evaluates the round-trip oracle on the real code. '
        'A case is non-trivial when the buffer has at least one non-default cell; distinct = distinct (option point, buffer) pairs. Regression inputs of the five repaired defects and the '
        'known-finding input run first in every tier.')
LEVEL_TEXT = ('Machine-checked proof (Coq, closed under the global context) of the whole property on the model: ansi_roundtrip — for EVERY SaveOptions value of the model '
              '(compress, cursor-forward, repeat sequences, preserved line length, longer-terminal positioning, extended colours, SAUCE width, lossless / optimiser, '
              'whitespace normalisation, 3 screen preparations, 3 control-character modes) and the 3 ice modes, every buffer of the domain reloads with the same size and every cell shows the '
              'same character, displayed foreground, background and blink state (oracle relation cell_match_opt). It rests on sgr_sync_step / sgr_sync_seq (rendition refinement: '
              'writer AnsiState vs parser SGR / 24-bit / ice handling, by invariant over any attribute sequence) and layout_roundtrip (row trimming, RLE, CSI n C, CSI n b, CSI y H, CR LF, auto-wrap, '
              'screen preparation, crop). Five defects found on the way are repaired by fix: commits in the source (model = repaired code, sgr_sync_refuted_before_fix documents the old behaviour); '
              'one class is a known finding (file starting with a UTF-8 byte order mark, KnownC04_bom / known_bom_witness). No option point is left unproved.')
LEVEL_NOTE = ('Trusted: Coq kernel + vm_compute; the python translator for the constants; the hand models of get_color / generate_cells / generate / ColorOptimizer and of the parser slice, '
              'tied to the Rust code by differential execution on every run (bytes and reloaded cells), not by translation; SAUCE record bytes left to C11; no axioms.')
TECHNIQUE = 'Coq proof (refinement invariant for the rendition state, simulation of the row emitter against the cursor/auto-wrap model); translator + correspondence tie; round-trip oracle on the real code over the whole option lattice'
