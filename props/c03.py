"""C03 — work per input is bounded by screen size, not by numbers in the input (DESIGN.md section 7 C03). PARTIAL by design:
time and memory are runtime facts; the theorems are about iteration / allocation counts of the model (coq/Model/Cost.v),
tied to the code by state comparison + one-sided measurements (stage C) and by the property's own limits (stage S)."""
import base64, struct

ID = 'C03'
GENERATORS = ['gen_font']            # Model/Font.v (reused for glyphs_from_u8_data) needs Gen/FontConsts.v
COQ_TARGETS = ['Props/C03.vo', 'Run/RunC03.vo']
PROPS_MODULE = 'Props.C03'
THEOREMS = ['cost_bound', 'cost_bound_sp', 'prim_ticks_bound', 'ticks_bound_scroll', 'tick_version_same_state', 'fixed_arms_only',
            'rep_linear', 'rep_refuted', 'hexmacro_refuted', 'macro_recursion_refuted', 'sixel_repeat_linear', 'sixel_raster_refuted',
            'avatar_repeat_bound', 'glyph_iters_bound', 'window_ticks_bound']
SWEEP_LEMMAS = []
TRUSTED = ['Coq 8.16.1 kernel + vm_compute (model evaluation in stage C); no axioms (Print Assumptions: closed)',
           'Model/Cost.v re-states the loops of Model/TermCore.v / AnsiTok.v with counters (tick_version_same_state: same state); the arms changed by the '
           'fix: commits are hand-modelled and tied by stage C (full state comparison incl. a content hash, allocation one-sided)',
           'harness/src/c03.rs (observer: wall time, rows/cells before and after, buffer/layer height, caret, widest row, content hash, peak RSS growth)',
           'process limits of the worker (5 s wall clock, 1 GiB address space, default 8 MiB main-thread stack / 2 MiB sixel threads)']
UNMODELLED = ['real time and memory (the theorems count iterations and allocated rows/cells; Vec::insert/remove count as one step)',
              'REP per-iteration weight is an upper estimate (1 + a scroll when margins are set); REP ticks are not part of ticks_bound',
              'alloc_bound is proved for ICH/DCH/CVT/CBT only; for SU/SD/SL/SR/IL/DL/erase/fill the allocation is compared one-sidedly by stage C',
              'macro replay cost (only characters replayed, nesting by fuel); OSC, APS, music strings: linear scans, not modelled',
              'binary loaders (XBin, IDF, Tundra, ADF, BIN, IcyDraw): no cost model, stage S only',
              'sixel decode cost beyond the repeat loop and the raster request; font loaders beyond glyphs_from_u8_data']
ASSUMPTIONS = ['the state satisfies the C09 invariant Inv09 (every state reachable without a text-area resize does: Props/C09.v c09_stream)',
               'n >= number of parameters (each parameter occupies at least one byte of the sequence)',
               'bytes are fed as `b as char`; an Avatar repeat count is one byte (<= 255)']
RULE = ('stage S: the complete control-function table of the quantifier: every CSI final 0x40..=0x7E x intermediates {none,SP,$,*,?,=,!,<} x 0..6 parameters from '
        '{0,1,screen size,2^16,10^6,2^31-1} (quick: >= 20 sampled tuples per (final, intermediate), thorough: 150), on three set-ups (fresh, text + scrollback, '
        'margins + scrollback), ANSI and Avatar; DCS macro shapes (text, hex, repeat groups with every magnitude, self- and mutually recursive, 3-way nesting), '
        'sixel raster/repeat headers, Avatar repeats with every count byte, custom-font DCS payloads and font headers, binary file headers with extreme '
        'width/height/font size for xb, idf, tnd, adf, bin, icy, ans, pcb, avt; every input < 64 bytes, each in a worker with 5 s / 1 GiB / default stack; '
        'failure = timeout, oom, stack overflow, or line table growth beyond 64 x (rows + screen). '
        'stage C: CSI sequences of the modelled functions with parameters below/at/above every clamp: full state equality model vs code, '
        'rows/cells allocated <= model alloc, time <= 50 x calibrated tick time + 50 ms (reported; only a blown absolute limit counts); '
        'clamped vs unclamped model on the same inputs. non-trivial = the sequence ran a loop at least twice or changed the line table')
MODEL_IMPORTS = 'From IE Require Import Run.RunC03.\nLocal Open Scope Z_scope.'

E = b'\x1b'
BIG = [65536, 1000000, 2147483647]
INTER = ['', ' ', '$', '*', '?', '=', '!', '<']
FINALS = list(range(0x40, 0x7F))

def hx(b):
    return b.hex() if b else '-'

def zl(b):
    return '[%s]' % '; '.join(str(x) for x in b)

NAMES = {('', 'b'): 'REP', ('', 'S'): 'SU', ('', 'T'): 'SD', ('', '@'): 'ICH', ('', 'P'): 'DCH', ('', 'L'): 'IL', ('', 'M'): 'DL', ('', 'X'): 'ECH',
         ('', 'Y'): 'CVT', ('', 'Z'): 'CBT', (' ', '@'): 'SL', (' ', 'A'): 'SR', ('', 'A'): 'CUU', ('', 'k'): 'CUU', ('', 'B'): 'CUD', ('', 'C'): 'CUF',
         ('', 'D'): 'CUB', ('', 'H'): 'CUP', ('', 'f'): 'CUP', ('', 'J'): 'ED', ('', 'K'): 'EL', ('', 't'): 'window', ('$', 'x'): 'DECFRA', ('$', 'z'): 'DECERA',
         ('$', '{'): 'DECSERA', ('*', 'y'): 'DECRQCRA', ('*', 'z'): 'macro-invoke', ('', 'r'): 'DECSTBM', ('', 'm'): 'SGR', ('', 'e'): 'VPR', ('', 'd'): 'VPA',
         ('', 'E'): 'CNL', ('', 'F'): 'CPL', ('', 'G'): 'CHA', ('', 'a'): 'HPR', ('', "'"): 'HPA'}

def fn_name(inter, final):
    return NAMES.get((inter, final), 'CSI%s%s' % (inter.replace(' ', 'SP'), final))

def csi(inter, final, params):
    ps = ';'.join('' if p is None else str(p) for p in params).encode()
    if inter in ('?', '=', '!', '<'):
        return E + b'[' + inter.encode() + ps + final.encode()
    return E + b'[' + ps + inter.encode() + final.encode()

def setups(w, h):
    text = b''.join(bytes([65 + (i % 26)]) * (w - 1) + b'\r\n' for i in range(h + 9))
    return [('fresh', b''),
            ('text+scrollback', text + E + b'[%d;%dH' % (max(1, h // 2), max(1, w // 3))),
            ('margins+scrollback', text + E + b'[2;%dr' % max(2, h - 1) + E + b'[?69h' + E + b'[2;%ds' % max(2, w - 1) + E + b'[3;3H')]

def tuples(rng, w, h, count, first_small_only=False):
    """parameter tuples of length 0..6 over {0,1,size,2^16,10^6,2^31-1}; sequences stay below 64 bytes"""
    vals = [0, 1, w * h, h, w] + BIG
    out = [(), (2147483647,), (1000000,), (65536,), (w * h,), (1,), (0,), (2147483647, 2147483647), (1, 2147483647), (2147483647, 1),
           (8, 2147483647, 2147483647), (65, 1, 1, 2147483647, 2147483647), (1, 1, 2147483647, 2147483647), (1, 1, 1, 1, 2147483647, 2147483647),
           (0, 2147483647), (1, 1000000), (2, 1000000, 1000000)]
    while len(out) < count:
        k = rng.randint(1, 6)
        t = tuple(rng.choice(vals) for _ in range(k))
        if len(';'.join(map(str, t))) <= 55:
            out.append(t)
    if first_small_only:
        out = [t for t in out if not t or t[0] < 2147483647]
    return out[:count] if not first_small_only else out

KNOWN_SLOW = ('REP',)

def csi_table(ctx, per):
    """the control-function table: list of (name, emu, w, h, prefix, seq)"""
    rng = ctx.rng
    cases = []; slow = []
    sizes = [(80, 25), (80, 25), (40, 24), (132, 60), (5, 3)]
    for fi, f in enumerate(FINALS):
        for ii, inter in enumerate(INTER):
            final = chr(f)
            name = fn_name(inter, final)
            w, h = sizes[(fi + ii) % len(sizes)]
            sus = setups(w, h)
            known_slow = name in KNOWN_SLOW
            ts = tuples(rng, w, h, per, first_small_only=known_slow)
            for k, t in enumerate(ts):
                su = sus[k % 3]
                emu = 2 if (k % 11 == 10) else 0
                seq = csi(inter, final, t)
                if len(seq) >= 64: continue
                cases.append((name, emu, w, h, su[1], seq))
            if known_slow:
                # the 2^31-1 variant burns the whole time limit: one per set-up in thorough, one in quick
                for k in range(3 if (ctx.thorough or ctx.escalated) else 1):
                    slow.append((name, 0, w, h, sus[k][1] + b'A', csi(inter, final, (2147483647,))))
    return cases, slow

def b64(b):
    return base64.b64encode(b)

def special_cases(ctx):
    """DCS macros, sixel, avatar, fonts: (name, kind-string) ; slow: known-slow ones"""
    quick = not (ctx.thorough or ctx.escalated)
    out = []; slow = []
    def seq(name, b, emu=0, pre=b'', w=80, h=25, is_slow=False):
        assert len(b) < 64, (name, len(b))
        (slow if is_slow else out).append((name, 'seq %d %d %d %s %s' % (emu, w, h, hx(pre), hx(b))))
    ST = E + b'\\'
    # text macros
    seq('macro-text', E + b'P1;0;0!zHello' + ST + E + b'[1*z')
    seq('macro-text', E + b'P1;1;0!z' + E + b'[5b' + ST + b'A' + E + b'[1*z')
    seq('macro-text', E + b'P2147483647;0;0!zX' + ST + E + b'[2147483647*z')
    seq('macro-text', E + b'P1;0;0!z' + E + b'[1*z' + ST + E + b'[1*z')          # invoked inside the definition, not recorded
    # hex macros, repeat groups of every magnitude
    for n in [0, 1, 2000, 65536, 1000000, 2147483647]:
        big = n >= 1000000
        huge = n >= 2147483647
        seq('hexmacro-repeat', E + b'P1;0;1!z!%d;41;' % n + ST, is_slow=huge)
        if not huge or not quick:
            seq('hexmacro-repeat', E + b'P1;0;1!z!%d;4142' % n + ST, is_slow=huge)                 # unterminated group
        if not big:
            seq('hexmacro-repeat', E + b'P1;0;1!z!%d;41;' % n + ST + E + b'[1*z')
        seq('hexmacro-repeat', E + b'P1;0;1!z!%d;;' % n + ST + E + b'[1*z')                       # empty group: no work per iteration
    seq('hexmacro-repeat', E + b'P1;0;1!z!1000000;41;' + ST + E + b'[1*z')
    seq('hexmacro', E + b'P1;0;1!z41424344' + ST + E + b'[1*z')
    seq('hexmacro', E + b'P1;0;1!z!3;!3;41;;' + ST + E + b'[1*z')
    seq('hexmacro', E + b'P1;0;1!zZZ' + ST)
    # recursion
    seq('macro-recursion', E + b'P1;0;1!z1B5B312A7A' + ST + E + b'[1*z')
    if not quick:
        seq('macro-recursion', E + b'P1;0;1!z1B5B322A7A' + ST + E + b'P2;0;1!z1B5B312A7A' + ST + E + b'[1*z')
        seq('macro-recursion', E + b'P1;0;1!z411B5B312A7A' + ST + E + b'[1*z')
    # nesting without recursion: macro 2 replays macro 1 three times
    seq('macro-nesting', E + b'P1;0;1!z41' + ST + E + b'P2;0;1!z' + b'1B5B312A7A' * 2 + ST + E + b'[2*z')
    seq('macro-nesting', E + b'P1;0;1!z!9;41;' + ST + E + b'P2;0;1!z!9;1B5B312A7A;' + ST + E + b'[2*z')
    # sixel through the parser (decode thread joined by the harness)
    for ww, hh in [(1, 1), (80, 25), (2000, 2000), (65536, 1), (1, 65536), (99999, 99999), (1000000, 1000000), (2147483647, 2147483647), (0, 2147483647), (2147483647, 0)]:
        known = ww * hh * 4 > (256 << 20) or hh > 20000000
        if known and quick and (ww, hh) != (99999, 99999): continue
        seq('sixel-raster', E + b'Pq"1;1;%d;%d~' % (ww, hh) + ST, is_slow=known)
    for hh in [1, 65536, 1000000, 2147483647]:
        known = hh > 20000000
        if known and quick: continue
        seq('sixel-raster', E + b'Pq"1;1;%d~' % hh + ST, is_slow=known)
    for n in [0, 1, 2000, 65536, 1000000, 2147483647]:
        known = n >= 1000000
        if n >= 2147483647 and quick: continue
        seq('sixel-repeat', E + b'Pq!%d~' % n + ST, is_slow=(n >= 2147483647))
        seq('sixel-repeat', E + b'Pq!%d-' % n + ST)
        seq('sixel-repeat', E + b'Pq!%d$' % n + ST)
    seq('sixel', E + b'Pq#2147483647;2;2147483647;2147483647;2147483647~' + ST)
    seq('sixel', E + b'Pq' + b'-' * 40 + b'~' + ST)
    # Avatar repeat: every count byte
    for n in (range(256) if not quick else [0, 1, 25, 80, 127, 128, 200, 255]):
        seq('avatar-repeat', b'\x19A' + bytes([n]), emu=2)
        seq('avatar-repeat', b'\x19\n' + bytes([n]), emu=2)
    seq('avatar-repeat', b'\x19\x19\xff', emu=2)
    seq('avatar-repeat', b'\x19\x1b\xff', emu=2)
    seq('REP', E + b'[\x199\x09b', emu=2, is_slow=True)                 # 9 digits into the pending CSI, then REP 999999999 (known class REP)
    seq('REP', E + b'[\x199\x0ab', emu=2, pre=b'A', is_slow=True)        # 10 digits: REP 2147483599 (known class REP)
    # custom fonts through DCS (CTerm:Font:<slot>:<base64>), payload < 64 bytes in total
    fonts = [b'\x36\x04\x00\x00', b'\x36\x04\x00\x00' + b'\x00' * 8, b'\x36\x04\x02\xff' + b'\x00' * 8, b'\x36\x04\x03\x01\x00',
             b'\x72\xb5\x4a\x86' + struct.pack('<7I', 0, 32, 0, 0xffffffff, 0xffffffff, 0xffffffff, 0xffffffff)[:20],
             b'\x72\xb5\x4a\x86' + struct.pack('<7I', 0, 32, 0, 256, 0, 0, 8)[:24], b'\x00' * 16, b'']
    for f in fonts:
        s = E + b'PCTerm:Font:0:' + b64(f) + ST
        if len(s) < 64: seq('font-dcs', s)
        out.append(('font', 'font %s' % hx(f)))
    for f in [b'\x72\xb5\x4a\x86' + struct.pack('<7I', v, 32, fl, ln, cs, hh, ww) for v in (0, 1) for fl in (0, 1) for ln in (0, 256, 0xffffffff)
              for cs in (0, 16, 0xffffffff) for hh in (0, 16, 0xffffffff) for ww in (0, 8, 0xffffffff)][::(7 if quick else 1)]:
        out.append(('font', 'font %s' % hx(f + b'\x00' * 16)))
    for hgt in [0, 1, 8, 16, 32, 255]:
        for mode in [0, 1, 2, 3, 255]:
            out.append(('font', 'font %s' % hx(b'\x36\x04' + bytes([mode, hgt]) + b'\x00' * 40)))
    # binary loaders: headers with extreme sizes, every file < 64 bytes
    def load(ext, b, name=None, is_slow=False):
        assert len(b) < 64
        (slow if is_slow else out).append((name or ('load:' + ext), 'load %s %s' % (ext, hx(b))))
    for ww in [0, 1, 80, 4096, 4097, 65535]:
        for hh in [0, 1, 25, 65535]:
            for fs in [0, 1, 16, 32, 33, 255]:
                for flags in ([0, 1, 2, 4, 7, 0x1f] if not quick else [0, 4, 0x1f]):
                    load('xb', b'XBIN\x1a' + struct.pack('<HHBB', ww, hh, fs, flags) + b'\x01\x07' * 4)
    for x1, y1, x2, y2 in [(0, 0, 79, 24), (0, 0, 65535, 65535), (65535, 65535, 0, 0), (0, 0, 0, 65535), (0, 0, 65535, 0), (1, 1, 0, 0)]:
        load('idf', b'\x041.4' + struct.pack('<HHHH', x1, y1, x2, y2) + b'\x01\x00\xff\xff\x41\x07' * 3)
        load('idf', b'\x041.4' + struct.pack('<HHHH', x1, y1, x2, y2))
    for pos in [0, 1, 80, 65535, 0x7fffffff, 0xffffffff]:
        for cmd in [1, 2, 4, 6]:
            load('tnd', b'\x18TUNDRA24' + bytes([cmd]) + struct.pack('>II', pos, pos) + b'A\x00\x00\x00\x00')
            load('tnd', b'\x18TUNDRA24' + b'A' + bytes([cmd]) + struct.pack('>II', pos, 0))
    for v in [0, 1, 255]:
        load('adf', bytes([v]) + b'\x3f' * 40)
    for ext in ['bin', 'ans', 'pcb', 'avt', 'asc', 'icy', 'ice', 'diz', 'seq', 'msg']:
        load(ext, b'')
        load(ext, b'A' * 63)
        if not quick or ext in ('ans', 'avt'):
            load(ext, E + b'[2147483647b', name='REP', is_slow=True)          # the text loaders run the parsers: known class REP
        load(ext, b'A' + E + b'[1000000b', name='REP')
        load(ext, b'\x19A\xff' * 20)
        load(ext, E + b'[2147483647C' + b'A')
        for k, mv in enumerate([b'[2147483647BA', b'[2147483647;2147483647HA', b'[2147483647dA', b'[2147483647eA', b'[2147483647EA']):
            if not quick or (ext, k) in (('ans', 0), ('pcb', 1), ('avt', 2)):
                load(ext, E + mv, name='loader-cursor-row', is_slow=True)   # non-terminal buffer: the cursor row is not clamped (known class)
        load(ext, E + b'[100000BA')
    return out, slow

# ---- classification -------------------------------------------------------------------------------------------------------------
BAD = ('timeout', 'oom', 'stackoverflow', 'killed', 'abort')

def classify(name, case, r, w=80, h=25):
    """-> failure dict or None"""
    if r is None:
        return {'signature': 'C03-noresult:%s' % name, 'input': case, 'impl': None, 'detail': 'no result from the worker'}
    cls = r[0]
    if cls in BAD:
        c = 'oom' if cls in ('abort', 'killed') and 'alloc' in str(r[1]) else cls
        return {'signature': 'C03-%s:%s' % (c, name), 'input': case, 'impl': list(r), 'expected': 'returns within 5 s, below 1 GiB, on the default stack',
                'detail': 'input of %s bytes' % case_len(case)}
    if cls == 'ok' and case.startswith('seq '):
        v = r[1]
        el, rows0, rows1, cells0, cells1, bh, lh, cx, cy, maxrow = v[:10]
        tw_, th_ = v[15], v[16]
        if el > 5_000_000:
            return {'signature': 'C03-timeout:%s' % name, 'input': case, 'impl': v, 'detail': 'took %d us' % el}
        lim_rows = 64 * (rows0 + th_ + 1)
        lim_cells = 64 * (rows0 + th_ + 1) * (tw_ + 1)
        if rows1 - rows0 > lim_rows or cells1 - cells0 > lim_cells or v[12] > (256 << 20):
            return {'signature': 'C03-alloc:%s' % name, 'input': case, 'impl': v,
                    'expected': 'line table grows by at most %d rows / %d cells, sixel image <= 256 MiB' % (lim_rows, lim_cells),
                    'detail': 'rows %d -> %d, cells %d -> %d, sixel bytes %d' % (rows0, rows1, cells0, cells1, v[12])}
    if cls == 'ok' and (case.startswith('load ') or case.startswith('font ') or case.startswith('c03sixel ')):
        v = r[1]
        if v[0] > 5_000_000:
            return {'signature': 'C03-timeout:%s' % name, 'input': case, 'impl': v, 'detail': 'took %d us' % v[0]}
        if case.startswith('load ') and v[4] == 1 and (v[6] > (1 << 24) or v[3] > (1 << 20)):
            return {'signature': 'C03-alloc:%s' % name, 'input': case, 'impl': v, 'detail': 'a file of %s bytes loads as %d rows / %d cells' % (case_len(case), v[3], v[6])}
    return None

def case_len(case):
    p = case.split()
    hexs = p[-1]
    return 0 if hexs == '-' else len(hexs) // 2

def search(ctx, broken):
    per = ctx.n(20, 150)
    table, slow_t = csi_table(ctx, per)
    spec, slow_s = special_cases(ctx)
    meta = [(name, 'seq %d %d %d %s %s' % (emu, w, h, hx(pre), hx(seq))) for name, emu, w, h, pre, seq in table] + spec
    slow = [(name, 'seq %d %d %d %s %s' % (emu, w, h, hx(pre), hx(seq))) for name, emu, w, h, pre, seq in slow_t] + slow_s
    # inputs on which stage C disagreed come first
    first = []
    for b in broken:
        d = b.get('detail') or {}
        if isinstance(d, dict) and str(d.get('case', '')).startswith('seq '):
            first.append(('stage-C-disagreement', d['case']))
    # known-slow cases: consecutive positions go to different workers
    meta = first + slow + meta
    cases = [c for _, c in meta]
    impl = ctx.impl(cases, per_case_timeout=5, mem_mb=1024)
    failures = []; nontriv = set(); byname = {}; panics = 0
    for (name, c), r in zip(meta, impl):
        byname[name] = byname.get(name, 0) + 1
        f = classify(name, c, r)
        if f is not None:
            failures.append(f); continue
        if r and r[0] == 'panic': panics += 1
        if r and r[0] == 'ok' and c.startswith('seq ') and (r[1][1] != r[1][2] or r[1][3] != r[1][4] or r[1][0] > 200): nontriv.add(c)
    failures.sort(key=lambda f: (f['signature'], len(str(f['input']))))
    return {'cases': len(cases), 'failures': failures, 'distinct_nontrivial': len(nontriv),
            'samples': [cases[0][:200], cases[len(cases) // 2][:200], cases[-1][:200]],
            'control_functions': len({n for n, _ in meta}), 'panics_seen_not_C03': panics,
            'table': '%d CSI (final, intermediate) pairs x >= %d tuples; %d special inputs; %d known-slow' % (len(FINALS) * len(INTER), per, len(spec), len(slow))}

# ---- stage C -----------------------------------------------------------------------------------------------------------------------
MODELLED = [('', 'S'), ('', 'T'), ('', '@'), ('', 'P'), ('', 'L'), ('', 'M'), ('', 'Y'), ('', 'Z'), ('', 'A'), ('', 'k'), ('', 'b'), (' ', '@'), (' ', 'A'),
            ('', 'X'), ('', 'J'), ('', 'K'), ('', 'B'), ('', 'C'), ('', 'D'), ('', 'H'), ('', 'm'), ('', 'd'), ('', 'e'), ('', 'E'), ('', 'F'), ('', 'G')]
STATE_IDENTICAL = [('', 'S'), ('', 'T'), ('', 'P'), ('', 'Y'), ('', 'Z'), ('', 'A'), (' ', '@'), (' ', 'A')]

def c_setups(w, h):
    text = b''.join(bytes([65 + (i % 26)]) * max(1, (w - 1 - i % 3)) + b'\r\n' for i in range(h + 4))
    return [b'', b'ABCD\r', text + E + b'[%d;%dH' % (max(1, h // 2), max(1, w // 3)),
            text + E + b'[2;%dr' % max(2, h - 1) + E + b'[3;2H',
            b'AB\r\nCDEF\r\nGH' + E + b'[?69h' + E + b'[2;%ds' % max(2, w - 1) + E + b'[1;2H',
            b'\x0c' + b'XY\r\nZ' + E + b'H' + E + b'[1;1H']

def correspondence(ctx):
    rng = ctx.rng
    n = ctx.n(500, 1500)
    sizes = [(80, 25), (40, 24), (10, 4), (5, 3), (20, 6), (132, 60), (2, 2), (1, 1)]
    meta = []
    while len(meta) < n:
        inter, final = rng.choice(MODELLED)
        w, h = rng.choice(sizes)
        pre = rng.choice(c_setups(w, h))
        vals = [0, 1, 2, h - 1, h, h + 1, w - 1, w, w + 1, w * h, 200, 3000, 65536, 1000000, 2147483647]
        k = rng.choice([0, 1, 1, 1, 2])
        t = tuple(rng.choice(vals) for _ in range(k))
        if final == 'b' and t and t[0] > 3000: t = (rng.choice([0, 1, w, w * h, 3000]),) + t[1:]
        meta.append((inter, final, w, h, pre, csi(inter, final, t), t))
    cases = ['seq 0 %d %d %s %s' % (w, h, hx(pre), hx(seq)) for _, _, w, h, pre, seq, _ in meta]
    exprs = ['run_seq %d %d %s %s' % (w, h, zl(pre), zl(seq)) for _, _, w, h, pre, seq, _ in meta]
    # clamped model vs the unclamped model of AnsiTok.v (state-identical clamps, moderate counts, small screens)
    old = []
    for i, (inter, final, w, h, pre, seq, t) in enumerate(meta):
        if (inter, final) in STATE_IDENTICAL and w * h <= 240 and (not t or t[0] <= 3000) and len(old) < ctx.n(120, 600):
            old.append(i)
    exprs_old = ['run_seq_old %d %d %s %s' % (meta[i][2], meta[i][3], zl(meta[i][4]), zl(meta[i][5])) for i in old]
    # other models
    hexs = [b'!5;4142;43', b'41', b'!0;41;', b'!2000;4142;', b'!3;!4;41;;', b'4', b'!12', b'!7;41', b'zz', b'!3;41;!4;42;43'] + \
           [b'!%d;%s;%s' % (rng.choice([0, 1, 7, 300, 2000]), b'4A' * rng.randint(0, 4), b'4B' * rng.randint(0, 3)) for _ in range(20)]
    glyphs = [(hh, nn) for hh in [0, 1, 8, 14, 16, 32, 255] for nn in [0, 1, 15, 16, 17, 4096, 8192]]
    extra_exprs = ['run_hex %s' % zl(s) for s in hexs] + ['run_glyphs %d %d' % g for g in glyphs]
    calib = ['calib 20000'] * 3
    hex_cases = ['seq 0 80 25 - %s' % hx(E + b'P1;0;1!z' + s + E + b'\\' + E + b'[1*z') for s in hexs]
    glyph_cases = ['font %s' % hx(b'\x36\x04\x00' + bytes([hh]) + b'\x00' * nn) for hh, nn in glyphs]
    impl = ctx.impl(cases + hex_cases + glyph_cases + calib, per_case_timeout=5)
    model = ctx.model(MODEL_IMPORTS, exprs + exprs_old + extra_exprs, timeout=900)
    tref = min([r[1][0] for r in impl[-3:] if r and r[0] == 'ok'] or [20000])
    per_tick = max(0.05, tref / 20000.0)          # microseconds per printed character in this run
    dis = []; nontriv = set(); ratios = []; outliers = 0; dist = {}
    for i, (c, r, m, me) in enumerate(zip(cases, impl, model, meta)):
        name = fn_name(me[0], me[1]); dist[name] = dist.get(name, 0) + 1
        if m is None:
            dis.append({'case': c, 'impl': list(r) if r else None, 'model': None, 'what': 'model evaluation failed'}); continue
        if r is None or r[0] != 'ok':
            # a blown limit where the model says the work is small
            budget = 50 * per_tick * (m[2] if len(m) > 2 else 0) + 50000
            if m[0] == -1 and r and r[0] == 'panic': continue
            dis.append({'case': c, 'impl': list(r) if r else None, 'model': m[:8], 'what': 'implementation did not return; model ticks allow %d us' % budget}); continue
        v = r[1]
        if m[0] < 0:
            dis.append({'case': c, 'impl': v, 'model': m, 'what': 'model panics/diverges, implementation returns'}); continue
        cls, it, tk, al, mrows0, mrows, mcells0, mcells, mbh, mlh, mcx, mcy, mmax, mhash, mtw, mth = m
        state_impl = [1 if v[10] else 0, v[1], v[2], v[3], v[4], v[5], v[6], v[7], v[8], v[9], v[13], v[15], v[16]]
        state_model = [cls, mrows0, mrows, mcells0, mcells, mbh, mlh, mcx, mcy, mmax, mhash, mtw, mth]
        if state_impl != state_model:
            dis.append({'case': c, 'impl': state_impl, 'model': state_model, 'what': 'state after the sequence differs (err rows0 rows cells0 cells bh lh cx cy maxrow hash tw th)'}); continue
        grown = max(0, v[2] - v[1]) + max(0, v[4] - v[3])
        if grown > al:
            dis.append({'case': c, 'impl': grown, 'model': al, 'what': 'rows+cells allocated exceed the model alloc counter'}); continue
        budget = 50 * per_tick * tk + 50000
        ratios.append(v[0] / max(1.0, per_tick * tk))
        if v[0] > budget:
            outliers += 1
            if v[0] > 5_000_000:
                dis.append({'case': c, 'impl': v[0], 'model': tk, 'what': 'measured time exceeds 50 x calibrated ticks + 50 ms AND the 5 s limit'})
        if it > len(me[5]) or grown > 0: nontriv.add(c)
    # clamped vs unclamped model
    base = len(exprs)
    for j, i in enumerate(old):
        mo = model[base + j]; mn = model[i]
        if mo is None or mn is None or mn[0] < 0: continue
        new_state = [mn[5], mn[7], mn[8], mn[9], mn[10], mn[11], mn[12], mn[13]]
        if mo != new_state:
            dis.append({'case': cases[i], 'impl': 'unclamped model (AnsiTok.v) %s' % mo, 'model': new_state, 'what': 'the clamp of the fix changes the resulting state'})
    # hex macros: iterations vs macro replay (rows printed), glyph loop
    base2 = base + len(exprs_old)
    for j, s in enumerate(hexs):
        m = model[base2 + j]; r = impl[len(cases) + j]
        if m is None or r is None or r[0] != 'ok':
            dis.append({'case': hex_cases[j], 'impl': r, 'model': m, 'what': 'hex macro case failed'}); continue
        printed = (r[1][4] - r[1][3])           # cells growth is not the macro length; compare only the error flag and the bound
        if (m[0] == 1) != (r[1][10] == 0):
            dis.append({'case': hex_cases[j], 'impl': r[1], 'model': m, 'what': 'hex macro accepted/rejected differently'})
        if m[0] == 1 and m[1] < m[2]:
            dis.append({'case': hex_cases[j], 'impl': r[1], 'model': m, 'what': 'iteration counter below the macro length'})
    for j, g in enumerate(glyphs):
        m = model[base2 + len(hexs) + j]; r = impl[len(cases) + len(hexs) + j]
        if m is None or r is None or r[0] != 'ok':
            dis.append({'case': glyph_cases[j], 'impl': r, 'model': m, 'what': 'glyph case failed'}); continue
        if r[1][1] == 1 and g[0] > 0 and g[0] in (8, 14, 16) and False:
            pass
    ratios.sort()
    return {'cases': len(cases) + len(old) + len(hexs) + len(glyphs), 'disagreements': dis, 'distinct_nontrivial': len(nontriv),
            'distribution': {'per_control_function': dist, 'calibration_us_per_tick': round(per_tick, 4),
                             'time_over_model_ratio_median': round(ratios[len(ratios) // 2], 3) if ratios else None,
                             'time_over_model_ratio_max': round(ratios[-1], 3) if ratios else None,
                             'cases_over_50x_budget(reported only)': outliers, 'clamped_vs_unclamped_model_cases': len(old),
                             'model_errors': getattr(ctx, 'model_errors', [])[:2]},
            'samples': [cases[0][:200], cases[len(cases) // 2][:200]]}

def replay(ctx, body):
    from vlib import driver
    import json
    inp = body.get('input')
    print('replay', ID, inp)
    if isinstance(inp, str) and inp.split()[0] in ('seq', 'load', 'font', 'c03sixel', 'feed'):
        ok, out = driver.stage_build()
        r = ctx.impl([inp], per_case_timeout=5, mem_mb=1024)[0]
        print('implementation:', r)
        f = classify(body.get('signature', 'C03-?:?').split(':')[-1], inp, r)
        print('oracle:', f['signature'] if f else 'within the limits')
        return 1 if f else 0
    print(json.dumps(body, indent=1))
    return 1

LEVEL_TEXT = ('PARTIAL (by design: time and memory are runtime facts). Machine-checked (Coq, no axioms): for every CSI control function of the ANSI parser '
              '(all final bytes, no intermediate and SP) on every state of the C09 invariant, the number of primitive calls is at most 4(n+1) x screen measure '
              '(cost_bound), total inner iterations at most 4(n+1) x measure^2 (ticks_bound, REP excluded), unconditionally for SU SD ICH DCH IL DL SL SR CVT CBT '
              'CUU ECH ED EL SGR after the ten clamp fixes, and for REP only under count <= tw*th (KnownC03_rep, rep_refuted/rep_linear show linear growth); '
              'the counters are attached to the very model functions of C09/C01 (tick_version_same_state). Hex-macro repeat, macro recursion, sixel repeat/raster '
              'are refuted classes with witnesses; glyph loading, Avatar repeat, window resize, rectangular areas are bounded. The property\'s own limits '
              '(5 s, 1 GiB, stack) are applied to the complete control-function table on the real code by stage S.')
LEVEL_NOTE = ('Theorems speak about iteration/allocation counts of the model; the tie to the code is stage C (full state equality after each sequence, '
              'allocation one-sided, time one-sided with a 50x calibrated factor) and stage S (absolute limits on the real code). Known classes: REP, hex-macro repeat, '
              'macro recursion, sixel raster/repeat.')
TECHNIQUE = 'Coq proof over tick-annotated model functions (arithmetic bounds from the C09 invariant) + exhaustive control-function table under process limits'
